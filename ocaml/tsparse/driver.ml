(* C02 model driver (stateful: one testscript environment at a time).  Requests:
     reset <cd> <var>*     -> ok                      state := setup_env vars, ts.cd := cd
     line <hex>            -> fail | args <word>*     ts_step: parse the line; an env line updates the state
     parse <hex>           -> fail | args <word>*     ts_parse only
     setenv <k> <v>        -> ok                      TestScript.Setenv
     getenv <name>*        -> v <value>*
     child                 -> none | env <entry>*     child_env state cd
     childlookup <name>    -> none | some <hex>       child_lookup in child_env (none also when child_env fails)
     expand <hex>          -> <hex>                   TestScript.expand
     quotemeta <hex>       -> <hex>
     reliteral <hex>       -> none | some <hex>
     utf8 <hex>            -> true|false
     sqline <word>*        -> <hex>                   join_sp (map sq ws)
     inquote <hex>         -> true|false              in_quote_after l false
     pwdkey                -> <hex>
     consts                -> <separator bytes> <quote byte>   (the regenerated literals of the tokenizer)
     cmp <neg> <env> <name1> <name2> <text1> <text2> -> true|false   do_cmd_cmp in the current state (neg, env: 0|1)
     holds <line> <k> <v>  -> true|false              c02_holds_on state cd line k v
     script <hex>          -> <n> [; fail | ; args <word>*]*   run_script: the whole script text is cut into
                                                      lines by the model and every line goes through ts_step
                                                      (the state is updated); one result per line, in order
     split <hex>           -> <n> <length>*           script_lines_tr only: number of lines and their lengths
     cd <hex>              -> ok                      hstep (HCd dir): ts.cd := dir
     listing               -> none | l <key>=<value>* env_listing (key and value in hex, joined by "=")
     srcstats              -> src <parse> <expand> <getenv> <setenv> <setEnv> <cmdEnv> <skipped> <mismatches> <first mismatch>
                                                      how often the translated functions were run beside the
                                                      model by this process, and how often they disagreed
     histholds <name>*     -> true|false|untracked    the requests since the last reset, read as a history
                                                      (line -> hcmd_of_line, setenv -> HSetenv, cd -> HCd):
                                                      hrun of that history from the reset state is the current
                                                      state, and history_holds is true for every name *)
(* ---- the translated source beside the model.  Gen/TsParseSrc.v (testscript.go translated by
   harness/go2coq) is extracted too; on every request that the model answers with parse / expand /
   getenv / setenv / setup, the translated function is run on the receiver that holds the same state
   and its result must be the model's.  A disagreement replaces the answer by SRC-MISMATCH (which the
   runner then cannot match with the implementation) and is counted; "srcstats" reports the counts.
   The translated tokenizer indexes the line as a list (quadratic), so lines longer than src_cap are
   left to the model alone. *)
let src_cap = 3000
let src_evals : (string, int) Hashtbl.t = Hashtbl.create 8
let src_mismatch = ref 0
let src_first = ref "-"
let src_skipped = ref 0
let bump k = Hashtbl.replace src_evals k (1 + try Hashtbl.find src_evals k with Not_found -> 0)
let recv_of (line : byte list) (s : ts_env) : ts_recv =
  { r_line = line; r_env = s.env_list; r_envMap = Some s.env_map }
let show_res show = function
  | Ok x -> show x | Panic -> "PANIC" | OutOfFuel -> "OUTOFFUEL"
(* check what ok ans: ans if the translated function agreed, the mismatch marker otherwise *)
let src_check (what : string) (ok : bool) (detail : unit -> string) (ans : string) : string =
  bump what;
  if ok then ans else begin
    incr src_mismatch;
    let d = "SRC-MISMATCH " ^ what ^ " " ^ detail () in
    if !src_first = "-" then src_first := d;
    d
  end
let src_parse_check (s : ts_env) (line : byte list) (r : byte list list option) (ans : string) : string =
  let n = List.length line in
  if n > src_cap then (incr src_skipped; ans) else
  let got = src_TestScript_parse (nat_of_int (n + 1)) (recv_of [] s) line in
  let want = match r with
    | None -> Ok Failed
    | Some ws -> Ok (Done (recv_of line s, ws)) in
  src_check "parse" (got = want)
    (fun () -> hex_of_bytes line ^ " -> " ^ show_res (function Failed -> "failed" | Done (_, ws) -> "args " ^ String.concat " " (List.map hex_of_bytes ws)) got)
    ans
(* the env command with arguments: the translated cmdEnv gives the model's next state (and every K=V
   argument through the translated Setenv alone does, too) *)
let src_env_check (s : ts_env) (r : byte list list option) (s' : ts_env) (ans : string) : string =
  match r with
  | Some (c :: args) when c = ts_env_cmd && args <> [] ->
      let step acc a = match acc, split_kv a with
        | Ok rv, Some (k, v) -> src_TestScript_Setenv rv k v
        | _, _ -> acc in
      let got = List.fold_left step (Ok (recv_of [] s)) args in
      let ans = src_check "setenv" (got = Ok (recv_of [] s')) (fun () -> "env line") ans in
      src_check "cmdEnv" (src_TestScript_cmdEnv (recv_of [] s) false args = Ok (Done (recv_of [] s')))
        (fun () -> "env line") ans
  | _ -> ans

let st = ref (setup_env [])
let cd = ref []
(* the history since the last reset (newest first), the reset state, and whether every state change
   since then is in the history (a script request is not) *)
let hist : hcmd list ref = ref []
let vars0 : byte list list ref = ref []
let cd0 : byte list ref = ref []
let tracked = ref true
let hexes l = String.concat " " (List.map hex_of_bytes l)
let show_args = function
  | None -> "fail"
  | Some ws -> if ws = [] then "args" else "args " ^ hexes ws
let () = serve (function
  | "reset" :: c :: vars ->
      cd := bytes_of_hex c; vars0 := List.map bytes_of_hex vars; cd0 := !cd; hist := []; tracked := true;
      st := setup_env !vars0;
      (* setEnv on a TestScript whose map was never made *)
      src_check "setEnv"
        (src_TestScript_setEnv { r_line = []; r_env = []; r_envMap = None } !vars0 = Ok (recv_of [] !st))
        (fun () -> "reset") "ok"
  | ["line"; x] ->
      hist := hcmd_of_line !st (bytes_of_hex x) :: !hist;
      let s0 = !st in
      let (s, r) = ts_step s0 (bytes_of_hex x) in st := s;
      src_env_check s0 r s (src_parse_check s0 (bytes_of_hex x) r (show_args r))
  | ["parse"; x] ->
      let r = ts_parse !st (bytes_of_hex x) in
      src_parse_check !st (bytes_of_hex x) r (show_args r)
  | ["setenv"; k; v] ->
      hist := HSetenv (bytes_of_hex k, bytes_of_hex v) :: !hist;
      let s0 = !st in
      st := setenv (bytes_of_hex k) (bytes_of_hex v) s0;
      src_check "setenv" (src_TestScript_Setenv (recv_of [] s0) (bytes_of_hex k) (bytes_of_hex v) = Ok (recv_of [] !st))
        (fun () -> k ^ " " ^ v) "ok"
  | "histholds" :: names ->
      if not !tracked then "untracked" else begin
        let h = List.rev !hist in
        let s = hrun h { hs_env = setup_env !vars0; hs_cd = !cd0 } in
        string_of_bool (hstate_eqb s { hs_env = !st; hs_cd = !cd }
                        && List.for_all (fun n -> history_holds h !vars0 !cd0 (bytes_of_hex n)) names)
      end
  | "getenv" :: names ->
      let ans = String.concat " " ("v" :: List.map (fun n -> hex_of_bytes (getenv !st (bytes_of_hex n))) names) in
      List.fold_left (fun ans n ->
        src_check "getenv" (src_TestScript_Getenv (recv_of [] !st) (bytes_of_hex n) = Ok (getenv !st (bytes_of_hex n)))
          (fun () -> n) ans) ans names
  | ["child"] -> (match child_env !st !cd with None -> "none" | Some l -> if l = [] then "env" else "env " ^ hexes l)
  | ["childlookup"; n] ->
      (match child_env !st !cd with
       | None -> "none"
       | Some l -> (match child_lookup (bytes_of_hex n) l with None -> "none" | Some v -> "some " ^ hex_of_bytes v))
  | ["expand"; x] ->
      let e = expand !st (bytes_of_hex x) in
      if String.length x > 2 * src_cap then (incr src_skipped; hex_of_bytes e) else
      src_check "expand" (src_TestScript_expand (recv_of [] !st) (bytes_of_hex x) = Ok e) (fun () -> x) (hex_of_bytes e)
  | ["srcstats"] ->
      let n k = string_of_int (try Hashtbl.find src_evals k with Not_found -> 0) in
      String.concat " " ["src"; n "parse"; n "expand"; n "getenv"; n "setenv"; n "setEnv"; n "cmdEnv";
                         string_of_int !src_skipped; string_of_int !src_mismatch; !src_first]
  | ["quotemeta"; x] -> hex_of_bytes (quote_meta (bytes_of_hex x))
  | ["reliteral"; x] -> (match re_literal (bytes_of_hex x) with None -> "none" | Some s -> "some " ^ hex_of_bytes s)
  | ["utf8"; x] -> string_of_bool (utf8_ok (bytes_of_hex x))
  | "sqline" :: ws -> hex_of_bytes (join_sp (List.map (fun w -> sq (bytes_of_hex w)) ws))
  | ["inquote"; x] -> string_of_bool (in_quote_after (bytes_of_hex x) false)
  | ["pwdkey"] -> hex_of_bytes pwd_key
  | ["cmp"; neg; env; n1; n2; t1; t2] ->
      string_of_bool (do_cmd_cmp !st (neg = "1") (env = "1") (bytes_of_hex n1) (bytes_of_hex n2) (bytes_of_hex t1) (bytes_of_hex t2))
  | ["holds"; l; k; v] -> string_of_bool (c02_holds_on !st !cd (bytes_of_hex l) (bytes_of_hex k) (bytes_of_hex v))
  | ["script"; x] ->
      let (s, rs) = run_script !st (bytes_of_hex x) in
      st := s; tracked := false;
      String.concat " ; " (string_of_int (List.length rs) :: List.map show_args rs)
  | ["split"; x] ->
      let ls = script_lines_tr (bytes_of_hex x) in
      String.concat " " (string_of_int (List.length ls) :: List.map (fun l -> string_of_int (List.length l)) ls)
  | ["cd"; d] ->
      hist := HCd (bytes_of_hex d) :: !hist;
      let s = hstep { hs_env = !st; hs_cd = !cd } (HCd (bytes_of_hex d)) in
      st := s.hs_env; cd := s.hs_cd; "ok"
  | ["listing"] ->
      let l = env_listing !st in
      let ans = (match l with
       | None -> "none"
       | Some l -> String.concat " " ("l" :: List.map (fun (k, v) -> hex_of_bytes k ^ "=" ^ hex_of_bytes v) l)) in
      (* the translated cmdEnv without arguments: the state as it was, or the panic on an entry without "=" *)
      let want = (match l with None -> Panic | Some _ -> Ok (Done (recv_of [] !st))) in
      src_check "cmdEnv" (src_TestScript_cmdEnv (recv_of [] !st) false [] = want) (fun () -> "listing") ans
  | ["consts"] -> hex_of_bytes ts_sep_bytes ^ " " ^ hex_of_bytes [ts_quote]
  | _ -> "BAD-REQUEST")

(* txtar model driver.  Requests:
     parse <hex>        -> A <comment> <n> (<name> <data>)*
     refparse <hex>     -> same
     reparse <hex>      -> parse (format (parse x)) in the same form
     format <comment> (<name> <data>)*  -> <hex>
     needsquote <hex>   -> true|false
     quote <hex>        -> ok <hex> | err
     unquote <hex>      -> ok <hex> | err
     wf <comment> (<name> <data>)* -> true|false
   statement-level model (TxtarIndex.v):
     parseidx <hex>     -> as parse, or PANIC | OUTOFFUEL
     needsquoteidx <hex>-> true|false | PANIC | OUTOFFUEL
     ismarkeridx <hex>  -> M <name> <after> | PANIC
     formatidx <comment> (<name> <data>)* -> <hex> | PANIC   (x/tools Format, statement level)
     quoteidx <hex> / unquoteidx <hex>  -> ok <hex> | err | PANIC | OUTOFFUEL   (QuoteIndex.v)
   the model's own property statements, in executable form (TxtarHolds.v):
     holds <hex>        -> true|false   (c03_holds_on)
     holds14 <hex>      -> true|false   (c14_holds_on)
   rune level (Lib/Utf8.v) next to the byte level (Lib/Bytes.v):
     u8 <hex>           -> D <r> <w>|DT <r> <w>|L <r> <w>|TL <hex>|TR <hex>|T <hex>|TB <hex>|TF <hex>|V <bool>|VB <bool>
                           (DecodeRune, DecodeRune with the library's tables (Utf8Go.v), DecodeLastRune, TrimLeftFunc, TrimRightFunc, TrimSpace by runes,
                            trim_space of Bytes.v, TrimFunc as the Go code computes it (Utf8Trim.v), runes_ok, utf8_valid of Bytes.v)
     u8sweep <hex> <n>  -> md5 of the u8 lines of all strings <hex> ++ (n arbitrary bytes), n = 1|2,
                           in increasing order, each line followed by \n
     spaces <lo> <hi>   -> the code points r in [lo,hi) with is_space_rune r, separated by ','
     encode <r>         -> <hex> (encode_rune) and is_scalar: S <bool> <hex> *)
let show_archive (a : archive) =
  String.concat " " ("A" :: hex_of_bytes a.comment :: string_of_int (List.length a.files) ::
    List.concat_map (fun (n, d) -> [hex_of_bytes n; hex_of_bytes d]) a.files)
let rec pairs = function
  | n :: d :: r -> (bytes_of_hex n, bytes_of_hex d) :: pairs r
  | _ -> []
let archive_of = function
  | c :: r -> { comment = bytes_of_hex c; files = pairs r }
  | [] -> { comment = []; files = [] }
let show_opt = function Some b -> "ok " ^ hex_of_bytes b | None -> "err"
let show_res show = function Ok a -> show a | Panic -> "PANIC" | OutOfFuel -> "OUTOFFUEL"
let show_mres = function
  | MRes (n, a) -> "M " ^ hex_of_bytes n ^ " " ^ hex_of_bytes a
  | MPanic -> "PANIC"
let show_dec = function
  | Some (r, w) -> string_of_int (int_of_n r) ^ " " ^ string_of_int (int_of_nat w)
  | None -> "none"
(* table-driven hex (the sweeps format millions of short strings) *)
let hex_tab = Array.init 256 (fun i -> Printf.sprintf "%02x" i)
let fast_hex (l : byte list) : string =
  if l = [] then "-" else String.concat "" (List.map (fun x -> hex_tab.(int_of_byte x)) l)
let u8_line (x : byte list) =
  let hex_of_bytes = fast_hex in
  String.concat "|" [
    "D " ^ show_dec (decode_rune x);
    "DT " ^ (match decode_rune_tab x with DOk (r, w) -> show_dec (Some (r, w)) | DEmpty -> "none" | DPanic -> "PANIC");
    "L " ^ show_dec (decode_last_rune x);
    "TL " ^ hex_of_bytes (trim_left_runes x); "TR " ^ hex_of_bytes (trim_right_runes x);
    "T " ^ hex_of_bytes (trim_space_runes x); "TB " ^ hex_of_bytes (trim_space x);
    "TF " ^ (match trim_func x with Some t -> hex_of_bytes t | None -> "FAIL");
    "V " ^ string_of_bool (runes_ok x); "VB " ^ string_of_bool (utf8_valid x) ]
let u8_sweep (pre : byte list) (n : int) =
  let b = Buffer.create (1 lsl 20) in
  let add x = Buffer.add_string b (u8_line x); Buffer.add_char b '\n' in
  if n = 1 then
    for i = 0 to 255 do add (pre @ [byte_of_int i]) done
  else
    for i = 0 to 255 do for j = 0 to 255 do add (pre @ [byte_of_int i; byte_of_int j]) done done;
  Digest.to_hex (Digest.string (Buffer.contents b))
let spaces lo hi =
  let acc = ref [] in
  for r = hi - 1 downto lo do if is_space_rune (n_of_int r) then acc := string_of_int r :: !acc done;
  if !acc = [] then "-" else String.concat "," !acc
let () = serve (function
  | ["u8"; x] -> u8_line (bytes_of_hex x)
  | ["u8sweep"; x; n] -> u8_sweep (bytes_of_hex x) (int_of_string n)
  | ["spaces"; lo; hi] -> spaces (int_of_string lo) (int_of_string hi)
  | ["encode"; r] -> let r = n_of_int (int_of_string r) in
      "S " ^ string_of_bool (is_scalar r) ^ " " ^ hex_of_bytes (encode_rune r)
  | "formatidx" :: r -> show_res hex_of_bytes (format_idx (archive_of r))
  | ["quoteidx"; x] -> show_res show_opt (quote_idx (bytes_of_hex x))
  | ["unquoteidx"; x] -> show_res show_opt (unquote_idx (bytes_of_hex x))
  | ["parseidx"; x] -> show_res show_archive (parse_idx (bytes_of_hex x))
  | ["needsquoteidx"; x] -> show_res string_of_bool (needs_quote_idx (bytes_of_hex x))
  | ["ismarkeridx"; x] -> show_mres (is_marker_idx (bytes_of_hex x))
  | ["holds"; x] -> string_of_bool (c03_holds_on (bytes_of_hex x))
  | ["holds14"; x] -> string_of_bool (c14_holds_on (bytes_of_hex x))
  | ["parse"; x] -> show_archive (parse (bytes_of_hex x))
  | ["refparse"; x] -> show_archive (ref_parse (bytes_of_hex x))
  | ["reparse"; x] -> show_archive (parse (format (parse (bytes_of_hex x))))
  | "format" :: r -> hex_of_bytes (format (archive_of r))
  | "wf" :: r -> string_of_bool (wf_archive (archive_of r))
  | ["needsquote"; x] -> string_of_bool (needs_quote (bytes_of_hex x))
  | ["quote"; x] -> show_opt (quote (bytes_of_hex x))
  | ["unquote"; x] -> show_opt (unquote (bytes_of_hex x))
  | _ -> "BAD-REQUEST")

(* txtar model driver.  Requests:
     parse <hex>        -> A <comment> <n> (<name> <data>)*
     refparse <hex>     -> same
     reparse <hex>      -> parse (format (parse x)) in the same form
     format <comment> (<name> <data>)*  -> <hex>
     needsquote <hex>   -> true|false
     quote <hex>        -> ok <hex> | err
     unquote <hex>      -> ok <hex> | err
     wf <comment> (<name> <data>)* -> true|false
   statement-level model (TxtarIndex.v):
     parseidx <hex>     -> as parse, or PANIC | OUTOFFUEL
     needsquoteidx <hex>-> true|false | PANIC | OUTOFFUEL
     ismarkeridx <hex>  -> M <name> <after> | PANIC
   the model's own property statements, in executable form (TxtarHolds.v):
     holds <hex>        -> true|false   (c03_holds_on)
     holds14 <hex>      -> true|false   (c14_holds_on) *)
let show_archive (a : archive) =
  String.concat " " ("A" :: hex_of_bytes a.comment :: string_of_int (List.length a.files) ::
    List.concat_map (fun (n, d) -> [hex_of_bytes n; hex_of_bytes d]) a.files)
let rec pairs = function
  | n :: d :: r -> (bytes_of_hex n, bytes_of_hex d) :: pairs r
  | _ -> []
let archive_of = function
  | c :: r -> { comment = bytes_of_hex c; files = pairs r }
  | [] -> { comment = []; files = [] }
let show_opt = function Some b -> "ok " ^ hex_of_bytes b | None -> "err"
let show_res show = function Ok a -> show a | Panic -> "PANIC" | OutOfFuel -> "OUTOFFUEL"
let show_mres = function
  | MRes (n, a) -> "M " ^ hex_of_bytes n ^ " " ^ hex_of_bytes a
  | MPanic -> "PANIC"
let () = serve (function
  | ["parseidx"; x] -> show_res show_archive (parse_idx (bytes_of_hex x))
  | ["needsquoteidx"; x] -> show_res string_of_bool (needs_quote_idx (bytes_of_hex x))
  | ["ismarkeridx"; x] -> show_mres (is_marker_idx (bytes_of_hex x))
  | ["holds"; x] -> string_of_bool (c03_holds_on (bytes_of_hex x))
  | ["holds14"; x] -> string_of_bool (c14_holds_on (bytes_of_hex x))
  | ["parse"; x] -> show_archive (parse (bytes_of_hex x))
  | ["refparse"; x] -> show_archive (ref_parse (bytes_of_hex x))
  | ["reparse"; x] -> show_archive (parse (format (parse (bytes_of_hex x))))
  | "format" :: r -> hex_of_bytes (format (archive_of r))
  | "wf" :: r -> string_of_bool (wf_archive (archive_of r))
  | ["needsquote"; x] -> string_of_bool (needs_quote (bytes_of_hex x))
  | ["quote"; x] -> show_opt (quote (bytes_of_hex x))
  | ["unquote"; x] -> show_opt (unquote (bytes_of_hex x))
  | _ -> "BAD-REQUEST")

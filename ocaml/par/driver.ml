(* par model driver (C09 par.Work, C10 par.Cache).  One request line in, one answer line out.

   Encodings: lists are dot-separated, "-" is the empty list.
     graph  = children lists separated by "/", e.g. 1.2/2.3/3/-   (item i = position i)
     sched  = t:c.t:c...   (Work: thread and choice)   |  t.t.t...  (Cache)
     progs  = D0.G1/G0.D0/D1     fvals = 100.101  (fval k = k-th entry, 0 beyond)

   work <n> <graph> <inits> <sched>
       replays the schedule on ParWork.step; answer
         ok <ev>/<mask>,<ev>/<mask>,... | fin=<items in order of f-return> done=<bool> phi=<n> inv=ok|FAIL@<k>:<what>
       or  bad <k>   (step k of the schedule is not a step of the model)
       events:  B<t>:<item>:<len todo>   pick (Intn argument = len todo), f(item) begins
                P<t>                     parks in Wait
                D<t>                     broadcast + return
                A<t>:<child>[:w<k>]      Add(child) [Signal woke thread k]
                E<t>:<item>              f(item) returns
       mask = bit set of threads with an enabled step after the step (ParWork.enabled).
   workrand <n> <graph> <inits> <seed>      random complete schedule drawn from the model: sched=<...>
   workexplore <n> <graph> <inits> <max>    whole state space of the model (all threads, all choices):
       safe_state, wakeup_ok (no lost wake-up, item by item), strict decrease of phi, deadlock-freedom, final states = everything reachable finished
   workcover <n> <graph> <inits> <max>      a set of complete schedules that together take EVERY transition of the
       model's reachable state graph at least once:  ok states=.. trans=.. complete=<bool> paths=<k> <sched>;<sched>;...
   cache <p|i> <progs> <fvals> <deps> <sched>
       replays on ParCache.cstep.  deps = per key the keys f_k calls Do on (graph syntax), fvals: 0 = f returns nil,
       1 / 2 = f panics / calls runtime.Goexit instead of returning (op fx<k>: the thread is gone, its mutexes stay held).
       Mode p: the plain accesses to e.result are steps of their own (the instrumented copy makes them
       scheduling points); mode i: a thread runs through them after every scheduled step (fallback).  Answer
         ok <t>:<op>[+<op>...]/<mask>,... | idle=<bool> fb=<k:n.k:n> inv=ok|FAIL@<k>:<what>
       ops: ld<k>h|ld<k>m  los<k>  al<k>=<raw done>  lk<k>  fb<k>  nd<k> (f_k starts its next nested Do)  fe<k>
            pw<k>  as<k>=<raw>  ul<k>  pr<k>  ret:D<k>=<v|nil>  nret:D<k>=<v|nil> (into f)  ret:G<k>=<v|nil>
   cacherand <p|i> <progs> <fvals> <deps> <seed>    random complete schedule (same granularity): sched=<...>
   cacheexplore <progs> <fvals> <deps> <max>        whole state space at full granularity: f at most once per key, no
       two conflicting plain accesses enabled together, returned values, psi decreases; deadlock-freedom when
       deps is acyclic (for cyclic deps the number of deadlocked states is reported: deadlocks=<n>)
   cachecover <progs> <fvals> <deps> <max>          as workcover, full granularity
   nested <n> <graph> <inits> <inner ns> <inner graph> <inner inits> <sched>
       NESTED Works (ParWorkMulti.nstep): the user function of the outer Work, after its Adds, runs a fresh inner
       Work (inner graph / inits; Do(n_i) with n_i = the (i mod length)-th entry of <inner ns>) and returns when its
       Do returned.  Threads carry GLOBAL ids as on the code: 0..n-1 the outer runners, then the goroutines of each
       inner Do in the order in which the inner Works are created; an outer runner inside its inner Do acts as
       thread 0 of that inner Work.  sched = g:c.g:c... (c = Intn answer, or the woken runner's id LOCAL to its
       Work).  Answer
         ok <obj>|<ev>/<mask>,... | fin=<outer items in order of f-return> done=<nfinal> phi=<nphi> inv=ok|FAIL@k:<what>
       obj = o (outer) or i<item>; events as for `work` with thread ids local to the object, and o|C<g>:<item> =
       outer runner g creates the inner Work of <item> (Do's prologue); mask = enabled GLOBAL thread ids. *)

let ios = int_of_string
let split_on c s = if s = "-" || s = "" then [] else String.split_on_char c s
let ints s = List.map ios (split_on '.' s)
let nats s = List.map nat_of_int (ints s)
let graph_of s : int list array = Array.of_list (List.map ints (String.split_on_char '/' s))
let children_of (g : int list array) : nat -> nat list =
  fun i -> let i = int_of_nat i in if i < Array.length g then List.map nat_of_int g.(i) else []
let dots l = if l = [] then "-" else String.concat "." l
let pairs_of s = List.map (fun x -> match String.split_on_char ':' x with
  | [a; b] -> (ios a, ios b) | _ -> failwith "bad sched") (split_on '.' s)

(* small deterministic PRNG (splitmix-like on 62 bits) *)
let rng_state = ref 0
let rng_seed s = rng_state := (s * 0x9E3779B9 + 0x1234567) land 0x3FFFFFFFFFFFFFFF
let rng_int n =
  rng_state := (!rng_state * 2862933555777941757 + 3037000493) land 0x3FFFFFFFFFFFFFFF;
  if n <= 0 then 0 else ((!rng_state lsr 17) land 0x3FFFFFFF) mod n

(* ---------------------------------------------------------------- Work *)
let pcs_of (s : state) = Array.of_list s.pcs
let mask_of n (s : state) =
  let m = ref 0 in
  for t = 0 to n - 1 do if enabled s (nat_of_int t) then m := !m lor (1 lsl t) done; !m

let work_event n (g : int list array) (s : state) (s' : state) (t : int) : string =
  let before = (pcs_of s).(t) and after = (pcs_of s').(t) in
  match before, after with
  | (Top | Woken), Run (i, _) -> Printf.sprintf "B%d:%d:%d" t (int_of_nat i) (List.length s.todo)
  | (Top | Woken), Parked -> Printf.sprintf "P%d" t
  | (Top | Woken), Done -> Printf.sprintf "D%d" t
  | Run (i, j), Run (_, _) ->
      let ch = List.nth g.(int_of_nat i) (int_of_nat j) in
      let woke = ref "" in
      let b = pcs_of s and a = pcs_of s' in
      for k = 0 to n - 1 do
        if k <> t && b.(k) = Parked && a.(k) = Woken then woke := Printf.sprintf ":w%d" k
      done;
      Printf.sprintf "A%d:%d%s" t ch !woke
  | Run (i, _), Top -> Printf.sprintf "E%d:%d" t (int_of_nat i)
  | _ -> "?"

let universe (g : int list array) = List.init (Array.length g) nat_of_int

let work_tail n g ch (s : state) inv =
  Printf.sprintf "fin=%s done=%b phi=%d inv=%s"
    (dots (List.rev_map (fun i -> string_of_int (int_of_nat i)) s.finished))
    (all_done s) (int_of_nat (phi (nat_of_int n) ch (universe g) s)) inv

let do_work n gs inits sched =
  let g = graph_of gs in
  let ch = children_of g in
  let nn = nat_of_int n in
  let u = universe g in
  let s = ref (init_state nn (nats inits)) in
  let evs = ref [] and inv = ref "ok" and bad = ref (-1) in
  let check k s =
    if !inv = "ok" && not (safe_state nn s) then inv := Printf.sprintf "FAIL@%d:safe_state" k;
    if !inv = "ok" && not (wakeup_ok s) then inv := Printf.sprintf "FAIL@%d:wakeup_ok" k in
  check 0 !s;
  List.iteri (fun k (t, c) ->
    if !bad < 0 then
      match step nn ch !s (nat_of_int t, nat_of_int c) with
      | None -> bad := k
      | Some s' ->
          let ev = work_event n g !s s' t in
          if !inv = "ok" && not (int_of_nat (phi nn ch u s') < int_of_nat (phi nn ch u !s)) then
            inv := Printf.sprintf "FAIL@%d:phi" k;
          check (k + 1) s';
          evs := Printf.sprintf "%s/%d" ev (mask_of n s') :: !evs;
          s := s') (pairs_of sched);
  if !bad >= 0 then Printf.sprintf "bad %d" !bad
  else Printf.sprintf "ok %s | %s" (if !evs = [] then "-" else String.concat "," (List.rev !evs)) (work_tail n g ch !s !inv)

(* all (t, c, s') successors of a Work state *)
let work_succs n ch (s : state) =
  let nn = nat_of_int n in
  let res = ref [] in
  let cmax = max n (List.length s.todo) in
  for t = n - 1 downto 0 do
    if enabled s (nat_of_int t) then begin
      let seen = ref [] in
      for c = cmax downto 0 do
        match step nn ch s (nat_of_int t, nat_of_int c) with
        | Some s' -> if not (List.mem s' !seen) then (seen := s' :: !seen; res := (t, c, s') :: !res)
        | None -> ()
      done
    end
  done;
  !res

let do_workrand n gs inits seed =
  let g = graph_of gs in
  let ch = children_of g in
  rng_seed seed;
  let s = ref (init_state (nat_of_int n) (nats inits)) in
  let sch = ref [] and steps = ref 0 and stop = ref false in
  while not !stop && !steps < 100000 do
    match work_succs n ch !s with
    | [] -> stop := true
    | l -> let (t, c, s') = List.nth l (rng_int (List.length l)) in
           sch := Printf.sprintf "%d:%d" t c :: !sch; s := s'; incr steps
  done;
  Printf.sprintf "sched=%s done=%b" (dots (List.rev !sch)) (all_done !s)

let reach_set (g : int list array) inits =
  let seen = Hashtbl.create 16 in
  let rec go i = if not (Hashtbl.mem seen i) then begin
    Hashtbl.add seen i (); if i < Array.length g then List.iter go g.(i) end in
  List.iter go inits;
  List.sort compare (Hashtbl.fold (fun k _ a -> k :: a) seen [])

let do_workexplore n gs inits maxstates =
  let g = graph_of gs in
  let ch = children_of g in
  let nn = nat_of_int n in
  let u = universe g in
  let want = reach_set g (ints inits) in
  let seen = Hashtbl.create 100003 in
  let key (s : state) = Marshal.to_string s [] in
  let q = Queue.create () in
  let s0 = init_state nn (nats inits) in
  Hashtbl.add seen (key s0) (); Queue.add (s0, []) q;
  let states = ref 0 and trans = ref 0 and finals = ref 0 and fail = ref "" and maxd = ref 0 in
  let show path = dots (List.rev_map (fun (t, c) -> Printf.sprintf "%d:%d" t c) path) in
  while !fail = "" && not (Queue.is_empty q) && !states < maxstates do
    let (s, path) = Queue.pop q in
    incr states;
    if List.length path > !maxd then maxd := List.length path;
    if not (safe_state nn s) then fail := "safe_state " ^ show path;
    if not (wakeup_ok s) then fail := "wakeup_ok " ^ show path;
    let succs = work_succs n ch s in
    if succs = [] then begin
      incr finals;
      if not (all_done s) then fail := "deadlock " ^ show path
      else begin
        let fin = List.sort compare (List.map int_of_nat s.finished) in
        if fin <> want then fail := "final-finished " ^ show path
      end
    end;
    if all_done s && succs <> [] then fail := "step-after-done " ^ show path;
    let ph = int_of_nat (phi nn ch u s) in
    List.iter (fun (t, c, s') ->
      incr trans;
      if not (int_of_nat (phi nn ch u s') < ph) then fail := "phi " ^ show ((t, c) :: path);
      let k = key s' in
      if not (Hashtbl.mem seen k) then (Hashtbl.add seen k (); Queue.add (s', (t, c) :: path) q)) succs
  done;
  if !fail <> "" then "FAIL " ^ !fail
  else Printf.sprintf "ok states=%d trans=%d finals=%d maxdepth=%d complete=%b" !states !trans !finals !maxd (Queue.is_empty q)


(* ---- transition cover of a finite state graph given as arrays: succ.(i) = list of (label, target) *)
let cover_paths (succ : (string * int) list array) : string list list =
  let n = Array.length succ in
  let covered = Array.map (fun l -> Array.make (List.length l) false) succ in
  (* BFS tree from the initial state: prev.(j) = (i, label) *)
  let prev = Array.make n (-2, "") in
  prev.(0) <- (-1, "");
  let order = ref [] in
  let q = Queue.create () in
  Queue.add 0 q;
  while not (Queue.is_empty q) do
    let i = Queue.pop q in
    order := i :: !order;
    List.iter (fun (lab, j) -> if fst prev.(j) = -2 then (prev.(j) <- (i, lab); Queue.add j q)) succ.(i)
  done;
  let rec back i acc = let (p, lab) = prev.(i) in if p < 0 then acc else back p (lab :: acc) in
  let paths = ref [] in
  List.iter (fun i ->
    List.iteri (fun k0 _ ->
      if not covered.(i).(k0) then begin
        (* tree path to i, then prefer uncovered edges (starting with k0) until a final state *)
        let path = ref (List.rev (back i [])) in
        let cur = ref i and first = ref true and steps = ref 0 in
        while succ.(!cur) <> [] && !steps < 100000 do
          let l = succ.(!cur) in
          let k =
            if !first then k0
            else begin
              let idx = ref (-1) in
              List.iteri (fun k _ -> if !idx < 0 && not covered.(!cur).(k) then idx := k) l;
              if !idx >= 0 then !idx else 0
            end in
          first := false;
          covered.(!cur).(k) <- true;
          let (lab, j) = List.nth l k in
          path := lab :: !path; cur := j; incr steps
        done;
        paths := List.rev !path :: !paths
      end) succ.(i)) (List.rev !order);
  List.rev !paths

let do_workcover n gs inits maxstates =
  let g = graph_of gs in
  let ch = children_of g in
  let nn = nat_of_int n in
  let ids = Hashtbl.create 100003 in
  let key (s : state) = Marshal.to_string s [] in
  let states = ref [||] and cnt = ref 0 in
  let buf = ref [] in
  let add s = let k = key s in
    match Hashtbl.find_opt ids k with
    | Some i -> i
    | None -> let i = !cnt in Hashtbl.add ids k i; incr cnt; buf := (i, s) :: !buf; i in
  let s0 = init_state nn (nats inits) in
  ignore (add s0);
  let succs = Hashtbl.create 100003 in
  let complete = ref true in
  let work = Queue.create () in
  Queue.add (0, s0) work;
  ignore states;
  while not (Queue.is_empty work) do
    let (i, s) = Queue.pop work in
    if !cnt > maxstates then (complete := false; Queue.clear work)
    else begin
      let l = List.map (fun (t, c, s') ->
        let before = !cnt in
        let j = add s' in
        if j >= before then Queue.add (j, s') work;
        (Printf.sprintf "%d:%d" t c, j)) (work_succs n ch s) in
      Hashtbl.replace succs i l
    end
  done;
  if not !complete then Printf.sprintf "ok states=%d complete=false paths=0 -" !cnt
  else begin
    let arr = Array.init !cnt (fun i -> try Hashtbl.find succs i with Not_found -> []) in
    let trans = Array.fold_left (fun a l -> a + List.length l) 0 arr in
    let paths = cover_paths arr in
    Printf.sprintf "ok states=%d trans=%d complete=true paths=%d %s" !cnt trans (List.length paths)
      (if paths = [] then "-" else String.concat ";" (List.map dots paths))
  end

(* ---------------------------------------------------------------- Cache *)
let call_of s = let k = nat_of_int (ios (String.sub s 1 (String.length s - 1))) in
  match s.[0] with 'D' -> CDo k | 'G' -> CGet k | _ -> failwith "bad call"
let progs_of s : call list list =
  List.map (fun p -> List.map call_of (split_on '.' p)) (String.split_on_char '/' s)
(* the value 0 stands for an f that returns nil; the values 1 and 2 for an f that does not return at all
   (1: it panics, 2: it calls runtime.Goexit -- the same outcome in the model): [crash] of ParCache.v *)
let crash_ref : (nat -> bool) ref = ref (fun _ -> false)
let has_crash = ref false
let fval_of s : nat -> nat option =
  let a = Array.of_list (ints s) in
  has_crash := Array.exists (fun v -> v = 1 || v = 2) a;
  crash_ref := (fun k -> let k = int_of_nat k in k < Array.length a && (a.(k) = 1 || a.(k) = 2));
  fun k -> let k = int_of_nat k in
    let v = if k < Array.length a then a.(k) else 0 in
    if v = 0 then None else Some (nat_of_int v)
let deps_of s : int list array = graph_of s
let depsf (d : int list array) : nat -> nat list = children_of d
let keys_of (progs : call list list) (d : int list array) =
  let seen = Hashtbl.create 16 in
  let rec go k = if not (Hashtbl.mem seen k) then begin
    Hashtbl.add seen k (); if k < Array.length d then List.iter go d.(k) end in
  List.iter (List.iter (function CDo k | CGet k -> go (int_of_nat k))) progs;
  List.sort compare (Hashtbl.fold (fun k _ a -> k :: a) seen [])
(* level function (longest path); None if the dependency relation has a cycle *)
let levels (d : int list array) : (int -> int) option =
  let n = Array.length d in
  let lv = Array.make n (-1) and onstack = Array.make n false and cyc = ref false in
  let rec go k =
    if k >= n then 0
    else if lv.(k) >= 0 then lv.(k)
    else if onstack.(k) then (cyc := true; 0)
    else begin
      onstack.(k) <- true;
      let m = List.fold_left (fun a x -> max a (1 + go x)) 0 d.(k) in
      onstack.(k) <- false; lv.(k) <- m; m
    end in
  for k = 0 to n - 1 do ignore (go k) done;
  if !cyc then None else Some (fun k -> if k < n then lv.(k) else 0)

let show_val = function None -> "nil" | Some v -> string_of_int (int_of_nat v)
let cmask fv dp nthr (s : cstate) =
  let m = ref 0 in
  for t = 0 to nthr - 1 do if cenabled fv dp !crash_ref s (nat_of_int t) then m := !m lor (1 lsl t) done; !m

(* the op tokens of the step thread t takes from s to s' *)
let cache_ops dp (s : cstate) (s' : cstate) (t : int) : string list =
  let th = List.nth s.thrs t and th' = List.nth s'.thrs t in
  let i = int_of_nat in
  let retstr () =
    if List.length th'.rets > List.length th.rets then
      (match th'.rets with
       | (CDo k, v) :: _ -> [Printf.sprintf "ret:D%d=%s" (i k) (show_val v)]
       | (CGet k, v) :: _ -> [Printf.sprintf "ret:G%d=%s" (i k) (show_val v)]
       | [] -> [])
    else if List.length th'.nrets > List.length th.nrets then
      (match th'.nrets with (k, v) :: _ -> [Printf.sprintf "nret:D%d=%s" (i k) (show_val v)] | [] -> [])
    else [] in
  match th.tpc with
  | DLoad k -> [Printf.sprintf "ld%d%s" (i k) (if (s.ents k).present then "h" else "m")]
  | DLoadOrStore k -> [Printf.sprintf "los%d" (i k)]
  | DLoad1 k | DLoad2 k -> [Printf.sprintf "al%d=%d" (i k) (i (s.ents k).done0)]
  | DLock k -> [Printf.sprintf "lk%d" (i k)]
  | DCall k -> [Printf.sprintf "fb%d" (i k)]
  | DInF (k, _) -> (match th'.tpc with
                    | DWrite (_, _) -> [Printf.sprintf "fe%d" (i k)]
                    | Idle -> [Printf.sprintf "fx%d" (i k)]   (* f does not return: the goroutine is gone *)
                    | _ -> [Printf.sprintf "nd%d" (i k)])
  | DWrite (k, _) -> [Printf.sprintf "pw%d" (i k)]
  | DStore k -> [Printf.sprintf "as%d=%d" (i k) (i (s'.ents k).done0)]
  | DUnlock k -> [Printf.sprintf "ul%d" (i k)]
  | DRead k | GRead k -> Printf.sprintf "pr%d" (i k) :: retstr ()
  | GLoad k -> Printf.sprintf "ld%d%s" (i k) (if (s.ents k).present then "h" else "m") :: retstr ()
  | GLoad1 k -> Printf.sprintf "al%d=%d" (i k) (i (s.ents k).done0) :: retstr ()
  | Idle -> ["?"]

let is_plain_tok s = String.length s >= 2 && s.[0] = 'p' && (s.[1] = 'w' || s.[1] = 'r')

(* one scheduled step of t; in mode i followed by its invisible (plain access) steps, whose pw/pr tokens are dropped *)
let cache_macro visible fv dp (s : cstate) (t : int) : (cstate * string) option =
  match cstep fv dp !crash_ref s (nat_of_int t) with
  | None -> None
  | Some s1 ->
      let ops = ref (cache_ops dp s s1 t) and cur = ref s1 in
      if not visible then begin
        let continue = ref true in
        while !continue do
          let th = List.nth !cur.thrs t in
          if invisible th.tpc then
            (match cstep fv dp !crash_ref !cur (nat_of_int t) with
             | Some s2 -> ops := !ops @ cache_ops dp !cur s2 t; cur := s2
             | None -> continue := false)
          else continue := false
        done;
        ops := List.filter (fun o -> not (is_plain_tok o)) !ops
      end;
      Some (!cur, String.concat "+" !ops)

let cache_tail progs d (s : cstate) inv =
  Printf.sprintf "idle=%b fb=%s inv=%s" (all_idle s)
    (dots (List.map (fun k -> Printf.sprintf "%d:%d" k (int_of_nat (s.ents (nat_of_int k)).fbegins)) (keys_of progs d)))
    inv

let cache_check progs d (s : cstate) : string =
  let bad = ref "" in
  List.iter (fun k -> let e = s.ents (nat_of_int k) in
    if int_of_nat e.fbegins > 1 then bad := "f-twice";
    if int_of_nat e.fends > int_of_nat e.fbegins then bad := "fends";
    if int_of_nat e.orph > 0 && not (int_of_nat e.orph = 1 && int_of_nat e.fbegins = 1 && int_of_nat e.fends = 0
                                     && e.locked && int_of_nat e.done0 = 0) then bad := "crashed-entry") (keys_of progs d);
  !bad

let psi_of d : (cstate -> int) option =
  match levels d with
  | None -> None
  | Some lv ->
      let kc = kcL (depsf d) (fun k -> nat_of_int (lv (int_of_nat k))) in
      Some (fun s -> int_of_nat (psi (depsf d) kc s))

let do_cache mode ps fvs ds sched =
  let visible = (mode = "p") in
  let progs = progs_of ps in
  let fv = fval_of fvs in
  let d = deps_of ds in
  let dp = depsf d in
  let nthr = List.length progs in
  let psif = psi_of d in
  let s = ref (cinit progs) in
  let evs = ref [] and inv = ref "ok" and bad = ref (-1) in
  List.iteri (fun k t ->
    if !bad < 0 then
      match cache_macro visible fv dp !s t with
      | None -> bad := k
      | Some (s', ops) ->
          if !inv = "ok" then begin
            (match psif with
             | Some f -> if not (f s' < f !s) then inv := Printf.sprintf "FAIL@%d:psi" k
             | None -> ());
            let c = cache_check progs d s' in if c <> "" then inv := Printf.sprintf "FAIL@%d:%s" k c
          end;
          evs := Printf.sprintf "%d:%s/%d" t ops (cmask fv dp nthr s') :: !evs;
          s := s') (ints sched);
  if !bad >= 0 then Printf.sprintf "bad %d" !bad
  else Printf.sprintf "ok %s | %s" (if !evs = [] then "-" else String.concat "," (List.rev !evs)) (cache_tail progs d !s !inv)

let do_cacherand mode ps fvs ds seed =
  let visible = (mode = "p") in
  let progs = progs_of ps in
  let fv = fval_of fvs in
  let dp = depsf (deps_of ds) in
  let nthr = List.length progs in
  rng_seed seed;
  let s = ref (cinit progs) in
  let sch = ref [] and stop = ref false in
  while not !stop do
    let en = List.filter (fun t -> cenabled fv dp !crash_ref !s (nat_of_int t)) (List.init nthr (fun t -> t)) in
    match en with
    | [] -> stop := true
    | l -> let t = List.nth l (rng_int (List.length l)) in
           (match cache_macro visible fv dp !s t with
            | Some (s', _) -> s := s'; sch := string_of_int t :: !sch
            | None -> stop := true)
  done;
  Printf.sprintf "sched=%s idle=%b" (dots (List.rev !sch)) (all_idle !s)

let cstate_key progs d (s : cstate) : string =
  Marshal.to_string (List.map (fun th -> (th.tpc, th.stack, th.rest, th.rets, th.nrets)) s.thrs,
                     List.map (fun k -> s.ents (nat_of_int k)) (keys_of progs d)) []

let cache_succs fv dp nthr (s : cstate) =
  List.filter_map (fun t -> match cstep fv dp !crash_ref s (nat_of_int t) with Some s' -> Some (t, s') | None -> None)
    (List.init nthr (fun t -> t))

let do_cacheexplore ps fvs ds maxstates =
  let progs = progs_of ps in
  let fv = fval_of fvs in
  let d = deps_of ds in
  let dp = depsf d in
  let nthr = List.length progs in
  let psif = psi_of d in
  let seen = Hashtbl.create 100003 in
  let q = Queue.create () in
  let s0 = cinit progs in
  Hashtbl.add seen (cstate_key progs d s0) (); Queue.add (s0, []) q;
  let states = ref 0 and trans = ref 0 and finals = ref 0 and deadlocks = ref 0 and fail = ref "" in
  let show path = dots (List.rev_map string_of_int path) in
  let access (p : cpc) = match p with
    | DWrite (k, _) -> Some (int_of_nat k, true) | DRead k | GRead k -> Some (int_of_nat k, false) | _ -> None in
  while !fail = "" && not (Queue.is_empty q) && !states < maxstates do
    let (s, path) = Queue.pop q in
    incr states;
    let c = cache_check progs d s in
    if c <> "" then fail := c ^ " " ^ show path;
    let acc = List.mapi (fun t th -> (t, access th.tpc)) s.thrs in
    List.iter (fun (a, xa) -> List.iter (fun (b, xb) ->
      match xa, xb with
      | Some (ka, wa), Some (kb, wb) when a < b && ka = kb && (wa || wb) -> fail := "race " ^ show path
      | _ -> ()) acc) acc;
    List.iter (fun th ->
      List.iter (fun (c, v) ->
        match c, v with
        | CDo k, v when v = fv k -> ()
        | CDo _, _ -> fail := "do-value " ^ show path
        | CGet _, None -> ()
        | CGet k, v when v = fv k && int_of_nat (s.ents k).fends = 1 -> ()
        | CGet _, _ -> fail := "get-value " ^ show path) th.rets;
      List.iter (fun (k, v) -> if v <> fv k then fail := "nested-do-value " ^ show path) th.nrets) s.thrs;
    let succs = cache_succs fv dp nthr s in
    if succs = [] then begin
      incr finals;
      if not (all_idle s) then begin
        incr deadlocks;
        if psif <> None && not !has_crash then fail := "deadlock " ^ show path
      end
    end;
    List.iter (fun (t, s') ->
      incr trans;
      (match psif with Some f -> if not (f s' < f s) then fail := "psi " ^ show (t :: path) | None -> ());
      let k = cstate_key progs d s' in
      if not (Hashtbl.mem seen k) then (Hashtbl.add seen k (); Queue.add (s', t :: path) q)) succs
  done;
  if !fail <> "" then "FAIL " ^ !fail
  else Printf.sprintf "ok states=%d trans=%d finals=%d deadlocks=%d complete=%b" !states !trans !finals !deadlocks (Queue.is_empty q)

let do_cachecover ps fvs ds maxstates =
  let progs = progs_of ps in
  let fv = fval_of fvs in
  let d = deps_of ds in
  let dp = depsf d in
  let nthr = List.length progs in
  let ids = Hashtbl.create 100003 in
  let cnt = ref 0 in
  let add s = let k = cstate_key progs d s in
    match Hashtbl.find_opt ids k with
    | Some i -> i
    | None -> let i = !cnt in Hashtbl.add ids k i; incr cnt; i in
  let s0 = cinit progs in
  ignore (add s0);
  let succs = Hashtbl.create 100003 in
  let complete = ref true in
  let work = Queue.create () in
  Queue.add (0, s0) work;
  while not (Queue.is_empty work) do
    let (i, s) = Queue.pop work in
    if !cnt > maxstates then (complete := false; Queue.clear work)
    else begin
      let l = List.map (fun (t, s') ->
        let before = !cnt in
        let j = add s' in
        if j >= before then Queue.add (j, s') work;
        (string_of_int t, j)) (cache_succs fv dp nthr s) in
      Hashtbl.replace succs i l
    end
  done;
  if not !complete then Printf.sprintf "ok states=%d complete=false paths=0 -" !cnt
  else begin
    let arr = Array.init !cnt (fun i -> try Hashtbl.find succs i with Not_found -> []) in
    let trans = Array.fold_left (fun a l -> a + List.length l) 0 arr in
    let paths = cover_paths arr in
    Printf.sprintf "ok states=%d trans=%d complete=true paths=%d %s" !cnt trans (List.length paths)
      (if paths = [] then "-" else String.concat ";" (List.map dots paths))
  end

(* ---------------------------------------------------------------- nested Works (ParWorkMulti) *)
let do_nested n gs inits inner_ns igs iinits sched =
  let g = graph_of gs and ig = graph_of igs in
  let ch = children_of g and ich = children_of ig in
  let nn = nat_of_int n in
  let u = universe g and iu = universe ig in
  let ins = Array.of_list (ints inner_ns) in
  let inner_n i = ins.(i mod Array.length ins) in
  let inner (i : nat) : wcfg =
    { wn = nat_of_int (inner_n (int_of_nat i)); wchildren = ich; winits = nats iinits; wU = iu } in
  let ns = ref (ninit nn (nats inits)) in
  (* global thread ids of the inner goroutines *)
  let owner : (int, int * int) Hashtbl.t = Hashtbl.create 16 in
  let next = ref n in
  let created = ref [] in
  let inner_of_outer_thread (s : nstate) t =
    (* Some i: outer runner t is inside the Do of the existing inner Work of i, which has not returned *)
    match at_inner_call ch s.outer (nat_of_int t) with
    | Some i -> (match s.inn i with
                 | Some si -> (match si.pcs with Done :: _ -> None | _ -> Some (int_of_nat i))
                 | None -> None)
    | None -> None in
  let has_step (s : nstate) l = nstep nn ch inner s l <> None in
  let enabled_global (s : nstate) gid =
    (* some choice gives a step *)
    let any mk = let r = ref false in for c = 0 to 12 do if has_step s (mk (nat_of_int c)) then r := true done; !r in
    if gid < n then
      (match inner_of_outer_thread s gid with
       | Some i -> any (fun c -> LInner (nat_of_int i, nat_of_int 0, c))
       | None -> any (fun c -> LOuter (nat_of_int gid, c)))
    else match Hashtbl.find_opt owner gid with
      | Some (i, t) -> any (fun c -> LInner (nat_of_int i, nat_of_int t, c))
      | None -> false in
  let mask (s : nstate) =
    let m = ref 0 in for gid = 0 to !next - 1 do if enabled_global s gid then m := !m lor (1 lsl gid) done; !m in
  let evs = ref [] and inv = ref "ok" and bad = ref (-1) in
  let check k (s : nstate) =
    if !inv = "ok" && not (safe_state nn s.outer && wakeup_ok s.outer) then inv := Printf.sprintf "FAIL@%d:outer-safe_state" k;
    List.iter (fun i -> match s.inn (nat_of_int i) with
      | Some si -> if !inv = "ok" && not (safe_state (nat_of_int (inner_n i)) si && wakeup_ok si) then
                     inv := Printf.sprintf "FAIL@%d:inner%d-safe_state" k i
      | None -> if !inv = "ok" then inv := Printf.sprintf "FAIL@%d:inner%d-vanished" k i) !created in
  check 0 !ns;
  List.iteri (fun k (gid, c) ->
    if !bad < 0 then begin
      let s = !ns in
      let cn = nat_of_int c in
      let label, obj =
        if gid < n then
          (match inner_of_outer_thread s gid with
           | Some i -> LInner (nat_of_int i, nat_of_int 0, cn), Some (i, 0)
           | None -> LOuter (nat_of_int gid, cn), None)
        else match Hashtbl.find_opt owner gid with
          | Some (i, t) -> LInner (nat_of_int i, nat_of_int t, cn), Some (i, t)
          | None -> LOuter (nat_of_int gid, cn), None (* not a thread: nstep answers None *) in
      match nstep nn ch inner s label with
      | None -> bad := k
      | Some s' ->
          let ev = match obj with
            | Some (i, t) ->
                (match s.inn (nat_of_int i), s'.inn (nat_of_int i) with
                 | Some si, Some si' -> Printf.sprintf "i%d|%s" i (work_event (inner_n i) ig si si' t)
                 | _ -> "?")
            | None ->
                (match at_inner_call ch s.outer (nat_of_int gid) with
                 | Some i when s.inn i = None ->
                     let ii = int_of_nat i in
                     for t = 1 to inner_n ii - 1 do Hashtbl.replace owner !next (ii, t); incr next done;
                     created := ii :: !created;
                     Printf.sprintf "o|C%d:%d" gid ii
                 | _ -> "o|" ^ work_event n g s.outer s'.outer gid) in
          if !inv = "ok" && not (int_of_nat (nphi nn ch inner u s') < int_of_nat (nphi nn ch inner u s)) then
            inv := Printf.sprintf "FAIL@%d:nphi" k;
          check (k + 1) s';
          evs := Printf.sprintf "%s/%d" ev (mask s') :: !evs;
          ns := s'
    end) (pairs_of sched);
  if !bad >= 0 then Printf.sprintf "bad %d" !bad
  else begin
    let s = !ns in
    (* nfinal, and its reading: every reachable outer item has an inner Work that ran all its items *)
    let fin = nfinal s in
    if fin && !inv = "ok" then begin
      let want_outer = reach_set g (ints inits) and want_inner = reach_set ig (ints iinits) in
      if List.sort compare (List.map int_of_nat s.outer.finished) <> want_outer then inv := "FAIL@end:outer-finished";
      List.iter (fun i -> match s.inn (nat_of_int i) with
        | Some si -> if List.sort compare (List.map int_of_nat si.finished) <> want_inner || not (all_done si) then
                       inv := Printf.sprintf "FAIL@end:inner%d-finished" i
        | None -> inv := Printf.sprintf "FAIL@end:inner%d-missing" i) want_outer
    end;
    Printf.sprintf "ok %s | fin=%s done=%b phi=%d inv=%s"
      (if !evs = [] then "-" else String.concat "," (List.rev !evs))
      (dots (List.rev_map (fun i -> string_of_int (int_of_nat i)) s.outer.finished))
      fin (int_of_nat (nphi nn ch inner u s)) !inv
  end

let () = serve (function
  | ["work"; n; g; i; sch] -> do_work (ios n) g i sch
  | ["workrand"; n; g; i; seed] -> do_workrand (ios n) g i (ios seed)
  | ["workexplore"; n; g; i; m] -> do_workexplore (ios n) g i (ios m)
  | ["workcover"; n; g; i; m] -> do_workcover (ios n) g i (ios m)
  | ["cache"; mode; p; f; d; sch] -> do_cache mode p f d sch
  | ["cacherand"; mode; p; f; d; seed] -> do_cacherand mode p f d (ios seed)
  | ["cacheexplore"; p; f; d; m] -> do_cacheexplore p f d (ios m)
  | ["cachecover"; p; f; d; m] -> do_cachecover p f d (ios m)
  | ["nested"; n; g; i; ins; ig; ii; sch] -> do_nested (ios n) g i ins ig ii sch
  | _ -> "BAD-REQUEST")

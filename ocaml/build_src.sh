#!/bin/sh
# build_src.sh <group>: compile coq/extracted/<group>/src.ml (the segments of the source translated by
# harness/go2coq, extracted by Extract/<Group>SrcExtract.v) + common/conv.ml + <group>/src_driver.ml
# into /verif/bin/model_<group>_src, the second model binary the group's runner asks for the
# translated segments.  It NEVER fails: when the translated text no longer fits the driver (a
# candidate change gave a segment another signature) or was not extracted, the binary is removed and
# the runner, which finds none, runs all its other oracles and records that in a note.
cd "$(dirname "$0")"
g="$1"
src=../coq/extracted/$g
bin=../bin/model_${g}_src
if [ ! -f "$src/src.ml" ]; then rm -f "$bin"; echo "build_src: no $src/src.ml"; exit 0; fi
if [ -x "$bin" ] && [ "$bin" -nt "$src/src.ml" ] && [ "$bin" -nt "$g/src_driver.ml" ] && [ "$bin" -nt common/conv.ml ]; then exit 0; fi
b=_build/${g}_src
rm -rf "$b"; mkdir -p "$b" ../bin
cp "$src/src.ml" "$src/src.mli" "$b/"
sed 's/^open Model$/open Src/' common/conv.ml | cat - "$g/src_driver.ml" > "$b/main.ml"
if (cd "$b" && ocamlfind ocamlopt -w -a src.mli src.ml main.ml -o "../../$bin.tmp") 2>&1; then
  mv "$bin.tmp" "$bin"
else
  rm -f "$bin" "$bin.tmp"
  echo "build_src: the translated segments of $g do not fit ocaml/$g/src_driver.ml any more; bin/model_${g}_src removed"
fi
exit 0

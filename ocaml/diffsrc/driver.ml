(* driver of the TRANSLATED diff functions (coq/theories/Gen/DiffSrc.v extracted).  Requests
   (all arguments hex, "-" = empty); the iteration bound handed to the translation is
   length old + 1, the bound of the C08_source_* theorems:
     diff <oldName> <old> <newName> <new>   -> ok <hex of the returned bytes> | PANIC | FUEL
     lines <text>                           -> L <n> <hex>* | PANIC | FUEL
     tgs <old> <new>                        -> M <n> (<i>,<j>)* | PANIC | FUEL   (on src_lines old / src_lines new) *)
let show_res f = function Ok a -> f a | Panic -> "PANIC" | OutOfFuel -> "FUEL"
let rec int_of_positive = function XH -> 1 | XO p -> 2 * int_of_positive p | XI p -> 2 * int_of_positive p + 1
let int_of_z = function Z0 -> 0 | Zpos p -> int_of_positive p | Zneg p -> - (int_of_positive p)
let fuel_for (o : byte list) = nat_of_int (List.length o + 1)
let () = serve (function
  | ["diff"; on; o; nn; n] ->
      let o = bytes_of_hex o in
      show_res (fun b -> "ok " ^ hex_of_bytes b)
        (src_Diff (fuel_for o) (bytes_of_hex on) o (bytes_of_hex nn) (bytes_of_hex n))
  | ["lines"; t] ->
      show_res (fun ls -> String.concat " " ("L" :: string_of_int (List.length ls) :: List.map hex_of_bytes ls))
        (src_lines (bytes_of_hex t))
  | ["tgs"; o; n] ->
      let o = bytes_of_hex o in
      (match src_lines o, src_lines (bytes_of_hex n) with
       | Ok x, Ok y ->
           show_res (fun ms -> String.concat " " ("M" :: string_of_int (List.length ms) ::
               List.map (fun (i, j) -> Printf.sprintf "%d,%d" (int_of_z i) (int_of_z j)) ms))
             (src_tgs (fuel_for o) x y)
       | _ -> "PANIC")
  | _ -> "BAD-REQUEST")

#!/bin/sh
# build.sh <group>: compile coq/extracted/<group>/model.ml + common/conv.ml + <group>/driver.ml
# into /verif/bin/model_<group>.  Rebuilds only when an input is newer than the binary.
set -e
cd "$(dirname "$0")"
g="$1"
src=../coq/extracted/$g
bin=../bin/model_$g
if [ -x "$bin" ] && [ "$bin" -nt "$src/model.ml" ] && [ "$bin" -nt "$g/driver.ml" ] && [ "$bin" -nt common/conv.ml ]; then exit 0; fi
b=_build/$g
rm -rf "$b"; mkdir -p "$b" ../bin
cp "$src/model.ml" "$src/model.mli" "$b/"
cat common/conv.ml "$g/driver.ml" > "$b/main.ml"
cd "$b"
ocamlfind ocamlopt -w -a model.mli model.ml main.ml -o "../../$bin.tmp"
mv "../../$bin.tmp" "../../$bin"

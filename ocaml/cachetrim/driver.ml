(* C13 model driver.  Requests (tokens separated by blanks; byte strings in hex, "-" = empty;
   times and mtimes in decimal nanoseconds; {X} = X repeated the number of times given before it):

     DIR  = <trimtxt|none|dir> <nroot> {OBJ} <nabsent> {<subdir>} <k> {<subdir> <count> {OBJ}}
            ("dir": trim.txt is a directory, i.e. unreadable and unwritable; absent subdirectories
             do not exist; only non-empty subdirectories are listed)
     OBJ  = <name> <mtime> <data> <kind F|S|E|D|L>       (S = symbolic link to a regular file)
     EV   = G <u> <ia> <na> | L <u> <ia> <na> <id> <nd> | O <u> <id> <nd>
          | S <u> <ud> <ia> <na> <da> <id> <nd> <dd> | P <u> <ud> <id> <nd> <dd> | T <u>
            (P = a Put whose data part was carried out and whose index part failed)

     run <refresh:0|1> DIR <nev> {EV}   -> D DIR E <one 0/1 per T event: Trim returned an error>
     holds DIR <nev> {EV}               -> true|false     (c13_holds_on)
     prefix <k> <now> DIR               -> D DIR          (trim_prefix k now)
     conc <data:0|1> <now> <u> <sched: string of t/l> OBJ
                                        -> <file: OBJ|none> <lookup: hit|miss|running>
     due <now> <trimtxt|none>     -> true|false          (trim_due)
     parse <hex>                  -> some <decimal> | none   (parse_int (trim_space x))
     entry <hex>                  -> true|false          (is_entry_name)
     consts                       -> mtime_interval trim_interval trim_limit, then in hex the
                                     trim.txt name, the index suffix and the data suffix
*)

let z_of_small n = if n = 0 then Z0 else if n > 0 then Zpos (pos_of_int n) else Zneg (pos_of_int (-n))
let ten = z_of_small 10
let z_of_string (s : string) : z =
  let neg = String.length s > 0 && s.[0] = '-' in
  let acc = ref Z0 in
  String.iteri (fun i c ->
    if i = 0 && (c = '-' || c = '+') then ()
    else if c >= '0' && c <= '9' then acc := Z.add (Z.mul !acc ten) (z_of_small (Char.code c - 48))
    else failwith "bad number") s;
  if neg then Z.opp !acc else !acc
let string_of_z (x : z) : string = string_of_bytes (decimal x)

let nsub = int_of_string (string_of_z open_subdir_count)

let kind_of = function "F" -> KFile | "S" -> KLink | "E" -> KEmptyDir | "D" -> KFullDir | "L" -> KDangling
  | _ -> failwith "bad kind"
let show_kind = function KFile -> "F" | KLink -> "S" | KEmptyDir -> "E" | KFullDir -> "D" | KDangling -> "L"

let show_obj o =
  String.concat " " [hex_of_bytes o.oname; string_of_z o.omtime; hex_of_bytes o.odata; show_kind o.okind_of]

(* a tiny token reader *)
let toks = ref []
let next () = match !toks with t :: r -> toks := r; t | [] -> failwith "short request"
let next_int () = int_of_string (next ())
let read_obj () =
  let n = next () in let m = next () in let d = next () in let k = next () in
  { oname = bytes_of_hex n; omtime = z_of_string m; odata = bytes_of_hex d; okind_of = kind_of k }
let rec read_n k f = if k <= 0 then [] else let x = f () in x :: read_n (k - 1) f

let read_event () =
  let z () = z_of_string (next ()) in
  let n () = nat_of_int (next_int ()) in
  let b () = bytes_of_hex (next ()) in
  match next () with
  | "G" -> let u = z () in let ia = n () in let na = b () in EGet (u, ia, na)
  | "L" -> let u = z () in let ia = n () in let na = b () in let id = n () in let nd = b () in
           ELookup (u, ia, na, id, nd)
  | "O" -> let u = z () in let id = n () in let nd = b () in EOutput (u, id, nd)
  | "S" -> let u = z () in let ud = z () in let ia = n () in let na = b () in let da = b () in
           let id = n () in let nd = b () in let dd = b () in
           EStore (u, ud, ia, na, da, id, nd, dd)
  | "P" -> let u = z () in let ud = z () in let id = n () in let nd = b () in let dd = b () in
           EStoreData (u, ud, id, nd, dd)
  | "T" -> let u = z () in ETrim u
  | _ -> failwith "bad event"

let read_dir () : cdir =
  let r = next () in
  let record, blocked = match r with
    | "none" -> None, false | "dir" -> None, true | h -> Some (bytes_of_hex h), false in
  let nroot = next_int () in
  let root = read_n nroot read_obj in
  let tab = Array.make nsub (Some []) in
  let nabs = next_int () in
  for _ = 1 to nabs do tab.(next_int ()) <- None done;
  let k = next_int () in
  for _ = 1 to k do
    let i = next_int () in
    let cnt = next_int () in
    tab.(i) <- Some (read_n cnt read_obj)
  done;
  { subdirs = Array.to_list tab; rootobjs = root; trimtxt = record; trimblocked = blocked }

let show_dir (c : cdir) =
  let subs = List.mapi (fun i l -> (i, l)) c.subdirs in
  let absent = List.filter (fun (_, l) -> l = None) subs in
  let ne = List.filter_map (fun (i, l) -> match l with Some (_ :: _ as l) -> Some (i, l) | _ -> None) subs in
  let record = if c.trimblocked then "dir" else match c.trimtxt with None -> "none" | Some b -> hex_of_bytes b in
  String.concat " "
    (["D"; record; string_of_int (List.length c.rootobjs)]
     @ List.map show_obj c.rootobjs
     @ [string_of_int (List.length absent)] @ List.map (fun (i, _) -> string_of_int i) absent
     @ [string_of_int (List.length ne)]
     @ List.concat_map (fun (i, l) -> string_of_int i :: string_of_int (List.length l) :: List.map show_obj l) ne)

let read_events () = let nev = next_int () in read_n nev read_event

let handle_run () =
  let refresh = next () = "1" in
  let c = read_dir () in
  let evs = read_events () in
  let errs = Buffer.create 8 in
  let final = List.fold_left (fun c e ->
    (match e with ETrim u -> Buffer.add_char errs (if trim_err u c then '1' else '0') | _ -> ());
    step refresh c e) c evs in
  show_dir final ^ " E " ^ (if Buffer.length errs = 0 then "-" else Buffer.contents errs)

let handle_conc () =
  let data = next () = "1" in
  let now = z_of_string (next ()) in
  let u = z_of_string (next ()) in
  let sched = next () in
  let o = read_obj () in
  let sch = List.init (String.length sched) (fun i -> sched.[i] = 't') in
  let s = c_run data (trim_cutoff now) u sch (c_init o) in
  (match s.cfile with Some o -> show_obj o | None -> "none") ^ " " ^
  (match s.clp with LDone true -> "hit" | LDone false -> "miss" | _ -> "running")

let () = serve (fun req ->
  match req with
  | "run" :: r -> toks := r; handle_run ()
  | "holds" :: r -> toks := r; let c = read_dir () in let evs = read_events () in
                    string_of_bool (c13_holds_on c evs)
  | "prefix" :: k :: now :: r -> toks := r; let c = read_dir () in
                    show_dir (trim_prefix (nat_of_int (int_of_string k)) (z_of_string now) c)
  | "conc" :: r -> toks := r; handle_conc ()
  | ["due"; now; record] ->
      string_of_bool (trim_due (z_of_string now) (match record with "none" -> None | h -> Some (bytes_of_hex h)))
  | ["parse"; x] ->
      (match parse_int (trim_space (bytes_of_hex x)) with
       | Some v -> "some " ^ string_of_z v | None -> "none")
  | ["entry"; x] -> string_of_bool (is_entry_name (bytes_of_hex x))
  | ["consts"] ->
      String.concat " " [string_of_z mtime_interval; string_of_z trim_interval; string_of_z trim_limit;
                         hex_of_bytes trim_file_name; hex_of_bytes index_suffix; hex_of_bytes data_suffix]
  | _ -> "BAD-REQUEST")

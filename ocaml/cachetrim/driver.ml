(* C13 model driver.  Requests (tokens separated by blanks; byte strings in hex, "-" = empty;
   times and mtimes in decimal nanoseconds; {X} = X repeated the number of times given before it):

     run <refresh:0|1> <trimtxt|none> <nroot> {OBJ} <k> {<subdir> <count> {OBJ}} <nev> {EV}
         OBJ = <name> <mtime> <data> <kind F|E|D|L>
         EV  = G <u> <ia> <na> | L <u> <ia> <na> <id> <nd>
             | S <u> <ia> <na> <da> <id> <nd> <dd> | T <u>
       -> D <trimtxt|none> <nroot> {OBJ} <k> {<subdir> <count> {OBJ}}       (non-empty subdirs only)
     due <now> <trimtxt|none>     -> true|false          (trim_due)
     parse <hex>                  -> some <decimal> | none   (parse_int (trim_space x))
     entry <hex>                  -> true|false          (is_entry_name)
     consts                       -> mtime_interval trim_interval trim_limit, then in hex the
                                     trim.txt name, the index suffix and the data suffix
*)

let z_of_small n = if n = 0 then Z0 else if n > 0 then Zpos (pos_of_int n) else Zneg (pos_of_int (-n))
let ten = z_of_small 10
let z_of_string (s : string) : z =
  let neg = String.length s > 0 && s.[0] = '-' in
  let acc = ref Z0 in
  String.iteri (fun i c ->
    if i = 0 && (c = '-' || c = '+') then ()
    else if c >= '0' && c <= '9' then acc := Z.add (Z.mul !acc ten) (z_of_small (Char.code c - 48))
    else failwith "bad number") s;
  if neg then Z.opp !acc else !acc
let string_of_z (x : z) : string = string_of_bytes (decimal x)

let nsub = int_of_string (string_of_z open_subdir_count)

let kind_of = function "F" -> KFile | "E" -> KEmptyDir | "D" -> KFullDir | "L" -> KDangling
  | _ -> failwith "bad kind"
let show_kind = function KFile -> "F" | KEmptyDir -> "E" | KFullDir -> "D" | KDangling -> "L"

let show_obj o =
  String.concat " " [hex_of_bytes o.oname; string_of_z o.omtime; hex_of_bytes o.odata; show_kind o.okind_of]
let show_rec = function None -> "none" | Some b -> hex_of_bytes b
let read_rec = function "none" -> None | h -> Some (bytes_of_hex h)

(* a tiny token reader *)
let toks = ref []
let next () = match !toks with t :: r -> toks := r; t | [] -> failwith "short request"
let next_int () = int_of_string (next ())
let read_obj () =
  let n = next () in let m = next () in let d = next () in let k = next () in
  { oname = bytes_of_hex n; omtime = z_of_string m; odata = bytes_of_hex d; okind_of = kind_of k }
let rec read_n k f = if k <= 0 then [] else let x = f () in x :: read_n (k - 1) f

let read_event () =
  match next () with
  | "G" -> let u = next () in let ia = next_int () in let na = next () in
           EGet (z_of_string u, nat_of_int ia, bytes_of_hex na)
  | "L" -> let u = next () in let ia = next_int () in let na = next () in
           let id = next_int () in let nd = next () in
           ELookup (z_of_string u, nat_of_int ia, bytes_of_hex na, nat_of_int id, bytes_of_hex nd)
  | "S" -> let u = next () in let ia = next_int () in let na = next () in let da = next () in
           let id = next_int () in let nd = next () in let dd = next () in
           EStore (z_of_string u, nat_of_int ia, bytes_of_hex na, bytes_of_hex da,
                   nat_of_int id, bytes_of_hex nd, bytes_of_hex dd)
  | "T" -> let u = next () in ETrim (z_of_string u)
  | _ -> failwith "bad event"

let show_dir (c : cdir) =
  let subs = List.mapi (fun i l -> (i, l)) c.subdirs in
  let ne = List.filter (fun (_, l) -> l <> []) subs in
  String.concat " "
    (["D"; show_rec c.trimtxt; string_of_int (List.length c.rootobjs)]
     @ List.map show_obj c.rootobjs
     @ [string_of_int (List.length ne)]
     @ List.concat_map (fun (i, l) -> string_of_int i :: string_of_int (List.length l) :: List.map show_obj l) ne)

let handle_run () =
  let refresh = next () = "1" in
  let record = read_rec (next ()) in
  let nroot = next_int () in
  let root = read_n nroot read_obj in
  let k = next_int () in
  let tab = Array.make nsub [] in
  for _ = 1 to k do
    let i = next_int () in
    let cnt = next_int () in
    tab.(i) <- read_n cnt read_obj
  done;
  let nev = next_int () in
  let evs = read_n nev read_event in
  let c = { subdirs = Array.to_list tab; rootobjs = root; trimtxt = record } in
  show_dir (run refresh c evs)

let () = serve (fun req ->
  match req with
  | "run" :: r -> toks := r; handle_run ()
  | ["due"; now; record] -> string_of_bool (trim_due (z_of_string now) (read_rec record))
  | ["parse"; x] ->
      (match parse_int (trim_space (bytes_of_hex x)) with
       | Some v -> "some " ^ string_of_z v | None -> "none")
  | ["entry"; x] -> string_of_bool (is_entry_name (bytes_of_hex x))
  | ["consts"] ->
      String.concat " " [string_of_z mtime_interval; string_of_z trim_interval; string_of_z trim_limit;
                         hex_of_bytes trim_file_name; hex_of_bytes index_suffix; hex_of_bytes data_suffix]
  | _ -> "BAD-REQUEST")

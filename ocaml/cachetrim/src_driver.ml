(* Driver of the translated segments of cache/cache.go for C13 (coq/extracted/cachetrim/src.ml, from
   Gen/CacheSrc.v; built by ocaml/build_src.sh into bin/model_cachetrim_src).  Requests (bytes in hex;
   times in decimal nanoseconds), each answering PANIC / OUTOFFUEL when the segment does:
     srcdue <now> <trimtxt>         -> true|false   (src_Cache_Trim_due: true = the scan runs)
     srcfresh <mtime> <now>         -> keep|touch   (src_Cache_used_fresh after a successful Stat)
     srcremove <now> <name> <mtime> -> skip|keep|remove   (src_Cache_trimSubdir_candidate, then
                                       src_Cache_trimSubdir_stale at src_Cache_Trim_cutoff after a successful Stat) *)
let z_of_small n = if n = 0 then Z0 else if n > 0 then Zpos (pos_of_int n) else Zneg (pos_of_int (-n))
let ten = z_of_small 10
let z_of_string (s : string) : z =
  let neg = String.length s > 0 && s.[0] = '-' in
  let acc = ref Z0 in
  String.iteri (fun i c ->
    if i = 0 && (c = '-' || c = '+') then ()
    else if c >= '0' && c <= '9' then acc := Z.add (Z.mul !acc ten) (z_of_small (Char.code c - 48))
    else failwith "bad number") s;
  if neg then Z.opp !acc else !acc

let () = serve (fun req ->
  match req with
  | ["srcdue"; now; record] ->
      (match src_Cache_Trim_due (time_of_ns (z_of_string now)) (bytes_of_hex record) with
       | Ok (Normal _) -> "true" | Ok (Return false) -> "false" | Ok _ -> "BAD-OUTCOME"
       | Panic -> "PANIC" | OutOfFuel -> "OUTOFFUEL")
  | ["srcfresh"; mtime; now] ->
      (match src_Cache_used_fresh (time_of_ns (z_of_string mtime)) false (time_of_ns (z_of_string now)) with
       | Ok (Return _) -> "keep" | Ok (Normal _) -> "touch" | Ok _ -> "BAD-OUTCOME"
       | Panic -> "PANIC" | OutOfFuel -> "OUTOFFUEL")
  | ["srcremove"; now; name; mtime] ->
      (match src_Cache_trimSubdir_candidate [] (bytes_of_hex name) with
       | Ok (Continue _) -> "skip"
       | Ok (Normal _) ->
           (match src_Cache_Trim_cutoff (time_of_ns (z_of_string now)) with
            | Ok (Normal cutoff) ->
                (match src_Cache_trimSubdir_stale cutoff (time_of_ns (z_of_string mtime)) false with
                 | Ok true -> "remove" | Ok false -> "keep" | Panic -> "PANIC" | OutOfFuel -> "OUTOFFUEL")
            | Ok _ -> "BAD-OUTCOME" | Panic -> "PANIC" | OutOfFuel -> "OUTOFFUEL")
       | Ok _ -> "BAD-OUTCOME" | Panic -> "PANIC" | OutOfFuel -> "OUTOFFUEL")
  | _ -> "BAD-REQUEST")

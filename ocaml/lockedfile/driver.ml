(* lockedfile model driver (group lockedfile; C06, C07).  Bytes are hex ("-" = empty).
   Requests:
     mode <flags>                         -> <EX|SH|NONE> <flock arg> <flags handed to openat>
     ops <call> <arg> <file>              -> <outcome> <final file> <n> <op>*n
        call = read | write | transform | create | edit | open | mutex | openfile
        arg  = data (write) | new contents or FAIL (transform) | decimal flags (openfile) | -
        file = initial contents, or "absent"
        file = "fifo" | "chardev": a non-regular file (attribute model, LockedFileA.v)
     opsattr <call> <arg> <file> <regular 0|1> <may-read 0|1> <may-write 0|1>
                                          -> same, with the inode attributes as the caller sees them
     fault <old> <new|FAIL> <k> <fail|short> <n>
                                          -> same, for Transform on a file holding <old> with
                                             the k-th visible operation (0-based) failing
     faultcall <call> <arg> <file> <k> <fail|short> <n>
                                          -> same for any call (createwrite / editwrite <data>:
                                             Create resp. Edit, then Write(data), then Close)
     locktab <n> {g:<E|S>:<ofd>:<ino> | u:<ofd>:<ino>}..
                                          -> ok <grants> | reject <index> <conflicting holders>
                                             (can_grant / drop of the model's flock table)
     replay <full|prefix> <ninodes> <file>.. <nclients> {<ino> <flags> <ok|err> <nops> <op>..}.. <nevents> {<client>:<kind>}..
                                          -> ok <final file>..  |  mismatch <event> <text>
        an observed history replayed through the interleaved semantics (init_state/exec):
        op = r:<data> | p:<off>:<data> | w:<data> | t:<size>; kind = open | flock<arg> | io | close
     polcall <call> <arg> <file> <policy> -> same as ops, the whole call run under a fault POLICY (Policy.v):
        policy = none | limit:<L> | class:<open>:<flock>:<read>:<write>:<trunc>:<close>
                 (each <k> or <k>+ : the k-th call of the class fails, with + every later one too; 0 = never)
        call also: writer, arg = <chunk>,<chunk>..:<0|1>  (Write with a reader delivering the chunks,
        1 = the reader ends with an error)
     mutexfacts                           -> lockpanic <msg>|lockruns -  atpanic <msg>|atok -
     mutexstring <path>                   -> <hex of Mutex.String()>
     spec <call> <arg> <reg>              -> <outcome> <new reg>   (call_spec: the sequential
                                             specification used by the linearisability theorem)
     hrun <exists> <event>..              -> one "<answer>:<probes>:<descriptors>" per event (Handles.v: htrace)
        the histories of ONE process over File / Mutex / unlock-function objects; <exists> = one 0|1 per
        inode (does the file exist at the start); event = o:<ino>:<flags> (OpenFile) | c:<h> (File.Close
        on handle h) | d:<h> (drop the reference) | gc | mn:<ino> (MutexAt) | ml:<m> (Lock) | mu:<h> (the
        unlock function); answer = OK | ERR | SKIP | PANIC | STUCK; probes = per inode f|s|x (what
        another process's LOCK_EX|LOCK_NB / LOCK_SH|LOCK_NB finds); descriptors = per inode, comma separated
   <outcome> = ok | err | data:<hex> | blocked
   <op> = open:<flags>=<r> | flock:<how>=<r> | ftruncate:<n>=<r> | readall=<r> |
          pwrite:<off>:<hex>=<r> | write:<hex>=<r> | close=<r>        (ghost marks are not shown)
   <r> = ok | err | eintr | data:<hex> *)
let res_s = function ROk -> "ok" | RErr -> "err" | REintr -> "eintr" | RData b -> "data:" ^ hex_of_bytes b
let result_s = function ResOk -> "ok" | ResErr -> "err" | ResData b -> "data:" ^ hex_of_bytes b
let outcome_s = function Finished r -> result_s r | Blocked -> "blocked"
let file_s = function None -> "absent" | Some b -> hex_of_bytes b
let file_of s = if s = "absent" then None else Some (bytes_of_hex s)
let is_mark = function OMark _ -> true | _ -> false
let op_s (o, r) =
  (match o with
   | OOpen f -> "open:" ^ string_of_int (int_of_n f)
   | OFlock h -> "flock:" ^ string_of_int (int_of_n h)
   | OFtruncate n -> "ftruncate:" ^ string_of_int (int_of_nat n)
   | OReadAll -> "readall"
   | OPWrite (off, d) -> "pwrite:" ^ string_of_int (int_of_nat off) ^ ":" ^ hex_of_bytes d
   | OWrite d -> "write:" ^ hex_of_bytes d
   | OClose -> "close"
   | OMark MReturned -> "mark:returned"
   | OMark MCloseCalled -> "mark:close") ^ "=" ^ res_s r
let ok_body = Ret ResOk
let call_of name arg : call =
  match name with
  | "read" -> CRead
  | "write" -> CWrite (bytes_of_hex arg)
  | "transform" ->
      if arg = "FAIL" then CTransform (fun _ -> None)
      else let nw = bytes_of_hex arg in CTransform (fun _ -> Some nw)
  | "create" -> CCreate ok_body
  | "edit" -> CEdit ok_body
  | "open" -> COpen ok_body
  | "mutex" -> CMutex
  | "openfile" -> COpenFile (n_of_int (int_of_string arg), ok_body)
  | "writer" ->
      (match String.split_on_char ':' arg with
       | [cs; e] -> writer_call (List.map bytes_of_hex (String.split_on_char ',' cs)) (e = "1")
       | _ -> failwith "bad writer arg")
  | "createwrite" -> CCreate (write_body (bytes_of_hex arg))
  | "editwrite" -> CEdit (write_body (bytes_of_hex arg))
  | _ -> failwith "bad call"
let show (tr, out, o) =
  let vis = List.filter (fun (op, _) -> not (is_mark op)) tr in
  outcome_s out ^ " " ^ file_s (o.files O) ^ " " ^ string_of_int (List.length vis) ^
  String.concat "" (List.map (fun x -> " " ^ op_s x) vis)
let run_call c plan file =
  let ((tr, out), o) = run_seq O O (prog_of_call c) plan O (os_with file) in
  (tr, out, o)
(* ---- a whole call under a fault policy *)
let cspec_of s =
  let n = String.length s in
  if n > 0 && s.[n - 1] = '+' then { cs_first = nat_of_int (int_of_string (String.sub s 0 (n - 1))); cs_all = true }
  else { cs_first = nat_of_int (int_of_string s); cs_all = false }
let policy_of spec =
  match String.split_on_char ':' spec with
  | ["none"] -> no_fault_pol
  | ["limit"; l] -> limit_pol (nat_of_int (int_of_string l))
  | ["class"; o; f; r; w; t; c] ->
      let o = cspec_of o and f = cspec_of f and r = cspec_of r and w = cspec_of w and t = cspec_of t and c = cspec_of c in
      class_pol (function KOpen -> o | KFlock -> f | KRead -> r | KWrite -> w | KTrunc -> t | KClose -> c | KMark -> cs_never)
  | _ -> failwith "bad policy"
let run_call_pol name c pol file =
  let ((h, out), o) = run_pol O O (prog_of_call c) pol [] (os_with file) in
  (* Write hands back the error of Close when the copy succeeded *)
  let out = if name = "write" || name = "writer" then write_outcome h out else out in
  (List.rev h, out, o)
(* with inode attributes; a non-regular file is given some contents the model never looks at *)
let run_call_a a c file =
  let ((tr, out), o) = run_seq_a a O O (prog_of_call_a a c) no_faults O (os_with file) in
  (tr, out, o)
let special = { a_regular = false; a_can_read = true; a_can_write = true }
(* global index of the k-th visible op of the fault-free run *)
let global_index tr k =
  let rec go i seen = function
    | [] -> None
    | (op, _) :: rest ->
        if is_mark op then go (i + 1) seen rest
        else if seen = k then Some i else go (i + 1) (seen + 1) rest in
  go 0 0 tr
(* ---- replay of an observed multi-process history through the interleaved model (exec) *)
let rec body_of_ops = function
  | [] -> Ret ResOk
  | tok :: rest ->
      let next r = if r = ROk then body_of_ops rest else Ret ResErr in
      (match String.split_on_char ':' tok with
       | ["r"; d] ->
           let want = bytes_of_hex d in
           Do (OReadAll, fun r -> match r with
             | RData m -> if m = want then body_of_ops rest else Ret (ResData m)
             | _ -> Ret ResErr)
       | ["p"; off; d] -> Do (OPWrite (nat_of_int (int_of_string off), bytes_of_hex d), next)
       | ["w"; d] -> Do (OWrite (bytes_of_hex d), next)
       | ["t"; n] -> Do (OFtruncate (nat_of_int (int_of_string n)), next)
       | _ -> failwith ("bad op " ^ tok))
let rec take n l acc = if n = 0 then (List.rev acc, l) else
  match l with x :: r -> take (n - 1) r (x :: acc) | [] -> failwith "short request"
let op_kind = function
  | OOpen _ -> "open" | OFlock h -> "flock" ^ string_of_int (int_of_n h) | OClose -> "close"
  | OMark _ -> "mark" | _ -> "io"
let replay toks =
  (* mode "prefix": the events are a prefix of the history, clients need not have finished *)
  let prefix = (List.hd toks = "prefix") in
  let toks = List.tl toks in
  let ni = int_of_string (List.hd toks) in
  let (inits, toks) = take ni (List.tl toks) [] in
  let inits = Array.of_list (List.map file_of inits) in
  let nc = int_of_string (List.hd toks) in
  let toks = ref (List.tl toks) in
  let clients = Array.init nc (fun _ ->
    match !toks with
    | ino :: flags :: expect :: nops :: r ->
        let (ops, r) = take (int_of_string nops) r [] in
        toks := r;
        (int_of_string ino, expect,
         { c_ino = nat_of_int (int_of_string ino);
           c_call = COpenFile (n_of_int (int_of_string flags), body_of_ops ops) })
    | _ -> failwith "short client") in
  let idle = { c_ino = O; c_call = CMutex } in
  let cfg c = let i = int_of_nat c in if i < nc then (match clients.(i) with (_, _, cl) -> cl) else idle in
  let f i = let j = int_of_nat i in if j < ni then inits.(j) else None in
  let ne = int_of_string (List.hd !toks) in
  let (events, _) = take ne (List.tl !toks) [] in
  let s = ref (init_state cfg f) in
  let result = ref "" in
  let t0 = Sys.time () in
  (try
    List.iteri (fun idx ev ->
      (* self-imposed CPU budget: an abandoned model process must not spin for ever *)
      if idx land 63 = 0 && Sys.time () -. t0 > 100.0 then begin
        result := "MODEL-TIMEOUT cpu budget of the replay request exhausted at event " ^ string_of_int idx; raise Exit end;
      match String.split_on_char ':' ev with
      | [c; kind] ->
          let ci = int_of_string c in
          let cn = nat_of_int ci in
          let rec step () =
            match !s.progs cn with
            | Ret _ -> result := Printf.sprintf "mismatch %d client %d has already returned in the model, observed %s" idx ci kind; raise Exit
            | Do (OMark _, _) -> s := exec cfg !s (EvRun cn); step ()
            | Do (o, _) | Retry (o, _) ->
                if op_kind o <> kind then begin
                  result := Printf.sprintf "mismatch %d client %d: observed %s, the model's next operation is %s" idx ci kind (op_kind o); raise Exit end;
                let s' = exec cfg !s (EvRun cn) in
                if s'.progs == !s.progs then begin
                  result := Printf.sprintf "mismatch %d client %d: observed %s completed, the model blocks" idx ci kind; raise Exit end;
                s := s' in
          step ()
      | _ -> failwith "bad event") events;
    (* let every client run its trailing ghost steps, then look at the results *)
    Array.iteri (fun ci (_, expect, _) ->
      let cn = nat_of_int ci in
      let rec fin n = match !s.progs cn with
        | Do (OMark _, _) when n > 0 -> s := exec cfg !s (EvRun cn); fin (n - 1)
        | _ -> () in
      fin 4;
      match !s.progs cn with
      | Ret r ->
          let got = (match r with ResOk -> "ok" | ResErr -> "err" | ResData m -> "readmismatch:" ^ hex_of_bytes m) in
          if got <> expect && !result = "" then
            result := Printf.sprintf "mismatch -1 client %d: observed outcome %s, model %s" ci expect got
      | _ -> if !result = "" && not prefix then result := Printf.sprintf "mismatch -1 client %d has not finished in the model" ci) clients
  with Exit -> ());
  if !result <> "" then !result else
  "ok " ^ String.concat " " (List.init ni (fun i -> file_s (!s.st_os.files (nat_of_int i))))

let () = serve (function
  | "replay" :: toks -> replay toks
  | ["mode"; f] ->
      let fl = n_of_int (int_of_string f) in
      (match lock_mode_of_flags fl with Some LEx -> "EX" | Some LSh -> "SH" | None -> "NONE") ^ " " ^
      string_of_int (int_of_n (lock_arg_of_flags fl)) ^ " " ^
      string_of_int (int_of_n (strip fl openfile_strip_mask))
  | ["ops"; name; arg; ("fifo" | "chardev" as kind)] ->
      let (tr, out, o) = run_call_a special (call_of name arg) (Some []) in
      let s = show (tr, out, o) in
      (* the file's "contents" are not observable: print the kind instead *)
      (match String.split_on_char ' ' s with
       | o1 :: _ :: rest -> String.concat " " (o1 :: kind :: rest)
       | _ -> s)
  | ["opsattr"; name; arg; file; reg; rd; wr] ->
      let a = { a_regular = (reg = "1"); a_can_read = (rd = "1"); a_can_write = (wr = "1") } in
      show (run_call_a a (call_of name arg) (file_of file))
  | ["ops"; name; arg; file] -> show (run_call (call_of name arg) no_faults (file_of file))
  | ["polcall"; name; arg; file; spec] -> show (run_call_pol name (call_of name arg) (policy_of spec) (file_of file))
  | ["fault"; old; nw; k; kind; n] ->
      let c = call_of "transform" nw in
      let file = Some (bytes_of_hex old) in
      let (tr0, _, _) = run_call c no_faults file in
      let flt = if kind = "short" then FShort (nat_of_int (int_of_string n)) else FFail in
      (match global_index tr0 (int_of_string k) with
       | None -> show (run_call c no_faults file)
       | Some g -> show (run_call c (fault_at (nat_of_int g) flt) file))
  | ["faultcall"; name; arg; file; k; kind; n] ->
      let c = call_of name arg in
      let file = file_of file in
      let (tr0, _, _) = run_call c no_faults file in
      let flt = if kind = "short" then FShort (nat_of_int (int_of_string n)) else FFail in
      (match global_index tr0 (int_of_string k) with
       | None -> show (run_call c no_faults file)
       | Some g -> show (run_call c (fault_at (nat_of_int g) flt) file))
  | "locktab" :: _ :: toks ->
      (* replay of an observed flock history through the model's lock table *)
      let tab : (int, (nat * lkind) list) Hashtbl.t = Hashtbl.create 16 in
      let get i = try Hashtbl.find tab i with Not_found -> [] in
      let t0 = Sys.time () in
      let rec go idx grants = function
        | [] -> "ok " ^ string_of_int grants
        | _ when idx land 255 = 0 && Sys.time () -. t0 > 100.0 -> "MODEL-TIMEOUT cpu budget exhausted"
        | tok :: rest ->
            (match String.split_on_char ':' tok with
             | ["g"; k; c; i] ->
                 let k = if k = "E" then LEx else LSh in
                 let c = nat_of_int (int_of_string c) and i = int_of_string i in
                 if can_grant k c (get i) then begin
                   Hashtbl.replace tab i ((c, k) :: drop c (get i)); go (idx + 1) (grants + 1) rest
                 end else
                   "reject " ^ string_of_int idx ^
                   String.concat "" (List.map (fun (d, k') ->
                     " description:" ^ string_of_int (int_of_nat d) ^ (match k' with LEx -> ":LOCK_EX" | LSh -> ":LOCK_SH"))
                     (List.filter (fun (d, _) -> d <> c) (get i)))
             | ["u"; c; i] ->
                 let c = nat_of_int (int_of_string c) and i = int_of_string i in
                 Hashtbl.replace tab i (drop c (get i)); go (idx + 1) grants rest
             | _ -> "ERR bad token " ^ tok) in
      go 0 0 toks
  | "hrun" :: exists :: evs ->
      let n = String.length exists in
      let files i = let k = int_of_nat i in if k < n && exists.[k] = '1' then Some [] else None in
      let ev tok = match String.split_on_char ':' tok with
        | ["o"; i; fl] -> HOpen (nat_of_int (int_of_string i), n_of_int (int_of_string fl))
        | ["c"; h] -> HClose (nat_of_int (int_of_string h))
        | ["d"; h] -> HDrop (nat_of_int (int_of_string h))
        | ["gc"] -> HGC
        | ["mn"; i] -> HMNew (nat_of_int (int_of_string i))
        | ["ml"; m] -> HMLock (nat_of_int (int_of_string m))
        | ["mu"; h] -> HMUnlock (nat_of_int (int_of_string h))
        | _ -> failwith ("bad event " ^ tok) in
      let rec inodes k = if k >= n then [] else nat_of_int k :: inodes (k + 1) in
      let tr = htrace (hinit files) (List.map ev evs) (inodes 0) in
      String.concat " " (List.map (fun (r, obs) ->
        (match r with HOk -> "OK" | HErr -> "ERR" | HNone -> "SKIP" | HPanicked -> "PANIC" | HStuck -> "STUCK") ^ ":" ^
        String.concat "" (List.map (fun (p, _) -> match p with PFree -> "f" | PShared -> "s" | PExcl -> "x") obs) ^ ":" ^
        String.concat "," (List.map (fun (_, k) -> string_of_int (int_of_nat k)) obs)) tr)
  | ["mutexfacts"] ->
      (match mutex_lock [] with MPanic m -> "lockpanic " ^ hex_of_bytes m | MRun _ -> "lockruns -") ^ " " ^
      (match mutex_at [] with Inr m -> "atpanic " ^ hex_of_bytes m | Inl _ -> "atok -")
  | ["mutexstring"; p] -> hex_of_bytes (mutex_string (bytes_of_hex p))
  | ["spec"; name; arg; reg] ->
      let c = call_of name arg in
      let (r, b) = call_spec (flags_of_call c) (body_of_call c) (bytes_of_hex reg) in
      result_s r ^ " " ^ hex_of_bytes b
  | _ -> "ERR bad request")

(* driver of the TRANSLATED import reader (coq/theories/Gen/ImportsReadSrc.v extracted).
   Requests (hex fields, "-" = empty), answers in the format of ocaml/imports/driver.ml:
     ri <0|1> <input>        -> R <nil|syntax|nul|other> <n> <path>* <out> | PANIC | FUEL
                                (src_ReadImports fuel input report (Some []), fuel = 2 * length input + 8,
                                 the bound of the C18_source_* theorems)
     rin <0|1> <input>       -> the same with imports = nil: R ... 0 <out>, or NOTNIL if the pointer came back non-nil
     id <byte>               -> true | false | PANIC      (src_isIdent) *)
let show_err e =
  if goerr_eqb e ErrNil then "nil" else if goerr_eqb e src_errSyntax then "syntax"
  else if goerr_eqb e src_errNUL then "nul" else "other"
let fuel_for (x : byte list) = nat_of_int (2 * List.length x + 8)
let show imps out e =
  String.concat " " (["R"; show_err e; string_of_int (List.length imps)] @ List.map hex_of_bytes imps @ [hex_of_bytes out])
let () = serve (function
  | ["ri"; r; x] ->
      let x = bytes_of_hex x in
      (match src_ReadImports (fuel_for x) x (r = "1") (Some []) with
       | Ok ((Some imps, out), e) -> show imps out e
       | Ok ((None, _), _) -> "NIL"
       | Panic -> "PANIC"
       | OutOfFuel -> "FUEL")
  | ["rin"; r; x] ->
      let x = bytes_of_hex x in
      (match src_ReadImports (fuel_for x) x (r = "1") None with
       | Ok ((None, out), e) -> show [] out e
       | Ok ((Some _, _), _) -> "NOTNIL"
       | Panic -> "PANIC"
       | OutOfFuel -> "FUEL")
  | ["id"; b] ->
      (match bytes_of_hex b with
       | [c] -> (match src_isIdent c with Ok v -> string_of_bool v | _ -> "PANIC")
       | _ -> "BAD-REQUEST")
  | _ -> "BAD-REQUEST")

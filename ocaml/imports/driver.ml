(* imports model driver.  Requests (hex fields, "-" = empty):
     sb <content> <tag>*      -> true | false | PANIC      (should_build)
     sbspec <content> <tag>*  -> true | false              (spec_should_build)
     mf <name> <tag>*         -> true | false              (match_file)
     mt <option> <tag>*       -> true | false              (match_tags)
     ri <0|1> <input>         -> R <nil|syntax|nul> <n> <path>* <out> | PANIC | FUEL   (read_imports report input)
     rc <input>               -> same                                                  (read_comments) *)
let show_result = function
  | ROk (imps, out, e) ->
      String.concat " " (["R"; (match e with ENone -> "nil" | ESyntax -> "syntax" | ENUL -> "nul");
                          string_of_int (List.length imps)] @ List.map hex_of_bytes imps @ [hex_of_bytes out])
  | RPanic -> "PANIC"
  | RFuel -> "FUEL"
let tagset (l : string list) : byte list -> bool =
  let ts = List.map bytes_of_hex l in
  fun t -> List.mem t ts
let () = serve (function
  | "sb" :: c :: tags ->
      (match should_build (bytes_of_hex c) (tagset tags) with
       | Some b -> string_of_bool b | None -> "PANIC")
  | "sbspec" :: c :: tags -> string_of_bool (spec_should_build (bytes_of_hex c) (tagset tags))
  | "mf" :: n :: tags -> string_of_bool (match_file (bytes_of_hex n) (tagset tags))
  | "mt" :: o :: tags -> string_of_bool (match_tags (bytes_of_hex o) (tagset tags))
  | ["ri"; r; x] -> show_result (read_imports (r = "1") (bytes_of_hex x))
  | ["rc"; x] -> show_result (read_comments (bytes_of_hex x))
  | _ -> "BAD-REQUEST")

(* imports model driver.  Requests (hex fields, "-" = empty):
     sb <content> <tag>*      -> true | false | PANIC      (should_build)
     sbspec <content> <tag>*  -> true | false              (spec_should_build)
     mf <name> <tag>*         -> true | false              (match_file)
     mt <option> <tag>*       -> true | false              (match_tags)
     ri <0|1> <input>         -> R <nil|syntax|nul> <n> <path>* <out> | PANIC | FUEL   (read_imports report input)
     rc <input>               -> same                                                  (read_comments)
     g <rest> <section>       -> G <wf_section g rest> <render g> <n> <path>* <render_body g>
        section := <bom 0|1> trivs trivs <pkg> <n> (trivs decl)^n trivs
        trivs   := <n> ((s|l|b) <hex>)^n
        decl    := 1 trivs spec | g trivs <n> (trivs spec)^n trivs
        spec    := (n | d | i <hex>) trivs (r <hex> | q <n> ((p|e) <hex1>)^n)
     uq <literal>             -> ok <hex> | err                                        (unquote)
     ts <bytes>               -> <hex>                                                 (trim_space = bytes.TrimSpace)
     fl <bytes>               -> <n> <hex>*                                            (fields = strings.Fields)
     sd|sf <ntags> <tag>* <nfiles> (<name> <regular 0|1> <data>)*
                              -> S ok <n> <import>* <m> <testimport>* | S nogo | S readerr | PANIC   (scan_dir | scan_files) *)
exception Bad
let parse_section (toks : string list) : isection =
  let rest = ref toks in
  let next () = match !rest with t :: r -> rest := r; t | [] -> raise Bad in
  let num () = int_of_string (next ()) in
  let rec times n f = if n <= 0 then [] else let x = f () in x :: times (n - 1) f in
  let byte1 () = match bytes_of_hex (next ()) with [b] -> b | _ -> raise Bad in
  let triv () = match next () with
    | "s" -> TSp (byte1 ())
    | "l" -> TLine (bytes_of_hex (next ()))
    | "b" -> TBlock (bytes_of_hex (next ()))
    | _ -> raise Bad in
  let trivs () = let n = num () in times n triv in
  let item () = match next () with
    | "p" -> IPlain (byte1 ()) | "e" -> IEsc (byte1 ()) | _ -> raise Bad in
  let lit () = match next () with
    | "r" -> SRaw (bytes_of_hex (next ()))
    | "q" -> let n = num () in SInterp (times n item)
    | _ -> raise Bad in
  let spec () =
    let name = match next () with
      | "n" -> NNone | "d" -> NDot | "i" -> NId (bytes_of_hex (next ())) | _ -> raise Bad in
    let mid = trivs () in
    let path = lit () in
    { sp_name = name; sp_mid = mid; sp_path = path } in
  let decl () = match next () with
    | "1" -> let t1 = trivs () in let sp = spec () in DSingle (t1, sp)
    | "g" ->
        let t1 = trivs () in
        let n = num () in
        let specs = times n (fun () -> let t = trivs () in let sp = spec () in (t, sp)) in
        let tend = trivs () in
        DGroup (t1, specs, tend)
    | _ -> raise Bad in
  let bom = (next () = "1") in
  let t0 = trivs () in
  let t1 = trivs () in
  let pkg = bytes_of_hex (next ()) in
  let n = num () in
  let decls = times n (fun () -> let t = trivs () in let d = decl () in (t, d)) in
  let tend = trivs () in
  if !rest <> [] then raise Bad;
  { f_bom = bom; f_t0 = t0; f_t1 = t1; f_pkg = pkg; f_decls = decls; f_tend = tend }
let show_result = function
  | ROk (imps, out, e) ->
      String.concat " " (["R"; (match e with ENone -> "nil" | ESyntax -> "syntax" | ENUL -> "nul");
                          string_of_int (List.length imps)] @ List.map hex_of_bytes imps @ [hex_of_bytes out])
  | RPanic -> "PANIC"
  | RFuel -> "FUEL"
let tagset (l : string list) : byte list -> bool =
  let ts = List.map bytes_of_hex l in
  fun t -> List.mem t ts
let () = serve (function
  | "sb" :: c :: tags ->
      (match should_build (bytes_of_hex c) (tagset tags) with
       | Some b -> string_of_bool b | None -> "PANIC")
  | "sbspec" :: c :: tags -> string_of_bool (spec_should_build (bytes_of_hex c) (tagset tags))
  | "mf" :: n :: tags -> string_of_bool (match_file (bytes_of_hex n) (tagset tags))
  | "mt" :: o :: tags -> string_of_bool (match_tags (bytes_of_hex o) (tagset tags))
  | ["ri"; r; x] -> show_result (read_imports (r = "1") (bytes_of_hex x))
  | ["rc"; x] -> show_result (read_comments (bytes_of_hex x))
  | ["ts"; x] -> hex_of_bytes (trim_space (bytes_of_hex x))
  | ["fl"; x] -> let fs = fields (bytes_of_hex x) in
      String.concat " " (string_of_int (List.length fs) :: List.map hex_of_bytes fs)
  | ["uq"; x] -> (match unquote (bytes_of_hex x) with Some b -> "ok " ^ hex_of_bytes b | None -> "err")
  | ("sd" | "sf" as fn) :: nt :: more ->
      (try
        let nt = int_of_string nt in
        let rec take n l = if n = 0 then ([], l) else match l with x :: r -> let (a, b) = take (n - 1) r in (x :: a, b) | [] -> raise Bad in
        let (tags, more) = take nt more in
        let (nf, more) = match more with n :: r -> (int_of_string n, r) | [] -> raise Bad in
        let rec files n l = if n = 0 then (if l = [] then [] else raise Bad) else match l with
          | name :: reg :: data :: r -> { e_name = bytes_of_hex name; e_regular = (reg = "1"); e_data = bytes_of_hex data } :: files (n - 1) r
          | _ -> raise Bad in
        let fs = files nf more in
        let res = if fn = "sd" then scan_dir (tagset tags) fs else scan_files (tagset tags) fs in
        (match res with
         | SOk (a, b) -> String.concat " " (["S"; "ok"; string_of_int (List.length a)] @ List.map hex_of_bytes a
                                            @ [string_of_int (List.length b)] @ List.map hex_of_bytes b)
         | SErrNoGo -> "S nogo" | SErrRead -> "S readerr" | SPanic -> "PANIC")
      with Bad | Failure _ -> "BAD-SCAN")
  | "g" :: rest :: toks ->
      (try
        let g = parse_section toks in
        let ps = paths g in
        String.concat " " (["G"; string_of_bool (wf_section g (bytes_of_hex rest)); hex_of_bytes (render g);
                            string_of_int (List.length ps)] @ List.map hex_of_bytes ps @ [hex_of_bytes (render_body g)])
      with Bad | Failure _ -> "BAD-SECTION")
  | _ -> "BAD-REQUEST")

(* diff model driver.  Requests (all arguments hex, "-" = empty):
     diff <oldName> <old> <newName> <new>   -> ok <hex of the rendered bytes> | PANIC | FUEL
     lines <text>                           -> L <n> <hex>*
     tgs <old> <new>                        -> M <n> (<i>,<j>)* | PANIC | FUEL   (on lines old / lines new)
     tgsok <old> <new>                      -> true|false
     holds <old> <new>                      -> true|false   (C08_holds_on)
     consts                                 -> C <ctxC> <hex of no_newline_msg>
     patch <oldName> <newName> <out> <old> <new> -> true|false: the Coq-side reader and patch applier
                                               (patch_bytes / unpatch_bytes of the END-TO-END theorem) on the
                                               given bytes turn lines old into lines new and back, and
                                               (patch_text / unpatch_text) the text old into the text new and back
     linesgo <text>                         -> L <n> <hex>* | PANIC | FUEL   (the statement-level lines) *)
let show_res f = function Ok a -> f a | Panic -> "PANIC" | OutOfFuel -> "FUEL"
let () = serve (function
  | ["diff"; on; o; nn; n] ->
      show_res (fun b -> "ok " ^ hex_of_bytes b)
        (diff (bytes_of_hex on) (bytes_of_hex o) (bytes_of_hex nn) (bytes_of_hex n))
  | ["lines"; t] ->
      let ls = lines (bytes_of_hex t) in
      String.concat " " ("L" :: string_of_int (List.length ls) :: List.map hex_of_bytes ls)
  | ["tgs"; o; n] ->
      show_res (fun ms -> String.concat " " ("M" :: string_of_int (List.length ms) ::
          List.map (fun (i, j) -> Printf.sprintf "%d,%d" (int_of_nat i) (int_of_nat j)) ms))
        (tgs (lines (bytes_of_hex o)) (lines (bytes_of_hex n)))
  | ["tgsok"; o; n] -> string_of_bool (tgs_ok (lines (bytes_of_hex o)) (lines (bytes_of_hex n)))
  | ["holds"; o; n] -> string_of_bool (c08_holds_on (bytes_of_hex o) (bytes_of_hex n))
  | ["patch"; on; nn; out; o; n] ->
      let on = bytes_of_hex on and nn = bytes_of_hex nn and out = bytes_of_hex out in
      let lo = lines (bytes_of_hex o) and ln = lines (bytes_of_hex n) in
      let o = bytes_of_hex o and n = bytes_of_hex n in
      string_of_bool (patch_bytes on nn out lo = Some ln && unpatch_bytes on nn out ln = Some lo
                      (* and at the level of TEXTS (C08_text_patch): unlines of the patched lines *)
                      && patch_text on nn out o = Some n && unpatch_text on nn out n = Some o)
  | ["linesgo"; t] ->
      show_res (fun ls -> String.concat " " ("L" :: string_of_int (List.length ls) :: List.map hex_of_bytes ls))
        (lines_go (bytes_of_hex t))
  | ["consts"] -> Printf.sprintf "C %d %s" (int_of_nat ctxC) (hex_of_bytes no_newline_msg)
  | _ -> "BAD-REQUEST")

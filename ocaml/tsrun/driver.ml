(* testscript interpreter model driver (C01, C16).  One request line -> one answer line.

   run  <k=v>...   -> verdict=.. fails=.. racy=.. unmod=.. change=.. tree=.. probes=.. upd=..
   cli  <k=v>... jobs=<work>|<file>;...   -> exit=<0|1> verdicts=pass,fail:3,... racy=.. unmod=..
   covered <k=v>... file=<hex> file2=<hex>  -> 1 when the restricted fix-point theorem applies (rerun_covered)
   tok  <env> <line>        -> ok <w>,<w>,... | err
   re   <pattern> <text>    -> unsupported | m=<0|1> n=<count> safe=<0|1>
   clean/base/dir <hex>, join <hex> <hex>  -> <hex>

   batch <k=v>... jobs=<work>|<env>|<file>;...  -> verdicts=... racy=.. unmod=.. (runT_seq: one RunT call, subtests in sequence)
   keys: coe ree uniq upd dl cancelled (0/1; dl = the deadline of the run is reached while the
   script is blocked on a sleeping helper, cancelled = the context is done from the start), work hdir helper file (hex), env (hex K=V items, comma
   separated), hc (<hexname>:0|1,...: short net link symlink gc gccgo), goos goarch (hex), gominor
   (decimal: the toolchain is go1.<gominor>), cc (none | <dflt>[,<hexname>:<t|f|e>]...),
   cmds (<hexname>:p|f|n,...), main (<hex>,...), watch (<hex>,...).  "-" = empty. *)
let split_on c s = if s = "-" || s = "" then [] else String.split_on_char c s

let kv_of_tokens toks =
  List.filter_map (fun t ->
    match String.index_opt t '=' with
    | Some i -> Some (String.sub t 0 i, String.sub t (i + 1) (String.length t - i - 1))
    | None -> None) toks
let get kv k d = try List.assoc k kv with Not_found -> d
let flag kv k = get kv k "0" = "1"

let split_eq_bytes (b : byte list) : (byte list * byte list) option =
  let s = string_of_bytes b in
  match String.index_opt s '=' with
  | Some i -> Some (bytes_of_string (String.sub s 0 i), bytes_of_string (String.sub s (i + 1) (String.length s - i - 1)))
  | None -> None

let cond_res_of = function "t" -> CondVal true | "f" -> CondVal false | _ -> CondErr

let config_of kv : config =
  let pairs s = List.map (fun it -> match String.split_on_char ':' it with
      | [a; b] -> (a, b) | _ -> failwith ("bad pair " ^ it)) (split_on ',' s) in
  { c_continue = flag kv "coe"; c_explicit_exec = flag kv "ree"; c_unique = flag kv "uniq";
    c_update = flag kv "upd";
    c_host_conds = List.map (fun (a, b) -> (bytes_of_hex a, b = "1")) (pairs (get kv "hc" "-"));
    c_goos = bytes_of_hex (get kv "goos" "-");
    c_goarch = bytes_of_hex (get kv "goarch" "-");
    c_go_minor = n_of_int (int_of_string (get kv "gominor" "0"));
    c_custom_cond = (match get kv "cc" "none" with
      | "none" -> None
      | s -> (match split_on ',' s with
              | d :: rest -> Some (List.map (fun it -> match String.split_on_char ':' it with
                                  | [a; b] -> (bytes_of_hex a, cond_res_of b) | _ -> failwith "bad cc") rest, cond_res_of d)
              | [] -> None));
    c_cmds = List.map (fun (a, b) -> (bytes_of_hex a, (match b with "p" -> CProbe | "f" -> CFail | _ -> CNegOk))) (pairs (get kv "cmds" "-"));
    c_main_cmds = List.map bytes_of_hex (split_on ',' (get kv "main" "-"));
    c_helper = bytes_of_hex (get kv "helper" "-");
    c_helper_dir = bytes_of_hex (get kv "hdir" "-");
    c_watch = List.map bytes_of_hex (split_on ',' (get kv "watch" "-"));
    c_deadline = flag kv "dl"; c_cancelled = flag kv "cancelled" }

let env_of kv = List.filter_map (fun h -> split_eq_bytes (bytes_of_hex h)) (split_on ',' (get kv "env" "-"))

let show_verdict = function
  | Pass -> "pass" | Skip -> "skip" | Fail n -> "fail:" ^ string_of_int (int_of_nat n)

let comps_of (b : byte list) : string list =
  List.filter (fun c -> c <> "") (String.split_on_char '/' (string_of_bytes b))

let rec strip_prefix p l = match p, l with
  | [], r -> Some r
  | x :: p', y :: l' when x = y -> strip_prefix p' l'
  | _ -> None

let show_tree (work : byte list) (t : tree) : string =
  let w = comps_of work in
  let ents = List.filter_map (fun (p, n) ->
      let ps = List.map string_of_bytes p in
      match strip_prefix w ps with
      | Some (_ :: _ as rel) ->
          let rp = String.concat "/" rel in
          let hexs s = hex_of_bytes (bytes_of_string s) in
          Some (rp, (match n with
            | NFile (d, m) -> Printf.sprintf "%s:f:%d:%s" (hexs rp) (int_of_n m) (hex_of_bytes d)
            | NDir m -> Printf.sprintf "%s:d:%d:-" (hexs rp) (int_of_n m)
            | NLink tg -> Printf.sprintf "%s:l:0:%s" (hexs rp) (hex_of_bytes tg)))
      | _ -> None) t in
  let ents = List.sort (fun (a, _) (b, _) -> compare a b) ents in
  if ents = [] then "-" else String.concat ";" (List.map snd ents)

let hexlist l = if l = [] then "-" else String.concat "," (List.map hex_of_bytes l)

let show_probes (ps : probe_obs list) =
  if ps = [] then "-" else
  String.concat ";" (List.map (fun p ->
    Printf.sprintf "%d:%d:%s:%s:%s:%s:%s:%s:%d" (int_of_nat p.po_line) (if p.po_neg then 1 else 0)
      (hexlist p.po_args) (hex_of_bytes p.po_cd) (hex_of_bytes p.po_out) (hex_of_bytes p.po_err)
      (hex_of_bytes p.po_in) (hexlist p.po_vars) (int_of_nat p.po_nbg)) ps)

let b01 b = if b then "1" else "0"

let do_run kv =
  let cfg = config_of kv in
  let work = bytes_of_hex (get kv "work" "-") in
  let r = run_file_full cfg work (env_of kv) (bytes_of_hex (get kv "file" "-")) in
  let st = r.f_run.r_final in
  Printf.sprintf "verdict=%s fails=%s racy=%s unmod=%s change=%s tree=%s probes=%s upd=%s env=%s cd=%s"
    (show_verdict r.f_run.r_verdict)
    (if r.f_run.r_fail_lines = [] then "-" else String.concat "," (List.map (fun n -> string_of_int (int_of_nat n)) r.f_run.r_fail_lines))
    (b01 st.s_racy) (b01 st.s_unmodelled)
    (match r.f_change with Untouched -> "untouched" | UpdateError -> "error" | Rewritten d -> hex_of_bytes d)
    (show_tree work st.s_fs) (show_probes st.s_probes)
    (if st.s_updates = [] then "-" else String.concat "," (List.map (fun (n, c) -> hex_of_bytes n ^ ":" ^ hex_of_bytes c) st.s_updates))
    (hexlist (List.map (fun (k, v) -> k @ bytes_of_string "=" @ v) st.s_env))
    (hex_of_bytes st.s_cd)

let do_cli kv =
  let cfg = config_of kv in
  let env = env_of kv in
  let jobs = List.map (fun it -> match String.split_on_char '|' it with
      | [w; f] ->
          let work = bytes_of_hex w in
          { j_work = work;
            j_env = (bytes_of_string "WORK", work) :: (bytes_of_string "TMPDIR", work @ bytes_of_string "/.tmp") :: env;
            j_file = bytes_of_hex f }
      | _ -> failwith "bad job") (split_on ';' (get kv "jobs" "-")) in
  let finals = List.map (fun j -> (run_file cfg j.j_work j.j_env j.j_file).r_final) jobs in
  Printf.sprintf "exit=%d verdicts=%s racy=%s unmod=%s" (int_of_n (cli_exit cfg jobs))
    (String.concat "," (List.map show_verdict (batch_verdicts cfg jobs)))
    (b01 (List.exists (fun s -> s.s_racy) finals)) (b01 (List.exists (fun s -> s.s_unmodelled) finals))

let () = serve (function
  | "run" :: r -> do_run (kv_of_tokens r)
  | "cli" :: r -> do_cli (kv_of_tokens r)
  | "batch" :: r ->
      (* jobs=<work>|<env item>,<env item>...|<file>;...  (every script has its own environment) *)
      let kv = kv_of_tokens r in
      let cfg = config_of kv in
      let jobs = List.map (fun it -> match String.split_on_char '|' it with
          | [w; e; f] ->
              { j_work = bytes_of_hex w;
                j_env = List.filter_map (fun h -> split_eq_bytes (bytes_of_hex h)) (split_on ',' e);
                j_file = bytes_of_hex f }
          | _ -> failwith "bad job") (split_on ';' (get kv "jobs" "-")) in
      let finals = List.map (fun j -> (run_file cfg j.j_work j.j_env j.j_file).r_final) jobs in
      Printf.sprintf "verdicts=%s racy=%s unmod=%s" (String.concat "," (List.map show_verdict (runT_seq cfg jobs)))
        (b01 (List.exists (fun s -> s.s_racy) finals)) (b01 (List.exists (fun s -> s.s_unmodelled) finals))
  | "covered" :: r ->
      let kv = kv_of_tokens r in
      b01 (rerun_covered (config_of kv) (bytes_of_hex (get kv "work" "-")) (env_of kv)
             (bytes_of_hex (get kv "file" "-")) (bytes_of_hex (get kv "file2" "-")))
  | ["tok"; e; l] ->
      let env = List.filter_map (fun h -> split_eq_bytes (bytes_of_hex h)) (split_on ',' e) in
      (match tokenise env (bytes_of_hex l) with Some ws -> "ok " ^ hexlist ws | None -> "err")
  | ["re"; p; t] ->
      (match parse_re (bytes_of_hex p) with
       | None -> "unsupported"
       | Some re ->
           let tx = bytes_of_hex t in
           Printf.sprintf "m=%s n=%d safe=%s" (b01 (re_has_match re tx)) (int_of_n (re_count re tx)) (b01 (re_byte_safe re tx)))
  | ["clean"; x] -> hex_of_bytes (clean (bytes_of_hex x))
  | ["base"; x] -> hex_of_bytes (base (bytes_of_hex x))
  | ["dir"; x] -> hex_of_bytes (dir (bytes_of_hex x))
  | ["join"; x; y] -> hex_of_bytes (join2 (bytes_of_hex x) (bytes_of_hex y))
  | _ -> "BAD-REQUEST")

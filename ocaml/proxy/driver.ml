(* goproxytest model driver (C20).  Requests (all strings in hex, "-" = empty):

     oracle cp|ce|sv|re <key> 0|1          set one entry of an oracle table -> ok
     oracle mc|lt <key1> <key2> 0|1
     oracle is <key> <value>
     resrc                                 -> <hex of pseudo_version_re_src>
     consts                                -> the routing constants, for the runner's URL builder
     dir <entry>*                          set the served directory -> ok
        entry ::= F <name> <n> (<fname> <fdata>)*n            regular file with its txtar parse
               |  D <name> <n> <child>*n                      directory
        child ::= f <name> <data> | d <name> <n> <child>*n
     modlist                               -> err | ok (<path> <vers>)*
     route <url>                           -> nf | list <path> | file <path> <vers> <ext>
     req <url>                             -> response of a fresh server
     seq <url>*                            -> responses of ONE server answering the urls in order
     exact <url>*                          -> x (0|1)*  : 1 = answered with something else than 404 (served_b)
     conc <i,j,k,...> <url>*               -> responses of one server whose handlers are interleaved
                                              by the schedule (then finished round-robin)
     cd <url>                              -> cd <n> (<name> <method> <flags> <crc32> <size>)*n | nozip <status>
                                              the central directory of the zip a fresh server serves
     stored <path> <vers>                  -> none | some <n> (<fname> <fdata>)*
     listed <path>                         -> <vers>*
     escape <s> / unescape <s>             -> ok <hex> | err
   response ::= 404 | 200 <body> | zip <n> (<name> <data>)*n | 500 | NOSERVER
   A missing oracle entry answers  NEED <kind> <key> [<key2>]  (the runner supplies it and asks again).
     mode xmod|tables                      computed x/mod decisions (default) or oracle tables
     xlog                                  -> log ; <kind> <key> [<key2>] 0|1 ; ...   the decisions taken
                                              in computed mode since the last xlog
     x cp|ce|sv|re|canon <s>, x mc|cmp <a> <b>, x split <p>    the Gallina x/mod functions directly *)

exception Need of string

(* fast hex output: [byte] is an enumeration of 256 constant constructors declared in order, so
   its run-time representation is the byte value; this is CHECKED against conv.ml's table at
   start-up (the generic hex_of_bytes goes through Byte.to_N and Printf for every byte, which
   dominated the run time for zip responses) *)
let ibyte (b : byte) : int = (Obj.magic b : int)
let () = Array.iteri (fun i b -> if ibyte b <> i || int_of_byte b <> i then failwith "byte representation") byte_tab
let hex_tab : string array = Array.init 256 (Printf.sprintf "%02x")
let hex_of_bytes (l : byte list) : string =
  if l = [] then "-" else begin
    let b = Buffer.create 256 in
    List.iter (fun x -> Buffer.add_string b hex_tab.(ibyte x)) l;
    Buffer.contents b
  end

let tbl1 : (string, bool) Hashtbl.t = Hashtbl.create 1024     (* "kind key" *)
let tbl2 : (string, bool) Hashtbl.t = Hashtbl.create 1024     (* "kind key1 key2" *)
let tbls : (string, byte list) Hashtbl.t = Hashtbl.create 1024

let ask1 kind (k : byte list) : bool =
  let key = kind ^ " " ^ hex_of_bytes k in
  match Hashtbl.find_opt tbl1 key with Some b -> b | None -> raise (Need key)
let ask2 kind (a : byte list) (b : byte list) : bool =
  let key = kind ^ " " ^ hex_of_bytes a ^ " " ^ hex_of_bytes b in
  match Hashtbl.find_opt tbl2 key with Some b -> b | None -> raise (Need key)
let asks kind (k : byte list) : byte list =
  let key = kind ^ " " ^ hex_of_bytes k in
  match Hashtbl.find_opt tbls key with Some b -> b | None -> raise (Need key)

(* CRC-32 (IEEE) of entry data: an oracle function, table "crc <data> <decimal>" *)
let tblcrc : (string, int) Hashtbl.t = Hashtbl.create 1024
let crc_of (data : byte list) : n =
  let key = "crc " ^ hex_of_bytes data in
  match Hashtbl.find_opt tblcrc key with Some c -> n_of_int c | None -> raise (Need key)

let tab_orc : oracles = {
  check_path = ask1 "cp"; check_elem = ask1 "ce"; module_check = ask2 "mc";
  semver_valid = ask1 "sv"; pseudo_re = ask1 "re"; semver_lt = ask2 "lt"; info_short = asks "is" }

(* computed mode (default): the x/mod functions of Proxy/XMod.v and the generated regular
   expression decide; only the Short field of .info stays a table.  Every decision is logged
   (once per distinct argument) so that the runner can compare it with the real x/mod. *)
let xlog_seen : (string, unit) Hashtbl.t = Hashtbl.create 4096
let xlog_new : string list ref = ref []
let logb key (r : bool) = 
  if not (Hashtbl.mem xlog_seen key) then begin
    Hashtbl.add xlog_seen key (); xlog_new := (key ^ " " ^ (if r then "1" else "0")) :: !xlog_new end; r
let xm : oracles = xmod_oracles (asks "is")
let xmod_orc : oracles = {
  check_path = (fun p -> logb ("cp " ^ hex_of_bytes p) (xm.check_path p));
  check_elem = (fun v -> logb ("ce " ^ hex_of_bytes v) (xm.check_elem v));
  module_check = (fun p v -> logb ("mc " ^ hex_of_bytes p ^ " " ^ hex_of_bytes v) (xm.module_check p v));
  semver_valid = (fun v -> logb ("sv " ^ hex_of_bytes v) (xm.semver_valid v));
  pseudo_re = (fun v -> logb ("re " ^ hex_of_bytes v) (xm.pseudo_re v));
  semver_lt = (fun a b -> logb ("lt " ^ hex_of_bytes a ^ " " ^ hex_of_bytes b) (xm.semver_lt a b));
  info_short = asks "is" }

let use_tables = ref false
(* the record the model runs with: dispatches on the current mode at every call *)
let orc : oracles = {
  check_path = (fun p -> (if !use_tables then tab_orc else xmod_orc).check_path p);
  check_elem = (fun v -> (if !use_tables then tab_orc else xmod_orc).check_elem v);
  module_check = (fun p v -> (if !use_tables then tab_orc else xmod_orc).module_check p v);
  semver_valid = (fun v -> (if !use_tables then tab_orc else xmod_orc).semver_valid v);
  pseudo_re = (fun v -> (if !use_tables then tab_orc else xmod_orc).pseudo_re v);
  semver_lt = (fun a b -> (if !use_tables then tab_orc else xmod_orc).semver_lt a b);
  info_short = asks "is" }

let cur_dir : dir ref = ref []

let rec take_pairs n l acc =
  if n = 0 then (List.rev acc, l) else
  match l with
  | a :: b :: r -> take_pairs (n - 1) r ((bytes_of_hex a, bytes_of_hex b) :: acc)
  | _ -> failwith "short pair list"

let rec parse_children n l acc =
  if n = 0 then (List.rev acc, l) else
  match l with
  | "f" :: nm :: data :: r -> parse_children (n - 1) r ((bytes_of_hex nm, NFile (bytes_of_hex data)) :: acc)
  | "d" :: nm :: k :: r ->
      let (ch, r') = parse_children (int_of_string k) r [] in
      parse_children (n - 1) r' ((bytes_of_hex nm, NDir ch) :: acc)
  | _ -> failwith "bad child"

let rec parse_dir l acc =
  match l with
  | [] -> List.rev acc
  | "F" :: nm :: k :: r ->
      let (fs, r') = take_pairs (int_of_string k) r [] in
      parse_dir r' ((bytes_of_hex nm, EFile fs) :: acc)
  | "D" :: nm :: k :: r ->
      let (ch, r') = parse_children (int_of_string k) r [] in
      parse_dir r' ((bytes_of_hex nm, EDir ch) :: acc)
  | _ -> failwith "bad dir entry"

let show_pairs l =
  String.concat " " (string_of_int (List.length l) ::
    List.concat_map (fun (n, d) -> [hex_of_bytes n; hex_of_bytes d]) l)

let show_resp = function
  | NotFound -> "404"
  | OkBytes b -> "200 " ^ hex_of_bytes b
  | OkZip es -> "zip " ^ show_pairs es
  | Err500 -> "500"

(* the module list of the current directory, computed once (readModList runs at start-up);
   a computation interrupted by a missing oracle entry is simply repeated on the next request *)
let cur_ml : (bytes * bytes) list option option ref = ref None
let mod_list () =
  match !cur_ml with
  | Some r -> r
  | None -> let r = read_mod_list orc !cur_dir in cur_ml := Some r; r

let with_server f =
  match mod_list () with
  | None -> "NOSERVER"
  | Some ml -> f ml

let parse_sched s =
  if s = "-" then [] else List.map (fun x -> nat_of_int (int_of_string x)) (String.split_on_char ',' s)

let all_done pool = List.for_all (function Ret _ -> true | _ -> false) pool

let rec finish d pool st fuel =
  if all_done pool || fuel = 0 then pool else begin
    (* one round-robin pass *)
    let n = List.length pool in
    let sched = List.init n (fun i -> nat_of_int i) in
    let (pool', st') = run_sched d sched pool st in
    finish d pool' st' (fuel - 1)
  end

let handle = function
  | ["oracle"; ("cp" | "ce" | "sv" | "re" as k); key; v] ->
      Hashtbl.replace tbl1 (k ^ " " ^ key) (v = "1"); "ok"
  | ["oracle"; ("mc" | "lt" as k); k1; k2; v] ->
      Hashtbl.replace tbl2 (k ^ " " ^ k1 ^ " " ^ k2) (v = "1"); "ok"
  | ["oracle"; "crc"; key; v] -> Hashtbl.replace tblcrc ("crc " ^ key) (int_of_string v); "ok"
  | ["oracle"; "is"; key; v] -> Hashtbl.replace tbls ("is " ^ key) (bytes_of_hex v); "ok"
  | ["mode"; "tables"] -> use_tables := true; cur_ml := None; "ok"
  | ["mode"; "xmod"] -> use_tables := false; cur_ml := None; "ok"
  | ["xlog"] -> let l = List.rev !xlog_new in xlog_new := []; String.concat " ; " ("log" :: l)
  | ["x"; "cp"; s] -> string_of_bool (check_path_x (bytes_of_hex s))
  | ["x"; "ce"; s] -> string_of_bool (check_elem_x (bytes_of_hex s))
  | ["x"; "sv"; s] -> string_of_bool (semver_is_valid (bytes_of_hex s))
  | ["x"; "re"; s] -> string_of_bool (re_match pseudo_version_re (bytes_of_hex s))
  | ["x"; "canon"; s] -> hex_of_bytes (semver_canonical (bytes_of_hex s))
  | ["x"; "mc"; a; b] -> string_of_bool (module_check_x (bytes_of_hex a) (bytes_of_hex b))
  | ["x"; "cmp"; a; b] -> (match semver_compare (bytes_of_hex a) (bytes_of_hex b) with Lt -> "-1" | Eq -> "0" | Gt -> "1")
  | ["x"; "split"; s] -> let ((pre, pm), ok) = split_path_version (bytes_of_hex s) in
      String.concat " " [hex_of_bytes pre; hex_of_bytes pm; string_of_bool ok]
  | ["resrc"] -> hex_of_bytes pseudo_version_re_src
  | ["consts"] ->
      String.concat " " (List.map hex_of_bytes
        [mod_prefix; at_v; list_name; [ext_sep]; ext_info; ext_mod; ext_zip; suffix_txt; suffix_txtar;
         vers_sep; [disk_sep]; [path_sep]; hidden_prefix; entry_dot; zip_at; zip_slash; info_entry])
  | "dir" :: r -> cur_dir := parse_dir r []; cur_ml := None; "ok"
  | ["modlist"] ->
      (match mod_list () with
       | None -> "err"
       | Some ml -> String.concat " " ("ok" :: List.concat_map (fun (p, v) -> [hex_of_bytes p; hex_of_bytes v]) ml))
  | ["route"; u] ->
      (match route orc (bytes_of_hex u) with
       | RNotFound -> "nf"
       | RList p -> "list " ^ hex_of_bytes p
       | RFile (p, v, e) -> String.concat " " ["file"; hex_of_bytes p; hex_of_bytes v; hex_of_bytes e])
  | ["cd"; u] -> with_server (fun ml ->
      match respond orc !cur_dir ml (bytes_of_hex u) with
      | OkZip es ->
          let cd = central_directory crc_of es in
          String.concat " " ("cd" :: string_of_int (List.length cd) ::
            List.concat_map (fun e -> [hex_of_bytes e.cd_name; string_of_int (int_of_n e.cd_method);
              string_of_int (int_of_n e.cd_flags); string_of_int (int_of_n e.cd_crc); string_of_int (int_of_n e.cd_size)]) cd)
      | r -> "nozip " ^ (match r with NotFound -> "404" | Err500 -> "500" | _ -> "200"))
  | ["req"; u] -> with_server (fun ml -> show_resp (respond orc !cur_dir ml (bytes_of_hex u)))
  | "seq" :: us ->
      (* the server as a state machine (ProxyExact.v: server_start / serve_all): the module list of the
         final state must be the one read at start-up (modlist_immutable) *)
      with_server (fun ml ->
        let d = !cur_dir in
        match server_start orc d with
        | None -> "NOSERVER"
        | Some s ->
            let (rs, s') = serve_all orc d s (List.map bytes_of_hex us) in
            if s'.sv_modlist <> ml then "MODLIST-CHANGED" else
            String.concat " | " (List.map show_resp rs))
  | "exact" :: us ->
      (* served_b (ProxyExact.v): is the URL answered with something else than 404, decided from
         the store without running a handler *)
      with_server (fun ml ->
        let d = !cur_dir in
        String.concat " " ("x" :: List.map (fun u -> if served_b orc d ml (bytes_of_hex u) then "1" else "0") us))
  | "conc" :: s :: us ->
      with_server (fun ml ->
        let d = !cur_dir in
        let pool = List.map (fun u -> handler orc d ml (bytes_of_hex u)) us in
        let (pool', st') = run_sched d (parse_sched s) pool no_caches in
        let pool'' = finish d pool' st' 100000 in
        String.concat " | " (List.map (function Ret r -> show_resp r | _ -> "PENDING") pool''))
  | ["stored"; p; v] ->
      (match stored orc !cur_dir (bytes_of_hex p) (bytes_of_hex v) with
       | None -> "none"
       | Some a -> "some " ^ show_pairs a)
  | ["listed"; p] ->
      with_server (fun ml -> String.concat " " ("l" :: List.map hex_of_bytes (listed orc ml (bytes_of_hex p))))
  | ["escape"; s] -> (match escape_string (bytes_of_hex s) with Some e -> "ok " ^ hex_of_bytes e | None -> "err")
  | ["unescape"; s] -> (match unescape_string (bytes_of_hex s) with Some e -> "ok " ^ hex_of_bytes e | None -> "err")
  | _ -> "BAD-REQUEST"

let () = serve (fun l -> try handle l with Need k -> "NEED " ^ k)

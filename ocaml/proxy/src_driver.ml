(* Driver of the translated segments of goproxytest/proxy.go (coq/extracted/proxy/src.ml: the
   definitions of Gen/ProxySrc.v composed by Proxy/SrcGlue.v; built by ocaml/build_src.sh into
   bin/model_proxy_src).  Requests (strings in hex, "-" = empty), answers in the format of the
   model's driver (ocaml/proxy/driver.ml):
     oracle is <key> <value>    one entry of the table for json.Unmarshal's Short field -> ok
     dir <entry>*               the served directory (same syntax as the model's driver) -> ok
     smodlist                   -> err | ok (<path> <vers>)*   the translated loop body of readModList
                                   folded over the directory entries (src_readModList_loop)
     sreq <url>                 -> 404 | 200 <body> | zip <n> (<name> <data>)*n | 500 | NOSERVER
                                   the translated segments of handler, composed (src_handle), on a
                                   server whose module list is the one smodlist computes
     shex <s> / spseudo <s>     -> the translated allHex / isPseudoVersion
     snames <dir> <path> <vers> -> ret-nil | <name> <txtName> <txtarName>   (readArchive)
     sarpath <name> <path>      -> <arpath>                                  (the WalkDir callback)
   PANIC / OUTOFFUEL = the failure values of Lib/GoSem.v.  A missing oracle entry answers
   NEED is <key>. *)
exception Need of string

let tbls : (string, byte list) Hashtbl.t = Hashtbl.create 1024
let short (k : byte list) : byte list =
  let key = "is " ^ hex_of_bytes k in
  match Hashtbl.find_opt tbls key with Some b -> b | None -> raise (Need key)

(* the bytes of a zip are not modelled: an entry list is encoded as a token that stands for it *)
let zips : (byte list, (byte list * byte list) list) Hashtbl.t = Hashtbl.create 64
let enc (es : (byte list * byte list) list) : byte list =
  let tok = bytes_of_string (Printf.sprintf "\255\254ZIP-ENTRY-LIST-%d\255" (Hashtbl.hash es)) in
  let rec free t = match Hashtbl.find_opt zips t with
    | Some es' when es' <> es -> free (t @ [byte_of_int 255])
    | _ -> t in
  let tok = free tok in
  Hashtbl.replace zips tok es; tok

let cur_dir : dir ref = ref []

let rec take_pairs n l acc =
  if n = 0 then (List.rev acc, l) else
  match l with
  | a :: b :: r -> take_pairs (n - 1) r ((bytes_of_hex a, bytes_of_hex b) :: acc)
  | _ -> failwith "short pair list"

let rec parse_children n l acc =
  if n = 0 then (List.rev acc, l) else
  match l with
  | "f" :: nm :: data :: r -> parse_children (n - 1) r ((bytes_of_hex nm, NFile (bytes_of_hex data)) :: acc)
  | "d" :: nm :: k :: r ->
      let (ch, r') = parse_children (int_of_string k) r [] in
      parse_children (n - 1) r' ((bytes_of_hex nm, NDir ch) :: acc)
  | _ -> failwith "bad child"

let rec parse_dir l acc =
  match l with
  | [] -> List.rev acc
  | "F" :: nm :: k :: r ->
      let (fs, r') = take_pairs (int_of_string k) r [] in
      parse_dir r' ((bytes_of_hex nm, EFile fs) :: acc)
  | "D" :: nm :: k :: r ->
      let (ch, r') = parse_children (int_of_string k) r [] in
      parse_dir r' ((bytes_of_hex nm, EDir ch) :: acc)
  | _ -> failwith "bad dir entry"

let show_pairs l =
  String.concat " " (string_of_int (List.length l) ::
    List.concat_map (fun (n, d) -> [hex_of_bytes n; hex_of_bytes d]) l)

let dirname = bytes_of_string "testmod"

(* readModList: the translated loop body over the entries, on a server with an empty module list *)
let cur_ml : (byte list * byte list) list option option ref = ref None
let fail_res = function Panic -> failwith "PANIC" | OutOfFuel -> failwith "OUTOFFUEL" | Ok _ -> assert false
let mod_list () =
  match !cur_ml with
  | Some r -> r
  | None ->
      let srv0 = { srv_dir = dirname; srv_modList = []; srv_archives = (fun _ -> []) } in
      let r = match src_readModList_loop srv0 (dir_names !cur_dir) with
        | Ok (srv, false) -> Some srv.srv_modList
        | Ok (_, true) -> None
        | e -> fail_res e in
      cur_ml := Some r; r

let z_int = function Z0 -> 0 | Zpos p -> int_of_pos p | Zneg p -> - (int_of_pos p)

let show_w (w : go_response) =
  match z_int w.rw_status with
  | 404 -> "404"
  | 500 -> "500"
  | 200 -> (match Hashtbl.find_opt zips w.rw_body with
            | Some es -> "zip " ^ show_pairs es
            | None -> "200 " ^ hex_of_bytes w.rw_body)
  | 0 -> "200 -"    (* nothing written: net/http sends 200 with an empty body *)
  | n -> "STATUS " ^ string_of_int n

let handle = function
  | ["oracle"; "is"; key; v] -> Hashtbl.replace tbls ("is " ^ key) (bytes_of_hex v); "ok"
  | "dir" :: r -> cur_dir := parse_dir r []; cur_ml := None; "ok"
  | ["smodlist"] ->
      (match mod_list () with
       | None -> "err"
       | Some ml -> String.concat " " ("ok" :: List.concat_map (fun (p, v) -> [hex_of_bytes p; hex_of_bytes v]) ml))
  | ["sreq"; u] ->
      (match mod_list () with
       | None -> "NOSERVER"
       | Some ml ->
           (match src_handle short enc dirname !cur_dir ml (bytes_of_hex u) with
            | Ok w -> show_w w
            | Panic -> "PANIC"
            | OutOfFuel -> "OUTOFFUEL"))
  | ["shex"; s] -> (match src_allHex (bytes_of_hex s) with Ok b -> string_of_bool b | Panic -> "PANIC" | OutOfFuel -> "OUTOFFUEL")
  | ["spseudo"; s] -> (match src_isPseudoVersion (bytes_of_hex s) with Ok b -> string_of_bool b | Panic -> "PANIC" | OutOfFuel -> "OUTOFFUEL")
  | ["snames"; d; p; v] ->
      let srv = { srv_dir = bytes_of_hex d; srv_modList = []; srv_archives = (fun _ -> []) } in
      (match src_Server_readArchive_names srv (bytes_of_hex p) (bytes_of_hex v) with
       | Ok (Return _) -> "ret-nil"
       | Ok (Normal ((n, t), ta)) -> String.concat " " [hex_of_bytes n; hex_of_bytes t; hex_of_bytes ta]
       | Ok _ -> "BAD-OUTCOME" | Panic -> "PANIC" | OutOfFuel -> "OUTOFFUEL")
  | ["sarpath"; n; p] ->
      (match src_Server_readArchive_arpath (bytes_of_hex n) (bytes_of_hex p) with
       | Ok (Normal a) -> hex_of_bytes a
       | Ok _ -> "BAD-OUTCOME" | Panic -> "PANIC" | OutOfFuel -> "OUTOFFUEL")
  | _ -> "BAD-REQUEST"

let () = serve (fun l -> try handle l with Need k -> "NEED " ^ k | Failure m when m = "PANIC" || m = "OUTOFFUEL" -> m)

(* cache model driver.  State: the hash table supplied by the runner (SHA-256 values of the
   contents of this run), the file map of the sequential model, the set of paths mentioned.
   Requests (ids / hashes / contents in hex, "-" = empty):
     hash <content> <hash>            -> ok
     reset                            -> ok
     put <id> <tm> <seek1> <ok1> <pass1> <seek2> <chunk>*   -> PUTOK out size | PUTFAILED out size | PUTERR
     putf <k> <kind> <j> <id> <tm> <seek1> <ok1> <pass1> <seek2> <chunk>*
                                      -> DONE PUTOK out size | DONE PUTFAILED out size | DONE PUTERR | STOPPED,
                                         then " | " and the operations performed (faulty semantics; k < 0: no fault)
     conc C <call>* C <call>* ... S <i>[:<j>]*
                                      -> DONE|RUNNING ## results of client 0 (;;-separated) ## ... ## trace
                                         (interleaved semantics; i = client, j = torn view of an observing operation)
     universe <content>* / ids <id>*  -> ok   (the finite universe the boolean statements range over)
     holds05                          -> c05_holds_on on the current state and ids
     putholds05 <id> <tm> <chunk>*    -> c05_put_holds_on (the Put is not applied)
     putbf <k> <kind> <j> <id> <tm> <chunk>*   as putf, for PutBytes (the model's put_bytes_prog)
     (putf / putbf append " | holds=" and c12_holds_on of the state before, the plan and the Put,
      then " fds=" and the number of descriptors the call leaves open, or "stopped")
     tlook get|getbytes|getfile|outputfile <id>  -> <result> | <operations performed>
     get <id>                         -> NF | F out size tm   (numbers: 0 | +<binary> | -<binary>)
     getbytes <id>                    -> NF | F data out size tm
     getfile <id>                     -> NF | F name out size tm
     outputfile <out>                 -> name
     dmg trunc|extend|flip|delete|write a|d <id> [arg]      -> ok
     file a|d <id>                    -> none | <content>
     list                             -> a|d:<id>=<content> ... (existing known paths, sorted)
     parse <entry> <id>               -> NF | F out size tm
     encode <id> <out> <size> <tm>    -> <entry>
     subkeypre <parent> <desc>        -> what Subkey feeds to the hash (prefix ++ parent ++ desc)
     hashobj <chunk>*                 -> the state of a Hash after these Writes (= everything written)
     fh reset | fh set <name> <sum> | fh get <name> <content|none>   -> FileHash's memo table: ok | ok | ERR | <sum>
   A hash that the table does not contain is answered by  NEED <content>  (nothing changes). *)
exception Need of string

let table : (string, byte list) Hashtbl.t = Hashtbl.create 64
let h (d : byte list) : byte list =
  let k = string_of_bytes d in
  match Hashtbl.find_opt table k with Some v -> v | None -> raise (Need (hex_of_bytes d))

(* fast hex output; long contents are shown as #<length>:<hash from the table> *)
let hex2 = Array.init 256 (fun i -> Printf.sprintf "%02x" i)
let fast_hex (l : byte list) : string =
  if l = [] then "-" else begin
    let b = Buffer.create 1024 in
    List.iter (fun x -> Buffer.add_string b hex2.(int_of_byte x)) l; Buffer.contents b
  end
let show_bytes (d : byte list) : string =
  let n = List.length d in
  if n <= 512 then fast_hex d else Printf.sprintf "#%d:%s" n (fast_hex (h d))

(* named contents: "def <name> <hex>", later "@name" or "@name:off:len" wherever bytes are expected *)
let defs : (string, byte array) Hashtbl.t = Hashtbl.create 16
let arg (s : string) : byte list =
  if String.length s > 0 && s.[0] = '@' then begin
    match String.split_on_char ':' (String.sub s 1 (String.length s - 1)) with
    | [n] -> Array.to_list (Hashtbl.find defs n)
    | [n; o; l] -> Array.to_list (Array.sub (Hashtbl.find defs n) (int_of_string o) (int_of_string l))
    | _ -> failwith "bad ref"
  end else bytes_of_hex s

let universe : byte list list ref = ref []
let idlist : byte list list ref = ref []
let store : files ref = ref no_files
let known : (string * string, unit) Hashtbl.t = Hashtbl.create 64
let path_of kind idhex =
  Hashtbl.replace known (kind, idhex) ();
  if kind = "a" then IdxP (bytes_of_hex idhex) else DatP (bytes_of_hex idhex)

let rec z_of_int n = if n = 0 then Z0 else if n > 0 then Zpos (pos_of_int n) else Zneg (pos_of_int (-n))
let int_of_z = function Z0 -> 0 | Zpos p -> int_of_pos p | Zneg p -> - (int_of_pos p)
(* exact printing of Z (an int64 may exceed OCaml's 63-bit int): sign and binary digits *)
let rec bits_of_pos = function XH -> "1" | XO p -> bits_of_pos p ^ "0" | XI p -> bits_of_pos p ^ "1"
let show_z = function Z0 -> "0" | Zpos p -> "+" ^ bits_of_pos p | Zneg p -> "-" ^ bits_of_pos p
let bool_of s = (s = "1" || s = "true")

let show_entry = function
  | None -> "NF"
  | Some ((out, size), tm) -> Printf.sprintf "F %s %s %s" (hex_of_bytes out) (show_z size) (show_z tm)

(* one Put-like program under a fault plan: result, operations performed, the boolean form of the
   C12 statement on this very run, and the descriptors the call leaves open (fd_leak) *)
let faulty_put k kind j id p small =
      ignore (path_of "a" id);
      let jn = nat_of_int (int_of_string j) in
      let fk = match kind with
        | "fail" -> FFail | "short" -> FShort jn | "stopbefore" -> FStopBefore
        | "stopafter" -> FStopAfter | "torn" -> FTorn jn | _ -> failwith "bad kind" in
      let b = if int_of_string k < 0 then None else Some (nat_of_int (int_of_string k), fk) in
      let tr = trace_f b p !store in
      let ((fs', oc), _) = run_f b p !store in
      (* the third execution of the program is skipped on big contents (cost) *)
      let fds = if not small then "" else
        match fd_leak b p !store with None -> " fds=stopped" | Some n -> " fds=" ^ string_of_int (int_of_nat n) in
      (* c12_holds_on = c12_post_holds_on on the post-state of this very run *)
      let holds = c12_post_holds_on h !universe !idlist !store fs' (bytes_of_hex id) in
      store := fs';
      let kind_of = function IdxP _ -> "a" | DatP o -> ignore (path_of "d" (hex_of_bytes o)); "d" in
      let show_op = function
        | OStat p -> "stat:" ^ kind_of p
        | OOpen (p, c, t) -> "open:" ^ kind_of p ^ ":" ^ (if c then "c" else "") ^ (if t then "t" else "")
        | ORead (p, off, n) -> Printf.sprintf "read:%s:%d:%d" (kind_of p) (int_of_nat off) (int_of_nat n)
        | OReadAll p -> "readall:" ^ kind_of p
        | OWrite (p, off, b) -> Printf.sprintf "write:%s:%d:%d" (kind_of p) (int_of_nat off) (List.length b)
        | OTruncate (p, n) -> Printf.sprintf "truncate:%s:%d" (kind_of p) (int_of_nat n)
        | OClose p -> "close:" ^ kind_of p
        | ORemove p -> "remove:" ^ kind_of p
        | OChtimes p -> "chtimes:" ^ kind_of p in
      let res = match oc with
        | Stopped -> "STOPPED"
        | Done PutErrEarly -> "DONE PUTERR"
        | Done (PutFailed (out, size)) -> Printf.sprintf "DONE PUTFAILED %s %d" (hex_of_bytes out) (int_of_nat size)
        | Done (PutOk (out, size)) -> Printf.sprintf "DONE PUTOK %s %d" (hex_of_bytes out) (int_of_nat size) in
      res ^ " | " ^ String.concat " " (List.map show_op tr) ^ " | holds=" ^ string_of_bool holds ^ fds

(* results of the calls of the interleaved / re-entrant semantics *)
let show_cres = function
  | XPut PutErrEarly -> "PUTERR"
  | XPut (PutFailed (_, _)) -> "PUTFAILED"
  | XPut (PutOk (out, size)) -> Printf.sprintf "PUTOK %s %d" (hex_of_bytes out) (int_of_nat size)
  | XGet e -> show_entry e
  | XBytes NotFound -> "NF"
  | XBytes (Found (d, out, size, tm)) -> Printf.sprintf "F %s %s %s %s" (show_bytes d) (hex_of_bytes out) (show_z size) (show_z tm)
  | XFile NotFound -> "NF"
  | XFile (Found (p, out, size, tm)) -> Printf.sprintf "F %s %s %s %s" (string_of_bytes (path_name p)) (hex_of_bytes out) (show_z size) (show_z tm)
let show_put = function
  | PutErrEarly -> "PUTERR"
  | PutFailed (out, size) -> ignore (path_of "d" (hex_of_bytes out)); Printf.sprintf "PUTFAILED %s %d" (hex_of_bytes out) (int_of_nat size)
  | PutOk (out, size) -> ignore (path_of "d" (hex_of_bytes out)); Printf.sprintf "PUTOK %s %d" (hex_of_bytes out) (int_of_nat size)

(* cache/hash.go: the memo table of FileHash *)
let fh : (byte list * byte list) list ref = ref []

let handle = function
  (* putcb <id> <tm> <pass> <n> get|getbytes|getfile <id2> <chunk>*  -> <put result> ;; <lookup result>|NOCB
     a Put (well-behaved source) whose source looks id2 up: pass 0 = never, 1 = before the first file
     operation, 2 = before the n-th write to the output file (put_cb of Cache/CacheReent.v) *)
  | "putcb" :: id :: tm :: pass :: n :: lop :: id2 :: chunks ->
      let cs = List.map arg chunks in
      let i2 = bytes_of_hex id2 in
      let c = (match lop with "get" -> CGet i2 | "getbytes" -> CGetBytes i2 | "getfile" -> CGetFile i2 | _ -> failwith "bad lookup") in
      let w = (match pass with "0" -> CbNever | "1" -> CbBefore | _ -> CbWrite (nat_of_int (int_of_string n))) in
      ignore (path_of "a" id);
      let ((fs', r), b) = put_cb h (bytes_of_hex id) cs (z_of_int (int_of_string tm)) c w !store in
      store := fs';
      show_put r ^ " ;; " ^ (match b with None -> "NOCB" | Some x -> show_cres x)
  (* putsrc <id> <tm> <pos> <chunk>*  -> as put: the source is an in-memory reader at offset pos
     when Put gets it (reader_of_memsrc of Cache/CacheReent.v) *)
  | "putsrc" :: id :: tm :: pos :: chunks ->
      let cs = List.map arg chunks in
      let s = { ms_data = List.concat cs; ms_pos = nat_of_int (int_of_string pos) } in
      ignore (path_of "a" id);
      let (fs', r) = put h !store (bytes_of_hex id) (reader_of_memsrc s (fun _ -> cs)) (z_of_int (int_of_string tm)) in
      store := fs';
      show_put r
  | ["subkeypre"; parent; desc] -> hex_of_bytes (subkey_preimage (bytes_of_hex parent) (bytes_of_hex desc))
  | "hashobj" :: chunks -> hex_of_bytes (List.fold_left hash_write new_hash (List.map arg chunks))
  | ["fh"; "reset"] -> fh := []; "ok"
  | ["fh"; "set"; name; sum] -> fh := set_file_hash !fh (bytes_of_hex name) (bytes_of_hex sum); "ok"
  | ["fh"; "get"; name; content] ->
      let disk = fun _ -> if content = "none" then None else Some (arg content) in
      let (t', r) = file_hash h !fh disk (bytes_of_hex name) in
      fh := t';
      (match r with None -> "ERR" | Some s -> hex_of_bytes s)
  | ["hash"; c; v] -> Hashtbl.replace table (string_of_bytes (arg c)) (bytes_of_hex v); "ok"
  | ["def"; n; c] -> Hashtbl.replace defs n (Array.of_list (bytes_of_hex c)); "ok"
  | ["reset"] -> store := no_files; Hashtbl.reset known; "ok"
  | "universe" :: cs -> universe := List.map arg cs; "ok"
  | "ids" :: is -> idlist := List.map bytes_of_hex is; "ok"
  | ["holds05"] -> string_of_bool (c05_holds_on h !store !idlist)
  | "putholds05" :: id :: tm :: chunks ->
      string_of_bool (c05_put_holds_on h !store (bytes_of_hex id) (List.map arg chunks) (z_of_int (int_of_string tm)))
  | "put" :: id :: tm :: seek1 :: ok1 :: pass1 :: seek2 :: chunks ->
      let rd = { rd_seek1 = bool_of seek1; rd_pass1 = arg pass1; rd_ok1 = bool_of ok1;
                 rd_seek2 = bool_of seek2; rd_pass2 = List.map arg chunks } in
      ignore (path_of "a" id);
      let (fs', r) = put h !store (bytes_of_hex id) rd (z_of_int (int_of_string tm)) in
      store := fs';
      (match r with
       | PutErrEarly -> "PUTERR"
       | PutFailed (out, size) -> ignore (path_of "d" (hex_of_bytes out)); Printf.sprintf "PUTFAILED %s %d" (hex_of_bytes out) (int_of_nat size)
       | PutOk (out, size) -> ignore (path_of "d" (hex_of_bytes out)); Printf.sprintf "PUTOK %s %d" (hex_of_bytes out) (int_of_nat size))
  | "putf" :: k :: kind :: j :: id :: tm :: seek1 :: ok1 :: pass1 :: seek2 :: chunks ->
      let rd = { rd_seek1 = bool_of seek1; rd_pass1 = arg pass1; rd_ok1 = bool_of ok1;
                 rd_seek2 = bool_of seek2; rd_pass2 = List.map arg chunks } in
      faulty_put k kind j id (put_prog h (bytes_of_hex id) rd (z_of_int (int_of_string tm))) (List.length rd.rd_pass1 <= 8192)
  | "putbf" :: k :: kind :: j :: id :: tm :: chunks ->
      (* PutBytes: the model's put_bytes_prog (Put from a source that cannot misbehave) *)
      let cs = List.map arg chunks in
      faulty_put k kind j id (put_bytes_prog h (bytes_of_hex id) cs (z_of_int (int_of_string tm)))
        (List.fold_left (fun a c -> a + List.length c) 0 cs <= 8192)
  | "conc" :: rest ->
      (* conc C <call>* C <call>* ... S <i>[:<j>]*   with <call> = put <id> <tm> <n> <chunk>^n | get|getbytes|getfile <id> *)
      let rec calls acc = function
        | "put" :: id :: tm :: n :: r ->
            let n = int_of_string n in
            let rec take k acc r = if k = 0 then (List.rev acc, r) else (match r with x :: t -> take (k - 1) (arg x :: acc) t | [] -> failwith "chunks") in
            let (chunks, r') = take n [] r in
            ignore (path_of "a" id);
            calls (CPut (bytes_of_hex id, chunks, z_of_int (int_of_string tm)) :: acc) r'
        | "putr" :: id :: tm :: seek1 :: ok1 :: pass1 :: seek2 :: n :: r ->
            let n = int_of_string n in
            let rec take k acc r = if k = 0 then (List.rev acc, r) else (match r with x :: t -> take (k - 1) (arg x :: acc) t | [] -> failwith "chunks") in
            let (chunks, r') = take n [] r in
            ignore (path_of "a" id);
            let rd = { rd_seek1 = bool_of seek1; rd_pass1 = arg pass1; rd_ok1 = bool_of ok1; rd_seek2 = bool_of seek2; rd_pass2 = chunks } in
            calls (CPutR (bytes_of_hex id, rd, z_of_int (int_of_string tm)) :: acc) r'
        | "get" :: id :: r -> calls (CGet (bytes_of_hex id) :: acc) r
        | "getbytes" :: id :: r -> calls (CGetBytes (bytes_of_hex id) :: acc) r
        | "getfile" :: id :: r -> calls (CGetFile (bytes_of_hex id) :: acc) r
        | r -> (List.rev acc, r) in
      let rec clients acc = function
        | "C" :: r -> let (cs, r') = calls [] r in clients (cs :: acc) r'
        | "S" :: r -> (List.rev acc, r)
        | _ -> failwith "bad conc request" in
      let (cl_calls, sched) = clients [] rest in
      let entry s = match String.split_on_char ':' s with
        | [i] -> (nat_of_int (int_of_string i), None)
        | [i; j] -> (nat_of_int (int_of_string i), Some (nat_of_int (int_of_string j)))
        | _ -> failwith "bad schedule entry" in
      let st0 = (List.map (start h) cl_calls, init_sys !store) in
      let kind_of = function IdxP _ -> "a" | DatP o -> ignore (path_of "d" (hex_of_bytes o)); "d" in
      let op_name = function
        | OStat p -> "stat:" ^ kind_of p | OOpen (p, _, _) -> "open:" ^ kind_of p | ORead (p, _, _) -> "read:" ^ kind_of p
        | OReadAll p -> "readall:" ^ kind_of p | OWrite (p, _, _) -> "write:" ^ kind_of p | OTruncate (p, _) -> "truncate:" ^ kind_of p
        | OClose p -> "close:" ^ kind_of p | ORemove p -> "remove:" ^ kind_of p | OChtimes p -> "chtimes:" ^ kind_of p in
      let trace = Buffer.create 256 in
      let st = List.fold_left (fun (cls, s) e ->
          (match List.nth_opt cls (int_of_nat (fst e)) with
           | Some { cur = Some (Op (o, _)) } -> Buffer.add_string trace (Printf.sprintf "%d:%s " (int_of_nat (fst e)) (op_name o))
           | _ -> Buffer.add_string trace (Printf.sprintf "%d:idle " (int_of_nat (fst e))));
          sched_step h e (cls, s)) st0 (List.map entry sched) in
      let (cls, s) = st in
      store := s.sfiles;
      let show_res = function
        | XPut PutErrEarly -> "PUTERR"
        | XPut (PutFailed (_, _)) -> "PUTFAILED"
        | XPut (PutOk (out, size)) -> Printf.sprintf "PUTOK %s %d" (hex_of_bytes out) (int_of_nat size)
        | XGet e -> show_entry e
        | XBytes NotFound -> "NF"
        | XBytes (Found (d, out, size, tm)) -> Printf.sprintf "F %s %s %s %s" (show_bytes d) (hex_of_bytes out) (show_z size) (show_z tm)
        | XFile NotFound -> "NF"
        | XFile (Found (p, out, size, tm)) -> Printf.sprintf "F %s %s %s %s" (string_of_bytes (path_name p)) (hex_of_bytes out) (show_z size) (show_z tm) in
      (if finished cls then "DONE" else "RUNNING") ^ " ## " ^
      String.concat " ## " (List.map (fun cl -> String.concat " ;; " (List.map show_res cl.results)) cls)
      ^ " ## " ^ Buffer.contents trace
  | ["tlook"; kind; id] ->
      (* a lookup with the operations it performs (sequential semantics) *)
      let kind_of = function IdxP _ -> "a" | DatP _ -> "d" in
      let show_op = function
        | OStat p -> "stat:" ^ kind_of p
        | OOpen (p, c, t) -> "open:" ^ kind_of p ^ ":" ^ (if c then "c" else "") ^ (if t then "t" else "")
        | ORead (p, off, n) -> Printf.sprintf "read:%s:%d:%d" (kind_of p) (int_of_nat off) (int_of_nat n)
        | OReadAll p -> "readall:" ^ kind_of p
        | OWrite (p, off, b) -> Printf.sprintf "write:%s:%d:%d" (kind_of p) (int_of_nat off) (List.length b)
        | OTruncate (p, n) -> Printf.sprintf "truncate:%s:%d" (kind_of p) (int_of_nat n)
        | OClose p -> "close:" ^ kind_of p
        | ORemove p -> "remove:" ^ kind_of p
        | OChtimes p -> "chtimes:" ^ kind_of p in
      let i = bytes_of_hex id in
      let tr p = String.concat " " (List.map show_op (trace_f None p !store)) in
      (match kind with
       | "get" -> show_entry (get !store i) ^ " | " ^ tr (get_prog i)
       | "getbytes" ->
           (match get_bytes h !store i with
            | NotFound -> "NF"
            | Found (d, out, size, tm) -> Printf.sprintf "F %s %s %s %s" (show_bytes d) (hex_of_bytes out) (show_z size) (show_z tm))
           ^ " | " ^ tr (get_bytes_prog h i)
       | "getfile" ->
           (match get_file !store i with
            | NotFound -> "NF"
            | Found (p, out, size, tm) -> Printf.sprintf "F %s %s %s %s" (string_of_bytes (path_name p)) (hex_of_bytes out) (show_z size) (show_z tm))
           ^ " | " ^ tr (get_file_prog i)
       | "outputfile" ->
           let (_, p) = run_seq (output_file_prog i) !store in
           string_of_bytes (path_name p) ^ " | " ^ tr (output_file_prog i)
       | _ -> "BAD-REQUEST")
  | ["get"; id] -> show_entry (get !store (bytes_of_hex id))
  | ["getbytes"; id] ->
      (match get_bytes h !store (bytes_of_hex id) with
       | NotFound -> "NF"
       | Found (d, out, size, tm) -> Printf.sprintf "F %s %s %s %s" (show_bytes d) (hex_of_bytes out) (show_z size) (show_z tm))
  | ["getfile"; id] ->
      (match get_file !store (bytes_of_hex id) with
       | NotFound -> "NF"
       | Found (p, out, size, tm) -> Printf.sprintf "F %s %s %s %s" (string_of_bytes (path_name p)) (hex_of_bytes out) (show_z size) (show_z tm))
  | ["outputfile"; out] ->
      let (fs', p) = run_seq (output_file_prog (bytes_of_hex out)) !store in
      store := fs'; string_of_bytes (path_name p)
  | "dmg" :: kind :: k :: id :: rest ->
      let p = path_of k id in
      let f = match kind, rest with
        | "trunc", [n] -> dmg_truncate p (nat_of_int (int_of_string n))
        | "extend", [b] -> dmg_extend p (arg b)
        | "flip", [i] -> dmg_flip p (nat_of_int (int_of_string i))
        | "delete", [] -> dmg_delete p
        | "write", [b] -> dmg_write p (arg b)
        | _ -> failwith "bad dmg" in
      store := f !store; "ok"
  | ["file"; k; id] ->
      (match !store (if k = "a" then IdxP (bytes_of_hex id) else DatP (bytes_of_hex id)) with
       | None -> "none" | Some c -> show_bytes c)
  | ["list"] ->
      let items = Hashtbl.fold (fun (k, id) () acc ->
        match !store (if k = "a" then IdxP (bytes_of_hex id) else DatP (bytes_of_hex id)) with
        | None -> acc
        | Some c -> (k ^ ":" ^ id ^ "=" ^ show_bytes c) :: acc) known [] in
      String.concat " " ("L" :: List.sort compare items)
  | ["parse"; e; id] -> show_entry (parse_entry (bytes_of_hex e) (bytes_of_hex id))
  | ["encode"; id; out; size; tm] ->
      hex_of_bytes (encode_entry (bytes_of_hex id) (bytes_of_hex out) (z_of_int (int_of_string size)) (z_of_int (int_of_string tm)))
  | _ -> "BAD-REQUEST"

let () = serve (fun req -> try handle req with Need c -> "NEED " ^ c)
(* note: NEED carries the whole content in hex *)

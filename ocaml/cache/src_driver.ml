(* Driver of the translated segments of cache/cache.go (coq/extracted/cache/src.ml, from
   Gen/CacheSrc.v; built by ocaml/build_src.sh into bin/model_cache_src).  Requests (bytes in hex,
   "-" = empty; numbers in the answers: 0 | +<binary> | -<binary>):
     srcparse <entry> <id>            -> src_Cache_get_parse with bound 21 on entry ++ [0], then src_Cache_get_result:
                                         NF | F out size unixnano | PANIC | OUTOFFUEL; NA when the entry is not
                                         entrySize bytes long (the length test precedes the segment)
     srcentry <id> <out> <size> <tm>  -> the translated fmt.Sprintf of putIndexEntry at the clock value tm (decimal ns)
     srcname <dir> <id> <key>         -> the translated fileName *)
let rec z_of_int n = if n = 0 then Z0 else if n > 0 then Zpos (pos_of_int n) else Zneg (pos_of_int (-n))
let rec bits_of_pos = function XH -> "1" | XO p -> bits_of_pos p ^ "0" | XI p -> bits_of_pos p ^ "1"
let show_z = function Z0 -> "0" | Zpos p -> "+" ^ bits_of_pos p | Zneg p -> "-" ^ bits_of_pos p
let z_of_decimal (s : string) : z =
  let neg = String.length s > 0 && s.[0] = '-' in
  let ten = z_of_int 10 in
  let acc = ref Z0 in
  String.iteri (fun i c ->
    if i = 0 && (c = '-' || c = '+') then ()
    else if c >= '0' && c <= '9' then acc := Z.add (Z.mul !acc ten) (z_of_int (Char.code c - 48))
    else failwith "bad number") s;
  if neg then Z.opp !acc else !acc

let handle = function
  | ["srcparse"; e; id] ->
      let e = bytes_of_hex e in
      if List.length e <> int_of_nat entry_size_n then "NA" else
      (match src_Cache_get_parse (nat_of_int 21) (bytes_of_hex id) false (e @ [byte_of_int 0]) with
       | Ok (Normal ((((_, _), out), size), tm)) ->
           (match src_Cache_get_result out size tm with
            | Ok (Return (ent, false)) ->
                Printf.sprintf "F %s %s %s" (hex_of_bytes ent.ent_out) (show_z ent.ent_size) (show_z (go_time_UnixNano ent.ent_time))
            | Ok _ -> "BAD-RESULT" | Panic -> "PANIC" | OutOfFuel -> "OUTOFFUEL")
       | Ok (Return (_, true)) -> "NF"
       | Ok _ -> "BAD-OUTCOME"
       | Panic -> "PANIC"
       | OutOfFuel -> "OUTOFFUEL")
  | ["srcentry"; id; out; size; tm] ->
      (match src_Cache_putIndexEntry_entry (bytes_of_hex id) (bytes_of_hex out) (z_of_decimal size) (time_of_ns (z_of_decimal tm)) with
       | Ok (Normal e) -> hex_of_bytes e
       | Ok _ -> "BAD-OUTCOME" | Panic -> "PANIC" | OutOfFuel -> "OUTOFFUEL")
  | ["srcname"; dir; id; key] ->
      (match src_Cache_fileName_body { cache_dir = bytes_of_hex dir; cache_now = () } (bytes_of_hex id) (bytes_of_hex key) with
       | Ok (Return n) -> hex_of_bytes n
       | Ok _ -> "BAD-OUTCOME" | Panic -> "PANIC" | OutOfFuel -> "OUTOFFUEL")
  | _ -> "BAD-REQUEST"

let () = serve handle

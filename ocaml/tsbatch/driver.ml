(* tsbatch model driver (C04 batch model, C17 deadline model).  Requests (one line each):

   batch <retain> <keybypath> <hascancel> <isroot> <namesseeenv> <namescontained> <continueonerror> [PWD <pwdappended>]
         H <n> (<hexname> <hexvalue>)*            host environment
         T <n> (<hexpathvalue> <hexprog> <0|1>)*  execpath.Look over host directories
         L <hexhelper>
         N <n> (script)*
         SCHED <i>*                               explicit prefix of the schedule; completed round-robin
     script := S <setuperr> A <n> (<path> <hexdata>)* Q <n> <path>* X <idx|-> [KEEP <n|-> <hexname>*] V <n> (<hexname> <value>)* D <n> (<id> <bad>)* B <n> (action)*
     value  := L:<hex> | W:<path>
     path   := "." | seg(/seg)*
     action := W <path> <hex> | M <path> <ro> | X <path> | C <path> | E <hexk> <hexv> | P <path> <keep>
             | D <id> <bad> | G <h> <neg> | O | F | K | T | Z | N (kill) | Y (kill; wait) | U (wait) | H <neg> <hexprog> (exec) | I <neg> <hexprog> action
             | L <path> <hextarget> (symlink) | R <path> (rm) | S (T.Skip in a custom command) | A (T.FailNow in a custom command)
     -> per script "<verdict> regs=.. runs=.. bg=../../.. wp=<0|1> setup=<env>@<tree> probes=<n>(;<cwd>@<env>@<tree>)* conds=.. final=<tree>"
        joined by " | ", then " || root=<0|1> removals=<n> cancelled=<0|1> refcount=<n> alone=<ok|DIFF>"

   deadline <until> <eps> <e|-> <i|-> <sigma> <waitok> <neg>
     -> grace=.. ctx=.. kd=.. then for the oracle with all delays 0 and the one with all delays sigma:
        res= int= intok= kill= ret= verdict=

   empty <retain> <hascancel> -> root=<0|1> removals=<n> cancelled=<0|1>     (RunT without any script)

   cleanup <dirsonly:0|1|now> <isroot> M <n> <path>* N <n> (entry)* DIR <path>       (TsCleanup.v: removeAll(DIR) on a whole file system)
     entry := <path> d <perm> | <path> f <perm> <hexdata> | <path> l <path>;  paths are absolute, "." is the root; perm decimal
     -> the resulting table, sorted: <path>:d:<perm> | <path>:f:<perm>:<hex> | <path>:l:<target>, joined by ","

   history <n> (<now> <eps> <D|->)*       (TsRuns.v: RunT calls made one after the other by one process)
     -> per call "grace=<ns> ctx=<ns|->", joined by " | ", for the source as it is (run_calls_now)

   ta <C> <K> <sigma> <tsig> <tend>   (a process that ignores the interrupt; times in ns from the start)
     -> accepted=<0|1>: is there a run of the timed automaton (TsTimed.v) with slack sigma in which the
        interrupt is sent at tsig and waitOrStop returns at tend?  The intermediate steps are placed
        greedily, each as late as needed and at most sigma after the one before.

   startctx <now> <eps> <D> <t0> -> ctx=<ns> c=<ns|->   (TsLate.v: the deadline of the context of a script started at t0,
        for the source as it is, and the moment from which waitOrStop can see it done for a command started at t0)

   ucheck -> closed=<bool> good=<bool> states=<n>    (the finite interleaving system, all parameters) *)

let rec z_of_int i = if i = 0 then Z0 else if i > 0 then Zpos (pos_of_int i) else Zneg (pos_of_int (- i))
let int_of_z = function Z0 -> 0 | Zpos p -> int_of_pos p | Zneg p -> - (int_of_pos p)

let path_of_string (s : string) : path =
  if s = "." then [] else List.map bytes_of_string (String.split_on_char '/' s)
let string_of_path (p : path) : string =
  if p = [] then "." else String.concat "/" (List.map string_of_bytes p)

let bool_of s = (s = "1")
let b01 b = if b then "1" else "0"

(* ---- parsing with a cursor over the token list *)
let toks : string list ref = ref []
let next () = match !toks with t :: r -> toks := r; t | [] -> failwith "short request"
let next_int () = int_of_string (next ())
let expect s = let t = next () in if t <> s then failwith ("expected " ^ s ^ " got " ^ t)
let rec times n f = if n <= 0 then [] else let x = f () in x :: times (n - 1) f

let parse_value (self : int) (s : string) : value =
  let k = String.sub s 0 2 and r = String.sub s 2 (String.length s - 2) in
  if k = "L:" then VLit (bytes_of_hex r)
  else if k = "W:" then VWork (nat_of_int self, path_of_string r)
  else failwith "bad value"

let rec parse_action () : action =
  match next () with
  | "W" -> let p = path_of_string (next ()) in AWrite (p, bytes_of_hex (next ()))
  | "M" -> let p = path_of_string (next ()) in AMkdir (p, bool_of (next ()))
  | "X" -> AChmodX (path_of_string (next ()))
  | "C" -> ACd (path_of_string (next ()))
  | "E" -> let k = bytes_of_hex (next ()) in ASetenv (k, bytes_of_hex (next ()))
  | "P" -> let p = path_of_string (next ()) in ASetPathOwn (p, bool_of (next ()))
  | "D" -> let i = next_int () in ADefer (nat_of_int i, bool_of (next ()))
  | "G" -> let h = next_int () in ABg (nat_of_int h, bool_of (next ()))
  | "O" -> AProbe | "F" -> AFail | "K" -> ASkip | "T" -> AStop | "Z" -> APanic
  | "N" -> AKill | "Y" -> AKillWait | "U" -> AWait
  | "H" -> let neg = bool_of (next ()) in AExec (neg, bytes_of_hex (next ()))
  | "L" -> let p = path_of_string (next ()) in ASymlink (p, bytes_of_hex (next ()))
  | "R" -> ARm (path_of_string (next ()))
  | "I" -> let neg = bool_of (next ()) in let prog = bytes_of_hex (next ()) in AIfExec (neg, prog, parse_action ())
  | "S" -> ATSkip | "A" -> ATFail
  | t -> failwith ("bad action " ^ t)

let parse_script (self : int) : script =
  expect "S"; let se = bool_of (next ()) in
  expect "A"; let n = next_int () in
  let files = times n (fun () -> let p = path_of_string (next ()) in (p, bytes_of_hex (next ()))) in
  expect "Q"; let n = next_int () in
  let wn = times n (fun () -> path_of_string (next ())) in
  expect "X"; let esc = (let t = next () in if t = "-" then None else Some (nat_of_int (int_of_string t))) in
  let keep = (match !toks with
    | "KEEP" :: _ -> ignore (next ());
        (let t = next () in if t = "-" then None else Some (times (int_of_string t) (fun () -> bytes_of_hex (next ()))))
    | _ -> None) in
  expect "V"; let n = next_int () in
  let adds = times n (fun () -> let k = bytes_of_hex (next ()) in (k, parse_value self (next ()))) in
  expect "D"; let n = next_int () in
  let defs = times n (fun () -> let i = next_int () in (nat_of_int i, bool_of (next ()))) in
  expect "B"; let n = next_int () in
  let body = times n parse_action in
  { archive = files; work_named = wn; escaping_at = esc; setup_keep = keep; setup_adds = adds; setup_defers = defs; setup_err = se; body = body }

(* ---- canonical rendering (the Go runner renders its observations the same way) *)
let render_value (v : value) : string =
  let join sub = String.concat "" (List.map (fun s -> "/" ^ string_of_bytes s) sub) in
  match v with
  | VLit b -> string_of_bytes b
  | VWork (_, sub) -> "$WORK" ^ join sub
  | VOwnPath (_, sub, rest) -> "$WORK" ^ join sub ^ (match rest with Some b -> ":" ^ string_of_bytes b | None -> "")

let hex_of_string s = hex_of_bytes (bytes_of_string s)

(* the environment as a child process sees it: the latest entry of each name, sorted by name *)
let render_env (e : env) : string =
  let tbl = Hashtbl.create 16 in
  List.iter (fun (k, v) -> Hashtbl.replace tbl (string_of_bytes k) (render_value v)) e;
  let l = Hashtbl.fold (fun k v acc -> (k, v) :: acc) tbl [] in
  let l = List.sort Stdlib.compare l in
  "{" ^ String.concat "," (List.map (fun (k, v) -> hex_of_string k ^ "=" ^ hex_of_string v) l) ^ "}"

let render_tree (t : tree) : string =
  let l = List.map (fun (p, n) ->
    (string_of_path p, match n with
      | Dir ro -> if ro then "D" else "d"
      | File (d, x) -> (if x then "x" else "f") ^ hex_of_bytes d
      | Link tg -> "l" ^ hex_of_bytes tg)) t in
  let l = List.sort Stdlib.compare (List.map (fun (p, k) -> p ^ ":" ^ k) l) in
  "[" ^ String.concat "," l ^ "]"

let ints (l : nat list) = "(" ^ String.concat "," (List.map (fun n -> string_of_int (int_of_nat n)) l) ^ ")"

let verdict_string = function
  | Done VPass -> "PASS" | Done VStop -> "PASS" | Done VFail -> "FAIL" | Done VSetupFail -> "FAIL"
  | Done VSkip -> "SKIP" | Done VPanic -> "PANIC"
  | Stuck -> "STUCK"
  | _ -> "UNFINISHED"
let exit_string = function
  | Done VPass -> "pass" | Done VStop -> "stop" | Done VFail -> "fail" | Done VSetupFail -> "setupfail"
  | Done VSkip -> "skip" | Done VPanic -> "panic" | _ -> "unfinished"

let render_script (ss : sstate) : string =
  let setup = String.concat "" (List.filter_map (function
    | EvSetup (e, t, o) -> Some (render_env e ^ "@" ^ render_tree t ^ (if o = [] then "" else "@OUTSIDE:" ^ String.concat "," (List.map string_of_path o)))
    | _ -> None) ss.obs) in
  let probes = List.filter_map (function
    | EvProbe (c, e, t) -> Some (string_of_path c ^ "@" ^ render_env e ^ "@" ^ render_tree t) | _ -> None) ss.obs in
  let conds = List.filter_map (function EvCond (p, a) -> Some (hex_of_bytes p ^ "=" ^ b01 a) | _ -> None) ss.obs in
  Printf.sprintf "%s exit=%s regs=%s runs=%s bg=%s/%s/%s wp=%s setup=%s probes=%d%s conds=(%s) final=%s"
    (verdict_string ss.ph) (exit_string ss.ph) (ints (defer_regs ss.obs)) (ints (defer_runs ss.obs))
    (ints (bg_started ss.obs)) (ints (List.sort_uniq Stdlib.compare (bg_gone ss.obs))) (ints (List.sort_uniq Stdlib.compare (bg_waited ss.obs)))
    (b01 ss.wpresent) setup (List.length probes) (String.concat "" (List.map (fun p -> ";" ^ p) probes))
    (String.concat "," conds) (render_tree ss.tr)

let do_batch () : string =
  let retain = bool_of (next ()) in let kbp = bool_of (next ()) in
  let hc = bool_of (next ()) in let root = bool_of (next ()) in
  let nse = bool_of (next ()) in let nco = bool_of (next ()) in let coe = bool_of (next ()) in
  let pwd = (match !toks with "PWD" :: _ -> ignore (next ()); bool_of (next ()) | _ -> true) in
  expect "H"; let n = next_int () in
  let host = times n (fun () -> let k = bytes_of_hex (next ()) in (k, bytes_of_hex (next ()))) in
  expect "T"; let n = next_int () in
  let tab = times n (fun () -> let pv = bytes_of_hex (next ()) in let pr = bytes_of_hex (next ()) in ((pv, pr), bool_of (next ()))) in
  expect "L"; let helper = bytes_of_hex (next ()) in
  expect "N"; let n = next_int () in
  let idx = ref (-1) in
  let progs = times n (fun () -> incr idx; parse_script !idx) in
  expect "SCHED";
  let pre = List.map (fun t -> nat_of_int (int_of_string t)) !toks in
  toks := [];
  let cfg = { retain = retain; key_by_path = kbp; names_see_env = nse; names_contained = nco; empty_cleans = true; continue_on_error = coe; has_cancel = hc; pwd_appended = pwd; precancel_guarded = true; is_root = root; hostenv = host; hosttab = tab; helper = helper } in
  let maxb = List.fold_left (fun m p -> Stdlib.max m (int_of_nat (steps_bound p))) 0 progs in
  let sched = pre @ round_robin (nat_of_int n) (nat_of_int maxb) in
  let st = run cfg progs (init progs) sched in
  (* the same scripts, each alone: the theorem says nothing differs *)
  let same = List.for_all2 (fun (i, p) ss ->
      let (_, sa) = alone cfg p (nat_of_int i) (nat_of_int (List.length sched)) in
      render_script sa = render_script ss)
    (List.mapi (fun i p -> (i, p)) progs) st.scripts in
  String.concat " | " (List.map render_script st.scripts)
  ^ Printf.sprintf " || root=%s removals=%d cancelled=%s refcount=%d alone=%s"
      (b01 st.sh.root_present) (int_of_nat st.sh.root_removals) (b01 st.sh.cancelled) (int_of_nat st.sh.refcount)
      (if same then "ok" else "DIFF")

let zopt = function None -> "-" | Some z -> string_of_int (int_of_z z)
let parse_zopt s = if s = "-" then None else Some (z_of_int (int_of_string s))

let do_deadline () : string =
  let until = next_int () in let eps = next_int () in
  let e = parse_zopt (next ()) in let i = parse_zopt (next ()) in
  let sigma = next_int () in let waitok = bool_of (next ()) in let neg = bool_of (next ()) in
  let p = fg_params Z0 (z_of_int eps) (z_of_int until) e i in
  let orc d = let z = z_of_int d in { dw = z; dc = z; ds = z; da = z; dt = z; dk = z; dr = z; tie1 = true; tie2 = true; tie3 = true } in
  let show d =
    let r = wos p (orc d) in
    let v = match fg_exec p (orc d) waitok neg with
      | None -> "never" | Some XOk -> "ok" | Some XUnexpectedSuccess -> "unexpected-success"
      | Some XUnexpectedFailure -> "unexpected-failure" | Some (XTimedOut _) -> "timed-out" in
    let valid = match uexec (uparams_of p) r.trace uinit with Some _ -> "1" | None -> "0" in
    let vs = function
      | None -> "never" | Some XOk -> "ok" | Some XUnexpectedSuccess -> "unexpected-success"
      | Some XUnexpectedFailure -> "unexpected-failure" | Some (XTimedOut _) -> "timed-out" in
    (* srcverdict: with the attribution rule the source has now (generated constant) *)
    let sv = vs (fg_exec_gen interrupt_error_wins p (orc d) waitok neg) in
    Printf.sprintf "res=%s int=%s intok=%s kill=%s ret=%s verdict=%s srcverdict=%s trace=%s"
      (match r.res with RWait -> "wait" | RCtx -> "ctx" | RNever -> "never")
      (zopt r.t_int) (b01 r.int_ok) (zopt r.t_kill) (zopt r.t_ret) v sv valid in
  Printf.sprintf "grace=%d ctx=%d kd=%d msg=%s | %s | %s"
    (int_of_z (grace (z_of_int until))) (int_of_z (ctx_deadline Z0 (z_of_int eps) (z_of_int until)))
    (int_of_z (fg_kill_delay (z_of_int until))) (hex_of_bytes timed_out_message) (show 0) (show sigma)

let do_empty () : string =
  let retain = bool_of (next ()) in let hc = bool_of (next ()) in
  let cfg = { retain = retain; key_by_path = true; names_see_env = true; names_contained = true; empty_cleans = true;
              continue_on_error = false; has_cancel = hc; pwd_appended = true; precancel_guarded = true; is_root = true; hostenv = []; hosttab = []; helper = [] } in
  let st = start cfg [] in
  Printf.sprintf "root=%s removals=%d cancelled=%s" (b01 st.sh.root_present) (int_of_nat st.sh.root_removals) (b01 st.sh.cancelled)

let do_cleanup () : string =
  let flag = (match next () with "now" -> remove_all_chmods_dirs_only | t -> bool_of t) in
  let root = bool_of (next ()) in
  expect "M"; let n = next_int () in
  let mine = times n (fun () -> path_of_string (next ())) in
  expect "N"; let n = next_int () in
  let fs = times n (fun () ->
    let p = path_of_string (next ()) in
    match next () with
    | "d" -> (p, GDir (n_of_int (next_int ())))
    | "f" -> let m = next_int () in (p, GFile (n_of_int m, bytes_of_hex (next ())))
    | "l" -> (p, GLink (path_of_string (next ())))
    | t -> failwith ("bad entry kind " ^ t)) in
  expect "DIR"; let dir = path_of_string (next ()) in
  let out = remove_all_at flag root mine fs dir in
  let l = List.map (fun (p, n) -> string_of_path p ^ (match n with
    | GDir m -> Printf.sprintf ":d:%d" (int_of_n m)
    | GFile (m, d) -> Printf.sprintf ":f:%d:%s" (int_of_n m) (hex_of_bytes d)
    | GLink t -> ":l:" ^ string_of_path t)) out in
  String.concat "," (List.sort Stdlib.compare l)

let do_history () : string =
  let n = next_int () in
  let cs = times n (fun () ->
    let now = next_int () in let eps = next_int () in
    { c_now = z_of_int now; c_eps = z_of_int eps; c_deadline = parse_zopt (next ()) }) in
  String.concat " | " (List.map (fun r -> Printf.sprintf "grace=%d ctx=%s" (int_of_z r.r_grace) (zopt r.r_ctx)) (run_calls_now cs))

let do_ta () : string =
  let c = next_int () in let k = next_int () in let sg = next_int () in
  let tsig = next_int () in let tend = next_int () in
  let clamp x lo hi = Stdlib.max lo (Stdlib.min x hi) in
  let par = { pu = { has_ctx = true; kd_pos = true; self_exit = false; int_exit = false; sig_fails = false };
              pC = z_of_int c; pK = z_of_int k; pE = Z0; pD = Z0; psig = z_of_int sg } in
  let a = clamp (tsig - 2 * sg) c (c + sg) in
  let b = clamp (tsig - sg) a (a + sg) in
  let h = clamp (tend - 6 * sg - k) tsig (tsig + sg) in
  let f = clamp (tend - 5 * sg) (h + k) (h + k + sg) in
  let g1 = clamp (tend - 4 * sg) f (f + sg) in
  let g2 = clamp (tend - 3 * sg) g1 (g1 + sg) in
  let g3 = clamp (tend - 2 * sg) g2 (g2 + sg) in
  let g4 = clamp (tend - sg) g3 (g3 + sg) in
  let plan = [ (a, LCtxFire); (b, LSelCtx); (tsig, LSignal); (h, LArm); (f, LTimerFire); (g1, LSelTimer);
               (g2, LKill); (g3, LKillExit); (g4, LWaitRet); (tend, LRendezvous) ] in
  let cur = ref 0 in
  let moves = List.concat_map (fun (t, l) -> let d = t - !cur in cur := t; [MDelay (z_of_int d); MDisc l]) plan in
  match texec par moves tinit with
  | Some st -> (match st.us.uw with WDoneCtx -> "accepted=1" | _ -> "accepted=0 (wrong result)")
  | None -> "accepted=0"

let do_startctx () : string =
  let now = next_int () in let eps = next_int () in let d = next_int () in let t0 = next_int () in
  let p = fg_params_at (z_of_int now) (z_of_int eps) (z_of_int d) (z_of_int t0) None None in
  Printf.sprintf "ctx=%d c=%s" (int_of_z (script_ctx_deadline (z_of_int now) (z_of_int eps) (z_of_int d) (z_of_int t0))) (zopt p.tC)

let do_ucheck () : string =
  let cl = List.for_all (fun p -> closed p (reach p)) all_params in
  let gd = List.for_all (fun p -> List.for_all (ugood p) (reach p)) all_params in
  let n = List.fold_left (fun a p -> a + List.length (reach p)) 0 all_params in
  Printf.sprintf "closed=%b good=%b states=%d" cl gd n

let () = serve (fun ts ->
  toks := ts;
  match next () with
  | "batch" -> do_batch ()
  | "deadline" -> do_deadline ()
  | "empty" -> do_empty ()
  | "cleanup" -> do_cleanup ()
  | "history" -> do_history ()
  | "ta" -> do_ta ()
  | "startctx" -> do_startctx ()
  | "ucheck" -> do_ucheck ()
  | _ -> "BAD-REQUEST")

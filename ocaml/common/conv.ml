(* Shared glue between the line protocol and the extracted datatypes.  It is
   concatenated in front of every group's driver; [Model] is the extracted file. *)
open Model

let rec pos_of_int n =
  if n = 1 then XH else if n land 1 = 0 then XO (pos_of_int (n lsr 1)) else XI (pos_of_int (n lsr 1))
let n_of_int n = if n = 0 then N0 else Npos (pos_of_int n)
let rec int_of_pos = function XH -> 1 | XO p -> 2 * int_of_pos p | XI p -> 2 * int_of_pos p + 1
let int_of_n = function N0 -> 0 | Npos p -> int_of_pos p
let rec nat_of_int n = if n <= 0 then O else S (nat_of_int (n - 1))
let rec int_of_nat = function O -> 0 | S n -> 1 + int_of_nat n

let byte_tab : byte array =
  Array.init 256 (fun i -> match of_N (n_of_int i) with Some b -> b | None -> assert false)
let byte_of_int i = byte_tab.(i)
let int_of_byte b = int_of_n (to_N b)

let hexval c = match c with
  | '0'..'9' -> Char.code c - 48 | 'a'..'f' -> Char.code c - 87 | 'A'..'F' -> Char.code c - 55
  | _ -> failwith "bad hex"
(* "-" is the empty string *)
let bytes_of_hex (s : string) : byte list =
  if s = "-" then [] else begin
    let n = String.length s / 2 in
    let rec go i acc = if i < 0 then acc
      else go (i - 1) (byte_of_int (hexval s.[2*i] * 16 + hexval s.[2*i+1]) :: acc) in
    go (n - 1) []
  end
let hex_of_bytes (l : byte list) : string =
  if l = [] then "-" else begin
    let b = Buffer.create 64 in
    List.iter (fun x -> Buffer.add_string b (Printf.sprintf "%02x" (int_of_byte x))) l;
    Buffer.contents b
  end
let string_of_bytes (l : byte list) : string =
  let b = Buffer.create 64 in
  List.iter (fun x -> Buffer.add_char b (Char.chr (int_of_byte x))) l; Buffer.contents b
let bytes_of_string (s : string) : byte list =
  List.init (String.length s) (fun i -> byte_of_int (Char.code s.[i]))

let split_ws (s : string) : string list =
  List.filter (fun x -> x <> "") (String.split_on_char ' ' s)

(* main loop: one request line -> one answer line *)
let serve (handle : string list -> string) =
  let out = Buffer.create (1 lsl 16) in
  (try
    while true do
      let line = input_line stdin in
      if line = "." then (print_string (Buffer.contents out); Buffer.clear out; flush stdout) else
      let ans = try handle (split_ws line) with e -> "MODEL-EXN " ^ Printexc.to_string e in
      Buffer.add_string out ans; Buffer.add_char out '\n';
      if Buffer.length out > 60000 then (print_string (Buffer.contents out); Buffer.clear out; flush stdout)
    done
  with End_of_file -> ());
  print_string (Buffer.contents out); flush stdout

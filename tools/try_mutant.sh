#!/bin/sh
# tools/try_mutant.sh <property id> <patch.diff> [quick|thorough]
# Applies a candidate change to a scratch worktree of /repo (never to /repo itself), runs
# the property's check against it (VERIF_REPO) and removes the worktree again.
# Output: the check's own output; exit status = the check's.
set -u
pid="$1"; patch="$(readlink -f "$2")"; tier="${3:-quick}"
wt="$(mktemp -d /tmp/try-$pid-XXXXXX)"
rmdir "$wt"
git -C /repo worktree add -q --detach "$wt" HEAD || exit 2
cleanup() { git -C /repo worktree remove --force "$wt" 2>/dev/null; rm -rf "$wt"; }
trap cleanup EXIT INT TERM
if ! git -C "$wt" apply "$patch"; then echo "patch does not apply"; exit 2; fi
cd "$(dirname "$0")/.."
VERIF_REPO="$wt" ./check "$pid" "$tier"
rc=$?
echo "try_mutant: check $pid $tier on $(basename "$patch") exit=$rc"
exit $rc

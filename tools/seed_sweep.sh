#!/bin/sh
# tools/seed_sweep.sh <seed>...: run every claimed quick check with each seed; report non-zero exits.
cd "$(dirname "$0")/.."
for seed in "$@"; do
  for p in $(python3 -c "import json;print(' '.join(c['property_id'] for c in json.load(open('MANIFEST.json'))['checks']))"); do
    s=$(date +%s); out=$(VERIF_SEED=$seed ./check $p quick 2>&1); rc=$?; e=$(date +%s)
    echo "seed=$seed $p rc=$rc $((e-s))s $(echo "$out" | tail -1)"
    [ $rc -ne 0 ] && echo "$out" | grep -E "^(VIOLATION|proof stage|runner did not)" | head -4 && cp -r replays "/tmp/sweep-replays-$seed-$p" 2>/dev/null
  done
done

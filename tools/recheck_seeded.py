#!/usr/bin/env python3
"""tools/recheck_seeded.py [name ...]: re-run the property's check against each kept seeded change
(scratch worktree of /repo + VERIF_REPO; /repo itself is never touched) and update its meta.json."""
import glob, json, os, shutil, subprocess, sys, tempfile, time
ROOT = os.path.dirname(os.path.dirname(os.path.abspath(__file__)))
names = sys.argv[1:] or sorted(os.path.basename(os.path.dirname(p)) for p in glob.glob(os.path.join(ROOT, "seeded", "*", "meta.json")))
tier = os.environ.get("MUT_TIER", "quick")
for name in names:
    d = os.path.join(ROOT, "seeded", name)
    meta = json.load(open(os.path.join(d, "meta.json")))
    pid = os.environ.get("MUT_PROP") or meta["property"]
    wt = tempfile.mkdtemp(prefix="try-%s-" % pid, dir="/tmp"); os.rmdir(wt)
    subprocess.check_call(["git", "-C", "/repo", "worktree", "add", "-q", "--detach", wt, "HEAD"])
    try:
        rc = subprocess.call(["git", "-C", wt, "apply", os.path.join(d, "patch.diff")])
        if rc != 0:
            print(name, "PATCH DOES NOT APPLY any more"); continue
        t0 = time.time()
        p = subprocess.run(["./check", pid, tier], cwd=ROOT, env=dict(os.environ, VERIF_REPO=wt), stdout=subprocess.PIPE, stderr=subprocess.STDOUT, text=True)
        out = p.stdout
        viol = [l for l in out.split("\n") if l.startswith("VIOLATION")]
        reps = []
        for l in viol[:3]:
            pth = l.split("replay=")[1].split()[0]
            try:
                v = json.load(open(pth))["violation"]
                reps.append({"kind": v.get("kind"), "oracle": v.get("oracle"), "input": v.get("input"), "impl": str(v.get("impl"))[:200], "model": str(v.get("model"))[:200]})
            except Exception as e:
                reps.append({"error": str(e)})
        rec = {"cmd": "VERIF_REPO=<scratch worktree with the change> ./check %s %s" % (pid, tier), "exit": p.returncode,
               "violation_lines": viol[:6], "summary_line": out.strip().split("\n")[-1], "wall_s": round(time.time() - t0, 1), "replays": reps}
        key = "check" if pid == meta["property"] else "check_" + pid
        meta[key] = rec
        if pid == meta["property"]:
            meta["detected"] = p.returncode == 1 and bool(viol)
            meta["detected_with_failing_input"] = any("no-failing-input-found" not in l for l in viol)
        json.dump(meta, open(os.path.join(d, "meta.json"), "w"), indent=1)
        print(name, pid, "detected" if (p.returncode == 1 and viol) else "MISSED", "with-input" if any("no-failing-input-found" not in l for l in viol) else "no-input", [(r.get("kind"), r.get("oracle")) for r in reps], rec["summary_line"])
    finally:
        subprocess.call(["git", "-C", "/repo", "worktree", "remove", "--force", wt]); shutil.rmtree(wt, ignore_errors=True)

#!/bin/sh
# usage: mutbatch.sh <pid> <pkgs...>
pid=$1; shift
for i in 1 2 3; do
  [ -d ${MUTBASE:-/tmp/mut}-$pid/_mut/m$i ] || continue
  /verif/tools/confirm_mutant.py $pid ${MUTBASE:-/tmp/mut}-$pid/_mut/m$i $pid-${MUTTAG:-m}$i "$@" > /tmp/mutres-$pid-m$i.json 2>&1
  python3 - $pid $i <<'PY'
import json,sys
pid,i=sys.argv[1],sys.argv[2]
try:
    txt=open('/tmp/mutres-%s-m%s.json'%(pid,i)).read()
    r=json.loads(txt[txt.index('{'):])
    print(pid,'m'+i,'confirmed' if r.get('confirmed') else 'NOT-CONFIRMED: '+str(r.get('problem'))[:200], 'detected' if r.get('detected') else 'MISSED', 'with-input' if r.get('detected_with_failing_input') else 'no-input', [(x.get('kind'),x.get('oracle')) for x in (r.get('check') or {}).get('replays',[])], (r.get('check') or {}).get('summary_line'))
except Exception as e:
    print(pid,'m'+i,'ERROR',e)
PY
done

#!/usr/bin/env python3
"""prints the markdown table of seeded breaking changes (seeded/*/meta.json) for DESIGN.md"""
import glob, json, os
root = os.path.dirname(os.path.dirname(os.path.abspath(__file__)))
print("| change | property | what it does | needs | caught by | replay |")
print("|---|---|---|---|---|---|")
for m in sorted(glob.glob(os.path.join(root, "seeded", "*", "meta.json"))):
    d = json.load(open(m))
    name = os.path.basename(os.path.dirname(m))
    ck = d.get("check") or {}
    reps = ck.get("replays") or []
    how = "MISSED" if not d.get("detected") else ("oracle " + ", ".join(sorted({str(r.get("oracle")) for r in reps if r.get("kind") == "impl-violation"})) if d.get("detected_with_failing_input") and any(r.get("kind") == "impl-violation" for r in reps) else "correspondence/proof (no-failing-input-found)")
    inp = ""
    for r in reps:
        i = r.get("input") or {}
        inp = i.get("x_text") or next(iter(i.values()), "") if i else ""
        if inp:
            break
    def cell(s, n=160):
        s = " ".join(str(s or "").split()).replace("|", "\\|")
        return s[:n] + ("…" if len(s) > n else "")
    print("| %s | %s | %s | %s | %s | %s |" % (name, d.get("property"), cell(d.get("summary")), cell(d.get("needs"), 120), cell(how, 120), cell(inp, 60)))

#!/bin/sh
# tools/mb6.sh <pid> [round tag]: confirm the round-N candidates of /tmp/mut<N>-<pid>/_mut/m{1,2,3} and run the property's check on each
p=$1; rnd=${2:-6}
case $p in C01|C02|C04|C16|C17) pk="./testscript/";; C03|C14|C15) pk="./txtar/ ./cmd/txtar-c/ ./cmd/txtar-x/ ./testscript/ ./goproxytest/";; C05|C11|C12|C13) pk="./cache/";; C06|C07) pk="./lockedfile/...";; C08) pk="./diff/ ./testscript/";; C09|C10) pk="./par/ ./goproxytest/ ./testscript/";; C18|C19) pk="./imports/";; C20) pk="./goproxytest/ ./par/";; esac
cd /verif
MUTBASE=/tmp/mut$rnd MUTTAG=r${rnd}m tools/mutbatch.sh $p $pk > /tmp/mb$rnd-$p.log 2>&1

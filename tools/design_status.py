#!/usr/bin/env python3
"""Regenerates the machine-written part of DESIGN.md (between the STATUS markers):
per-property status from props/*.json, Properties/*.v and evidence/*.json, the repaired-defect
list from KNOWN_FINDINGS.txt and the table of seeded changes."""
import glob, json, os, re, subprocess
root = os.path.dirname(os.path.dirname(os.path.abspath(__file__)))
props = {json.loads(l)["id"]: json.loads(l) for l in open(os.path.join(root, "properties.jsonl"))}
out = []
out.append("| id | theorems (Properties/Cxx.v) | Coq files | runner / evaluations (last quick run) | wall s |")
out.append("|---|---|---|---|---|")
for pid in sorted(props):
    pj = os.path.join(root, "props", pid + ".json")
    if not os.path.exists(pj):
        continue
    p = json.load(open(pj))
    ev = {}
    try:
        ev = json.load(open(os.path.join(root, "evidence", pid + ".json")))
    except Exception:
        pass
    cov = ev.get("coverage", {})
    out.append("| %s | %d/%d | %d | `%s` / %s evaluations, %s distinct non-trivial | %s |" % (
        pid, cov.get("discharged", 0) - (1 if cov.get("correspondence_mismatches", 1) == 0 else 0), cov.get("obligations", 1) - 1,
        len(cov.get("coq_files", [])), p.get("runner"), cov.get("evaluations"), cov.get("distinct_nontrivial"), ev.get("wall_s")))
out.append("")
out.append("Theorem names per property (each is `Theorem … Proof. exact <lemma>. Qed.` followed by `Print Assumptions`):")
out.append("")
for pid in sorted(props):
    f = os.path.join(root, "coq", "theories", "Properties", pid + ".v")
    if os.path.exists(f):
        names = re.findall(r"Print\s+Assumptions\s+([\w.']+)\s*\.", open(f).read())
        out.append("* **%s** (%d): %s" % (pid, len(names), ", ".join("`%s`" % n for n in names)))
out.append("")
out.append("Repaired defects (`KNOWN_FINDINGS.txt`):")
out.append("")
for l in open(os.path.join(root, "KNOWN_FINDINGS.txt")):
    if l.startswith("fixed:") or l.startswith("finding:"):
        out.append("* " + l.strip())
out.append("")
out.append("Seeded breaking changes (written by independent sub-agents from the property text only, confirmed in scratch worktrees; `tools/recheck_seeded.py` re-runs them):")
out.append("")
out.append(subprocess.run([os.path.join(root, "tools", "seeded_table.py")], stdout=subprocess.PIPE, text=True).stdout)
frag = "\n".join(out)
d = open(os.path.join(root, "DESIGN.md")).read()
a, b = "<!-- STATUS:BEGIN -->", "<!-- STATUS:END -->"
if a in d:
    d = d[:d.index(a) + len(a)] + "\n" + frag + "\n" + d[d.index(b):]
else:
    d += "\n\n## 11. Status (machine-written by tools/design_status.py)\n\n" + a + "\n" + frag + "\n" + b + "\n"
open(os.path.join(root, "DESIGN.md"), "w").write(d)
print("DESIGN.md status section regenerated (%d lines)" % len(out))

#!/usr/bin/env python3
"""tools/confirm_mutant.py <pid> <mutant dir> <seeded name> <test pkgs...>

Confirms a candidate breaking change produced by an independent sub-agent and runs the
property's check against it, all in a scratch worktree of /repo (never /repo itself):
  1. clean tree: demo passes;  2. patch applies, `go build ./...` and the given test
  packages pass;  3. demo fails with the patch;  4. VERIF_REPO=<worktree> ./check <pid> quick.
On success of 1-3 the change is kept as /verif/seeded/<name>/ (patch.diff, demo, meta.json with
what was run and whether the check caught it)."""
import json, os, shutil, subprocess, sys, tempfile, time

ROOT = os.path.dirname(os.path.dirname(os.path.abspath(__file__)))
ENV = dict(os.environ, GOFLAGS="-mod=mod", GOPROXY="off", GOSUMDB="off", GOTOOLCHAIN="local")


def run(cmd, cwd, timeout=1800, env=None):
    p = subprocess.run(cmd, cwd=cwd, shell=isinstance(cmd, str), env=env or ENV, stdout=subprocess.PIPE,
                       stderr=subprocess.STDOUT, text=True, errors="replace", timeout=timeout)
    return p.returncode, p.stdout


def main():
    pid, mdir, name = sys.argv[1], os.path.abspath(sys.argv[2]), sys.argv[3]
    pkgs = sys.argv[4:]
    tier = os.environ.get("MUT_TIER", "quick")
    meta = json.load(open(os.path.join(mdir, "meta.json")))
    wt = tempfile.mkdtemp(prefix="try-%s-" % pid, dir="/tmp")
    os.rmdir(wt)
    subprocess.check_call(["git", "-C", "/repo", "worktree", "add", "-q", "--detach", wt, "HEAD"])
    rec = {"property": pid, "summary": meta.get("summary"), "needs": meta.get("needs"),
           "demo_cmd": meta.get("demo_cmd"), "ran": []}
    ok = True
    try:
        shutil.copytree(os.path.dirname(mdir), os.path.join(wt, "_mut"))
        demo = meta["demo_cmd"].replace(os.path.dirname(os.path.dirname(mdir)), wt)
        import re
        def failed(rc, out):
            return rc != 0 or re.search(r"^(--- FAIL|FAIL\b|panic:)", out, re.M) is not None
        def place_demo():
            for f in meta.get("demo_files", []) or []:
                src = os.path.join(mdir, os.path.basename(f))
                if not os.path.exists(src):
                    src = os.path.join(mdir, f)
                dst = os.path.join(wt, f)
                if os.path.exists(src) and not os.path.exists(dst) and not f.startswith("_mut"):
                    os.makedirs(os.path.dirname(dst), exist_ok=True)
                    shutil.copy(src, dst)
        place_demo()
        rc, out = run(demo, wt)
        if "no tests to run" in out:
            rc = 99
        rec["ran"].append({"step": "demo on unchanged tree", "cmd": demo, "exit": rc})
        if failed(rc, out):
            ok = False; rec["problem"] = "demo fails on the unchanged tree: " + out[-600:]
        run("git checkout -q -- . && git clean -fdq -e _mut", wt)
        rc, out = run(["git", "apply", os.path.join(mdir, "patch.diff")], wt)
        run("git add -A -- . ':!_mut'", wt)
        if rc != 0:
            ok = False; rec["problem"] = "patch does not apply: " + out[-400:]
        else:
            rc, out = run("go build ./... && go vet ./... >/dev/null 2>&1; go build ./...", wt)
            rec["ran"].append({"step": "go build ./... with the change", "exit": rc})
            if rc != 0:
                ok = False; rec["problem"] = "does not build: " + out[-400:]
            if pkgs:
                # testscript's TestScripts/pty is timing-sensitive under load: a failing run is repeated
                # (the suite must pass in one of three attempts; a change that really breaks it fails all)
                for attempt in range(3):
                    rc, out = run(["go", "test", "-count=1", "-vet=off"] + pkgs, wt, timeout=2400)
                    fails = [l for l in out.split("\n") if l.startswith("--- FAIL") or l.startswith("FAIL")]
                    if not [l for l in fails if "env_var_with_go" not in l and "TestSimple" not in l
                            and not l.startswith("FAIL\tgithub.com/rogpeppe/go-internal/cmd/testscript")
                            and not l.startswith("FAIL\tgithub.com/rogpeppe/go-internal/gotooltest") and l.strip() != "FAIL"]:
                        break
                # the two tests that already fail offline on the unchanged tree are ignored
                real = [l for l in fails if "env_var_with_go" not in l and "TestSimple" not in l
                        and not l.startswith("FAIL\tgithub.com/rogpeppe/go-internal/cmd/testscript")
                        and not l.startswith("FAIL\tgithub.com/rogpeppe/go-internal/gotooltest") and l.strip() != "FAIL"]
                rec["ran"].append({"step": "existing tests with the change", "cmd": "go test -count=1 " + " ".join(pkgs), "exit": rc, "failures": real})
                if real:
                    ok = False; rec["problem"] = "existing tests fail with the change: " + "; ".join(real[:5])
            place_demo()
            rc, out = run(demo, wt)
            rec["ran"].append({"step": "demo with the change", "cmd": demo, "exit": rc, "tail": out[-500:]})
            if not failed(rc, out):
                ok = False; rec["problem"] = "demo still passes with the change"
        if ok:
            # remove demo files the demo_cmd copied into the tree, keep the patch
            run("git clean -fdq -e _mut", wt)
            t0 = time.time()
            rc, out = run(["./check", pid, tier], ROOT, timeout=7200, env=dict(os.environ, VERIF_REPO=wt))
            viol = [l for l in out.split("\n") if l.startswith("VIOLATION")]
            rec["check"] = {"cmd": "VERIF_REPO=<scratch worktree with the change> ./check %s %s" % (pid, tier), "exit": rc,
                            "violation_lines": viol[:6], "summary_line": out.strip().split("\n")[-1], "wall_s": round(time.time() - t0, 1)}
            rec["detected"] = rc == 1 and bool(viol)
            rec["detected_with_failing_input"] = any("no-failing-input-found" not in l for l in viol)
            # keep what the replay said
            reps = []
            for l in viol[:3]:
                pth = l.split("replay=")[1].split()[0]
                try:
                    v = json.load(open(pth))["violation"]
                    reps.append({"kind": v.get("kind"), "oracle": v.get("oracle"), "input": v.get("input"), "impl": str(v.get("impl"))[:200], "model": str(v.get("model"))[:200]})
                except Exception as e:
                    reps.append({"error": str(e)})
            rec["check"]["replays"] = reps
    finally:
        subprocess.call(["git", "-C", "/repo", "worktree", "remove", "--force", wt])
        shutil.rmtree(wt, ignore_errors=True)
    rec["confirmed"] = ok
    if ok:
        dst = os.path.join(ROOT, "seeded", name)
        os.makedirs(dst, exist_ok=True)
        for f in os.listdir(mdir):
            if f != "meta.json":
                s = os.path.join(mdir, f)
                if os.path.isdir(s):
                    shutil.copytree(s, os.path.join(dst, f), dirs_exist_ok=True)
                else:
                    shutil.copy(s, dst)
        json.dump(rec, open(os.path.join(dst, "meta.json"), "w"), indent=1)
    print(json.dumps(rec, indent=1))
    return 0 if ok else 1


if __name__ == "__main__":
    sys.exit(main())

#!/usr/bin/env python3
"""tools/shapes.py record <Group> ... | diff <Group> [repo] | list

Source fingerprints of the functions the hand-written models mirror (see
harness/cmd/genconsts/gen_shapes.go).

  record  adopt the CURRENT /repo text of the group's functions as what the model mirrors:
          writes shapes/<Group>.txt (canonical texts, committed, used for diffs) and
          coq/theories/Shapes/<Group>.v (the recorded table + Lemma shapes_current).  Run it only
          after having checked that the model still describes every changed function.
  diff    print, function by function, how the canonical text of the checked tree (default
          /repo, or $VERIF_REPO, or the second argument) differs from the recorded one.
  list    the groups.
"""
import difflib, os, re, subprocess, sys, tempfile

ROOT = os.path.dirname(os.path.dirname(os.path.abspath(__file__)))
ENV = dict(os.environ, GOFLAGS="-mod=mod", GOPROXY="off", GOSUMDB="off", GOTOOLCHAIN="local")


def parse_txt(txt):
    """{name: (digest, text)} from a Shape<Group>.txt"""
    res, name = {}, None
    for line in txt.split("\n"):
        m = re.match(r"==== (\S.*) ([0-9a-f]{64})$", line)
        if m:
            name = m.group(1)
            res[name] = [m.group(2), []]
        elif name is not None:
            res[name][1].append(line)
    return {k: (v[0], "\n".join(v[1]).rstrip("\n") + "\n") for k, v in res.items()}


def generate(groups, repo):
    d = tempfile.mkdtemp(prefix="shapes-")
    gbin = os.path.join(d, "genconsts")
    subprocess.check_call(["go", "build", "-o", gbin, "./cmd/genconsts"], cwd=os.path.join(ROOT, "harness"), env=ENV)
    p = subprocess.run([gbin, "-repo", repo, "-out", d] + ["Shape" + g for g in groups], stdout=subprocess.PIPE, stderr=subprocess.STDOUT, text=True)
    out = {}
    for g in groups:
        try:
            out[g] = open(os.path.join(d, "Shape%s.txt" % g)).read()
        except OSError:
            out[g] = None
    subprocess.call(["rm", "-rf", d])
    return out, p.stdout


def coq_bytes(s):
    return "[" + "; ".join("x%02x" % b for b in s.encode()) + "]"


def shape_diff(group, current_txt):
    """text describing how current differs from the recorded shapes of the group ('' if equal)"""
    try:
        rec = parse_txt(open(os.path.join(ROOT, "shapes", group + ".txt")).read())
    except OSError:
        return "no recorded shapes for group %s" % group
    if current_txt is None:
        return "the shapes of group %s could not be generated from the checked tree" % group
    cur = parse_txt(current_txt)
    out = []
    for n in sorted(set(rec) | set(cur)):
        if n not in cur:
            out.append("REMOVED %s (the model mirrors a function that no longer exists)" % n)
        elif n not in rec:
            out.append("NEW %s (not covered by the model)\n%s" % (n, cur[n][1]))
        elif rec[n][0] != cur[n][0]:
            d = difflib.unified_diff(rec[n][1].split("\n"), cur[n][1].split("\n"), "recorded " + n, "current " + n, lineterm="", n=2)
            out.append("CHANGED %s\n%s" % (n, "\n".join(d)))
    return "\n".join(out)


def main():
    if len(sys.argv) < 2 or sys.argv[1] == "list":
        print(" ".join(sorted(f[:-4] for f in os.listdir(os.path.join(ROOT, "shapes")) if f.endswith(".txt"))))
        return
    cmd = sys.argv[1]
    if cmd == "record":
        groups = sys.argv[2:]
        txts, log = generate(groups, "/repo")
        os.makedirs(os.path.join(ROOT, "shapes"), exist_ok=True)
        os.makedirs(os.path.join(ROOT, "coq", "theories", "Shapes"), exist_ok=True)
        for g in groups:
            if txts[g] is None:
                print("cannot generate shapes of", g, "\n", log)
                sys.exit(1)
            open(os.path.join(ROOT, "shapes", g + ".txt"), "w").write(txts[g])
            ents = sorted(parse_txt(txts[g]).items())
            body = ";\n   ".join("(* %s *) (%s,\n      %s)" % (n, coq_bytes(n), coq_bytes(v[0])) for n, v in ents)
            v = """(* RECORDED by tools/shapes.py record %s: the canonical text (shapes/%s.txt) of every function
   of /repo that the hand-written model of this group mirrors, as SHA-256 digests, at the source
   version the model was written against / last reviewed against.  Gen/Shape%s.v is regenerated
   from the checked tree on every run; the lemma below is the obligation that the two agree:
   an edited function re-opens it (tools/shapes.py diff %s shows the edit). *)
From Coq Require Import List.
From Coq.Strings Require Import Byte.
From GI Require Import Gen.Shape%s.
Import ListNotations.

Definition expected_shape_table : list (list byte * list byte) :=
  [%s].

Lemma shapes_current : shape_table = expected_shape_table.
Proof. reflexivity. Qed.
Print Assumptions shapes_current.
""" % (g, g, g, g, g, body)
            open(os.path.join(ROOT, "coq", "theories", "Shapes", g + ".v"), "w").write(v)
            print("recorded", g, len(ents), "entries")
    elif cmd == "diff":
        g = sys.argv[2]
        repo = sys.argv[3] if len(sys.argv) > 3 else os.environ.get("VERIF_REPO", "/repo")
        txts, log = generate([g], repo)
        d = shape_diff(g, txts[g])
        print(d or "no difference")
        sys.exit(1 if d else 0)
    else:
        print(__doc__)
        sys.exit(2)


if __name__ == "__main__":
    main()

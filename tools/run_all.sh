#!/bin/sh
# tools/run_all.sh [tier]: run every claimed check once against /repo; one summary line each.
cd "$(dirname "$0")/.."
tier=${1:-quick}
for p in $(python3 -c "import json;print(' '.join(c['property_id'] for c in json.load(open('MANIFEST.json'))['checks']))"); do
  s=$(date +%s); out=$(./check $p $tier 2>&1); rc=$?; e=$(date +%s)
  echo "$p rc=$rc $((e-s))s $(echo "$out" | tail -1)"
  echo "$out" | grep -E "^(VIOLATION|KNOWN-FINDING)" | head -5
done

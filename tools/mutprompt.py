#!/usr/bin/env python3
"""tools/mutprompt.py <pid> <n> <test pkgs>: create a scratch worktree /tmp/mut-<pid> of /repo and write
the instructions for an independent mutation sub-agent (property text only, nothing from /verif)
to /tmp/mutprompt-<pid>.txt."""
import json, subprocess, sys, os
pid, n, pkgs = sys.argv[1], int(sys.argv[2]), sys.argv[3]
rnd = os.environ.get("MUT_ROUND", "")   # e.g. "2": second round, told what round 1 already did
root = os.path.dirname(os.path.dirname(os.path.abspath(__file__)))
p = {json.loads(l)['id']: json.loads(l) for l in open(os.path.join(root, 'properties.jsonl'))}[pid]
wt = '/tmp/mut%s-%s' % (rnd, pid)
if not os.path.exists(wt):
    subprocess.check_call(['git', '-C', '/repo', 'worktree', 'add', '-q', '--detach', wt, 'HEAD'])
T = '''You are helping to evaluate a verification effort by producing realistic, subtle BUGS in a Go repository. You have your own scratch git worktree of the repository rogpeppe/go-internal at {wt} (work only there; do not touch /repo or /verif; do not look at /verif at all). Every shell call needs: export GOFLAGS=-mod=mod GOPROXY=off GOSUMDB=off GOTOOLCHAIN=local (there is no network).

The property that the code is supposed to satisfy:

TITLE: {title}
STATEMENT: {statement}
QUANTIFIED OVER: {quant}
CODE ANCHORS: files {files}

Task: produce {n} DIFFERENT changes to the repository's non-test source code, each of which breaks this property while the code still compiles and the existing test suite still passes (`cd {wt} && go build ./... && go test -count=1 {pkgs}` — run the tests of the affected packages and of packages that use them; note that in the unmodified tree cmd/testscript's TestScripts/env_var_with_go and gotooltest's TestSimple already fail offline: ignore those two). Prefer changes that look like plausible mistakes or "harmless refactorings/optimisations" and that need something SPECIFIC to manifest — an unusual input, a particular interleaving, a crash or fault at a particular point, a multi-step sequence of operations, or two cooperating sites that each look fine alone — NOT ones that ordinary use would expose at once. Each change must be small (a few lines) and must touch only files under the anchors (or their direct helpers). Make the {n} changes genuinely different from each other (different mechanism / different part of the property).

For each change i (1..{n}) deliver, under {wt}/_mut/m<i>/ :
 - patch.diff : `git diff` of that change alone against the worktree's HEAD (each patch must apply on its own to a clean checkout with `git apply`);
 - a demonstration: a small Go test file or program (say demo_test.go or demo/main.go placed where it can be run from the worktree root, plus the exact command to run it) that FAILS (or prints a wrong result and exits non-zero) with the change applied and PASSES on the unchanged code; keep it self-contained and deterministic (retry loops are fine for schedule-dependent bugs);
 - meta.json : {{"property": "{pid}", "summary": "...what the change does...", "needs": "...what is needed for it to manifest...", "demo_cmd": "...", "demo_files": ["path relative to worktree root", ...], "tests_run": "...commands you ran and their result..."}}. Copy the demo files into _mut/m<i>/ as well.
Verify yourself, for every change: clean tree → demo passes; apply patch → build OK, existing tests pass, demo fails; then revert (`git checkout -- . && git clean -fdq -e _mut`). Leave the worktree clean except for _mut/. Final answer: a short list of the changes with one line each.'''
import glob
tried = []
for m in sorted(glob.glob(os.path.join(root, 'seeded', pid + '-*', 'meta.json'))):
    d = json.load(open(m))
    tried.append('- ' + ' '.join(str(d.get('summary')).split())[:400])
if rnd and tried:
    T += "\n\nChanges of this kind have ALREADY been produced in an earlier round — do not repeat them or close variants; look for different mechanisms, different functions among the anchors, different parts of the property statement (also the less obvious clauses), and subtler triggers:\n" + "\n".join(tried).replace('{', '{{').replace('}', '}}')
hint = os.environ.get("MUT_HINT")
if hint:
    T += "\n\nAdditional guidance for this round: " + hint.replace('{', '{{').replace('}', '}}')
open('/tmp/mutprompt%s-%s.txt' % (rnd, pid), 'w').write(T.format(wt=wt, title=p['title'], statement=p['statement'],
     quant=p['quantifier']['text'], files=', '.join(p['anchors']['files']), n=n, pid=pid, pkgs=pkgs))
print('/tmp/mutprompt%s-%s.txt' % (rnd, pid))

#!/usr/bin/env python3
"""regenerates MANIFEST.json from props/*.json (the per-property configuration files)."""
import glob, json, os
root = os.path.dirname(os.path.abspath(__file__))
ids = [json.loads(l)["id"] for l in open(os.path.join(root, "properties.jsonl"))]
checks, na = [], []
for pid in ids:
    p = os.path.join(root, "props", pid + ".json")
    if not os.path.exists(p):
        na.append({"property_id": pid, "reason": "not built yet (machinery for this property is still under construction; see DESIGN.md section 6)"})
        continue
    d = json.load(open(p))
    if not d.get("ready"):
        na.append({"property_id": pid, "reason": "check under construction, not yet claimed (see DESIGN.md section 6)"}); continue
    if d.get("not_applicable"):
        na.append({"property_id": pid, "reason": d["not_applicable"]}); continue
    checks.append({
        "property_id": pid,
        "quick_cmd": "./check %s quick" % pid,
        "thorough_cmd": "./check %s thorough" % pid,
        "evidence_file": "/verif/evidence/%s.json" % pid,
        "replay_cmd_template": "./check %s --replay {path}" % pid,
        "engine": "coq-proof+correspondence",
        "level_claimed": {"category": "proof", "text": d.get("level_text", ""), "design_ref": d.get("design_ref", "DESIGN.md section 6, " + pid)},
        "level_note": d.get("level_note", ""),
        "technique": d.get("technique", "machine-checked proof in Coq 8.16 over an executable Gallina model; model tied to /repo by regenerated constants and a differential correspondence run (extracted OCaml model vs Go implementation)"),
    })
m = {
 "version": 1,
 "setup_cmd": "./check setup",
 "hooks": {"guard": "verif", "enable": "no hook is committed to /repo: where a runner must control the scheduler, the clock or the file operations of a repo package (par, cache) it re-reads the package from the checked tree with go/ast on every run, redirects its imports to shims (harness/internal/vsync, harness/vos) and compiles that copy inside the harness module; unmodified binaries are observed and fault-injected with strace; the build tag `verif` is reserved for any future add-only hook file", "baseline_off_cmd": "cd /repo && go test -vet=off -count=1 ./...", "source_commits": [], "add_only": True},
 "engines": [{"name": "coq-proof+correspondence", "path": "/verif/check", "serves_properties": [c["property_id"] for c in checks], "kind_free_text": "Coq 8.16.1 theorems about executable Gallina models (coq/theories): the pure byte-level functions are translated from /repo's Go source on every run (harness/go2coq -> coq/theories/Gen/*Src.v) and proved equal to the hand-written models the theorems are about; the stateful code is hand-modelled, with constants/tables and source fingerprints regenerated from /repo on every run (harness/cmd/genconsts); all models are extracted to OCaml (bin/model_*) and run against the Go implementation by per-property runners (harness/cmd/*) with independent direct oracles"}],
 "checks": checks,
 "not_applicable": na,
 "notes": "See DESIGN.md. ./check <ID> quick|thorough|--replay <file>. Genuine defects repaired by fix: commits are listed in KNOWN_FINDINGS.txt."
}
json.dump(m, open(os.path.join(root, "MANIFEST.json"), "w"), indent=1)
print("claimed:", [c["property_id"] for c in checks]); print("not applicable:", [n["property_id"] for n in na])

(* Gen/DiffSrc.v is diff/diff.go (lines, tgs, Diff) translated to Gallina by harness/go2coq on
   every run.  This file proves that the generated [src_lines] and [src_tgs] return [Ok] of
   exactly what the hand-written model (Diff/Diff.v) computes -- for every input and every
   iteration bound [fuel] of at least [length x + 1] -- and Diff/SrcFactsDiff.v does the same
   for [src_Diff].  The model is over nat with checked index / slice / subtraction, the
   translation over Z with Go's checks: each step of the model that succeeds is matched by the
   corresponding step of the translation on the images of the same values ([zl], [zp]); that
   the model's steps do succeed is what Diff/TgsProofs.v and Diff/DiffProofs.v establish.

   The proofs do not mention generated hypothesis or bound-variable names: each function is
   unfolded, straight-line code is rewritten step by step with the lemmas about the checked
   operations, range loops go by induction on the list, for-loops on the iteration bound. *)
From Coq Require Import List Bool Arith ZArith Lia ZifyBool.
From Coq.Strings Require Import Byte.
From GI Require Import Lib.Bytes Gen.DiffConsts Diff.Diff Diff.DiffSpec Diff.DiffBase Diff.DiffProofs
  Diff.TgsProofs Diff.SrcLib Lib.GoSemExtFacts Lib.GoSemDataFacts Gen.DiffSrc.
From GI Require Import Lib.GoSem Lib.GoSemExt Lib.GoSemData.
Import ListNotations.

(* From here on [res], [Ok], [Panic], [bind] are those of Lib/GoSem.v (the translation); the
   model's are written [Diff.res], [Diff.Ok], ... *)

(* ------------------------------------------------------------------ *)
(* images of the model's values                                        *)

Definition zl (l : list nat) : list Z := map Z.of_nat l.
Definition zp (p : nat * nat) : Z * Z := (Z.of_nat (fst p), Z.of_nat (snd p)).

(* the model's result as a result of the translation *)
Definition res_conv {A B} (f : A -> B) (r : Diff.res A) : res B :=
  match r with Diff.Ok a => Ok (f a) | Diff.Panic => Panic | Diff.OutOfFuel => OutOfFuel end.

Ltac go_red :=
  cbv beta iota zeta;
  cbn [bind bindT bindO bindL negb orb andb fst snd app go_append go_buffer_WriteString go_buffer_Bytes
       go_buffer_empty go_map_empty go_bytes_Equal].

(* ------------------------------------------------------------------ *)
(* the checked operations, when the model's succeed                    *)

Lemma idx_src {A B} (f : A -> B) (l : list A) i a :
  idx l i = Diff.Ok a -> go_index_of (map f l) (Z.of_nat i) = Ok (f a).
Proof.
  intro H. apply idx_Ok_inv in H. now rewrite go_index_of_map_nat, H.
Qed.

Lemma idx_zl (l : list nat) i a : idx l i = Diff.Ok a -> go_index_of (zl l) (Z.of_nat i) = Ok (Z.of_nat a).
Proof. apply idx_src. Qed.

Lemma idx_src_id {A} (l : list A) i a : idx l i = Diff.Ok a -> go_index_of l (Z.of_nat i) = Ok a.
Proof. intro H. apply idx_Ok_inv in H. now rewrite go_index_of_nat, H. Qed.

Lemma upd_Ok_inv {A} (l : list A) : forall i v l',
  upd l i v = Diff.Ok l' -> i < length l /\ l' = firstn i l ++ v :: skipn (S i) l.
Proof.
  induction l as [|a l IH]; intros i v l' H; [discriminate|].
  destruct i as [|i]; cbn [upd] in H.
  - injection H as <-. cbn. split; [lia | reflexivity].
  - destruct (upd l i v) as [r| |] eqn:E; try discriminate. cbn [Diff.bind] in H. injection H as <-.
    destruct (IH _ _ _ E) as [Hl ->]. cbn [length firstn skipn app]. split; [lia | reflexivity].
Qed.

Lemma upd_src {A B} (f : A -> B) (l : list A) i v l' :
  upd l i v = Diff.Ok l' -> go_store_of (map f l) (Z.of_nat i) (f v) = Ok (map f l').
Proof.
  intro H. apply upd_Ok_inv in H as [Hl ->].
  rewrite go_store_of_nat, map_length. destruct (Nat.ltb_spec i (length l)); [|lia].
  now rewrite map_app, firstn_map, skipn_map.
Qed.

Lemma upd_zl (l : list nat) i v l' :
  upd l i v = Diff.Ok l' -> go_store_of (zl l) (Z.of_nat i) (Z.of_nat v) = Ok (zl l').
Proof. apply upd_src. Qed.

Lemma slice_src {A} (l : list A) a b s :
  slice l a b = Diff.Ok s -> go_slice_of l (Z.of_nat a) (Z.of_nat b) = Ok s.
Proof.
  unfold slice. rewrite go_slice_of_nat. destruct ((a <=? b) && (b <=? length l)); [|discriminate].
  now intros [= <-].
Qed.

Lemma sub_chk_Ok a b r : sub_chk a b = Diff.Ok r -> (Z.of_nat a - Z.of_nat b)%Z = Z.of_nat r.
Proof.
  unfold sub_chk. destruct (Nat.ltb_spec a b); [discriminate|]. intros [= <-]. lia.
Qed.

(* ------------------------------------------------------------------ *)
(* lines                                                               *)

Theorem src_lines_eq d : src_lines d = Ok (lines d).
Proof.
  unfold src_lines, go_strings_SplitAfter. go_red.
  rewrite lines_fix_last. unfold NL.
  pose proof (split_after_nonempty x0a d) as Hne.
  destruct (exists_last Hne) as (init & z & ->).
  unfold go_index_of, go_slice_of. rewrite index_of_last, slice_of_init. go_red.
  rewrite fix_last_snoc, len_of_app.
  replace (len_of init + len_of [z] - 1)%Z with (len_of init) by (unfold len_of; cbn [length]; lia).
  rewrite go_store_of_at. destruct z as [|c z]; cbn [bytes_eqb]; go_red.
  - now rewrite app_nil_r.
  - reflexivity.
Qed.

(* ------------------------------------------------------------------ *)
(* tgs: the occurrence map                                             *)

(* the translator's association-list map is the model's smap *)
Lemma go_map_find_mget (m : smap) s : go_map_find m s = mget m s.
Proof. induction m as [|[k v] m IH]; cbn; [reflexivity|]. now rewrite IH. Qed.

Lemma go_map_get_mget0 (m : smap) s : go_map_get 0%Z m s = mget0 m s.
Proof. unfold go_map_get, mget0. now rewrite go_map_find_mget. Qed.

Lemma go_map_set_mset (m : smap) s v : go_map_set m s v = mset m s v.
Proof. induction m as [|[k w] m IH]; cbn; [reflexivity|]. now rewrite IH. Qed.

Lemma src_tgs_loop1_eq (L : Type) fuel l : forall m,
  @src_tgs_loop1 L fuel l m = Ok (Normal (fold_left count_x l m)).
Proof.
  induction l as [|s l IH]; intro m; cbn [src_tgs_loop1 fold_left]; [reflexivity|].
  rewrite go_map_get_mget0, go_map_set_mset, Z.gtb_ltb. unfold count_x at 2.
  destruct (-2 <? mget0 m s)%Z; go_red; apply IH.
Qed.

Lemma src_tgs_loop2_eq (L : Type) fuel l : forall m,
  @src_tgs_loop2 L fuel l m = Ok (Normal (fold_left count_y l m)).
Proof.
  induction l as [|s l IH]; intro m; cbn [src_tgs_loop2 fold_left]; [reflexivity|].
  rewrite go_map_get_mget0, go_map_set_mset, Z.gtb_ltb. unfold count_y at 2.
  destruct (-8 <? mget0 m s)%Z; go_red; apply IH.
Qed.

Lemma zl_app a b : zl (a ++ b) = zl a ++ zl b.
Proof. apply map_app. Qed.

Lemma len_of_zl l : len_of (zl l) = Z.of_nat (length l).
Proof. unfold zl. rewrite len_of_map. reflexivity. Qed.

Lemma src_tgs_loop3_eq (L : Type) fuel ys : forall i m yi,
  @src_tgs_loop3 L fuel ys (Z.of_nat i) m (zl yi) =
  Ok (Normal (fst (gather_y ys i m yi), zl (snd (gather_y ys i m yi)))).
Proof.
  induction ys as [|s ys IH]; intros i m yi; cbn [src_tgs_loop3 gather_y]; [reflexivity|].
  rewrite go_map_get_mget0, go_map_set_mset, len_of_zl.
  replace (Z.of_nat i + 1)%Z with (Z.of_nat (S i)) by lia.
  destruct (mget0 m s =? -5)%Z; go_red.
  - change [Z.of_nat i] with (zl [i]). rewrite <- zl_app. apply IH.
  - apply IH.
Qed.

Lemma src_tgs_loop4_eq (L : Type) fuel m xs : forall i xi inv,
  @src_tgs_loop4 L fuel m xs (Z.of_nat i) (zl xi) (zl inv) =
  Ok (Normal (zl (fst (gather_x xs i m xi inv)), zl (snd (gather_x xs i m xi inv)))).
Proof.
  induction xs as [|s xs IH]; intros i xi inv; cbn [src_tgs_loop4 gather_x]; [reflexivity|].
  rewrite go_map_lookup_get, go_map_find_mget. unfold go_map_get. rewrite go_map_find_mget.
  replace (Z.of_nat i + 1)%Z with (Z.of_nat (S i)) by lia.
  destruct (mget m s) as [j|]; go_red; [|apply IH].
  rewrite Z.geb_leb. destruct (Z.leb_spec 0 j); go_red; [|apply IH].
  change [Z.of_nat i] with (zl [i]). replace [j] with (zl [Z.to_nat j]) by (cbn; now rewrite Z2Nat.id).
  rewrite <- !zl_app. apply IH.
Qed.

(* ------------------------------------------------------------------ *)
(* tgs: the patience arrays                                            *)

(* for i := range T { T[i] = n + 1 } *)
Lemma src_tgs_loop5_eq (L : Type) fuel (v : Z) l : forall (pre rest : list Z),
  length rest = length l ->
  @src_tgs_loop5 L fuel v l (len_of pre) (pre ++ rest) = Ok (Normal (pre ++ repeat (v + 1)%Z (length l))).
Proof.
  induction l as [|a l IH]; intros pre rest H; cbn [src_tgs_loop5].
  - destruct rest; [reflexivity | discriminate].
  - destruct rest as [|b rest]; [discriminate|]. rewrite go_store_of_at. go_red.
    replace (len_of pre + 1)%Z with (len_of (pre ++ [(v + 1)%Z])) by (rewrite len_of_app; reflexivity).
    replace (pre ++ (v + 1)%Z :: rest) with ((pre ++ [(v + 1)%Z]) ++ rest) by (now rewrite <- app_assoc).
    rewrite IH by (cbn in H; lia). cbn [length repeat]. now rewrite <- app_assoc.
Qed.

(* the model's sort_search is the reference loop of GoSemDataFacts.v *)
Lemma search_loop_conv steps (fm : nat -> Diff.res bool) (fn : nat -> res bool) :
  (forall k, fn k = res_conv id (fm k)) ->
  forall i j, search_loop_nat steps fn i j = res_conv id (search_loop steps fm i j).
Proof.
  intro Hf. induction steps as [|s IH]; intros i j; cbn [search_loop_nat search_loop];
    destruct (i <? j); try reflexivity.
  rewrite Hf. destruct (fm (Nat.div2 (i + j))) as [b| |]; cbn [res_conv bind Diff.bind id]; try reflexivity.
  destruct b; cbn [negb]; apply IH.
Qed.

(* k := sort.Search(n, func(k int) bool { return T[k] >= J[i] }), when the model's search succeeds *)
Lemma search_src n (T : list nat) (ji : nat) (zJ : list Z) (zi : Z) k :
  go_index_of zJ zi = Ok (Z.of_nat ji) ->
  sort_search n (fun k => do tk <- idx T k; Diff.Ok (ji <=? tk)) = Diff.Ok k ->
  go_sort_Search (Z.of_nat n)
    (fun zk => bind (go_index_of (zl T) zk) (fun t5 => bind (go_index_of zJ zi) (fun t6 => Ok (t5 >=? t6)%Z))) =
  Ok (Z.of_nat k).
Proof.
  intros HJ H. unfold sort_search in H.
  rewrite (go_sort_Search_nat _ (fun k => res_conv id (do tk <- idx T k; Diff.Ok (ji <=? tk)))).
  - rewrite (search_loop_conv n (fun k => do tk <- idx T k; Diff.Ok (ji <=? tk))) by reflexivity.
    rewrite H. reflexivity.
  - intro t. unfold zl. rewrite go_index_of_map_nat. unfold idx.
    destruct (nth_error T t) as [tk|]; cbn [bind Diff.bind res_conv id]; [|reflexivity].
    rewrite HJ. cbn [bind]. f_equal. unfold id. rewrite Z.geb_leb.
    destruct (Nat.leb_spec ji tk), (Z.leb_spec (Z.of_nat ji) (Z.of_nat tk)); try lia; reflexivity.
Qed.

Lemma src_tgs_loop6_sim (L : Type) fuel n J : forall is T Lv T' L',
  patience is n J T Lv = Diff.Ok (T', L') ->
  @src_tgs_loop6 L fuel (zl J) (Z.of_nat n) (zl is) (zl T) (zl Lv) = Ok (Normal (zl T', zl L')).
Proof.
  induction is as [|i is IH]; intros T Lv T' L' H; cbn [patience] in H.
  - injection H as <- <-. reflexivity.
  - cbn [zl map src_tgs_loop6].
    destruct (idx J i) as [ji| |] eqn:EJ; try discriminate. cbn [Diff.bind] in H.
    destruct (sort_search n _) as [k| |] eqn:ES; try discriminate. cbn [Diff.bind] in H.
    destruct (upd T k ji) as [T1| |] eqn:ET; try discriminate. cbn [Diff.bind] in H.
    destruct (upd Lv i (k + 1)) as [L1| |] eqn:EL; try discriminate. cbn [Diff.bind] in H.
    pose proof (idx_zl _ _ _ EJ) as EJ'.
    rewrite (search_src n T ji (zl J) (Z.of_nat i) k EJ' ES). go_red. rewrite EJ'. go_red.
    rewrite (upd_zl _ _ _ _ ET). go_red.
    replace (Z.of_nat k + 1)%Z with (Z.of_nat (k + 1)) by lia.
    rewrite (upd_zl _ _ _ _ EL). go_red.
    apply (IH _ _ _ _ H).
Qed.

(* k := 0; for _, v := range L { if k < v { k = v } } *)
Lemma src_tgs_loop7_eq (L : Type) fuel l : forall k,
  @src_tgs_loop7 L fuel (zl l) (Z.of_nat k) =
  Ok (Normal (Z.of_nat (fold_left (fun k v => if k <? v then v else k) l k))).
Proof.
  induction l as [|v l IH]; intro k; cbn [zl map src_tgs_loop7 fold_left]; [reflexivity|].
  destruct (Nat.ltb_spec k v), (Z.ltb_spec (Z.of_nat k) (Z.of_nat v)); try lia; go_red; apply IH.
Qed.

(* ------------------------------------------------------------------ *)
(* tgs: the backward reconstruction                                    *)

(* for i := n-1; i >= 0; i-- { if L[i] == k && J[i] < lastj { seq[k] = pair{xi[i], yi[J[i]]}; k-- } }
   The model writes [pred k] for k--; the two agree because every level in L is at least 1, so a
   match never happens at k = 0.  One iteration per index and one to stop. *)
Lemma src_tgs_loop8_sim (L : Type) fuel lastj J Lv xi yi : forall i m k sq sq',
  backward (rev (seq 0 i)) k lastj J Lv xi yi sq = Diff.Ok sq' ->
  (forall t, t < i -> 1 <= nth t Lv 0) -> i + 1 <= m ->
  exists k' i',
    @src_tgs_loop8 L fuel m (zl xi) (zl yi) (zl J) (zl Lv) (Z.of_nat lastj) (Z.of_nat k) (map zp sq)
      (Z.of_nat i - 1)%Z = Ok (Normal (k', map zp sq', i')).
Proof.
  induction i as [|i IH]; intros m k sq sq' H Hpos Hm.
  - cbn in H. injection H as <-. destruct m as [|m]; [lia|]. cbn [src_tgs_loop8].
    change (Z.of_nat 0 - 1 >=? 0)%Z with false. cbv iota. eauto.
  - rewrite rev_seq_S in H. cbn [backward] in H.
    destruct m as [|m]; [lia|]. cbn [src_tgs_loop8].
    replace (Z.of_nat (S i) - 1)%Z with (Z.of_nat i) by lia.
    destruct (Z.geb_spec (Z.of_nat i) 0); [|lia].
    destruct (idx Lv i) as [li| |] eqn:EL; try discriminate. cbn [Diff.bind] in H.
    rewrite (idx_zl _ _ _ EL). go_red.
    assert (Hli : 1 <= li).
    { apply idx_Ok_inv in EL. specialize (Hpos i ltac:(lia)). now rewrite (nth_error_nth _ _ _ EL) in Hpos. }
    assert (Hrest : forall t, t < i -> 1 <= nth t Lv 0) by (intros; apply Hpos; lia).
    destruct (Nat.eqb_spec li k) as [Heq|Hne], (Z.eqb_spec (Z.of_nat li) (Z.of_nat k)); try lia; go_red;
      [subst li|].
    + destruct (idx J i) as [ji| |] eqn:EJ; try discriminate. cbn [Diff.bind] in H.
      rewrite (idx_zl _ _ _ EJ). go_red.
      destruct (Nat.ltb_spec ji lastj), (Z.ltb_spec (Z.of_nat ji) (Z.of_nat lastj)); try lia; go_red.
      * destruct (idx xi i) as [a| |] eqn:Ea; try discriminate. cbn [Diff.bind] in H.
        destruct (idx yi ji) as [b| |] eqn:Eb; try discriminate. cbn [Diff.bind] in H.
        destruct (upd sq k (a, b)) as [sq1| |] eqn:Es; try discriminate. cbn [Diff.bind] in H.
        rewrite (idx_zl _ _ _ Ea). go_red.
        rewrite (idx_zl _ _ _ Eb). go_red.
        change (Z.of_nat a, Z.of_nat b) with (zp (a, b)). rewrite (upd_src zp _ _ _ _ Es). go_red.
        replace (Z.of_nat k - 1)%Z with (Z.of_nat (pred k)) by lia.
        apply (IH m _ _ _ H Hrest). lia.
      * apply (IH m _ _ _ H Hrest). lia.
    + apply (IH m _ _ _ H Hrest). lia.
Qed.

(* ------------------------------------------------------------------ *)
(* tgs                                                                 *)

Lemma zp_repeat m : map zp (repeat (0, 0) m) = repeat (0%Z, 0%Z) m.
Proof. induction m as [|m IH]; cbn; [reflexivity|]. now rewrite IH. Qed.

Lemma zl_repeat v m : zl (repeat v m) = repeat (Z.of_nat v) m.
Proof. induction m as [|m IH]; cbn; [reflexivity|]. unfold zl in IH. now rewrite IH. Qed.

Lemma gather_x_length xs : forall i m xi inv,
  length (fst (gather_x xs i m xi inv)) <= length xi + length xs.
Proof.
  induction xs as [|s xs IH]; intros i m xi inv; cbn [gather_x length fst]; [lia|].
  destruct (mget m s) as [j|]; [destruct (0 <=? j)%Z|];
    match goal with |- context [gather_x xs ?i ?m ?a ?b] => specialize (IH i m a b) end;
    rewrite ?app_length in IH; cbn [length] in IH; lia.
Qed.

(* the number of anchors is at most the number of lines of x *)
Lemma n_le_x x y : TgsProofs.n x y <= length x.
Proof.
  unfold TgsProofs.n, TgsProofs.xi, TgsProofs.xv.
  pose proof (gather_x_length x 0 (m3 x y) [] []) as H. cbn [length] in H. lia.
Qed.

(* the translated tgs returns exactly the model's pairs (as Z), for every iteration bound that
   allows one pass over the anchors *)
Theorem src_tgs_eq fuel x y ms :
  tgs x y = Diff.Ok ms -> length x + 1 <= fuel -> src_tgs fuel x y = Ok (map zp ms).
Proof.
  intros H Hfuel. rewrite tgs_unfold in H.
  destruct (patience_run (TgsProofs.n x y) (TgsProofs.J x y) (J_length x y) (J_lt_n x y) (TgsProofs.n x y) 0 0
              (repeat (TgsProofs.n x y + 1) (TgsProofs.n x y)) (repeat 0 (TgsProofs.n x y)))
    as (T & Lv & f & EP & HP).
  { reflexivity. } { apply PI_init; try apply J_length; try apply J_lt_n. }
  rewrite EP in H. cbn [Diff.bind snd] in H.
  destruct HP as (_ & _ & _ & _ & _ & _ & Plev & _).
  pose proof (n_le_x x y) as Hn.
  unfold src_tgs. go_red.
  rewrite src_tgs_loop1_eq. go_red. rewrite src_tgs_loop2_eq. go_red.
  change (@nil Z) with (zl []).
  rewrite (src_tgs_loop3_eq _ fuel y 0). go_red.
  rewrite (src_tgs_loop4_eq _ fuel _ x 0). go_red.
  change (gather_y y 0 _ []) with (my x y). change (gather_x x 0 _ [] []) with (xv x y).
  change (fst (xv x y)) with (TgsProofs.xi x y). change (snd (xv x y)) with (TgsProofs.J x y).
  change (snd (my x y)) with (TgsProofs.yi x y).
  rewrite len_of_zl. change (length (TgsProofs.xi x y)) with (TgsProofs.n x y).
  set (n := TgsProofs.n x y) in *. set (J := TgsProofs.J x y) in *.
  rewrite !go_make_of_nat. go_red.
  rewrite (src_tgs_loop5_eq _ fuel (Z.of_nat n) (repeat 0%Z n) [] (repeat 0%Z n) eq_refl).
  go_red. rewrite repeat_length, go_int_range_nat.
  replace (Z.of_nat n + 1)%Z with (Z.of_nat (n + 1)) by lia.
  rewrite <- zl_repeat. change (repeat 0%Z n) with (repeat (Z.of_nat 0) n). rewrite <- zl_repeat.
  fold (zl (seq 0 n)). rewrite (src_tgs_loop6_sim _ fuel n J _ _ _ _ _ EP). go_red.
  rewrite (src_tgs_loop7_eq _ fuel Lv 0). go_red. fold (max_level Lv). set (K := max_level Lv) in *.
  replace (2 + Z.of_nat K)%Z with (Z.of_nat (2 + K)) by lia. rewrite go_make_of_nat. go_red.
  destruct (upd (repeat (0, 0) (2 + K)) (1 + K) (length x, length y)) as [sq1| |] eqn:E1; try discriminate.
  cbn [Diff.bind] in H.
  destruct (backward _ K n J Lv _ _ sq1) as [sq2| |] eqn:E2; try discriminate. cbn [Diff.bind] in H.
  rewrite <- zp_repeat. replace (1 + Z.of_nat K)%Z with (Z.of_nat (1 + K)) by lia.
  change (len_of x, len_of y) with (zp (length x, length y)).
  rewrite (upd_src zp _ _ _ _ E1). go_red.
  destruct (src_tgs_loop8_sim unit fuel n J Lv _ _ n fuel K sq1 sq2 E2) as (k' & i' & E8).
  { intros t Ht. apply Plev. assumption. } { lia. }
  rewrite E8. go_red.
  change (0%Z, 0%Z) with (zp (0, 0)). change 0%Z with (Z.of_nat 0) at 1.
  rewrite (upd_src zp _ _ _ _ H). reflexivity.
Qed.

Theorem src_tgs_total fuel x y : length x + 1 <= fuel ->
  exists ms, tgs x y = Diff.Ok ms /\ src_tgs fuel x y = Ok (map zp ms).
Proof.
  intro Hf. destruct (tgs_matches_ok x y) as (ms & E & _). exists ms. split; [exact E|].
  now apply src_tgs_eq.
Qed.

(* C08 — consequences of the context rule [hunk_ctx_ok]: every hunk has a changed line, a side
   with count 0 means that file is empty, consecutive hunks are separated by a common run of at
   least 2*ctxC lines. *)
From Coq Require Import List Bool Arith ZArith Lia.
From Coq.Strings Require Import Byte.
From GI Require Import Lib.Bytes Gen.DiffConsts Diff.Diff Diff.DiffSpec Diff.DiffBase Diff.DiffProofs
  Diff.TgsProofs.
Import ListNotations.

Theorem hunks_ctx : forall x y hs, diff_hunks x y = Ok hs -> Forall (hunk_ctx_ok x y) hs.
Proof. intros x y hs. apply hunks_ctx_partial. apply tgs_ok_true. Qed.

Theorem hunks_wf_all : forall x y hs, diff_hunks x y = Ok hs -> hunks_wf x y hs.
Proof. intros x y hs. apply hunks_wf_partial. apply tgs_ok_true. Qed.

(* the number of at least one context constant the zero-count theorem needs *)
Lemma ctxC_pos : 0 < ctxC.
Proof. unfold ctxC. lia. Qed.

Local Opaque ctxC.

(* ---------------------------------------------------------------- every hunk has a changed line *)

Theorem hunk_has_change : forall x y hs h,
  diff_hunks x y = Ok hs -> In h hs -> has_change (body h) = true.
Proof.
  intros x y hs h E Hin. pose proof (hunks_ctx x y hs E) as Hc.
  rewrite Forall_forall in Hc. destruct (Hc h Hin) as (p & q & lead & inners & trail & _ & _ & R & _).
  eapply runs_has_change. exact R.
Qed.

(* ---------------------------------------------------------------- counting context lines *)

Definition nctx (b : list (tag * line)) : nat := length (filter is_ctx b).

Lemma runs_from_sum b : forall c, fold_right Nat.add 0 (runs_from c b) = c + nctx b.
Proof.
  unfold nctx. induction b as [|t b IH]; intro c; simpl; [lia|].
  destruct (is_ctx t); simpl; rewrite IH; lia.
Qed.

Lemma sum_app l l' : fold_right Nat.add 0 (l ++ l') = fold_right Nat.add 0 l + fold_right Nat.add 0 l'.
Proof. induction l; simpl; lia. Qed.

Lemma nctx_le_sides b : nctx b <= length (old_side b) /\ nctx b <= length (new_side b).
Proof.
  unfold nctx, old_side, new_side, is_ctx. induction b as [|[t l] b IH]; simpl; [lia|].
  destruct t; simpl; rewrite ?map_length in *; simpl; lia.
Qed.

Lemma lead_trail_le b lead inners trail :
  runs b = lead :: inners ++ [trail] -> lead + trail <= nctx b.
Proof.
  intro R. pose proof (runs_from_sum b 0) as S. fold (runs b) in S. rewrite R in S.
  simpl in S. rewrite sum_app in S. simpl in S. lia.
Qed.

Lemma has_change_sides b : has_change b = true -> 1 <= length (old_side b) + length (new_side b).
Proof.
  unfold has_change, old_side, new_side, is_ctx. induction b as [|[t l] b IH]; simpl; [discriminate|].
  destruct t; simpl; rewrite ?map_length in *; simpl; intros; lia.
Qed.

(* ---------------------------------------------------------------- walking the well-formed list *)

(* the facts of [wf_from] about one hunk, at its positions *)
Definition hunk_at (x y : list line) (h : hunk) (p q : nat) : Prop :=
  sx h = pos_of p (cx h) /\ sy h = pos_of q (cy h) /\
  cx h = length (old_side (body h)) /\ cy h = length (new_side (body h)) /\
  p + cx h <= length x /\ q + cy h <= length y /\
  old_side (body h) = sub x p (p + cx h) /\ new_side (body h) = sub y q (q + cy h).

Lemma wf_from_split x y l1 : forall px py h l2,
  wf_from x y px py (l1 ++ h :: l2) ->
  exists px' py' p q, px <= px' /\ py <= py' /\ px' <= p /\ py' <= q /\
    hunk_at x y h p q /\ sub x px' p = sub y py' q /\ p - px' = q - py' /\
    wf_from x y (p + cx h) (q + cy h) l2.
Proof.
  induction l1 as [|h1 l1 IH]; intros px py h l2 W; simpl in W.
  - destruct W as (p & q & A1 & A2 & A3 & A4 & A5 & A6 & A7 & A8 & A9 & A10 & A11 & A12 & W).
    exists px, py, p, q. unfold hunk_at. repeat split; try assumption; lia.
  - destruct W as (p & q & A1 & A2 & A3 & A4 & A5 & A6 & A7 & A8 & A9 & A10 & A11 & A12 & W).
    destruct (IH _ _ _ _ W) as (px' & py' & p' & q' & B1 & B2 & B3 & B4 & B5 & B6 & B7 & B8).
    exists px', py', p', q'. split; [lia|]. split; [lia|]. split; [assumption|]. split; [assumption|].
    split; [assumption|]. split; [assumption|]. split; assumption.
Qed.

Lemma start_pos_pos_of_inv p c s : start_pos (pos_of p c) c = Some s -> s = p.
Proof. rewrite start_pos_pos_of. congruence. Qed.

(* ---------------------------------------------------------------- a side with count 0 *)

(* With at least one context line, a hunk has no old (new) lines only if the old (new) text is
   empty; its printed start is then 0 ("-0,0" / "+0,0", the Go convention for an empty file). *)
Theorem zero_count_side : forall x y hs h,
  diff_hunks x y = Ok hs -> In h hs ->
  (cx h = 0 -> x = [] /\ sx h = 0) /\ (cy h = 0 -> y = [] /\ sy h = 0).
Proof.
  intros x y hs h E Hin.
  pose proof (hunks_ctx x y hs E) as Hc. rewrite Forall_forall in Hc.
  destruct (Hc h Hin) as (p & q & lead & inners & trail & P1 & P2 & R & L1 & L2 & _ & T1 & T2).
  pose proof (hunks_wf_all x y hs E) as W. unfold hunks_wf in W.
  destruct (in_split _ _ Hin) as (l1 & l2 & ->).
  destruct (wf_from_split x y l1 0 0 h l2 W) as (px' & py' & p' & q' & _ & _ & _ & _ & Hat & _).
  destruct Hat as (H1 & H2 & H3 & H4 & H5 & H6 & _ & _).
  rewrite H1 in P1. rewrite H2 in P2.
  apply start_pos_pos_of_inv in P1, P2. subst p q.
  pose proof (lead_trail_le _ _ _ _ R) as LT. pose proof (nctx_le_sides (body h)) as [N1 N2].
  pose proof ctxC_pos as CP.
  split; intro Z.
  - assert (lead = 0 /\ trail = 0) as [-> ->] by lia.
    destruct L2 as [L2 | [L2 _]]; [lia|]. destruct T2 as [T2 | [T2 _]]; [lia|].
    subst p'. split.
    + destruct x; [reflexivity | simpl in T2; lia].
    + rewrite H1, Z. reflexivity.
  - assert (lead = 0 /\ trail = 0) as [-> ->] by lia.
    destruct L2 as [L2 | [_ L2]]; [lia|]. destruct T2 as [T2 | [_ T2]]; [lia|].
    subst q'. split.
    + destruct y; [reflexivity | simpl in T2; lia].
    + rewrite H2, Z. reflexivity.
Qed.

(* ---------------------------------------------------------------- separation of consecutive hunks *)

(* Two consecutive hunks h1, h2: h1 ends with exactly ctxC context lines, h2 starts with exactly
   ctxC context lines, and between them lie g >= 0 further lines that are equal in both texts;
   so the common run between the last change of h1 and the first change of h2 has 2*ctxC + g
   lines — a shorter run would have kept the two changes in one hunk ([inner_ok]). *)
Theorem hunks_separated : forall x y hs l1 h1 h2 l2,
  diff_hunks x y = Ok hs -> hs = l1 ++ h1 :: h2 :: l2 ->
  exists lead1 inners1 inners2 trail2 p1 q1 p2 q2,
    runs (body h1) = lead1 :: inners1 ++ [ctxC] /\
    runs (body h2) = ctxC :: inners2 ++ [trail2] /\
    hunk_at x y h1 p1 q1 /\ hunk_at x y h2 p2 q2 /\
    p1 + cx h1 <= p2 /\ q1 + cy h1 <= q2 /\
    p2 - (p1 + cx h1) = q2 - (q1 + cy h1) /\
    sub x (p1 + cx h1) p2 = sub y (q1 + cy h1) q2.
Proof.
  intros x y hs l1 h1 h2 l2 E ->.
  pose proof (hunks_ctx x y _ E) as Hc. rewrite Forall_forall in Hc.
  pose proof (hunks_wf_all x y _ E) as W. unfold hunks_wf in W.
  destruct (wf_from_split x y l1 0 0 h1 (h2 :: l2) W) as (px1 & py1 & p1 & q1 & _ & _ & _ & _ & Hat1 & _ & _ & W2).
  simpl in W2.
  destruct W2 as (p2 & q2 & A1 & A2 & A3 & A4 & A5 & A6 & A7 & A8 & A9 & A10 & A11 & A12 & _).
  assert (Hat2 : hunk_at x y h2 p2 q2) by (unfold hunk_at; repeat split; assumption).
  destruct (Hc h1) as (p & q & lead1 & inners1 & trail1 & P1 & P2 & R1 & _ & _ & _ & T1 & T2).
  { apply in_or_app. right. left. reflexivity. }
  destruct (Hc h2) as (p' & q' & lead2 & inners2 & trail2 & P1' & P2' & R2 & _ & L2 & _).
  { apply in_or_app. right. right. left. reflexivity. }
  destruct Hat1 as (H1 & H2 & H3 & H4 & H5 & H6 & H7 & H8).
  rewrite H1 in P1. rewrite H2 in P2. apply start_pos_pos_of_inv in P1, P2. subst p q.
  rewrite A5 in P1'. rewrite A6 in P2'. apply start_pos_pos_of_inv in P1', P2'. subst p' q'.
  pose proof (has_change_sides _ (runs_has_change _ _ _ _ R1)) as C1.
  pose proof (has_change_sides _ (runs_has_change _ _ _ _ R2)) as C2.
  assert (trail1 = ctxC) as ->.
  { destruct T2 as [T2 | [T2 T2']]; [assumption | exfalso]. lia. }
  assert (lead2 = ctxC) as ->.
  { destruct L2 as [L2 | [L2 L2']]; [assumption | exfalso]. lia. }
  exists lead1, inners1, inners2, trail2, p1, q1, p2, q2.
  repeat split; try assumption; try lia.
Qed.

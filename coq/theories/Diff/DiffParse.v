(* C08 — a reader of the bytes [render] prints (definitions only).  It is the inverse of
   [render] on the hunks Diff produces ([ParseProofs.v]), so that the printed bytes determine
   the hunks and the patch theorems can be stated about the returned BYTES.
   The hunk header is read with a scanf over the same regenerated format string [fmt_hunk]
   that [render_hunk] prints with; the three header lines are compared with [render_header]. *)
From Coq Require Import List Bool Arith.
From Coq.Strings Require Import Byte.
From GI Require Import Lib.Bytes Gen.DiffConsts Diff.Diff.
Import ListNotations.

(* up to and including the first newline *)
Fixpoint take_line (d : bytes) : option (bytes * bytes) :=
  match d with
  | [] => None
  | b :: r =>
      if beq b NL then Some ([b], r)
      else match take_line r with
           | Some (l, rest) => Some (b :: l, rest)
           | None => None
           end
  end.

(* the text of a chunk line: one line, plus the following line when that starts with a
   backslash (the no-newline marker belongs to the line before it) *)
Definition take_body_line (d : bytes) : option (bytes * bytes) :=
  match take_line d with
  | Some (l, rest) =>
      match rest with
      | c :: _ =>
          if beq c x5c then
            match take_line rest with
            | Some (m, rest') => Some (l ++ m, rest')
            | None => None
            end
          else Some (l, rest)
      | [] => Some (l, rest)
      end
  | None => None
  end.

Definition tag_of_byte (b : byte) : option tag :=
  if beq b x20 then Some TCtx else if beq b x2d then Some TDel else if beq b x2b then Some TAdd else None.

(* chunk lines are read until the counts of the header are used up *)
Fixpoint parse_body (fuel nx ny : nat) (d : bytes) : option (list (tag * line) * bytes) :=
  if (nx =? 0) && (ny =? 0) then Some ([], d) else
  match fuel with
  | 0 => None
  | S fu =>
      match d with
      | t :: r =>
          match tag_of_byte t, take_body_line r with
          | Some tg, Some (l, rest) =>
              let next := fun nx' ny' =>
                match parse_body fu nx' ny' rest with
                | Some (b, rest') => Some ((tg, l) :: b, rest')
                | None => None
                end in
              match tg, nx, ny with
              | TCtx, S nx', S ny' => next nx' ny'
              | TDel, S nx', _ => next nx' ny
              | TAdd, _, S ny' => next nx ny'
              | _, _, _ => None
              end
          | _, _ => None
          end
      | [] => None
      end
  end.

(* %d *)
Definition digit_of (b : byte) : option (Decimal.uint -> Decimal.uint) :=
  match b with
  | x30 => Some Decimal.D0 | x31 => Some Decimal.D1 | x32 => Some Decimal.D2
  | x33 => Some Decimal.D3 | x34 => Some Decimal.D4 | x35 => Some Decimal.D5
  | x36 => Some Decimal.D6 | x37 => Some Decimal.D7 | x38 => Some Decimal.D8
  | x39 => Some Decimal.D9 | _ => None
  end.

Fixpoint read_uint (d : bytes) : Decimal.uint * bytes :=
  match d with
  | b :: r =>
      match digit_of b with
      | Some f => let ur := read_uint r in (f (fst ur), snd ur)
      | None => (Decimal.Nil, d)
      end
  | [] => (Decimal.Nil, [])
  end.

Definition parse_dec (d : bytes) : option (nat * bytes) :=
  match read_uint d with
  | (Decimal.Nil, _) => None
  | (u, rest) => Some (Nat.of_uint u, rest)
  end.

(* the inverse of [sprintf] for formats whose only verbs are %d and %% *)
Fixpoint sscanf (f d : bytes) : option (list nat * bytes) :=
  match f with
  | [] => Some ([], d)
  | c :: r =>
      if beq c x25 then
        match r with
        | v :: r' =>
            if beq v x64 then
              match parse_dec d with
              | Some (n, d') =>
                  match sscanf r' d' with
                  | Some (ns, rest) => Some (n :: ns, rest)
                  | None => None
                  end
              | None => None
              end
            else if beq v x25 then
              match d with
              | b :: d' => if beq b x25 then sscanf r' d' else None
              | [] => None
              end
            else None
        | [] => None
        end
      else
        match d with
        | b :: d' => if beq b c then sscanf r d' else None
        | [] => None
        end
  end.

Definition parse_hunk (d : bytes) : option (hunk * bytes) :=
  match sscanf fmt_hunk d with
  | Some ([a; b; c; e], rest) =>
      match parse_body (b + e) b e rest with
      | Some (bd, rest') => Some (mkHunk a b c e bd, rest')
      | None => None
      end
  | _ => None
  end.

Fixpoint parse_hunks (fuel : nat) (d : bytes) : option (list hunk) :=
  match d with
  | [] => Some []
  | _ =>
      match fuel with
      | 0 => None
      | S fu =>
          match parse_hunk d with
          | Some (h, rest) =>
              match parse_hunks fu rest with
              | Some hs => Some (h :: hs)
              | None => None
              end
          | None => None
          end
      end
  end.

Fixpoint strip_prefix (p d : bytes) : option bytes :=
  match p, d with
  | [], _ => Some d
  | a :: p', b :: d' => if beq a b then strip_prefix p' d' else None
  | _ :: _, [] => None
  end.

Definition parse_render (oldName newName d : bytes) : option (list hunk) :=
  match strip_prefix (render_header oldName newName) d with
  | Some rest => parse_hunks (length rest) rest
  | None => None
  end.

(* applying what Diff returned: nothing to do for the empty output (identical texts) *)
Definition patch_bytes (oldName newName out : bytes) (xs : list line) : option (list line) :=
  match out with
  | [] => Some xs
  | _ => match parse_render oldName newName out with
         | Some hs => apply_hunks xs hs
         | None => None
         end
  end.

Definition unpatch_bytes (oldName newName out : bytes) (ys : list line) : option (list line) :=
  match out with
  | [] => Some ys
  | _ => match parse_render oldName newName out with
         | Some hs => apply_hunks ys (swap_hunks hs)
         | None => None
         end
  end.

(* C08 — tgs is sound: the pairs it returns are in range, strictly increasing in both
   coordinates, and pair a line occurring exactly once in x with its unique occurrence in y.
   Part A: the occurrence-count map.  Part B: xi / yi / inv.  Part C: the patience arrays and
   the binary search.  Part D: the backward reconstruction. *)
From Coq Require Import List Bool Arith ZArith Lia Sorting.Sorted.
From Coq.Strings Require Import Byte.
From GI Require Import Lib.Bytes Gen.DiffConsts Diff.Diff Diff.DiffBase Diff.DiffProofs.
Import ListNotations.

(* ================================================================ Part A: the map *)

Lemma mget_mset m s v s' : mget (mset m s v) s' = if bytes_eqb s s' then Some v else mget m s'.
Proof.
  induction m as [|[k w] m IH]; simpl.
  - reflexivity.
  - destruct (bytes_eqb k s) eqn:Eks; simpl.
    + apply bytes_eqb_true_iff in Eks. subst k. destruct (bytes_eqb s s'); reflexivity.
    + rewrite IH. destruct (bytes_eqb k s') eqn:Eks'; [|reflexivity].
      apply bytes_eqb_true_iff in Eks'. subst k. rewrite bytes_eqb_sym, Eks. reflexivity.
Qed.

Lemma mget0_mset m s v s' : mget0 (mset m s v) s' = if bytes_eqb s s' then v else mget0 m s'.
Proof. unfold mget0. rewrite mget_mset. destruct (bytes_eqb s s'); reflexivity. Qed.

Definition f1 (c : Z) : Z := if (-2 <? c)%Z then (c - 1)%Z else c.
Definition f4 (c : Z) : Z := if (-8 <? c)%Z then (c - 4)%Z else c.

Lemma mget0_count_x m a s : mget0 (count_x m a) s = if bytes_eqb a s then f1 (mget0 m s) else mget0 m s.
Proof.
  unfold count_x, f1. destruct (bytes_eqb a s) eqn:E.
  - apply bytes_eqb_true_iff in E. subst a.
    destruct (-2 <? mget0 m s)%Z; [|reflexivity]. rewrite mget0_mset, bytes_eqb_refl. reflexivity.
  - destruct (-2 <? mget0 m a)%Z; [|reflexivity]. rewrite mget0_mset, E. reflexivity.
Qed.

Lemma mget0_count_y m a s : mget0 (count_y m a) s = if bytes_eqb a s then f4 (mget0 m s) else mget0 m s.
Proof.
  unfold count_y, f4. destruct (bytes_eqb a s) eqn:E.
  - apply bytes_eqb_true_iff in E. subst a.
    destruct (-8 <? mget0 m s)%Z; [|reflexivity]. rewrite mget0_mset, bytes_eqb_refl. reflexivity.
  - destruct (-8 <? mget0 m a)%Z; [|reflexivity]. rewrite mget0_mset, E. reflexivity.
Qed.

Lemma iter_succ_r {A} n (f : A -> A) a : Nat.iter (S n) f a = Nat.iter n f (f a).
Proof. induction n as [|n IH]; [reflexivity|]. simpl in *. rewrite IH. reflexivity. Qed.

Lemma fold_count_x l : forall m s,
  mget0 (fold_left count_x l m) s = Nat.iter (count_line l s) f1 (mget0 m s).
Proof.
  induction l as [|a l IH]; intros m s; simpl; [reflexivity|].
  rewrite IH, mget0_count_x. destruct (bytes_eqb a s); simpl; [|reflexivity].
  rewrite <- iter_succ_r. reflexivity.
Qed.

Lemma fold_count_y l : forall m s,
  mget0 (fold_left count_y l m) s = Nat.iter (count_line l s) f4 (mget0 m s).
Proof.
  induction l as [|a l IH]; intros m s; simpl; [reflexivity|].
  rewrite IH, mget0_count_y. destruct (bytes_eqb a s); simpl; [|reflexivity].
  rewrite <- iter_succ_r. reflexivity.
Qed.

Lemma iter_f1 n : Nat.iter n f1 0%Z = match n with 0 => 0%Z | 1 => (-1)%Z | _ => (-2)%Z end.
Proof.
  destruct n as [|[|n]]; try reflexivity.
  induction n as [|n IH]; [reflexivity|].
  change (Nat.iter (S (S (S n))) f1 0%Z) with (f1 (Nat.iter (S (S n)) f1 0%Z)). rewrite IH. reflexivity.
Qed.

Lemma iter_f4 k c : (-2 <= c <= 0)%Z ->
  Nat.iter k f4 c = match k with 0 => c | 1 => (c - 4)%Z | _ => (c - 8)%Z end.
Proof.
  intro Hc. destruct k as [|[|k]]; try reflexivity.
  - simpl. unfold f4. destruct (Z.ltb_spec (-8) c); lia.
  - induction k as [|k IH].
    + simpl. unfold f4. destruct (Z.ltb_spec (-8) c); [|lia].
      destruct (Z.ltb_spec (-8) (c - 4)); lia.
    + change (Nat.iter (S (S (S k))) f4 c) with (f4 (Nat.iter (S (S k)) f4 c)). rewrite IH.
      unfold f4. destruct (Z.ltb_spec (-8) (c - 8)); lia.
Qed.

Section Tgs.
Variables x y : list line.

Definition m1 : smap := fold_left count_x x [].
Definition m2 : smap := fold_left count_y y m1.

(* "unique": occurs once in x and once in y *)
Definition Ub (s : line) : bool := (count_line x s =? 1) && (count_line y s =? 1).

Lemma m2_unique s : (mget0 m2 s =? -5)%Z = Ub s.
Proof.
  unfold m2, m1. rewrite fold_count_y, fold_count_x. unfold mget0 at 1. simpl mget.
  rewrite iter_f1. unfold Ub.
  set (n := count_line x s). set (k := count_line y s).
  assert (Hc : forall c, (-2 <= c <= 0)%Z ->
     (Nat.iter k f4 c =? -5)%Z = (c =? -1)%Z && (k =? 1)).
  { intros c Hc. rewrite iter_f4 by assumption.
    destruct k as [|[|k']]; simpl.
    - rewrite andb_false_r. apply Z.eqb_neq. lia.
    - rewrite andb_true_r. destruct (Z.eqb_spec c (-1)).
      + subst. reflexivity.
      + apply Z.eqb_neq. lia.
    - rewrite andb_false_r. apply Z.eqb_neq. lia. }
  destruct n as [|[|n']]; rewrite Hc by lia; reflexivity.
Qed.

(* every value stored in m2 is negative *)
Definition negvals (m : smap) : Prop := forall s v, mget m s = Some v -> (v < 0)%Z.

Lemma negvals_mget0 m s : negvals m -> (mget0 m s <= 0)%Z.
Proof. intro H. unfold mget0. destruct (mget m s) eqn:E; [apply H in E|]; lia. Qed.

Lemma negvals_count_x m a : negvals m -> negvals (count_x m a).
Proof.
  intros H s v. unfold count_x. pose proof (negvals_mget0 m a H).
  destruct (-2 <? mget0 m a)%Z; [|apply H].
  rewrite mget_mset. destruct (bytes_eqb a s); [|apply H]. intro E. inversion E. lia.
Qed.

Lemma negvals_count_y m a : negvals m -> negvals (count_y m a).
Proof.
  intros H s v. unfold count_y. pose proof (negvals_mget0 m a H).
  destruct (-8 <? mget0 m a)%Z; [|apply H].
  rewrite mget_mset. destruct (bytes_eqb a s); [|apply H]. intro E. inversion E. lia.
Qed.

Lemma negvals_fold (f : smap -> line -> smap) l : (forall m a, negvals m -> negvals (f m a)) ->
  forall m, negvals m -> negvals (fold_left f l m).
Proof. intro Hf. induction l; simpl; auto. Qed.

Lemma negvals_m2 : negvals m2.
Proof.
  unfold m2, m1. apply negvals_fold; [apply negvals_count_y|].
  apply negvals_fold; [apply negvals_count_x|]. intros s v. discriminate.
Qed.

(* ================================================================ Part B: xi, yi, inv *)

Definition ub_at (l : list line) (p : nat) : bool :=
  match nth_error l p with Some s => Ub s | None => false end.

Lemma filter_seq_S (f : nat -> bool) i :
  filter f (seq 0 (S i)) = filter f (seq 0 i) ++ (if f i then [i] else []).
Proof. rewrite seq_S, filter_app. simpl. destruct (f i); reflexivity. Qed.

(* state of the loop over y after i lines *)
Definition Gy (i : nat) (m : smap) (yi : list nat) : Prop :=
  yi = filter (ub_at y) (seq 0 i) /\
  (forall s, (forall p, p < i -> nth_error y p = Some s -> Ub s = false) -> mget m s = mget m2 s) /\
  (forall p s, p < i -> nth_error y p = Some s -> Ub s = true ->
     exists j, mget m s = Some (Z.of_nat j) /\ nth_error yi j = Some p).

Lemma Ub_y_unique s p q :
  Ub s = true -> nth_error y p = Some s -> nth_error y q = Some s -> p = q.
Proof.
  intros H. apply andb_true_iff in H as [_ H]. apply Nat.eqb_eq in H.
  apply count_line_unique. assumption.
Qed.

Lemma gather_y_spec : forall ys i m yi,
  (forall k, nth_error ys k = nth_error y (i + k)) -> i + length ys = length y ->
  Gy i m yi -> Gy (length y) (fst (gather_y ys i m yi)) (snd (gather_y ys i m yi)).
Proof.
  induction ys as [|s r IH]; intros i m yi Hn Hl HG; simpl in *.
  - replace (length y) with i by lia. assumption.
  - assert (Hs : nth_error y i = Some s) by (rewrite <- (Nat.add_0_r i), <- Hn; reflexivity).
    assert (Hn' : forall k, nth_error r k = nth_error y (S i + k)).
    { intro k. rewrite <- Nat.add_succ_r, <- Hn. reflexivity. }
    destruct HG as (G1 & G2 & G3).
    (* is there an earlier unique occurrence of s?  No: it would be the same index. *)
    assert (Hearly : forall p, p < i -> nth_error y p = Some s -> Ub s = false).
    { intros p Hp Hy. destruct (Ub s) eqn:EU; [|reflexivity].
      pose proof (Ub_y_unique s p i EU Hy Hs). lia. }
    pose proof (G2 s Hearly) as Hm.
    assert (HU : (mget0 m s =? -5)%Z = Ub s).
    { unfold mget0. rewrite Hm. apply m2_unique. }
    destruct (mget0 m s =? -5)%Z eqn:E5.
    + (* s is unique: recorded *)
      symmetry in HU. apply IH; try assumption; try lia.
      split; [|split].
      * rewrite filter_seq_S. unfold ub_at at 2. rewrite Hs, HU, G1. reflexivity.
      * intros s' Hno. rewrite mget_mset.
        destruct (bytes_eqb s s') eqn:Ess'.
        -- apply bytes_eqb_true_iff in Ess'. subst s'.
           rewrite (Hno i) in HU; [discriminate | lia | assumption].
        -- apply G2. intros p Hp. apply Hno. lia.
      * intros p s' Hp Hy HU'. rewrite mget_mset.
        destruct (bytes_eqb s s') eqn:Ess'.
        -- apply bytes_eqb_true_iff in Ess'. subst s'.
           assert (p = i) by (eapply Ub_y_unique; eauto). subst p.
           exists (length yi). split; [reflexivity|].
           rewrite nth_error_app2, Nat.sub_diag by lia. reflexivity.
        -- assert (p <> i). { intro; subst p. rewrite Hs in Hy. inversion Hy; subst.
                              rewrite bytes_eqb_refl in Ess'. discriminate. }
           destruct (G3 p s') as (j & Hj1 & Hj2); try assumption; try lia.
           exists j. split; [assumption|].
           rewrite nth_error_app1; [assumption|]. apply nth_error_Some. congruence.
    + (* not unique *)
      symmetry in HU. apply IH; try assumption; try lia.
      split; [|split].
      * rewrite filter_seq_S. unfold ub_at at 2. rewrite Hs, HU, app_nil_r. assumption.
      * intros s' Hno. apply G2. intros p Hp. apply Hno. lia.
      * intros p s' Hp Hy HU'.
        assert (p <> i). { intro; subst p. rewrite Hs in Hy. inversion Hy; subst. congruence. }
        apply G3; try assumption; lia.
Qed.

Definition my := gather_y y 0 m2 [].
Definition m3 := fst my.
Definition yi := snd my.

Lemma Gy_final : Gy (length y) m3 yi.
Proof.
  unfold m3, yi, my. apply gather_y_spec; try reflexivity.
  split; [reflexivity|]. split.
  - intros; reflexivity.
  - intros p s Hp. lia.
Qed.

Lemma count_line_pos l a : 1 <= count_line l a -> exists i, nth_error l i = Some a.
Proof.
  induction l as [|b r IH]; simpl; intro H; [lia|].
  destruct (bytes_eqb b a) eqn:E.
  - apply bytes_eqb_true_iff in E. subst. exists 0. reflexivity.
  - destruct IH as (i & Hi); [lia|]. exists (S i). assumption.
Qed.

(* the test of the loop over x is exactly "unique" *)
Lemma m3_test s : nth_error x (0 + 0) = nth_error x 0 ->
  match mget m3 s with
  | Some j => if (0 <=? j)%Z then
                Ub s = true /\ exists p, nth_error yi (Z.to_nat j) = Some p /\ nth_error y p = Some s
              else Ub s = false
  | None => Ub s = false
  end.
Proof.
  intros _. destruct Gy_final as (G1 & G2 & G3).
  destruct (Ub s) eqn:EU.
  - assert (Hc : 1 <= count_line y s).
    { unfold Ub in EU. apply andb_true_iff in EU as [_ EU]. apply Nat.eqb_eq in EU. lia. }
    destruct (count_line_pos y s Hc) as (p & Hp).
    destruct (G3 p s) as (j & Hj1 & Hj2); try assumption.
    { apply nth_error_Some. congruence. }
    rewrite Hj1. destruct (Z.leb_spec 0 (Z.of_nat j)); [|lia].
    split; [reflexivity|]. exists p. rewrite Nat2Z.id. split; assumption.
  - rewrite (G2 s); [|intros; assumption].
    destruct (mget m2 s) as [v|] eqn:Ev; [|reflexivity].
    apply negvals_m2 in Ev. destruct (Z.leb_spec 0 v); [lia | reflexivity].
Qed.

(* state of the loop over x after i lines *)
Definition Gx (i : nat) (xi inv : list nat) : Prop :=
  xi = filter (ub_at x) (seq 0 i) /\ length inv = length xi /\
  (forall t q, nth_error xi t = Some q ->
     exists j p s, nth_error inv t = Some j /\ nth_error yi j = Some p /\
       nth_error x q = Some s /\ nth_error y p = Some s /\ Ub s = true).

Lemma gather_x_spec : forall xs i xi inv,
  (forall k, nth_error xs k = nth_error x (i + k)) -> i + length xs = length x ->
  Gx i xi inv ->
  Gx (length x) (fst (gather_x xs i m3 xi inv)) (snd (gather_x xs i m3 xi inv)).
Proof.
  induction xs as [|s r IH]; intros i xi inv Hn Hl HG; simpl in *.
  - replace (length x) with i by lia. assumption.
  - assert (Hs : nth_error x i = Some s) by (rewrite <- (Nat.add_0_r i), <- Hn; reflexivity).
    assert (Hn' : forall k, nth_error r k = nth_error x (S i + k)).
    { intro k. rewrite <- Nat.add_succ_r, <- Hn. reflexivity. }
    destruct HG as (G1 & G2 & G3).
    pose proof (m3_test s eq_refl) as HT.
    assert (Hskip : Ub s = false -> Gx (S i) xi inv).
    { intro HU. split; [|split; assumption].
      rewrite filter_seq_S. unfold ub_at at 2. rewrite Hs, HU, app_nil_r. assumption. }
    destruct (mget m3 s) as [j|]; [|apply IH; auto; lia].
    destruct (0 <=? j)%Z; [|apply IH; auto; lia].
    destruct HT as (HU & p & Hp1 & Hp2).
    apply IH; try assumption; try lia.
    split; [|split].
    + rewrite filter_seq_S. unfold ub_at at 2. rewrite Hs, HU, G1. reflexivity.
    + rewrite !app_length. simpl. lia.
    + intros t q Ht.
      destruct (Nat.lt_ge_cases t (length xi)) as [Hlt | Hge].
      * rewrite nth_error_app1 in Ht by assumption.
        destruct (G3 t q Ht) as (j' & p' & s' & A1 & A2 & A3 & A4 & A5).
        exists j', p', s'. repeat split; try assumption.
        rewrite nth_error_app1; [assumption|]. apply nth_error_Some. congruence.
      * rewrite nth_error_app2 in Ht by assumption.
        destruct (t - length xi) as [|d] eqn:Ed; [|destruct d; discriminate].
        simpl in Ht. inversion Ht; subst q.
        assert (t = length xi) by lia. subst t.
        exists (Z.to_nat j), p, s. repeat split; try assumption.
        rewrite nth_error_app2, G2, Nat.sub_diag by lia. reflexivity.
Qed.

Definition xv := gather_x x 0 m3 [] [].
Definition xi := fst xv.
Definition J := snd xv.

Lemma Gx_final : Gx (length x) xi J.
Proof.
  unfold xi, J, xv. apply gather_x_spec; try reflexivity.
  split; [reflexivity|]. split; [reflexivity|]. intros [|t] q Hq; discriminate.
Qed.

End Tgs.

(* C08 — tgs is sound: the pairs it returns are in range, strictly increasing in both
   coordinates, and pair a line occurring exactly once in x with its unique occurrence in y.
   Part A: the occurrence-count map.  Part B: xi / yi / inv.  Part C: the patience arrays and
   the binary search.  Part D: the backward reconstruction. *)
From Coq Require Import List Bool Arith ZArith Lia Sorting.Sorted.
From Coq.Strings Require Import Byte.
From GI Require Import Lib.Bytes Gen.DiffConsts Diff.Diff Diff.DiffSpec Diff.DiffBase Diff.DiffProofs.
Import ListNotations.

(* ================================================================ Part A: the map *)

Lemma mget_mset m s v s' : mget (mset m s v) s' = if bytes_eqb s s' then Some v else mget m s'.
Proof.
  induction m as [|[k w] m IH]; simpl.
  - reflexivity.
  - destruct (bytes_eqb k s) eqn:Eks; simpl.
    + apply bytes_eqb_true_iff in Eks. subst k. destruct (bytes_eqb s s'); reflexivity.
    + rewrite IH. destruct (bytes_eqb k s') eqn:Eks'; [|reflexivity].
      apply bytes_eqb_true_iff in Eks'. subst k. rewrite bytes_eqb_sym, Eks. reflexivity.
Qed.

Lemma mget0_mset m s v s' : mget0 (mset m s v) s' = if bytes_eqb s s' then v else mget0 m s'.
Proof. unfold mget0. rewrite mget_mset. destruct (bytes_eqb s s'); reflexivity. Qed.

Definition f1 (c : Z) : Z := if (-2 <? c)%Z then (c - 1)%Z else c.
Definition f4 (c : Z) : Z := if (-8 <? c)%Z then (c - 4)%Z else c.

Lemma mget0_count_x m a s : mget0 (count_x m a) s = if bytes_eqb a s then f1 (mget0 m s) else mget0 m s.
Proof.
  unfold count_x, f1. destruct (bytes_eqb a s) eqn:E.
  - apply bytes_eqb_true_iff in E. subst a.
    destruct (-2 <? mget0 m s)%Z; [|reflexivity]. rewrite mget0_mset, bytes_eqb_refl. reflexivity.
  - destruct (-2 <? mget0 m a)%Z; [|reflexivity]. rewrite mget0_mset, E. reflexivity.
Qed.

Lemma mget0_count_y m a s : mget0 (count_y m a) s = if bytes_eqb a s then f4 (mget0 m s) else mget0 m s.
Proof.
  unfold count_y, f4. destruct (bytes_eqb a s) eqn:E.
  - apply bytes_eqb_true_iff in E. subst a.
    destruct (-8 <? mget0 m s)%Z; [|reflexivity]. rewrite mget0_mset, bytes_eqb_refl. reflexivity.
  - destruct (-8 <? mget0 m a)%Z; [|reflexivity]. rewrite mget0_mset, E. reflexivity.
Qed.

Lemma iter_succ_r {A} n (f : A -> A) a : Nat.iter (S n) f a = Nat.iter n f (f a).
Proof. induction n as [|n IH]; [reflexivity|]. simpl in *. rewrite IH. reflexivity. Qed.

Lemma fold_count_x l : forall m s,
  mget0 (fold_left count_x l m) s = Nat.iter (count_line l s) f1 (mget0 m s).
Proof.
  induction l as [|a l IH]; intros m s; simpl; [reflexivity|].
  rewrite IH, mget0_count_x. destruct (bytes_eqb a s); simpl; [|reflexivity].
  rewrite <- iter_succ_r. reflexivity.
Qed.

Lemma fold_count_y l : forall m s,
  mget0 (fold_left count_y l m) s = Nat.iter (count_line l s) f4 (mget0 m s).
Proof.
  induction l as [|a l IH]; intros m s; simpl; [reflexivity|].
  rewrite IH, mget0_count_y. destruct (bytes_eqb a s); simpl; [|reflexivity].
  rewrite <- iter_succ_r. reflexivity.
Qed.

Lemma iter_f1 n : Nat.iter n f1 0%Z = match n with 0 => 0%Z | 1 => (-1)%Z | _ => (-2)%Z end.
Proof.
  destruct n as [|[|n]]; try reflexivity.
  induction n as [|n IH]; [reflexivity|].
  change (Nat.iter (S (S (S n))) f1 0%Z) with (f1 (Nat.iter (S (S n)) f1 0%Z)). rewrite IH. reflexivity.
Qed.

Lemma iter_f4 k c : (-2 <= c <= 0)%Z ->
  Nat.iter k f4 c = match k with 0 => c | 1 => (c - 4)%Z | _ => (c - 8)%Z end.
Proof.
  intro Hc. destruct k as [|[|k]]; try reflexivity.
  - simpl. unfold f4. destruct (Z.ltb_spec (-8) c); lia.
  - induction k as [|k IH].
    + simpl. unfold f4. destruct (Z.ltb_spec (-8) c); [|lia].
      destruct (Z.ltb_spec (-8) (c - 4)); lia.
    + change (Nat.iter (S (S (S k))) f4 c) with (f4 (Nat.iter (S (S k)) f4 c)). rewrite IH.
      unfold f4. destruct (Z.ltb_spec (-8) (c - 8)); lia.
Qed.

Section Tgs.
Variables x y : list line.

Definition m1 : smap := fold_left count_x x [].
Definition m2 : smap := fold_left count_y y m1.

(* "unique": occurs once in x and once in y *)
Definition Ub (s : line) : bool := (count_line x s =? 1) && (count_line y s =? 1).

Lemma m2_unique s : (mget0 m2 s =? -5)%Z = Ub s.
Proof.
  unfold m2, m1. rewrite fold_count_y, fold_count_x. unfold mget0 at 1. simpl mget.
  rewrite iter_f1. unfold Ub.
  set (n := count_line x s). set (k := count_line y s).
  assert (Hc : forall c, (-2 <= c <= 0)%Z ->
     (Nat.iter k f4 c =? -5)%Z = (c =? -1)%Z && (k =? 1)).
  { intros c Hc. rewrite iter_f4 by assumption.
    destruct k as [|[|k']]; simpl.
    - rewrite andb_false_r. apply Z.eqb_neq. lia.
    - rewrite andb_true_r. destruct (Z.eqb_spec c (-1)).
      + subst. reflexivity.
      + apply Z.eqb_neq. lia.
    - rewrite andb_false_r. apply Z.eqb_neq. lia. }
  destruct n as [|[|n']]; rewrite Hc by lia; reflexivity.
Qed.

(* every value stored in m2 is negative *)
Definition negvals (m : smap) : Prop := forall s v, mget m s = Some v -> (v < 0)%Z.

Lemma negvals_mget0 m s : negvals m -> (mget0 m s <= 0)%Z.
Proof. intro H. unfold mget0. destruct (mget m s) eqn:E; [apply H in E|]; lia. Qed.

Lemma negvals_count_x m a : negvals m -> negvals (count_x m a).
Proof.
  intros H s v. unfold count_x. pose proof (negvals_mget0 m a H).
  destruct (-2 <? mget0 m a)%Z; [|apply H].
  rewrite mget_mset. destruct (bytes_eqb a s); [|apply H]. intro E. inversion E. lia.
Qed.

Lemma negvals_count_y m a : negvals m -> negvals (count_y m a).
Proof.
  intros H s v. unfold count_y. pose proof (negvals_mget0 m a H).
  destruct (-8 <? mget0 m a)%Z; [|apply H].
  rewrite mget_mset. destruct (bytes_eqb a s); [|apply H]. intro E. inversion E. lia.
Qed.

Lemma negvals_fold (f : smap -> line -> smap) l : (forall m a, negvals m -> negvals (f m a)) ->
  forall m, negvals m -> negvals (fold_left f l m).
Proof. intro Hf. induction l; simpl; auto. Qed.

Lemma negvals_m2 : negvals m2.
Proof.
  unfold m2, m1. apply negvals_fold; [apply negvals_count_y|].
  apply negvals_fold; [apply negvals_count_x|]. intros s v. discriminate.
Qed.

(* ================================================================ Part B: xi, yi, inv *)

Definition ub_at (l : list line) (p : nat) : bool :=
  match nth_error l p with Some s => Ub s | None => false end.

Lemma filter_seq_S (f : nat -> bool) i :
  filter f (seq 0 (S i)) = filter f (seq 0 i) ++ (if f i then [i] else []).
Proof. rewrite seq_S, filter_app. simpl. destruct (f i); reflexivity. Qed.

(* state of the loop over y after i lines *)
Definition Gy (i : nat) (m : smap) (yi : list nat) : Prop :=
  yi = filter (ub_at y) (seq 0 i) /\
  (forall s, (forall p, p < i -> nth_error y p = Some s -> Ub s = false) -> mget m s = mget m2 s) /\
  (forall p s, p < i -> nth_error y p = Some s -> Ub s = true ->
     exists j, mget m s = Some (Z.of_nat j) /\ nth_error yi j = Some p).

Lemma Ub_y_unique s p q :
  Ub s = true -> nth_error y p = Some s -> nth_error y q = Some s -> p = q.
Proof.
  intros H. apply andb_true_iff in H as [_ H]. apply Nat.eqb_eq in H.
  apply count_line_unique. assumption.
Qed.

Lemma gather_y_spec : forall ys i m yi,
  (forall k, nth_error ys k = nth_error y (i + k)) -> i + length ys = length y ->
  Gy i m yi -> Gy (length y) (fst (gather_y ys i m yi)) (snd (gather_y ys i m yi)).
Proof.
  induction ys as [|s r IH]; intros i m yi Hn Hl HG; simpl in *.
  - replace (length y) with i by lia. assumption.
  - assert (Hs : nth_error y i = Some s) by (rewrite <- (Nat.add_0_r i), <- Hn; reflexivity).
    assert (Hn' : forall k, nth_error r k = nth_error y (S i + k)).
    { intro k. replace (S i + k) with (i + S k) by lia. rewrite <- Hn. reflexivity. }
    destruct HG as (G1 & G2 & G3).
    (* is there an earlier unique occurrence of s?  No: it would be the same index. *)
    assert (Hearly : forall p, p < i -> nth_error y p = Some s -> Ub s = false).
    { intros p Hp Hy. destruct (Ub s) eqn:EU; [|reflexivity].
      pose proof (Ub_y_unique s p i EU Hy Hs). lia. }
    pose proof (G2 s Hearly) as Hm.
    assert (HU : (mget0 m s =? -5)%Z = Ub s).
    { unfold mget0. rewrite Hm. apply m2_unique. }
    destruct (mget0 m s =? -5)%Z eqn:E5.
    + (* s is unique: recorded *)
      symmetry in HU. apply IH; try assumption; try lia.
      split; [|split].
      * rewrite filter_seq_S. unfold ub_at at 2. rewrite Hs, HU, G1. reflexivity.
      * intros s' Hno. rewrite mget_mset.
        destruct (bytes_eqb s s') eqn:Ess'.
        -- apply bytes_eqb_true_iff in Ess'. subst s'.
           rewrite (Hno i) in HU; [discriminate | lia | assumption].
        -- apply G2. intros p Hp. apply Hno. lia.
      * intros p s' Hp Hy HU'. rewrite mget_mset.
        destruct (bytes_eqb s s') eqn:Ess'.
        -- apply bytes_eqb_true_iff in Ess'. subst s'.
           assert (p = i) by (eapply Ub_y_unique; eauto). subst p.
           exists (length yi). split; [reflexivity|].
           rewrite nth_error_app2, Nat.sub_diag by lia. reflexivity.
        -- assert (p <> i). { intro; subst p. rewrite Hs in Hy. inversion Hy; subst.
                              rewrite bytes_eqb_refl in Ess'. discriminate. }
           destruct (G3 p s') as (j & Hj1 & Hj2); try assumption; try lia.
           exists j. split; [assumption|].
           rewrite nth_error_app1; [assumption|]. apply nth_error_Some. congruence.
    + (* not unique *)
      symmetry in HU. apply IH; try assumption; try lia.
      split; [|split].
      * rewrite filter_seq_S. unfold ub_at at 2. rewrite Hs, HU, app_nil_r. assumption.
      * intros s' Hno. apply G2. intros p Hp. apply Hno. lia.
      * intros p s' Hp Hy HU'.
        assert (p <> i). { intro; subst p. rewrite Hs in Hy. inversion Hy; subst. congruence. }
        apply G3; try assumption; lia.
Qed.

Definition my := gather_y y 0 m2 [].
Definition m3 := fst my.
Definition yi := snd my.

Lemma Gy_final : Gy (length y) m3 yi.
Proof.
  unfold m3, yi, my. apply gather_y_spec; try reflexivity.
  split; [reflexivity|]. split.
  - intros; reflexivity.
  - intros p s Hp. lia.
Qed.

Lemma count_line_pos l a : 1 <= count_line l a -> exists i, nth_error l i = Some a.
Proof.
  induction l as [|b r IH]; simpl; intro H; [lia|].
  destruct (bytes_eqb b a) eqn:E.
  - apply bytes_eqb_true_iff in E. subst. exists 0. reflexivity.
  - destruct IH as (i & Hi); [lia|]. exists (S i). assumption.
Qed.

(* the test of the loop over x is exactly "unique" *)
Lemma m3_test s : nth_error x (0 + 0) = nth_error x 0 ->
  match mget m3 s with
  | Some j => if (0 <=? j)%Z then
                Ub s = true /\ exists p, nth_error yi (Z.to_nat j) = Some p /\ nth_error y p = Some s
              else Ub s = false
  | None => Ub s = false
  end.
Proof.
  intros _. destruct Gy_final as (G1 & G2 & G3).
  destruct (Ub s) eqn:EU.
  - assert (Hc : 1 <= count_line y s).
    { unfold Ub in EU. apply andb_true_iff in EU as [_ EU]. apply Nat.eqb_eq in EU. lia. }
    destruct (count_line_pos y s Hc) as (p & Hp).
    destruct (G3 p s) as (j & Hj1 & Hj2); try assumption.
    { apply nth_error_Some. congruence. }
    rewrite Hj1. destruct (Z.leb_spec 0 (Z.of_nat j)); [|lia].
    split; [reflexivity|]. exists p. rewrite Nat2Z.id. split; assumption.
  - rewrite (G2 s); [|intros; assumption].
    destruct (mget m2 s) as [v|] eqn:Ev; [|reflexivity].
    apply negvals_m2 in Ev. destruct (Z.leb_spec 0 v); [lia | reflexivity].
Qed.

(* state of the loop over x after i lines *)
Definition Gx (i : nat) (xi inv : list nat) : Prop :=
  xi = filter (ub_at x) (seq 0 i) /\ length inv = length xi /\
  (forall t q, nth_error xi t = Some q ->
     exists j p s, nth_error inv t = Some j /\ nth_error yi j = Some p /\
       nth_error x q = Some s /\ nth_error y p = Some s /\ Ub s = true).

Lemma gather_x_spec : forall xs i xi inv,
  (forall k, nth_error xs k = nth_error x (i + k)) -> i + length xs = length x ->
  Gx i xi inv ->
  Gx (length x) (fst (gather_x xs i m3 xi inv)) (snd (gather_x xs i m3 xi inv)).
Proof.
  induction xs as [|s r IH]; intros i xi inv Hn Hl HG; simpl in *.
  - replace (length x) with i by lia. assumption.
  - assert (Hs : nth_error x i = Some s) by (rewrite <- (Nat.add_0_r i), <- Hn; reflexivity).
    assert (Hn' : forall k, nth_error r k = nth_error x (S i + k)).
    { intro k. replace (S i + k) with (i + S k) by lia. rewrite <- Hn. reflexivity. }
    destruct HG as (G1 & G2 & G3).
    pose proof (m3_test s eq_refl) as HT.
    assert (Hskip : Ub s = false -> Gx (S i) xi inv).
    { intro HU. split; [|split; assumption].
      rewrite filter_seq_S. unfold ub_at at 2. rewrite Hs, HU, app_nil_r. assumption. }
    destruct (mget m3 s) as [j|]; [|apply IH; auto; lia].
    destruct (0 <=? j)%Z; [|apply IH; auto; lia].
    destruct HT as (HU & p & Hp1 & Hp2).
    apply IH; try assumption; try lia.
    split; [|split].
    + rewrite filter_seq_S. unfold ub_at at 2. rewrite Hs, HU, G1. reflexivity.
    + rewrite !app_length. simpl. lia.
    + intros t q Ht.
      destruct (Nat.lt_ge_cases t (length xi)) as [Hlt | Hge].
      * rewrite nth_error_app1 in Ht by assumption.
        destruct (G3 t q Ht) as (j' & p' & s' & A1 & A2 & A3 & A4 & A5).
        exists j', p', s'. repeat split; try assumption.
        rewrite nth_error_app1; [assumption|]. apply nth_error_Some. congruence.
      * rewrite nth_error_app2 in Ht by assumption.
        destruct (t - length xi) as [|d] eqn:Ed; [|destruct d; discriminate].
        simpl in Ht. inversion Ht; subst q.
        assert (t = length xi) by lia. subst t.
        exists (Z.to_nat j), p, s. repeat split; try assumption.
        rewrite nth_error_app2, G2, Nat.sub_diag by lia. reflexivity.
Qed.

Definition xv := gather_x x 0 m3 [] [].
Definition xi := fst xv.
Definition J := snd xv.

Lemma Gx_final : Gx (length x) xi J.
Proof.
  unfold xi, J, xv. apply gather_x_spec; try reflexivity.
  split; [reflexivity|]. split; [reflexivity|]. intros [|t] q Hq; discriminate.
Qed.

(* ---------------------------------------------------------------- what the later phases use *)

Definition n := length xi.

Lemma J_length : length J = n.
Proof. destruct Gx_final as (_ & H & _). exact H. Qed.

Lemma filter_seq_sorted (f : nat -> bool) k : forall a, StronglySorted lt (filter f (seq a k)).
Proof.
  induction k as [|k IH]; intro a; simpl; [constructor|].
  assert (Hall : Forall (lt a) (filter f (seq (S a) k))).
  { apply Forall_forall. intros b Hb. apply filter_In in Hb as [Hb _]. apply in_seq in Hb. lia. }
  destruct (f a); [constructor|]; auto.
Qed.

Lemma sorted_nth l : StronglySorted lt l ->
  forall i j, i < j -> j < length l -> nth i l 0 < nth j l 0.
Proof.
  induction 1 as [|a l Hs IH Hf]; intros i j Hij Hj; simpl in *; [lia|].
  destruct j as [|j]; [lia|]. destruct i as [|i].
  - rewrite Forall_forall in Hf. apply Hf. apply nth_In. lia.
  - apply IH; lia.
Qed.

Lemma xi_incr t t' : t < t' -> t' < n -> nth t xi 0 < nth t' xi 0.
Proof.
  intros. apply sorted_nth; try assumption.
  destruct Gx_final as (-> & _). apply filter_seq_sorted.
Qed.

Lemma yi_incr j j' : j < j' -> j' < length yi -> nth j yi 0 < nth j' yi 0.
Proof.
  intros. apply sorted_nth; try assumption.
  destruct Gy_final as (-> & _). apply filter_seq_sorted.
Qed.

(* the t-th pair joins a unique line of x with its occurrence in y *)
Lemma tri t : t < n ->
  exists s, nth t J 0 < length yi /\
    nth_error x (nth t xi 0) = Some s /\ nth_error y (nth (nth t J 0) yi 0) = Some s /\ Ub s = true.
Proof.
  intro Ht. destruct Gx_final as (_ & _ & G3).
  destruct (G3 t (nth t xi 0)) as (j & p & s & A1 & A2 & A3 & A4 & A5).
  { apply nth_error_nth'. exact Ht. }
  exists s. rewrite (nth_error_nth _ _ 0 A1), (nth_error_nth _ _ 0 A2).
  repeat split; try assumption. apply nth_error_Some. congruence.
Qed.

Lemma NoDup_map_on {A B} (f : A -> B) l :
  NoDup l -> (forall a b, In a l -> In b l -> f a = f b -> a = b) -> NoDup (map f l).
Proof.
  induction 1 as [|a l Hn Hd IH]; intro Hinj; simpl; constructor.
  - intro Hin. apply in_map_iff in Hin as (b & Hb1 & Hb2).
    assert (b = a) by (apply Hinj; simpl; auto). subst. contradiction.
  - apply IH. intros; apply Hinj; simpl; auto.
Qed.

Lemma in_index_filter (l : list line) p :
  In p (filter (ub_at l) (seq 0 (length l))) <->
  exists s, nth_error l p = Some s /\ Ub s = true.
Proof.
  rewrite filter_In, in_seq. unfold ub_at. split.
  - intros [H1 H2]. destruct (nth_error l p) as [s|]; [|discriminate]. eauto.
  - intros (s & H1 & H2). rewrite H1. split; [|assumption].
    assert (p < length l) by (apply nth_error_Some; congruence). lia.
Qed.

Lemma yi_le_n : length yi <= n.
Proof.
  unfold n.
  rewrite <- (map_length (fun p => nth p y []) yi), <- (map_length (fun q => nth q x []) xi).
  destruct Gy_final as (Ey & _). destruct Gx_final as (Ex & _).
  apply NoDup_incl_length.
  - apply NoDup_map_on.
    + rewrite Ey. apply NoDup_filter, seq_NoDup.
    + intros a b Ha Hb E. rewrite Ey in Ha, Hb.
      apply in_index_filter in Ha as (sa & Ha1 & Ha2). apply in_index_filter in Hb as (sb & Hb1 & Hb2).
      cbv beta in E.
      assert (sa = sb).
      { rewrite <- (nth_error_nth _ _ [] Ha1), <- (nth_error_nth _ _ [] Hb1). exact E. }
      subst sb.
      eapply Ub_y_unique; eauto.
  - intros s Hs. apply in_map_iff in Hs as (p & Hp1 & Hp2). rewrite Ey in Hp2.
    apply in_index_filter in Hp2 as (s' & Hs1 & Hs2).
    cbv beta in Hp1.
    assert (s' = s) by (rewrite <- (nth_error_nth _ _ [] Hs1); exact Hp1).
    subst s'.
    assert (Hc : 1 <= count_line x s).
    { unfold Ub in Hs2. apply andb_true_iff in Hs2 as [Hs2 _]. apply Nat.eqb_eq in Hs2. lia. }
    destruct (count_line_pos x s Hc) as (q & Hq).
    apply in_map_iff. exists q. split; [apply (nth_error_nth _ _ [] Hq)|].
    rewrite Ex. apply in_index_filter. eauto.
Qed.

Lemma J_lt_n t : t < n -> nth t J 0 < n.
Proof. intro Ht. destruct (tri t Ht) as (s & H & _). pose proof yi_le_n. lia. Qed.

(* the pair a slot of the result holds *)
Definition pr (t : nat) : nat * nat := (nth t xi 0, nth (nth t J 0) yi 0).

Lemma pr_anchor_ok t : t < n -> anchor_ok x y (pr t) = true.
Proof.
  intro Ht. destruct (tri t Ht) as (s & _ & A1 & A2 & A3).
  unfold anchor_ok, pr. simpl. rewrite A1, A2, bytes_eqb_refl. exact A3.
Qed.

Lemma pr_lt t t' : t < t' -> t' < n -> nth t J 0 < nth t' J 0 ->
  fst (pr t) < fst (pr t') /\ snd (pr t) < snd (pr t').
Proof.
  intros H1 H2 H3. unfold pr. simpl. split.
  - apply xi_incr; assumption.
  - apply yi_incr; [assumption|]. destruct (tri t' H2) as (s & H & _). exact H.
Qed.

End Tgs.

(* ================================================================ Part C: binary search and patience arrays *)

Lemma div2_mid lo hi : lo < hi -> lo <= Nat.div2 (lo + hi) /\ Nat.div2 (lo + hi) < hi.
Proof.
  intro H. rewrite Nat.div2_div. split.
  - apply Nat.div_le_lower_bound; lia.
  - apply Nat.div_lt_upper_bound; lia.
Qed.

(* sort.Search on a monotone predicate returns the least index satisfying it (or the bound) *)
Lemma search_loop_spec (m : nat) (f : nat -> res bool) (p : nat -> bool) :
  (forall k, k < m -> f k = Ok (p k)) ->
  (forall k k', k <= k' -> k' < m -> p k = true -> p k' = true) ->
  forall fuel lo hi, hi <= m -> lo <= hi -> hi - lo <= fuel ->
    (forall k, k < lo -> p k = false) -> (forall k, hi <= k -> k < m -> p k = true) ->
    exists r, search_loop fuel f lo hi = Ok r /\ lo <= r /\ r <= hi /\
      (forall k, k < r -> p k = false) /\ (forall k, r <= k -> k < m -> p k = true).
Proof.
  intros Hf Hmono. induction fuel as [|fu IH]; intros lo hi H1 H2 H3 H4 H5.
  - assert (lo = hi) by lia. subst. simpl. rewrite Nat.ltb_irrefl.
    exists hi. repeat split; auto.
  - simpl. destruct (Nat.ltb_spec lo hi) as [Hlt | Hge].
    + destruct (div2_mid lo hi Hlt) as [M1 M2]. set (h := Nat.div2 (lo + hi)) in *.
      rewrite Hf by lia. simpl. destruct (p h) eqn:Ep; simpl.
      * destruct (IH lo h) as (r & Er & R1 & R2 & R3 & R4); try lia; try assumption.
        { intros k Hk Hkm. apply (Hmono h k); assumption. }
        exists r. repeat split; try assumption; lia.
      * destruct (IH (h + 1) hi) as (r & Er & R1 & R2 & R3 & R4); try lia; try assumption.
        { intros k Hk. destruct (p k) eqn:Epk; [|reflexivity].
          rewrite (Hmono k h) in Ep; [discriminate | lia | lia | assumption]. }
        exists r. repeat split; try assumption; lia.
    + assert (lo = hi) by lia. subst. exists hi. repeat split; auto.
Qed.

Lemma nth_repeat_lt {A} (a d : A) m l : l < m -> nth l (repeat a m) d = a.
Proof. revert l. induction m as [|m IH]; intros [|l] H; simpl; try lia; auto. apply IH. lia. Qed.

Section Patience.
Variable n : nat.
Variable J : list nat.
Hypothesis J_len : length J = n.
Hypothesis J_lt : forall t, t < n -> nth t J 0 < n.

(* after the first i elements: f levels are in use; T is strictly increasing on its first f
   entries and n+1 beyond; T[l] is the J-value of the latest index of level l+1; every processed
   index of level >= 2 has, as its latest predecessor of the level below, one with a smaller
   J-value *)
Definition PI (i f : nat) (T L : list nat) : Prop :=
  length T = n /\ length L = n /\ f <= i /\
  (forall l l', l < l' -> l' < f -> nth l T 0 < nth l' T 0) /\
  (forall l, f <= l -> l < n -> nth l T 0 = n + 1) /\
  (forall l, l < f -> exists t, t < i /\ nth t L 0 = l + 1 /\ nth l T 0 = nth t J 0 /\
       forall t', t < t' -> t' < i -> nth t' L 0 <> l + 1) /\
  (forall t, t < i -> 1 <= nth t L 0 /\ nth t L 0 <= f) /\
  (forall t, t < i -> 2 <= nth t L 0 -> exists t', t' < t /\ nth t' L 0 = nth t L 0 - 1 /\
       nth t' J 0 < nth t J 0 /\
       forall t'', t' < t'' -> t'' < t -> nth t'' L 0 <> nth t L 0 - 1).

Lemma patience_step i f T L : PI i f T L -> i < n ->
  exists k T' L' f',
    sort_search n (fun k => do tk <- idx T k; Ok (nth i J 0 <=? tk)) = Ok k /\
    upd T k (nth i J 0) = Ok T' /\ upd L i (k + 1) = Ok L' /\ PI (S i) f' T' L'.
Proof.
  intros (PT & PL & Pf & Pinc & Pinf & Plat & Plev & Ppred) Hi.
  set (ji := nth i J 0). assert (Hji : ji < n) by (apply J_lt; assumption).
  set (p := fun k => ji <=? nth k T 0).
  assert (Tval : forall l, l < f -> nth l T 0 < n).
  { intros l Hl. destruct (Plat l Hl) as (t & Ht & _ & E & _). rewrite E. apply J_lt. lia. }
  assert (Hmono : forall k k', k <= k' -> k' < n -> p k = true -> p k' = true).
  { unfold p. intros k k' Hk Hk' Hp. apply Nat.leb_le in Hp. apply Nat.leb_le.
    destruct (Nat.eq_dec k k'); [subst; assumption|].
    destruct (Nat.lt_ge_cases k' f).
    - specialize (Pinc k k' ltac:(lia) ltac:(lia)). lia.
    - rewrite (Pinf k') by lia. lia. }
  destruct (search_loop_spec n (fun k => do tk <- idx T k; Ok (ji <=? tk)) p) with (fuel := n) (lo := 0) (hi := n)
    as (r & Er & _ & _ & R3 & R4); try lia; try assumption.
  { intros k Hk. rewrite (idx_ok T k 0) by lia. reflexivity. }
  assert (Hrf : r <= f).
  { destruct (Nat.le_gt_cases r f); [assumption|exfalso].
    specialize (R3 f ltac:(lia)). unfold p in R3. rewrite (Pinf f) in R3 by lia.
    apply Nat.leb_gt in R3. lia. }
  assert (A : forall l, l < r -> nth l T 0 < ji).
  { intros l Hl. specialize (R3 l Hl). unfold p in R3. apply Nat.leb_gt in R3. assumption. }
  assert (B : r < f -> ji <= nth r T 0).
  { intro Hr. specialize (R4 r ltac:(lia) ltac:(lia)). unfold p in R4. apply Nat.leb_le in R4. assumption. }
  destruct (upd_ok T r ji) as (T' & ET & HTl & HT'); [lia|].
  destruct (upd_ok L i (r + 1)) as (L' & EL & HLl & HL'); [lia|].
  assert (HTne : forall j, j <> r -> nth j T' 0 = nth j T 0).
  { intros j Hj. rewrite HT'. destruct (Nat.eqb_spec j r); [contradiction | reflexivity]. }
  assert (HTeq : nth r T' 0 = ji) by (rewrite HT', Nat.eqb_refl; reflexivity).
  assert (HLne : forall j, j <> i -> nth j L' 0 = nth j L 0).
  { intros j Hj. rewrite HL'. destruct (Nat.eqb_spec j i); [contradiction | reflexivity]. }
  assert (HLeq : nth i L' 0 = r + 1) by (rewrite HL', Nat.eqb_refl; reflexivity).
  exists r, T', L', (if r =? f then S f else f).
  split; [exact Er|]. split; [exact ET|]. split; [exact EL|].
  assert (Hf' : (r = f /\ (if r =? f then S f else f) = S f) \/ (r < f /\ (if r =? f then S f else f) = f)).
  { destruct (Nat.eqb_spec r f); [left | right]; split; auto; lia. }
  set (f' := if r =? f then S f else f) in *. clearbody f'.
  unfold PI. split; [lia|]. split; [lia|]. split; [lia|].
  split; [|split; [|split; [|split]]].
  - (* strictly increasing *)
    intros l l' Hll' Hl'.
    destruct (Nat.eq_dec l r) as [-> | Hlr], (Nat.eq_dec l' r) as [-> | Hl'r].
    + lia.
    + rewrite HTeq, (HTne l') by assumption.
      destruct Hf' as [[E1 E2] | [E1 E2]]; [lia|].
      specialize (Pinc r l' ltac:(lia) ltac:(lia)). specialize (B E1). lia.
    + rewrite HTeq, (HTne l) by assumption. apply A. lia.
    + rewrite (HTne l), (HTne l') by assumption. apply Pinc; lia.
  - intros l Hl Hln. rewrite HTne by lia. apply Pinf; lia.
  - (* latest index of each level *)
    intros l Hl. destruct (Nat.eq_dec l r) as [-> | Hlr].
    + exists i. split; [lia|]. split; [exact HLeq|]. split; [exact HTeq|]. intros; lia.
    + destruct (Plat l) as (t & Ht & E1 & E2 & E3); [lia|].
      exists t. split; [lia|]. rewrite HLne, HTne by lia. split; [assumption|]. split; [assumption|].
      intros t' H1 H2. destruct (Nat.eq_dec t' i) as [-> | Hne].
      * rewrite HLeq. lia.
      * rewrite HLne by assumption. apply E3; lia.
  - intros t Ht. destruct (Nat.eq_dec t i) as [-> | Hne].
    + rewrite HLeq. lia.
    + rewrite HLne by assumption. specialize (Plev t ltac:(lia)). lia.
  - (* predecessors *)
    intros t Ht H2. destruct (Nat.eq_dec t i) as [-> | Hne].
    + rewrite HLeq in *.
      destruct (Plat (r - 1)) as (t' & Ht' & E1 & E2 & E3); [lia|].
      exists t'. split; [lia|]. rewrite HLne by lia. split; [lia|]. split.
      * rewrite <- E2. apply A. lia.
      * intros t'' H3 H4. rewrite HLne by lia. specialize (E3 t'' H3 H4). lia.
    + rewrite HLne in * by assumption.
      destruct (Ppred t) as (t' & Ht' & E1 & E2 & E3); [lia | assumption |].
      exists t'. split; [assumption|]. rewrite HLne by lia. split; [assumption|]. split; [assumption|].
      intros t'' H3 H4. rewrite HLne by lia. apply E3; assumption.
Qed.

Lemma patience_run : forall k i f T L, i + k = n -> PI i f T L ->
  exists T' L' f', patience (seq i k) n J T L = Ok (T', L') /\ PI n f' T' L'.
Proof.
  induction k as [|k IH]; intros i f T L Hik HP; simpl.
  - replace n with i by lia. eauto.
  - rewrite (idx_ok J i 0) by lia. simpl.
    destruct (patience_step i f T L HP) as (r & T' & L' & f' & Es & ET & EL & HP'); [lia|].
    rewrite Es. simpl. rewrite ET. simpl. rewrite EL. simpl.
    apply (IH (S i) f'); [lia | assumption].
Qed.

Lemma PI_init : PI 0 0 (repeat (n + 1) n) (repeat 0 n).
Proof.
  unfold PI. rewrite !repeat_length.
  split; [reflexivity|]. split; [reflexivity|]. split; [lia|].
  split; [intros; lia|]. split; [intros; apply nth_repeat_lt; assumption|].
  split; [intros; lia|]. split; intros; lia.
Qed.

End Patience.

(* ================================================================ Part D: the backward reconstruction *)

Lemma max_level_fold L : forall k0,
  k0 <= fold_left (fun k v => if k <? v then v else k) L k0 /\
  (forall v, In v L -> v <= fold_left (fun k v => if k <? v then v else k) L k0) /\
  (fold_left (fun k v => if k <? v then v else k) L k0 = k0 \/
   In (fold_left (fun k v => if k <? v then v else k) L k0) L).
Proof.
  induction L as [|a L IH]; intro k0; simpl.
  - split; [lia|]. split; [intros v []|]. left. reflexivity.
  - destruct (IH (if k0 <? a then a else k0)) as (H1 & H2 & H3).
    set (K := fold_left (fun k v => if k <? v then v else k) L (if k0 <? a then a else k0)) in *.
    destruct (Nat.ltb_spec k0 a).
    + split; [lia|]. split.
      * intros v [<- | Hv]; [lia | apply H2; assumption].
      * destruct H3 as [H3 | H3]; right; [left; congruence | right; assumption].
    + split; [lia|]. split.
      * intros v [<- | Hv]; [lia | apply H2; assumption].
      * destruct H3 as [H3 | H3]; [left; assumption | right; right; assumption].
Qed.

Lemma max_level_ge L t : t < length L -> nth t L 0 <= max_level L.
Proof. intro H. apply (max_level_fold L 0). apply nth_In. assumption. Qed.

Lemma max_level_attained L : max_level L = 0 \/ exists t, t < length L /\ nth t L 0 = max_level L.
Proof.
  destruct (max_level_fold L 0) as (_ & _ & [H | H]); [left; exact H|].
  right. destruct (In_nth _ _ 0 H) as (t & Ht & E). eauto.
Qed.


Section Backward.
Variable n : nat.
Variables J L xi yi : list nat.
Variable e : nat * nat.
Hypothesis J_len : length J = n.
Hypothesis L_len : length L = n.
Hypothesis xi_len : length xi = n.
Hypothesis J_lt : forall t, t < n -> nth t J 0 < n.
Hypothesis Jy : forall t, t < n -> nth t J 0 < length yi.
Hypothesis Lv : forall t, t < n -> 1 <= nth t L 0.
Hypothesis PP : forall t, t < n -> 2 <= nth t L 0 ->
  exists t', t' < t /\ nth t' L 0 = nth t L 0 - 1 /\ nth t' J 0 < nth t J 0 /\
    forall t'', t' < t'' -> t'' < t -> nth t'' L 0 <> nth t L 0 - 1.

Definition prB (t : nat) : nat * nat := (nth t xi 0, nth (nth t J 0) yi 0).
Hypothesis prB_lt : forall t t', t < t' -> t' < n -> nth t J 0 < nth t' J 0 -> lt2 (prB t) (prB t').

Definition K := max_level L.
Definition d0 : nat * nat := (0, 0).

(* indices i-1 .. 0 are still to be scanned; slots k+1 .. K are filled *)
Definition BI (i k : nat) (sq : list (nat * nat)) : Prop :=
  length sq = K + 2 /\ k <= K /\
  (forall l, k < l -> l <= K -> exists t, t < n /\ nth l sq d0 = prB t) /\
  (forall l, k < l -> l < K -> lt2 (nth l sq d0) (nth (S l) sq d0)) /\
  nth (K + 1) sq d0 = e /\
  (k < K -> exists t, i <= t /\ t < n /\ nth t L 0 = k + 1 /\ nth (k + 1) sq d0 = prB t /\
            forall t', i <= t' -> t' < t -> nth t' L 0 <> k) /\
  (k = K -> forall t, i <= t -> t < n -> nth t L 0 <> K).

Lemma rev_seq_S i : rev (seq 0 (S i)) = i :: rev (seq 0 i).
Proof. rewrite seq_S, rev_app_distr. reflexivity. Qed.

Lemma backward_run : forall i k sq, i <= n -> BI i k sq ->
  exists sq' k', backward (rev (seq 0 i)) k n J L xi yi sq = Ok sq' /\ BI 0 k' sq'.
Proof.
  induction i as [|i IH]; intros k sq Hi HB.
  - simpl. eauto.
  - rewrite rev_seq_S. simpl.
    destruct HB as (B1 & B2 & B3 & B4 & B5 & B6 & B7).
    rewrite (idx_ok L i 0) by lia. simpl.
    destruct (Nat.eqb_spec (nth i L 0) k) as [Ek | Nk].
    + (* slot k is filled with the pair of index i *)
      pose proof (Lv i ltac:(lia)) as Hk1.
      rewrite (idx_ok J i 0) by lia. simpl.
      destruct (Nat.ltb_spec (nth i J 0) n) as [_ | Hbad]; [|specialize (J_lt i ltac:(lia)); lia].
      rewrite (idx_ok xi i 0) by lia. simpl.
      rewrite (idx_ok yi (nth i J 0) 0) by (apply Jy; lia). simpl.
      destruct (upd_ok sq k (nth i xi 0, nth (nth i J 0) yi 0)) as (sq' & Eu & Hl' & Hn'); [lia|].
      rewrite Eu. simpl.
      assert (Hne : forall j, j <> k -> nth j sq' d0 = nth j sq d0).
      { intros j Hj. rewrite Hn'. destruct (Nat.eqb_spec j k); [contradiction | reflexivity]. }
      assert (Heq : nth k sq' d0 = prB i) by (rewrite Hn', Nat.eqb_refl; reflexivity).
      apply IH; [lia|].
      unfold BI. split; [lia|]. split; [lia|].
      split; [|split; [|split; [|split]]].
      * intros l H1 H2. destruct (Nat.eq_dec l k) as [-> | Hlk].
        -- exists i. split; [lia | exact Heq].
        -- rewrite Hne by assumption. apply B3; lia.
      * intros l H1 H2. destruct (Nat.eq_dec l k) as [-> | Hlk].
        -- rewrite Heq, Hne by lia.
           destruct B6 as (t & T1 & T2 & T3 & T4 & T5); [lia|].
           replace (k + 1) with (S k) in T4 by lia. rewrite T4.
           destruct (PP t T2 ltac:(lia)) as (t' & P1 & P2 & P3 & P4).
           assert (t' = i).
           { destruct (Nat.lt_trichotomy t' i) as [Hlt | [Heq' | Hgt]]; [exfalso | assumption | exfalso].
             - apply (P4 i); lia.
             - apply (T5 t'); lia. }
           subst t'. apply prB_lt; assumption.
        -- rewrite !Hne by lia. apply B4; lia.
      * rewrite Hne by lia. assumption.
      * intros _. exists i. split; [lia|]. split; [lia|]. split; [lia|].
        replace (Nat.pred k + 1) with k by lia. split; [exact Heq|]. intros; lia.
      * intros; lia.
    + apply IH; [lia|].
      unfold BI. split; [assumption|]. split; [assumption|]. split; [assumption|].
      split; [assumption|]. split; [assumption|]. split.
      * intro Hk. destruct (B6 Hk) as (t & T1 & T2 & T3 & T4 & T5).
        exists t. split; [lia|]. split; [assumption|]. split; [assumption|]. split; [assumption|].
        intros t' H1 H2. destruct (Nat.eq_dec t' i) as [-> | Hne]; [assumption|]. apply T5; lia.
      * intros Hk t H1 H2. destruct (Nat.eq_dec t i) as [-> | Hne]; [congruence|]. apply B7; auto; lia.
Qed.

Lemma BI_final k sq : BI 0 k sq -> k = 0.
Proof.
  intros (B1 & B2 & B3 & B4 & B5 & B6 & B7).
  destruct k as [|k]; [reflexivity | exfalso].
  destruct (Nat.eq_dec (S k) K) as [E | N].
  - destruct (max_level_attained L) as [Z | (t & Ht & Et)]; fold K in *; [lia|].
    apply (B7 E t); lia.
  - destruct B6 as (t & T1 & T2 & T3 & T4 & T5); [lia|].
    destruct (PP t T2 ltac:(lia)) as (t' & P1 & P2 & P3 & P4).
    apply (T5 t'); lia.
Qed.

(* the three last statements of tgs *)
Lemma reconstruct_ok :
  exists ms,
    (do sq <- upd (repeat d0 (2 + K)) (1 + K) e;
     do sq <- backward (rev (seq 0 n)) K n J L xi yi sq;
     upd sq 0 d0) = Ok ms /\
    length ms = K + 2 /\ nth 0 ms d0 = d0 /\ nth (K + 1) ms d0 = e /\
    (forall l, 1 <= l -> l <= K -> exists t, t < n /\ nth l ms d0 = prB t) /\
    (forall l, 1 <= l -> l < K -> lt2 (nth l ms d0) (nth (S l) ms d0)).
Proof.
  destruct (upd_ok (repeat d0 (2 + K)) (1 + K) e) as (sq1 & E1 & Hl1 & Hn1).
  { rewrite repeat_length. lia. }
  rewrite repeat_length in Hl1.
  rewrite E1. simpl.
  destruct (backward_run n K sq1) as (sq2 & k' & E2 & HB); [lia| |].
  { unfold BI. split; [lia|]. split; [lia|]. split; [intros; lia|]. split; [intros; lia|].
    split; [|split; intros; lia].
    rewrite Hn1. replace (K + 1 =? 1 + K) with true by (symmetry; apply Nat.eqb_eq; lia). reflexivity. }
  rewrite E2. simpl.
  pose proof (BI_final k' sq2 HB). subst k'.
  destruct HB as (B1 & B2 & B3 & B4 & B5 & _).
  destruct (upd_ok sq2 0 d0) as (ms & E3 & Hl3 & Hn3); [lia|].
  exists ms. split; [exact E3|]. split; [lia|].
  split; [rewrite Hn3; reflexivity|].
  split; [rewrite Hn3; replace (K + 1 =? 0) with false by (symmetry; apply Nat.eqb_neq; lia); exact B5|].
  split.
  - intros l H1 H2. rewrite Hn3. destruct (Nat.eqb_spec l 0); [lia|]. apply B3; lia.
  - intros l H1 H2. rewrite !Hn3. destruct (Nat.eqb_spec l 0); [lia|]. simpl. apply B4; lia.
Qed.

End Backward.

(* ================================================================ assembly *)

Lemma tgs_unfold x y :
  tgs x y =
  (do TL <- patience (seq 0 (n x y)) (n x y) (J x y) (repeat (n x y + 1) (n x y)) (repeat 0 (n x y));
   do sq <- upd (repeat (0, 0) (2 + max_level (snd TL))) (1 + max_level (snd TL)) (length x, length y);
   do sq <- backward (rev (seq 0 (n x y))) (max_level (snd TL)) (n x y) (J x y) (snd TL) (xi x y) (yi x y) sq;
   upd sq 0 (0, 0)).
Proof. reflexivity. Qed.

Lemma list_last_shape {A} (d : A) : forall k (l : list A), length l = k + 1 -> l = firstn k l ++ [nth k l d].
Proof.
  induction k as [|k IH]; intros [|a l] H; simpl in *; try lia.
  - destruct l; [reflexivity | simpl in H; lia].
  - f_equal. apply IH. lia.
Qed.

Lemma nth_firstn_lt {A} (d : A) : forall k (l : list A) i, i < k -> nth i (firstn k l) d = nth i l d.
Proof.
  induction k as [|k IH]; intros [|a l] [|i] H; simpl; try lia; auto. apply IH. lia.
Qed.

Lemma increasing_nth (l : list (nat * nat)) :
  (forall i, S i < length l -> lt2 (nth i l (0, 0)) (nth (S i) l (0, 0))) -> increasing l = true.
Proof.
  induction l as [|p l IH]; intro H; [reflexivity|].
  destruct l as [|q l]; [reflexivity|].
  change (increasing (p :: q :: l)) with ((fst p <? fst q) && (snd p <? snd q) && increasing (q :: l)).
  destruct (H 0) as [H1 H2]; [simpl; lia|]. simpl in H1, H2.
  apply Nat.ltb_lt in H1, H2. rewrite H1, H2. simpl. apply IH.
  intros i Hi. apply (H (S i)). simpl in *. lia.
Qed.

(* tgs returns the two sentinels around pairs that are in range, strictly increasing in both
   coordinates, and pair a line occurring exactly once in x with its unique occurrence in y *)
Theorem tgs_matches_ok x y : exists ms, tgs x y = Ok ms /\ matches_ok x y ms.
Proof.
  rewrite tgs_unfold.
  destruct (patience_run (n x y) (J x y) (J_length x y) (J_lt_n x y) (n x y) 0 0
              (repeat (n x y + 1) (n x y)) (repeat 0 (n x y))) as (T & L & f & EP & HP).
  { reflexivity. } { apply PI_init; try apply J_length; try apply J_lt_n. }
  rewrite EP. cbn [bind snd].
  destruct HP as (_ & PL & _ & _ & _ & _ & Plev & Ppred).
  destruct (reconstruct_ok (n x y) (J x y) L (xi x y) (yi x y) (length x, length y))
    as (ms & E & Hlen & H0 & Hend & Hin & Hinc).
  - apply J_length.
  - exact PL.
  - reflexivity.
  - apply J_lt_n.
  - intros t Ht. destruct (tri x y t Ht) as (s & H & _). exact H.
  - intros t Ht. apply Plev. assumption.
  - exact Ppred.
  - intros t t' H1 H2 H3. apply (pr_lt x y t t'); assumption.
  - unfold d0, K in *. rewrite E. exists ms. split; [reflexivity|].
    set (k := max_level L) in *.
    exists (firstn k (tl ms)). split; [|split].
    + destruct ms as [|a ms']; [simpl in Hlen; lia|].
      replace (k + 1) with (S k) in Hend by lia. simpl in H0, Hend, Hlen. subst a.
      simpl. f_equal. rewrite <- Hend. apply list_last_shape. lia.
    + apply Forall_forall. intros p Hp.
      destruct (In_nth _ _ (0, 0) Hp) as (i & Hi & Ei).
      rewrite firstn_length in Hi.
      rewrite nth_firstn_lt in Ei by lia.
      destruct ms as [|a ms']; [simpl in Hlen; lia|]. simpl in Ei.
      destruct (Hin (S i)) as (t & Ht & Et); try lia.
      simpl in Et. rewrite <- Ei, Et. apply (pr_anchor_ok x y). assumption.
    + apply increasing_nth. intros i Hi. rewrite firstn_length in Hi.
      rewrite !nth_firstn_lt by lia.
      destruct ms as [|a ms']; [simpl in Hlen; lia|]. simpl.
      specialize (Hinc (S i)). simpl in Hinc. apply Hinc; lia.
Qed.

Theorem tgs_ok_true x y : tgs_ok x y = true.
Proof.
  destruct (tgs_matches_ok x y) as (ms & E & H). unfold tgs_ok. rewrite E.
  apply tgs_ok_list_matches_ok. assumption.
Qed.

(* C08 on the source as translated: the main theorems of the property, restated directly on the
   generated functions of Gen/DiffSrc.v (diff/diff.go translated by harness/go2coq on every run).
   Each follows from the equality of the generated function with the model (Diff/SrcFacts.v,
   Diff/SrcFactsDiff.v) and the theorem about the model.  [fuel] is the iteration bound handed to
   every loop of the translation; [length old + 1] (one pass over the lines of the old text and
   one step to stop) is enough, and the result does not depend on it beyond that. *)
From Coq Require Import List Bool Arith ZArith Lia.
From Coq.Strings Require Import Byte.
From GI Require Import Lib.Bytes Gen.DiffConsts Diff.Diff Diff.DiffSpec Diff.DiffBase Diff.DiffProofs
  Diff.TgsProofs Diff.DiffParse Diff.ParseProofs Diff.CtxFacts Diff.BytesFacts Diff.DiffFacts Diff.CoverFacts
  Gen.DiffSrc Diff.SrcFacts Diff.SrcFactsDiff.
From GI Require Lib.GoSem.
Import ListNotations.

Lemma src_Diff_Ok_iff fuel oldName old newName new out :
  length old + 1 <= fuel ->
  (src_Diff fuel oldName old newName new = GoSem.Ok out <-> diff oldName old newName new = Ok out).
Proof.
  intro Hf. rewrite (src_Diff_eq fuel _ _ _ _ Hf).
  destruct (diff oldName old newName new) as [o| |]; cbn [res_conv id]; split; intro H;
    try discriminate; injection H as <-; reflexivity.
Qed.

(* Diff returns nothing exactly when the texts are byte-identical *)
Theorem source_diff_nil_iff fuel oldName old newName new :
  length old + 1 <= fuel ->
  (src_Diff fuel oldName old newName new = GoSem.Ok [] <-> old = new).
Proof. intro Hf. rewrite (src_Diff_Ok_iff fuel _ _ _ _ _ Hf). apply diff_nil_iff. Qed.

(* for different texts: the three header lines and the rendering of hunks that are well formed
   (in order, not overlapping, start lines and counts matching their bodies) and that turn the
   lines of the old text into the lines of the new text, and back *)
Theorem source_diff_hunks fuel oldName old newName new :
  length old + 1 <= fuel -> old <> new ->
  exists hs, src_Diff fuel oldName old newName new = GoSem.Ok (render oldName newName hs) /\ hs <> [] /\
    hunks_wf (lines old) (lines new) hs /\
    apply_hunks (lines old) hs = Some (lines new) /\
    apply_hunks (lines new) (swap_hunks hs) = Some (lines old).
Proof.
  intros Hf Hne. destruct (diff_total oldName old newName new) as (out & E).
  destruct (diff_bytes_parse _ _ _ _ _ E Hne) as (hs & Eh & -> & _).
  exists hs. split; [now apply (src_Diff_Ok_iff fuel _ _ _ _ _ Hf)|].
  split; [intro Hnil; subst hs; apply Hne; now apply diff_hunks_nonempty|].
  split; [now apply hunks_wf_thm|]. split; [now apply patch_correct | now apply patch_reverse].
Qed.

(* end to end on the returned bytes, read back by the Coq-side reader and applied *)
Theorem source_bytes_patch fuel oldName old newName new out :
  length old + 1 <= fuel -> src_Diff fuel oldName old newName new = GoSem.Ok out ->
  patch_bytes oldName newName out (lines old) = Some (lines new) /\
  unpatch_bytes oldName newName out (lines new) = Some (lines old).
Proof. intros Hf E. apply (src_Diff_Ok_iff fuel _ _ _ _ _ Hf) in E. now apply bytes_patch. Qed.

(* ... and on the texts themselves, final newline or not *)
Theorem source_text_patch fuel oldName old newName new out :
  length old + 1 <= fuel -> src_Diff fuel oldName old newName new = GoSem.Ok out ->
  patch_text oldName newName out old = Some new /\
  unpatch_text oldName newName out new = Some old.
Proof. intros Hf E. apply (src_Diff_Ok_iff fuel _ _ _ _ _ Hf) in E. now apply text_patch. Qed.

(* a concrete non-trivial instance: the translated function itself, run inside Coq *)
Example source_diff_ex :
  src_Diff 40 [x61] [x61; x0a; x62; x0a; x63] [x62] [x61; x0a; x58; x0a; x63; x0a] =
  GoSem.Ok (render [x61] [x62]
    [mkHunk 1 3 1 3 [(TCtx, [x61; x0a]); (TDel, [x62; x0a]); (TDel, x63 :: no_newline_msg);
                     (TAdd, [x58; x0a]); (TAdd, [x63; x0a])]]).
Proof. vm_compute. reflexivity. Qed.

(* Gen/DiffSrc.v, part 2: the generated [src_Diff] (diff/diff.go: Diff) returns [Ok] of exactly
   the bytes the hand-written model [diff] (Diff/Diff.v) computes, for every input and every
   iteration bound [fuel >= length old + 1].

   The model keeps the chunk as tagged lines and renders the hunks at the end; the Go code keeps
   the prefixed lines ([enc]) and writes each chunk into a bytes.Buffer as it is completed.  The
   main lemma [src_Diff_loop1_sim] runs the two in lock step: whenever the model's loop returns
   the hunks hs from a state, the translated loop from the image of that state ends normally
   with the buffer extended by the rendering of hs.  That the model's loop does return is
   [diff_no_panic] (Diff/DiffFacts.v).

   The proofs do not mention generated hypothesis or bound-variable names. *)
From Coq Require Import List Bool Arith ZArith Lia ZifyBool.
From Coq.Strings Require Import Byte.
From GI Require Import Lib.Bytes Gen.DiffConsts Diff.Diff Diff.DiffSpec Diff.DiffBase Diff.DiffProofs
  Diff.TgsProofs Diff.DiffFacts Diff.SrcLib Lib.GoSemExtFacts Lib.GoSemDataFacts Gen.DiffSrc Diff.SrcFacts.
From GI Require Import Lib.GoSem Lib.GoSemExt Lib.GoSemData.
Import ListNotations.

(* the chunk lines as the Go code keeps them: the tag byte in front of the line *)
Definition enc (b : list (tag * line)) : list bytes := map (fun tl => tag_byte (fst tl) :: snd tl) b.

Lemma enc_app a b : enc (a ++ b) = enc a ++ enc b.
Proof. apply map_app. Qed.

Lemma enc_tagged t l : enc (tagged t l) = map (fun s => tag_byte t :: s) l.
Proof. unfold enc, tagged. rewrite map_map. reflexivity. Qed.

Lemma len_of_enc b : (len_of (enc b) >? 0)%Z = nonempty b.
Proof. rewrite len_of_pos_iff. now destruct b. Qed.

Lemma zadd_len {A} a (l : list A) : (Z.of_nat a + len_of l)%Z = Z.of_nat (a + length l).
Proof. unfold len_of. lia. Qed.

Lemma Zltb_nat a b : (Z.of_nat a <? Z.of_nat b)%Z = (a <? b).
Proof. destruct (Nat.ltb_spec a b), (Z.ltb_spec (Z.of_nat a) (Z.of_nat b)); try lia; reflexivity. Qed.
Lemma Zgtb_nat a b : (Z.of_nat a >? Z.of_nat b)%Z = (b <? a).
Proof. rewrite Z.gtb_ltb. apply Zltb_nat. Qed.
Lemma Zgeb_nat a b : (Z.of_nat a >=? Z.of_nat b)%Z = (b <=? a).
Proof. rewrite Z.geb_leb. destruct (Nat.leb_spec b a), (Z.leb_spec (Z.of_nat b) (Z.of_nat a)); try lia; reflexivity. Qed.

(* ------------------------------------------------------------------ *)
(* the range loops that extend the chunk                               *)

(* for _, s := range l { ctext = append(ctext, "-"+s); count.x++ } *)
Lemma src_Diff_loop4_eq (L : Type) fuel l : forall cx cy ct,
  @src_Diff_loop4 L fuel l (Z.of_nat cx, Z.of_nat cy) ct =
  Ok (Normal ((Z.of_nat (cx + length l), Z.of_nat cy), ct ++ map (fun s => tag_byte TDel :: s) l)).
Proof.
  induction l as [|s l IH]; intros cx cy ct; cbn [src_Diff_loop4 length map].
  - now rewrite Nat.add_0_r, app_nil_r.
  - go_red. replace (Z.of_nat cx + 1)%Z with (Z.of_nat (S cx)) by lia. rewrite IH.
    rewrite <- app_assoc. cbn [app]. do 4 f_equal. lia.
Qed.

(* for _, s := range l { ctext = append(ctext, "+"+s); count.y++ } *)
Lemma src_Diff_loop5_eq (L : Type) fuel l : forall cx cy ct,
  @src_Diff_loop5 L fuel l (Z.of_nat cx, Z.of_nat cy) ct =
  Ok (Normal ((Z.of_nat cx, Z.of_nat (cy + length l)), ct ++ map (fun s => tag_byte TAdd :: s) l)).
Proof.
  induction l as [|s l IH]; intros cx cy ct; cbn [src_Diff_loop5 length map].
  - now rewrite Nat.add_0_r, app_nil_r.
  - go_red. replace (Z.of_nat cy + 1)%Z with (Z.of_nat (S cy)) by lia. rewrite IH.
    rewrite <- app_assoc. cbn [app]. do 4 f_equal. lia.
Qed.

(* for _, s := range l { ctext = append(ctext, " "+s); count.x++; count.y++ }  (three copies) *)
Ltac ctx_loop IH :=
  go_red;
  match goal with |- context [(Z.of_nat ?cx + 1, Z.of_nat ?cy + 1)%Z] =>
    replace (Z.of_nat cx + 1)%Z with (Z.of_nat (S cx)) by lia;
    replace (Z.of_nat cy + 1)%Z with (Z.of_nat (S cy)) by lia
  end;
  rewrite IH; rewrite <- app_assoc; cbn [app]; do 3 f_equal; f_equal; lia.

Lemma src_Diff_loop6_eq (L : Type) fuel l : forall cx cy ct,
  @src_Diff_loop6 L fuel l (Z.of_nat cx, Z.of_nat cy) ct =
  Ok (Normal ((Z.of_nat (cx + length l), Z.of_nat (cy + length l)), ct ++ map (fun s => tag_byte TCtx :: s) l)).
Proof.
  induction l as [|s l IH]; intros cx cy ct; cbn [src_Diff_loop6 length map].
  - now rewrite !Nat.add_0_r, app_nil_r.
  - ctx_loop IH.
Qed.

Lemma src_Diff_loop7_eq (L : Type) fuel l : forall cx cy ct,
  @src_Diff_loop7 L fuel l (Z.of_nat cx, Z.of_nat cy) ct =
  Ok (Normal ((Z.of_nat (cx + length l), Z.of_nat (cy + length l)), ct ++ map (fun s => tag_byte TCtx :: s) l)).
Proof.
  induction l as [|s l IH]; intros cx cy ct; cbn [src_Diff_loop7 length map].
  - now rewrite !Nat.add_0_r, app_nil_r.
  - ctx_loop IH.
Qed.

Lemma src_Diff_loop9_eq (L : Type) fuel l : forall cx cy ct,
  @src_Diff_loop9 L fuel l (Z.of_nat cx, Z.of_nat cy) ct =
  Ok (Normal ((Z.of_nat (cx + length l), Z.of_nat (cy + length l)), ct ++ map (fun s => tag_byte TCtx :: s) l)).
Proof.
  induction l as [|s l IH]; intros cx cy ct; cbn [src_Diff_loop9 length map].
  - now rewrite !Nat.add_0_r, app_nil_r.
  - ctx_loop IH.
Qed.

(* for _, s := range ctext { out.WriteString(s) } *)
Lemma src_Diff_loop8_eq (L : Type) fuel l : forall out,
  @src_Diff_loop8 L fuel l out = Ok (Normal (out ++ concat l)).
Proof.
  induction l as [|s l IH]; intro out; cbn [src_Diff_loop8 concat].
  - now rewrite app_nil_r.
  - go_red. rewrite IH. now rewrite <- app_assoc.
Qed.

(* ------------------------------------------------------------------ *)
(* expanding a match backwards and forwards                            *)

Lemma src_Diff_loop2_sim (L : Type) fuel (x y : list bytes) dx dy : forall sx sy r n,
  expand_back x y dx dy sx sy = Diff.Ok r -> Nat.min sx (length x) + 1 <= n ->
  @src_Diff_loop2 L fuel n x y (Z.of_nat dx, Z.of_nat dy) (Z.of_nat sx, Z.of_nat sy) =
  Ok (Normal (Z.of_nat (fst r), Z.of_nat (snd r))).
Proof.
  unfold line in *. induction sx as [|sx IH]; intros sy r n H Hn; (destruct n as [|n]; [lia|]); cbn [expand_back] in H; unfold line in H;
    cbn [src_Diff_loop2]; go_red; rewrite !Zgtb_nat.
  - injection H as <-. destruct (dx <? 0) eqn:E; [apply Nat.ltb_lt in E; lia|]. reflexivity.
  - destruct ((dx <? S sx) && (dy <? sy)) eqn:Ec; go_red; [|cbv iota in H; injection H as <-; reflexivity].
    apply andb_true_iff in Ec as [_ Ey]. apply Nat.ltb_lt in Ey.
    destruct (idx x sx) as [a| |] eqn:Ea; try discriminate. cbn [Diff.bind] in H.
    destruct (idx y (sy - 1)) as [b| |] eqn:Eb; try discriminate. cbn [Diff.bind] in H.
    replace (Z.of_nat (S sx) - 1)%Z with (Z.of_nat sx) by lia.
    replace (Z.of_nat sy - 1)%Z with (Z.of_nat (sy - 1)) by lia.
    rewrite (idx_src_id (A:=bytes) _ _ _ Ea), (idx_src_id (A:=bytes) _ _ _ Eb). go_red.
    destruct (bytes_eqb a b); go_red; [|cbv iota in H; injection H as <-; reflexivity].
    apply idx_Ok_inv in Ea. assert (sx < length x) by (apply nth_error_Some; congruence).
    apply (IH _ _ _ H). lia.
Qed.

Lemma expand_fwd_unfold fu (x y : list bytes) ex ey :
  expand_fwd fu x y ex ey =
  if (ex <? length x) && (ey <? length y) then
    do a <- idx x ex; do b <- idx y ey;
    if bytes_eqb a b then match fu with 0 => Diff.OutOfFuel | S fu => expand_fwd fu x y (S ex) (S ey) end
    else Diff.Ok (ex, ey)
  else Diff.Ok (ex, ey).
Proof. destruct fu; reflexivity. Qed.

Lemma src_Diff_loop3_sim (L : Type) fuel (x y : list bytes) : forall fu ex ey r n,
  expand_fwd fu x y ex ey = Diff.Ok r -> fu + 1 <= n ->
  @src_Diff_loop3 L fuel n x y (Z.of_nat ex, Z.of_nat ey) = Ok (Normal (Z.of_nat (fst r), Z.of_nat (snd r))).
Proof.
  unfold line in *. induction fu as [|fu IH]; intros ex ey r n H Hn; (destruct n as [|n]; [lia|]);
    rewrite expand_fwd_unfold in H; unfold line in H; cbn [src_Diff_loop3]; go_red; unfold len_of; rewrite !Zltb_nat;
    (destruct ((ex <? length x) && (ey <? length y)); go_red; [|cbv iota in H; injection H as <-; reflexivity]);
    (destruct (idx x ex) as [a| |] eqn:Ea; try discriminate); cbn [Diff.bind] in H;
    (destruct (idx y ey) as [b| |] eqn:Eb; try discriminate); cbn [Diff.bind] in H;
    rewrite (idx_src_id (A:=bytes) _ _ _ Ea), (idx_src_id (A:=bytes) _ _ _ Eb); go_red;
    (destruct (bytes_eqb a b); go_red; [|cbv iota in H; injection H as <-; reflexivity]).
  - discriminate.
  - replace (Z.of_nat ex + 1)%Z with (Z.of_nat (S ex)) by lia.
    replace (Z.of_nat ey + 1)%Z with (Z.of_nat (S ey)) by lia.
    apply (IH _ _ _ _ H). lia.
Qed.

(* ------------------------------------------------------------------ *)
(* the formatted lines                                                 *)

Lemma uint_digits_bytes u : uint_digits u = uint_bytes u.
Proof. induction u; cbn; congruence. Qed.

Lemma go_fmt_int_dec n : go_fmt_int (Z.of_nat n) = dec n.
Proof. rewrite go_fmt_int_nat. apply uint_digits_bytes. Qed.

(* fmt.Fprintf(&out, "@@ -%d,%d +%d,%d @@\n", chunk.x, count.x, chunk.y, count.y) *)
Lemma hunk_header_src out a b c d :
  go_fmt_Fprintf_buffer out fmt_hunk
    [FmtInt (Z.of_nat a); FmtInt (Z.of_nat b); FmtInt (Z.of_nat c); FmtInt (Z.of_nat d)] =
  Ok (out ++ sprintf fmt_hunk [ANat a; ANat b; ANat c; ANat d]).
Proof.
  unfold go_fmt_Fprintf_buffer.
  assert (E : go_fmt_Sprintf fmt_hunk
                [FmtInt (Z.of_nat a); FmtInt (Z.of_nat b); FmtInt (Z.of_nat c); FmtInt (Z.of_nat d)] =
              Ok (sprintf fmt_hunk [ANat a; ANat b; ANat c; ANat d])).
  { cbv -[go_fmt_int dec app Z.of_nat]. rewrite !go_fmt_int_dec. reflexivity. }
  rewrite E. reflexivity.
Qed.

(* the three header lines *)
Lemma header_diff_src out oldName newName :
  go_fmt_Fprintf_buffer out fmt_header_diff [FmtStr oldName; FmtStr newName] =
  Ok (out ++ sprintf fmt_header_diff [AStr oldName; AStr newName]).
Proof. unfold go_fmt_Fprintf_buffer. cbv -[app]. reflexivity. Qed.

Lemma header_old_src out oldName :
  go_fmt_Fprintf_buffer out fmt_header_old [FmtStr oldName] = Ok (out ++ sprintf fmt_header_old [AStr oldName]).
Proof. unfold go_fmt_Fprintf_buffer. cbv -[app]. reflexivity. Qed.

Lemma header_new_src out newName :
  go_fmt_Fprintf_buffer out fmt_header_new [FmtStr newName] = Ok (out ++ sprintf fmt_header_new [AStr newName]).
Proof. unfold go_fmt_Fprintf_buffer. cbv -[app]. reflexivity. Qed.

(* ------------------------------------------------------------------ *)
(* the main loop                                                       *)

Lemma Zltb_len {A} a (l : list A) : (Z.of_nat a <? len_of l)%Z = (a <? length l).
Proof. apply Zltb_nat. Qed.
Lemma Zgeb_len {A} a (l : list A) : (Z.of_nat a >=? len_of l)%Z = (length l <=? a).
Proof. apply Zgeb_nat. Qed.
Lemma Zgtb_nat0 a : (Z.of_nat a >? 0)%Z = (0 <? a).
Proof. apply (Zgtb_nat a 0). Qed.
Lemma Zsucc_nat a : (Z.of_nat a + 1)%Z = Z.of_nat (S a).
Proof. lia. Qed.
Lemma go_slice_of_00 {A} (l : list A) : go_slice_of l 0 0 = Ok [].
Proof. apply (go_slice_of_nat l 0 0). Qed.

Lemma render_hunk_enc sx cx sy cy b :
  render_hunk (mkHunk sx cx sy cy b) = sprintf fmt_hunk [ANat sx; ANat cx; ANat sy; ANat cy] ++ concat (enc b).
Proof. reflexivity. Qed.

(* what follows the emission of a chunk: stop at the end of both files, or start a new chunk *)
Ltac after_chunk IH H ex ey :=
  rewrite !Zgeb_len;
  match type of H with
  | Diff.bind ?R _ = _ =>
      let rest := fresh "rest" in let ER := fresh "ER" in
      destruct R as [rest| |] eqn:ER; try discriminate; cbn [Diff.bind] in H; injection H as <-;
      destruct ((length _ <=? _) && (length _ <=? _)); go_red;
      [ injection ER as <-; cbn [map concat]; rewrite ?app_nil_r; do 4 eexists; reflexivity
      | let chx' := fresh "chx'" in let chy' := fresh "chy'" in let xs4 := fresh "xs4" in
        let Ex := fresh "Ex" in let Ey := fresh "Ey" in let E5 := fresh "E5" in
        destruct (sub_chk ex ctxC) as [chx'| |] eqn:Ex; try discriminate; cbn [Diff.bind] in ER;
        destruct (sub_chk ey ctxC) as [chy'| |] eqn:Ey; try discriminate; cbn [Diff.bind] in ER;
        destruct (slice _ chx' _) as [xs4| |] eqn:E5; try discriminate; cbn [Diff.bind] in ER;
        rewrite (sub_chk_Ok _ _ _ Ex), (sub_chk_Ok _ _ _ Ey), (slice_src _ _ _ _ E5); go_red;
        first [rewrite src_Diff_loop9_eq | rewrite src_Diff_loop9_eq with (cx := 0) (cy := 0)]; go_red; rewrite <- enc_tagged, <- ?enc_app;
        let d := fresh "d" in let c := fresh "c" in let n := fresh "n" in let t := fresh "t" in
        let E := fresh "E" in
        unfold line in *; let IH' := fresh "IH'" in pose proof (IH _ _ _ _ _ _ _ _ ER) as IH';
        match goal with |- context [src_Diff_loop1 _ _ _ _ ?o _ _ _ _] => destruct (IH' o) as (d & c & n & t & E) end;
        rewrite E;
        cbn [map concat]; rewrite ?app_assoc; do 4 eexists; reflexivity ]
  end.

Lemma src_Diff_loop1_sim fuel (x y : list bytes) : length x + 1 <= fuel ->
  forall ms dx dy chx chy cntx cnty ctext hs,
  diff_loop x y ms dx dy chx chy cntx cnty ctext = Diff.Ok hs -> forall out,
  exists d c n t,
    @src_Diff_loop1 unit fuel x y (map zp ms) out (Z.of_nat dx, Z.of_nat dy) (Z.of_nat chx, Z.of_nat chy)
       (Z.of_nat cntx, Z.of_nat cnty) (enc ctext) =
    Ok (Normal (out ++ concat (map render_hunk hs), d, c, n, t)).
Proof.
  intros Hfuel. induction ms as [|[mx my] ms IH]; intros dx dy chx chy cntx cnty ctext hs H out.
  - cbn in H. injection H as <-. cbn [map src_Diff_loop1 concat]. rewrite app_nil_r. do 4 eexists. reflexivity.
  - cbn [diff_loop] in H. unfold line in *. cbn [map zp fst snd src_Diff_loop1]. go_red. rewrite Zltb_nat.
    destruct (mx <? dx).
    { go_red. apply (IH _ _ _ _ _ _ _ _ H). }
    destruct (expand_back x y dx dy mx my) as [[stx sty]| |] eqn:Eb; try discriminate. cbn [Diff.bind] in H.
    destruct (expand_fwd (length x) x y mx my) as [[ex ey]| |] eqn:Ef; try discriminate.
    cbn [Diff.bind] in H. cbv zeta in H. cbn [fst snd] in H.
    rewrite (src_Diff_loop2_sim _ fuel x y dx dy mx my _ fuel Eb) by lia. go_red.
    rewrite (src_Diff_loop3_sim _ fuel x y (length x) mx my _ fuel Ef) by lia. go_red.
    destruct (slice x dx stx) as [xs1| |] eqn:E1; try discriminate. cbn [Diff.bind] in H.
    destruct (slice y dy sty) as [ys1| |] eqn:E2; try discriminate. cbn [Diff.bind] in H.
    rewrite (slice_src _ _ _ _ E1). go_red. rewrite src_Diff_loop4_eq. go_red.
    rewrite (slice_src _ _ _ _ E2). go_red. rewrite src_Diff_loop5_eq. go_red.
    destruct (sub_chk ex stx) as [r| |] eqn:Er; try discriminate. cbn [Diff.bind] in H.
    rewrite (sub_chk_Ok _ _ _ Er).
    rewrite <- !enc_tagged, <- !enc_app, <- (app_assoc ctext).
    rewrite !len_of_enc, !Zltb_len.
    change 3%Z with (Z.of_nat ctxC). change 6%Z with (Z.of_nat (2 * ctxC)). rewrite !Zltb_nat.
    unfold line in *.
    match type of H with context [nonempty ?c] => set (ct1 := c) in * end.
    set (cx1 := cntx + length xs1) in *. set (cy1 := cnty + length ys1) in *.
    match type of H with (if ?c then _ else _) = _ => destruct c end.
    + (* too few common lines: the chunk continues *)
      destruct (slice x stx ex) as [xs2| |] eqn:E3; try discriminate. cbn [Diff.bind] in H.
      rewrite (slice_src _ _ _ _ E3). go_red. rewrite src_Diff_loop6_eq. go_red.
      rewrite <- enc_tagged, <- enc_app. apply (IH _ _ _ _ _ _ _ _ H).
    + destruct (nonempty ct1).
      * (* end the chunk with context and emit it *)
        destruct (slice x stx (stx + Nat.min r ctxC)) as [xs3| |] eqn:E4; try discriminate.
        cbn [Diff.bind] in H. cbv zeta in H.
        rewrite <- Nat2Z.inj_min, <- !Nat2Z.inj_add. rewrite (slice_src _ _ _ _ E4). go_red.
        rewrite src_Diff_loop7_eq. go_red. rewrite !Zgtb_nat0.
        rewrite <- enc_tagged, <- enc_app.
        destruct (0 <? cx1 + length xs3), (0 <? cy1 + length xs3); go_red; rewrite ?Zsucc_nat;
          rewrite hunk_header_src; go_red; rewrite src_Diff_loop8_eq; go_red;
          rewrite go_slice_of_00; go_red; change (@nil bytes) with (enc []);
          rewrite <- app_assoc, <- render_hunk_enc;
          after_chunk IH H ex ey.
      * cbn [Diff.bind] in H. cbv zeta in H. after_chunk IH H ex ey.
Qed.

(* ------------------------------------------------------------------ *)
(* Diff                                                                *)

(* a text has at most as many lines as bytes *)
Lemma lines_length_le d : length (lines d) <= length d.
Proof.
  induction d as [|b r IH]; cbn [lines length]; [lia|].
  destruct (beq b NL); cbn [length]; [lia|]. destruct (lines r); cbn [length] in *; lia.
Qed.

(* the translated Diff returns exactly the model's bytes, for every iteration bound that allows
   one pass over the lines of the old text *)
Theorem src_Diff_eq fuel oldName old newName new :
  length old + 1 <= fuel ->
  src_Diff fuel oldName old newName new = res_conv id (diff oldName old newName new).
Proof.
  intro Hfuel. unfold src_Diff, diff, go_bytes_Equal, go_buffer_Bytes. go_red.
  destruct (bytes_eqb old new); [reflexivity|].
  rewrite !src_lines_eq. go_red.
  pose proof (lines_length_le old) as Hl.
  destruct (diff_no_panic (lines old) (lines new)) as (hs & Ehs). rewrite Ehs. cbn [Diff.bind res_conv id].
  unfold diff_hunks in Ehs.
  destruct (tgs (lines old) (lines new)) as [ms| |] eqn:Et; try discriminate. cbn [Diff.bind] in Ehs.
  rewrite header_diff_src. go_red. rewrite header_old_src. go_red. rewrite header_new_src. go_red.
  unfold go_buffer_empty. cbn [app]. rewrite <- !app_assoc. fold (render_header oldName newName).
  rewrite (src_tgs_eq fuel _ _ _ Et) by lia. go_red.
  assert (Hf2 : @length bytes (lines old) + 1 <= fuel) by (unfold line in *; lia).
  destruct (src_Diff_loop1_sim fuel (lines old) (lines new) Hf2 _ _ _ _ _ _ _ _ _ Ehs
              (render_header oldName newName)) as (d & c & n & ct & E).
  match goal with |- bindT ?t _ = _ => replace t with (Ok (Normal (render_header oldName newName ++ concat (map render_hunk hs), d, c, n, ct)) : res (outcome (bytes * (Z * Z) * (Z * Z) * (Z * Z) * list bytes) unit bytes)) by (symmetry; exact E) end.
  go_red. reflexivity.
Qed.

(* totality, on the translation itself: never Panic, never OutOfFuel with that bound *)
Theorem src_Diff_total fuel oldName old newName new :
  length old + 1 <= fuel -> exists out, src_Diff fuel oldName old newName new = Ok out.
Proof.
  intro Hf. rewrite (src_Diff_eq fuel _ _ _ _ Hf).
  destruct (diff_total oldName old newName new) as (out & ->). now exists out.
Qed.

Theorem src_lines_total d : exists l, src_lines d = Ok l.
Proof. rewrite src_lines_eq. eauto. Qed.

(* C08 — end to end at the level of the returned BYTES, and the consumer (testscript cmp/cmpenv). *)
From Coq Require Import List Bool Arith ZArith Lia.
From Coq.Strings Require Import Byte.
From GI Require Import Lib.Bytes Gen.DiffConsts Diff.Diff Diff.DiffSpec Diff.DiffBase Diff.DiffProofs
  Diff.TgsProofs Diff.DiffParse Diff.ParseProofs Diff.CtxFacts.
Import ListNotations.

(* ---------------------------------------------------------------- the hunks of Diff can be read back *)

Lemma In_firstn {A} (a : A) n : forall l, In a (firstn n l) -> In a l.
Proof. induction n as [|n IH]; intros [|b l] H; simpl in *; try contradiction. destruct H; auto. Qed.

Lemma In_skipn {A} (a : A) n : forall l, In a (skipn n l) -> In a l.
Proof. induction n as [|n IH]; intros [|b l] H; simpl in *; auto. Qed.

Lemma In_sub {A} (a : A) l i j : In a (sub l i j) -> In a l.
Proof. unfold sub. intro H. apply In_firstn in H. apply In_skipn in H. assumption. Qed.

Lemma body_line_sides t l b : In (t, l) b -> In l (old_side b) \/ In l (new_side b).
Proof.
  unfold old_side, new_side. induction b as [|[t' l'] b IH]; simpl; [contradiction|].
  intros [E | H].
  - inversion E; subst. destruct t; simpl; auto.
  - destruct (IH H); destruct t'; simpl; auto.
Qed.

Lemma wf_from_hunk_ok x y hs : forall px py,
  Forall line_ok x -> Forall line_ok y -> wf_from x y px py hs -> Forall hunk_ok hs.
Proof.
  induction hs as [|h hs IH]; intros px py Hx Hy W; [constructor|].
  simpl in W. destruct W as (p & q & _ & _ & _ & _ & _ & _ & A7 & A8 & _ & _ & A11 & A12 & W).
  constructor; [|eapply IH; eauto].
  split; [assumption|]. split; [assumption|].
  apply Forall_forall. intros l Hl. apply in_map_iff in Hl as ([t l'] & E & Hin). simpl in E. subst l'.
  rewrite Forall_forall in Hx, Hy.
  destruct (body_line_sides _ _ _ Hin) as [H | H].
  - rewrite A11 in H. apply Hx. eapply In_sub. exact H.
  - rewrite A12 in H. apply Hy. eapply In_sub. exact H.
Qed.

Theorem diff_hunks_readable : forall old new hs,
  diff_hunks (lines old) (lines new) = Ok hs -> Forall hunk_ok hs.
Proof.
  intros old new hs E. eapply wf_from_hunk_ok; [apply lines_line_ok | apply lines_line_ok |].
  apply (hunks_wf_all _ _ _ E).
Qed.

Lemma render_nonempty on nn hs : render on nn hs <> [].
Proof. unfold render. rewrite render_header_shape. discriminate. Qed.

(* what Diff prints parses back to the hunks it was printed from *)
Theorem diff_bytes_parse : forall oldName old newName new out,
  diff oldName old newName new = Ok out -> old <> new ->
  exists hs, diff_hunks (lines old) (lines new) = Ok hs /\ out = render oldName newName hs /\
             parse_render oldName newName out = Some hs.
Proof.
  intros on old nn new out E Hne. unfold diff in E.
  destruct (bytes_eqb old new) eqn:Eq; [apply bytes_eqb_true_iff in Eq; contradiction|].
  destruct (diff_hunks (lines old) (lines new)) as [hs| |] eqn:Eh; simpl in E; try discriminate.
  inversion E; subst out. exists hs. split; [reflexivity|]. split; [reflexivity|].
  apply parse_render_render. eapply diff_hunks_readable. exact Eh.
Qed.

(* END TO END: the bytes returned by Diff, read as a unified diff and applied to the lines of the
   old text, give the lines of the new text, and applied in reverse to the new text give the old;
   [lines] is injective, so this is the new (old) text itself, final newline or not. *)
Theorem bytes_patch : forall oldName old newName new out,
  diff oldName old newName new = Ok out ->
  patch_bytes oldName newName out (lines old) = Some (lines new) /\
  unpatch_bytes oldName newName out (lines new) = Some (lines old).
Proof.
  intros on old nn new out E.
  destruct (bytes_eqb old new) eqn:Eq.
  - apply bytes_eqb_true_iff in Eq. subst new.
    assert (out = []) by (unfold diff in E; rewrite bytes_eqb_refl in E; congruence).
    subst out. split; reflexivity.
  - assert (Hne : old <> new) by (apply bytes_eqb_false_iff; assumption).
    destruct (diff_bytes_parse _ _ _ _ _ E Hne) as (hs & Eh & Eo & Ep).
    unfold patch_bytes, unpatch_bytes. rewrite Ep.
    pose proof (render_nonempty on nn hs) as Hr. rewrite <- Eo in Hr.
    destruct out as [|c out]; [contradiction|].
    split; [eapply patch_correct_partial | eapply patch_reverse_partial]; eauto using tgs_ok_true.
Qed.

(* ---------------------------------------------------------------- the consumer: cmp / cmpenv *)

(* The failure path of testscript's doCmdCmp (cmd.go), the consumer named by the property:
     text1 := ts.ReadFile(name1); data := ReadFile(name2); text2 := string(data)
     if env { text2 = ts.expand(text2) }
     eq := text1 == text2 ... if !eq && !neg { Logf("%s", diff.Diff(name1, []byte(text1), name2, []byte(text2))); Fatalf(...) }
   [expand] (os.Expand over the script environment) is external: a section variable.  The
   UpdateScripts branch (C16) is outside this model.  That the call really passes the compared
   texts is re-read from the source on every run ([cmp_diff_args], checked by genconsts and by
   [cmp_diff_args_shape]). *)
Section Consumer.
Variable expand : bytes -> bytes.

Inductive cmp_outcome :=
| CmpPass
| CmpFailNoDiff                (* `! cmp` on equal files *)
| CmpFail (logged : bytes)     (* the unified diff written to the log before the FAIL line *)
| CmpPanic.

Definition cmp_compared (env : bool) (data2 : bytes) : bytes := if env then expand data2 else data2.

Definition do_cmp (neg env : bool) (name1 name2 text1 data2 : bytes) : cmp_outcome :=
  let text2 := cmp_compared env data2 in
  if bytes_eqb text1 text2 then (if neg then CmpFailNoDiff else CmpPass)
  else if neg then CmpPass
  else match diff name1 text1 name2 text2 with
       | Ok d => CmpFail d
       | _ => CmpPanic
       end.

Theorem cmp_never_panics neg env name1 name2 text1 data2 :
  do_cmp neg env name1 name2 text1 data2 <> CmpPanic.
Proof.
  unfold do_cmp. destruct (bytes_eqb text1 (cmp_compared env data2)); destruct neg; try discriminate.
  destruct (diff_no_panic_partial (lines text1) (lines (cmp_compared env data2)) (tgs_ok_true _ _)) as (hs & Eh).
  unfold diff. destruct (bytes_eqb text1 (cmp_compared env data2)); [discriminate|].
  rewrite Eh. discriminate.
Qed.

(* a failing cmp / cmpenv logs a diff that turns the first file's text into the text it was
   compared with (for cmpenv: the EXPANDED second file), and back; the texts do differ *)
Theorem cmp_logged_diff_patches env name1 name2 text1 data2 d :
  do_cmp false env name1 name2 text1 data2 = CmpFail d ->
  text1 <> cmp_compared env data2 /\ d <> [] /\
  patch_bytes name1 name2 d (lines text1) = Some (lines (cmp_compared env data2)) /\
  unpatch_bytes name1 name2 d (lines (cmp_compared env data2)) = Some (lines text1).
Proof.
  unfold do_cmp. intro H.
  destruct (bytes_eqb text1 (cmp_compared env data2)) eqn:Eq; [discriminate|].
  destruct (diff name1 text1 name2 (cmp_compared env data2)) as [out| |] eqn:Ed; try discriminate.
  inversion H; subst d.
  assert (Hne : text1 <> cmp_compared env data2) by (apply bytes_eqb_false_iff; assumption).
  split; [assumption|]. split.
  - intro E0. subst out. apply diff_nil_iff in Ed. contradiction.
  - apply bytes_patch. assumption.
Qed.

(* and it fails exactly when the compared texts differ *)
Theorem cmp_fails_iff env name1 name2 text1 data2 :
  (exists d, do_cmp false env name1 name2 text1 data2 = CmpFail d) <-> text1 <> cmp_compared env data2.
Proof.
  split.
  - intros (d & H). apply cmp_logged_diff_patches in H. tauto.
  - intro Hne. pose proof (cmp_never_panics false env name1 name2 text1 data2) as Hp.
    unfold do_cmp in *. apply bytes_eqb_false_iff in Hne. rewrite Hne in *.
    destruct (diff name1 text1 name2 (cmp_compared env data2)); try contradiction. eauto.
Qed.

End Consumer.

(* C08 — basic facts about the vocabulary of the diff model: byte-string equality, the result
   monad, checked index / update / slice, sub-lists, and [lines]. *)
From Coq Require Import List Bool Arith ZArith Lia.
From Coq.Strings Require Import Byte.
From GI Require Import Lib.Bytes Gen.DiffConsts Diff.Diff Diff.DiffSpec.
Import ListNotations.

(* ---------------------------------------------------------------- equality on bytes *)

Lemma beq_true_iff (a b : byte) : beq a b = true <-> a = b.
Proof.
  unfold beq. split.
  - apply Byte.byte_dec_bl.
  - apply Byte.byte_dec_lb.
Qed.

Lemma beq_refl (a : byte) : beq a a = true.
Proof. apply beq_true_iff. reflexivity. Qed.

Lemma bytes_eqb_true_iff (a b : bytes) : bytes_eqb a b = true <-> a = b.
Proof.
  revert b. induction a as [|x a IH]; intros [|y b]; simpl; split; intro H; try congruence; auto.
  - apply andb_true_iff in H as [H1 H2]. apply beq_true_iff in H1. apply IH in H2. congruence.
  - inversion H; subst. apply andb_true_iff. split; [apply beq_true_iff | apply IH]; reflexivity.
Qed.

Lemma bytes_eqb_refl (a : bytes) : bytes_eqb a a = true.
Proof. apply bytes_eqb_true_iff. reflexivity. Qed.

Lemma bytes_eqb_false_iff (a b : bytes) : bytes_eqb a b = false <-> a <> b.
Proof.
  split; intro H.
  - intro E. apply bytes_eqb_true_iff in E. congruence.
  - destruct (bytes_eqb a b) eqn:E; auto. apply bytes_eqb_true_iff in E. contradiction.
Qed.

Lemma bytes_eqb_sym (a b : bytes) : bytes_eqb a b = bytes_eqb b a.
Proof.
  destruct (bytes_eqb a b) eqn:E1, (bytes_eqb b a) eqn:E2; auto.
  - apply bytes_eqb_true_iff in E1. subst. rewrite bytes_eqb_refl in E2. discriminate.
  - apply bytes_eqb_true_iff in E2. subst. rewrite bytes_eqb_refl in E1. discriminate.
Qed.

Lemma list_bytes_eqb_true_iff (a b : list line) : list_bytes_eqb a b = true <-> a = b.
Proof.
  revert b. induction a as [|x a IH]; intros [|y b]; simpl; split; intro H; try congruence; auto.
  - apply andb_true_iff in H as [H1 H2]. apply bytes_eqb_true_iff in H1. apply IH in H2. congruence.
  - inversion H; subst. apply andb_true_iff. split; [apply bytes_eqb_refl | apply IH; reflexivity].
Qed.

(* ---------------------------------------------------------------- checked accesses *)

Lemma idx_ok {A} (l : list A) (i : nat) (d : A) : i < length l -> idx l i = Ok (nth i l d).
Proof.
  intro H. unfold idx. rewrite (nth_error_nth' l d H). reflexivity.
Qed.

Lemma idx_Ok_inv {A} (l : list A) (i : nat) (a : A) : idx l i = Ok a -> nth_error l i = Some a.
Proof. unfold idx. destruct (nth_error l i); congruence. Qed.

Lemma upd_ok {A} (l : list A) (i : nat) (v : A) :
  i < length l -> exists l', upd l i v = Ok l' /\ length l' = length l /\
    forall j d, nth j l' d = if j =? i then v else nth j l d.
Proof.
  revert i. induction l as [|a l IH]; intros i H; simpl in H; [lia|].
  destruct i as [|i]; simpl.
  - eexists; split; [reflexivity|]. split; [reflexivity|]. intros [|j] d; reflexivity.
  - destruct (IH i) as (l' & E & Hl & Hn); [lia|]. rewrite E. simpl.
    eexists; split; [reflexivity|]. split; [simpl; lia|].
    intros [|j] d; simpl; auto.
Qed.


Lemma slice_ok {A} (l : list A) a b : a <= b -> b <= length l -> slice l a b = Ok (sub l a b).
Proof.
  intros H1 H2. unfold slice.
  destruct (Nat.leb_spec a b); [|lia]. destruct (Nat.leb_spec b (length l)); [|lia]. reflexivity.
Qed.

Lemma sub_length {A} (l : list A) a b : b <= length l -> length (sub l a b) = b - a.
Proof. intro H. unfold sub. rewrite firstn_length, skipn_length. lia. Qed.

Lemma sub_nil {A} (l : list A) a : sub l a a = [].
Proof. unfold sub. rewrite Nat.sub_diag. reflexivity. Qed.

Lemma firstn_plus {A} (l : list A) n m : firstn (n + m) l = firstn n l ++ firstn m (skipn n l).
Proof.
  revert l. induction n as [|n IH]; intros [|a l]; simpl; auto.
  - destruct m; reflexivity.
  - f_equal. apply IH.
Qed.

Lemma skipn_plus {A} (l : list A) n m : skipn n (skipn m l) = skipn (m + n) l.
Proof.
  revert l. induction m as [|m IH]; intros [|a l]; simpl; auto. destruct n; reflexivity.
Qed.

Lemma sub_app {A} (l : list A) a b c :
  a <= b -> b <= c -> c <= length l -> sub l a b ++ sub l b c = sub l a c.
Proof.
  intros H1 H2 H3. unfold sub.
  replace (c - a) with ((b - a) + (c - b)) by lia.
  rewrite firstn_plus. f_equal. rewrite skipn_plus.
  replace (a + (b - a)) with b by lia. reflexivity.
Qed.

Lemma sub_full {A} (l : list A) a : sub l a (length l) = skipn a l.
Proof.
  unfold sub. rewrite <- (skipn_length a l). apply firstn_all.
Qed.

Lemma skipn_sub {A} (l : list A) a b :
  a <= b -> b <= length l -> skipn a l = sub l a b ++ skipn b l.
Proof.
  intros H1 H2. rewrite <- (sub_full l a), <- (sub_full l b). symmetry. apply sub_app; auto.
Qed.

Lemma sub_sub {A} (l : list A) a b i j :
  j <= b - a -> b <= length l -> sub (sub l a b) i j = sub l (a + i) (a + j).
Proof.
  intros H1 H2. unfold sub.
  rewrite skipn_firstn_comm, firstn_firstn, skipn_plus.
  replace (a + j - (a + i)) with (j - i) by lia.
  f_equal. lia.
Qed.

(* equal runs have equal sub-runs *)
Lemma sub_eq_mono {A} (x y : list A) a b c d i j :
  sub x a b = sub y c d -> a <= b -> c <= d -> b - a = d - c ->
  b <= length x -> d <= length y -> j <= b - a ->
  sub x (a + i) (a + j) = sub y (c + i) (c + j).
Proof.
  intros E H1 H2 H3 H4 H5 H6.
  rewrite <- (sub_sub x a b i j), <- (sub_sub y c d i j) by lia. rewrite E. reflexivity.
Qed.

Lemma nth_error_firstn_lt {A} (l : list A) n i : i < n -> nth_error (firstn n l) i = nth_error l i.
Proof.
  revert n i. induction l as [|a l IH]; intros [|n] [|i] H; simpl; try lia; auto.
  apply IH. lia.
Qed.

Lemma nth_error_skipn_add {A} (l : list A) a i : nth_error (skipn a l) i = nth_error l (a + i).
Proof.
  revert l. induction a as [|a IH]; intros [|x l]; simpl; auto. destruct i; reflexivity.
Qed.

Lemma nth_error_sub {A} (l : list A) a b i :
  i < b - a -> nth_error (sub l a b) i = nth_error l (a + i).
Proof.
  intros H. unfold sub. rewrite nth_error_firstn_lt by lia. apply nth_error_skipn_add.
Qed.

(* pointwise reading of an equality of runs *)
Lemma sub_eq_nth {A} (x y : list A) a b c d i :
  sub x a b = sub y c d -> b - a = d - c -> i < b - a ->
  nth_error x (a + i) = nth_error y (c + i).
Proof.
  intros E H1 H2. rewrite <- (nth_error_sub x a b), <- (nth_error_sub y c d) by lia.
  rewrite E. reflexivity.
Qed.

Lemma sub_snoc {A} (l : list A) a b v :
  a <= b -> nth_error l b = Some v -> sub l a (S b) = sub l a b ++ [v].
Proof.
  intros H1 H2.
  assert (Hb : b < length l) by (apply nth_error_Some; congruence).
  rewrite <- (sub_app l a b (S b)) by lia. f_equal.
  unfold sub. replace (S b - b) with 1 by lia.
  rewrite <- (firstn_skipn b l) in H2 at 1.
  rewrite nth_error_app2 in H2 by (rewrite firstn_length; lia).
  rewrite firstn_length, Nat.min_l, Nat.sub_diag in H2 by lia.
  destruct (skipn b l); simpl in *; congruence.
Qed.

Lemma sub_cons {A} (l : list A) a b v :
  a < b -> b <= length l -> nth_error l a = Some v -> sub l a b = v :: sub l (S a) b.
Proof.
  intros H1 H2 H3. rewrite <- (sub_app l a (S a) b) by lia.
  rewrite (sub_snoc l a a v) by (auto; lia). rewrite sub_nil. reflexivity.
Qed.

(* a decomposition of a suffix determines its pieces *)
Lemma skipn_eq_app {A} (l : list A) a u v :
  a <= length l -> skipn a l = u ++ v ->
  a + length u <= length l /\ u = sub l a (a + length u) /\ v = skipn (a + length u) l.
Proof.
  intros H E.
  assert (Hl : length l - a = length u + length v) by (rewrite <- skipn_length, E, app_length; reflexivity).
  split; [lia|].
  unfold sub. replace (a + length u - a) with (length u) by lia.
  rewrite <- skipn_plus, E.
  rewrite firstn_app, Nat.sub_diag, firstn_all, skipn_app, Nat.sub_diag, skipn_all. simpl.
  rewrite app_nil_r. auto.
Qed.

(* ---------------------------------------------------------------- sides of a chunk *)

Lemma old_side_app a b : old_side (a ++ b) = old_side a ++ old_side b.
Proof. unfold old_side. rewrite filter_app, map_app. reflexivity. Qed.
Lemma new_side_app a b : new_side (a ++ b) = new_side a ++ new_side b.
Proof. unfold new_side. rewrite filter_app, map_app. reflexivity. Qed.

Lemma old_side_ctx l : old_side (tagged TCtx l) = l.
Proof. induction l; simpl; unfold old_side in *; simpl; congruence. Qed.
Lemma new_side_ctx l : new_side (tagged TCtx l) = l.
Proof. induction l; simpl; unfold new_side in *; simpl; congruence. Qed.
Lemma old_side_del l : old_side (tagged TDel l) = l.
Proof. induction l; simpl; unfold old_side in *; simpl; congruence. Qed.
Lemma new_side_del l : new_side (tagged TDel l) = [].
Proof. induction l; simpl; unfold new_side in *; simpl; congruence. Qed.
Lemma old_side_add l : old_side (tagged TAdd l) = [].
Proof. induction l; simpl; unfold old_side in *; simpl; congruence. Qed.
Lemma new_side_add l : new_side (tagged TAdd l) = l.
Proof. induction l; simpl; unfold new_side in *; simpl; congruence. Qed.

Lemma nonempty_false {A} (l : list A) : nonempty l = false -> l = [].
Proof. destruct l; simpl; congruence. Qed.

(* ---------------------------------------------------------------- lines *)

Lemma lines_nil_iff d : lines d = [] <-> d = [].
Proof.
  split; [|intros ->; reflexivity].
  destruct d as [|b r]; auto. simpl. destruct (beq b NL); [discriminate|].
  destruct (lines r); discriminate.
Qed.

(* shape of the constant the injectivity of [lines] depends on: the message starts with a
   newline and goes on after it (so a line carrying it has an inner newline, which no
   terminated line has) *)
Lemma no_newline_msg_shape : exists r, no_newline_msg = NL :: r /\ r <> [].
Proof. eexists. split; [reflexivity | discriminate]. Qed.

(* a line of [lines d] is non-empty *)
Lemma lines_nonempty d : Forall (fun l => l <> []) (lines d).
Proof.
  induction d as [|b r IH]; simpl; [constructor|].
  destruct (beq b NL); [constructor; [discriminate | exact IH]|].
  destruct (lines r) eqn:E.
  - constructor; [discriminate | constructor].
  - inversion IH; subst. constructor; [discriminate | assumption].
Qed.

(* the inverse of [lines]: a line is cut at its first newline; the newline is kept only when
   nothing follows it (otherwise what follows is the no-newline message) *)
Fixpoint strip (l : line) : bytes :=
  match l with
  | [] => []
  | b :: r => if beq b NL then (match r with [] => [b] | _ => [] end) else b :: strip r
  end.
Definition unlines (ls : list line) : bytes := concat (map strip ls).

Lemma unlines_lines t : unlines (lines t) = t.
Proof.
  destruct no_newline_msg_shape as (m & Hm & Hm').
  unfold unlines. induction t as [|b r IH]; simpl; [reflexivity|].
  destruct (beq b NL) eqn:Eb.
  - simpl. rewrite Eb. simpl. rewrite IH. reflexivity.
  - destruct (lines r) as [|l ls] eqn:El.
    + apply lines_nil_iff in El. subst r. rewrite Hm. simpl. rewrite Eb. simpl.
      destruct m; [contradiction|]. reflexivity.
    + simpl in *. rewrite Eb. simpl. rewrite IH. reflexivity.
Qed.

Lemma lines_inj a b : lines a = lines b -> a = b.
Proof.
  intro H. rewrite <- (unlines_lines a), <- (unlines_lines b), H. reflexivity.
Qed.

(* ---------------------------------------------------------------- lines, statement by statement *)

(* the separator read from the source is the single byte NL *)
Lemma lines_sep_shape : lines_sep = [NL].
Proof. reflexivity. Qed.

Lemma split_after_nonempty c d : split_after c d <> [].
Proof.
  destruct d as [|b r]; simpl; [discriminate|].
  destruct (beq b c); [discriminate|]. destruct (split_after c r); discriminate.
Qed.

(* drop an empty last piece, or append the message to a non-empty one *)
Fixpoint fix_last (l : list bytes) : list line :=
  match l with
  | [] => []
  | [a] => match a with [] => [] | _ => [a ++ no_newline_msg] end
  | a :: r => a :: fix_last r
  end.

Lemma lines_fix_last d : lines d = fix_last (split_after NL d).
Proof.
  induction d as [|b r IH]; [reflexivity|].
  simpl. destruct (beq b NL) eqn:E.
  - rewrite IH. pose proof (split_after_nonempty NL r).
    destruct (split_after NL r); [contradiction | reflexivity].
  - rewrite IH. pose proof (split_after_nonempty NL r).
    destruct (split_after NL r) as [|l ls]; [contradiction|].
    destruct ls as [|l' ls]; simpl.
    + destruct l; reflexivity.
    + reflexivity.
Qed.

Lemma idx_snoc {A} (l : list A) z : idx (l ++ [z]) (length l) = Ok z.
Proof. unfold idx. rewrite nth_error_app2, Nat.sub_diag by lia. reflexivity. Qed.

Lemma upd_snoc {A} (l : list A) z v : upd (l ++ [z]) (length l) v = Ok (l ++ [v]).
Proof. induction l as [|a l IH]; simpl; [reflexivity|]. rewrite IH. reflexivity. Qed.

Lemma slice_snoc {A} (l : list A) z : slice (l ++ [z]) 0 (length l) = Ok l.
Proof.
  unfold slice. rewrite app_length. simpl.
  destruct (Nat.leb_spec (length l) (length l + 1)); [|lia]. simpl.
  rewrite Nat.sub_0_r, firstn_app, Nat.sub_diag, firstn_all. simpl. rewrite app_nil_r. reflexivity.
Qed.

Lemma fix_last_snoc l z :
  fix_last (l ++ [z]) = l ++ match z with [] => [] | _ => [z ++ no_newline_msg] end.
Proof.
  induction l as [|a l IH]; [reflexivity|].
  simpl. rewrite IH. destruct (l ++ [z]) eqn:E; [|reflexivity].
  destruct l; discriminate.
Qed.

Lemma last_ops_fix_last (l : list bytes) : l <> [] ->
  (do last <- idx l (length l - 1);
   if bytes_eqb last [] then slice l 0 (length l - 1)
   else upd l (length l - 1) (last ++ no_newline_msg)) = Ok (fix_last l).
Proof.
  intro H. destruct (exists_last H) as (init & z & ->).
  rewrite app_length. simpl. replace (length init + 1 - 1) with (length init) by lia.
  rewrite idx_snoc. simpl. rewrite fix_last_snoc.
  destruct z as [|c z]; simpl.
  - rewrite slice_snoc, app_nil_r. reflexivity.
  - rewrite upd_snoc. reflexivity.
Qed.

(* the statement-level version of lines computes [lines] and never panics *)
Theorem lines_go_eq d : lines_go d = Ok (lines d).
Proof.
  unfold lines_go. rewrite lines_sep_shape.
  pose proof (split_after_nonempty NL d) as H.
  unfold sub_chk. destruct (Nat.ltb_spec (length (split_after NL d)) 1) as [Hl | _].
  - destruct (split_after NL d); [contradiction | simpl in Hl; lia].
  - simpl. rewrite lines_fix_last. apply last_ops_fix_last. assumption.
Qed.

(* ---------------------------------------------------------------- what the four Fprintf calls print *)

(* the arguments of the four calls, in the order the model passes them *)
Lemma diff_fprintf_args_shape :
  diff_fprintf_args =
  [ [ [x6f;x6c;x64;x4e;x61;x6d;x65]; [x6e;x65;x77;x4e;x61;x6d;x65] ];   (* oldName, newName *)
    [ [x6f;x6c;x64;x4e;x61;x6d;x65] ];                                  (* oldName *)
    [ [x6e;x65;x77;x4e;x61;x6d;x65] ];                                  (* newName *)
    [ [x63;x68;x75;x6e;x6b;x2e;x78]; [x63;x6f;x75;x6e;x74;x2e;x78];
      [x63;x68;x75;x6e;x6b;x2e;x79]; [x63;x6f;x75;x6e;x74;x2e;x79] ] ]. (* chunk.x, count.x, chunk.y, count.y *)
Proof. reflexivity. Qed.

(* "diff old new\n--- old\n+++ new\n" *)
Lemma render_header_shape oldName newName :
  render_header oldName newName =
  [x64; x69; x66; x66; x20] ++ oldName ++ [x20] ++ newName ++ [x0a] ++
  [x2d; x2d; x2d; x20] ++ oldName ++ [x0a] ++
  [x2b; x2b; x2b; x20] ++ newName ++ [x0a].
Proof.
  unfold render_header. cbv -[app dec].
  repeat (progress (cbn [app]; rewrite <- ?app_assoc)). reflexivity.
Qed.

(* "@@ -sx,cx +sy,cy @@\n" then the chunk lines *)
Lemma render_hunk_shape h :
  render_hunk h =
  [x40; x40; x20; x2d] ++ dec (sx h) ++ [x2c] ++ dec (cx h) ++
  [x20; x2b] ++ dec (sy h) ++ [x2c] ++ dec (cy h) ++ [x20; x40; x40; x0a] ++
  concat (map (fun tl => tag_byte (fst tl) :: snd tl) (body h)).
Proof.
  unfold render_hunk. cbv -[app dec concat map tag_byte sx cx sy cy body fst snd].
  repeat (progress (cbn [app]; rewrite <- ?app_assoc)). reflexivity.
Qed.

(* the consumer (testscript doCmdCmp) hands name1, []byte(text1), name2, []byte(text2) to Diff *)
Lemma cmp_diff_args_shape :
  cmp_diff_args =
  [ [x6e;x61;x6d;x65;x31]; [x5b;x5d;x62;x79;x74;x65;x28;x74;x65;x78;x74;x31;x29];
    [x6e;x61;x6d;x65;x32]; [x5b;x5d;x62;x79;x74;x65;x28;x74;x65;x78;x74;x32;x29] ].
Proof. reflexivity. Qed.

(* ---------------------------------------------------------------- runs of context lines *)

Lemma runs_from_ctx c l : runs_from c (tagged TCtx l) = [c + length l].
Proof.
  revert c. induction l as [|a l IH]; intro c; simpl.
  - rewrite Nat.add_0_r. reflexivity.
  - unfold tagged in IH. rewrite IH. f_equal. lia.
Qed.

Lemma runs_from_app b : forall c, exists pre k,
  runs_from c b = pre ++ [k] /\ forall b', runs_from c (b ++ b') = pre ++ runs_from k b'.
Proof.
  induction b as [|tl b IH]; intro c; simpl.
  - exists [], c. split; [reflexivity|]. intro; reflexivity.
  - destruct (is_ctx tl).
    + apply IH.
    + destruct (IH 0) as (pre & k & E & F). exists (c :: pre), k. split.
      * rewrite E. reflexivity.
      * intro b'. rewrite F. reflexivity.
Qed.

Lemma runs_app b b' pre k : runs b = pre ++ [k] -> runs (b ++ b') = pre ++ runs_from k b'.
Proof.
  intro E. destruct (runs_from_app b 0) as (pre0 & k0 & E0 & F). unfold runs in *.
  rewrite E in E0. apply app_inj_tail in E0 as [-> ->]. apply F.
Qed.

Definition all_change (ch : list (tag * line)) : bool := forallb (fun tl => negb (is_ctx tl)) ch.

Lemma runs_from_changes ch : forall c, ch <> [] -> all_change ch = true ->
  runs_from c ch = c :: repeat 0 (length ch - 1) ++ [0].
Proof.
  induction ch as [|t ch IH]; intros c Hne Hall; [contradiction|].
  simpl in Hall. apply andb_true_iff in Hall as [Ht Hall].
  simpl. destruct (is_ctx t); [discriminate|].
  destruct ch as [|t' ch]; [reflexivity|].
  rewrite IH by (auto; discriminate). simpl. rewrite Nat.sub_0_r. reflexivity.
Qed.

Lemma all_change_del_add xs ys : all_change (tagged TDel xs ++ tagged TAdd ys) = true.
Proof.
  unfold all_change. rewrite forallb_app. apply andb_true_iff. split.
  - induction xs; simpl; auto.
  - induction ys; simpl; auto.
Qed.

(* one pass of the loop body over the chunk: changed lines, then a run of l common lines *)
Lemma runs_step ctext ch l pre cur :
  runs ctext = pre ++ [cur] -> ch <> [] -> all_change ch = true ->
  runs (ctext ++ ch) = (pre ++ cur :: repeat 0 (length ch - 1)) ++ [0] /\
  runs ((ctext ++ ch) ++ tagged TCtx l) = (pre ++ cur :: repeat 0 (length ch - 1)) ++ [length l].
Proof.
  intros E Hne Hall.
  assert (E1 : runs (ctext ++ ch) = (pre ++ cur :: repeat 0 (length ch - 1)) ++ [0]).
  { rewrite (runs_app _ _ _ _ E), runs_from_changes by assumption.
    rewrite <- app_assoc. reflexivity. }
  split; [exact E1|].
  rewrite (runs_app _ _ _ _ E1), runs_from_ctx. reflexivity.
Qed.

Lemma runs_from_no_change b : forall c, has_change b = false -> runs_from c b = [c + length b].
Proof.
  induction b as [|t b IH]; intros c H; simpl in *.
  - rewrite Nat.add_0_r. reflexivity.
  - apply orb_false_iff in H as [H1 H2]. destruct (is_ctx t); [|discriminate].
    rewrite IH by assumption. f_equal. lia.
Qed.

(* a chunk with at least two runs has a changed line *)
Lemma runs_has_change b lead inners trail : runs b = lead :: inners ++ [trail] -> has_change b = true.
Proof.
  intro E. destruct (has_change b) eqn:H; [reflexivity|].
  unfold runs in E. rewrite runs_from_no_change in E by assumption.
  destruct inners; discriminate.
Qed.

(* C08 — the declarative notions the theorems are stated with (definitions only). *)
From Coq Require Import List Bool Arith.
From Coq.Strings Require Import Byte.
From GI Require Import Lib.Bytes Gen.DiffConsts Diff.Diff.
Import ListNotations.

(* the sub-list l[a:b] *)
Definition sub {A} (l : list A) (a b : nat) : list A := firstn (b - a) (skipn a l).

(* printed start line of a range at 0-based position p with c lines *)
Definition pos_of (p c : nat) : nat := if c =? 0 then p else S p.

(* hunks in order from (px,py) on: each sits at a position (p,q) not before the end of the
   previous one, the unchanged gap before it has the same length and the same lines on both
   sides, its printed start lines follow the Go convention for (p,q), its counts are the numbers
   of ' '/'-' resp. ' '/'+' lines of the body, and these lines are x[p:p+cx] resp. y[q:q+cy]
   (so a context line equals the old line and the new line it stands for). *)
Fixpoint wf_from (x y : list line) (px py : nat) (hs : list hunk) : Prop :=
  match hs with
  | [] => True
  | h :: hs' =>
      exists p q,
        px <= p /\ py <= q /\ p - px = q - py /\
        sub x px p = sub y py q /\
        sx h = pos_of p (cx h) /\ sy h = pos_of q (cy h) /\
        cx h = length (old_side (body h)) /\ cy h = length (new_side (body h)) /\
        p + cx h <= length x /\ q + cy h <= length y /\
        old_side (body h) = sub x p (p + cx h) /\
        new_side (body h) = sub y q (q + cy h) /\
        wf_from x y (p + cx h) (q + cy h) hs'
  end.

Definition hunks_wf (x y : list line) (hs : list hunk) : Prop := wf_from x y 0 0 hs.

(* ---------------------------------------------------------------- the context rule *)

Definition is_ctx (tl : tag * line) : bool := match fst tl with TCtx => true | _ => false end.

(* lengths of the maximal runs of context lines of a chunk: the run before the first changed
   line, the runs between changed lines (0 between adjacent ones), the run after the last.
   A chunk with k changed lines has k+1 runs. *)
Fixpoint runs_from (cur : nat) (b : list (tag * line)) : list nat :=
  match b with
  | [] => [cur]
  | tl :: b' => if is_ctx tl then runs_from (S cur) b' else cur :: runs_from 0 b'
  end.
Definition runs (b : list (tag * line)) : list nat := runs_from 0 b.

(* a run of common lines inside a hunk was too short to end the hunk *)
Definition inner_ok (r : nat) : Prop := r = 0 \/ r < 2 * ctxC.

(* The rule Diff implements for one hunk at 0-based positions (p,q):
   - it has at least one changed line (at least two runs);
   - at most ctxC context lines lead, exactly ctxC unless the hunk starts at the top of both files;
   - at most ctxC context lines trail, exactly ctxC unless the hunk ends at the end of both files;
   - every run of common lines in between is shorter than 2*ctxC (so two changes whose common
     run is shorter are in one hunk; with [hunks_wf] and the exact lead/trail counts, two
     consecutive hunks are separated by a common run of at least 2*ctxC lines). *)
Definition hunk_ctx_ok (x y : list line) (h : hunk) : Prop :=
  exists p q lead inners trail,
    start_pos (sx h) (cx h) = Some p /\ start_pos (sy h) (cy h) = Some q /\
    runs (body h) = lead :: inners ++ [trail] /\
    lead <= ctxC /\ (lead = ctxC \/ (p = 0 /\ q = 0)) /\
    Forall inner_ok inners /\
    trail <= ctxC /\ (trail = ctxC \/ (p + cx h = length x /\ q + cy h = length y)).

Definition has_change (b : list (tag * line)) : bool := existsb (fun tl => negb (is_ctx tl)) b.

(* strict order on pairs, in both coordinates *)
Definition lt2 (a b : nat * nat) : Prop := fst a < fst b /\ snd a < snd b.

(* what tgs returns: the two sentinels around pairs that are in range, pair a line occurring
   exactly once in x with its (unique) occurrence in y, and increase strictly in both coordinates *)
Definition tgs_sound_on (x y : list line) : Prop :=
  exists inner,
    tgs x y = Ok ((0, 0) :: inner ++ [(length x, length y)]) /\
    Forall (fun p => exists s, nth_error x (fst p) = Some s /\ nth_error y (snd p) = Some s /\
                               count_line x s = 1 /\ count_line y s = 1) inner /\
    (forall i j, i < j -> j < length inner -> lt2 (nth i inner (0, 0)) (nth j inner (0, 0))).

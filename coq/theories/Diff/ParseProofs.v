(* C08 — [parse_render] inverts [render] on hunks whose counts match their bodies and whose
   lines are lines of texts; hence the bytes Diff returns determine its hunks. *)
From Coq Require Import List Bool Arith ZArith Lia DecimalNat.
From Coq.Strings Require Import Byte.
From GI Require Import Lib.Bytes Gen.DiffConsts Diff.Diff Diff.DiffSpec Diff.DiffBase Diff.DiffParse.
Import ListNotations.

(* ---------------------------------------------------------------- lines *)

Definition nonl (p : bytes) : Prop := Forall (fun b => b <> NL) p.

(* what a line of a text looks like: terminated, or carrying a backslash-marker after its newline *)
Definition line_ok (l : line) : Prop :=
  exists p, nonl p /\
    (l = p ++ [NL] \/ exists m, nonl m /\ l = p ++ NL :: x5c :: m ++ [NL]).

Lemma msg_marker_shape : exists m, no_newline_msg = NL :: x5c :: m ++ [NL] /\
  forallb (fun b => negb (beq b NL)) m = true.
Proof. exists (removelast (skipn 2 no_newline_msg)). split; reflexivity. Qed.

Lemma forallb_nonl m : forallb (fun b => negb (beq b NL)) m = true -> nonl m.
Proof.
  intro H. apply Forall_forall. intros b Hb E. rewrite forallb_forall in H.
  specialize (H b Hb). subst b. rewrite beq_refl in H. discriminate.
Qed.

Lemma lines_line_ok t : Forall line_ok (lines t).
Proof.
  destruct msg_marker_shape as (m0 & Hm & Hm').
  induction t as [|b r IH]; simpl; [constructor|].
  destruct (beq b NL) eqn:E.
  - apply beq_true_iff in E. subst b. constructor; [|exact IH].
    exists []. split; [constructor|]. left. reflexivity.
  - assert (Hb : b <> NL). { intro; subst b. rewrite beq_refl in E. discriminate. }
    destruct (lines r) as [|l ls] eqn:El.
    + constructor; [|constructor]. exists [b]. split; [repeat constructor; assumption|].
      right. exists m0. split; [apply forallb_nonl; assumption|]. rewrite Hm. reflexivity.
    + inversion IH as [|? ? (p & Hp & Hl) Hls]; subst. constructor; [|assumption].
      exists (b :: p). split; [constructor; assumption|].
      destruct Hl as [-> | (m & Hmm & ->)]; [left; reflexivity|].
      right. exists m. split; [assumption | reflexivity].
Qed.

Lemma take_line_app p rest : nonl p -> take_line (p ++ NL :: rest) = Some (p ++ [NL], rest).
Proof.
  induction 1 as [|b p Hb Hp IH]; simpl.
  - reflexivity.
  - destruct (beq b NL) eqn:E; [apply beq_true_iff in E; contradiction|].
    rewrite IH. reflexivity.
Qed.

(* what may follow a chunk line: not a backslash *)
Definition no_marker (rest : bytes) : Prop :=
  match rest with c :: _ => c <> x5c | [] => True end.

Lemma take_body_line_ok l rest : line_ok l -> no_marker rest ->
  take_body_line (l ++ rest) = Some (l, rest).
Proof.
  intros (p & Hp & Hl) Hr. unfold take_body_line.
  destruct Hl as [-> | (m & Hm & ->)].
  - rewrite <- app_assoc. simpl. rewrite take_line_app by assumption.
    destruct rest as [|c rest]; [reflexivity|]. simpl in Hr.
    destruct (beq c x5c) eqn:E; [apply beq_true_iff in E; contradiction | reflexivity].
  - rewrite <- app_assoc. simpl. rewrite take_line_app by assumption.
    change (beq x5c x5c) with true. cbv iota.
    replace (x5c :: (m ++ [NL]) ++ rest) with ((x5c :: m) ++ NL :: rest)
      by (simpl; rewrite <- app_assoc; reflexivity).
    rewrite take_line_app by (constructor; [discriminate | assumption]).
    f_equal. f_equal. simpl. rewrite <- !app_assoc. reflexivity.
Qed.

(* ---------------------------------------------------------------- chunk bodies *)

Definition render_body (b : list (tag * line)) : bytes :=
  concat (map (fun tl => tag_byte (fst tl) :: snd tl) b).

Lemma tag_of_tag_byte t : tag_of_byte (tag_byte t) = Some t.
Proof. destruct t; reflexivity. Qed.

Lemma no_marker_body b rest : no_marker rest -> no_marker (render_body b ++ rest).
Proof.
  destruct b as [|[t l] b]; simpl; [auto|]. intros _. destruct t; discriminate.
Qed.

Lemma render_body_cons t l b : render_body ((t, l) :: b) = tag_byte t :: l ++ render_body b.
Proof. reflexivity. Qed.

Lemma parse_body_render b : forall fuel rest,
  Forall line_ok (map snd b) -> no_marker rest ->
  length (old_side b) + length (new_side b) <= fuel ->
  parse_body fuel (length (old_side b)) (length (new_side b)) (render_body b ++ rest) = Some (b, rest).
Proof.
  induction b as [|[t l] b IH]; intros fuel rest Hok Hr Hf.
  - destruct fuel; reflexivity.
  - inversion Hok as [|? ? Hl Hok']; subst.
    assert (Hstep : take_body_line (l ++ render_body b ++ rest) = Some (l, render_body b ++ rest)).
    { apply take_body_line_ok; [assumption | apply no_marker_body; assumption]. }
    rewrite render_body_cons. cbn [app]. rewrite <- app_assoc.
    destruct t.
    + change (length (old_side ((TCtx, l) :: b))) with (S (length (old_side b))) in *.
      change (length (new_side ((TCtx, l) :: b))) with (S (length (new_side b))) in *.
      destruct fuel as [|fu]; [lia|].
      cbn [parse_body Nat.eqb andb]. rewrite tag_of_tag_byte, Hstep. cbv beta iota zeta.
      rewrite IH by (auto; lia). reflexivity.
    + change (length (old_side ((TDel, l) :: b))) with (S (length (old_side b))) in *.
      change (length (new_side ((TDel, l) :: b))) with (length (new_side b)) in *.
      destruct fuel as [|fu]; [lia|].
      cbn [parse_body Nat.eqb andb]. rewrite tag_of_tag_byte, Hstep. cbv beta iota zeta.
      rewrite IH by (auto; lia). reflexivity.
    + change (length (old_side ((TAdd, l) :: b))) with (length (old_side b)) in *.
      change (length (new_side ((TAdd, l) :: b))) with (S (length (new_side b))) in *.
      destruct fuel as [|fu]; [lia|].
      cbn [parse_body]. rewrite andb_false_r. rewrite tag_of_tag_byte, Hstep. cbv beta iota zeta.
      rewrite IH by (auto; lia). destruct (length (old_side b)); reflexivity.
Qed.

(* ---------------------------------------------------------------- decimals *)

Definition no_digit (rest : bytes) : Prop :=
  match rest with c :: _ => digit_of c = None | [] => True end.

Lemma read_uint_bytes u : forall rest, no_digit rest -> read_uint (uint_bytes u ++ rest) = (u, rest).
Proof.
  induction u; intros rest Hr; simpl; try (rewrite IHu by assumption; reflexivity).
  destruct rest as [|c rest]; [reflexivity|]. simpl in Hr. simpl. rewrite Hr. reflexivity.
Qed.

Lemma revapp_nonNil d : forall d', (d <> Decimal.Nil \/ d' <> Decimal.Nil) -> Decimal.revapp d d' <> Decimal.Nil.
Proof.
  induction d; intros d' H; simpl; try (apply IHd; right; discriminate).
  destruct H; [contradiction | assumption].
Qed.

Lemma little_succ_nonNil d : Decimal.Little.succ d <> Decimal.Nil.
Proof. destruct d; simpl; discriminate. Qed.

Lemma to_little_nonNil n : forall acc, acc <> Decimal.Nil -> Nat.to_little_uint n acc <> Decimal.Nil.
Proof.
  induction n as [|n IH]; intros acc H; simpl; [assumption|]. apply IH. apply little_succ_nonNil.
Qed.

Lemma to_uint_nonNil n : Nat.to_uint n <> Decimal.Nil.
Proof.
  unfold Nat.to_uint, Decimal.rev. apply revapp_nonNil. left. apply to_little_nonNil. discriminate.
Qed.

Lemma parse_dec_dec n rest : no_digit rest -> parse_dec (dec n ++ rest) = Some (n, rest).
Proof.
  intro H. unfold parse_dec, dec. rewrite read_uint_bytes by assumption.
  pose proof (to_uint_nonNil n). pose proof (Unsigned.of_to n) as E.
  remember (Nat.to_uint n) as u. destruct u; try contradiction; rewrite E; reflexivity.
Qed.

(* ---------------------------------------------------------------- the hunk header *)

Local Opaque dec parse_dec.

Lemma sscanf_hunk a b c e rest :
  sscanf fmt_hunk (sprintf fmt_hunk [ANat a; ANat b; ANat c; ANat e] ++ rest) = Some ([a; b; c; e], rest).
Proof.
  assert (H : sprintf fmt_hunk [ANat a; ANat b; ANat c; ANat e] =
              [x40; x40; x20; x2d] ++ dec a ++ [x2c] ++ dec b ++ [x20; x2b] ++ dec c ++ [x2c] ++ dec e ++
              [x20; x40; x40; x0a]).
  { cbv -[app dec]. reflexivity. }
  rewrite H. repeat (progress (cbn [app]; rewrite <- ?app_assoc)).
  cbv -[app dec parse_dec].
  rewrite parse_dec_dec by reflexivity.
  rewrite parse_dec_dec by reflexivity.
  rewrite parse_dec_dec by reflexivity.
  rewrite parse_dec_dec by reflexivity.
  reflexivity.
Qed.

(* ---------------------------------------------------------------- hunks *)

Definition hunk_ok (h : hunk) : Prop :=
  cx h = length (old_side (body h)) /\ cy h = length (new_side (body h)) /\
  Forall line_ok (map snd (body h)).

Lemma render_hunk_body h :
  render_hunk h = sprintf fmt_hunk [ANat (sx h); ANat (cx h); ANat (sy h); ANat (cy h)] ++ render_body (body h).
Proof. reflexivity. Qed.

Lemma parse_hunk_render h rest : hunk_ok h -> no_marker rest ->
  parse_hunk (render_hunk h ++ rest) = Some (h, rest).
Proof.
  intros (H1 & H2 & H3) Hr. unfold parse_hunk.
  rewrite render_hunk_body, <- app_assoc, sscanf_hunk.
  rewrite H1, H2, parse_body_render by (auto; lia).
  destruct h; simpl in *. subst. reflexivity.
Qed.

Lemma render_hunk_head h : exists t, render_hunk h = x40 :: t.
Proof. rewrite render_hunk_shape. simpl. eauto. Qed.

Lemma parse_hunks_render hs : forall fuel,
  Forall hunk_ok hs -> length (concat (map render_hunk hs)) <= fuel ->
  parse_hunks fuel (concat (map render_hunk hs)) = Some hs.
Proof.
  induction hs as [|h hs IH]; intros fuel Hok Hf.
  - destruct fuel; reflexivity.
  - inversion Hok as [|? ? Hh Hok']; subst.
    cbn [map concat] in *.
    assert (Hnm : no_marker (concat (map render_hunk hs))).
    { destruct hs as [|h' hs']; cbn [map concat]; [exact I|].
      destruct (render_hunk_head h') as (t' & ->). simpl. discriminate. }
    pose proof (parse_hunk_render h _ Hh Hnm) as Ep.
    destruct (render_hunk_head h) as (t & Et).
    rewrite app_length in Hf.
    assert (Hlen : 1 <= length (render_hunk h)) by (rewrite Et; simpl; lia).
    destruct fuel as [|fu]; [lia|].
    remember (render_hunk h ++ concat (map render_hunk hs)) as d eqn:Ed.
    assert (Hd : exists c d', d = c :: d') by (rewrite Ed, Et; simpl; eauto).
    destruct Hd as (c & d' & Hd).
    rewrite Hd. cbn [parse_hunks]. rewrite <- Hd, Ep.
    rewrite IH by (auto; lia). reflexivity.
Qed.

Lemma strip_prefix_app p d : strip_prefix p (p ++ d) = Some d.
Proof.
  induction p as [|a p IH]; simpl; [destruct d; reflexivity|]. rewrite beq_refl. exact IH.
Qed.

(* the printed bytes determine the hunks *)
Theorem parse_render_render oldName newName hs : Forall hunk_ok hs ->
  parse_render oldName newName (render oldName newName hs) = Some hs.
Proof.
  intro H. unfold parse_render, render. rewrite strip_prefix_app.
  apply parse_hunks_render; [assumption | lia].
Qed.

Corollary render_inj oldName newName hs hs' : Forall hunk_ok hs -> Forall hunk_ok hs' ->
  render oldName newName hs = render oldName newName hs' -> hs = hs'.
Proof.
  intros H H' E. pose proof (parse_render_render oldName newName hs H) as P.
  rewrite E, (parse_render_render oldName newName hs' H') in P. congruence.
Qed.

(* C08 — third wave: direct readings of the property sentence.
   * every difference between the two texts lies inside a hunk: both texts are the SAME sequence
     of unchanged gaps, interleaved with the old sides resp. the new sides of the hunks
     ([hunks_cover_changes]), and line by line ([outside_hunks_equal]);
   * the returned bytes are literally the three header lines, with the file names copied as data
     whatever bytes they contain, followed by the rendered hunks ([diff_bytes_shape]);
   * end to end on TEXTS: the returned bytes, read back and applied to the old text, give the new
     text byte for byte, and in reverse the old one, final newline or not ([text_patch]);
   * a fact about the algorithm: diffing in the other direction is NOT the reversed diff
     ([rediff_is_not_reverse]); "applied in reverse" is about [swap_hunks], not about Diff(new, old). *)
From Coq Require Import List Bool Arith ZArith Lia.
From Coq.Strings Require Import Byte.
From GI Require Import Lib.Bytes Gen.DiffConsts Diff.Diff Diff.DiffSpec Diff.DiffBase Diff.DiffProofs
  Diff.TgsProofs Diff.DiffParse Diff.ParseProofs Diff.CtxFacts Diff.BytesFacts Diff.DiffFacts.
Import ListNotations.

(* ---------------------------------------------------------------- gaps and sides *)

(* g0 ++ s1 ++ g1 ++ s2 ++ ... ++ sn ++ gn *)
Fixpoint weave (gaps sides : list (list line)) : list line :=
  match gaps, sides with
  | g :: gs, s :: ss => g ++ s ++ weave gs ss
  | g :: _, [] => g
  | [], _ => []
  end.

Definition old_sides (hs : list hunk) : list (list line) := map (fun h => old_side (body h)) hs.
Definition new_sides (hs : list hunk) : list (list line) := map (fun h => new_side (body h)) hs.

Lemma hunks_rel_weave hs : forall px py xs ys,
  hunks_rel px py xs ys hs ->
  exists gaps, length gaps = S (length hs) /\
               xs = weave gaps (old_sides hs) /\ ys = weave gaps (new_sides hs).
Proof.
  induction hs as [|h hs IH]; intros px py xs ys H; simpl in H.
  - exists [xs]. subst ys. repeat split.
  - destruct H as (g & xs' & ys' & Hx & Hy & _ & _ & _ & _ & Hr).
    destruct (IH _ _ _ _ Hr) as (gaps & Hl & Hxs & Hys).
    exists (g :: gaps). split; [simpl; congruence|].
    unfold old_sides, new_sides in *. simpl. rewrite <- Hxs, <- Hys. split; assumption.
Qed.

(* Both texts are the same gaps around the two sides of the hunks: outside the hunks nothing differs. *)
Theorem hunks_cover_changes : forall x y hs, diff_hunks x y = Ok hs ->
  exists gaps, length gaps = S (length hs) /\
               x = weave gaps (old_sides hs) /\ y = weave gaps (new_sides hs).
Proof.
  intros x y hs E. destruct (diff_hunks_rel x y) as (hs' & E' & R & _).
  rewrite E in E'. inversion E'; subst hs'. eapply hunks_rel_weave; eauto.
Qed.

(* ---------------------------------------------------------------- line by line *)

(* 0-based line i lies in the old (new) range of some hunk *)
Definition in_old_range (hs : list hunk) (i : nat) : Prop :=
  exists h p, In h hs /\ start_pos (sx h) (cx h) = Some p /\ p <= i < p + cx h.
Definition in_new_range (hs : list hunk) (j : nat) : Prop :=
  exists h q, In h hs /\ start_pos (sy h) (cy h) = Some q /\ q <= j < q + cy h.

Lemma hunks_rel_starts hs : forall px py xs ys, hunks_rel px py xs ys hs ->
  forall h q, In h hs -> start_pos (sy h) (cy h) = Some q -> py <= q.
Proof.
  induction hs as [|h0 hs IH]; intros px py xs ys H h q Hin Hq; [contradiction|].
  simpl in H. destruct H as (g & xs' & ys' & _ & _ & _ & _ & _ & Hsy & Hr).
  destruct Hin as [<-|Hin].
  - rewrite Hsy, start_pos_pos_of in Hq. inversion Hq. lia.
  - pose proof (IH _ _ _ _ Hr h q Hin Hq). lia.
Qed.

Lemma nth_error_app_l {A} (l l' : list A) i : i < length l -> nth_error (l ++ l') i = nth_error l i.
Proof. intro H. apply nth_error_app1. exact H. Qed.

Lemma hunks_rel_outside hs : forall px py xs ys, hunks_rel px py xs ys hs ->
  forall i, i < length xs -> ~ in_old_range hs (px + i) ->
  exists j, j < length ys /\ nth_error ys j = nth_error xs i /\ ~ in_new_range hs (py + j).
Proof.
  induction hs as [|h hs IH]; intros px py xs ys H i Hi Hout; simpl in H.
  - subst ys. exists i. repeat split; auto. intros (h & q & [] & _).
  - destruct H as (g & xs' & ys' & Hx & Hy & Hcx & Hcy & Hsx & Hsy & Hr).
    assert (Hp : start_pos (sx h) (cx h) = Some (px + length g)) by (rewrite Hsx; apply start_pos_pos_of).
    assert (Hq : start_pos (sy h) (cy h) = Some (py + length g)) by (rewrite Hsy; apply start_pos_pos_of).
    destruct (Nat.lt_ge_cases i (length g)) as [Hg|Hg].
    + (* inside the gap before the hunk *)
      exists i. subst xs ys. rewrite !nth_error_app_l by assumption.
      split; [rewrite app_length; lia|]. split; [reflexivity|].
      intros (h' & q & [<-|Hin] & Hq' & Hr').
      * rewrite Hq in Hq'. inversion Hq'. lia.
      * pose proof (hunks_rel_starts _ _ _ _ _ Hr h' q Hin Hq'). lia.
    + destruct (Nat.lt_ge_cases i (length g + cx h)) as [Hc|Hc].
      * exfalso. apply Hout. exists h, (px + length g). split; [left; reflexivity|]. split; [exact Hp|lia].
      * (* behind the hunk *)
        assert (Hi' : i - length g - cx h < length xs').
        { subst xs. rewrite !app_length in Hi. lia. }
        destruct (IH _ _ _ _ Hr (i - length g - cx h) Hi') as (j & Hj & Hn & Ho).
        { intros (h' & p & Hin & Hp' & Hr'). apply Hout. exists h', p. split; [right; exact Hin|].
          split; [exact Hp'|lia]. }
        exists (length g + cy h + j). subst xs ys.
        split; [rewrite !app_length; lia|]. split.
        -- rewrite nth_error_app2 by lia. rewrite nth_error_app2 by lia.
           rewrite (nth_error_app2 g) by lia. rewrite (nth_error_app2 (old_side (body h))) by lia.
           etransitivity; [|etransitivity; [exact Hn|]]; f_equal; lia.
        -- intros (h' & q & [<-|Hin] & Hq' & Hr').
           ++ rewrite Hq in Hq'. inversion Hq'. lia.
           ++ apply Ho. exists h', q. split; [exact Hin|]. split; [exact Hq'|lia].
Qed.

(* A line of the old text that is in no hunk is a line of the new text that is in no hunk:
   every place where the texts differ is inside a hunk. *)
Theorem outside_hunks_equal : forall x y hs i, diff_hunks x y = Ok hs ->
  i < length x -> ~ in_old_range hs i ->
  exists j, j < length y /\ nth_error y j = nth_error x i /\ ~ in_new_range hs j.
Proof.
  intros x y hs i E Hi Hout. destruct (diff_hunks_rel x y) as (hs' & E' & R & _).
  rewrite E in E'. inversion E'; subst hs'.
  exact (hunks_rel_outside hs 0 0 x y R i Hi Hout).
Qed.

(* ---------------------------------------------------------------- the bytes, literally *)

Theorem diff_bytes_shape : forall oldName old newName new out,
  diff oldName old newName new = Ok out -> old <> new ->
  exists hs, diff_hunks (lines old) (lines new) = Ok hs /\ hs <> [] /\
    out = [x64; x69; x66; x66; x20] ++ oldName ++ [x20] ++ newName ++ [x0a] ++
          [x2d; x2d; x2d; x20] ++ oldName ++ [x0a] ++
          [x2b; x2b; x2b; x20] ++ newName ++ [x0a] ++
          concat (map render_hunk hs).
Proof.
  intros on old nn new out E Hne.
  destruct (diff_bytes_parse _ _ _ _ _ E Hne) as (hs & Eh & Eo & _).
  exists hs. split; [exact Eh|]. split.
  - intro Hnil. subst hs. apply Hne. apply diff_hunks_nonempty. exact Eh.
  - subst out. unfold render. rewrite render_header_shape. rewrite <- !app_assoc. reflexivity.
Qed.

(* ---------------------------------------------------------------- end to end on texts *)

Definition patch_text (oldName newName out old : bytes) : option bytes :=
  option_map unlines (patch_bytes oldName newName out (lines old)).
Definition unpatch_text (oldName newName out new : bytes) : option bytes :=
  option_map unlines (unpatch_bytes oldName newName out (lines new)).

Theorem text_patch : forall oldName old newName new out,
  diff oldName old newName new = Ok out ->
  patch_text oldName newName out old = Some new /\
  unpatch_text oldName newName out new = Some old.
Proof.
  intros on old nn new out E. destruct (bytes_patch _ _ _ _ _ E) as (Hp & Hu).
  unfold patch_text, unpatch_text. rewrite Hp, Hu. simpl. rewrite !unlines_lines. split; reflexivity.
Qed.

(* the consumer, at the level of texts: what a failing cmp / cmpenv logs turns the text of the
   first file into the text it was compared with (for cmpenv the expanded one), and back *)
Theorem cmp_logged_diff_text : forall (expand : bytes -> bytes) env name1 name2 text1 data2 d,
  do_cmp expand false env name1 name2 text1 data2 = CmpFail d ->
  patch_text name1 name2 d text1 = Some (cmp_compared expand env data2) /\
  unpatch_text name1 name2 d (cmp_compared expand env data2) = Some text1.
Proof.
  intros expand env n1 n2 t1 d2 d E.
  destruct (cmp_logged_diff_patches expand env n1 n2 t1 d2 d E) as (_ & _ & Hp & Hu).
  unfold patch_text, unpatch_text. rewrite Hp, Hu. simpl. rewrite !unlines_lines. split; reflexivity.
Qed.

(* ---------------------------------------------------------------- Diff(new, old) is not the reversed diff *)

Definition removed (hs : list hunk) : list line :=
  concat (map (fun h => map snd (filter (fun tl => match fst tl with TDel => true | _ => false end) (body h))) hs).
Definition added (hs : list hunk) : list line :=
  concat (map (fun h => map snd (filter (fun tl => match fst tl with TAdd => true | _ => false end) (body h))) hs).

(* "b\nc\n" against "c\nb\n": forward Diff keeps one of the two lines, Diff in the other direction
   keeps the other one *)
Theorem rediff_is_not_reverse : exists x y hs hs',
  diff_hunks x y = Ok hs /\ diff_hunks y x = Ok hs' /\ removed hs' <> added hs.
Proof.
  exists [[x62; x0a]; [x63; x0a]], [[x63; x0a]; [x62; x0a]].
  eexists. eexists. split; [vm_compute; reflexivity|]. split; [vm_compute; reflexivity|].
  vm_compute. discriminate.
Qed.

(* ---------------------------------------------------------------- Examples (non-vacuity) *)

(* the gaps of the example pair of DiffFacts.v: one hunk, nothing before it, nothing behind it *)
Example ex_cover :
  match diff_hunks (lines ex_old) (lines ex_new) with
  | Ok hs => lines ex_old = weave [[]; []] (old_sides hs) /\ lines ex_new = weave [[]; []] (new_sides hs)
  | _ => False
  end.
Proof. vm_compute. split; reflexivity. Qed.

(* two hunks far apart: the gap between them is common to both texts *)
Definition ex_far_old : list line := map (fun b => [b; x0a]) [x61;x62;x63;x64;x65;x66;x67;x68;x69;x6a;x6b;x6c].
Definition ex_far_new : list line := map (fun b => [b; x0a]) [x41;x62;x63;x64;x65;x66;x67;x68;x69;x6a;x6b;x4c].
Example ex_cover_two :
  match diff_hunks ex_far_old ex_far_new with
  | Ok hs => length hs = 2 /\
             ex_far_old = weave [[]; map (fun b => [b; x0a]) [x65;x66;x67;x68]; []] (old_sides hs) /\
             ex_far_new = weave [[]; map (fun b => [b; x0a]) [x65;x66;x67;x68]; []] (new_sides hs) /\
             ~ in_old_range hs 5 /\ in_old_range hs 0
  | _ => False
  end.
Proof.
  vm_compute. split; [reflexivity|]. split; [reflexivity|]. split; [reflexivity|]. split.
  - intros (h & p & Hin & Hp & Hr). destruct Hin as [<-|[<-|[]]]; vm_compute in Hp; inversion Hp; subst p; simpl in Hr; lia.
  - eexists. exists 0. split; [left; reflexivity|]. split; [vm_compute; reflexivity|]. simpl. lia.
Qed.

(* text level, with a text that lacks its final newline and file names full of printf verbs *)
Example ex_text_patch :
  match diff [x25; x64] ex_old [x25; x73; x25] ex_new with
  | Ok out => patch_text [x25; x64] [x25; x73; x25] out ex_old = Some ex_new /\
              unpatch_text [x25; x64] [x25; x73; x25] out ex_new = Some ex_old /\
              firstn 12 out = [x64; x69; x66; x66; x20; x25; x64; x20; x25; x73; x25; x0a]
  | _ => False
  end.
Proof. vm_compute. repeat split. Qed.

(* the consumer at text level: cmpenv with V=x, file a = "x\nsame\n", file b = "$V\nother" (no final newline) *)
Example ex_cmp_text :
  let expand := fun d : bytes => match d with x24 :: x56 :: r => x78 :: r | _ => d end in
  let a := [x78; x0a; x73; x0a] in
  let b := [x24; x56; x0a; x6f] in
  match do_cmp expand false true [x61] [x62] a b with
  | CmpFail d => patch_text [x61] [x62] d a = Some [x78; x0a; x6f] /\ unpatch_text [x61] [x62] d [x78; x0a; x6f] = Some a
  | _ => False
  end.
Proof. vm_compute. split; reflexivity. Qed.

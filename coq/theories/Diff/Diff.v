(* C08 — executable model of /repo/diff/diff.go (Diff, lines, tgs).  Definitions only.

   Conventions of this model
   * Lines are [bytes]; Go string equality is [bytes_eqb].
   * Go ints that are indexes / lengths are [nat]; the values of the occurrence map are [Z]
     (they go negative).  Every Go subtraction of ints that the nat model would silently
     truncate is a CHECKED subtraction [sub_chk] returning [Panic] when it would go negative,
     and every index / slice expression is a checked [idx] / [upd] / [slice].  [slice] checks
     against the LENGTH, Go checks against the capacity: the model is stricter, so "the model
     never reaches Panic" implies that no Go bound check fires.
   * while-loops that are not structurally recursive take fuel; running out of it is the
     explicit value [OutOfFuel].  The theorems show that [Ok] is the only result reached. *)
From Coq Require Import List Bool Arith ZArith Lia.
From Coq.Strings Require Import Byte.
From GI Require Import Lib.Bytes Gen.DiffConsts.
Import ListNotations.

Definition line := bytes.

(* ---------------------------------------------------------------- results *)

Inductive res (A : Type) : Type :=
| Ok (a : A)
| Panic
| OutOfFuel.
Arguments Ok {A} a.
Arguments Panic {A}.
Arguments OutOfFuel {A}.

Definition bind {A B : Type} (r : res A) (f : A -> res B) : res B :=
  match r with
  | Ok a => f a
  | Panic => Panic
  | OutOfFuel => OutOfFuel
  end.

Notation "'do' x <- e ; f" := (bind e (fun x => f))
  (at level 200, x name, e at level 100, f at level 200, right associativity).

(* l[i] *)
Definition idx {A : Type} (l : list A) (i : nat) : res A :=
  match nth_error l i with
  | Some a => Ok a
  | None => Panic
  end.

(* l[i] = v *)
Fixpoint upd {A : Type} (l : list A) (i : nat) (v : A) : res (list A) :=
  match l, i with
  | [], _ => Panic
  | _ :: l', 0 => Ok (v :: l')
  | a :: l', S i' => do r <- upd l' i' v; Ok (a :: r)
  end.

(* l[a:b] *)
Definition slice {A : Type} (l : list A) (a b : nat) : res (list A) :=
  if (a <=? b) && (b <=? length l) then Ok (firstn (b - a) (skipn a l)) else Panic.

(* a - b on Go ints, where a negative result would be an error of the algorithm *)
Definition sub_chk (a b : nat) : res nat :=
  if a <? b then Panic else Ok (a - b).

(* ---------------------------------------------------------------- lines *)

(* Go: strings.SplitAfter(x, "\n"); a trailing empty piece is dropped, otherwise the
   (unterminated) last piece gets [no_newline_msg] appended. *)
Fixpoint lines (d : bytes) : list line :=
  match d with
  | [] => []
  | b :: r =>
      if beq b NL then [b] :: lines r
      else match lines r with
           | [] => [b :: no_newline_msg]
           | l :: ls => (b :: l) :: ls
           end
  end.

(* The same function statement by statement:
     l := strings.SplitAfter(string(x), "\n")
     if l[len(l)-1] == "" { l = l[:len(l)-1] } else { l[len(l)-1] += "\n\\ No newline at end of file\n" }
     return l
   strings.SplitAfter with a one-byte separator: the pieces end after each separator, the last
   piece is what remains (possibly empty); there is always at least one piece. *)
Fixpoint split_after (c : byte) (d : bytes) : list bytes :=
  match d with
  | [] => [[]]
  | b :: r =>
      if beq b c then [b] :: split_after c r
      else match split_after c r with
           | l :: ls => (b :: l) :: ls
           | [] => [[b]]
           end
  end.

Definition lines_go (d : bytes) : res (list line) :=
  match lines_sep with
  | [c] =>
      let l := split_after c d in
      do k <- sub_chk (length l) 1;
      do last <- idx l k;
      if bytes_eqb last [] then slice l 0 k
      else upd l k (last ++ no_newline_msg)
  | _ => Panic   (* separators of other lengths are not modelled *)
  end.

(* ---------------------------------------------------------------- tgs *)

(* map[string]int as an association list; m[s] of a missing key is 0 *)
Definition smap := list (line * Z).

Fixpoint mget (m : smap) (s : line) : option Z :=
  match m with
  | [] => None
  | (k, v) :: m' => if bytes_eqb k s then Some v else mget m' s
  end.

Fixpoint mset (m : smap) (s : line) (v : Z) : smap :=
  match m with
  | [] => [(s, v)]
  | (k, w) :: m' => if bytes_eqb k s then (k, v) :: m' else (k, w) :: mset m' s v
  end.

Definition mget0 (m : smap) (s : line) : Z :=
  match mget m s with Some v => v | None => 0%Z end.

(* if c := m[s]; c > -2 { m[s] = c - 1 } *)
Definition count_x (m : smap) (s : line) : smap :=
  let c := mget0 m s in if (-2 <? c)%Z then mset m s (c - 1)%Z else m.

(* if c := m[s]; c > -8 { m[s] = c - 4 } *)
Definition count_y (m : smap) (s : line) : smap :=
  let c := mget0 m s in if (-8 <? c)%Z then mset m s (c - 4)%Z else m.

(* for i, s := range y { if m[s] == -1+-4 { m[s] = len(yi); yi = append(yi, i) } } *)
Fixpoint gather_y (ys : list line) (i : nat) (m : smap) (yi : list nat) : smap * list nat :=
  match ys with
  | [] => (m, yi)
  | s :: r =>
      if (mget0 m s =? -5)%Z
      then gather_y r (S i) (mset m s (Z.of_nat (length yi))) (yi ++ [i])
      else gather_y r (S i) m yi
  end.

(* for i, s := range x { if j, ok := m[s]; ok && j >= 0 { xi = append(xi, i); inv = append(inv, j) } } *)
Fixpoint gather_x (xs : list line) (i : nat) (m : smap) (xi inv : list nat) : list nat * list nat :=
  match xs with
  | [] => (xi, inv)
  | s :: r =>
      match mget m s with
      | Some j =>
          if (0 <=? j)%Z then gather_x r (S i) m (xi ++ [i]) (inv ++ [Z.to_nat j])
          else gather_x r (S i) m xi inv
      | None => gather_x r (S i) m xi inv
      end
  end.

(* sort.Search: i, j := 0, n; for i < j { h := int(uint(i+j) >> 1); if !f(h) { i = h+1 } else { j = h } }; return i *)
Fixpoint search_loop (fuel : nat) (f : nat -> res bool) (i j : nat) : res nat :=
  if i <? j then
    match fuel with
    | 0 => OutOfFuel
    | S fu =>
        let h := Nat.div2 (i + j) in
        do b <- f h;
        if negb b then search_loop fu f (h + 1) j else search_loop fu f i h
    end
  else Ok i.

Definition sort_search (n : nat) (f : nat -> res bool) : res nat := search_loop n f 0 n.

(* for i := range n { k := sort.Search(n, func(k) bool { return T[k] >= J[i] }); T[k] = J[i]; L[i] = k+1 } *)
Fixpoint patience (is : list nat) (n : nat) (J T L : list nat) : res (list nat * list nat) :=
  match is with
  | [] => Ok (T, L)
  | i :: r =>
      do ji <- idx J i;
      do k <- sort_search n (fun k => do tk <- idx T k; Ok (ji <=? tk));
      do T' <- upd T k ji;
      do L' <- upd L i (k + 1);
      patience r n J T' L'
  end.

(* k := 0; for _, v := range L { if k < v { k = v } } *)
Definition max_level (L : list nat) : nat :=
  fold_left (fun k v => if k <? v then v else k) L 0.

(* for i := n-1; i >= 0; i-- { if L[i] == k && J[i] < lastj { seq[k] = pair{xi[i], yi[J[i]]}; k-- } }
   [lastj] is never updated by the Go code; it is kept as a parameter here.
   [k--] is [pred k]: Go's k would become -1 after a match at k = 0, after which nothing can match
   (L holds no negative value) and seq[0] is overwritten by the start sentinel anyway; with [pred]
   further matches at k = 0 only rewrite seq[0], which is overwritten as well — same result. *)
Fixpoint backward (is : list nat) (k lastj : nat) (J L xi yi : list nat) (sq : list (nat * nat))
  : res (list (nat * nat)) :=
  match is with
  | [] => Ok sq
  | i :: r =>
      do li <- idx L i;
      if li =? k then
        do ji <- idx J i;
        if ji <? lastj then
          do a <- idx xi i;
          do b <- idx yi ji;
          do sq' <- upd sq k (a, b);
          backward r (pred k) lastj J L xi yi sq'
        else backward r k lastj J L xi yi sq
      else backward r k lastj J L xi yi sq
  end.

Definition tgs (x y : list line) : res (list (nat * nat)) :=
  let m1 := fold_left count_x x [] in
  let m2 := fold_left count_y y m1 in
  let my := gather_y y 0 m2 [] in
  let m3 := fst my in
  let yi := snd my in
  let xv := gather_x x 0 m3 [] [] in
  let xi := fst xv in
  let J := snd xv in
  let n := length xi in
  let T := repeat (n + 1) n in
  let L := repeat 0 n in
  do TL <- patience (seq 0 n) n J T L;
  let L := snd TL in
  let k := max_level L in
  let sq := repeat (0, 0) (2 + k) in
  do sq <- upd sq (1 + k) (length x, length y);
  do sq <- backward (rev (seq 0 n)) k n J L xi yi sq;
  upd sq 0 (0, 0).

(* ---------------------------------------------------------------- the main loop of Diff *)

Inductive tag := TCtx | TDel | TAdd.

Record hunk := mkHunk {
  sx : nat;   (* printed start line, old side *)
  cx : nat;   (* printed count, old side *)
  sy : nat;
  cy : nat;
  body : list (tag * line)
}.

(* for start.x > done.x && start.y > done.y && x[start.x-1] == y[start.y-1] { start.x--; start.y-- } *)
Fixpoint expand_back (x y : list line) (dx dy sx sy : nat) : res (nat * nat) :=
  match sx with
  | 0 => Ok (sx, sy)
  | S sx' =>
      if (dx <? sx) && (dy <? sy) then
        do a <- idx x sx';
        do b <- idx y (sy - 1);
        if bytes_eqb a b then expand_back x y dx dy sx' (sy - 1) else Ok (sx, sy)
      else Ok (sx, sy)
  end.

(* for end.x < len(x) && end.y < len(y) && x[end.x] == y[end.y] { end.x++; end.y++ } *)
Fixpoint expand_fwd (fuel : nat) (x y : list line) (ex ey : nat) : res (nat * nat) :=
  if (ex <? length x) && (ey <? length y) then
    do a <- idx x ex;
    do b <- idx y ey;
    if bytes_eqb a b then
      match fuel with
      | 0 => OutOfFuel
      | S fu => expand_fwd fu x y (S ex) (S ey)
      end
    else Ok (ex, ey)
  else Ok (ex, ey).

Definition nonempty {A : Type} (l : list A) : bool :=
  match l with [] => false | _ => true end.

Definition tagged (t : tag) (ls : list line) : list (tag * line) := map (pair t) ls.

(* One pass over the matches.  State: done = (dx,dy), chunk = (chx,chy), count = (cntx,cnty),
   ctext.  The hunks are returned in emission order. *)
Fixpoint diff_loop (x y : list line) (ms : list (nat * nat))
    (dx dy chx chy cntx cnty : nat) (ctext : list (tag * line)) : res (list hunk) :=
  match ms with
  | [] => Ok []
  | (mx, my) :: ms' =>
      if mx <? dx then diff_loop x y ms' dx dy chx chy cntx cnty ctext else
      do st <- expand_back x y dx dy mx my;
      do en <- expand_fwd (length x) x y mx my;
      let stx := fst st in let sty := snd st in
      let ex := fst en in let ey := snd en in
      (* mismatched lines before start *)
      do xs1 <- slice x dx stx;
      do ys1 <- slice y dy sty;
      let ctext := ctext ++ tagged TDel xs1 ++ tagged TAdd ys1 in
      let cntx := cntx + length xs1 in
      let cnty := cnty + length ys1 in
      do r <- sub_chk ex stx;   (* end.x - start.x *)
      if ((ex <? length x) || (ey <? length y)) &&
         ((r <? ctxC) || (nonempty ctext && (r <? 2 * ctxC)))
      then
        (* too few common lines: they all go into the chunk, which continues *)
        do xs2 <- slice x stx ex;
        diff_loop x y ms' ex ey chx chy (cntx + length xs2) (cnty + length xs2)
                  (ctext ++ tagged TCtx xs2)
      else
        (* end the chunk with context and emit it *)
        do em <-
          (if nonempty ctext then
             let n := Nat.min r ctxC in
             do xs3 <- slice x stx (stx + n);
             let ctext' := ctext ++ tagged TCtx xs3 in
             let cntx' := cntx + length xs3 in
             let cnty' := cnty + length xs3 in
             Ok (Some (mkHunk (if 0 <? cntx' then S chx else chx) cntx'
                              (if 0 <? cnty' then S chy else chy) cnty' ctext'))
           else Ok None);
        let cntx1 := match em with Some _ => 0 | None => cntx end in
        let cnty1 := match em with Some _ => 0 | None => cnty end in
        let ctext1 := match em with Some _ => [] | None => ctext end in
        do rest <-
          (if (length x <=? ex) && (length y <=? ey) then Ok []   (* break *)
           else
             (* start a new chunk *)
             do chx' <- sub_chk ex ctxC;
             do chy' <- sub_chk ey ctxC;
             do xs4 <- slice x chx' ex;
             diff_loop x y ms' ex ey chx' chy' (cntx1 + length xs4) (cnty1 + length xs4)
                       (ctext1 ++ tagged TCtx xs4));
        Ok (match em with Some h => h :: rest | None => rest end)
  end.

Definition diff_hunks (x y : list line) : res (list hunk) :=
  do ms <- tgs x y;
  diff_loop x y ms 0 0 0 0 0 0 [].

(* ---------------------------------------------------------------- rendering *)

Fixpoint uint_bytes (u : Decimal.uint) : bytes :=
  match u with
  | Decimal.Nil => []
  | Decimal.D0 u => x30 :: uint_bytes u
  | Decimal.D1 u => x31 :: uint_bytes u
  | Decimal.D2 u => x32 :: uint_bytes u
  | Decimal.D3 u => x33 :: uint_bytes u
  | Decimal.D4 u => x34 :: uint_bytes u
  | Decimal.D5 u => x35 :: uint_bytes u
  | Decimal.D6 u => x36 :: uint_bytes u
  | Decimal.D7 u => x37 :: uint_bytes u
  | Decimal.D8 u => x38 :: uint_bytes u
  | Decimal.D9 u => x39 :: uint_bytes u
  end.

(* %d *)
Definition dec (n : nat) : bytes := uint_bytes (Nat.to_uint n).

Definition tag_byte (t : tag) : byte :=
  match t with TCtx => x20 | TDel => x2d | TAdd => x2b end.

(* fmt.Sprintf for the verbs the four format strings of Diff use: %s with a string, %d with an
   int, %% ; anything else prints the marker [bad_verb] (Go prints a %!verb(...) diagnostic; the
   shape lemmas in DiffBase.v show that the marker never appears with the regenerated formats) *)
Inductive farg := AStr (s : bytes) | ANat (n : nat).

Definition bad_verb : bytes := [x25; x21; x28; x42; x41; x44; x56; x45; x52; x42; x29].

Fixpoint sprintf (f : bytes) (args : list farg) : bytes :=
  match f with
  | [] => []
  | c :: r =>
      if beq c x25 then
        match r with
        | v :: r' =>
            if beq v x25 then x25 :: sprintf r' args
            else match args with
                 | AStr s :: args' =>
                     if beq v x73 then s ++ sprintf r' args' else bad_verb ++ sprintf r' args'
                 | ANat n :: args' =>
                     if beq v x64 then dec n ++ sprintf r' args' else bad_verb ++ sprintf r' args'
                 | [] => bad_verb ++ sprintf r' []
                 end
        | [] => bad_verb
        end
      else c :: sprintf r args
  end.

(* fmt.Fprintf(&out, fmt_hunk, chunk.x, count.x, chunk.y, count.y) followed by the chunk lines *)
Definition render_hunk (h : hunk) : bytes :=
  sprintf fmt_hunk [ANat (sx h); ANat (cx h); ANat (sy h); ANat (cy h)] ++
  concat (map (fun tl => tag_byte (fst tl) :: snd tl) (body h)).

(* the three header Fprintf calls *)
Definition render_header (oldName newName : bytes) : bytes :=
  sprintf fmt_header_diff [AStr oldName; AStr newName] ++
  sprintf fmt_header_old [AStr oldName] ++
  sprintf fmt_header_new [AStr newName].

Definition render (oldName newName : bytes) (hs : list hunk) : bytes :=
  render_header oldName newName ++ concat (map render_hunk hs).

(* Diff(oldName, old, newName, new) *)
Definition diff (oldName old newName new : bytes) : res bytes :=
  if bytes_eqb old new then Ok []
  else do hs <- diff_hunks (lines old) (lines new); Ok (render oldName newName hs).

(* ---------------------------------------------------------------- an independent patch applier *)

Definition old_side (b : list (tag * line)) : list line :=
  map snd (filter (fun tl => match fst tl with TAdd => false | _ => true end) b).
Definition new_side (b : list (tag * line)) : list line :=
  map snd (filter (fun tl => match fst tl with TDel => false | _ => true end) b).

(* 0-based position denoted by a printed start line: "s,c" with c > 0 starts at line s (1-based);
   with c = 0 it names the line after which the (empty) range sits.  [None]: malformed (line 0 of
   a non-empty range). *)
Definition start_pos (s c : nat) : option nat :=
  if c =? 0 then Some s else match s with 0 => None | S p => Some p end.

(* consume the body against the old lines: ' ' and '-' must match the next old line *)
Fixpoint apply_body (b : list (tag * line)) (old : list line) : option (list line * list line) :=
  match b with
  | [] => Some ([], old)
  | (TAdd, l) :: b' =>
      match apply_body b' old with
      | Some (out, rest) => Some (l :: out, rest)
      | None => None
      end
  | (t, l) :: b' =>
      match old with
      | o :: old' =>
          if bytes_eqb o l then
            match apply_body b' old' with
            | Some (out, rest) =>
                Some (match t with TCtx => l :: out | _ => out end, rest)
            | None => None
            end
          else None
      | [] => None
      end
  end.

(* [old] = the old lines from 0-based position [pos] on; [opos] = number of new lines produced *)
Fixpoint apply_from (pos opos : nat) (old : list line) (hs : list hunk) : option (list line) :=
  match hs with
  | [] => Some old
  | h :: hs' =>
      match start_pos (sx h) (cx h), start_pos (sy h) (cy h) with
      | Some p, Some q =>
          if (pos <=? p) && (p - pos <=? length old) && (opos + (p - pos) =? q)
             && (length (old_side (body h)) =? cx h) && (length (new_side (body h)) =? cy h)
          then
            match apply_body (body h) (skipn (p - pos) old) with
            | Some (out, rest) =>
                match apply_from (p + cx h) (q + cy h) rest hs' with
                | Some r => Some (firstn (p - pos) old ++ out ++ r)
                | None => None
                end
            | None => None
            end
          else None
      | _, _ => None
      end
  end.

Definition apply_hunks (old : list line) (hs : list hunk) : option (list line) :=
  apply_from 0 0 old hs.

Definition swap_tag (t : tag) : tag :=
  match t with TCtx => TCtx | TDel => TAdd | TAdd => TDel end.
Definition swap_hunk (h : hunk) : hunk :=
  mkHunk (sy h) (cy h) (sx h) (cx h) (map (fun tl => (swap_tag (fst tl), snd tl)) (body h)).
Definition swap_hunks (hs : list hunk) : list hunk := map swap_hunk hs.

(* ---------------------------------------------------------------- boolean checker of the tgs facts *)

Fixpoint count_line (l : list line) (s : line) : nat :=
  match l with
  | [] => 0
  | a :: r => (if bytes_eqb a s then 1 else 0) + count_line r s
  end.

(* one inner pair: in range, x[i] = y[j], that line occurs once in x and once in y *)
Definition anchor_ok (x y : list line) (p : nat * nat) : bool :=
  match nth_error x (fst p), nth_error y (snd p) with
  | Some a, Some b => bytes_eqb a b && (count_line x a =? 1) && (count_line y a =? 1)
  | _, _ => false
  end.

Fixpoint increasing (ps : list (nat * nat)) : bool :=
  match ps with
  | p :: (q :: _) as r => (fst p <? fst q) && (snd p <? snd q) && increasing r
  | _ => true
  end.

(* ms = (0,0) :: inner ++ [(len x, len y)], inner sound *)
Definition tgs_ok_list (x y : list line) (ms : list (nat * nat)) : bool :=
  match ms with
  | (0, 0) :: r =>
      match rev r with
      | (a, b) :: ri =>
          (a =? length x) && (b =? length y) && forallb (anchor_ok x y) (rev ri) && increasing (rev ri)
      | [] => false
      end
  | _ => false
  end.

Definition tgs_ok (x y : list line) : bool :=
  match tgs x y with
  | Ok ms => tgs_ok_list x y ms
  | _ => false
  end.

(* executable form of the whole property on one pair of texts (used by the runner to search the
   model when a regenerated constant breaks a proof) *)
Fixpoint list_bytes_eqb (a b : list line) : bool :=
  match a, b with
  | [], [] => true
  | u :: a', v :: b' => bytes_eqb u v && list_bytes_eqb a' b'
  | _, _ => false
  end.

Definition C08_holds_on (old new : bytes) : bool :=
  match diff_hunks (lines old) (lines new) with
  | Ok hs =>
      match apply_hunks (lines old) hs, apply_hunks (lines new) (swap_hunks hs) with
      | Some n', Some o' => list_bytes_eqb n' (lines new) && list_bytes_eqb o' (lines old)
                            && (bytes_eqb old new || nonempty hs)
      | _, _ => false
      end
  | _ => false
  end.

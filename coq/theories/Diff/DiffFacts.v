(* C08 — the theorems at full strength (every pair of line lists / texts, no bound), the
   `_full_statement` forms of the staged fallback (all of them are proved), Examples and
   computed sanity checks. *)
From Coq Require Import List Bool Arith ZArith Lia.
From Coq.Strings Require Import Byte.
From GI Require Import Lib.Bytes Gen.DiffConsts Diff.Diff Diff.DiffSpec Diff.DiffBase Diff.DiffProofs
  Diff.TgsProofs Diff.DiffParse Diff.ParseProofs Diff.CtxFacts Diff.BytesFacts.
Import ListNotations.

(* ---------------------------------------------------------------- statements *)

Definition tgs_sound_full_statement : Prop := forall x y, tgs_sound_on x y.
Definition diff_no_panic_full_statement : Prop := forall x y, exists hs, diff_hunks x y = Ok hs.
Definition hunks_wf_full_statement : Prop :=
  forall x y hs, diff_hunks x y = Ok hs -> hunks_wf x y hs.
Definition patch_correct_full_statement : Prop :=
  forall x y hs, diff_hunks x y = Ok hs -> apply_hunks x hs = Some y.
Definition patch_reverse_full_statement : Prop :=
  forall x y hs, diff_hunks x y = Ok hs -> apply_hunks y (swap_hunks hs) = Some x.

(* ---------------------------------------------------------------- tgs_sound, readable form *)

Lemma increasing_pairwise l : increasing l = true ->
  forall i j, i < j -> j < length l -> lt2 (nth i l (0, 0)) (nth j l (0, 0)).
Proof.
  induction l as [|p l IH]; intros H i j Hij Hj; simpl in Hj; [lia|].
  assert (Hl : increasing l = true).
  { destruct l; [reflexivity|]. simpl in H. apply andb_true_iff in H. tauto. }
  destruct j as [|j]; [lia|]. destruct i as [|i].
  - simpl. destruct l as [|q l]; [simpl in Hj; lia|].
    simpl in H. apply andb_true_iff in H as [H _]. apply andb_true_iff in H as [H1 H2].
    apply Nat.ltb_lt in H1, H2.
    destruct j as [|j]; [split; assumption|].
    destruct (IH Hl 0 (S j)) as [G1 G2]; [lia | simpl in *; lia|].
    simpl in G1, G2. unfold lt2. simpl. lia.
  - simpl. apply IH; [assumption | lia | lia].
Qed.

Theorem tgs_sound : forall x y, tgs_sound_on x y.
Proof.
  intros x y. destruct (tgs_matches_ok x y) as (ms & E & inner & -> & Hf & Hi).
  exists inner. split; [exact E|]. split.
  - eapply Forall_impl; [|exact Hf]. intros p Hp. unfold anchor_ok in Hp.
    destruct (nth_error x (fst p)) as [a|]; [|discriminate].
    destruct (nth_error y (snd p)) as [b|]; [|discriminate].
    apply andb_true_iff in Hp as [Hp H3]. apply andb_true_iff in Hp as [H1 H2].
    apply bytes_eqb_true_iff in H1. subst b. apply Nat.eqb_eq in H2, H3. eauto.
  - apply increasing_pairwise. assumption.
Qed.

(* ---------------------------------------------------------------- the diff theorems, unconditionally *)

Theorem diff_hunks_rel x y :
  exists hs, diff_hunks x y = Ok hs /\ hunks_rel 0 0 x y hs /\ Forall (hunk_ctx_ok x y) hs.
Proof. apply diff_hunks_rel_partial. apply tgs_ok_true. Qed.

Theorem diff_no_panic : forall x y, exists hs, diff_hunks x y = Ok hs.
Proof. intros x y. apply diff_no_panic_partial. apply tgs_ok_true. Qed.

Theorem hunks_wf_thm : forall x y hs, diff_hunks x y = Ok hs -> hunks_wf x y hs.
Proof. intros x y hs. apply hunks_wf_partial. apply tgs_ok_true. Qed.

Theorem patch_correct : forall x y hs, diff_hunks x y = Ok hs -> apply_hunks x hs = Some y.
Proof. intros x y hs. apply patch_correct_partial. apply tgs_ok_true. Qed.

Theorem patch_reverse : forall x y hs,
  diff_hunks x y = Ok hs -> apply_hunks y (swap_hunks hs) = Some x.
Proof. intros x y hs. apply patch_reverse_partial. apply tgs_ok_true. Qed.

(* Diff as a whole never panics and never runs out of fuel *)
Theorem diff_total : forall oldName old newName new, exists out, diff oldName old newName new = Ok out.
Proof.
  intros. unfold diff. destruct (bytes_eqb old new); [eauto|].
  destruct (diff_no_panic (lines old) (lines new)) as (hs & ->). simpl. eauto.
Qed.

(* texts: with the injectivity of [lines] the two patch theorems say that the hunks turn the old
   text into exactly the new text (and back), final newline or not *)
Theorem patch_texts : forall old new hs,
  diff_hunks (lines old) (lines new) = Ok hs ->
  apply_hunks (lines old) hs = Some (lines new) /\
  apply_hunks (lines new) (swap_hunks hs) = Some (lines old) /\
  (forall t, apply_hunks (lines old) hs = Some (lines t) -> t = new) /\
  (forall t, apply_hunks (lines new) (swap_hunks hs) = Some (lines t) -> t = old).
Proof.
  intros old new hs H.
  pose proof (patch_correct _ _ _ H) as F. pose proof (patch_reverse _ _ _ H) as B.
  repeat split; try assumption.
  - intros t Ht. rewrite F in Ht. inversion Ht. apply lines_inj. congruence.
  - intros t Ht. rewrite B in Ht. inversion Ht. apply lines_inj. congruence.
Qed.

(* texts that differ give at least one hunk *)
Theorem diff_hunks_nonempty : forall old new,
  diff_hunks (lines old) (lines new) = Ok [] -> old = new.
Proof.
  intros old new H. apply patch_correct in H. unfold apply_hunks in H. simpl in H.
  inversion H. apply lines_inj. assumption.
Qed.

(* ---------------------------------------------------------------- Examples *)

(* "a\nb\nb\nc\nd\ne\nf\ng\nh" (duplicate lines, no final newline) vs "a\nb\nc\nx\ne\nf\ng\nh\nb\n" *)
Definition ex_old : bytes :=
  [x61;x0a; x62;x0a; x62;x0a; x63;x0a; x64;x0a; x65;x0a; x66;x0a; x67;x0a; x68].
Definition ex_new : bytes :=
  [x61;x0a; x62;x0a; x63;x0a; x78;x0a; x65;x0a; x66;x0a; x67;x0a; x68;x0a; x62;x0a].

Eval vm_compute in (length (lines ex_old), length (lines ex_new)).
Eval vm_compute in tgs (lines ex_old) (lines ex_new).
Eval vm_compute in
  match diff_hunks (lines ex_old) (lines ex_new) with
  | Ok hs => map (fun h => (sx h, cx h, sy h, cy h, length (body h))) hs
  | _ => []
  end.

(* the hypothesis of the `_partial` theorems holds on a non-trivial pair ... *)
Example ex_tgs_ok : tgs_ok (lines ex_old) (lines ex_new) = true.
Proof. vm_compute. reflexivity. Qed.

(* ... the anchors found are a (0,0), c (3,2), e f g (5,4) (6,5) (7,6); b is duplicated, the last
   line of the old text carries the no-newline message and so differs from "h\n" *)
Example ex_tgs : tgs (lines ex_old) (lines ex_new) =
  Ok [(0, 0); (0, 0); (3, 2); (5, 4); (6, 5); (7, 6); (9, 9)].
Proof. vm_compute. reflexivity. Qed.

Example ex_hunks :
  match diff_hunks (lines ex_old) (lines ex_new) with
  | Ok hs => map (fun h => (sx h, cx h, sy h, cy h)) hs = [(1, 9, 1, 9)] /\
             apply_hunks (lines ex_old) hs = Some (lines ex_new) /\
             apply_hunks (lines ex_new) (swap_hunks hs) = Some (lines ex_old)
  | _ => False
  end.
Proof. vm_compute. repeat split. Qed.

(* the rendered bytes begin with the three header lines *)
Example ex_render :
  match diff [x6f] ex_old [x6e] ex_new with
  | Ok out => firstn 19 out = [x64;x69;x66;x66;x20;x6f;x20;x6e;x0a; x2d;x2d;x2d;x20;x6f;x0a; x2b;x2b;x2b;x20]
  | _ => False
  end.
Proof. vm_compute. reflexivity. Qed.

(* an insertion into an empty file: the Go convention "-0,0" *)
Example ex_empty_old :
  match diff_hunks (lines []) (lines [x61; x0a]) with
  | Ok hs => map (fun h => (sx h, cx h, sy h, cy h)) hs = [(0, 0, 1, 1)]
  | _ => False
  end.
Proof. vm_compute. reflexivity. Qed.

(* two hunks: 2*C + 1 common lines between two edits *)
Definition ex_long (a z : byte) : bytes :=
  [a;x0a; x31;x0a; x32;x0a; x33;x0a; x34;x0a; x35;x0a; x36;x0a; x37;x0a; z;x0a].
Example ex_two_hunks :
  match diff_hunks (lines (ex_long x61 x62)) (lines (ex_long x78 x79)) with
  | Ok hs => map (fun h => (sx h, cx h, sy h, cy h)) hs = [(1, 4, 1, 4); (6, 4, 6, 4)]
  | _ => False
  end.
Proof. vm_compute. reflexivity. Qed.

(* lines: the unterminated last line carries the message; [lines] is injective because of it *)
Example ex_lines : lines [x61; x0a; x62] = [[x61; x0a]; x62 :: no_newline_msg].
Proof. reflexivity. Qed.
Example ex_lines_msg_text :
  lines ([x61] ++ no_newline_msg) <> lines [x61].
Proof. vm_compute. discriminate. Qed.

(* the executable form of the property on the example *)
Example ex_holds : C08_holds_on ex_old ex_new = true.
Proof. vm_compute. reflexivity. Qed.

(* the statement-level lines on a text without final newline *)
Example ex_lines_go : lines_go [x61; x0a; x62] = Ok [[x61; x0a]; x62 :: no_newline_msg].
Proof. reflexivity. Qed.

(* the runs of context lines of the two hunks of [ex_two_hunks]: 0 leading (top of file) and
   ctxC trailing; ctxC leading and 0 trailing (end of file) *)
Example ex_runs :
  match diff_hunks (lines (ex_long x61 x62)) (lines (ex_long x78 x79)) with
  | Ok hs => map (fun h => runs (body h)) hs = [[0; 0; 3]; [3; 0; 0]]
  | _ => False
  end.
Proof. vm_compute. reflexivity. Qed.

(* the bytes print and parse back; applying them gives the new lines *)
Example ex_parse_back :
  match diff [x6f] ex_old [x6e] ex_new with
  | Ok out => match parse_render [x6f] [x6e] out, diff_hunks (lines ex_old) (lines ex_new) with
              | Some hs, Ok hs' => hs = hs'
              | _, _ => False
              end /\ patch_bytes [x6f] [x6e] out (lines ex_old) = Some (lines ex_new)
  | _ => False
  end.
Proof. vm_compute. split; reflexivity. Qed.

(* the reader rejects bytes that are not a rendering: a count that does not match the body *)
Example ex_parse_rejects :
  parse_render [x6f] [x6e]
    (render_header [x6f] [x6e] ++ [x40;x40;x20;x2d;x31;x2c;x32;x20;x2b;x31;x2c;x31;x20;x40;x40;x0a; x2d;x61;x0a; x2b;x62;x0a])
  = None.
Proof. vm_compute. reflexivity. Qed.

(* a cmpenv whose second file holds a reference: the logged diff is against the expanded text *)
Example ex_cmpenv :
  let expand := fun d : bytes => if bytes_eqb d [x24; x56; x0a] then [x78; x0a] else d in   (* "$V\n" -> "x\n" *)
  match do_cmp expand false true [x61] [x62] [x79; x0a] [x24; x56; x0a] with
  | CmpFail d => patch_bytes [x61] [x62] d (lines [x79; x0a]) = Some (lines [x78; x0a])
  | _ => False
  end.
Proof. vm_compute. reflexivity. Qed.

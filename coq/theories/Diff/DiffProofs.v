(* C08 — the main loop of Diff: every result is [Ok hs] with [hunks_rel 0 0 x y hs], from which
   no-panic, well-formedness, patch and reverse-patch correctness follow.  The only fact about
   the match list used here is [matches_ok] (what [tgs_ok] checks / [tgs_sound] proves). *)
From Coq Require Import List Bool Arith ZArith Lia Sorting.Sorted.
From Coq.Strings Require Import Byte.
From GI Require Import Lib.Bytes Gen.DiffConsts Diff.Diff Diff.DiffSpec Diff.DiffBase.
Import ListNotations.

(* the proofs of this file never look at the value of the context constant *)
Local Opaque ctxC.

(* ---------------------------------------------------------------- the relation hunks / texts *)

(* [hs] rewrites [xs] (the old lines from position px on) into [ys] (the new lines from py on):
   an unchanged gap [g], then the chunk, and so on; after the last hunk the rests are equal. *)
Fixpoint hunks_rel (px py : nat) (xs ys : list line) (hs : list hunk) : Prop :=
  match hs with
  | [] => xs = ys
  | h :: hs' =>
      exists g xs' ys',
        xs = g ++ old_side (body h) ++ xs' /\
        ys = g ++ new_side (body h) ++ ys' /\
        cx h = length (old_side (body h)) /\
        cy h = length (new_side (body h)) /\
        sx h = pos_of (px + length g) (cx h) /\
        sy h = pos_of (py + length g) (cy h) /\
        hunks_rel (px + length g + cx h) (py + length g + cy h) xs' ys' hs'
  end.

Lemma start_pos_pos_of p c : start_pos (pos_of p c) c = Some p.
Proof. unfold start_pos, pos_of. destruct (c =? 0); reflexivity. Qed.

Lemma apply_body_sides b rest : apply_body b (old_side b ++ rest) = Some (new_side b, rest).
Proof.
  induction b as [|[t l] b IH]; simpl; [reflexivity|].
  destruct t; unfold old_side, new_side in *; simpl.
  - rewrite bytes_eqb_refl, IH. reflexivity.
  - rewrite bytes_eqb_refl, IH. reflexivity.
  - rewrite IH. reflexivity.
Qed.

Lemma apply_from_rel hs : forall px py xs ys,
  hunks_rel px py xs ys hs -> apply_from px py xs hs = Some ys.
Proof.
  induction hs as [|h hs IH]; intros px py xs ys H; simpl in *.
  - congruence.
  - destruct H as (g & xs' & ys' & Hx & Hy & Hcx & Hcy & Hsx & Hsy & Hr).
    rewrite Hsx, Hsy, !start_pos_pos_of.
    replace (px + length g - px) with (length g) by lia.
    assert (Hlen : length g <= length xs) by (rewrite Hx, app_length; lia).
    destruct (Nat.leb_spec px (px + length g)); [|lia].
    destruct (Nat.leb_spec (length g) (length xs)); [|lia].
    rewrite Nat.eqb_refl, <- Hcx, <- Hcy, !Nat.eqb_refl. simpl.
    rewrite Hx at 1. rewrite skipn_app, Nat.sub_diag, skipn_all. simpl.
    rewrite apply_body_sides.
    rewrite (IH _ _ _ _ Hr).
    rewrite Hx, firstn_app, Nat.sub_diag, firstn_all. simpl. rewrite app_nil_r.
    rewrite Hy. reflexivity.
Qed.

Lemma old_side_swap b : old_side (map (fun tl => (swap_tag (fst tl), snd tl)) b) = new_side b.
Proof.
  induction b as [|[t l] b IH]; [reflexivity|].
  unfold old_side, new_side in *. destruct t; simpl; rewrite ?IH; congruence.
Qed.
Lemma new_side_swap b : new_side (map (fun tl => (swap_tag (fst tl), snd tl)) b) = old_side b.
Proof.
  induction b as [|[t l] b IH]; [reflexivity|].
  unfold old_side, new_side in *. destruct t; simpl; rewrite ?IH; congruence.
Qed.

Lemma hunks_rel_swap hs : forall px py xs ys,
  hunks_rel px py xs ys hs -> hunks_rel py px ys xs (swap_hunks hs).
Proof.
  induction hs as [|h hs IH]; intros px py xs ys H; simpl in *.
  - congruence.
  - destruct H as (g & xs' & ys' & Hx & Hy & Hcx & Hcy & Hsx & Hsy & Hr).
    exists g, ys', xs'. rewrite old_side_swap, new_side_swap. repeat split; auto.
Qed.

(* ---------------------------------------------------------------- well-formedness, by positions *)

Lemma wf_from_rel x y hs : forall px py,
  px <= length x -> py <= length y ->
  hunks_rel px py (skipn px x) (skipn py y) hs -> wf_from x y px py hs.
Proof.
  induction hs as [|h hs IH]; intros px py Hpx Hpy H; simpl in *; [exact I|].
  destruct H as (g & xs' & ys' & Hx & Hy & Hcx & Hcy & Hsx & Hsy & Hr).
  apply skipn_eq_app in Hx as (Hx1 & Hx2 & Hx3); [|assumption].
  apply skipn_eq_app in Hy as (Hy1 & Hy2 & Hy3); [|assumption].
  symmetry in Hx3. apply skipn_eq_app in Hx3 as (Hx4 & Hx5 & Hx6); [|assumption].
  symmetry in Hy3. apply skipn_eq_app in Hy3 as (Hy4 & Hy5 & Hy6); [|assumption].
  exists (px + length g), (py + length g).
  rewrite <- Hcx in *. rewrite <- Hcy in *.
  repeat split; try lia; try assumption.
  - congruence.
  - apply IH; try lia. rewrite <- Hx6, <- Hy6. exact Hr.
Qed.

(* ---------------------------------------------------------------- the two expansion loops *)

Section Loop.
Variables x y : list line.

Lemma expand_back_spec : forall sx0 sy0 dx dy mx my,
  sx0 <= mx -> sy0 <= my -> mx <= length x -> my <= length y ->
  dx <= sx0 -> dy <= sy0 -> mx + sy0 = my + sx0 -> sub x sx0 mx = sub y sy0 my ->
  exists stx sty, expand_back x y dx dy sx0 sy0 = Ok (stx, sty) /\
    dx <= stx /\ stx <= mx /\ dy <= sty /\ sty <= my /\ mx + sty = my + stx /\
    sub x stx mx = sub y sty my.
Proof.
  induction sx0 as [|s IH]; intros sy0 dx dy mx my H1 H2 H3 H4 H5 H6 H7 H8.
  - simpl. exists 0, sy0. repeat split; auto; lia.
  - simpl.
    destruct ((dx <? S s) && (dy <? sy0)) eqn:Ec.
    + apply andb_true_iff in Ec as [Ec1 Ec2].
      apply Nat.ltb_lt in Ec1, Ec2.
      rewrite (idx_ok x s []) by lia. rewrite (idx_ok y (sy0 - 1) []) by lia. simpl.
      destruct (bytes_eqb (nth s x []) (nth (sy0 - 1) y [])) eqn:Eq.
      * apply bytes_eqb_true_iff in Eq.
        apply IH; try lia.
        rewrite (sub_cons x s mx (nth s x [])); try lia.
        2:{ apply nth_error_nth'. lia. }
        rewrite (sub_cons y (sy0 - 1) my (nth (sy0 - 1) y [])); try lia.
        2:{ apply nth_error_nth'. lia. }
        replace (S (sy0 - 1)) with sy0 by lia. rewrite Eq, H8. reflexivity.
      * exists (S s), sy0. repeat split; auto; lia.
    + exists (S s), sy0. repeat split; auto; lia.
Qed.

Lemma expand_fwd_spec : forall fuel ex0 ey0 mx my,
  length x <= fuel + ex0 -> mx <= ex0 -> my <= ey0 -> ex0 <= length x -> ey0 <= length y ->
  ex0 + my = ey0 + mx -> sub x mx ex0 = sub y my ey0 ->
  exists ex ey, expand_fwd fuel x y ex0 ey0 = Ok (ex, ey) /\
    ex0 <= ex /\ ex <= length x /\ ey0 <= ey /\ ey <= length y /\ ex + my = ey + mx /\
    sub x mx ex = sub y my ey.
Proof.
  induction fuel as [|fu IH]; intros ex0 ey0 mx my Hf H1 H2 H3 H4 H5 H6.
  - simpl. destruct (Nat.ltb_spec ex0 (length x)); [lia|]. simpl.
    exists ex0, ey0. repeat split; auto; lia.
  - simpl.
    destruct ((ex0 <? length x) && (ey0 <? length y)) eqn:Ec.
    + apply andb_true_iff in Ec as [Ec1 Ec2]. apply Nat.ltb_lt in Ec1, Ec2.
      rewrite (idx_ok x ex0 []) by lia. rewrite (idx_ok y ey0 []) by lia. simpl.
      destruct (bytes_eqb (nth ex0 x []) (nth ey0 y [])) eqn:Eq.
      * apply bytes_eqb_true_iff in Eq.
        destruct (IH (S ex0) (S ey0) mx my) as (ex & ey & E & F); try lia.
        { rewrite (sub_snoc x mx ex0 (nth ex0 x [])); try lia.
          2:{ apply nth_error_nth'. lia. }
          rewrite (sub_snoc y my ey0 (nth ey0 y [])); try lia.
          2:{ apply nth_error_nth'. lia. }
          rewrite Eq, H6. reflexivity. }
        exists ex, ey. split; [exact E|]. repeat split; try lia. apply F.
      * exists ex0, ey0. repeat split; auto; lia.
    + exists ex0, ey0. repeat split; auto; lia.
Qed.

(* the forward expansion stops at a point where the texts differ (or one of them ends) *)
Definition maxpt (a b : nat) : Prop :=
  a < length x -> b < length y -> nth_error x a <> nth_error y b.
Definition eof (a b : nat) : Prop := length x <= a /\ length y <= b.

Lemma expand_fwd_maxpt : forall fuel ex0 ey0 ex ey,
  expand_fwd fuel x y ex0 ey0 = Ok (ex, ey) -> maxpt ex ey.
Proof.
  assert (Hstop : forall ex0 ey0 ex ey,
    (if (ex0 <? length x) && (ey0 <? length y)
     then do a <- idx x ex0; do b <- idx y ey0;
          if bytes_eqb a b then OutOfFuel else Ok (ex0, ey0)
     else Ok (ex0, ey0)) = Ok (ex, ey) -> maxpt ex ey).
  { intros ex0 ey0 ex ey H. destruct ((ex0 <? length x) && (ey0 <? length y)) eqn:Ec.
    - apply andb_true_iff in Ec as [Ec1 Ec2]. apply Nat.ltb_lt in Ec1, Ec2.
      rewrite (idx_ok x ex0 []), (idx_ok y ey0 []) in H by lia. simpl in H.
      destruct (bytes_eqb (nth ex0 x []) (nth ey0 y [])) eqn:Eq; [discriminate|].
      inversion H; subst. intros _ _.
      rewrite (nth_error_nth' x [] Ec1), (nth_error_nth' y [] Ec2). intro E. inversion E as [E'].
      rewrite E', bytes_eqb_refl in Eq. discriminate.
    - inversion H; subst. intros A B. apply andb_false_iff in Ec as [Ec | Ec]; apply Nat.ltb_ge in Ec; lia. }
  induction fuel as [|fu IH]; intros ex0 ey0 ex ey H.
  - apply (Hstop ex0 ey0). exact H.
  - simpl in H. destruct ((ex0 <? length x) && (ey0 <? length y)) eqn:Ec.
    + destruct (idx x ex0) as [a| |] eqn:Ea; simpl in H; try discriminate.
      destruct (idx y ey0) as [b| |] eqn:Eb; simpl in H; try discriminate.
      destruct (bytes_eqb a b) eqn:Eq.
      * apply (IH _ _ _ _ H).
      * apply (Hstop ex0 ey0). rewrite Ec, Ea. simpl. rewrite Eb. simpl. rewrite Eq. exact H.
    + apply (Hstop ex0 ey0). rewrite Ec. exact H.
Qed.

(* ---------------------------------------------------------------- what the loop needs of the matches *)

(* an inner pair: in range, equal lines, and the line occurs nowhere else in x *)
Definition anchor (m : nat * nat) : Prop :=
  fst m < length x /\ snd m < length y /\
  nth_error x (fst m) = nth_error y (snd m) /\
  (forall i, nth_error x i = nth_error x (fst m) -> i = fst m).

Definition mok (m : nat * nat) : Prop := anchor m \/ m = (length x, length y).
Definition le2 (a b : nat * nat) : Prop := fst a <= fst b /\ snd a <= snd b.

(* the matches still to be processed, relative to done = (dx,dy) *)
Definition P (dx dy : nat) (ms : list (nat * nat)) : Prop :=
  ms <> [] /\ last ms (0, 0) = (length x, length y) /\
  Forall (fun m => fst m <= length x /\ snd m <= length y /\ (dx <= fst m -> dy <= snd m)) ms /\
  StronglySorted le2 ms /\ Forall mok (tl ms).

(* a later anchor that is not inside the common run starting at (mx,my) lies beyond it on the y
   side as well *)
Lemma anchor_beyond mx my ex ey m' :
  mx <= ex -> ex + my = ey + mx -> sub x mx ex = sub y my ey ->
  le2 (mx, my) m' -> anchor m' -> ex <= fst m' -> ey <= snd m'.
Proof.
  intros H1 H2 H3 [L1 L2] (A1 & A2 & A3 & A4) H4. simpl in *.
  destruct (Nat.le_gt_cases ey (snd m')) as [|Hlt]; [assumption|exfalso].
  set (d := snd m' - my).
  assert (Hd : d < ex - mx) by (unfold d; lia).
  pose proof (sub_eq_nth x y mx ex my ey d H3 ltac:(lia) Hd) as E.
  replace (my + d) with (snd m') in E by (unfold d; lia).
  rewrite <- A3 in E. apply A4 in E. lia.
Qed.

Lemma P_skip dx dy m ms : P dx dy (m :: ms) -> fst m < dx -> dx <= length x -> P dx dy ms.
Proof.
  intros (_ & Hl & Hf & Hs & Hm) Hlt Hdx.
  assert (ms <> []).
  { intro; subst ms. simpl in Hl. subst m. simpl in Hlt. lia. }
  split; [assumption|]. split.
  { destruct ms; [contradiction|]. exact Hl. }
  inversion Hf; subst. inversion Hs; subst. simpl in Hm.
  repeat split; auto. destruct ms; [constructor|]. inversion Hm; auto.
Qed.

Lemma P_step dx dy mx my ms ex ey :
  P dx dy ((mx, my) :: ms) -> ms <> [] ->
  mx <= ex -> ex + my = ey + mx -> sub x mx ex = sub y my ey -> ey <= length y ->
  P ex ey ms.
Proof.
  intros (_ & Hl & Hf & Hs & Hm) Hne H1 H2 H3 H4.
  split; [assumption|]. split.
  { destruct ms; [contradiction|]. exact Hl. }
  inversion Hf; subst. inversion Hs; subst. simpl in Hm.
  repeat split; auto.
  - rewrite Forall_forall in *. intros m' Hin.
    destruct (H6 m' Hin) as (R1 & R2 & _). repeat split; auto.
    intro Hex. destruct (Hm m' Hin) as [Ha | He].
    + apply (anchor_beyond mx my ex ey m'); auto.
    + subst m'. simpl. assumption.
  - destruct ms; [constructor|]. inversion Hm; auto.
Qed.

(* ---------------------------------------------------------------- the loop invariant *)

(* (e0x,e0y) = end of the last emitted hunk (ghost); done, chunk, count, ctext as in the code *)
Definition Inv (e0x e0y dx dy chx chy cntx cnty : nat) (ctext : list (tag * line)) : Prop :=
  dx <= length x /\ dy <= length y /\
  e0x <= chx /\ chx <= dx /\ e0y <= chy /\ chy <= dy /\
  chx + e0y = chy + e0x /\ sub x e0x chx = sub y e0y chy /\
  old_side ctext = sub x chx dx /\ new_side ctext = sub y chy dy /\
  cntx + chx = dx /\ cnty + chy = dy.

Lemma Inv_intro e0x e0y dx dy chx chy cntx cnty ctext :
  dx <= length x -> dy <= length y ->
  e0x <= chx -> chx <= dx -> e0y <= chy -> chy <= dy ->
  chx + e0y = chy + e0x -> sub x e0x chx = sub y e0y chy ->
  old_side ctext = sub x chx dx -> new_side ctext = sub y chy dy ->
  cntx + chx = dx -> cnty + chy = dy ->
  Inv e0x e0y dx dy chx chy cntx cnty ctext.
Proof. unfold Inv. intuition. Qed.

(* after a maximal point that is not the end of both texts, the next match (an anchor or the end
   sentinel) cannot be reached by common lines only: something is deleted or added *)
Lemma changes_nonempty dx dy mx my stx sty :
  maxpt dx dy -> ~ eof dx dy -> mok (mx, my) ->
  dx <= stx -> stx <= mx -> dy <= sty -> sty <= my -> mx <= length x -> my <= length y ->
  mx + sty = my + stx -> sub x stx mx = sub y sty my ->
  dx < stx \/ dy < sty.
Proof.
  intros Hmax Hne Hmok H1 H2 H3 H4 H5 H6 H7 H8.
  destruct (Nat.eq_dec stx dx) as [-> | N1]; [|lia].
  destruct (Nat.eq_dec sty dy) as [-> | N2]; [|lia].
  exfalso. destruct (Nat.eq_dec mx dx) as [-> | N3].
  - assert (my = dy) by lia. subst my.
    destruct Hmok as [(A1 & A2 & A3 & _) | E]; simpl in *.
    + apply (Hmax A1 A2). exact A3.
    + inversion E. apply Hne. unfold eof. lia.
  - assert (Hd : 0 < mx - dx) by lia.
    pose proof (sub_eq_nth x y dx mx dy my 0 H8 ltac:(lia) Hd) as E.
    rewrite !Nat.add_0_r in E. apply Hmax; [lia | lia | exact E].
Qed.

(* the runs of context lines of the pending chunk obey the context rule so far *)
Definition RunsOK (pre : list nat) (cur chx chy : nat) : Prop :=
  match pre with
  | [] => cur <= ctxC /\ (cur = ctxC \/ (chx = 0 /\ chy = 0))
  | lead :: inners =>
      lead <= ctxC /\ (lead = ctxC \/ (chx = 0 /\ chy = 0)) /\ Forall inner_ok inners /\ inner_ok cur
  end.

Definition Inv2 (dx dy chx chy : nat) (ctext : list (tag * line)) : Prop :=
  (exists pre cur, runs ctext = pre ++ [cur] /\ RunsOK pre cur chx chy) /\
  (ctext <> [] -> maxpt dx dy /\ ~ eof dx dy).

Lemma RunsOK_changes pre cur chx chy k :
  RunsOK pre cur chx chy -> RunsOK (pre ++ cur :: repeat 0 k) 0 chx chy.
Proof.
  assert (Hz : Forall inner_ok (repeat 0 k)).
  { apply Forall_forall. intros z Hz. apply repeat_spec in Hz. subst. left. reflexivity. }
  destruct pre as [|lead inners]; simpl.
  - intros (H1 & H2). repeat split; auto. left. reflexivity.
  - intros (H1 & H2 & H3 & H4). repeat split; auto.
    + apply Forall_app. split; [assumption|]. constructor; assumption.
    + left. reflexivity.
Qed.

Lemma RunsOK_run pre chx chy r : pre <> [] -> inner_ok r -> RunsOK pre 0 chx chy -> RunsOK pre r chx chy.
Proof. destruct pre; [contradiction|]. simpl. intuition. Qed.

Lemma sub_empty_eq (l : list line) a b : a <= b -> b <= length l -> sub l a b = [] -> a = b.
Proof. intros H1 H2 E. apply (f_equal (@length _)) in E. rewrite sub_length in E by lia. simpl in E. lia. Qed.

Lemma bind_ok_exists {A B} (e : res A) (f : A -> res B) (Q : A -> Prop) (R : B -> Prop) :
  (exists a, e = Ok a /\ Q a) -> (forall a, Q a -> exists b, f a = Ok b /\ R b) ->
  exists b, bind e f = Ok b /\ R b.
Proof. intros (a & -> & Ha) Hf. simpl. apply Hf. assumption. Qed.

(* sub-runs of equal runs, with all side conditions additive *)
Lemma run_sub a b c d a' b' c' d' :
  sub x a b = sub y c d -> a <= a' -> a' <= b' -> b' <= b -> b <= length x -> d <= length y ->
  b + c = d + a -> a' + c = c' + a -> b' + c = d' + a ->
  sub x a' b' = sub y c' d'.
Proof.
  intros E H1 H2 H3 H4 H5 H6 H7 H8.
  pose proof (sub_eq_mono x y a b c d (a' - a) (b' - a) E) as F.
  replace (a + (a' - a)) with a' in F by lia. replace (a + (b' - a)) with b' in F by lia.
  replace (c + (a' - a)) with c' in F by lia. replace (c + (b' - a)) with d' in F by lia.
  apply F; lia.
Qed.

Lemma pos_of_if p c : (if 0 <? c then S p else p) = pos_of p c.
Proof. unfold pos_of. destruct c; reflexivity. Qed.

Lemma diff_loop_ok : forall ms e0x e0y dx dy chx chy cntx cnty ctext,
  Inv e0x e0y dx dy chx chy cntx cnty ctext -> Inv2 dx dy chx chy ctext ->
  (ctext = [] \/ Forall mok ms) -> P dx dy ms ->
  exists hs, diff_loop x y ms dx dy chx chy cntx cnty ctext = Ok hs /\
             hunks_rel e0x e0y (skipn e0x x) (skipn e0y y) hs /\
             Forall (hunk_ctx_ok x y) hs.
Proof.
  induction ms as [|[mx my] ms IH]; intros e0x e0y dx dy chx chy cntx cnty ctext HI HI2 Hmk HP.
  { destruct HP as (Hne & _). contradiction. }
  destruct HI as (I1 & I2 & I3 & I4 & I5 & I6 & I7 & I8 & I9 & I10 & I11 & I12).
  assert (Hmok' : Forall mok ms) by (destruct HP as (_ & _ & _ & _ & Hm); exact Hm).
  simpl.
  destruct (Nat.ltb_spec mx dx) as [Hlt | Hge].
  { apply IH; [apply Inv_intro; assumption | assumption | right; assumption |]. eapply P_skip; eauto. }
  assert (Hm : mx <= length x /\ my <= length y /\ dy <= my).
  { destruct HP as (_ & _ & Hf & _). inversion Hf; subst. simpl in *. intuition. }
  destruct Hm as (M1 & M2 & M3).
  destruct (expand_back_spec mx my dx dy mx my) as (stx & sty & Eb & B1 & B2 & B3 & B4 & B5 & B6);
    try lia. { rewrite !sub_nil. reflexivity. }
  destruct (expand_fwd_spec (length x) mx my mx my) as (ex & ey & Ef & F1 & F2 & F3 & F4 & F5 & F6);
    try lia. { rewrite !sub_nil. reflexivity. }
  rewrite Eb, Ef. simpl.
  rewrite (slice_ok x dx stx), (slice_ok y dy sty) by lia. simpl.
  (* the whole common run *)
  assert (R : sub x stx ex = sub y sty ey).
  { rewrite <- (sub_app x stx mx ex), <- (sub_app y sty my ey) by lia. congruence. }
  unfold sub_chk. destruct (Nat.ltb_spec ex stx) as [|_]; [lia|]. simpl.
  rewrite !sub_length by lia.
  (* name the three differences; from here on the arithmetic is additive *)
  set (d1 := stx - dx). assert (Hd1 : stx = dx + d1) by (unfold d1; lia). clearbody d1.
  set (d2 := sty - dy). assert (Hd2 : sty = dy + d2) by (unfold d2; lia). clearbody d2.
  set (r := ex - stx). assert (Hr : ex = stx + r) by (unfold r; lia). clearbody r.
  assert (Hr' : ey = sty + r) by lia.
  pose proof (expand_fwd_maxpt _ _ _ _ _ Ef) as Hmax.
  (* the runs of the chunk after the changed lines of this pass *)
  assert (S2 : (ctext ++ tagged TDel (sub x dx stx) ++ tagged TAdd (sub y dy sty) = [] /\ RunsOK [] 0 chx chy) \/
               (exists pre2, pre2 <> [] /\ RunsOK pre2 0 chx chy /\
                  forall l, runs ((ctext ++ tagged TDel (sub x dx stx) ++ tagged TAdd (sub y dy sty)) ++ tagged TCtx l)
                            = pre2 ++ [length l])).
  { destruct HI2 as ((pre & cur & Er & Hok) & JM).
    set (ch := tagged TDel (sub x dx stx) ++ tagged TAdd (sub y dy sty)).
    assert (Hch : length ch = d1 + d2).
    { unfold ch, tagged. rewrite app_length, !map_length, !sub_length by lia. lia. }
    destruct (Nat.eq_dec (d1 + d2) 0) as [Z | NZ].
    - assert (ch = []) by (destruct ch; [reflexivity | simpl in Hch; lia]).
      destruct ctext as [|t ct].
      + left. rewrite H. split; [reflexivity|].
        unfold runs in Er. simpl in Er. destruct pre as [|a [|b pre]]; try discriminate.
        inversion Er; subst. exact Hok.
      + exfalso. destruct JM as [J1 J2]; [discriminate|].
        destruct Hmk as [Hmk | Hmk]; [discriminate|]. inversion Hmk as [|? ? Hm1 Hm2].
        destruct (changes_nonempty dx dy mx my stx sty); try assumption; try lia.
    - right. exists (pre ++ cur :: repeat 0 (length ch - 1)).
      split; [destruct pre; discriminate|]. split; [apply RunsOK_changes; assumption|].
      intro l. apply (runs_step ctext ch l pre cur Er).
      + destruct ch; [simpl in Hch; lia | discriminate].
      + apply all_change_del_add. }
  clear Eb Ef B6 B5.
  set (ctext2 := ctext ++ tagged TDel (sub x dx stx) ++ tagged TAdd (sub y dy sty)) in *.
  assert (O2 : old_side ctext2 = sub x chx stx).
  { unfold ctext2. rewrite !old_side_app, old_side_del, old_side_add, app_nil_r, I9.
    apply sub_app; lia. }
  assert (N2 : new_side ctext2 = sub y chy sty).
  { unfold ctext2. rewrite !new_side_app, new_side_del, new_side_add, I10. simpl.
    apply sub_app; lia. }
  clearbody ctext2.
  destruct (((ex <? length x) || (ey <? length y)) &&
            ((r <? ctxC) || (nonempty ctext2 && (r <? ctxC + (ctxC + 0))))) eqn:Ebr.
  - (* the chunk continues *)
    apply andb_true_iff in Ebr as [Eeof Erun].
    assert (Hrun : r < 2 * ctxC /\ (ctext2 = [] -> r < ctxC)).
    { apply orb_true_iff in Erun as [E | E].
      - apply Nat.ltb_lt in E. split; [lia | auto].
      - apply andb_true_iff in E as [E1 E2]. apply Nat.ltb_lt in E2. split; [lia|].
        intros ->. discriminate. }
    assert (Hneof : ~ eof ex ey).
    { intros [E1 E2]. apply orb_true_iff in Eeof as [E | E]; apply Nat.ltb_lt in E; lia. }
    rewrite (slice_ok x stx ex) by lia. simpl. rewrite sub_length by lia.
    replace (ex - stx) with r by lia.
    assert (Hne : ms <> []).
    { intro; subst ms. destruct HP as (_ & Hl & _). simpl in Hl. inversion Hl; subst mx my.
      apply Hneof. unfold eof. lia. }
    apply IH.
    + apply Inv_intro; try lia; try assumption.
      * rewrite old_side_app, old_side_ctx, O2. apply sub_app; lia.
      * rewrite new_side_app, new_side_ctx, N2, R. apply sub_app; lia.
    + split; [|intros _; split; assumption].
      assert (Hlen : length (sub x stx ex) = r) by (rewrite sub_length; lia).
      destruct S2 as [(E0 & Hok) | (pre2 & Hp2 & Hok & Hruns)].
      * rewrite E0. exists [], r. split.
        -- unfold runs. simpl. rewrite runs_from_ctx, Hlen. reflexivity.
        -- simpl in *. destruct Hrun as [_ Hrun]. specialize (Hrun E0).
           split; [lia|]. destruct Hok as [_ [Hc | Hc]]; [lia | right; exact Hc].
      * exists pre2, r. split; [rewrite Hruns, Hlen; reflexivity|].
        apply RunsOK_run; [assumption | right; lia | assumption].
    + right. assumption.
    + apply (P_step dx dy mx my); auto; lia.
  - (* the chunk ends here *)
    assert (Hbr : (length x <= ex /\ length y <= ey) \/
                  (ctxC <= r /\ (ctext2 = [] \/ ctxC + ctxC <= r))).
    { apply andb_false_iff in Ebr as [E | E].
      - left. apply orb_false_iff in E as [E1 E2]. apply Nat.ltb_ge in E1, E2. lia.
      - right. apply orb_false_iff in E as [E1 E2]. apply Nat.ltb_ge in E1. split; [assumption|].
        apply andb_false_iff in E2 as [E2 | E2].
        + left. apply nonempty_false. assumption.
        + right. apply Nat.ltb_ge in E2. lia. }
    clear Ebr.
    (* the step into the rest of the loop after a possible new chunk, from a ghost position *)
    assert (Hnext : forall g0x g0y c0 (ct0 : list (tag * line)),
       (ct0 = [] /\ c0 = 0 /\ stx <= g0x /\ g0x + sty = g0y + stx /\
        (length x <= ex -> length y <= ey -> g0x <= ex) /\
        (~ (length x <= ex /\ length y <= ey) -> g0x + ctxC <= ex)) ->
       exists rest,
        (if (length x <=? ex) && (length y <=? ey) then Ok []
         else do chx' <- (if ex <? ctxC then Panic else Ok (ex - ctxC));
              do chy' <- (if ey <? ctxC then Panic else Ok (ey - ctxC));
              do xs4 <- slice x chx' ex;
              diff_loop x y ms ex ey chx' chy' (c0 + length xs4) (c0 + length xs4)
                        (ct0 ++ tagged TCtx xs4)) = Ok rest /\
        hunks_rel g0x g0y (skipn g0x x) (skipn g0y y) rest /\ Forall (hunk_ctx_ok x y) rest).
    { intros g0x g0y c0 ct0 (-> & -> & G1 & G2 & G3 & G4).
      destruct ((length x <=? ex) && (length y <=? ey)) eqn:Eeof.
      - apply andb_true_iff in Eeof as [E1 E2]. apply Nat.leb_le in E1, E2.
        specialize (G3 E1 E2).
        exists []. split; [reflexivity|]. split; [|constructor]. simpl.
        assert (ex = length x) by lia. assert (ey = length y) by lia.
        rewrite <- (sub_full x), <- (sub_full y).
        apply (run_sub stx ex sty ey); try lia; try assumption.
      - assert (Hneof : ~ (length x <= ex /\ length y <= ey)).
        { intros [E1 E2]. apply Nat.leb_le in E1, E2. rewrite E1, E2 in Eeof. discriminate. }
        specialize (G4 Hneof).
        destruct (Nat.ltb_spec ex ctxC); [lia|]. destruct (Nat.ltb_spec ey ctxC); [lia|]. simpl.
        set (c1 := ex - ctxC). assert (Hc1 : ex = c1 + ctxC) by (unfold c1; lia). clearbody c1.
        set (c2 := ey - ctxC). assert (Hc2 : ey = c2 + ctxC) by (unfold c2; lia). clearbody c2.
        rewrite (slice_ok x c1 ex) by lia. simpl. rewrite sub_length by lia.
        assert (Hne : ms <> []).
        { intro; subst ms. destruct HP as (_ & Hl & _). simpl in Hl. inversion Hl; subst mx my.
          apply Hneof. lia. }
        apply IH.
        + apply Inv_intro; try lia.
          * apply (run_sub stx ex sty ey); try lia; try assumption.
          * rewrite old_side_ctx. reflexivity.
          * rewrite new_side_ctx. apply (run_sub stx ex sty ey); try lia; try assumption.
        + split.
          * exists [], ctxC. split; [|simpl; split; [lia | left; reflexivity]].
            unfold runs. simpl. rewrite runs_from_ctx, sub_length by lia. f_equal. lia.
          * intros _. split; [assumption|]. intros [E1 E2]. apply Hneof. split; assumption.
        + right. assumption.
        + apply (P_step dx dy mx my); auto; lia. }
    destruct (nonempty ctext2) eqn:Ene.
    + (* emit a hunk *)
      set (n := Nat.min r ctxC).
      assert (Hn : n <= r) by (unfold n; lia).
      assert (Hn' : ~ (length x <= ex /\ length y <= ey) -> n = ctxC /\ ctxC + ctxC <= r).
      { intro Hneof. destruct Hbr as [Hbr | (Hc & Hbr)]; [contradiction|].
        destruct Hbr as [Hbr | Hbr]; [rewrite Hbr in Ene; discriminate|]. unfold n. lia. }
      assert (Hn'' : n = ctxC \/ (n = r /\ r < ctxC /\ eof ex ey)).
      { destruct Hbr as [Hbr | (Hc & _)]; [|left; unfold n; lia].
        destruct (Nat.lt_ge_cases r ctxC); [right | left]; unfold n, eof; lia. }
      clearbody n.
      rewrite (slice_ok x stx (stx + n)) by lia. simpl. rewrite sub_length by lia.
      replace (stx + n - stx) with n by lia.
      set (ctext' := ctext2 ++ tagged TCtx (sub x stx (stx + n))).
      assert (O3 : old_side ctext' = sub x chx (stx + n)).
      { unfold ctext'. rewrite old_side_app, old_side_ctx, O2. apply sub_app; lia. }
      assert (N3 : new_side ctext' = sub y chy (sty + n)).
      { unfold ctext'. rewrite new_side_app, new_side_ctx, N2.
        rewrite (run_sub stx ex sty ey stx (stx + n) sty (sty + n)); try lia; try assumption.
        apply sub_app; lia. }
      assert (Rn : forall pre2, (forall l, runs (ctext2 ++ tagged TCtx l) = pre2 ++ [length l]) ->
                                runs ctext' = pre2 ++ [n]).
      { intros pre2 Hruns. unfold ctext'. rewrite Hruns, sub_length by lia. f_equal. f_equal. lia. }
      assert (Ne2 : ctext2 <> []) by (intro E0; rewrite E0 in Ene; discriminate).
      clearbody ctext'.
      apply bind_ok_exists with
        (Q := fun rest => hunks_rel (stx + n) (sty + n) (skipn (stx + n) x) (skipn (sty + n) y) rest /\
                          Forall (hunk_ctx_ok x y) rest).
      * apply (Hnext (stx + n) (sty + n) 0 []).
        split; [reflexivity|]. split; [reflexivity|]. split; [lia|]. split; [lia|]. split; [lia|].
        intro Hneof. apply Hn' in Hneof. lia.
      * intros rest [Hrel Hctx]. eexists. split; [reflexivity|]. split.
        2:{ constructor; [|exact Hctx]. simpl.
            destruct S2 as [(E0 & _) | (pre2 & Hp2 & Hok & Hruns)].
            { contradiction. }
            destruct pre2 as [|lead inners]; [contradiction|].
            destruct Hok as (K1 & K2 & K3 & _).
            exists chx, chy, lead, inners, n. cbn [sx cx sy cy body]. rewrite !pos_of_if, !start_pos_pos_of.
            split; [reflexivity|]. split; [reflexivity|]. split.
            { exact (Rn (lead :: inners) Hruns). }
            split; [assumption|]. split; [assumption|]. split; [assumption|].
            split; [destruct Hn'' as [-> | (-> & ? & _)]; lia|].
            destruct Hn'' as [E | (E & _ & E12)]; [left; exact E | right]. destruct E12 as [E1 E2].
            unfold eof in *. lia. }
        simpl.
        exists (sub x e0x chx), (skipn (stx + n) x), (skipn (sty + n) y).
        rewrite O3, N3, !sub_length by lia. rewrite !pos_of_if.
        replace (e0x + (chx - e0x)) with chx by lia.
        replace (e0y + (chx - e0x)) with chy by lia.
        replace (stx + n - chx) with (cntx + d1 + n) by lia.
        replace (sty + n - chy) with (cnty + d2 + n) by lia.
        replace (chx + (cntx + d1 + n)) with (stx + n) by lia.
        replace (chy + (cnty + d2 + n)) with (sty + n) by lia.
        split; [|split; [|split; [reflexivity|split; [reflexivity|split; [reflexivity|split; [reflexivity|exact Hrel]]]]]].
        -- rewrite app_assoc, (sub_app x e0x chx (stx + n)) by lia. apply skipn_sub; lia.
        -- rewrite I8, app_assoc, (sub_app y e0y chy (sty + n)) by lia. apply skipn_sub; lia.
    + (* nothing to emit: ctext2 is empty, so done = start = chunk *)
      simpl.
      apply nonempty_false in Ene.
      assert (chx = stx).
      { apply (sub_empty_eq x); try lia. rewrite <- O2, Ene. reflexivity. }
      assert (chy = sty).
      { apply (sub_empty_eq y); try lia. rewrite <- N2, Ene. reflexivity. }
      assert (cntx + d1 = 0) by lia. assert (cnty + d2 = 0) by lia.
      apply bind_ok_exists with
        (Q := fun rest => hunks_rel e0x e0y (skipn e0x x) (skipn e0y y) rest /\
                          Forall (hunk_ctx_ok x y) rest).
      * (* the same ghost position: first move it to (stx, sty), where the gap ends *)
        destruct (Hnext stx sty (cntx + d1) ctext2) as (rest & Er & Hrel & Hctx).
        { split; [assumption|]. split; [assumption|]. split; [lia|]. split; [lia|]. split; [lia|].
          intro Hneof. destruct Hbr as [Hbr | (Hc & _)]; [contradiction | lia]. }
        replace (cnty + d2) with (cntx + d1) by lia.
        exists rest. split; [exact Er|]. split; [|exact Hctx].
        (* hunks_rel from (e0x,e0y) given hunks_rel from (stx,sty) and the equal gap *)
        clear - Hrel I8 I3 I5 I7 H H0 I4 I6 I1 I2 B1 B3.
        subst chx chy.
        destruct rest as [|h rest]; simpl in *.
        -- rewrite (skipn_sub x e0x stx), (skipn_sub y e0y sty) by lia. congruence.
        -- destruct Hrel as (g & xs' & ys' & Hx & Hy & Hcx & Hcy & Hsx & Hsy & Hrr).
           exists (sub x e0x stx ++ g), xs', ys'.
           rewrite app_length, sub_length by lia.
           replace (e0x + (stx - e0x + length g)) with (stx + length g) by lia.
           replace (e0y + (stx - e0x + length g)) with (sty + length g) by lia.
           split; [|split; [|split; [assumption|split; [assumption|split; [assumption|split; [assumption|assumption]]]]]].
           ++ rewrite (skipn_sub x e0x stx), Hx, <- app_assoc by lia. reflexivity.
           ++ rewrite (skipn_sub y e0y sty), Hy, I8, <- app_assoc by lia. reflexivity.
      * intros rest Hrel. exists rest. split; [reflexivity | assumption].
Qed.

End Loop.

(* ---------------------------------------------------------------- from the checker of the tgs facts to P *)

Lemma count_line_zero l a : count_line l a = 0 -> forall i, nth_error l i <> Some a.
Proof.
  induction l as [|b r IH]; intros H i; simpl in *.
  - destruct i; discriminate.
  - destruct (bytes_eqb b a) eqn:E; [discriminate|].
    destruct i; simpl.
    + intro F. inversion F; subst. rewrite bytes_eqb_refl in E. discriminate.
    + apply IH. lia.
Qed.

Lemma count_line_unique l a : count_line l a = 1 ->
  forall i j, nth_error l i = Some a -> nth_error l j = Some a -> i = j.
Proof.
  induction l as [|b r IH]; intros H i j Hi Hj; simpl in *.
  - discriminate.
  - destruct (bytes_eqb b a) eqn:E.
    + assert (Z : count_line r a = 0) by lia.
      destruct i, j; simpl in *; auto.
      * exfalso. eapply count_line_zero; eauto.
      * exfalso. eapply count_line_zero; eauto.
      * exfalso. eapply count_line_zero; eauto.
    + destruct i; simpl in *.
      { inversion Hi; subst. rewrite bytes_eqb_refl in E. discriminate. }
      destruct j; simpl in *.
      { inversion Hj; subst. rewrite bytes_eqb_refl in E. discriminate. }
      f_equal. eapply IH; eauto.
Qed.

Lemma anchor_ok_anchor x y p : anchor_ok x y p = true -> anchor x y p.
Proof.
  unfold anchor_ok, anchor. intro H.
  destruct (nth_error x (fst p)) as [a|] eqn:Ea; [|discriminate].
  destruct (nth_error y (snd p)) as [b|] eqn:Eb; [|discriminate].
  apply andb_true_iff in H as [H H3]. apply andb_true_iff in H as [H1 H2].
  apply bytes_eqb_true_iff in H1. subst b. apply Nat.eqb_eq in H2, H3.
  split; [apply nth_error_Some; congruence|]. split; [apply nth_error_Some; congruence|].
  split; [congruence|].
  intros i Hi. exact (count_line_unique x a H2 i (fst p) Hi Ea).
Qed.

Lemma increasing_sorted (e : nat * nat) l :
  increasing l = true -> Forall (fun p => le2 p e) l -> StronglySorted le2 (l ++ [e]).
Proof.
  induction l as [|p l IH]; intros Hi Hf; simpl.
  - repeat constructor.
  - inversion Hf; subst.
    assert (Hi' : increasing l = true).
    { destruct l; [reflexivity|]. simpl in Hi. apply andb_true_iff in Hi. tauto. }
    specialize (IH Hi' H2). constructor; [assumption|].
    destruct l as [|q l]; simpl.
    + constructor; [assumption | constructor].
    + simpl in Hi. apply andb_true_iff in Hi as [Hi _]. apply andb_true_iff in Hi as [L1 L2].
      apply Nat.ltb_lt in L1, L2.
      assert (Hpq : le2 p q) by (unfold le2; lia).
      simpl in IH. inversion IH; subst.
      constructor; [assumption|].
      eapply Forall_impl; [|eassumption]. intros r Hr. unfold le2 in *. lia.
Qed.

(* the shape and the facts the checker establishes *)
Definition matches_ok (x y : list line) (ms : list (nat * nat)) : Prop :=
  exists inner, ms = (0, 0) :: inner ++ [(length x, length y)] /\
    Forall (fun p => anchor_ok x y p = true) inner /\ increasing inner = true.

Lemma tgs_ok_list_matches_ok x y ms : tgs_ok_list x y ms = true <-> matches_ok x y ms.
Proof.
  unfold tgs_ok_list, matches_ok. split.
  - intro H. destruct ms as [|[[|?] [|?]] r]; try discriminate.
    destruct (rev r) as [|[a b] ri] eqn:Er; [discriminate|].
    apply andb_true_iff in H as [H H4]. apply andb_true_iff in H as [H H3].
    apply andb_true_iff in H as [H1 H2]. apply Nat.eqb_eq in H1, H2. subst a b.
    exists (rev ri). split.
    + f_equal. rewrite <- (rev_involutive r), Er. reflexivity.
    + split; [|assumption]. apply Forall_forall. apply forallb_forall. assumption.
  - intros (inner & -> & Hf & Hi).
    rewrite rev_app_distr. simpl. rewrite rev_involutive, !Nat.eqb_refl, Hi. simpl.
    rewrite andb_true_r. apply forallb_forall. apply Forall_forall. assumption.
Qed.

Lemma matches_ok_P x y ms : matches_ok x y ms -> P x y 0 0 ms.
Proof.
  intros (inner & -> & Hf & Hi).
  assert (Ha : Forall (anchor x y) inner).
  { eapply Forall_impl; [|exact Hf]. intros p. apply anchor_ok_anchor. }
  assert (Hle : Forall (fun p => le2 p (length x, length y)) inner).
  { eapply Forall_impl; [|exact Ha]. intros p (A1 & A2 & _). unfold le2. simpl. lia. }
  unfold P. split; [discriminate|]. split.
  { change ((0, 0) :: inner ++ [(length x, length y)]) with (((0, 0) :: inner) ++ [(length x, length y)]).
    apply last_last. }
  split; [|split].
  - constructor; [simpl; lia|]. apply Forall_app. split.
    + eapply Forall_impl; [|exact Ha]. intros p (A1 & A2 & _). lia.
    + constructor; [simpl; lia | constructor].
  - constructor.
    + apply increasing_sorted; assumption.
    + apply Forall_forall. intros p _. unfold le2. simpl. lia.
  - simpl. apply Forall_app. split.
    + eapply Forall_impl; [|exact Ha]. intros p Hp. left. assumption.
    + constructor; [right; reflexivity | constructor].
Qed.

(* ---------------------------------------------------------------- the main result about the loop *)

Lemma diff_loop_matches_ok x y ms : matches_ok x y ms ->
  exists hs, diff_loop x y ms 0 0 0 0 0 0 [] = Ok hs /\ hunks_rel 0 0 x y hs /\
             Forall (hunk_ctx_ok x y) hs.
Proof.
  intro H. apply matches_ok_P in H.
  destruct (diff_loop_ok x y ms 0 0 0 0 0 0 0 0 []) as (hs & E & R & Hc); [| | |assumption|].
  - apply Inv_intro; rewrite ?sub_nil; simpl; try lia; reflexivity.
  - split; [|intro F; contradiction].
    exists [], 0. split; [reflexivity|]. simpl. split; [lia | right; split; reflexivity].
  - left. reflexivity.
  - exists hs. repeat split; assumption.
Qed.

(* everything the property says follows from [hunks_rel] *)
Lemma hunks_rel_consequences x y hs : hunks_rel 0 0 x y hs ->
  hunks_wf x y hs /\ apply_hunks x hs = Some y /\ apply_hunks y (swap_hunks hs) = Some x.
Proof.
  intro H. split; [|split].
  - apply wf_from_rel; simpl; try lia. exact H.
  - apply apply_from_rel. exact H.
  - apply apply_from_rel. apply hunks_rel_swap. exact H.
Qed.

(* ---------------------------------------------------------------- the theorems under [tgs_ok] *)

Theorem diff_hunks_rel_partial x y : tgs_ok x y = true ->
  exists hs, diff_hunks x y = Ok hs /\ hunks_rel 0 0 x y hs /\ Forall (hunk_ctx_ok x y) hs.
Proof.
  unfold tgs_ok, diff_hunks. intro H.
  destruct (tgs x y) as [ms| |]; try discriminate. simpl.
  apply diff_loop_matches_ok. apply tgs_ok_list_matches_ok. assumption.
Qed.

Theorem diff_no_panic_partial x y : tgs_ok x y = true -> exists hs, diff_hunks x y = Ok hs.
Proof. intro H. destruct (diff_hunks_rel_partial x y H) as (hs & E & _). eauto. Qed.

Theorem hunks_wf_partial x y hs : tgs_ok x y = true -> diff_hunks x y = Ok hs -> hunks_wf x y hs.
Proof.
  intros H E. destruct (diff_hunks_rel_partial x y H) as (hs' & E' & R & _).
  assert (hs' = hs) by congruence. subst. apply hunks_rel_consequences. assumption.
Qed.

Theorem patch_correct_partial x y hs :
  tgs_ok x y = true -> diff_hunks x y = Ok hs -> apply_hunks x hs = Some y.
Proof.
  intros H E. destruct (diff_hunks_rel_partial x y H) as (hs' & E' & R & _).
  assert (hs' = hs) by congruence. subst. apply hunks_rel_consequences. assumption.
Qed.

Theorem patch_reverse_partial x y hs :
  tgs_ok x y = true -> diff_hunks x y = Ok hs -> apply_hunks y (swap_hunks hs) = Some x.
Proof.
  intros H E. destruct (diff_hunks_rel_partial x y H) as (hs' & E' & R & _).
  assert (hs' = hs) by congruence. subst. apply hunks_rel_consequences. assumption.
Qed.

Theorem hunks_ctx_partial x y hs :
  tgs_ok x y = true -> diff_hunks x y = Ok hs -> Forall (hunk_ctx_ok x y) hs.
Proof.
  intros H E. destruct (diff_hunks_rel_partial x y H) as (hs' & E' & _ & R).
  assert (hs' = hs) by congruence. subst. assumption.
Qed.

(* Diff returns nothing exactly when the texts are byte-identical (needs nothing of tgs) *)
Theorem diff_nil_iff oldName old newName new : diff oldName old newName new = Ok [] <-> old = new.
Proof.
  unfold diff. split.
  - destruct (bytes_eqb old new) eqn:E; [intros _; apply bytes_eqb_true_iff; assumption|].
    destruct (diff_hunks (lines old) (lines new)); simpl; discriminate.
  - intros ->. rewrite bytes_eqb_refl. reflexivity.
Qed.

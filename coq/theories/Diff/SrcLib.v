(* The library call of diff/diff.go that has no denotation in Lib/GoSem*.v, for the translation
   Gen/DiffSrc.v (table: harness/cmd/genconsts/gen_diff_src.go).  Definitions only; it is
   DEFINED as the function the hand-written model already uses for the same call
   (Diff/Diff.v), which is validated against the Go library by the correspondence run of
   harness/cmd/diff (every byte returned by Diff on all generated texts goes through it). *)
From Coq Require Import List.
From Coq.Strings Require Import Byte.
From GI Require Import Lib.Bytes Lib.GoSem Diff.Diff.
Import ListNotations.

(* strings.SplitAfter(s, sep): modelled for a separator of exactly one byte (the pieces end
   after each occurrence, the last piece is what remains, possibly empty: n+1 pieces for n
   occurrences); any other use is outside the modelled domain *)
Definition go_strings_SplitAfter (s sep : bytes) : GoSem.res (list bytes) :=
  match sep with
  | [c] => GoSem.Ok (split_after c s)
  | _ => GoSem.Panic
  end.

(* Gen/ProxySrc.v is goproxytest/allhex.go and pseudo.go translated to Gallina by
   harness/go2coq on every run.  This file proves, for every input, that the generated
   functions return Ok of exactly what the model of Proxy/Proxy.v computes (allhex,
   is_pseudo with the computed x/mod oracles of Proxy/XMod.v): they never panic, and a change
   of the two files that changes the generated text stops these proofs from compiling. *)
From Coq Require Import List Bool Arith ZArith NArith Lia ZifyBool.
From Coq.Strings Require Import Byte.
From GI Require Import Lib.Bytes Lib.BytesFacts Lib.GoSem Lib.GoSemExt Lib.GoSemExtFacts
  Gen.ProxyConsts Proxy.Regex Proxy.Proxy Proxy.XMod Proxy.XModFacts Proxy.SrcLib Gen.ProxySrc.
Import ListNotations.
Local Open Scope nat_scope.

(* ------------------------------------------------------------------ *)
(* allHex: the range loop over 0 .. len(rev)-1, by induction on what is left *)

(* the test of the loop body is the model's range test on the regenerated table *)
Lemma hex_test c :
  (byte_leb x30 c && byte_leb c x39 || byte_leb x61 c && byte_leb c x66) = in_ranges c.
Proof. unfold in_ranges, hex_ranges, byte_leb, bN. cbn [existsb fst snd]. now rewrite orb_false_r. Qed.

Lemma src_allHex_loop_eq (L : Type) : forall suf pre,
  @src_allHex_loop1 L (pre ++ suf) (map Z.of_nat (seq (length pre) (length suf))) =
  if forallb in_ranges suf then Ok (Normal tt) else Ok (Return false).
Proof.
  induction suf as [|c suf IH]; intros pre; [reflexivity|].
  cbn [length seq map src_allHex_loop1 forallb]. unfold go_index.
  rewrite index_z_nat by (rewrite app_length; cbn [length]; lia).
  rewrite nth_error_app2, Nat.sub_diag by lia. cbn [nth_error]. go_red. rewrite hex_test.
  destruct (in_ranges c); go_red; [|reflexivity].
  replace (pre ++ c :: suf) with ((pre ++ [c]) ++ suf) by (now rewrite <- app_assoc).
  replace (S (length pre)) with (length (pre ++ [c])) by (rewrite app_length; cbn [length]; lia).
  apply IH.
Qed.

Theorem src_allHex_eq rev : src_allHex rev = Ok (allhex rev).
Proof.
  unfold src_allHex, allhex. rewrite go_int_range_len.
  pose proof (src_allHex_loop_eq unit rev []) as H. cbn [app length] in H. rewrite H.
  destruct (forallb in_ranges rev); reflexivity.
Qed.

(* ------------------------------------------------------------------ *)
(* isPseudoVersion                                                     *)

Theorem src_isPseudoVersion_eq short v :
  src_isPseudoVersion v = Ok (is_pseudo (xmod_oracles short) v).
Proof.
  unfold src_isPseudoVersion, is_pseudo, go_strings_Count, go_semver_IsValid, go_regexp_MatchString.
  change x2d with pseudo_dash. go_red. cbn [semver_valid pseudo_re xmod_oracles]. do 3 f_equal.
  unfold pseudo_min_dashes. destruct (2 <=? count_byte pseudo_dash v) eqn:E; lia.
Qed.

(* hence what the model proves about the two tests holds of the translated functions: a valid
   semantic version is never taken for a commit hash *)
Theorem src_semver_not_hex v : semver_is_valid v = true -> src_allHex v = Ok false.
Proof. intros H. rewrite src_allHex_eq. f_equal. now apply semver_valid_not_hex. Qed.

(* Examples: the failure value of the translation is real, and the functions compute *)
Example ex_src_proxy :
  src_allHex [x30; x39; x61; x66] = Ok true /\ src_allHex [x30; x67] = Ok false /\ src_allHex [] = Ok true
  /\ go_strings_Count [x2d] [] = Panic /\ go_strings_Count [x2d; x61; x2d] [x2d] = Ok 2%Z.
Proof. vm_compute. repeat split; reflexivity. Qed.

From Coq Require Import String.
Local Open Scope string_scope.

Example ex_src_pseudo :
  src_isPseudoVersion (lit "v0.0.0-20180101000000-abcdef123456") = Ok true
  /\ src_isPseudoVersion (lit "v1.2.3-20180101000000-abcdef123456") = Ok false
  /\ src_isPseudoVersion (lit "v1.2.3") = Ok false.
Proof. vm_compute. repeat split; reflexivity. Qed.

(* C20 — goproxytest: executable model (definitions only; proofs are in ProxyFacts.v).

   The model follows /repo/goproxytest/proxy.go function by function:
     read_mod_list   = Server.readModList
     route           = the first half of Server.handler (prefix check, "/@v/" split,
                       unescaping, the list endpoint, the extension split)
     resolve         = the commit-hash -> version loop of handler (allHex, isPseudoVersion, findHash)
     archive_name / lookup_archive = Server.readArchive
     handler         = handler as a program over the two par.Cache operations
     respond         = the response of a server whose caches compute each key once
   Every literal of proxy.go / pseudo.go / allhex.go comes from Gen/ProxyConsts.v.

   Supplied as data (oracle tables of the run, see [oracles]): module.CheckPath, the
   checkElem(_, filePath) test of module.{Escape,Unescape}Version, module.Check,
   semver.IsValid, semver.Compare(_, _) < 0, pseudoVersionRE.MatchString and the "Short"
   field json.Unmarshal finds in a .info file.  txtar.Parse of an archive file is supplied
   with the directory (an [EFile] carries the parsed file list).  The case escaping of
   x/mod (escapeString / unescapeString) is modelled here. *)
From Coq Require Import List Bool Arith NArith.
From Coq.Strings Require Import Byte.
From GI Require Import Gen.ProxyConsts.
From GI Require Lib.Bytes.
Import ListNotations.

Definition bytes := list byte.

(* ------------------------------------------------------------------ strings *)

Definition beq (a b : byte) : bool := Byte.eqb a b.

Fixpoint bytes_eqb (a b : bytes) : bool :=
  match a, b with
  | [], [] => true
  | x :: a', y :: b' => beq x y && bytes_eqb a' b'
  | _, _ => false
  end.

(* strings.HasPrefix(d, p) *)
Fixpoint has_prefix (p d : bytes) : bool :=
  match p, d with
  | [], _ => true
  | x :: p', y :: d' => beq x y && has_prefix p' d'
  | _ :: _, [] => false
  end.

(* strings.HasSuffix(d, s) and strings.TrimSuffix(d, s) *)
Definition has_suffix (s d : bytes) : bool := has_prefix (rev_append s []) (rev_append d []).
Definition trim_suffix (s d : bytes) : bytes :=
  if has_suffix s d then firstn (length d - length s) d else d.

(* strings.Index(d, sep) *)
Fixpoint index (sep d : bytes) : option nat :=
  if has_prefix sep d then Some 0 else
  match d with
  | [] => None
  | _ :: r => option_map S (index sep r)
  end.

(* strings.LastIndex(d, sep) *)
Fixpoint last_index (sep d : bytes) : option nat :=
  match d with
  | [] => if has_prefix sep [] then Some 0 else None
  | _ :: r =>
      match last_index sep r with
      | Some i => Some (S i)
      | None => if has_prefix sep d then Some 0 else None
      end
  end.

(* strings.ReplaceAll(d, a, b) for one-byte a, b *)
Definition replace_byte (a b : byte) (d : bytes) : bytes :=
  map (fun c => if beq c a then b else c) d.

(* strings.Count(d, c) for a one-byte c *)
Definition count_byte (c : byte) (d : bytes) : nat :=
  length (filter (beq c) d).

Definition mem_byte (c : byte) (d : bytes) : bool := existsb (beq c) d.

(* d[strings.LastIndex(d, c)+1:]  (the whole string when c does not occur: d[-1+1:]) *)
Definition after_last (c : byte) (d : bytes) : bytes :=
  match last_index [c] d with
  | Some i => skipn (S i) d
  | None => d
  end.

(* ------------------------------------------------------------------ x/mod case escaping *)

Definition bang : byte := x21.

Definition lower_of (b : byte) : option byte :=
  match b with
  | x41 => Some x61 | x42 => Some x62 | x43 => Some x63 | x44 => Some x64 | x45 => Some x65
  | x46 => Some x66 | x47 => Some x67 | x48 => Some x68 | x49 => Some x69 | x4a => Some x6a
  | x4b => Some x6b | x4c => Some x6c | x4d => Some x6d | x4e => Some x6e | x4f => Some x6f
  | x50 => Some x70 | x51 => Some x71 | x52 => Some x72 | x53 => Some x73 | x54 => Some x74
  | x55 => Some x75 | x56 => Some x76 | x57 => Some x77 | x58 => Some x78 | x59 => Some x79
  | x5a => Some x7a
  | _ => None
  end.

Definition upper_of (b : byte) : option byte :=
  match b with
  | x61 => Some x41 | x62 => Some x42 | x63 => Some x43 | x64 => Some x44 | x65 => Some x45
  | x66 => Some x46 | x67 => Some x47 | x68 => Some x48 | x69 => Some x49 | x6a => Some x4a
  | x6b => Some x4b | x6c => Some x4c | x6d => Some x4d | x6e => Some x4e | x6f => Some x4f
  | x70 => Some x50 | x71 => Some x51 | x72 => Some x52 | x73 => Some x53 | x74 => Some x54
  | x75 => Some x55 | x76 => Some x56 | x77 => Some x57 | x78 => Some x58 | x79 => Some x59
  | x7a => Some x5a
  | _ => None
  end.

Definition is_upper (b : byte) : bool := match lower_of b with Some _ => true | None => false end.

(* r < utf8.RuneSelf: any byte >= 0x80 decodes to a rune >= RuneSelf (or RuneError) *)
Definition is_ascii (b : byte) : bool := N.ltb (Byte.to_N b) 128.

(* module.escapeString: error on '!' or a non-ASCII rune; 'X' -> "!x" *)
Definition escapable (s : bytes) : bool :=
  forallb (fun c => is_ascii c && negb (beq c bang)) s.

Definition escape_byte (c : byte) : bytes :=
  match lower_of c with
  | Some l => [bang; l]
  | None => [c]
  end.

Definition escape_string (s : bytes) : option bytes :=
  if escapable s then Some (flat_map escape_byte s) else None.

(* module.unescapeString; [b] is the variable "bang" of the Go loop *)
Fixpoint unescape_go (b : bool) (s : bytes) : option bytes :=
  match s with
  | [] => if b then None else Some []
  | c :: r =>
      if negb (is_ascii c) then None else
      if b then
        match upper_of c with
        | Some u => option_map (cons u) (unescape_go false r)
        | None => None
        end
      else if beq c bang then unescape_go true r
      else if is_upper c then None
      else option_map (cons c) (unescape_go false r)
  end.

Definition unescape_string (s : bytes) : option bytes := unescape_go false s.

(* ------------------------------------------------------------------ oracle tables *)

Record oracles := {
  check_path : bytes -> bool;             (* module.CheckPath(p) == nil *)
  check_elem : bytes -> bool;             (* checkElem(v, filePath) == nil *)
  module_check : bytes -> bytes -> bool;  (* module.Check(p, v) == nil *)
  semver_valid : bytes -> bool;           (* semver.IsValid(v) *)
  pseudo_re : bytes -> bool;              (* pseudoVersionRE.MatchString(v) *)
  semver_lt : bytes -> bytes -> bool;     (* semver.Compare(a, b) < 0 *)
  info_short : bytes -> bytes             (* the Short field json.Unmarshal reads from a .info *)
}.

Section Model.
Variable O : oracles.

(* module.UnescapePath / UnescapeVersion / EscapePath / EscapeVersion *)
Definition unescape_path (enc : bytes) : option bytes :=
  match unescape_string enc with
  | Some p => if check_path O p then Some p else None
  | None => None
  end.

Definition unescape_version (enc : bytes) : option bytes :=
  match unescape_string enc with
  | Some v => if check_elem O v then Some v else None
  | None => None
  end.

Definition escape_path (p : bytes) : option bytes :=
  if check_path O p then escape_string p else None.

Definition escape_version (v : bytes) : option bytes :=
  if check_elem O v && negb (mem_byte bang v) then escape_string v else None.

(* pseudo.go *)
Definition is_pseudo (v : bytes) : bool :=
  (pseudo_min_dashes <=? count_byte pseudo_dash v) && semver_valid O v && pseudo_re O v.

(* allhex.go *)
Definition in_ranges (c : byte) : bool :=
  existsb (fun r => N.leb (Byte.to_N (fst r)) (Byte.to_N c) && N.leb (Byte.to_N c) (Byte.to_N (snd r)))
          hex_ranges.
Definition allhex (v : bytes) : bool := forallb in_ranges v.

(* ------------------------------------------------------------------ the served directory *)

Definition archive := list (bytes * bytes).        (* txtar.Archive.Files: (Name, Data) in order *)

Inductive node :=
| NFile (data : bytes)
| NDir (children : list (bytes * node)).           (* in os.ReadDir order *)

Inductive entry :=
| EFile (files : archive)                          (* a regular file; [files] = txtar.Parse of it *)
| EDir (children : list (bytes * node)).

Definition dir := list (bytes * entry).            (* os.ReadDir(srv.dir), in order *)

Definition is_dir (e : entry) : bool := match e with EDir _ => true | EFile _ => false end.

(* readModList: [None] = the error return (the server does not start) *)
Definition mod_entry (name : bytes) (isdir : bool) : option (option (bytes * bytes)) :=
  let stripped :=
    if has_suffix suffix_txt name then Some (trim_suffix suffix_txt name)
    else if has_suffix suffix_txtar name then Some (trim_suffix suffix_txtar name)
    else if isdir then Some name
    else None in
  match stripped with
  | None => Some None                                             (* continue *)
  | Some nm =>
      match last_index vers_sep nm with
      | None => Some None                                         (* continue *)
      | Some i =>
          match unescape_path (replace_byte disk_sep path_sep (firstn i nm)) with
          | None => None                                          (* cannot decode module path *)
          | Some path =>
              match unescape_version (skipn (i + vers_skip) nm) with
              | None => None                                      (* cannot decode module version *)
              | Some vers => Some (Some (path, vers))
              end
          end
      end
  end.

Fixpoint read_mod_list_names (names : list (bytes * bool)) : option (list (bytes * bytes)) :=
  match names with
  | [] => Some []
  | (nm, isd) :: r =>
      match mod_entry nm isd with
      | None => None
      | Some o =>
          match read_mod_list_names r with
          | None => None
          | Some l => Some (match o with Some m => m :: l | None => l end)
          end
      end
  end.

Definition dir_names (d : dir) : list (bytes * bool) := map (fun ne => (fst ne, is_dir (snd ne))) d.
Definition read_mod_list (d : dir) : option (list (bytes * bytes)) := read_mod_list_names (dir_names d).

(* readArchive: the cache key (filepath.Join(srv.dir, prefix+"_"+encVers), relative to srv.dir) *)
Definition archive_name (path vers : bytes) : option bytes :=
  match escape_path path, escape_version vers with
  | Some enc, Some encv => Some (replace_byte path_sep disk_sep enc ++ [disk_sep] ++ encv)
  | _, _ => None
  end.

Fixpoint find_entry (d : dir) (name : bytes) : option entry :=
  match d with
  | [] => None
  | (n, e) :: r => if bytes_eqb n name then Some e else find_entry r name
  end.

(* filepath.WalkDir below the root, names relative to it with "/" *)
Fixpoint walk (pre : bytes) (n : node) : archive :=
  match n with
  | NFile data => [(pre, data)]
  | NDir ch =>
      (fix go (l : list (bytes * node)) : archive :=
         match l with
         | [] => []
         | (nm, c) :: r => walk (pre ++ [path_sep] ++ nm) c ++ go r
         end) ch
  end.

Fixpoint walk_root (ch : list (bytes * node)) : archive :=
  match ch with
  | [] => []
  | (nm, c) :: r => walk nm c ++ walk_root r
  end.

(* the function archiveCache.Do computes for a key: .txtar, then .txt, then a directory;
   a read error that is not "does not exist" (here: the entry has the wrong kind) gives nil *)
Definition lookup_archive (d : dir) (name : bytes) : option archive :=
  match find_entry d (name ++ suffix_txtar) with
  | Some (EFile fs) => Some fs
  | Some (EDir _) => None
  | None =>
      match find_entry d (name ++ suffix_txt) with
      | Some (EFile fs) => Some fs
      | Some (EDir _) => None
      | None =>
          match find_entry d name with
          | Some (EDir ch) => Some (walk_root ch)
          | Some (EFile _) => None
          | None => None
          end
      end
  end.

Fixpoint find_file (name : bytes) (a : archive) : option bytes :=
  match a with
  | [] => None
  | (n, data) :: r => if bytes_eqb n name then Some data else find_file name r
  end.

(* ------------------------------------------------------------------ routing *)

Inductive route_result :=
| RNotFound
| RList (path : bytes)
| RFile (path vers ext : bytes).

Definition route (url : bytes) : route_result :=
  if negb (has_prefix mod_prefix url) then RNotFound else
  let p := skipn (length mod_prefix) url in
  match index at_v p with
  | None => RNotFound
  | Some i =>
      let enc := firstn i p in
      let file := skipn (i + length at_v) p in
      match unescape_path enc with
      | None => RNotFound
      | Some path =>
          if bytes_eqb file list_name then RList path else
          match last_index [ext_sep] file with
          | None => RNotFound
          | Some j =>
              match unescape_version (firstn j file) with
              | None => RNotFound
              | Some vers => RFile path vers (skipn (S j) file)
              end
          end
      end
  end.

(* ------------------------------------------------------------------ responses *)

Inductive zipres :=
| ZOk (entries : list (bytes * bytes))    (* the zip, as the list of (name, data) it contains *)
| ZErr.                                   (* z.Create / zf.Write failed *)

Inductive response :=
| NotFound
| OkBytes (body : bytes)
| OkZip (entries : list (bytes * bytes))
| Err500.

(* archive/zip refuses names longer than 65535 bytes, and data written to a name ending in "/" *)
Definition zip_entry_bad (name data : bytes) : bool :=
  N.ltb 65535 (N.of_nat (length name)) ||
  (has_suffix zip_slash name && negb (match data with [] => true | _ => false end)).

Fixpoint build_zip_entries (path vers : bytes) (a : archive) : option (list (bytes * bytes)) :=
  match a with
  | [] => Some []
  | (n, data) :: r =>
      if has_prefix hidden_prefix n then build_zip_entries path vers r else
      let zn := path ++ zip_at ++ vers ++ zip_slash ++ n in
      if zip_entry_bad zn data then None else
      option_map (cons (zn, data)) (build_zip_entries path vers r)
  end.

Definition build_zip (path vers : bytes) (a : archive) : zipres :=
  match build_zip_entries path vers a with
  | Some es => ZOk es
  | None => ZErr
  end.

Definition zip_response (z : zipres) : response :=
  match z with ZOk es => OkZip es | ZErr => Err500 end.

(* the list endpoint *)
Definition listed (ml : list (bytes * bytes)) (path : bytes) : list bytes :=
  map snd (filter (fun m => bytes_eqb (fst m) path && negb (is_pseudo (snd m)) &&
                            module_check O (fst m) (snd m)) ml).

Definition list_response (ml : list (bytes * bytes)) (path : bytes) : response :=
  match listed ml path with
  | [] => NotFound
  | vs => OkBytes (flat_map (fun v => v ++ [x0a]) vs)
  end.

(* ------------------------------------------------------------------ the handler as a program
   over the two caches.  [ArchDo name k] is srv.archiveCache.Do(name, f); the value f computes
   is [lookup_archive d name] (the directory is read-only).  [ZipDo name v k] is
   srv.zipCache.Do(a, f) where a is the archive cached under [name] and v the value THIS
   caller's f would compute (it depends on the caller's path and vers). *)

Inductive prog (A : Type) :=
| Ret (a : A)
| ArchDo (name : bytes) (k : option archive -> prog A)
| ZipDo (name : bytes) (v : zipres) (k : zipres -> prog A).
Arguments Ret {A} a.
Arguments ArchDo {A} name k.
Arguments ZipDo {A} name v k.

(* readArchive *)
Definition read_archive {A} (path vers : bytes) (k : option (bytes * archive) -> prog A) : prog A :=
  match archive_name path vers with
  | None => k None
  | Some n => ArchDo n (fun r => match r with Some a => k (Some (n, a)) | None => k None end)
  end.

(* findHash *)
Definition find_hash {A} (path vers : bytes) (k : bytes -> prog A) : prog A :=
  read_archive path vers (fun r =>
    match r with
    | None => k []
    | Some (_, a) =>
        k (info_short O (match find_file info_entry a with Some data => data | None => [] end))
    end).

(* a stored version answers for the requested commit hash when its own hash (the suffix of a
   pseudo-version, or the Short field of .info) is a prefix of the request or the other way round.
   CORRECTED BEHAVIOUR: a version without hash (no .info, no Short field) matches nothing; the
   code tested only the two HasPrefix, and strings.HasPrefix(vers, "") holds for every request
   (defect reported for C20, see corpus/C20/empty-short-matches-any-hash.json). *)
Definition hash_matches (hash vers : bytes) : bool :=
  negb (match hash with [] => true | _ => false end) &&
  (has_prefix vers hash || has_prefix hash vers).

(* the loop "for _, m := range srv.modList" of the allHex branch; [best] is the loop variable *)
Fixpoint resolve {A} (ml : list (bytes * bytes)) (path vers best : bytes) (k : bytes -> prog A) : prog A :=
  match ml with
  | [] => k best
  | (p, v) :: r =>
      if bytes_eqb p path && semver_lt O best v then
        let cont := fun hash : bytes =>
          if hash_matches hash vers
          then resolve r path vers v k
          else resolve r path vers best k in
        if is_pseudo v then cont (after_last hash_sep v) else find_hash p v cont
      else resolve r path vers best k
  end.

Definition serve_file (path vers ext : bytes) : prog response :=
  read_archive path vers (fun r =>
    match r with
    | None => Ret NotFound
    | Some (n, a) =>
        if bytes_eqb ext ext_info || bytes_eqb ext ext_mod then
          match find_file (entry_dot ++ ext) a with
          | Some data => Ret (OkBytes data)
          | None => Ret NotFound
          end
        else if bytes_eqb ext ext_zip then
          ZipDo n (build_zip path vers a) (fun z => Ret (zip_response z))
        else Ret NotFound
    end).

Definition handler (d : dir) (ml : list (bytes * bytes)) (url : bytes) : prog response :=
  match route url with
  | RNotFound => Ret NotFound
  | RList path => Ret (list_response ml path)
  | RFile path vers ext =>
      if allhex vers then
        resolve ml path vers [] (fun best =>
          serve_file path (match best with [] => vers | _ => best end) ext)
      else serve_file path vers ext
  end.

(* ------------------------------------------------------------------ caches computed once per key *)

(* a cache is the list of (key, result) pairs computed so far *)
Fixpoint cache_get {V} (c : list (bytes * V)) (k : bytes) : option V :=
  match c with
  | [] => None
  | (k', v) :: r => if bytes_eqb k' k then Some v else cache_get r k
  end.

(* par.Cache.Do(k, f) where f would return v: the first caller's value is kept *)
Definition cache_do {V} (c : list (bytes * V)) (k : bytes) (v : V) : V * list (bytes * V) :=
  match cache_get c k with
  | Some v' => (v', c)
  | None => (v, (k, v) :: c)
  end.

Record caches := { arch_cache : list (bytes * option archive); zip_cache : list (bytes * zipres) }.
Definition no_caches : caches := {| arch_cache := []; zip_cache := [] |}.

(* one cache operation of a handler *)
Definition step {A} (d : dir) (p : prog A) (st : caches) : prog A * caches :=
  match p with
  | Ret a => (Ret a, st)
  | ArchDo n k =>
      let (r, c) := cache_do (arch_cache st) n (lookup_archive d n) in
      (k r, {| arch_cache := c; zip_cache := zip_cache st |})
  | ZipDo n v k =>
      let (r, c) := cache_do (zip_cache st) n v in
      (k r, {| arch_cache := arch_cache st; zip_cache := c |})
  end.

(* a handler run to completion, alone, from a given cache state *)
Fixpoint run {A} (d : dir) (p : prog A) (st : caches) : A * caches :=
  match p with
  | Ret a => (a, st)
  | ArchDo n k =>
      let (r, c) := cache_do (arch_cache st) n (lookup_archive d n) in
      run d (k r) {| arch_cache := c; zip_cache := zip_cache st |}
  | ZipDo n v k =>
      let (r, c) := cache_do (zip_cache st) n v in
      run d (k r) {| arch_cache := arch_cache st; zip_cache := c |}
  end.

(* the response of a program when every cache returns the value the caller itself computes *)
Fixpoint run_own {A} (d : dir) (p : prog A) : A :=
  match p with
  | Ret a => a
  | ArchDo n k => run_own d (k (lookup_archive d n))
  | ZipDo n v k => run_own d (k v)
  end.

(* the zip-cache operations a program performs on that run *)
Fixpoint zip_ops {A} (d : dir) (p : prog A) : list (bytes * zipres) :=
  match p with
  | Ret _ => []
  | ArchDo n k => zip_ops d (k (lookup_archive d n))
  | ZipDo n v k => (n, v) :: zip_ops d (k v)
  end.

(* THE response: a freshly started server answering one request *)
Definition respond (d : dir) (ml : list (bytes * bytes)) (url : bytes) : response :=
  fst (run d (handler d ml url) no_caches).

(* many handlers interleaved at the granularity of cache operations: a schedule is the list
   of thread indices that take the next step *)
Fixpoint step_nth {A} (d : dir) (i : nat) (pool : list (prog A)) (st : caches) : list (prog A) * caches :=
  match pool, i with
  | [], _ => ([], st)
  | p :: r, 0 => let (p', st') := step d p st in (p' :: r, st')
  | p :: r, S j => let (r', st') := step_nth d j r st in (p :: r', st')
  end.

Fixpoint run_sched {A} (d : dir) (sched : list nat) (pool : list (prog A)) (st : caches) : list (prog A) * caches :=
  match sched with
  | [] => (pool, st)
  | i :: s => let (pool', st') := step_nth d i pool st in run_sched d s pool' st'
  end.

(* the request URL the theorems talk about *)
Definition file_url (encpath encvers ext : bytes) : bytes :=
  mod_prefix ++ encpath ++ at_v ++ encvers ++ [ext_sep] ++ ext.
Definition list_url (encpath : bytes) : bytes := mod_prefix ++ encpath ++ at_v ++ list_name.

(* (path, vers) has an archive in the directory *)
Definition stored (d : dir) (path vers : bytes) : option archive :=
  match archive_name path vers with
  | Some n => lookup_archive d n
  | None => None
  end.

End Model.

Arguments Ret {A} a.
Arguments ArchDo {A} name k.
Arguments ZipDo {A} name v k.

(* ------------------------------------------------------------------ the zip at the level of its central
   directory: what archive/zip's Writer records for z.Create(name) followed by zf.Write(data) and
   z.Close(): name, method (Deflate; Store for a name ending in "/"), general-purpose flags (bit 3 =
   data descriptor for files; bit 11 = UTF-8 when the name needs it), CRC-32 of the data and the
   uncompressed size.  The CRC-32 is an oracle function; compressed sizes, offsets, times and the
   byte-level encoding are not modelled (the runner checks them with an independent reader). *)

Record cd_entry := { cd_name : bytes; cd_method : N; cd_flags : N; cd_crc : N; cd_size : N }.

(* zip.detectUTF8(name): valid && require *)
Definition zip_needs_utf8 (n : bytes) : bool :=
  Lib.Bytes.utf8_valid n &&
  existsb (fun c => N.ltb (Byte.to_N c) 32 || N.ltb 125 (Byte.to_N c) || N.eqb (Byte.to_N c) 92) n.

Definition cd_of (crc : bytes -> N) (e : bytes * bytes) : cd_entry :=
  let isdir := has_suffix zip_slash (fst e) in
  {| cd_name := fst e;
     cd_method := if isdir then 0%N else 8%N;
     cd_flags := ((if isdir then 0 else 8) + (if zip_needs_utf8 (fst e) then 2048 else 0))%N;
     cd_crc := crc (snd e);
     cd_size := N.of_nat (length (snd e)) |}.

Definition central_directory (crc : bytes -> N) (es : list (bytes * bytes)) : list cd_entry := map (cd_of crc) es.

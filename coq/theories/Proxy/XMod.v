(* C20 — golang.org/x/mod v0.21.0 (module.CheckPath, checkElem, module.Check, semver parse /
   IsValid / Compare / Major / Build / Canonical) as executable Gallina, on ASCII strings, and
   goproxytest's isPseudoVersion with the regular expression generated from pseudo.go.
   Definitions only.  x/mod is a pinned dependency of /repo (go.mod), not part of it: its
   literals are written here, and every decision the model takes with these functions is
   compared with the real x/mod by the runner (cross-check "xmod:*").

   Deviation, unreachable from the proxy model: for strings with bytes >= 0x80 the functions
   answer false, whereas checkElem(_, filePath) accepts Unicode letters.  Every string the
   handler checks comes out of unescapeString, which rejects such bytes. *)
From Coq Require Import List Bool Arith NArith String.
From Coq.Strings Require Import Byte.
From GI Require Import Gen.ProxyConsts Proxy.Regex Proxy.Proxy.
Import ListNotations.

Definition lit (s : string) : bytes := list_byte_of_string s.

Definition s_gopkg : bytes := Eval compute in lit "gopkg.in/".
Definition s_unstable : bytes := Eval compute in lit "-unstable".
Definition s_dotv : bytes := Eval compute in lit ".v".
Definition s_dotv0 : bytes := Eval compute in lit ".v0".
Definition s_dotv1 : bytes := Eval compute in lit ".v1".
Definition s_slashv1 : bytes := Eval compute in lit "/v1".
Definition s_v0 : bytes := Eval compute in lit "v0".
Definition s_v1 : bytes := Eval compute in lit "v1".
Definition s_v000 : bytes := Eval compute in lit "v0.0.0-".
Definition s_incompatible : bytes := Eval compute in lit "+incompatible".
Definition s_file_punct : bytes := Eval compute in lit "!#$%&()+,-.=@[]^_{}~ ".
Definition s_mod_punct : bytes := Eval compute in lit "-._~".
Definition bad_windows_names : list bytes := Eval compute in
  map lit ["CON"; "PRN"; "AUX"; "NUL"; "COM1"; "COM2"; "COM3"; "COM4"; "COM5"; "COM6"; "COM7"; "COM8"; "COM9";
           "LPT1"; "LPT2"; "LPT3"; "LPT4"; "LPT5"; "LPT6"; "LPT7"; "LPT8"; "LPT9"]%string.

Definition c_slash : byte := x2f.
Definition c_dot : byte := x2e.
Definition c_dash : byte := x2d.
Definition c_plus : byte := x2b.
Definition c_tilde : byte := x7e.
Definition c_v : byte := x76.
Definition c_0 : byte := x30.

Definition in_rng (lo hi : N) (c : byte) : bool := N.leb lo (Byte.to_N c) && N.leb (Byte.to_N c) hi.
Definition is_digit (c : byte) : bool := in_rng 48 57 c.
Definition is_lower_l (c : byte) : bool := in_rng 97 122 c.
Definition is_upper_l (c : byte) : bool := in_rng 65 90 c.
Definition is_letter (c : byte) : bool := is_lower_l c || is_upper_l c.

(* ------------------------------------------------------------------ strings *)

(* strings.Split(s, c) *)
Fixpoint split_byte (c : byte) (s : bytes) : list bytes :=
  match s with
  | [] => [[]]
  | x :: r =>
      if beq x c then [] :: split_byte c r
      else match split_byte c r with
           | h :: t => (x :: h) :: t
           | [] => [[x]]
           end
  end.

Fixpoint take_while (f : byte -> bool) (s : bytes) : bytes :=
  match s with
  | x :: r => if f x then x :: take_while f r else []
  | [] => []
  end.

Fixpoint drop_while (f : byte -> bool) (s : bytes) : bytes :=
  match s with
  | x :: r => if f x then drop_while f r else s
  | [] => []
  end.

Definition last_b (s : bytes) : option byte := match rev_append s [] with x :: _ => Some x | [] => None end.
Definition is_nil (s : bytes) : bool := match s with [] => true | _ => false end.
Definition nth_b (i : nat) (s : bytes) : option byte := nth_error s i.
Definition opt_is (o : option byte) (c : byte) : bool := match o with Some x => beq x c | None => false end.

(* ASCII upper-casing (strings.EqualFold against the upper-case reserved names) *)
Definition to_upper (c : byte) : byte := match upper_of c with Some u => u | None => c end.

(* ------------------------------------------------------------------ module.checkElem / checkPath *)

Inductive path_kind := ModulePath | ImportPath | FilePath.

Definition first_path_ok (c : byte) : bool := beq c c_dash || beq c c_dot || is_digit c || is_lower_l c.
Definition mod_path_ok (c : byte) : bool := is_ascii c && (mem_byte c s_mod_punct || is_digit c || is_letter c).
Definition import_path_ok (c : byte) : bool := mod_path_ok c || beq c c_plus.
Definition file_name_ok (c : byte) : bool := is_ascii c && (is_digit c || is_letter c || mem_byte c s_file_punct).

Definition char_ok (k : path_kind) (c : byte) : bool :=
  match k with ModulePath => mod_path_ok c | ImportPath => import_path_ok c | FilePath => file_name_ok c end.

Definition is_module_kind (k : path_kind) : bool := match k with ModulePath => true | _ => false end.
Definition is_file_kind (k : path_kind) : bool := match k with FilePath => true | _ => false end.

(* "trailing tilde and digits": ~ not last, only digits after the last ~ *)
Definition tilde_short (short : bytes) : bool :=
  match last_index [c_tilde] short with
  | Some t => (S t <? List.length short) && forallb is_digit (skipn (S t) short)
  | None => false
  end.

Definition check_elem_k (k : path_kind) (elem : bytes) : bool :=
  negb (is_nil elem) &&
  negb (count_byte c_dot elem =? List.length elem) &&
  negb (is_module_kind k && opt_is (nth_b 0 elem) c_dot) &&
  negb (opt_is (last_b elem) c_dot) &&
  forallb (char_ok k) elem &&
  (let short := take_while (fun c => negb (beq c c_dot)) elem in
   negb (existsb (fun bad => bytes_eqb bad (map to_upper short)) bad_windows_names) &&
   (is_file_kind k || negb (tilde_short short))).

Definition check_path_k (k : path_kind) (path : bytes) : bool :=
  forallb is_ascii path &&
  negb (is_nil path) &&
  negb (opt_is (nth_b 0 path) c_dash && negb (is_file_kind k)) &&
  forallb (check_elem_k k) (split_byte c_slash path).
  (* "double slash" and "trailing slash" are empty elements *)

(* checkElem(v, filePath) == nil *)
Definition check_elem_x (v : bytes) : bool := check_elem_k FilePath v.

(* ------------------------------------------------------------------ SplitPathVersion *)

Definition trailing (f : byte -> bool) (s : bytes) : nat := List.length (take_while f (rev_append s [])).

Definition split_gopkg_in (p : bytes) : bytes * bytes * bool :=
  let q := if has_suffix s_unstable p then firstn (List.length p - List.length s_unstable) p else p in
  let i := List.length q - trailing is_digit q in
  if (i <=? 1) || negb (opt_is (nth_b (i - 1) p) c_v) || negb (opt_is (nth_b (i - 2) p) c_dot)
  then (p, [], false)
  else
    let pm := skipn (i - 2) p in
    if (List.length pm <=? 2) || (opt_is (nth_b 2 pm) c_0 && negb (bytes_eqb pm s_dotv0))
    then (p, [], false)
    else (firstn (i - 2) p, pm, true).

Definition split_path_version (p : bytes) : bytes * bytes * bool :=
  if has_prefix s_gopkg p then split_gopkg_in p else
  let k := trailing (fun c => is_digit c || beq c c_dot) p in
  let i := List.length p - k in
  if (i <=? 1) || (k =? 0) || negb (opt_is (nth_b (i - 1) p) c_v) || negb (opt_is (nth_b (i - 2) p) c_slash)
  then (p, [], true)
  else
    let pm := skipn (i - 2) p in
    let dot := mem_byte c_dot (skipn i p) in
    if dot || (List.length pm <=? 2) || opt_is (nth_b 2 pm) c_0 || bytes_eqb pm s_slashv1
    then (p, [], false)
    else (firstn (i - 2) p, pm, true).

(* module.CheckPath(p) == nil *)
Definition check_path_x (p : bytes) : bool :=
  check_path_k ModulePath p &&
  (let first := take_while (fun c => negb (beq c c_slash)) p in
   negb (is_nil first) && mem_byte c_dot first && negb (opt_is (nth_b 0 p) c_dash) &&
   forallb first_path_ok first) &&
  snd (split_path_version p).

(* ------------------------------------------------------------------ semver *)

Record parsed := { p_major : bytes; p_minor : bytes; p_patch : bytes; p_short : bytes;
                   p_prerelease : bytes; p_build : bytes }.

Definition parse_int (v : bytes) : option (bytes * bytes) :=
  match v with
  | c :: r =>
      if is_digit c then
        let ds := take_while is_digit r in
        if beq c c_0 && negb (is_nil ds) then None else Some (c :: ds, drop_while is_digit r)
      else None
  | [] => None
  end.

Definition is_ident_char (c : byte) : bool := is_letter c || is_digit c || beq c c_dash.
Definition is_num (v : bytes) : bool := forallb is_digit v.
Definition is_bad_num (v : bytes) : bool := is_num v && (1 <? List.length v) && opt_is (nth_b 0 v) c_0.

Definition parse_prerelease (v : bytes) : option (bytes * bytes) :=
  match v with
  | c :: r =>
      if beq c c_dash then
        let body := take_while (fun x => negb (beq x c_plus)) r in
        let rest := drop_while (fun x => negb (beq x c_plus)) r in
        if forallb (fun x => is_ident_char x || beq x c_dot) body &&
           forallb (fun id => negb (is_nil id) && negb (is_bad_num id)) (split_byte c_dot body)
        then Some (c :: body, rest) else None
      else None
  | [] => None
  end.

Definition parse_build (v : bytes) : option (bytes * bytes) :=
  match v with
  | c :: r =>
      if beq c c_plus then
        if forallb (fun x => is_ident_char x || beq x c_dot) r &&
           forallb (fun id => negb (is_nil id)) (split_byte c_dot r)
        then Some (v, []) else None
      else None
  | [] => None
  end.

Definition s_0 : bytes := [c_0].
Definition s_dot00 : bytes := Eval compute in lit ".0.0".
Definition s_dot0 : bytes := Eval compute in lit ".0".

Definition parse (v : bytes) : option parsed :=
  match v with
  | c :: v1 =>
      if negb (beq c c_v) then None else
      match parse_int v1 with
      | None => None
      | Some (major, v2) =>
          match v2 with
          | [] => Some {| p_major := major; p_minor := s_0; p_patch := s_0; p_short := s_dot00;
                          p_prerelease := []; p_build := [] |}
          | d :: v3 =>
              if negb (beq d c_dot) then None else
              match parse_int v3 with
              | None => None
              | Some (minor, v4) =>
                  match v4 with
                  | [] => Some {| p_major := major; p_minor := minor; p_patch := s_0; p_short := s_dot0;
                                  p_prerelease := []; p_build := [] |}
                  | e :: v5 =>
                      if negb (beq e c_dot) then None else
                      match parse_int v5 with
                      | None => None
                      | Some (patch, v6) =>
                          let pre := if opt_is (nth_b 0 v6) c_dash then parse_prerelease v6 else Some ([], v6) in
                          match pre with
                          | None => None
                          | Some (prerelease, v7) =>
                              let bld := if opt_is (nth_b 0 v7) c_plus then parse_build v7 else Some ([], v7) in
                              match bld with
                              | None => None
                              | Some (build, v8) =>
                                  if is_nil v8 then
                                    Some {| p_major := major; p_minor := minor; p_patch := patch; p_short := [];
                                            p_prerelease := prerelease; p_build := build |}
                                  else None
                              end
                          end
                      end
                  end
              end
          end
      end
  | [] => None
  end.

Definition semver_is_valid (v : bytes) : bool := match parse v with Some _ => true | None => false end.
Definition semver_major (v : bytes) : bytes := match parse v with Some p => c_v :: p_major p | None => [] end.
Definition semver_build (v : bytes) : bytes := match parse v with Some p => p_build p | None => [] end.
Definition semver_canonical (v : bytes) : bytes :=
  match parse v with
  | None => []
  | Some p =>
      if negb (is_nil (p_build p)) then firstn (List.length v - List.length (p_build p)) v
      else if negb (is_nil (p_short p)) then v ++ p_short p
      else v
  end.

(* Go's string comparison x < y *)
Fixpoint bytes_lt (x y : bytes) : bool :=
  match x, y with
  | _, [] => false
  | [], _ :: _ => true
  | a :: x', b :: y' =>
      if N.ltb (Byte.to_N a) (Byte.to_N b) then true
      else if N.ltb (Byte.to_N b) (Byte.to_N a) then false
      else bytes_lt x' y'
  end.

Definition compare_int (x y : bytes) : comparison :=
  if bytes_eqb x y then Eq
  else if List.length x <? List.length y then Lt
  else if List.length y <? List.length x then Gt
  else if bytes_lt x y then Lt else Gt.

Fixpoint compare_idents (xs ys : list bytes) : comparison :=
  match xs, ys with
  | [], _ => Lt             (* x ran out first (x == "" -> -1) *)
  | _ :: _, [] => Gt
  | dx :: xs', dy :: ys' =>
      if bytes_eqb dx dy then compare_idents xs' ys'
      else
        let ix := is_num dx in
        let iy := is_num dy in
        if negb (Bool.eqb ix iy) then (if ix then Lt else Gt)
        else if ix && (List.length dx <? List.length dy) then Lt
        else if ix && (List.length dy <? List.length dx) then Gt
        else if bytes_lt dx dy then Lt else Gt
  end.

Definition compare_prerelease (x y : bytes) : comparison :=
  if bytes_eqb x y then Eq
  else if is_nil x then Gt
  else if is_nil y then Lt
  else compare_idents (split_byte c_dot (tl x)) (split_byte c_dot (tl y)).

Definition semver_compare (v w : bytes) : comparison :=
  match parse v, parse w with
  | None, None => Eq
  | None, Some _ => Lt
  | Some _, None => Gt
  | Some pv, Some pw =>
      match compare_int (p_major pv) (p_major pw) with
      | Eq =>
          match compare_int (p_minor pv) (p_minor pw) with
          | Eq =>
              match compare_int (p_patch pv) (p_patch pw) with
              | Eq => compare_prerelease (p_prerelease pv) (p_prerelease pw)
              | c => c
              end
          | c => c
          end
      | c => c
      end
  end.

Definition semver_lt_x (v w : bytes) : bool := match semver_compare v w with Lt => true | _ => false end.

(* ------------------------------------------------------------------ module.Check *)

Definition check_path_major (v pm : bytes) : bool :=
  let pm := if has_prefix s_dotv pm && has_suffix s_unstable pm
            then firstn (List.length pm - List.length s_unstable) pm else pm in
  if has_prefix s_v000 v && bytes_eqb pm s_dotv1 then true else
  let m := semver_major v in
  match pm with
  | [] => bytes_eqb m s_v0 || bytes_eqb m s_v1 || bytes_eqb (semver_build v) s_incompatible
  | c :: rest => (beq c c_slash || beq c c_dot) && bytes_eqb m rest
  end.

Definition module_check_x (path v : bytes) : bool :=
  check_path_x path && semver_is_valid v && check_path_major v (snd (fst (split_path_version path))).

(* ------------------------------------------------------------------ the oracle record, computed *)

(* everything except the Short field of a .info file (encoding/json stays a table) *)
Definition xmod_oracles (short : bytes -> bytes) : oracles := {|
  check_path := check_path_x;
  check_elem := check_elem_x;
  module_check := module_check_x;
  semver_valid := semver_is_valid;
  pseudo_re := re_match pseudo_version_re;
  semver_lt := semver_lt_x;
  info_short := short
|}.

(* C20 — non-vacuity examples for Proxy/ProxyExact.v, and the byte-identity of .info/.mod
   responses stated for ALL byte strings on a concrete directory. *)
From Coq Require Import List Bool Arith NArith Lia String Permutation.
From Coq.Strings Require Import Byte.
From GI Require Import Gen.ProxyConsts Proxy.Proxy Proxy.ProxyStrings Proxy.ProxyFacts Proxy.ProxyConc
  Proxy.ProxyTheorems Proxy.ProxyExamples Proxy.ProxyExact.
Import ListNotations.
Local Open Scope string_scope.

(* a module version stored with arbitrary .info [i] and .mod [m], two more dot-files and one
   ordinary file whose content [x] is arbitrary too *)
Definition arch3 (i m x : bytes) : archive :=
  [(b ".info", i); (b ".netrc", b "machine example.com login me password hunter2"); (b ".mod", m);
   (b "x.go", x); (b ".gitignore", b "*.secret")].

Definition d3 (i m x : bytes) : dir := [(b "example.com_!foo_v1.0.0.txt", EFile (arch3 i m x))].
Definition ml3 : list (bytes * bytes) := [(b "example.com/Foo", b "v1.0.0")].

Example read_mod_list_d3 : forall i m x, read_mod_list O0 (d3 i m x) = Some ml3.
Proof. intros. vm_compute. reflexivity. Qed.

Lemma hyps_d3 : forall i m x,
  path_ok O0 (b "example.com/Foo") /\ vers_ok O0 (b "v1.0.0") /\ allhex (b "v1.0.0") = false /\
  escape_string (b "example.com/Foo") = Some (b "example.com/!foo") /\
  escape_string (b "v1.0.0") = Some (b "v1.0.0") /\
  stored O0 (d3 i m x) (b "example.com/Foo") (b "v1.0.0") = Some (arch3 i m x).
Proof.
  intros. repeat split; try (vm_compute; reflexivity).
  vm_compute. intuition discriminate.
Qed.

(* .info and .mod responses are byte-identical to the stored files, for EVERY byte string: no
   hypothesis on i, m, x at all (not printable, not UTF-8, no final newline, "%" or NUL inside),
   and the zip carries x unchanged; the dot-files stay hidden *)
Definition u3_info : bytes := b "/mod/example.com/!foo/@v/v1.0.0.info".
Definition u3_mod : bytes := b "/mod/example.com/!foo/@v/v1.0.0.mod".
Definition u3_zip : bytes := b "/mod/example.com/!foo/@v/v1.0.0.zip".
Definition u3_netrc : bytes := b "/mod/example.com/!foo/@v/v1.0.0.netrc".
Definition u3_gitignore : bytes := b "/mod/example.com/!foo/@v/v1.0.0.gitignore".
Definition zip3_name : bytes := b "example.com/Foo@v1.0.0/x.go".

Theorem serves_arbitrary_bytes : forall i m x : bytes,
  respond O0 (d3 i m x) ml3 u3_info = OkBytes i /\
  respond O0 (d3 i m x) ml3 u3_mod = OkBytes m /\
  respond O0 (d3 i m x) ml3 u3_zip = OkZip [(zip3_name, x)] /\
  respond O0 (d3 i m x) ml3 u3_netrc = NotFound /\
  respond O0 (d3 i m x) ml3 u3_gitignore = NotFound.
Proof.
  intros i m x.
  destruct (hyps_d3 i m x) as [Hp [Hv [Hh [Hep [Hev Hst]]]]].
  destruct (serves_stored O0 (d3 i m x) ml3 _ _ _ _ _ Hp Hv Hh Hep Hev Hst) as [H1 [H2 [_ H4]]].
  split; [exact H1|]. split; [exact H2|]. split.
  - apply H4. intros f Hf. vm_compute in Hf. destruct Hf as [Hf|[]]. subst f.
    unfold zip_entry_bad. cbn [fst snd]. vm_compute. reflexivity.
  - split.
    + apply (dotfile_not_served O0 (d3 i m x) ml3 _ _ _ _ _ (b "netrc") (b "machine example.com login me password hunter2") Hp Hv Hep Hev Hst);
        try (vm_compute; reflexivity); try (vm_compute; intuition discriminate); discriminate.
    + apply (dotfile_not_served O0 (d3 i m x) ml3 _ _ _ _ _ (b "gitignore") (b "*.secret") Hp Hv Hep Hev Hst);
        try (vm_compute; reflexivity); try (vm_compute; intuition discriminate); discriminate.
Qed.

(* an instance with the bytes formatting, quoting and line handling would mangle *)
Example serves_percent_bytes :
  let i := (b "{""URL"":""https://example.com/a%20b/%s""}" ++ [x00; xff; xfe; x0d; x0a; x5c; x25])%list in
  respond O0 (d3 i (b "100% done") []) ml3 (b "/mod/example.com/!foo/@v/v1.0.0.info") = OkBytes i /\
  respond O0 (d3 i (b "100% done") []) ml3 (b "/mod/example.com/!foo/@v/v1.0.0.mod") = OkBytes (b "100% done").
Proof. vm_compute. split; reflexivity. Qed.

(* route_404_exact, both directions on concrete URLs *)
Example served_by_examples :
  served_by O0 d0 ml0 (b "/mod/example.com/!foo/@v/list") /\
  served_by O0 d0 ml0 (b "/mod/example.com/!foo/@v/v1.0.0.info") /\
  served_by O0 d0 ml0 (b "/mod/example.com/!foo/@v/abc.zip") /\
  ~ served_by O0 d0 ml0 (b "/mod/example.com/!foo/@v/v1.0.0.hidden") /\
  ~ served_by O0 d0 ml0 (b "/mod/example.com/!foo/@v/v0.0.0-2018-abcdef.info") /\
  ~ served_by O0 d0 ml0 (b "/mod/example.com/!foo/@v/list/") /\
  ~ served_by O0 d0 ml0 (b "/mod/example.com/!foo/@v/v1.0.0.INFO") /\
  ~ served_by O0 d0 ml0 (b "/mod/example.com/!foo/@latest").
Proof.
  repeat split; try (apply served_by_b; vm_compute; reflexivity);
    (intro H; apply served_by_b in H; vm_compute in H; discriminate).
Qed.

(* the list as a set: a module list in another order (as a sorting server would hold it) *)
Definition ml0_sorted : list (bytes * bytes) :=
  [(b "example.com/Foo", b "v1.1.0"); (b "example.com/Foo", b "v0.0.0-2018-abcdef"); (b "example.com/Foo", b "v1.0.0")].

Example listed_perm_example :
  Permutation ml0 ml0_sorted /\ NoDup ml0 /\
  listed O0 ml0 (b "example.com/Foo") = [b "v1.0.0"; b "v1.1.0"] /\
  listed O0 ml0_sorted (b "example.com/Foo") = [b "v1.1.0"; b "v1.0.0"].
Proof.
  split; [|split; [|split; vm_compute; reflexivity]].
  - unfold ml0, ml0_sorted.
    eapply Permutation_trans; [apply perm_swap|]. eapply Permutation_trans; [apply perm_skip; apply perm_swap|].
    eapply Permutation_trans; [apply perm_swap|]. apply perm_skip. apply perm_swap.
  - repeat constructor; cbn; intuition discriminate.
Qed.

(* history independence: a server started on d0, any of these histories, then a probe *)
Example history_example :
  exists s, server_start O0 d0 = Some s /\ sv_modlist s = ml0 /\
  compatible O0 d0 (sv_modlist s) (urls0 ++ [b "/mod/example.com/!foo/@v/list"]) /\
  fst (serve_all O0 d0 s (urls0 ++ [b "/mod/example.com/!foo/@v/list"])) =
    map (respond O0 d0 ml0) (urls0 ++ [b "/mod/example.com/!foo/@v/list"]).
Proof.
  eexists. split; [vm_compute; reflexivity|]. split; [reflexivity|]. split.
  - apply no_alias_compatible. intros u Hu. destruct Hu as [H|[H|[H|[H|[]]]]]; subst u;
      vm_compute; split; intuition discriminate.
  - vm_compute. reflexivity.
Qed.

(* C20 — the refinement of ProxyRefine.v instantiated: concrete cache keys (an injective coding of
   archive names into the natural-number keys of the Par model, even for archiveCache, odd for
   zipCache), the zip value function obtained from [compatible], and the server's handlers. *)
From Coq Require Import List Bool Arith NArith Lia.
From Coq.Strings Require Import Byte.
From GI Require Import Gen.ProxyConsts Proxy.Proxy Proxy.ProxyStrings Proxy.ProxyFacts Proxy.ProxyConc Proxy.ProxyRefine.
From GI Require Import Gen.ParConsts Par.ParWork Par.ParLib Par.ParCache Par.ParCacheBase Par.ParCacheProofs.
Import ListNotations.

(* bijective base-256 numeration: digits 1..256 *)
Fixpoint code (l : bytes) : nat :=
  match l with
  | [] => 0
  | b :: r => S (Byte.to_nat b) + 256 * code r
  end.

Fixpoint decode_f (fuel n : nat) : bytes :=
  match fuel with
  | 0 => []
  | S f =>
      if Nat.eqb n 0 then [] else
      (match Byte.of_nat ((n - 1) mod 256) with Some b => b | None => x00 end) :: decode_f f ((n - 1) / 256)
  end.

Definition decode (n : nat) : bytes := decode_f n n.

Lemma decode_code_f : forall l f, code l <= f -> decode_f f (code l) = l.
Proof.
  induction l as [|b r IH]; intros f Hf.
  - destruct f; reflexivity.
  - cbn [code] in *. destruct f as [|f]; [lia|]. cbn [decode_f].
    pose proof (Byte.to_nat_bounded b) as Hb.
    replace (Nat.eqb (S (Byte.to_nat b) + 256 * code r) 0) with false by (symmetry; apply Nat.eqb_neq; lia).
    replace (S (Byte.to_nat b) + 256 * code r - 1) with (Byte.to_nat b + code r * 256) by lia.
    rewrite Nat.mod_add by lia. rewrite Nat.mod_small by lia.
    rewrite Nat.div_add by lia. rewrite Nat.div_small by lia. cbn [Nat.add].
    rewrite Byte.of_to_nat. f_equal. apply IH. lia.
Qed.

Lemma decode_code : forall l, decode (code l) = l.
Proof. intro l. apply decode_code_f. apply le_n. Qed.

Definition key_arch (n : bytes) : nat := 2 * code n.
Definition key_zip (n : bytes) : nat := 2 * code n + 1.
Definition key_name (k : nat) : bytes := decode (k / 2).

Lemma key_name_arch : forall n, key_name (key_arch n) = n.
Proof.
  intro n. unfold key_name, key_arch. replace (2 * code n) with (code n * 2) by lia.
  rewrite Nat.div_mul by lia. apply decode_code.
Qed.

Lemma key_name_zip : forall n, key_name (key_zip n) = n.
Proof.
  intro n. unfold key_name, key_zip. replace (2 * code n + 1) with (1 + code n * 2) by lia.
  rewrite Nat.div_add by lia. cbn [Nat.div]. replace (1 / 2) with 0 by reflexivity. apply decode_code.
Qed.

(* the two caches use disjoint keys, and distinct archive names distinct keys *)
Lemma keys_disjoint : forall n m, key_arch n <> key_zip m.
Proof. intros n m. unfold key_arch, key_zip. lia. Qed.

Lemma key_arch_injective : forall n m, key_arch n = key_arch m -> n = m.
Proof. intros n m H. rewrite <- (key_name_arch n), <- (key_name_arch m), H. reflexivity. Qed.

Lemma key_zip_injective : forall n m, key_zip n = key_zip m -> n = m.
Proof. intros n m H. rewrite <- (key_name_zip n), <- (key_name_zip m), H. reflexivity. Qed.

(* the zip value of an archive name in a compatible set of operations *)
Fixpoint zip_of (Z : list (bytes * zipres)) (n : bytes) : zipres :=
  match Z with
  | [] => ZErr
  | (m, v) :: r => if bytes_eqb m n then v else zip_of r n
  end.

Lemma zip_of_agrees : forall Z, functional Z -> forall n v, In (n, v) Z -> zip_of Z n = v.
Proof.
  induction Z as [|[m w] r IH]; intros Hf n v Hin; [contradiction|].
  cbn [zip_of]. destruct (bytes_eqb m n) eqn:E.
  - apply bytes_eqb_true in E. subst m. apply (Hf n w v); [left; reflexivity|exact Hin].
  - destruct Hin as [H|H]; [inversion H; subst; rewrite bytes_eqb_refl in E; discriminate|].
    apply IH; [|exact H]. intros n' v1 v2 H1 H2. apply (Hf n' v1 v2); right; assumption.
Qed.

(* event_level_cache_reachable with its hypotheses in statement order *)
Lemma event_level_cache_reachable' : forall A d ka kz name_of Zf (ps : list (prog A)) sch st,
  arun A d ka kz name_of Zf sch (ainit A ps) = Some st ->
  (forall n, name_of (ka n) = n) -> (forall n, name_of (kz n) = n) ->
  (forall n v, In (n, v) (flat_map (zip_ops d) ps) -> Zf n = v) ->
  exists sc, creachable fval_id deps0 crash0 (map (calls A d ka kz) ps) sc /\
             ents (acs A st) = ents sc /\ plain (acs A st) = plain sc.
Proof.
  intros A d ka kz name_of Zf ps sch st Hrun H1 H2 H3.
  exact (event_level_cache_reachable A d ka kz name_of H1 H2 Zf ps H3 sch st Hrun).
Qed.

Section Server.
Variable O : oracles.

(* the event-level run of the server's handlers on the modelled par.Cache *)
Definition server_arun (d : dir) (ml : list (bytes * bytes)) (urls : list bytes) (sch : list nat) :=
  arun response d key_arch key_zip key_name
       (zip_of (flat_map (zip_ops d) (map (handler O d ml) urls)))
       sch (ainit response (map (handler O d ml) urls)).

Theorem server_event_level_same : forall d ml urls sch st,
  compatible O d ml urls ->
  server_arun d ml urls sch = Some st ->
  forall i url, nth_error urls i = Some url ->
  exists h, nth_error (hs response st) i = Some (Some h) /\
            run_own d h = respond O d ml url /\
            (forall r, h = Ret r -> r = respond O d ml url).
Proof.
  intros d ml urls sch st Hc Hrun i url Hu. unfold server_arun in Hrun.
  assert (functional (flat_map (zip_ops d) (map (handler O d ml) urls))) as Hf.
  { rewrite flat_map_handlers. exact Hc. }
  destruct (event_level_same response d key_arch key_zip key_name key_name_arch key_name_zip _
              (map (handler O d ml) urls) (zip_of_agrees _ Hf) sch st Hrun i (handler O d ml url))
    as (h & Hh & Hr & Hret).
  { rewrite nth_error_map, Hu. reflexivity. }
  exists h. split; [exact Hh|]. rewrite respond_eq, <- run_own_handler. split; [exact Hr|exact Hret].
Qed.

Theorem server_event_level_progress : forall d ml urls sch st,
  compatible O d ml urls ->
  server_arun d ml urls sch = Some st ->
  Forall (returned response) (hs response st) \/
  exists t st', astep response d key_arch key_zip key_name
                  (zip_of (flat_map (zip_ops d) (map (handler O d ml) urls))) st t = Some st'.
Proof.
  intros d ml urls sch st Hc Hrun. unfold server_arun in Hrun.
  assert (functional (flat_map (zip_ops d) (map (handler O d ml) urls))) as Hf.
  { rewrite flat_map_handlers. exact Hc. }
  exact (event_level_progress response d key_arch key_zip key_name key_name_arch key_name_zip _
           (map (handler O d ml) urls) (zip_of_agrees _ Hf) sch st Hrun).
Qed.

End Server.

(* The hand-written glue between the segments of goproxytest/proxy.go that harness/go2coq
   translates (Gen/ProxySrc.v): what stands, in the composition the theorems of
   Proxy/SrcSegFacts.v talk about, for the statements that are NOT translated.  Definitions only.

     readModList   os.ReadDir and the range loop around the translated loop body (the loop in the
                   convention of GoSem.bindL; the final return nil)
     handler       a := srv.readArchive(path, vers) between the translated segments route and
                   serve: the archive the model stores under (path, vers) (Proxy.stored: the
                   lookups of the three candidate names in the directory); the value of
                   srv.zipCache.Do(a, f) on a fresh cache: what f computes, f being the range loop
                   over a.Files around the translated member filter and member name, with
                   z.Create failing on the names archive/zip refuses (Proxy.zip_entry_bad),
                   zf.Write, z.Close, and the bytes of the zip an uninterpreted function [enc] of
                   the entry list
     findHash      readArchive before the translated .info selection, json.Unmarshal after it (the
                   oracle [short])
   The ResponseWriter starts empty (net/http hands every request a fresh one). *)
From Coq Require Import List Bool ZArith.
From Coq.Strings Require Import Byte.
From GI Require Import Lib.Bytes Lib.GoSem Lib.GoSemData Gen.ProxyConsts Proxy.Proxy Proxy.XMod.
From GI Require Import Lib.GoSemHandler Proxy.SrcLib Gen.ProxySrc.
Import ListNotations.

(* the loop of readModList around the translated body (hand-written glue: os.ReadDir, the range
   loop in the convention of GoSem.bindL, the final return nil) *)
Fixpoint src_readModList_loop (srv : go_server) (entries : list go_direntry) : res (go_server * bool) :=
  match entries with
  | [] => Ok (srv, false)
  | e :: r =>
      match src_Server_readModList_entry srv e with
      | Ok (Normal s) | Ok (Continue s) => src_readModList_loop s r
      | Ok (Break s) => Ok (s, false)
      | Ok (Return x) => Ok x
      | Panic => Panic
      | OutOfFuel => OutOfFuel
      end
  end.

(* the list endpoint writes one line per listed version *)
Definition write_lines (w : go_response) (vs : list bytes) : go_response :=
  fold_left (fun w v => go_http_Write w (v ++ [x0a])) vs w.

(* a stored archive as the txtar.Archive value readArchive returns (the comment is not read) *)
Definition as_archive (a : option archive) : option go_archive := option_map (mkArchive []) a.

(* the zip: the loop of the closure handed to zipCache.Do around the translated member filter
   and member name (hand-written glue: the loop, z.Create failing exactly on the names and data
   archive/zip refuses, zf.Write, z.Close) *)
Fixpoint src_zip_entries (path vers : bytes) (files : archive) : res (option (list (bytes * bytes))) :=
  match files with
  | [] => Ok (Some [])
  | f :: r =>
      match src_Server_handler_zipskip f with
      | Ok (Continue _) => src_zip_entries path vers r
      | Ok (Normal _) =>
          bind (src_Server_handler_zipname path vers f) (fun zn =>
          if zip_entry_bad zn (snd f) then Ok None
          else bind (src_zip_entries path vers r) (fun o => Ok (option_map (cons (zn, snd f)) o)))
      | Ok _ => Panic
      | Panic => Panic
      | OutOfFuel => OutOfFuel
      end
  end.

Section Compose.
Variable short : bytes -> bytes.                       (* json.Unmarshal's Short field: an oracle *)
Variable enc : list (bytes * bytes) -> bytes.          (* archive/zip's bytes for an entry list: not modelled *)
Let O := xmod_oracles short.

(* findHash: readArchive (glue: the archive the model stores under the version), the translated
   selection of .info, json.Unmarshal (the oracle) *)
Definition src_findHash (d : dir) (m : bytes * bytes) : res bytes :=
  match src_Server_findHash_info (as_archive (stored O d (fst m) (snd m))) with
  | Ok (Return s) => Ok s
  | Ok (Normal data) => Ok (short data)
  | Ok _ => Panic
  | Panic => Panic
  | OutOfFuel => OutOfFuel
  end.

(* the server value the handler runs on: directory name, module list, findHash *)
Definition the_server (dirname : bytes) (d : dir) (ml : list (bytes * bytes)) : go_server :=
  mkServer dirname ml (fun m => match src_findHash d m with Ok s => s | _ => [] end).

(* the value of srv.zipCache.Do(a, f) for a fresh cache: what f computes *)
Definition zip_cached (z : zipres) : bytes * bool :=
  match z with ZOk es => (enc es, false) | ZErr => ([], true) end.

Definition src_zip (path vers : bytes) (a : option archive) : res (bytes * bool) :=
  match a with
  | Some files =>
      bind (src_zip_entries path vers files) (fun o =>
      Ok (zip_cached (match o with Some es => ZOk es | None => ZErr end)))
  | None => Ok ([], false)
  end.

(* handler: route; a := srv.readArchive(path, vers) (glue: the model's stored archive); the value
   of zipCache.Do (glue around the translated filter and name); serve *)
Definition src_handle (dirname : bytes) (d : dir) (ml : list (bytes * bytes)) (url : bytes) : res go_response :=
  let srv := the_server dirname d ml in
  bind (src_Server_handler_route srv go_response_empty url) (fun o =>
  match o with
  | Return w => Ok w
  | Normal (w, path, ext, vers) =>
      let a := stored O d path vers in
      bind (src_zip path vers a) (fun c =>
      bind (src_Server_handler_serve srv w url path ext vers (as_archive a) c) (fun o2 =>
      match o2 with
      | Return w' => Ok w'
      | Normal w' => Ok w'
      | _ => Panic
      end))
  | _ => Panic
  end).

(* the model's response as what the ResponseWriter holds afterwards *)
Definition resp_of (r : response) : go_response :=
  match r with
  | NotFound => go_http_NotFound go_response_empty []
  | OkBytes b => go_http_Write go_response_empty b
  | OkZip es => go_http_Write go_response_empty (enc es)
  | Err500 => go_http_Error go_response_empty [] 500
  end.

End Compose.

(* C20 — facts about routing, the responses and the module list of Proxy.v *)
From Coq Require Import List Bool Arith NArith Lia.
From Coq.Strings Require Import Byte.
From GI Require Import Gen.ProxyConsts Proxy.Proxy Proxy.ProxyStrings.
Import ListNotations.

(* the byte that marks the "/@v/" separator: its second byte *)
Definition at_mark : byte := nth 1 at_v x00.

Lemma at_v_shape : exists c0 rest, at_v = c0 :: at_mark :: rest /\ c0 <> at_mark.
Proof. eexists. eexists. split; [reflexivity|]. vm_compute. discriminate. Qed.

Lemma at_mark_not_bang : at_mark <> bang.
Proof. vm_compute. discriminate. Qed.

Lemma at_mark_not_lower : forall c, lower_of c <> Some at_mark.
Proof. apply not_lower_of. vm_compute. left. reflexivity. Qed.

Lemma list_name_no_ext_sep : ~ In ext_sep list_name.
Proof. apply mem_byte_false_iff. vm_compute. reflexivity. Qed.

Section Facts.
Variable O : oracles.

(* ------------------------------------------------------------------ side conditions
   what module.CheckPath / checkElem guarantee of the strings they accept and the theorems use:
   ASCII without '!' (so that escapeString succeeds) and, for paths, no '@'. *)
Definition path_ok (p : bytes) : Prop :=
  check_path O p = true /\ escapable p = true /\ ~ In at_mark p.

Definition vers_ok (v : bytes) : Prop :=
  check_elem O v = true /\ escapable v = true.

Lemma escapable_no_bang : forall s, escapable s = true -> mem_byte bang s = false.
Proof.
  intros s H. apply mem_byte_false_iff. intro Hin. unfold escapable in H.
  rewrite forallb_forall in H. specialize (H _ Hin). rewrite beq_refl in H.
  rewrite andb_false_r in H. discriminate.
Qed.

Lemma escape_string_total : forall s, escapable s = true -> exists e, escape_string s = Some e.
Proof. intros s H. unfold escape_string. rewrite H. eexists. reflexivity. Qed.

Lemma escape_path_ok : forall p e, path_ok p -> escape_string p = Some e -> escape_path O p = Some e.
Proof. intros p e [Hc _] He. unfold escape_path. rewrite Hc. exact He. Qed.

Lemma escape_version_ok : forall v e, vers_ok v -> escape_string v = Some e -> escape_version O v = Some e.
Proof.
  intros v e [Hc Hesc] He. unfold escape_version. rewrite Hc, (escapable_no_bang _ Hesc). exact He.
Qed.

Lemma unescape_path_ok : forall p e, path_ok p -> escape_string p = Some e -> unescape_path O e = Some p.
Proof. intros p e [Hc _] He. unfold unescape_path. rewrite (unescape_escape _ _ He), Hc. reflexivity. Qed.

Lemma unescape_version_ok : forall v e, vers_ok v -> escape_string v = Some e -> unescape_version O e = Some v.
Proof. intros v e [Hc _] He. unfold unescape_version. rewrite (unescape_escape _ _ He), Hc. reflexivity. Qed.

(* ------------------------------------------------------------------ route *)

(* route_total: route never fails, and what it returns is a decomposition of the URL *)
Definition route_spec (url : bytes) (r : route_result) : Prop :=
  match r with
  | RNotFound => True
  | RList path =>
      exists enc, url = list_url enc /\ unescape_path O enc = Some path /\ check_path O path = true
  | RFile path vers ext =>
      exists enc encv, url = file_url enc encv ext /\
        unescape_path O enc = Some path /\ check_path O path = true /\
        unescape_version O encv = Some vers /\ check_elem O vers = true /\
        ~ In ext_sep ext /\ index at_v (enc ++ at_v ++ encv ++ [ext_sep] ++ ext) = Some (length enc)
  end.

Lemma unescape_path_checked : forall e p, unescape_path O e = Some p -> check_path O p = true.
Proof.
  intros e p H. unfold unescape_path in H. destruct (unescape_string e); [|discriminate].
  destruct (check_path O b) eqn:E; [|discriminate]. inversion H; subst. exact E.
Qed.

Lemma unescape_version_checked : forall e v, unescape_version O e = Some v -> check_elem O v = true.
Proof.
  intros e v H. unfold unescape_version in H. destruct (unescape_string e); [|discriminate].
  destruct (check_elem O b) eqn:E; [|discriminate]. inversion H; subst. exact E.
Qed.

Lemma firstn_skipn_at : forall (sep d : bytes) i,
  i <= length d -> has_prefix sep (skipn i d) = true ->
  d = firstn i d ++ sep ++ skipn (i + length sep) d.
Proof.
  intros sep d i Hle Hp. apply has_prefix_true in Hp.
  rewrite <- (firstn_skipn i d) at 1. f_equal. rewrite Hp at 1. f_equal.
  rewrite skipn_skipn'. reflexivity.
Qed.

Lemma skipn_last_no : forall (c : byte) d j,
  last_index [c] d = Some j -> ~ In c (skipn (S j) d).
Proof.
  intros c d. induction d as [|x d IH]; intros j H.
  - cbn in H. discriminate.
  - cbn [last_index] in H. destruct (last_index [c] d) as [k|] eqn:Ek.
    + inversion H; subst. cbn [skipn]. apply IH. reflexivity.
    + destruct (has_prefix [c] (x :: d)) eqn:E; [|discriminate]. inversion H; subst. cbn [skipn].
      intro Hin. apply In_nth with (d := x00) in Hin. destruct Hin as [n [Hn Hnth]].
      pose proof (last_index_none [c] d n Ek) as Hno.
      rewrite <- (firstn_skipn n d) in Hnth. rewrite app_nth2 in Hnth by (rewrite firstn_length; lia).
      rewrite firstn_length, Nat.min_l, Nat.sub_diag in Hnth by lia.
      destruct (skipn n d) as [|y r] eqn:Es.
      * assert (length (skipn n d) = 0) as Hz by (rewrite Es; reflexivity). rewrite skipn_length in Hz. lia.
      * cbn in Hnth. subst y. cbn in Hno. rewrite beq_refl in Hno. discriminate.
Qed.

Theorem route_total : forall url, route_spec url (route O url).
Proof.
  intro url. unfold route.
  destruct (has_prefix mod_prefix url) eqn:Hp; cbn [negb]; [|exact I].
  apply has_prefix_true in Hp. set (p := skipn (length mod_prefix) url) in *.
  destruct (index at_v p) as [i|] eqn:Hi; [|exact I].
  destruct (index_some _ _ _ Hi) as [Hle [Hat Hno]].
  destruct (unescape_path O (firstn i p)) as [path|] eqn:Hup; [|exact I].
  pose proof (firstn_skipn_at _ _ _ Hle Hat) as Hsplit.
  destruct (bytes_eqb (skipn (i + length at_v) p) list_name) eqn:Hl.
  - apply bytes_eqb_true in Hl. unfold route_spec. exists (firstn i p). split; [|split].
    + unfold list_url. rewrite <- Hl, <- Hsplit. exact Hp.
    + exact Hup.
    + eapply unescape_path_checked. exact Hup.
  - set (file := skipn (i + length at_v) p) in *.
    destruct (last_index [ext_sep] file) as [j|] eqn:Hj; [|exact I].
    destruct (unescape_version O (firstn j file)) as [vers|] eqn:Huv; [|exact I].
    destruct (last_index_some _ _ _ Hj) as [Hjle Hjat].
    pose proof (firstn_skipn_at [ext_sep] file j Hjle Hjat) as Hfsplit.
    cbn [length] in Hfsplit. rewrite Nat.add_1_r in Hfsplit.
    unfold route_spec. exists (firstn i p), (firstn j file).
    assert (p = firstn i p ++ at_v ++ firstn j file ++ [ext_sep] ++ skipn (S j) file) as Hp2.
    { rewrite <- Hfsplit. exact Hsplit. }
    split; [|split; [|split; [|split; [|split; [|split]]]]].
    + unfold file_url. rewrite <- Hp2. exact Hp.
    + exact Hup.
    + eapply unescape_path_checked. exact Hup.
    + exact Huv.
    + eapply unescape_version_checked. exact Huv.
    + apply skipn_last_no. exact Hj.
    + rewrite <- Hp2. rewrite Hi. f_equal. rewrite firstn_length. lia.
Qed.

(* the URL built from the escaped forms routes to the module version *)
Lemma index_at_v : forall enc rest, ~ In at_mark enc -> index at_v (enc ++ at_v ++ rest) = Some (length enc).
Proof.
  intros enc rest Hn. destruct at_v_shape as [c0 [r [Heq Hne]]].
  apply index_found.
  - rewrite Heq. apply no_occ_marker; assumption.
  - rewrite skipn_app, skipn_all, Nat.sub_diag. cbn [app skipn]. apply has_prefix_app.
Qed.

Lemma skipn_app_exact : forall (a b : bytes), skipn (length a) (a ++ b) = b.
Proof. intros. rewrite skipn_app, skipn_all, Nat.sub_diag. reflexivity. Qed.

Lemma firstn_app_exact : forall (a b : bytes), firstn (length a) (a ++ b) = a.
Proof. intros. rewrite firstn_app, firstn_all, Nat.sub_diag. cbn. apply app_nil_r. Qed.

Lemma route_file_url : forall p v ep ev ext,
  path_ok p -> vers_ok v -> escape_string p = Some ep -> escape_string v = Some ev ->
  ~ In ext_sep ext ->
  route O (file_url ep ev ext) = RFile p v ext.
Proof.
  intros p v ep ev ext Hp Hv Hep Hev Hext. unfold route, file_url.
  rewrite has_prefix_app. cbn [negb]. rewrite skipn_app_exact.
  assert (~ In at_mark ep) as Hm.
  { eapply escape_not_in; [exact Hep| | |].
    - destruct Hp as [_ [_ H]]. exact H.
    - exact at_mark_not_bang.
    - exact at_mark_not_lower. }
  rewrite (index_at_v ep _ Hm). rewrite firstn_app_exact.
  rewrite (unescape_path_ok _ _ Hp Hep).
  replace (skipn (length ep + length at_v) (ep ++ at_v ++ ev ++ [ext_sep] ++ ext)) with (ev ++ [ext_sep] ++ ext).
  2:{ rewrite <- skipn_skipn'. rewrite skipn_app_exact. rewrite skipn_app_exact. reflexivity. }
  rewrite bytes_eqb_neq.
  2:{ intro Heq. apply list_name_no_ext_sep. rewrite <- Heq. apply in_or_app. right. left. reflexivity. }
  rewrite (last_index_byte_app ext_sep ev ext Hext).
  rewrite firstn_app_exact. rewrite (unescape_version_ok _ _ Hv Hev).
  replace (S (length ev)) with (length (ev ++ [ext_sep])) by (rewrite app_length; cbn; lia).
  rewrite app_assoc. rewrite skipn_app_exact. reflexivity.
Qed.

Lemma route_list_url : forall p ep,
  path_ok p -> escape_string p = Some ep -> route O (list_url ep) = RList p.
Proof.
  intros p ep Hp Hep. unfold route, list_url.
  rewrite has_prefix_app. cbn [negb]. rewrite skipn_app_exact.
  assert (~ In at_mark ep) as Hm.
  { eapply escape_not_in; [exact Hep| | |].
    - destruct Hp as [_ [_ H]]. exact H.
    - exact at_mark_not_bang.
    - exact at_mark_not_lower. }
  rewrite (index_at_v ep _ Hm). rewrite firstn_app_exact.
  rewrite (unescape_path_ok _ _ Hp Hep).
  replace (skipn (length ep + length at_v) (ep ++ at_v ++ list_name)) with list_name.
  2:{ rewrite <- skipn_skipn'. rewrite skipn_app_exact. rewrite skipn_app_exact. reflexivity. }
  rewrite bytes_eqb_refl. reflexivity.
Qed.

(* ------------------------------------------------------------------ the response as a function
   (what the handler computes when every cache hands back the value the caller computes) *)

Definition stored_n (d : dir) (path vers : bytes) : option (bytes * archive) :=
  match archive_name O path vers with
  | Some n => match lookup_archive d n with Some a => Some (n, a) | None => None end
  | None => None
  end.

Definition hash_of (d : dir) (path vers : bytes) : bytes :=
  match stored_n d path vers with
  | None => []
  | Some (_, a) => info_short O (match find_file info_entry a with Some data => data | None => [] end)
  end.

Fixpoint resolve_pure (d : dir) (ml : list (bytes * bytes)) (path vers best : bytes) : bytes :=
  match ml with
  | [] => best
  | (p, v) :: r =>
      if bytes_eqb p path && semver_lt O best v then
        let hash := if is_pseudo O v then after_last hash_sep v else hash_of d p v in
        if hash_matches hash vers
        then resolve_pure d r path vers v
        else resolve_pure d r path vers best
      else resolve_pure d r path vers best
  end.

Definition serve_pure (d : dir) (path vers ext : bytes) : response :=
  match stored_n d path vers with
  | None => NotFound
  | Some (n, a) =>
      if bytes_eqb ext ext_info || bytes_eqb ext ext_mod then
        match find_file (entry_dot ++ ext) a with
        | Some data => OkBytes data
        | None => NotFound
        end
      else if bytes_eqb ext ext_zip then zip_response (build_zip path vers a)
      else NotFound
  end.

(* the version the archive is looked up under *)
Definition pick_best (vers best : bytes) : bytes := match best with [] => vers | _ => best end.

Definition target_version (d : dir) (ml : list (bytes * bytes)) (path vers : bytes) : bytes :=
  if allhex vers then pick_best vers (resolve_pure d ml path vers []) else vers.

Definition respond_pure (d : dir) (ml : list (bytes * bytes)) (url : bytes) : response :=
  match route O url with
  | RNotFound => NotFound
  | RList path => list_response O ml path
  | RFile path vers ext => serve_pure d path (target_version d ml path vers) ext
  end.

Lemma run_own_read_archive : forall A d path vers (k : option (bytes * archive) -> prog A),
  run_own d (read_archive O path vers k) = run_own d (k (stored_n d path vers)).
Proof.
  intros A d path vers k. unfold read_archive, stored_n.
  destruct (archive_name O path vers) as [n|]; [|reflexivity].
  cbn [run_own]. destruct (lookup_archive d n); reflexivity.
Qed.

Lemma zip_ops_read_archive : forall A d path vers (k : option (bytes * archive) -> prog A),
  zip_ops d (read_archive O path vers k) = zip_ops d (k (stored_n d path vers)).
Proof.
  intros A d path vers k. unfold read_archive, stored_n.
  destruct (archive_name O path vers) as [n|]; [|reflexivity].
  cbn [zip_ops]. destruct (lookup_archive d n); reflexivity.
Qed.

Lemma run_own_find_hash : forall A d path vers (k : bytes -> prog A),
  run_own d (find_hash O path vers k) = run_own d (k (hash_of d path vers)).
Proof.
  intros A d path vers k. unfold find_hash, hash_of. rewrite run_own_read_archive.
  destruct (stored_n d path vers) as [[n a]|]; reflexivity.
Qed.

Lemma zip_ops_find_hash : forall A d path vers (k : bytes -> prog A),
  zip_ops d (find_hash O path vers k) = zip_ops d (k (hash_of d path vers)).
Proof.
  intros A d path vers k. unfold find_hash, hash_of. rewrite zip_ops_read_archive.
  destruct (stored_n d path vers) as [[n a]|]; reflexivity.
Qed.

Lemma run_own_resolve : forall A d ml path vers best (k : bytes -> prog A),
  run_own d (resolve O ml path vers best k) = run_own d (k (resolve_pure d ml path vers best)).
Proof.
  intros A d ml path vers. induction ml as [|[p v] r IH]; intros best k; [reflexivity|].
  cbn [resolve resolve_pure].
  destruct (bytes_eqb p path && semver_lt O best v); [|apply IH].
  destruct (is_pseudo O v).
  - destruct (hash_matches (after_last hash_sep v) vers); apply IH.
  - rewrite run_own_find_hash.
    destruct (hash_matches (hash_of d p v) vers); apply IH.
Qed.

Lemma zip_ops_resolve : forall A d ml path vers best (k : bytes -> prog A),
  zip_ops d (resolve O ml path vers best k) = zip_ops d (k (resolve_pure d ml path vers best)).
Proof.
  intros A d ml path vers. induction ml as [|[p v] r IH]; intros best k; [reflexivity|].
  cbn [resolve resolve_pure].
  destruct (bytes_eqb p path && semver_lt O best v); [|apply IH].
  destruct (is_pseudo O v).
  - destruct (hash_matches (after_last hash_sep v) vers); apply IH.
  - rewrite zip_ops_find_hash.
    destruct (hash_matches (hash_of d p v) vers); apply IH.
Qed.

Lemma run_own_serve_file : forall d path vers ext,
  run_own d (serve_file O path vers ext) = serve_pure d path vers ext.
Proof.
  intros d path vers ext. unfold serve_file, serve_pure. rewrite run_own_read_archive.
  destruct (stored_n d path vers) as [[n a]|]; [|reflexivity].
  destruct (bytes_eqb ext ext_info || bytes_eqb ext ext_mod).
  - destruct (find_file (entry_dot ++ ext) a); reflexivity.
  - destruct (bytes_eqb ext ext_zip); reflexivity.
Qed.

(* the one zip-cache operation a request performs *)
Definition zip_req_file (d : dir) (path vers ext : bytes) : list (bytes * zipres) :=
  match stored_n d path vers with
  | None => []
  | Some (n, a) =>
      if bytes_eqb ext ext_info || bytes_eqb ext ext_mod then []
      else if bytes_eqb ext ext_zip then [(n, build_zip path vers a)] else []
  end.

Lemma zip_ops_serve_file : forall d path vers ext,
  zip_ops d (serve_file O path vers ext) = zip_req_file d path vers ext.
Proof.
  intros d path vers ext. unfold serve_file, zip_req_file. rewrite zip_ops_read_archive.
  destruct (stored_n d path vers) as [[n a]|]; [|reflexivity].
  destruct (bytes_eqb ext ext_info || bytes_eqb ext ext_mod).
  - destruct (find_file (entry_dot ++ ext) a); reflexivity.
  - destruct (bytes_eqb ext ext_zip); reflexivity.
Qed.

Definition zip_req (d : dir) (ml : list (bytes * bytes)) (url : bytes) : list (bytes * zipres) :=
  match route O url with
  | RFile path vers ext => zip_req_file d path (target_version d ml path vers) ext
  | _ => []
  end.

Lemma run_own_handler : forall d ml url, run_own d (handler O d ml url) = respond_pure d ml url.
Proof.
  intros d ml url. unfold handler, respond_pure, target_version.
  destruct (route O url) as [|path|path vers ext]; try reflexivity.
  destruct (allhex vers).
  - rewrite run_own_resolve. apply run_own_serve_file.
  - apply run_own_serve_file.
Qed.

Lemma zip_ops_handler : forall d ml url, zip_ops d (handler O d ml url) = zip_req d ml url.
Proof.
  intros d ml url. unfold handler, zip_req, target_version.
  destruct (route O url) as [|path|path vers ext]; try reflexivity.
  destruct (allhex vers).
  - rewrite zip_ops_resolve. apply zip_ops_serve_file.
  - apply zip_ops_serve_file.
Qed.

Lemma zip_req_le1 : forall d ml url, length (zip_req d ml url) <= 1.
Proof.
  intros d ml url. unfold zip_req. destruct (route O url); cbn; try lia.
  unfold zip_req_file. destruct (stored_n d path _) as [[n a]|]; cbn; try lia.
  destruct (bytes_eqb ext ext_info || bytes_eqb ext ext_mod); cbn; try lia.
  destruct (bytes_eqb ext ext_zip); cbn; lia.
Qed.

(* ------------------------------------------------------------------ the zip of a stored archive *)

Definition visible (a : archive) : archive :=
  filter (fun f => negb (has_prefix hidden_prefix (fst f))) a.

Definition zip_name (path vers name : bytes) : bytes := path ++ zip_at ++ vers ++ zip_slash ++ name.

Definition zip_entries (path vers : bytes) (a : archive) : list (bytes * bytes) :=
  map (fun f => (zip_name path vers (fst f), snd f)) (visible a).

Lemma build_zip_entries_ok : forall path vers a,
  (forall f, In f (visible a) -> zip_entry_bad (zip_name path vers (fst f)) (snd f) = false) ->
  build_zip_entries path vers a = Some (zip_entries path vers a).
Proof.
  intros path vers a. unfold zip_entries, visible. induction a as [|[n data] a IH]; intro H; [reflexivity|].
  cbn [build_zip_entries filter fst snd].
  destruct (has_prefix hidden_prefix n) eqn:Eh; cbn [negb].
  - apply IH. intros f Hf. apply H. cbn [filter fst]. rewrite Eh. exact Hf.
  - assert (zip_entry_bad (zip_name path vers n) data = false) as Hb.
    { apply (H (n, data)). cbn [filter fst]. rewrite Eh. left. reflexivity. }
    unfold zip_name in Hb. rewrite Hb. rewrite IH.
    + reflexivity.
    + intros f Hf. apply H. cbn [filter fst]. rewrite Eh. right. exact Hf.
Qed.

Lemma build_zip_entries_bad : forall path vers a,
  build_zip_entries path vers a = None <->
  exists f, In f (visible a) /\ zip_entry_bad (zip_name path vers (fst f)) (snd f) = true.
Proof.
  intros path vers a. unfold visible. induction a as [|[n data] a IH]; cbn [build_zip_entries filter fst].
  - split; [discriminate|]. intros [f [[] _]].
  - destruct (has_prefix hidden_prefix n) eqn:Eh; cbn [negb]; [exact IH|].
    destruct (zip_entry_bad (path ++ zip_at ++ vers ++ zip_slash ++ n) data) eqn:Eb.
    + split; [|reflexivity]. intros _. exists (n, data). split; [left; reflexivity|exact Eb].
    + split.
      * intro H. destruct (build_zip_entries path vers a) eqn:E; [discriminate|].
        destruct (proj1 IH eq_refl) as [f [Hf Hb]]. exists f. split; [right; exact Hf|exact Hb].
      * intros [f [[Hf|Hf] Hb]].
        -- subst f. cbn [fst snd] in Hb. unfold zip_name in Hb. rewrite Eb in Hb. discriminate.
        -- rewrite (proj2 IH (ex_intro _ f (conj Hf Hb))). reflexivity.
Qed.

(* ------------------------------------------------------------------ serves_stored *)

Lemma ext_info_plain : ~ In ext_sep ext_info. Proof. apply mem_byte_false_iff. vm_compute. reflexivity. Qed.
Lemma ext_mod_plain : ~ In ext_sep ext_mod. Proof. apply mem_byte_false_iff. vm_compute. reflexivity. Qed.
Lemma ext_zip_plain : ~ In ext_sep ext_zip. Proof. apply mem_byte_false_iff. vm_compute. reflexivity. Qed.
Lemma ext_distinct : bytes_eqb ext_mod ext_info = false /\ bytes_eqb ext_zip ext_info = false /\ bytes_eqb ext_zip ext_mod = false.
Proof. vm_compute. repeat split. Qed.

Lemma stored_stored_n : forall d p v a, stored O d p v = Some a -> exists n, stored_n d p v = Some (n, a).
Proof.
  intros d p v a H. unfold stored in H. unfold stored_n.
  destruct (archive_name O p v) as [n|]; [|discriminate]. rewrite H. exists n. reflexivity.
Qed.

Lemma stored_n_stored : forall d p v n a, stored_n d p v = Some (n, a) -> stored O d p v = Some a.
Proof.
  intros d p v n a H. unfold stored. unfold stored_n in H.
  destruct (archive_name O p v) as [n'|]; [|discriminate].
  destruct (lookup_archive d n'); [|discriminate]. inversion H; subst. reflexivity.
Qed.

Lemma stored_n_none : forall d p v, stored O d p v = None -> stored_n d p v = None.
Proof.
  intros d p v H. unfold stored in H. unfold stored_n.
  destruct (archive_name O p v) as [n|]; [|reflexivity]. rewrite H. reflexivity.
Qed.

Theorem serves_stored_pure : forall d ml p v ep ev a,
  path_ok p -> vers_ok v -> allhex v = false ->
  escape_string p = Some ep -> escape_string v = Some ev ->
  stored O d p v = Some a ->
  respond_pure d ml (file_url ep ev ext_info) =
    (match find_file (entry_dot ++ ext_info) a with Some data => OkBytes data | None => NotFound end) /\
  respond_pure d ml (file_url ep ev ext_mod) =
    (match find_file (entry_dot ++ ext_mod) a with Some data => OkBytes data | None => NotFound end) /\
  respond_pure d ml (file_url ep ev ext_zip) = zip_response (build_zip p v a) /\
  ((forall f, In f (visible a) -> zip_entry_bad (zip_name p v (fst f)) (snd f) = false) ->
   respond_pure d ml (file_url ep ev ext_zip) = OkZip (zip_entries p v a)).
Proof.
  intros d ml p v ep ev a Hp Hv Hhex Hep Hev Hst.
  destruct (stored_stored_n _ _ _ _ Hst) as [n Hn].
  destruct ext_distinct as [E1 [E2 E3]].
  assert (forall ext, ~ In ext_sep ext ->
          respond_pure d ml (file_url ep ev ext) = serve_pure d p v ext) as Hr.
  { intros ext Hext. unfold respond_pure. rewrite (route_file_url p v ep ev ext Hp Hv Hep Hev Hext).
    unfold target_version. rewrite Hhex. reflexivity. }
  repeat split.
  - rewrite (Hr _ ext_info_plain). unfold serve_pure. rewrite Hn, bytes_eqb_refl. reflexivity.
  - rewrite (Hr _ ext_mod_plain). unfold serve_pure. rewrite Hn, E1, bytes_eqb_refl. reflexivity.
  - rewrite (Hr _ ext_zip_plain). unfold serve_pure. rewrite Hn, E2, E3, bytes_eqb_refl. reflexivity.
  - intro Hok. rewrite (Hr _ ext_zip_plain). unfold serve_pure. rewrite Hn, E2, E3, bytes_eqb_refl. cbn [orb].
    unfold build_zip. rewrite (build_zip_entries_ok _ _ _ Hok). reflexivity.
Qed.

(* ------------------------------------------------------------------ the list endpoint *)

Lemma listed_in : forall ml path v,
  In v (listed O ml path) <->
  In (path, v) ml /\ is_pseudo O v = false /\ module_check O path v = true.
Proof.
  intros ml path v. unfold listed. rewrite in_map_iff. split.
  - intros [[p v'] [Hv Hin]]. cbn in Hv. subst v'. apply filter_In in Hin. destruct Hin as [Hin Hf].
    cbn [fst snd] in Hf. apply andb_true_iff in Hf. destruct Hf as [Hf Hm].
    apply andb_true_iff in Hf. destruct Hf as [He Hps]. apply bytes_eqb_true in He. subst p.
    apply negb_true_iff in Hps. auto.
  - intros [Hin [Hps Hm]]. exists (path, v). split; [reflexivity|].
    apply filter_In. split; [exact Hin|]. cbn [fst snd]. rewrite bytes_eqb_refl, Hps, Hm. reflexivity.
Qed.

Theorem list_exact_pure : forall d ml p ep,
  path_ok p -> escape_string p = Some ep ->
  respond_pure d ml (list_url ep) =
    match listed O ml p with
    | [] => NotFound
    | vs => OkBytes (flat_map (fun v => v ++ [x0a]) vs)
    end.
Proof.
  intros d ml p ep Hp Hep. unfold respond_pure. rewrite (route_list_url p ep Hp Hep). reflexivity.
Qed.

(* ------------------------------------------------------------------ the module list and the directory *)

Lemma read_mod_list_names_in : forall names ml p v,
  read_mod_list_names O names = Some ml ->
  (In (p, v) ml <-> exists nm isd, In (nm, isd) names /\ mod_entry O nm isd = Some (Some (p, v))).
Proof.
  induction names as [|[nm isd] r IH]; intros ml p v H.
  - cbn in H. inversion H; subst. split; [intros []|intros [? [? [[] _]]]].
  - cbn [read_mod_list_names] in H. destruct (mod_entry O nm isd) as [o|] eqn:Em; [|discriminate].
    destruct (read_mod_list_names O r) as [l|] eqn:El; [|discriminate]. inversion H; subst. clear H.
    specialize (IH l p v eq_refl). split.
    + intro Hin. destruct o as [m|].
      * destruct Hin as [Hin|Hin].
        -- subst m. exists nm, isd. split; [left; reflexivity|exact Em].
        -- destruct (proj1 IH Hin) as [nm' [isd' [Hi He]]]. exists nm', isd'. split; [right; exact Hi|exact He].
      * destruct (proj1 IH Hin) as [nm' [isd' [Hi He]]]. exists nm', isd'. split; [right; exact Hi|exact He].
    + intros [nm' [isd' [[Hi|Hi] He]]].
      * inversion Hi; subst. rewrite Em in He. inversion He; subst. left. reflexivity.
      * assert (In (p, v) l) as Hl by (apply IH; exists nm', isd'; split; assumption).
        destruct o; [right|]; exact Hl.
Qed.

(* the disk name of a module version decodes to it: needs that neither the escaped path nor the
   escaped version contains the disk separator "_", and that the version starts with the second
   byte of "_v" *)
Definition vers_mark : byte := nth 1 vers_sep x00.

Lemma vers_sep_shape : vers_sep = [disk_sep; vers_mark] /\ vers_skip = 1 /\ disk_sep <> path_sep.
Proof. vm_compute. repeat split. discriminate. Qed.

Lemma suffixes_shape :
  (forall a, has_suffix suffix_txt (a ++ suffix_txtar) = false) /\
  (forall c, c <> x74 -> forall a, has_suffix suffix_txt (a ++ [c]) = false) /\
  (forall c, c <> x72 -> forall a, has_suffix suffix_txtar (a ++ [c]) = false).
Proof.
  split; [|split].
  - intro a. unfold suffix_txt, suffix_txtar.
    replace (a ++ [x2e; x74; x78; x74; x61; x72]) with ((a ++ [x2e; x74; x78; x74; x61]) ++ [x72])
      by (rewrite <- app_assoc; reflexivity).
    apply (last_byte_neq_no_suffix _ x74 [x2e; x74; x78] x72). discriminate.
  - intros c Hc a. unfold suffix_txt. apply (last_byte_neq_no_suffix a x74 [x2e; x74; x78] c).
    intro; subst; apply Hc; reflexivity.
  - intros c Hc a. unfold suffix_txtar. apply (last_byte_neq_no_suffix a x72 [x2e; x74; x78; x74; x61] c).
    intro; subst; apply Hc; reflexivity.
Qed.

Lemma disk_sep_not_lower : forall c, lower_of c <> Some disk_sep.
Proof. apply not_lower_of. vm_compute. left. reflexivity. Qed.
Lemma disk_sep_not_bang : disk_sep <> bang.
Proof. vm_compute. discriminate. Qed.

(* decoding of a stripped name *)
Lemma decode_name : forall p v ep ev,
  path_ok p -> vers_ok v -> ~ In disk_sep p -> ~ In disk_sep v ->
  escape_string p = Some ep -> escape_string v = Some ev ->
  (exists v', v = vers_mark :: v') -> lower_of vers_mark = None ->
  let nm := replace_byte path_sep disk_sep ep ++ [disk_sep] ++ ev in
  last_index vers_sep nm = Some (length ep) /\
  unescape_path O (replace_byte disk_sep path_sep (firstn (length ep) nm)) = Some p /\
  unescape_version O (skipn (length ep + vers_skip) nm) = Some v.
Proof.
  intros p v ep ev Hp Hv Hdp Hdv Hep Hev [v' Hv'] Hvm nm.
  destruct vers_sep_shape as [Hsep [Hskip Hne]].
  assert (~ In disk_sep ep) as Hdep.
  { eapply escape_not_in; [exact Hep|exact Hdp|exact disk_sep_not_bang|exact disk_sep_not_lower]. }
  assert (~ In disk_sep ev) as Hdev.
  { eapply escape_not_in; [exact Hev|exact Hdv|exact disk_sep_not_bang|exact disk_sep_not_lower]. }
  subst v. destruct (escape_head _ _ _ Hev Hvm) as [ev' [Hev' _]]. subst ev.
  split; [|split].
  - subst nm. rewrite Hsep.
    rewrite <- (replace_byte_length path_sep disk_sep ep).
    apply last_index_pair_app. exact Hdev.
  - subst nm. rewrite <- (replace_byte_length path_sep disk_sep ep) at 1.
    rewrite firstn_app_exact. rewrite replace_byte_inv by exact Hdep.
    apply unescape_path_ok; assumption.
  - subst nm. rewrite Hskip. rewrite <- (replace_byte_length path_sep disk_sep ep).
    replace (length (replace_byte path_sep disk_sep ep) + 1) with (length (replace_byte path_sep disk_sep ep ++ [disk_sep]))
      by (rewrite app_length; reflexivity).
    rewrite app_assoc. rewrite skipn_app_exact.
    apply unescape_version_ok; assumption.
Qed.

Lemma vers_mark_not_upper : lower_of vers_mark = None.
Proof. vm_compute. reflexivity. Qed.

(* every module version stored under its documented name is in the module list *)
Theorem modlist_complete : forall d ml p v ep ev e,
  read_mod_list O d = Some ml ->
  path_ok p -> vers_ok v -> ~ In disk_sep p -> ~ In disk_sep v ->
  (exists v', v = vers_mark :: v') ->
  escape_string p = Some ep -> escape_string v = Some ev ->
  let nm := replace_byte path_sep disk_sep ep ++ [disk_sep] ++ ev in
  (In (nm ++ suffix_txt, e) d \/ In (nm ++ suffix_txtar, e) d \/
   (In (nm, e) d /\ is_dir e = true /\ has_suffix suffix_txt nm = false /\ has_suffix suffix_txtar nm = false)) ->
  In (p, v) ml.
Proof.
  intros d ml p v ep ev e Hml Hp Hv Hdp Hdv Hv' Hep Hev nm Hin.
  destruct (decode_name p v ep ev Hp Hv Hdp Hdv Hep Hev Hv' vers_mark_not_upper) as [Hli [Hup Huv]].
  fold nm in Hli, Hup, Huv.
  destruct suffixes_shape as [Hs1 _].
  unfold read_mod_list in Hml.
  apply (proj2 (read_mod_list_names_in _ _ p v Hml)).
  assert (forall full isd, (full = nm ++ suffix_txt \/ full = nm ++ suffix_txtar \/
            (full = nm /\ isd = true /\ has_suffix suffix_txt nm = false /\ has_suffix suffix_txtar nm = false)) ->
          mod_entry O full isd = Some (Some (p, v))) as Hme.
  { intros full isd Hfull. unfold mod_entry. cbv zeta.
    destruct Hfull as [Hf|[Hf|[Hf [Hd [Hn1 Hn2]]]]]; subst full.
    - rewrite has_suffix_app, trim_suffix_app. rewrite Hli, Hup, Huv. reflexivity.
    - rewrite Hs1, has_suffix_app, trim_suffix_app. rewrite Hli, Hup, Huv. reflexivity.
    - rewrite Hn1, Hn2, Hd. rewrite Hli, Hup, Huv. reflexivity. }
  destruct Hin as [Hin|[Hin|[Hin [Hd [Hn1 Hn2]]]]].
  - exists (nm ++ suffix_txt), (is_dir e). split.
    + unfold dir_names. apply in_map_iff. exists (nm ++ suffix_txt, e). split; [reflexivity|exact Hin].
    + apply Hme. left. reflexivity.
  - exists (nm ++ suffix_txtar), (is_dir e). split.
    + unfold dir_names. apply in_map_iff. exists (nm ++ suffix_txtar, e). split; [reflexivity|exact Hin].
    + apply Hme. right. left. reflexivity.
  - exists nm, (is_dir e). split.
    + unfold dir_names. apply in_map_iff. exists (nm, e). split; [reflexivity|exact Hin].
    + apply Hme. right. right. repeat split; assumption.
Qed.

(* and nothing else is: every element of the module list comes from a directory entry *)
Theorem modlist_sound : forall d ml p v,
  read_mod_list O d = Some ml -> In (p, v) ml ->
  exists nm e, In (nm, e) d /\ mod_entry O nm (is_dir e) = Some (Some (p, v)).
Proof.
  intros d ml p v Hml Hin. unfold read_mod_list in Hml.
  destruct (proj1 (read_mod_list_names_in _ _ p v Hml) Hin) as [nm [isd [Hi He]]].
  unfold dir_names in Hi. apply in_map_iff in Hi. destruct Hi as [[nm' e] [Heq Hi]].
  cbn in Heq. inversion Heq; subst. exists nm, e. split; assumption.
Qed.

(* ------------------------------------------------------------------ not stored => 404 *)

Theorem not_stored_404_pure : forall d ml url,
  (* malformed URL *)
  (route O url = RNotFound -> respond_pure d ml url = NotFound) /\
  (* unknown extension *)
  (forall p v e, route O url = RFile p v e ->
     bytes_eqb e ext_info = false -> bytes_eqb e ext_mod = false -> bytes_eqb e ext_zip = false ->
     respond_pure d ml url = NotFound) /\
  (* unknown module: no version of the path has an archive (covers commit-hash requests) *)
  (forall p v e, route O url = RFile p v e -> (forall v', stored O d p v' = None) ->
     respond_pure d ml url = NotFound) /\
  (* unknown version *)
  (forall p v e, route O url = RFile p v e -> allhex v = false -> stored O d p v = None ->
     respond_pure d ml url = NotFound) /\
  (* list of a module with no valid non-pseudo version in the module list *)
  (forall p, route O url = RList p ->
     (forall v, In (p, v) ml -> is_pseudo O v = true \/ module_check O p v = false) ->
     respond_pure d ml url = NotFound).
Proof.
  intros d ml url. unfold respond_pure. repeat split.
  - intro H. rewrite H. reflexivity.
  - intros p v e H E1 E2 E3. rewrite H. unfold serve_pure.
    destruct (stored_n d p _) as [[n a]|]; [|reflexivity]. rewrite E1, E2, E3. reflexivity.
  - intros p v e H Hno. rewrite H. unfold serve_pure. rewrite (stored_n_none _ _ _ (Hno _)). reflexivity.
  - intros p v e H Hhex Hno. rewrite H. unfold target_version. rewrite Hhex.
    unfold serve_pure. rewrite (stored_n_none _ _ _ Hno). reflexivity.
  - intros p H Hno. rewrite H. unfold list_response.
    destruct (listed O ml p) as [|v vs] eqn:El; [reflexivity|].
    exfalso. assert (In v (listed O ml p)) as Hin by (rewrite El; left; reflexivity).
    apply listed_in in Hin. destruct Hin as [Hin [Hps Hm]].
    destruct (Hno v Hin) as [H1|H1]; congruence.
Qed.

(* the converse reading: whatever is served comes from an archive of the directory *)
Theorem served_is_stored_pure : forall d ml url,
  respond_pure d ml url <> NotFound ->
  (exists p v, route O url = RList p /\ In v (listed O ml p)) \/
  (exists p v e a, route O url = RFile p v e /\
     stored O d p (target_version d ml p v) = Some a /\
     ((e = ext_info \/ e = ext_mod) /\ find_file (entry_dot ++ e) a <> None \/ e = ext_zip)).
Proof.
  intros d ml url H. unfold respond_pure in H.
  destruct (route O url) as [|p|p v e] eqn:Hr; [congruence| |].
  - left. unfold list_response in H. destruct (listed O ml p) as [|v vs] eqn:El; [congruence|].
    exists p, v. split; [reflexivity|]. rewrite El. left. reflexivity.
  - right. unfold serve_pure in H.
    destruct (stored_n d p (target_version d ml p v)) as [[n a]|] eqn:Hs; [|congruence].
    exists p, v, e, a. split; [reflexivity|]. split; [eapply stored_n_stored; exact Hs|].
    destruct (bytes_eqb e ext_info) eqn:E1.
    + left. split; [left; apply bytes_eqb_true; exact E1|].
      cbn [orb] in H. destruct (find_file (entry_dot ++ e) a); congruence.
    + destruct (bytes_eqb e ext_mod) eqn:E2.
      * left. split; [right; apply bytes_eqb_true; exact E2|].
        cbn [orb] in H. destruct (find_file (entry_dot ++ e) a); congruence.
      * cbn [orb] in H. destruct (bytes_eqb e ext_zip) eqn:E3; [|congruence].
        right. apply bytes_eqb_true. exact E3.
Qed.

(* ------------------------------------------------------------------ commit-hash resolution *)

(* the hash a stored version answers to *)
Definition version_hash (d : dir) (p v : bytes) : bytes :=
  if is_pseudo O v then after_last hash_sep v else hash_of d p v.

(* what the loop returns is the initial value or a version of the module list, of that path,
   whose hash is not empty and is a prefix of the request or has the request as a prefix *)
Lemma resolve_pure_sound : forall d ml path vers best,
  resolve_pure d ml path vers best = best \/
  (In (path, resolve_pure d ml path vers best) ml /\
   hash_matches (version_hash d path (resolve_pure d ml path vers best)) vers = true).
Proof.
  intros d ml path vers. induction ml as [|[p v] r IH]; intro best; [left; reflexivity|].
  cbn [resolve_pure].
  destruct (bytes_eqb p path) eqn:Ep; cbn [andb].
  - apply bytes_eqb_true in Ep. subst p.
    destruct (semver_lt O best v).
    + fold (version_hash d path v).
      destruct (hash_matches (version_hash d path v) vers) eqn:Eh.
      * destruct (IH v) as [H|[H1 H2]].
        -- right. rewrite H. split; [left; reflexivity|exact Eh].
        -- right. split; [right; exact H1|exact H2].
      * destruct (IH best) as [H|[H1 H2]]; [left; exact H|right; split; [right; exact H1|exact H2]].
    + destruct (IH best) as [H|[H1 H2]]; [left; exact H|right; split; [right; exact H1|exact H2]].
  - destruct (IH best) as [H|[H1 H2]]; [left; exact H|right; split; [right; exact H1|exact H2]].
Qed.

Lemma hash_matches_nonempty : forall h v, hash_matches h v = true -> h <> [].
Proof. intros h v H Hn. subst h. discriminate. Qed.

(* a commit-hash request is looked up under the requested string itself, or under a version of
   the module list whose non-empty hash matches it *)
Theorem hash_resolution_sound : forall d ml path vers,
  target_version d ml path vers = vers \/
  (allhex vers = true /\ In (path, target_version d ml path vers) ml /\
   version_hash d path (target_version d ml path vers) <> [] /\
   hash_matches (version_hash d path (target_version d ml path vers)) vers = true).
Proof.
  intros d ml path vers. unfold target_version.
  destruct (allhex vers) eqn:Eh; [|left; reflexivity].
  destruct (resolve_pure_sound d ml path vers []) as [H|[H1 H2]].
  - left. rewrite H. reflexivity.
  - unfold pick_best. destruct (resolve_pure d ml path vers []) as [|c best] eqn:Er; [left; reflexivity|].
    right. split; [reflexivity|]. split; [exact H1|]. split; [|exact H2].
    eapply hash_matches_nonempty. exact H2.
Qed.

(* in particular: when no version of the path in the module list has a matching non-empty hash,
   a commit-hash request for it is answered like a request for the literal version string *)
Theorem hash_no_match : forall d ml path vers,
  (forall v, In (path, v) ml -> hash_matches (version_hash d path v) vers = false) ->
  target_version d ml path vers = vers.
Proof.
  intros d ml path vers Hno. destruct (hash_resolution_sound d ml path vers) as [H|[_ [H1 [_ H2]]]]; [exact H|].
  rewrite (Hno _ H1) in H2. discriminate.
Qed.

End Facts.

(* C20 — facts about the string vocabulary and the case escaping of Proxy.v *)
From Coq Require Import List Bool Arith NArith Lia.
From Coq.Strings Require Import Byte.
From GI Require Import Gen.ProxyConsts Proxy.Proxy.
Import ListNotations.

(* ------------------------------------------------------------------ equality tests *)

Lemma beq_refl : forall a, beq a a = true.
Proof. intro a. apply Byte.byte_dec_lb. reflexivity. Qed.

Lemma beq_true : forall a b, beq a b = true -> a = b.
Proof. intros a b H. apply Byte.byte_dec_bl. exact H. Qed.

Lemma beq_false : forall a b, beq a b = false -> a <> b.
Proof. intros a b H. apply Byte.eqb_false. exact H. Qed.

Lemma beq_neq : forall a b, a <> b -> beq a b = false.
Proof.
  intros a b Hne. destruct (beq a b) eqn:E; [|reflexivity].
  exfalso. apply Hne. apply beq_true. exact E.
Qed.

Lemma beq_sym : forall a b, beq a b = beq b a.
Proof.
  intros a b. destruct (beq a b) eqn:E.
  - apply beq_true in E. subst. symmetry. apply beq_refl.
  - symmetry. apply beq_neq. intro H. subst. rewrite beq_refl in E. discriminate.
Qed.

Lemma bytes_eqb_refl : forall a, bytes_eqb a a = true.
Proof. induction a as [|x a IH]; cbn; [reflexivity|]. rewrite beq_refl, IH. reflexivity. Qed.

Lemma bytes_eqb_true : forall a b, bytes_eqb a b = true -> a = b.
Proof.
  induction a as [|x a IH]; intros [|y b] H; cbn in H; try discriminate; [reflexivity|].
  apply andb_true_iff in H. destruct H as [H1 H2].
  apply beq_true in H1. apply IH in H2. subst. reflexivity.
Qed.

Lemma bytes_eqb_neq : forall a b, a <> b -> bytes_eqb a b = false.
Proof.
  intros a b Hne. destruct (bytes_eqb a b) eqn:E; [|reflexivity].
  exfalso. apply Hne. apply bytes_eqb_true. exact E.
Qed.

Lemma bytes_eqb_false : forall a b, bytes_eqb a b = false -> a <> b.
Proof. intros a b H Heq. subst. rewrite bytes_eqb_refl in H. discriminate. Qed.

(* ------------------------------------------------------------------ prefixes and suffixes *)

Lemma has_prefix_app : forall p r, has_prefix p (p ++ r) = true.
Proof. induction p as [|x p IH]; intro r; cbn; [reflexivity|]. rewrite beq_refl, IH. reflexivity. Qed.

Lemma has_prefix_true : forall p d, has_prefix p d = true -> d = p ++ skipn (length p) d.
Proof.
  induction p as [|x p IH]; intros d H; cbn in *; [reflexivity|].
  destruct d as [|y d]; [discriminate|].
  apply andb_true_iff in H. destruct H as [H1 H2].
  apply beq_true in H1. subst y. cbn. f_equal. apply IH. exact H2.
Qed.

Lemma has_prefix_nil_r : forall p, has_prefix p [] = true -> p = [].
Proof. intros [|x p] H; [reflexivity|discriminate]. Qed.

Lemma has_prefix_cons_neq : forall x p y d, x <> y -> has_prefix (x :: p) (y :: d) = false.
Proof. intros x p y d Hne. cbn. rewrite (beq_neq _ _ Hne). reflexivity. Qed.

Lemma has_suffix_rev : forall s d, has_suffix s d = has_prefix (rev s) (rev d).
Proof. intros s d. unfold has_suffix. rewrite !rev_append_rev, !app_nil_r. reflexivity. Qed.

Lemma has_suffix_app : forall a s, has_suffix s (a ++ s) = true.
Proof. intros a s. rewrite has_suffix_rev, rev_app_distr. apply has_prefix_app. Qed.

Lemma has_suffix_true : forall s d, has_suffix s d = true -> exists a, d = a ++ s.
Proof.
  intros s d H. rewrite has_suffix_rev in H. apply has_prefix_true in H.
  exists (rev (skipn (length (rev s)) (rev d))).
  rewrite <- (rev_involutive d) at 1. rewrite H at 1. rewrite rev_app_distr, rev_involutive. reflexivity.
Qed.

Lemma trim_suffix_app : forall a s, trim_suffix s (a ++ s) = a.
Proof.
  intros a s. unfold trim_suffix. rewrite has_suffix_app.
  rewrite app_length. replace (length a + length s - length s) with (length a) by lia.
  rewrite firstn_app, Nat.sub_diag, firstn_all. cbn. apply app_nil_r.
Qed.

Lemma last_byte_neq_no_suffix : forall a c s d,
  c <> d -> has_suffix (s ++ [c]) (a ++ [d]) = false.
Proof.
  intros a c s d Hne. rewrite has_suffix_rev, !rev_app_distr. cbn.
  rewrite (beq_neq _ _ Hne). reflexivity.
Qed.

(* ------------------------------------------------------------------ membership *)

Lemma mem_byte_false_iff : forall c d, mem_byte c d = false <-> ~ In c d.
Proof.
  intros c d. unfold mem_byte. split.
  - intros H Hin. assert (existsb (beq c) d = true) as E.
    { apply existsb_exists. exists c. split; [exact Hin|apply beq_refl]. }
    rewrite E in H. discriminate.
  - intro Hn. destruct (existsb (beq c) d) eqn:E; [|reflexivity].
    apply existsb_exists in E. destruct E as [x [Hin Hx]]. apply beq_true in Hx. subst. contradiction.
Qed.

Lemma mem_byte_app : forall c a b, mem_byte c (a ++ b) = mem_byte c a || mem_byte c b.
Proof. intros. unfold mem_byte. apply existsb_app. Qed.

(* ------------------------------------------------------------------ Index *)

(* no occurrence of sep starts inside the first n bytes of d *)
Definition no_occ_before (sep d : bytes) (n : nat) : Prop :=
  forall i, i < n -> has_prefix sep (skipn i d) = false.

Lemma index_found : forall sep d n,
  no_occ_before sep d n -> has_prefix sep (skipn n d) = true -> index sep d = Some n.
Proof.
  intros sep d. induction d as [|x d IH]; intros n Hno Hat.
  - destruct n as [|n].
    + cbn in Hat. cbn. rewrite Hat. reflexivity.
    + specialize (Hno 0 (Nat.lt_0_succ _)). cbn in Hno. cbn in Hat. rewrite Hat in Hno. discriminate.
  - destruct n as [|n].
    + cbn [skipn] in Hat. cbn [index]. rewrite Hat. reflexivity.
    + cbn [index]. pose proof (Hno 0 (Nat.lt_0_succ _)) as H0. cbn [skipn] in H0. rewrite H0.
      rewrite (IH n); [reflexivity| |exact Hat].
      intros i Hi. apply (Hno (S i)). lia.
Qed.

Lemma index_some : forall sep d i,
  index sep d = Some i -> i <= length d /\ has_prefix sep (skipn i d) = true /\ no_occ_before sep d i.
Proof.
  intros sep d. induction d as [|x d IH]; intros i H.
  - cbn in H. destruct (has_prefix sep []) eqn:E; [|discriminate]. inversion H; subst.
    repeat split; [cbn; lia|exact E|intros j Hj; lia].
  - cbn [index] in H. destruct (has_prefix sep (x :: d)) eqn:E.
    + inversion H; subst. repeat split; [lia|exact E|intros j Hj; lia].
    + destruct (index sep d) as [j|] eqn:Ej; [|discriminate]. cbn in H. inversion H; subst.
      destruct (IH j eq_refl) as [Hle [Hat Hno]].
      repeat split; [cbn; lia|exact Hat|].
      intros k Hk. destruct k as [|k]; [exact E|]. cbn [skipn]. apply Hno. lia.
Qed.

(* an occurrence of sep inside a ++ sep ++ b that starts in a needs the byte m (the second byte
   of sep) either inside a or where sep starts *)
Lemma no_occ_marker : forall (c0 m : byte) (rest a b : bytes),
  c0 <> m -> ~ In m a ->
  no_occ_before (c0 :: m :: rest) (a ++ (c0 :: m :: rest) ++ b) (length a).
Proof.
  intros c0 m rest a b Hc Hm. unfold no_occ_before.
  induction a as [|x a IH]; intros i Hi; [cbn in Hi; lia|].
  destruct i as [|i].
  - cbn [skipn app]. destruct a as [|y a].
    + cbn [app]. cbn [has_prefix]. rewrite (beq_neq m c0) by (intro; subst; apply Hc; reflexivity).
      rewrite andb_false_r. reflexivity.
    + cbn [app has_prefix]. rewrite (beq_neq m y).
      * rewrite andb_false_r. reflexivity.
      * intro; subst. apply Hm. right. left. reflexivity.
  - cbn [skipn app]. apply IH; [|cbn in Hi; lia].
    intro Hin. apply Hm. right. exact Hin.
Qed.

(* ------------------------------------------------------------------ LastIndex *)

Lemma last_index_none : forall sep d i, last_index sep d = None -> has_prefix sep (skipn i d) = false.
Proof.
  intros sep d. induction d as [|x d IH]; intros i H.
  - cbn in H. destruct (has_prefix sep []) eqn:E; [discriminate|]. destruct i; exact E.
  - cbn [last_index] in H. destruct (last_index sep d) eqn:El; [discriminate|].
    destruct (has_prefix sep (x :: d)) eqn:E; [discriminate|].
    destruct i as [|i]; [exact E|]. cbn [skipn]. apply IH. reflexivity.
Qed.

(* sep occurs at n and nowhere later *)
Lemma last_index_found : forall sep d n,
  has_prefix sep (skipn n d) = true -> n <= length d ->
  (forall i, n < i -> has_prefix sep (skipn i d) = false) ->
  last_index sep d = Some n.
Proof.
  intros sep d. induction d as [|x d IH]; intros n Hat Hle Hlater.
  - cbn in Hle. assert (n = 0) by lia. subst. cbn in Hat. cbn. rewrite Hat. reflexivity.
  - destruct n as [|n].
    + cbn [skipn] in Hat. cbn [last_index].
      destruct (last_index sep d) as [j|] eqn:Ej.
      * exfalso.
        assert (Hj : exists j', last_index sep d = Some j') by (eexists; exact Ej).
        clear IH. revert Hlater Ej. clear. intros Hlater Ej.
        (* an occurrence at S j contradicts Hlater *)
        assert (has_prefix sep (skipn j d) = true) as Hocc.
        { clear Hlater. revert j Ej. induction d as [|y d IH]; intros j Ej.
          - cbn in Ej. destruct (has_prefix sep []) eqn:E; [|discriminate]. inversion Ej; subst. exact E.
          - cbn [last_index] in Ej. destruct (last_index sep d) as [k|] eqn:Ek.
            + inversion Ej; subst. cbn [skipn]. apply IH. reflexivity.
            + destruct (has_prefix sep (y :: d)) eqn:E; [|discriminate]. inversion Ej; subst. exact E. }
        specialize (Hlater (S j) (Nat.lt_0_succ _)). cbn [skipn] in Hlater. rewrite Hocc in Hlater. discriminate.
      * rewrite Hat. reflexivity.
    + cbn [skipn] in Hat. cbn [last_index]. cbn in Hle.
      rewrite (IH n Hat); [reflexivity|lia|].
      intros i Hi. apply (Hlater (S i)). lia.
Qed.

Lemma last_index_some : forall sep d i,
  last_index sep d = Some i -> i <= length d /\ has_prefix sep (skipn i d) = true.
Proof.
  intros sep d. induction d as [|x d IH]; intros i H.
  - cbn in H. destruct (has_prefix sep []) eqn:E; [|discriminate]. inversion H; subst. split; [cbn; lia|exact E].
  - cbn [last_index] in H. destruct (last_index sep d) as [k|] eqn:Ek.
    + inversion H; subst. destruct (IH k eq_refl) as [Hle Hat]. split; [cbn; lia|exact Hat].
    + destruct (has_prefix sep (x :: d)) eqn:E; [|discriminate]. inversion H; subst. split; [lia|exact E].
Qed.

(* a one-byte separator that does not occur in b *)
Lemma last_index_byte_app : forall c a b,
  ~ In c b -> last_index [c] (a ++ [c] ++ b) = Some (length a).
Proof.
  intros c a b Hn. apply last_index_found.
  - rewrite skipn_app, skipn_all, Nat.sub_diag. cbn. rewrite beq_refl. reflexivity.
  - rewrite app_length. lia.
  - intros i Hi. rewrite skipn_app. rewrite skipn_all2 by lia. cbn [app].
    remember (i - length a) as k eqn:Ek. destruct k as [|k]; [lia|].
    cbn [app skipn].
    assert (forall l, ~ In c l -> forall k, has_prefix [c] (skipn k l) = false) as Haux.
    { induction l as [|y l IHl]; intros Hl k'.
      - destruct k'; reflexivity.
      - destruct k' as [|k'].
        + cbn. rewrite (beq_neq c y); [reflexivity|]. intro; subst. apply Hl. left. reflexivity.
        + cbn [skipn]. apply IHl. intro Hin. apply Hl. right. exact Hin. }
    apply Haux. exact Hn.
Qed.

(* the two-byte separator [c; v]: the last occurrence in a ++ [c] ++ (v :: b) when c does not
   occur in v :: b *)
Lemma last_index_pair_app : forall c v a b,
  ~ In c (v :: b) -> last_index [c; v] (a ++ [c] ++ v :: b) = Some (length a).
Proof.
  intros c v a b Hn. apply last_index_found.
  - rewrite skipn_app, skipn_all, Nat.sub_diag. cbn. rewrite !beq_refl. reflexivity.
  - rewrite app_length. lia.
  - intros i Hi. rewrite skipn_app. rewrite skipn_all2 by lia. cbn [app].
    remember (i - length a) as k eqn:Ek. destruct k as [|k]; [lia|].
    cbn [app skipn].
    assert (forall l, ~ In c l -> forall k, has_prefix [c; v] (skipn k l) = false) as Haux.
    { induction l as [|y l IHl]; intros Hl k'.
      - destruct k'; reflexivity.
      - destruct k' as [|k'].
        + cbn [skipn has_prefix]. rewrite (beq_neq c y); [reflexivity|]. intro; subst. apply Hl. left. reflexivity.
        + cbn [skipn]. apply IHl. intro Hin. apply Hl. right. exact Hin. }
    apply Haux. exact Hn.
Qed.

(* ------------------------------------------------------------------ ReplaceAll on single bytes *)

Lemma replace_byte_inv : forall a b d, ~ In b d -> replace_byte b a (replace_byte a b d) = d.
Proof.
  intros a b d. unfold replace_byte. induction d as [|x d IH]; intro Hn; [reflexivity|].
  cbn [map]. rewrite IH by (intro H; apply Hn; right; exact H). f_equal.
  destruct (beq x a) eqn:E.
  - rewrite beq_refl. apply beq_true in E. symmetry. exact E.
  - rewrite (beq_neq x b); [reflexivity|]. intro; subst. apply Hn. left. reflexivity.
Qed.

Lemma replace_byte_length : forall a b d, length (replace_byte a b d) = length d.
Proof. intros. unfold replace_byte. apply map_length. Qed.

Lemma replace_byte_not_in : forall a b d, a <> b -> ~ In a (replace_byte a b d).
Proof.
  intros a b d Hab Hin. unfold replace_byte in Hin. apply in_map_iff in Hin.
  destruct Hin as [x [Hx _]]. destruct (beq x a) eqn:E.
  - subst. apply Hab. reflexivity.
  - subst. rewrite beq_refl in E. discriminate.
Qed.

(* ------------------------------------------------------------------ case escaping *)

Lemma escape_byte_unescape : forall c r,
  is_ascii c = true -> beq c bang = false ->
  unescape_go false (escape_byte c ++ r) = option_map (cons c) (unescape_go false r).
Proof.
  intros c r Ha Hb. destruct c; cbn in Ha, Hb; try discriminate; reflexivity.
Qed.

Theorem unescape_escape : forall s e, escape_string s = Some e -> unescape_string e = Some s.
Proof.
  unfold escape_string, unescape_string, escapable. intros s.
  induction s as [|c s IH]; intros e H.
  - cbn in H. inversion H. reflexivity.
  - cbn [forallb flat_map] in H.
    destruct (is_ascii c) eqn:Ha; [|discriminate].
    destruct (beq c bang) eqn:Hb; [discriminate|]. cbn [negb andb] in H.
    destruct (forallb (fun c0 => is_ascii c0 && negb (beq c0 bang)) s) eqn:Hs; [|discriminate].
    inversion H; subst. rewrite escape_byte_unescape by assumption.
    rewrite (IH _ eq_refl). reflexivity.
Qed.

Lemma escape_injective : forall s1 s2 e, escape_string s1 = Some e -> escape_string s2 = Some e -> s1 = s2.
Proof.
  intros s1 s2 e H1 H2. apply unescape_escape in H1. apply unescape_escape in H2. congruence.
Qed.

(* the other direction: what unescapeString accepts is the escaped form of its result *)
Lemma unescape_go_escape : forall e s, unescape_go false e = Some s -> escape_string s = Some e.
Proof.
  unfold escape_string, escapable.
  assert (forall n e, length e <= n -> forall s, unescape_go false e = Some s ->
          forallb (fun c => is_ascii c && negb (beq c bang)) s = true /\ flat_map escape_byte s = e) as Hgen.
  { induction n as [|n IH]; intros e Hlen s H.
    - destruct e; [|cbn in Hlen; lia]. cbn in H. inversion H. split; reflexivity.
    - destruct e as [|c e]; [cbn in H; inversion H; split; reflexivity|].
      cbn [unescape_go] in H. destruct (is_ascii c) eqn:Ha; [|discriminate]. cbn [negb] in H.
      destruct (beq c bang) eqn:Hb.
      + (* "!x" *)
        apply beq_true in Hb. subst c.
        destruct e as [|x e]; [cbn in H; discriminate|].
        cbn [unescape_go] in H. destruct (is_ascii x) eqn:Hax; [|discriminate]. cbn [negb] in H.
        destruct (upper_of x) as [u|] eqn:Hu; [|discriminate].
        destruct (unescape_go false e) as [s'|] eqn:Hs'; [|discriminate]. cbn in H. inversion H; subst.
        destruct (IH e ltac:(cbn in Hlen; lia) s' Hs') as [Hf He].
        cbn [forallb flat_map]. rewrite Hf, He.
        destruct x; cbn in Hu; try discriminate; inversion Hu; subst; split; reflexivity.
      + destruct (is_upper c) eqn:Hup; [discriminate|].
        destruct (unescape_go false e) as [s'|] eqn:Hs'; [|discriminate]. cbn in H. inversion H; subst.
        destruct (IH e ltac:(cbn in Hlen; lia) s' Hs') as [Hf He].
        cbn [forallb flat_map]. rewrite Ha, Hb, Hf, He. cbn.
        unfold escape_byte. unfold is_upper in Hup. destruct (lower_of c); [discriminate|]. split; reflexivity. }
  intros e s H. destruct (Hgen (length e) e (le_n _) s H) as [Hf He]. rewrite Hf, He. reflexivity.
Qed.

Theorem escape_unescape : forall e s, unescape_string e = Some s -> escape_string s = Some e.
Proof. exact unescape_go_escape. Qed.

(* bytes of the escaped form *)
Lemma escape_byte_in : forall c x, In x (escape_byte c) -> x = c \/ x = bang \/ lower_of c = Some x.
Proof.
  intros c x H. unfold escape_byte in H. destruct (lower_of c) as [l|] eqn:E.
  - cbn in H. destruct H as [H|[H|[]]]; subst; auto.
  - cbn in H. destruct H as [H|[]]; subst; auto.
Qed.

Lemma escape_not_in : forall m s e,
  escape_string s = Some e -> ~ In m s -> m <> bang -> (forall c, lower_of c <> Some m) -> ~ In m e.
Proof.
  unfold escape_string. intros m s e H Hs Hb Hl Hin.
  destruct (escapable s); [|discriminate]. inversion H; subst.
  apply in_flat_map in Hin. destruct Hin as [c [Hc Hx]].
  apply escape_byte_in in Hx. destruct Hx as [Hx|[Hx|Hx]]; subst.
  - contradiction.
  - apply Hb. reflexivity.
  - apply (Hl c). exact Hx.
Qed.

Lemma lower_of_range : forall c l, lower_of c = Some l -> (97 <= Byte.to_N l <= 122)%N.
Proof. intros c l H. destruct c; cbn in H; try discriminate; inversion H; subst; cbn; lia. Qed.

Lemma not_lower_of : forall m, ((Byte.to_N m < 97)%N \/ (122 < Byte.to_N m)%N) -> forall c, lower_of c <> Some m.
Proof. intros m Hm c H. apply lower_of_range in H. lia. Qed.

(* the escaped form starts like the original when the original starts with a non-upper byte *)
Lemma escape_head : forall c s e,
  escape_string (c :: s) = Some e -> lower_of c = None -> exists e', e = c :: e' /\ escape_string s = Some e'.
Proof.
  unfold escape_string, escapable. intros c s e H Hl. cbn [forallb flat_map] in H.
  destruct (is_ascii c && negb (beq c bang)); [|discriminate]. cbn [andb] in H.
  destruct (forallb (fun c0 => is_ascii c0 && negb (beq c0 bang)) s); [|discriminate].
  inversion H; subst. unfold escape_byte. rewrite Hl. eexists. split; reflexivity.
Qed.

Example escape_example :
  escape_string [x41; x7a; x2f; x42] = Some [x21; x61; x7a; x2f; x21; x62] /\
  unescape_string [x21; x61; x7a; x2f; x21; x62] = Some [x41; x7a; x2f; x42] /\
  unescape_string [x21; x41] = None /\ unescape_string [x61; x21] = None /\
  unescape_string [x41] = None /\ escape_string [x21] = None.
Proof. vm_compute. repeat split. Qed.

Lemma skipn_skipn' : forall (A : Type) (a b : nat) (l : list A), skipn a (skipn b l) = skipn (b + a) l.
Proof.
  intros A a b. induction b as [|b IH]; intro l; [reflexivity|].
  destruct l as [|x l]; [cbn; destruct a; reflexivity|]. cbn. apply IH.
Qed.

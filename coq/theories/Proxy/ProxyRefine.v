(* C20 — refinement: the handlers running on the MODELLED par.Cache (group Par, ParCache.v: every
   synchronisation operation of Cache.Do is one step, the mutex blocks, f runs while other
   threads run) compute the responses of the atomic specification [cache_do] used in
   ProxyConc.v.  "Caches computed once per key" is thereby a theorem about the modelled
   par.Cache (C10: do_returns_f_value), not an assumption.

   Event-level system.  One Par cache state [acs] holds both caches (keys [ka n] for
   archiveCache, [kz n] for zipCache; the two caches are separate objects, i.e. disjoint key
   sets of one sync.Map-like table); thread i of it belongs to handler i.  A step of thread i is
     - the call statement: handler i is at ArchDo n k / ZipDo n v k and its thread is idle: the
       thread enters Do(key) (program counter DLoad key);
     - one step of ParCache.cstep inside that Do; when the Do returns value tok, the handler
       resumes with the Go value that token stands for ([resume]): the archive loaded for the
       name of the key, resp. the zip built for it.  A nil result would panic in the type
       assertion (to *txtar.Archive resp. cached): the handler becomes [None].
   Par's values are natural numbers and its f_k returns [fval k]; here fval k = k: the token of
   a key stands for "what f computed for this key", which is [lookup_archive d n] for the
   archive cache and, for the zip cache, the value every compatible request computes ([Zf]). *)
From Coq Require Import List Bool Arith NArith Lia.
From Coq.Strings Require Import Byte.
From GI Require Import Gen.ProxyConsts Proxy.Proxy Proxy.ProxyStrings Proxy.ProxyFacts Proxy.ProxyConc.
From GI Require Import Gen.ParConsts Par.ParWork Par.ParLib Par.ParCache Par.ParCacheBase Par.ParCacheProofs.
Import ListNotations.

Definition fval_id (k : nat) : option nat := Some k.
(* f never calls Do itself: archiveCache's f reads files, zipCache's f zips an archive it was given *)
Definition deps0 (k : nat) : list nat := [].
(* and f returns: loading an archive or building a zip reports failure through its value (nil
   archive, cached{nil, err}); neither function panics or calls runtime.Goexit *)
Definition crash0 (k : nat) : bool := false.

Section Refine.
Variable A : Type.
Variable d : dir.
Variables ka kz : bytes -> nat.          (* cache keys of the two caches *)
Variable name_of : nat -> bytes.
Hypothesis name_ka : forall n, name_of (ka n) = n.
Hypothesis name_kz : forall n, name_of (kz n) = n.
Variable Zf : bytes -> zipres.           (* the zip every request computes for an archive name *)

Notation cstepF := (cstep fval_id deps0 crash0).

(* the calls a handler makes when every Do returns what its own f computes *)
Fixpoint calls (p : prog A) : list call :=
  match p with
  | Ret _ => []
  | ArchDo n k => CDo (ka n) :: calls (k (lookup_archive d n))
  | ZipDo n v k => CDo (kz n) :: calls (k v)
  end.

Definition next_key (p : prog A) : option nat :=
  match p with
  | Ret _ => None
  | ArchDo n _ => Some (ka n)
  | ZipDo n _ _ => Some (kz n)
  end.

Definition canon_next (p : prog A) : option (prog A) :=
  match p with
  | Ret _ => None
  | ArchDo n k => Some (k (lookup_archive d n))
  | ZipDo n v k => Some (k v)
  end.

(* the handler continues with the value Do returned *)
Definition resume (p : prog A) (v : option nat) : option (prog A) :=
  match p, v with
  | ArchDo n k, Some tok => Some (k (lookup_archive d (name_of tok)))
  | ZipDo n v0 k, Some tok => Some (k (Zf (name_of tok)))
  | _, _ => None
  end.

Record astate := mkA { acs : cstate; hs : list (option (prog A)) }.

Definition is_idle_pc (p : cpc) : bool := match p with Idle => true | _ => false end.

Definition astep (st : astate) (t : nat) : option astate :=
  match nth_error (thrs (acs st)) t, nth_error (hs st) t with
  | Some th, Some (Some h) =>
      if is_idle_pc (tpc th) then
        match next_key h with
        | None => None                                            (* the handler has returned *)
        | Some key =>
            Some (mkA (mkC (set_nth t (mkThr (DLoad key) [] [] (rets th) (nrets th)) (thrs (acs st)))
                           (ents (acs st)) (plain (acs st)))
                      (hs st))
        end
      else
        match cstepF (acs st) t with
        | None => None                                            (* blocked in e.mu.Lock() *)
        | Some cs' =>
            match nth_error (thrs cs') t with
            | Some th' =>
                if is_idle_pc (tpc th') then
                  Some (mkA cs' (set_nth t (resume h (match rets th' with (_, v) :: _ => v | [] => None end)) (hs st)))
                else Some (mkA cs' (hs st))
            | None => None
            end
        end
  | _, _ => None
  end.

Fixpoint arun (sch : list nat) (st : astate) : option astate :=
  match sch with
  | [] => Some st
  | t :: r => match astep st t with Some st' => arun r st' | None => None end
  end.

Definition ainit (ps : list (prog A)) : astate :=
  mkA (mkC (map (fun _ => mkThr Idle [] [] [] []) ps) (fun _ => entry0) []) (map Some ps).

(* ------------------------------------------------------------------ one cstep on two states that
   differ only in what the threads will call next *)

Inductive tupd := TGoto (p : cpc) | TRet (c : call) (v : option nat).
Definition apply_upd (th : thr) (u : tupd) : thr :=
  match u with TGoto p => goto th p | TRet c v => ret th c v end.

Lemma cstep_lockstep : forall sa sc t tha thc key,
  ents sa = ents sc -> plain sa = plain sc ->
  nth_error (thrs sa) t = Some tha -> nth_error (thrs sc) t = Some thc ->
  tpc tha = tpc thc -> cur (tpc tha) = [CDo key] -> stack tha = [] -> stack thc = [] ->
  (cstepF sa t = None /\ cstepF sc t = None) \/
  (exists sa' sc' u, cstepF sa t = Some sa' /\ cstepF sc t = Some sc' /\
     ents sa' = ents sc' /\ plain sa' = plain sc' /\
     thrs sa' = set_nth t (apply_upd tha u) (thrs sa) /\
     thrs sc' = set_nth t (apply_upd thc u) (thrs sc) /\
     match u with
     | TGoto p => cur p = [CDo key]
     | TRet c v => c = CDo key
     end).
Proof.
  intros sa sc t tha thc key He Hp Ha Hc Hpc Hcur Hsa Hsc.
  unfold cstep. rewrite Ha, Hc. rewrite <- Hpc. rewrite <- He, <- Hp.
  destruct (tpc tha) eqn:Et; cbn [cur] in Hcur; try discriminate; inversion Hcur; subst.
  - (* DLoad *) right. destruct (present (ents sa key)); eexists _, _, (TGoto _);
      repeat split; reflexivity.
  - right. eexists _, _, (TGoto _); repeat split; reflexivity.
  - right. destruct (isd (ents sa key)); eexists _, _, (TGoto _); repeat split; reflexivity.
  - (* DLock *) destruct (locked (ents sa key)); [left; split; reflexivity|].
    right. eexists _, _, (TGoto _); repeat split; reflexivity.
  - right. destruct (isd (ents sa key)); eexists _, _, (TGoto _); repeat split; reflexivity.
  - right. eexists _, _, (TGoto _); repeat split; reflexivity.
  - (* DInF: f has no nested Do *)
    right. unfold deps0. replace (nth_error (@nil nat) j) with (@None nat) by (destruct j; reflexivity).
    eexists _, _, (TGoto _); repeat split; reflexivity.
  - right. eexists _, _, (TGoto _); repeat split; reflexivity.
  - right. eexists _, _, (TGoto _); repeat split; reflexivity.
  - right. eexists _, _, (TGoto _); repeat split; reflexivity.
  - (* DRead *) right. unfold do_return. rewrite Hsa, Hsc. eexists _, _, (TRet _ _); repeat split; reflexivity.
Qed.

(* ------------------------------------------------------------------ the simulation *)

Variable ps : list (prog A).
Definition Zl : list (bytes * zipres) := flat_map (zip_ops d) ps.
Hypothesis Zl_functional : functional Zl.
Hypothesis Zf_agrees : forall n v, In (n, v) Zl -> Zf n = v.

Notation creach := (creachable fval_id deps0 crash0 (map calls ps)).

Definition thr_rel (p : prog A) (tha thc : thr) (ho : option (prog A)) : Prop :=
  rest tha = [] /\ rets tha = rets thc /\ stack tha = [] /\ stack thc = [] /\
  exists h, ho = Some h /\ run_own d h = run_own d p /\ incl (zip_ops d h) Zl /\
    ((tpc tha = Idle /\ tpc thc = fst (start (calls h)) /\ rest thc = snd (start (calls h)))
     \/ (tpc tha = tpc thc /\ exists key h', cur (tpc tha) = [CDo key] /\ next_key h = Some key /\
           canon_next h = Some h' /\ rest thc = calls h')).

Record Inv (st : astate) (sc : cstate) : Prop := {
  i_reach : creach sc;
  i_ents : ents (acs st) = ents sc;
  i_plain : plain (acs st) = plain sc;
  i_len1 : length (thrs (acs st)) = length ps;
  i_len2 : length (thrs sc) = length ps;
  i_len3 : length (hs st) = length ps;
  i_thr : forall i p tha thc ho,
      nth_error ps i = Some p -> nth_error (thrs (acs st)) i = Some tha ->
      nth_error (thrs sc) i = Some thc -> nth_error (hs st) i = Some ho -> thr_rel p tha thc ho
}.

Lemma next_canon : forall h key, next_key h = Some key ->
  exists h', canon_next h = Some h' /\ calls h = CDo key :: calls h' /\
             run_own d h' = run_own d h /\ incl (zip_ops d h') (zip_ops d h).
Proof.
  intros [a|n k|n v k] key H; cbn in H; [discriminate| |]; inversion H; subst.
  - eexists. repeat split. apply incl_refl.
  - eexists. repeat split. cbn [zip_ops]. apply incl_tl, incl_refl.
Qed.

Lemma resume_canon : forall h key, next_key h = Some key -> incl (zip_ops d h) Zl ->
  resume h (Some key) = canon_next h.
Proof.
  intros [a|n k|n v k] key H Hin; cbn in H; [discriminate| |]; inversion H; subst; cbn [resume canon_next].
  - rewrite name_ka. reflexivity.
  - rewrite name_kz. rewrite (Zf_agrees n v); [reflexivity|]. apply Hin. cbn. left. reflexivity.
Qed.

Lemma init_Inv : Inv (ainit ps) (cinit (map calls ps)).
Proof.
  constructor; cbn [ainit acs hs thrs ents plain cinit].
  - apply creach_init.
  - reflexivity.
  - reflexivity.
  - apply map_length.
  - rewrite !map_length. reflexivity.
  - apply map_length.
  - intros i p tha thc ho Hp Ha Hc Hh.
    rewrite nth_error_map, Hp in Ha. cbn in Ha. inversion Ha; subst tha.
    rewrite map_map, nth_error_map, Hp in Hc. cbn in Hc. inversion Hc; subst thc.
    rewrite nth_error_map, Hp in Hh. cbn in Hh. inversion Hh; subst ho.
    unfold thr_rel. cbn [rest rets tpc stack]. split; [reflexivity|]. split; [reflexivity|].
    split; [reflexivity|]. split; [reflexivity|].
    exists p. split; [reflexivity|]. split; [reflexivity|]. split.
    + intros x Hx. unfold Zl. apply in_flat_map. exists p. split; [eapply nth_error_In; exact Hp|exact Hx].
    + left. repeat split.
Qed.

Lemma nth_error_same_len : forall {X Y} (l : list X) (m : list Y) i x,
  length l = length m -> nth_error l i = Some x -> exists y, nth_error m i = Some y.
Proof.
  intros X Y l m i x Hl Hn. destruct (nth_error m i) as [y|] eqn:E; [eexists; reflexivity|].
  apply nth_error_None in E. apply nth_error_lt in Hn. lia.
Qed.

Lemma step_Inv : forall st sc t st',
  Inv st sc -> astep st t = Some st' ->
  exists sc', Inv st' sc' /\ (sc' = sc \/ cstepF sc t = Some sc').
Proof.
  intros st sc t st' HI Hs. unfold astep in Hs.
  destruct (nth_error (thrs (acs st)) t) as [tha|] eqn:Ea; [|discriminate].
  destruct (nth_error (hs st) t) as [[h|]|] eqn:Eh; try discriminate.
  assert (t < length ps) as Hlt by (rewrite <- (i_len1 _ _ HI); eapply nth_error_lt; exact Ea).
  destruct (nth_error ps t) as [p|] eqn:Ep; [|apply nth_error_None in Ep; lia].
  destruct (nth_error_same_len _ (thrs sc) t tha ltac:(rewrite (i_len1 _ _ HI), (i_len2 _ _ HI); reflexivity) Ea) as [thc Ec].
  pose proof (i_thr _ _ HI t p tha thc (Some h) Ep Ea Ec Eh) as (Hrest & Hrets & Hstka & Hstkc & h0 & Hh0 & Hrun & Hincl & Hcase).
  inversion Hh0; subst h0. clear Hh0.
  destruct (is_idle_pc (tpc tha)) eqn:Eidle.
  - (* the call statement *)
    destruct (next_key h) as [key|] eqn:Ek; [|discriminate]. inversion Hs; subst st'. clear Hs.
    assert (tpc tha = Idle) as Hi by (destruct (tpc tha); try discriminate; reflexivity).
    destruct Hcase as [(_ & Hpc & Hr)|(Hpc & key' & h' & Hcur & _)]; [|rewrite Hi in Hcur; discriminate].
    destruct (next_canon h key Ek) as (h' & Hcn & Hcalls & Hrun' & Hinc').
    rewrite Hcalls in Hpc, Hr. cbn [start fst snd] in Hpc, Hr.
    exists sc. split; [|left; reflexivity].
    constructor; cbn [acs hs thrs ents plain].
    + apply (i_reach _ _ HI).
    + apply (i_ents _ _ HI).
    + apply (i_plain _ _ HI).
    + rewrite set_nth_length. apply (i_len1 _ _ HI).
    + apply (i_len2 _ _ HI).
    + apply (i_len3 _ _ HI).
    + intros i q tha' thc' ho Hq Ha' Hc' Hh'.
      destruct (Nat.eq_dec t i) as [<-|Hne].
      * rewrite nth_error_set_nth_eq in Ha' by (rewrite (i_len1 _ _ HI); exact Hlt).
        inversion Ha'; subst tha'. rewrite Ep in Hq. inversion Hq; subst q.
        rewrite Ec in Hc'. inversion Hc'; subst thc'. rewrite Eh in Hh'. inversion Hh'; subst ho.
        unfold thr_rel. cbn [rest rets tpc stack]. split; [reflexivity|]. split; [exact Hrets|].
        split; [reflexivity|]. split; [exact Hstkc|].
        exists h. split; [reflexivity|]. split; [exact Hrun|]. split; [exact Hincl|].
        right. split; [symmetry; exact Hpc|]. exists key, h'. repeat split; assumption.
      * rewrite nth_error_set_nth_neq in Ha' by exact Hne.
        apply (i_thr _ _ HI i q tha' thc' ho Hq Ha' Hc' Hh').
  - (* a step inside Do *)
    destruct Hcase as [(Hi & _)|(Hpc & key & h' & Hcur & Hnk & Hcn & Hr)]; [rewrite Hi in Eidle; discriminate|].
    destruct (cstep_lockstep (acs st) sc t tha thc key (i_ents _ _ HI) (i_plain _ _ HI) Ea Ec Hpc Hcur Hstka Hstkc)
      as [[Hn _]|(sa' & sc' & u & Hsa & Hsc & He' & Hp' & Hta & Htc & Hu)].
    { rewrite Hn in Hs. discriminate. }
    rewrite Hsa in Hs.
    assert (nth_error (thrs sa') t = Some (apply_upd tha u)) as Ea'.
    { rewrite Hta. apply nth_error_set_nth_eq. rewrite (i_len1 _ _ HI). exact Hlt. }
    assert (nth_error (thrs sc') t = Some (apply_upd thc u)) as Ec'.
    { rewrite Htc. apply nth_error_set_nth_eq. rewrite (i_len2 _ _ HI). exact Hlt. }
    assert (creach sc') as Hreach' by (eapply creach_step; [apply (i_reach _ _ HI)|exact Hsc]).
    rewrite Ea' in Hs.
    exists sc'. split; [|right; exact Hsc].
    destruct u as [pc'|c v]; cbn [apply_upd goto ret tpc] in Hs.
    + (* still inside the Do *)
      assert (is_idle_pc pc' = false) as Hni by (destruct pc'; cbn in Hu; try discriminate; reflexivity).
      rewrite Hni in Hs. inversion Hs; subst st'. clear Hs.
      constructor; cbn [acs hs]; try assumption.
      * rewrite Hta, set_nth_length. apply (i_len1 _ _ HI).
      * rewrite Htc, set_nth_length. apply (i_len2 _ _ HI).
      * apply (i_len3 _ _ HI).
      * intros i q tha' thc' ho Hq Ha2 Hc2 Hh2.
        destruct (Nat.eq_dec t i) as [<-|Hne].
        -- rewrite Ea' in Ha2. inversion Ha2; subst tha'. rewrite Ec' in Hc2. inversion Hc2; subst thc'.
           rewrite Ep in Hq. inversion Hq; subst q. rewrite Eh in Hh2. inversion Hh2; subst ho.
           unfold thr_rel. cbn [apply_upd goto rest rets tpc stack].
           split; [exact Hrest|]. split; [exact Hrets|]. split; [exact Hstka|]. split; [exact Hstkc|].
           exists h. split; [reflexivity|]. split; [exact Hrun|]. split; [exact Hincl|].
           right. split; [reflexivity|]. exists key, h'. repeat split; assumption.
        -- rewrite Hta, nth_error_set_nth_neq in Ha2 by exact Hne.
           rewrite Htc, nth_error_set_nth_neq in Hc2 by exact Hne.
           apply (i_thr _ _ HI i q tha' thc' ho Hq Ha2 Hc2 Hh2).
    + (* the Do returns *)
      subst c. rewrite Hrest in Hs. cbn [start fst snd is_idle_pc rets] in Hs.
      inversion Hs; subst st'. clear Hs.
      (* C10: the returned value is the value of the one call of f for this key *)
      assert (v = Some key) as Hv.
      { destruct (do_returns_f_value fval_id deps0 crash0 (map calls ps) sc' t (apply_upd thc (TRet (CDo key) v)) key v Hreach' Ec')
          as [Hv _]; [cbn [apply_upd ret rets]; left; reflexivity|exact Hv]. }
      subst v. rewrite (resume_canon h key Hnk Hincl), Hcn.
      destruct (next_canon h key Hnk) as (h2 & Hcn2 & Hcalls & Hrun' & Hinc').
      rewrite Hcn in Hcn2. inversion Hcn2; subst h2.
      constructor; cbn [acs hs]; try assumption.
      * rewrite Hta, set_nth_length. apply (i_len1 _ _ HI).
      * rewrite Htc, set_nth_length. apply (i_len2 _ _ HI).
      * rewrite set_nth_length. apply (i_len3 _ _ HI).
      * intros i q tha' thc' ho Hq Ha2 Hc2 Hh2.
        destruct (Nat.eq_dec t i) as [<-|Hne].
        -- rewrite Ea' in Ha2. inversion Ha2; subst tha'. rewrite Ec' in Hc2. inversion Hc2; subst thc'.
           rewrite Ep in Hq. inversion Hq; subst q.
           rewrite nth_error_set_nth_eq in Hh2 by (rewrite (i_len3 _ _ HI); exact Hlt). inversion Hh2; subst ho.
           unfold thr_rel. cbn [apply_upd ret rest rets tpc stack]. rewrite Hrest. cbn [start fst snd].
           split; [reflexivity|]. split; [rewrite Hrets; reflexivity|]. split; [exact Hstka|]. split; [exact Hstkc|].
           exists h'. split; [reflexivity|]. split; [rewrite Hrun'; exact Hrun|]. split.
           ++ intros x Hx. apply Hincl, Hinc', Hx.
           ++ left. rewrite Hr. repeat split.
        -- rewrite Hta, nth_error_set_nth_neq in Ha2 by exact Hne.
           rewrite Htc, nth_error_set_nth_neq in Hc2 by exact Hne.
           rewrite nth_error_set_nth_neq in Hh2 by exact Hne.
           apply (i_thr _ _ HI i q tha' thc' ho Hq Ha2 Hc2 Hh2).
Qed.

Lemma arun_Inv : forall sch st sc st',
  Inv st sc -> arun sch st = Some st' -> exists sc', Inv st' sc'.
Proof.
  induction sch as [|t r IH]; intros st sc st' HI H.
  - cbn in H. inversion H; subst. exists sc. exact HI.
  - cbn [arun] in H. destruct (astep st t) as [st1|] eqn:E; [|discriminate].
    destruct (step_Inv st sc t st1 HI E) as (sc1 & HI1 & _). eapply IH; eassumption.
Qed.

(* THE REFINEMENT: under every interleaving of the operations of the modelled par.Cache, no
   handler panics, every handler follows the calls of its sequential run, and a handler that has
   returned holds the value it computes alone with the atomic specification. *)
Theorem event_level_same : forall sch st,
  arun sch (ainit ps) = Some st ->
  forall i p, nth_error ps i = Some p ->
  exists h, nth_error (hs st) i = Some (Some h) /\ run_own d h = run_own d p /\
            (forall r, h = Ret r -> r = run_own d p).
Proof.
  intros sch st Hrun i p Hp.
  destruct (arun_Inv sch (ainit ps) _ st init_Inv Hrun) as (sc & HI).
  assert (i < length ps) as Hlt by (eapply nth_error_lt; exact Hp).
  destruct (nth_error (thrs (acs st)) i) as [tha|] eqn:Ea;
    [|apply nth_error_None in Ea; rewrite (i_len1 _ _ HI) in Ea; lia].
  destruct (nth_error (thrs sc) i) as [thc|] eqn:Ec;
    [|apply nth_error_None in Ec; rewrite (i_len2 _ _ HI) in Ec; lia].
  destruct (nth_error (hs st) i) as [ho|] eqn:Eh;
    [|apply nth_error_None in Eh; rewrite (i_len3 _ _ HI) in Eh; lia].
  destruct (i_thr _ _ HI i p tha thc ho Hp Ea Ec Eh) as (_ & _ & _ & _ & h & Hho & Hr & _ & _).
  subst ho. exists h. split; [reflexivity|]. split; [exact Hr|].
  intros r Hret. subst h. cbn in Hr. exact Hr.
Qed.

(* the shared cache state of the event-level run is a reachable state of the Par model: its
   theorems (f at most once per key, race freedom, ...) hold of it *)
Theorem event_level_cache_reachable : forall sch st,
  arun sch (ainit ps) = Some st ->
  exists sc, creach sc /\ ents (acs st) = ents sc /\ plain (acs st) = plain sc.
Proof.
  intros sch st Hrun. destruct (arun_Inv sch (ainit ps) _ st init_Inv Hrun) as (sc & HI).
  exists sc. split; [apply (i_reach _ _ HI)|]. split; [apply (i_ents _ _ HI)|apply (i_plain _ _ HI)].
Qed.

(* progress: the event-level system does not deadlock.  In every reachable state either every
   handler has returned or some thread can take a step (from C10's cache_no_deadlock). *)
Definition returned (ho : option (prog A)) : Prop := exists r, ho = Some (Ret r).

Lemma calls_nil : forall h, calls h = [] -> exists r, h = Ret r.
Proof. intros [a|n k|n v k] H; [eexists; reflexivity|discriminate|discriminate]. Qed.

Theorem event_level_progress : forall sch st,
  arun sch (ainit ps) = Some st ->
  Forall returned (hs st) \/ exists t st', astep st t = Some st'.
Proof.
  intros sch st Hrun.
  destruct (arun_Inv sch (ainit ps) _ st init_Inv Hrun) as (sc & HI).
  assert (forall k dd : nat, In dd (deps0 k) -> (fun _ : nat => 0) dd < (fun _ : nat => 0) k) as Hacyc
    by (intros k dd []).
  destruct (cache_no_deadlock fval_id deps0 crash0 (map calls ps) (fun _ => 0) Hacyc (fun _ => eq_refl) sc (i_reach _ _ HI)) as [Hidle|(t & sc' & Hstep)].
  - left. apply Forall_forall. intros ho Hin.
    apply In_nth_error in Hin. destruct Hin as [i Hi].
    assert (i < length ps) as Hlt by (rewrite <- (i_len3 _ _ HI); eapply nth_error_lt; exact Hi).
    destruct (nth_error ps i) as [p|] eqn:Ep; [|apply nth_error_None in Ep; lia].
    destruct (nth_error (thrs (acs st)) i) as [tha|] eqn:Ea;
      [|apply nth_error_None in Ea; rewrite (i_len1 _ _ HI) in Ea; lia].
    destruct (nth_error (thrs sc) i) as [thc|] eqn:Ec;
      [|apply nth_error_None in Ec; rewrite (i_len2 _ _ HI) in Ec; lia].
    destruct (i_thr _ _ HI i p tha thc ho Ep Ea Ec Hi) as (_ & _ & _ & _ & h & Hho & _ & _ & Hcase).
    assert (tpc thc = Idle) as Hci.
    { unfold all_idle in Hidle. rewrite forallb_forall in Hidle.
      specialize (Hidle thc (nth_error_In _ _ Ec)). unfold is_idle in Hidle.
      destruct (tpc thc); try discriminate; reflexivity. }
    destruct Hcase as [(_ & Hpc & Hr)|(Hpc & key & h' & Hcur & _)].
    + rewrite Hci in Hpc.
      assert (calls h = []) as Hn.
      { destruct (calls h) as [|[k|k] r]; [reflexivity|discriminate|discriminate]. }
      destruct (calls_nil h Hn) as [r Hr']. exists r. subst. reflexivity.
    + rewrite Hpc, Hci in Hcur. discriminate.
  - right. exists t.
    unfold cstep in Hstep. destruct (nth_error (thrs sc) t) as [thc|] eqn:Ec; [|discriminate].
    assert (t < length ps) as Hlt by (rewrite <- (i_len2 _ _ HI); eapply nth_error_lt; exact Ec).
    destruct (nth_error ps t) as [p|] eqn:Ep; [|apply nth_error_None in Ep; lia].
    destruct (nth_error (thrs (acs st)) t) as [tha|] eqn:Ea;
      [|apply nth_error_None in Ea; rewrite (i_len1 _ _ HI) in Ea; lia].
    destruct (nth_error (hs st) t) as [ho|] eqn:Eh;
      [|apply nth_error_None in Eh; rewrite (i_len3 _ _ HI) in Eh; lia].
    destruct (i_thr _ _ HI t p tha thc ho Ep Ea Ec Eh) as (Hrest & _ & Hstka & Hstkc & h & Hho & _ & _ & Hcase).
    subst ho. unfold astep. rewrite Ea, Eh.
    destruct Hcase as [(Hai & Hpc & Hr)|(Hpc & key & h' & Hcur & Hnk & Hcn & Hr)].
    + rewrite Hai. cbn [is_idle_pc].
      destruct (next_key h) as [key|] eqn:Ek; [eexists; reflexivity|].
      exfalso. destruct h as [a|n k|n v k]; cbn in Ek; try discriminate.
      cbn in Hpc. rewrite Hpc in Hstep. discriminate.
    + assert (is_idle_pc (tpc tha) = false) as Hni by (destruct (tpc tha); cbn in Hcur; try discriminate; reflexivity).
      rewrite Hni.
      destruct (cstep_lockstep (acs st) sc t tha thc key (i_ents _ _ HI) (i_plain _ _ HI) Ea Ec Hpc Hcur Hstka Hstkc)
        as [[_ Hn]|(sa' & sc2 & u & Hsa & Hsc & _ & _ & Hta & _)].
      * unfold cstep in Hn. rewrite Ec in Hn. rewrite Hn in Hstep. discriminate.
      * rewrite Hsa. rewrite Hta.
        rewrite nth_error_set_nth_eq by (rewrite (i_len1 _ _ HI); exact Hlt).
        destruct (is_idle_pc (tpc (apply_upd tha u))); eexists; reflexivity.
Qed.

End Refine.

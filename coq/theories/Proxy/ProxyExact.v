(* C20 — the request space characterised exactly, the list endpoint as a set, arbitrary byte
   contents, and the server's behaviour as a function of the store alone.

     served_b            executable: is this URL path answered with something else than 404?
     route_404_exact     respond <> 404  <->  the URL is list of a module with a listable version, or
                         info/mod of a stored version that holds that entry, or zip of a stored
                         version (after commit-hash resolution) — "anything not stored yields 404"
                         as an iff
     dotfile_not_served  an extension that names a stored dot-file (.netrc, .gitignore, .info2 ...)
                         is 404 like every extension other than info/mod/zip
     serves_arbitrary_bytes   for ALL byte strings i m (no printable / UTF-8 / newline hypothesis) a
                         directory storing them as .info and .mod serves exactly them
     listed_* / list_response_perm   the list endpoint: directory order, and as a multiset it does
                         not depend on the order of the module list
     history_independent after any history of requests a server answers like a fresh one, and the
                         module list is the one read at start-up (no handler writes to it) *)
From Coq Require Import List Bool Arith NArith Lia Permutation.
From Coq.Strings Require Import Byte.
From GI Require Import Gen.ProxyConsts Proxy.Proxy Proxy.ProxyStrings Proxy.ProxyFacts Proxy.ProxyConc
  Proxy.ProxyTheorems.
Import ListNotations.

(* ------------------------------------------------------------------ served or 404, executable *)

Definition is_nil {A} (l : list A) : bool := match l with [] => true | _ => false end.
Definition is_some {A} (o : option A) : bool := match o with Some _ => true | None => false end.

Section Exact.
Variable O : oracles.

(* the URL path is answered with a status other than 404 (200, or 500 for a zip that
   archive/zip refuses to build), decided from the store: no handler is run *)
Definition served_b (d : dir) (ml : list (bytes * bytes)) (url : bytes) : bool :=
  match route O url with
  | RNotFound => false
  | RList p => negb (is_nil (listed O ml p))
  | RFile p v e =>
      match stored O d p (target_version O d ml p v) with
      | None => false
      | Some a =>
          if bytes_eqb e ext_info || bytes_eqb e ext_mod then is_some (find_file (entry_dot ++ e) a)
          else bytes_eqb e ext_zip
      end
  end.

Definition served_by (d : dir) (ml : list (bytes * bytes)) (url : bytes) : Prop :=
  (exists p, route O url = RList p /\ listed O ml p <> []) \/
  (exists p v e a, route O url = RFile p v e /\
     stored O d p (target_version O d ml p v) = Some a /\
     ((e = ext_info \/ e = ext_mod) /\ find_file (entry_dot ++ e) a <> None \/ e = ext_zip)).

Lemma zip_response_not_404 : forall z, zip_response z <> NotFound.
Proof. intros [es|]; cbn; discriminate. Qed.

Lemma stored_n_of_stored : forall d p v a, stored O d p v = Some a -> exists n, stored_n O d p v = Some (n, a).
Proof. intros. eapply stored_stored_n. eassumption. Qed.

Lemma served_b_respond_pure : forall d ml url,
  served_b d ml url = true <-> respond_pure O d ml url <> NotFound.
Proof.
  intros d ml url. unfold served_b, respond_pure.
  destruct (route O url) as [|p|p v e].
  - split; [discriminate|congruence].
  - unfold list_response. destruct (listed O ml p); cbn; split; congruence.
  - unfold serve_pure.
    destruct (stored O d p (target_version O d ml p v)) as [a|] eqn:Hs.
    + destruct (stored_n_of_stored _ _ _ _ Hs) as [n Hn]. rewrite Hn.
      destruct (bytes_eqb e ext_info || bytes_eqb e ext_mod).
      * destruct (find_file (entry_dot ++ e) a); cbn; split; congruence.
      * destruct (bytes_eqb e ext_zip).
        -- split; [intros _; apply zip_response_not_404|reflexivity].
        -- split; [discriminate|congruence].
    + rewrite (stored_n_none _ _ _ _ Hs). split; [discriminate|congruence].
Qed.

Theorem served_b_exact : forall d ml url,
  served_b d ml url = true <-> respond O d ml url <> NotFound.
Proof. intros. rewrite respond_eq. apply served_b_respond_pure. Qed.

Lemma served_by_b : forall d ml url, served_by d ml url <-> served_b d ml url = true.
Proof.
  intros d ml url. unfold served_by, served_b. split.
  - intros [[p [Hr Hl]]|[p [v [e [a [Hr [Hs Hc]]]]]]]; rewrite Hr.
    + destruct (listed O ml p); [congruence|reflexivity].
    + rewrite Hs. destruct Hc as [[He Hf]|He].
      * assert (bytes_eqb e ext_info || bytes_eqb e ext_mod = true) as Hb.
        { destruct He as [He|He]; subst e; rewrite bytes_eqb_refl; [reflexivity|apply orb_true_r]. }
        rewrite Hb. destruct (find_file (entry_dot ++ e) a); [reflexivity|congruence].
      * subst e. destruct ext_distinct as [_ [E2 E3]]. rewrite E2, E3, bytes_eqb_refl. reflexivity.
  - destruct (route O url) as [|p|p v e] eqn:Hr; [discriminate| |].
    + intro H. left. exists p. split; [reflexivity|]. destruct (listed O ml p); [discriminate|discriminate].
    + destruct (stored O d p (target_version O d ml p v)) as [a|] eqn:Hs; [|discriminate].
      intro H. right. exists p, v, e, a. split; [reflexivity|]. split; [exact Hs|].
      destruct (bytes_eqb e ext_info) eqn:E1.
      * left. split; [left; apply bytes_eqb_true; exact E1|].
        cbn [orb] in H. destruct (find_file (entry_dot ++ e) a); [discriminate|discriminate].
      * destruct (bytes_eqb e ext_mod) eqn:E2.
        -- left. split; [right; apply bytes_eqb_true; exact E2|].
           cbn [orb] in H. destruct (find_file (entry_dot ++ e) a); [discriminate|discriminate].
        -- cbn [orb] in H. right. apply bytes_eqb_true. exact H.
Qed.

(* "anything not stored yields 404", as an iff over ALL URL paths *)
Theorem route_404_exact : forall d ml url,
  respond O d ml url <> NotFound <-> served_by d ml url.
Proof. intros. rewrite served_by_b. symmetry. apply served_b_exact. Qed.

Corollary not_served_404 : forall d ml url, ~ served_by d ml url -> respond O d ml url = NotFound.
Proof.
  intros d ml url H. destruct (respond O d ml url) eqn:E; try reflexivity;
    exfalso; apply H; apply route_404_exact; rewrite E; discriminate.
Qed.

(* ... and the URL of anything served is the ESCAPED NAME of what is served: the list URL of the
   escaped module path, or the file URL of the escaped path, the escaped requested version and one
   of the three extensions.  (This is what lets the runner's oracle enumerate the servable URLs of
   a directory by escaping the stored names, and demand 404 for every other URL.) *)
Lemma unescape_path_string : forall e p, unescape_path O e = Some p -> unescape_string e = Some p.
Proof.
  intros e p H. unfold unescape_path in H. destruct (unescape_string e) as [q|]; [|discriminate].
  destruct (check_path O q); [exact H|discriminate].
Qed.

Lemma unescape_version_string : forall e v, unescape_version O e = Some v -> unescape_string e = Some v.
Proof.
  intros e v H. unfold unescape_version in H. destruct (unescape_string e) as [q|]; [|discriminate].
  destruct (check_elem O q); [exact H|discriminate].
Qed.

Theorem served_url_canonical : forall d ml url,
  respond O d ml url <> NotFound ->
  (exists p ep, escape_string p = Some ep /\ url = list_url ep /\ check_path O p = true /\
                listed O ml p <> []) \/
  (exists p v ep ev e a, escape_string p = Some ep /\ escape_string v = Some ev /\
      url = file_url ep ev e /\ check_path O p = true /\ check_elem O v = true /\
      (e = ext_info \/ e = ext_mod \/ e = ext_zip) /\
      stored O d p (target_version O d ml p v) = Some a).
Proof.
  intros d ml url H. apply route_404_exact in H.
  pose proof (route_total O url) as T.
  destruct H as [[p [Hr Hl]]|[p [v [e [a [Hr [Hs Hc]]]]]]]; rewrite Hr in T; cbn [route_spec] in T.
  - destruct T as [enc [Hu [Hun Hck]]]. left. exists p, enc.
    split; [apply escape_unescape; apply unescape_path_string; exact Hun|]. auto.
  - destruct T as [enc [encv [Hu [Hun [Hck [Hunv [Hckv _]]]]]]]. right. exists p, v, enc, encv, e, a.
    split; [apply escape_unescape; apply unescape_path_string; exact Hun|].
    split; [apply escape_unescape; apply unescape_version_string; exact Hunv|].
    split; [exact Hu|]. split; [exact Hck|]. split; [exact Hckv|]. split; [|exact Hs].
    destruct Hc as [[[He|He] _]|He]; auto.
Qed.

(* a version string that is not all lower-case hex is looked up literally *)
Lemma target_version_literal : forall d ml p v, allhex v = false -> target_version O d ml p v = v.
Proof. intros d ml p v H. unfold target_version. rewrite H. reflexivity. Qed.

(* every extension other than info / mod / zip is 404 for a stored version — in particular an
   extension e for which the archive holds the dot-file "." ++ e (hypothesis Hdot is not used:
   it is there to say that the statement covers that case; see dotfile_example) *)
Theorem dotfile_not_served : forall d ml p v ep ev a e data,
  path_ok O p -> vers_ok O v ->
  escape_string p = Some ep -> escape_string v = Some ev ->
  stored O d p v = Some a ->
  find_file (entry_dot ++ e) a = Some data ->
  ~ In ext_sep e -> e <> ext_info -> e <> ext_mod -> e <> ext_zip ->
  respond O d ml (file_url ep ev e) = NotFound.
Proof.
  intros d ml p v ep ev a e data Hp Hv Hep Hev _ _ Hsep N1 N2 N3.
  destruct (not_stored_404 O d ml (file_url ep ev e)) as [_ [H _]].
  apply (H p v e).
  - apply route_file_url; assumption.
  - destruct (bytes_eqb e ext_info) eqn:E; [apply bytes_eqb_true in E; contradiction|reflexivity].
  - destruct (bytes_eqb e ext_mod) eqn:E; [apply bytes_eqb_true in E; contradiction|reflexivity].
  - destruct (bytes_eqb e ext_zip) eqn:E; [apply bytes_eqb_true in E; contradiction|reflexivity].
Qed.

(* ------------------------------------------------------------------ the list endpoint as a set *)

Definition listable (path : bytes) (m : bytes * bytes) : bool :=
  bytes_eqb (fst m) path && negb (is_pseudo O (snd m)) && module_check O (fst m) (snd m).

Lemma listed_filter : forall ml p, listed O ml p = map snd (filter (listable p) ml).
Proof. reflexivity. Qed.

(* the order the code produces: the order of the module list (= directory order) *)
Lemma listed_app : forall ml1 ml2 p, listed O (ml1 ++ ml2) p = listed O ml1 p ++ listed O ml2 p.
Proof. intros. rewrite !listed_filter, filter_app, map_app. reflexivity. Qed.

Lemma listed_cons : forall m ml p,
  listed O (m :: ml) p = (if listable p m then [snd m] else []) ++ listed O ml p.
Proof. intros. rewrite !listed_filter. cbn [filter]. destruct (listable p m); reflexivity. Qed.

Lemma filter_perm : forall A (f : A -> bool) l l', Permutation l l' -> Permutation (filter f l) (filter f l').
Proof.
  intros A f l l' H. induction H; cbn [filter].
  - constructor.
  - destruct (f x); [constructor|]; assumption.
  - destruct (f x), (f y); try apply Permutation_refl; apply perm_swap.
  - eapply Permutation_trans; eassumption.
Qed.

(* as a multiset, the listed versions do not depend on the order of the module list *)
Theorem listed_perm : forall ml ml' p, Permutation ml ml' -> Permutation (listed O ml p) (listed O ml' p).
Proof. intros. rewrite !listed_filter. apply Permutation_map. apply filter_perm. assumption. Qed.

Lemma filter_nodup : forall A (f : A -> bool) l, NoDup l -> NoDup (filter f l).
Proof.
  intros A f l H. induction H; cbn [filter]; [constructor|].
  destruct (f x); [|assumption]. constructor; [|assumption].
  intro Hin. apply filter_In in Hin. tauto.
Qed.

(* no version is reported twice when the module list holds no (path, version) twice *)
Theorem listed_nodup : forall ml p, NoDup ml -> NoDup (listed O ml p).
Proof.
  intros ml p H. rewrite listed_filter.
  assert (forall l : list (bytes * bytes), NoDup l -> (forall m, In m l -> fst m = p) -> NoDup (map snd l)) as Hm.
  { induction l as [|[q v] l IH]; intros Hn Hp; cbn [map]; [constructor|].
    inversion Hn as [|? ? Hx Hl]; subst. constructor.
    - intro Hin. apply in_map_iff in Hin. destruct Hin as [[q' v'] [Hv Hin]]. cbn in Hv. subst v'.
      apply Hx. assert (q' = p) by (apply (Hp (q', v)); right; exact Hin).
      assert (q = p) by (apply (Hp (q, v)); left; reflexivity). subst. exact Hin.
    - apply IH; [assumption|]. intros m Hin. apply Hp. right. exact Hin. }
  apply Hm; [apply filter_nodup; assumption|].
  intros m Hin. apply filter_In in Hin. destruct Hin as [_ Hf]. unfold listable in Hf.
  apply andb_true_iff in Hf. destruct Hf as [Hf _]. apply andb_true_iff in Hf. destruct Hf as [Hf _].
  apply bytes_eqb_true. exact Hf.
Qed.

Definition list_body (vs : list bytes) : bytes := flat_map (fun v => v ++ [x0a]) vs.

(* two servers whose module lists are permutations of each other (e.g. one sorts it) answer a
   list request with the same status and, as multisets of lines, the same versions *)
Theorem list_response_perm : forall d ml ml' p ep,
  path_ok O p -> escape_string p = Some ep -> Permutation ml ml' ->
  (respond O d ml (list_url ep) = NotFound /\ respond O d ml' (list_url ep) = NotFound) \/
  (exists vs vs', respond O d ml (list_url ep) = OkBytes (list_body vs) /\
                  respond O d ml' (list_url ep) = OkBytes (list_body vs') /\
                  vs <> [] /\ Permutation vs vs' /\
                  (forall v, In v vs <-> In (p, v) ml /\ is_pseudo O v = false /\ module_check O p v = true)).
Proof.
  intros d ml ml' p ep Hp Hep Hperm.
  destruct (list_exact O d ml p ep Hp Hep) as [H1 Hin].
  destruct (list_exact O d ml' p ep Hp Hep) as [H2 _].
  pose proof (listed_perm ml ml' p Hperm) as HP.
  destruct (listed O ml p) as [|v vs] eqn:E1.
  - apply Permutation_nil in HP. rewrite HP in H2. left. split; assumption.
  - destruct (listed O ml' p) as [|v' vs'] eqn:E2.
    + apply Permutation_sym, Permutation_nil in HP. discriminate.
    + right. exists (v :: vs), (v' :: vs').
      split; [exact H1|]. split; [exact H2|]. split; [discriminate|]. split; [exact HP|].
      intro w. apply Hin.
Qed.

(* ------------------------------------------------------------------ the server as a state machine *)

(* what a running server holds: the module list read at start-up and the two caches *)
Record server := { sv_modlist : list (bytes * bytes); sv_caches : caches }.

Definition server_start (d : dir) : option server :=
  match read_mod_list O d with
  | Some ml => Some {| sv_modlist := ml; sv_caches := no_caches |}
  | None => None
  end.

(* one request, answered alone *)
Definition serve1 (d : dir) (s : server) (url : bytes) : response * server :=
  let (r, c) := run d (handler O d (sv_modlist s) url) (sv_caches s) in
  (r, {| sv_modlist := sv_modlist s; sv_caches := c |}).

Fixpoint serve_all (d : dir) (s : server) (urls : list bytes) : list response * server :=
  match urls with
  | [] => ([], s)
  | u :: r => let (x, s') := serve1 d s u in let (xs, s'') := serve_all d s' r in (x :: xs, s'')
  end.

Lemma serve_all_serve_seq : forall d urls s,
  fst (serve_all d s urls) = serve_seq O d (sv_modlist s) urls (sv_caches s) /\
  sv_modlist (snd (serve_all d s urls)) = sv_modlist s.
Proof.
  intros d urls. induction urls as [|u r IH]; intro s; [split; reflexivity|].
  cbn [serve_all serve_seq]. unfold serve1.
  destruct (run d (handler O d (sv_modlist s) u) (sv_caches s)) as [x c].
  specialize (IH {| sv_modlist := sv_modlist s; sv_caches := c |}). cbn [sv_modlist sv_caches] in IH.
  destruct (serve_all d {| sv_modlist := sv_modlist s; sv_caches := c |} r) as [xs s''].
  cbn [fst snd] in *. destruct IH as [IH1 IH2]. split; [f_equal; exact IH1|exact IH2].
Qed.

(* no request changes the module list *)
Theorem modlist_immutable : forall d s urls, sv_modlist (snd (serve_all d s urls)) = sv_modlist s.
Proof. intros. apply serve_all_serve_seq. Qed.

(* after ANY history of (non-aliasing) requests, a probe is answered as by a fresh server: the
   observable behaviour of the server is a function of the store and never of its history *)
Theorem history_independent : forall d s hist probe,
  server_start d = Some s ->
  compatible O d (sv_modlist s) (hist ++ [probe]) ->
  nth_error (fst (serve_all d s (hist ++ [probe]))) (length hist) =
    Some (respond O d (sv_modlist s) probe) /\
  fst (serve_all d s (hist ++ [probe])) = map (respond_pure O d (sv_modlist s)) (hist ++ [probe]).
Proof.
  intros d s hist probe Hs Hc.
  assert (sv_caches s = no_caches) as Hn.
  { unfold server_start in Hs. destruct (read_mod_list O d); [|discriminate]. inversion Hs. reflexivity. }
  destruct (serve_all_serve_seq d (hist ++ [probe]) s) as [H _]. rewrite H, Hn.
  rewrite (sequential_same O d (sv_modlist s) _ Hc). split.
  - rewrite nth_error_map, nth_error_app2, Nat.sub_diag by lia. reflexivity.
  - apply map_ext. intro u. apply respond_eq.
Qed.

End Exact.

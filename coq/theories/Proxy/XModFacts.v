(* C20 — with the Gallina x/mod (Proxy/XMod.v) as oracles, the side conditions path_ok / vers_ok
   of the theorems are computed facts: CheckPath / checkElem acceptance implies them. *)
From Coq Require Import List Bool Arith NArith Lia.
From Coq.Strings Require Import Byte.
From GI Require Import Gen.ProxyConsts Proxy.Regex Proxy.Proxy Proxy.ProxyStrings Proxy.ProxyFacts Proxy.ProxyConc
  Proxy.ProxyTheorems Proxy.XMod.
Import ListNotations.

Lemma split_byte_cover : forall c s x,
  In x s -> x = c \/ exists e, In e (split_byte c s) /\ In x e.
Proof.
  intros c s. induction s as [|y s IH]; intros x Hin; [contradiction|].
  cbn [split_byte]. destruct (beq y c) eqn:E.
  - destruct Hin as [H|H].
    + subst. left. apply beq_true. exact E.
    + destruct (IH x H) as [Hc|[e [He Hx]]]; [left; exact Hc|].
      right. exists e. split; [right; exact He|exact Hx].
  - destruct (split_byte c s) as [|h t] eqn:Es.
    + destruct Hin as [H|H].
      * subst. right. exists [x]. split; left; reflexivity.
      * destruct (IH x H) as [Hc|[e [[] _]]]. left. exact Hc.
    + destruct Hin as [H|H].
      * subst. right. exists (x :: h). split; left; reflexivity.
      * destruct (IH x H) as [Hc|[e [He Hx]]]; [left; exact Hc|].
        right. destruct He as [He|He].
        -- subst e. exists (y :: h). split; [left; reflexivity|right; exact Hx].
        -- exists e. split; [right; exact He|exact Hx].
Qed.

Lemma mod_path_ok_plain : forall c, mod_path_ok c = true -> is_ascii c = true /\ c <> bang /\ c <> at_mark.
Proof. intros c H. destruct c; cbn in H; try discriminate; repeat split; try reflexivity; vm_compute; discriminate. Qed.

Lemma slash_plain : is_ascii c_slash = true /\ c_slash <> bang /\ c_slash <> at_mark.
Proof. repeat split; vm_compute; discriminate. Qed.

Lemma file_name_ok_ascii : forall c, file_name_ok c = true -> is_ascii c = true.
Proof. intros c H. unfold file_name_ok in H. apply andb_true_iff in H. apply H. Qed.

(* module.CheckPath accepts p  ==>  p is ASCII, has no '!' and no '@' *)
Lemma check_path_x_chars : forall p x, check_path_x p = true -> In x p ->
  is_ascii x = true /\ x <> bang /\ x <> at_mark.
Proof.
  intros p x H Hin. unfold check_path_x in H.
  apply andb_true_iff in H. destruct H as [H _]. apply andb_true_iff in H. destruct H as [H _].
  unfold check_path_k in H. apply andb_true_iff in H. destruct H as [_ Hel].
  rewrite forallb_forall in Hel.
  destruct (split_byte_cover c_slash p x Hin) as [Hc|[e [He Hx]]].
  - subst. exact slash_plain.
  - specialize (Hel e He). unfold check_elem_k in Hel.
    repeat (apply andb_true_iff in Hel; destruct Hel as [Hel ?]).
    match goal with Hc : forallb (char_ok ModulePath) e = true |- _ =>
      rewrite forallb_forall in Hc; apply mod_path_ok_plain; apply (Hc x Hx) end.
Qed.

Theorem check_path_x_path_ok : forall short p, check_path_x p = true -> path_ok (xmod_oracles short) p.
Proof.
  intros short p H. unfold path_ok. split; [exact H|]. split.
  - unfold escapable. apply forallb_forall. intros x Hx.
    destruct (check_path_x_chars p x H Hx) as [Ha [Hb _]]. rewrite Ha. cbn.
    rewrite (beq_neq _ _ Hb). reflexivity.
  - intro Hin. destruct (check_path_x_chars p at_mark H Hin) as [_ [_ Hc]]. apply Hc. reflexivity.
Qed.

Theorem check_elem_x_vers_ok : forall short v,
  check_elem_x v = true -> mem_byte bang v = false -> vers_ok (xmod_oracles short) v.
Proof.
  intros short v H Hb. unfold vers_ok. split; [exact H|].
  unfold escapable. apply forallb_forall. intros x Hx.
  unfold check_elem_x, check_elem_k in H.
  repeat (apply andb_true_iff in H; destruct H as [H ?]).
  match goal with Hc : forallb (char_ok FilePath) v = true |- _ =>
    rewrite forallb_forall in Hc; rewrite (file_name_ok_ascii x (Hc x Hx)) end.
  cbn. rewrite beq_neq; [reflexivity|].
  intro; subst x. apply (proj1 (mem_byte_false_iff bang v) Hb). exact Hx.
Qed.

(* a valid semantic version is not a commit hash *)
Lemma semver_valid_not_hex : forall v, semver_is_valid v = true -> allhex v = false.
Proof.
  intros v H. unfold semver_is_valid, parse in H. destruct v as [|c v]; [discriminate|].
  destruct (beq c c_v) eqn:E; cbn [negb] in H; [|discriminate].
  apply beq_true in E. subst c. reflexivity.
Qed.

(* escapeString succeeds on what CheckPath / checkElem accept *)
Lemma escape_exists : forall s, escapable s = true -> exists e, escape_string s = Some e.
Proof. intros s H. unfold escape_string. rewrite H. eexists. reflexivity. Qed.

(* serves_stored with nothing but computed side conditions *)
Theorem serves_stored_xmod : forall short d ml p v a,
  check_path_x p = true -> semver_is_valid v = true -> check_elem_x v = true -> mem_byte bang v = false ->
  stored (xmod_oracles short) d p v = Some a ->
  exists ep ev, escape_string p = Some ep /\ escape_string v = Some ev /\
  let O := xmod_oracles short in
  respond O d ml (file_url ep ev ext_info) =
    (match find_file (entry_dot ++ ext_info) a with Some data => OkBytes data | None => NotFound end) /\
  respond O d ml (file_url ep ev ext_mod) =
    (match find_file (entry_dot ++ ext_mod) a with Some data => OkBytes data | None => NotFound end) /\
  respond O d ml (file_url ep ev ext_zip) = zip_response (build_zip p v a).
Proof.
  intros short d ml p v a Hp Hsv Hv Hb Hst.
  pose proof (check_path_x_path_ok short p Hp) as Hpo.
  pose proof (check_elem_x_vers_ok short v Hv Hb) as Hvo.
  destruct (escape_exists p (proj1 (proj2 Hpo))) as [ep Hep].
  destruct (escape_exists v (proj2 Hvo)) as [ev Hev].
  exists ep, ev. split; [exact Hep|]. split; [exact Hev|].
  destruct (serves_stored (xmod_oracles short) d ml p v ep ev a Hpo Hvo (semver_valid_not_hex v Hsv) Hep Hev Hst)
    as [H1 [H2 [H3 _]]].
  cbv zeta. repeat split; assumption.
Qed.

From Coq Require Import String.
Local Open Scope string_scope.

Example xmod_examples :
  check_path_x (lit "example.com/Foo/v2") = true /\ check_path_x (lit "example.com/Foo/v1") = false /\
  check_path_x (lit "gopkg.in/yaml.v2") = true /\ check_path_x (lit "Example.com/x") = false /\
  check_path_x (lit "example.com/con") = false /\ check_path_x (lit "example.com/x~1") = false /\
  check_path_x (lit "example.com/a@b") = false /\ check_path_x (lit "nodot/x") = false /\
  check_elem_x (lit "v1.0.0-Pre+x") = true /\ check_elem_x (lit "v1/x") = false /\ check_elem_x (lit "v1.") = false /\
  semver_is_valid (lit "v1.2.3-rc.1+meta") = true /\ semver_is_valid (lit "v1.2.3-01") = false /\
  semver_is_valid (lit "v1") = true /\ semver_canonical (lit "v1.2") = lit "v1.2.0" /\
  semver_compare (lit "v1.0.0-alpha") (lit "v1.0.0") = Lt /\ semver_compare (lit "v1.0.0-2") (lit "v1.0.0-11") = Lt /\
  semver_compare (lit "") (lit "v0.0.1") = Lt /\
  module_check_x (lit "example.com/Foo/v2") (lit "v2.1.0") = true /\
  module_check_x (lit "example.com/Foo") (lit "v2.1.0") = false /\
  module_check_x (lit "example.com/Foo") (lit "v2.1.0+incompatible") = true /\
  re_match pseudo_version_re (lit "v0.0.0-20180101000000-abcdef123456") = true /\
  re_match pseudo_version_re (lit "v1.2.4-0.20180101000000-abcdef123456+incompatible") = true /\
  re_match pseudo_version_re (lit "v1.2.3-20180101000000-abcdef123456") = false /\
  is_pseudo (xmod_oracles (fun x => x)) (lit "v1.2.4-pre.0.20180101000000-abcdef123456") = true.
Proof. vm_compute. repeat split. Qed.

(* C20 — examples: concrete values satisfying the hypotheses of the theorems (non-vacuity),
   evaluations of the model, and the aliasing example that shows why [compatible] is needed. *)
From Coq Require Import List Bool Arith NArith Lia String.
From Coq.Strings Require Import Byte.
From GI Require Import Gen.ProxyConsts Proxy.Proxy Proxy.ProxyStrings Proxy.ProxyFacts Proxy.ProxyConc.
Import ListNotations.
Local Open Scope string_scope.

Definition b (s : string) : bytes := list_byte_of_string s.

(* a small oracle: paths and versions are accepted when ASCII without '!' and '@'; versions are
   valid when they start with "v"; pseudo = two dashes; order = by length then nothing;
   Short = the whole .info file *)
Fixpoint lex_lt (x y : bytes) : bool :=
  match x, y with
  | _, [] => false
  | [], _ :: _ => true
  | c :: x', e :: y' =>
      if N.ltb (Byte.to_N c) (Byte.to_N e) then true
      else if N.ltb (Byte.to_N e) (Byte.to_N c) then false else lex_lt x' y'
  end.

Definition O0 : oracles := {|
  check_path := fun p => escapable p && negb (mem_byte x40 p) && negb (match p with [] => true | _ => false end);
  check_elem := fun v => forallb is_ascii v && negb (match v with [] => true | _ => false end);
  module_check := fun _ v => has_prefix (b "v") v;
  semver_valid := fun v => has_prefix (b "v") v;
  pseudo_re := fun v => Nat.leb 2 (count_byte x2d v);
  semver_lt := fun x y => has_prefix (b "v") y && lex_lt x y;
  info_short := fun data => data
|}.

Definition arch1 : archive :=
  [(b ".info", b "abc123"); (b ".mod", b "module example.com/Foo
"); (b "x.go", b "package x
");
   (b ".hidden", b "h"); (b "sub/y.go", b "y")].

Definition d0 : dir :=
  [ (b "README", EFile []);
    (b "example.com_!foo_v0.0.0-2018-abcdef.txtar", EFile [(b ".mod", b "m0")]);
    (b "example.com_!foo_v1.0.0.txt", EFile arch1);
    (b "example.com_!foo_v1.1.0",
       EDir [(b ".info", NFile (b "fff")); (b ".mod", NFile (b "m11")); (b "a", NDir [(b "b.txt", NFile (b "B")); (b "c", NDir [])]); (b "z", NFile [])]) ].

Definition ml0 : list (bytes * bytes) :=
  [(b "example.com/Foo", b "v0.0.0-2018-abcdef"); (b "example.com/Foo", b "v1.0.0"); (b "example.com/Foo", b "v1.1.0")].

Example read_mod_list_d0 : read_mod_list O0 d0 = Some ml0.
Proof. vm_compute. reflexivity. Qed.

(* hypotheses of serves_stored / list_exact are satisfiable *)
Example hyps_d0 :
  path_ok O0 (b "example.com/Foo") /\ vers_ok O0 (b "v1.0.0") /\ allhex (b "v1.0.0") = false /\
  escape_string (b "example.com/Foo") = Some (b "example.com/!foo") /\
  escape_string (b "v1.0.0") = Some (b "v1.0.0") /\
  stored O0 d0 (b "example.com/Foo") (b "v1.0.0") = Some arch1 /\
  (forall f, In f (visible arch1) -> zip_entry_bad (zip_name (b "example.com/Foo") (b "v1.0.0") (fst f)) (snd f) = false).
Proof.
  repeat split; try (vm_compute; reflexivity).
  - vm_compute. intuition discriminate.
  - intros f Hf. vm_compute in Hf. destruct Hf as [H|[H|[]]]; subst f; vm_compute; reflexivity.
Qed.

Example respond_d0 :
  respond O0 d0 ml0 (b "/mod/example.com/!foo/@v/v1.0.0.info") = OkBytes (b "abc123") /\
  respond O0 d0 ml0 (b "/mod/example.com/!foo/@v/v1.0.0.zip") =
    OkZip [(b "example.com/Foo@v1.0.0/x.go", b "package x
"); (b "example.com/Foo@v1.0.0/sub/y.go", b "y")] /\
  respond O0 d0 ml0 (b "/mod/example.com/!foo/@v/v1.1.0.zip") =
    OkZip [(b "example.com/Foo@v1.1.0/a/b.txt", b "B"); (b "example.com/Foo@v1.1.0/z", [])] /\
  respond O0 d0 ml0 (b "/mod/example.com/!foo/@v/v0.0.0-2018-abcdef.info") = NotFound /\
  respond O0 d0 ml0 (b "/mod/example.com/!foo/@v/list") = OkBytes (b "v1.0.0
v1.1.0
") /\
  (* commit hashes: "abc" is a prefix of the Short of v1.0.0; "abcdef" ends the pseudo-version *)
  respond O0 d0 ml0 (b "/mod/example.com/!foo/@v/abc.mod") = OkBytes (b "module example.com/Foo
") /\
  respond O0 d0 ml0 (b "/mod/example.com/!foo/@v/abcdef.mod") = OkBytes (b "m0") /\
  respond O0 d0 ml0 (b "/mod/example.com/Foo/@v/v1.0.0.info") = NotFound /\
  respond O0 d0 ml0 (b "/mod/example.com/!foo/@v/v1.0.0.ziphash") = NotFound /\
  respond O0 d0 ml0 (b "/mod/example.com/!foo/@v/v1.2.0.mod") = NotFound /\
  respond O0 d0 ml0 (b "/mod/example.com/!foo/sub/@v/list") = NotFound /\
  respond O0 d0 ml0 (b "/example.com/!foo/@v/list") = NotFound.
Proof. vm_compute. repeat split. Qed.

Example route_d0 :
  route O0 (b "/mod/example.com/!foo/@v/v1.0.0.info") = RFile (b "example.com/Foo") (b "v1.0.0") (b "info") /\
  route O0 (b "/mod/example.com/!foo/@v/list") = RList (b "example.com/Foo") /\
  route O0 (b "/mod/a.b/@v/x/@v/v1.mod") = RFile (b "a.b") (b "x/@v/v1") (b "mod") /\
  route O0 (b "/mod/a.b/@v/v1") = RNotFound /\ route O0 (b "/mod/a.b/@v") = RNotFound /\
  route O0 (b "/mod/a.!/@v/list") = RNotFound.
Proof. vm_compute. repeat split. Qed.

(* a stored version whose .info has no Short field (here: no .info at all) answers for NO commit
   hash (corrected behaviour; the unfixed code matched it with every hash because
   strings.HasPrefix(vers, "") holds, and served v1.1.0 for all three requests below) *)
Definition d2 : dir :=
  [ (b "a.b_v1.0.0.txt", EFile [(b ".info", b "abc123"); (b ".mod", b "m10")]);
    (b "a.b_v1.1.0.txt", EFile [(b ".mod", b "m11")]) ].

Example empty_short_matches_no_hash :
  read_mod_list O0 d2 = Some [(b "a.b", b "v1.0.0"); (b "a.b", b "v1.1.0")] /\
  respond O0 d2 [(b "a.b", b "v1.0.0"); (b "a.b", b "v1.1.0")] (b "/mod/a.b/@v/abc.mod") = OkBytes (b "m10") /\
  respond O0 d2 [(b "a.b", b "v1.0.0"); (b "a.b", b "v1.1.0")] (b "/mod/a.b/@v/0123456789.mod") = NotFound /\
  respond O0 d2 [(b "a.b", b "v1.0.0"); (b "a.b", b "v1.1.0")] (b "/mod/a.b/@v/f.mod") = NotFound.
Proof. vm_compute. repeat split. Qed.

(* concurrency: three handlers (two of them for the same zip), one explicit interleaving *)
Definition urls0 : list bytes :=
  [b "/mod/example.com/!foo/@v/v1.0.0.zip"; b "/mod/example.com/!foo/@v/abc.zip"; b "/mod/example.com/!foo/@v/v1.1.0.zip"].

Example urls0_compatible : compatible O0 d0 ml0 urls0.
Proof.
  apply no_alias_compatible. intros u Hu. destruct Hu as [H|[H|[H|[]]]]; subst u;
    vm_compute; split; intuition discriminate.
Qed.

Example interleaving_d0 :
  let sched := [1; 0; 2; 1; 0; 2; 1; 1; 0; 2; 1; 1; 0] in
  fst (run_sched d0 sched (map (handler O0 d0 ml0) urls0) no_caches) =
  map (fun u => Ret (respond O0 d0 ml0 u)) urls0.
Proof. vm_compute. reflexivity. Qed.

(* aliasing: the archive example.com_a_b_v1.0.0.txt answers for the paths example.com/a_b and
   example.com/a/b; the zip cache keeps the prefix of whichever asked first, so the second
   response depends on the history.  [compatible] excludes exactly this. *)
Definition d1 : dir := [(b "example.com_a_b_v1.0.0.txt", EFile [(b "x.go", b "package x")])].
Definition ml1 : list (bytes * bytes) := [(b "example.com/a/b", b "v1.0.0")].
Definition alias_urls : list bytes := [b "/mod/example.com/a_b/@v/v1.0.0.zip"; b "/mod/example.com/a/b/@v/v1.0.0.zip"].

Example read_mod_list_d1 : read_mod_list O0 d1 = Some ml1.
Proof. vm_compute. reflexivity. Qed.

Example alias_history_dependent :
  serve_seq O0 d1 ml1 alias_urls no_caches <> map (respond O0 d1 ml1) alias_urls /\
  ~ compatible O0 d1 ml1 alias_urls.
Proof.
  split.
  - vm_compute. discriminate.
  - intro Hc. apply (sequential_same O0 d1 ml1 alias_urls) in Hc. revert Hc. vm_compute. discriminate.
Qed.

(* ------------------------------------------------------------------ the event-level run on the modelled
   par.Cache (ProxyRefine.v).  (The keys of ProxyRefineInst.v are base-256 codes of the archive
   names, far too large to evaluate in unary; for this evaluation the three archive names of d0
   are numbered 0, 1, 2.)  A round-robin scheduler that skips threads that cannot step (blocked
   in Lock, or returned) produces a schedule; under it every handler returns the fresh-server
   response, and the Do calls for the zip of v1.0.0 (two requests) ran f once. *)
From GI Require Import Proxy.ProxyRefine Proxy.ProxyRefineInst.
From GI Require Import Par.ParCache.

Section EventExample.
Let names0 : list bytes :=
  [b "example.com_!foo_v0.0.0-2018-abcdef"; b "example.com_!foo_v1.0.0"; b "example.com_!foo_v1.1.0"].
Fixpoint idx_of (l : list bytes) (n : bytes) : nat :=
  match l with
  | [] => 0
  | m :: r => if bytes_eqb m n then 0 else S (idx_of r n)
  end.
Let ka0 (n : bytes) : nat := 2 * idx_of names0 n.
Let kz0 (n : bytes) : nat := 2 * idx_of names0 n + 1.
Let name0 (k : nat) : bytes := nth (Nat.div k 2) names0 [].
Let Zf0 := zip_of (flat_map (zip_ops d0) (map (handler O0 d0 ml0) urls0)).
Let astep0 := astep response d0 ka0 kz0 name0 Zf0.

Fixpoint rr_sched (fuel : nat) (next : nat) (st : astate response) : list nat :=
  match fuel with
  | 0 => []
  | S f =>
      let try := fun t => match astep0 st t with Some st' => Some (t, st') | None => None end in
      let order := [Nat.modulo next 3; Nat.modulo (next + 1) 3; Nat.modulo (next + 2) 3] in
      match fold_left (fun acc t => match acc with Some r => Some r | None => try t end) order None with
      | Some (t, st') => t :: rr_sched f (t + 1) st'
      | None => []
      end
  end.

Definition sched0 : list nat := rr_sched 400 0 (ainit response (map (handler O0 d0 ml0) urls0)).

Example event_level_d0 :
  match arun response d0 ka0 kz0 name0 Zf0 sched0 (ainit response (map (handler O0 d0 ml0) urls0)) with
  | Some st =>
      hs response st = map (fun u => Some (Ret (respond O0 d0 ml0 u))) urls0 /\
      Nat.leb 60 (List.length sched0) = true /\
      fbegins (ents (acs response st) (kz0 (b "example.com_!foo_v1.0.0"))) = 1 /\
      fbegins (ents (acs response st) (ka0 (b "example.com_!foo_v1.0.0"))) = 1
  | None => False
  end.
Proof. vm_compute. repeat split. Qed.
End EventExample.

(* The library calls of goproxytest/pseudo.go and proxy.go for the translation Gen/ProxySrc.v
   (table: harness/cmd/genconsts/gen_proxy_src.go).  Definitions only; each is DEFINED as the
   function the hand-written model already uses for the same call (Proxy/Proxy.v, Proxy/XMod.v,
   Proxy/Regex.v), all of which the runner of harness/cmd/proxy compares with the real
   packages (cross-checks "xmod:*" for x/mod, semver and the regexp; the string functions
   through every routed URL and every directory name of the differential run), or as a
   function of Lib/GoSemData.v (fmt), TxtarWrite/Path.v (filepath.Join, validated by the runner
   of harness/cmd/txtarwrite). *)
From Coq Require Import List ZArith Bool.
From Coq.Strings Require Import Byte.
From GI Require Import Lib.Bytes Lib.GoSem Lib.GoSemData Proxy.Regex Proxy.Proxy Proxy.XMod.
From GI Require TxtarWrite.Path.
Import ListNotations.

(* strings.Count(s, substr): modelled for a substring of exactly one byte (the number of its
   occurrences); any other use is outside the modelled domain *)
Definition go_strings_Count (s sep : bytes) : res Z :=
  match sep with
  | [c] => Ok (Z.of_nat (count_byte c s))
  | _ => Panic
  end.

(* semver.IsValid(v) (golang.org/x/mod/semver) *)
Definition go_semver_IsValid (v : bytes) : bool := semver_is_valid v.

(* re.MatchString(s) for a compiled regular expression re, given as the term of Proxy/Regex.v
   that genconsts makes from the expression's regexp/syntax parse tree *)
Definition go_regexp_MatchString (re : regex) (s : bytes) : bool := re_match re s.

(* ------------------------------------------------------------------ strings (proxy.go)
   each is the function of Proxy/Proxy.v that the model uses for the same call *)

(* strings.HasPrefix(s, p), strings.HasSuffix(s, p) *)
Definition go_strings_HasPrefix (s p : bytes) : bool := Proxy.has_prefix p s.
Definition go_strings_HasSuffix (s p : bytes) : bool := Proxy.has_suffix p s.
(* strings.TrimPrefix(s, p), strings.TrimSuffix(s, p) *)
Definition go_strings_TrimPrefix (s p : bytes) : bytes :=
  if Proxy.has_prefix p s then skipn (length p) s else s.
Definition go_strings_TrimSuffix (s p : bytes) : bytes := Proxy.trim_suffix p s.
(* strings.Index(s, sep), strings.LastIndex(s, sep): -1 when sep does not occur *)
Definition go_strings_Index (s sep : bytes) : Z := opt_pos (Proxy.index sep s).
Definition go_strings_LastIndex (s sep : bytes) : Z := opt_pos (Proxy.last_index sep s).
(* strings.ReplaceAll(s, old, new): modelled for old and new of exactly one byte; any other use
   is outside the modelled domain *)
Definition go_strings_ReplaceAll (s old new : bytes) : res bytes :=
  match old, new with
  | [a], [b] => Ok (Proxy.replace_byte a b s)
  | _, _ => Panic
  end.

(* ------------------------------------------------------------------ golang.org/x/mod
   module.UnescapePath / UnescapeVersion / EscapePath / EscapeVersion return ("", err) on
   failure; an error is the bool "is not nil".  They are the model's functions over the
   computed oracles of Proxy/XMod.v (CheckPath, checkElem as modelled there). *)
Definition xmod_O : oracles := xmod_oracles (fun _ => []).

Definition go_opt_err (o : option bytes) : bytes * bool :=
  match o with Some s => (s, false) | None => ([], true) end.

Definition go_module_UnescapePath (enc : bytes) : bytes * bool := go_opt_err (unescape_path xmod_O enc).
Definition go_module_UnescapeVersion (enc : bytes) : bytes * bool := go_opt_err (unescape_version xmod_O enc).
Definition go_module_EscapePath (p : bytes) : bytes * bool := go_opt_err (escape_path xmod_O p).
Definition go_module_EscapeVersion (v : bytes) : bytes * bool := go_opt_err (escape_version xmod_O v).
(* module.Check(path, version) != nil *)
Definition go_module_Check (p v : bytes) : bool := negb (module_check_x p v).
(* semver.Compare(v, w): -1, 0, +1 *)
Definition go_semver_Compare (v w : bytes) : Z :=
  match semver_compare v w with Lt => (-1)%Z | Eq => 0%Z | Gt => 1%Z end.

(* ------------------------------------------------------------------ values of library and
   package types, as far as the translated segments read them *)

(* fs.DirEntry: the name and whether it is a directory *)
Definition go_direntry : Type := (bytes * bool)%type.
Definition go_direntry_Name (e : go_direntry) : bytes := fst e.
Definition go_direntry_IsDir (e : go_direntry) : bool := snd e.

(* *url.URL and *http.Request: the path of the URL *)
Definition go_url : Type := bytes.
Definition mkURL (p : bytes) : go_url := p.
Definition url_Path (u : go_url) : bytes := u.
Definition go_request : Type := go_url.
Definition mkRequest (u : go_url) : go_request := u.
Definition req_URL (r : go_request) : go_url := r.

(* txtar.Archive *)
Record go_archive := mkArchive { ar_comment : bytes; ar_files : list (bytes * bytes) }.

(* goproxytest.Server: the directory name, the module list, and -- in the place of the field
   archiveCache, which together with the (read-only) directory determines it -- what findHash
   returns for a module version (findHash reads archive files and calls json.Unmarshal: an
   oracle; Proxy/SrcSegFacts.v instantiates it with the translated .info selection of findHash
   applied to the archive the model stores) *)
Record go_server := mkServer {
  srv_dir : bytes;
  srv_modList : list (bytes * bytes);
  srv_archives : (bytes * bytes) -> bytes
}.
(* srv.findHash(m) *)
Definition srv_findHash (s : go_server) (m : bytes * bytes) : bytes := srv_archives s m.

(* ------------------------------------------------------------------ net/http
   An http.ResponseWriter is denoted by the response written so far: the status (0 = no header
   written yet) and the body.  w.Write(p) writes the header 200 first if none was written;
   http.Error(w, msg, code) is WriteHeader(code) -- without effect on the status when a header
   was already written -- followed by Fprintln(w, msg); http.NotFound(w, r) is
   http.Error(w, "404 page not found", 404).  (Header fields are not denoted.)  The runner
   compares the status and the body of every response with the model's. *)
Record go_response := mkResponse { rw_status : Z; rw_body : bytes }.
Definition go_response_empty : go_response := mkResponse 0 [].

Definition go_http_Write (w : go_response) (p : bytes) : go_response :=
  mkResponse (if (rw_status w =? 0)%Z then 200%Z else rw_status w) (rw_body w ++ p).
Definition go_http_Error (w : go_response) (msg : bytes) (code : Z) : go_response :=
  mkResponse (if (rw_status w =? 0)%Z then code else rw_status w) (rw_body w ++ msg ++ [x0a]).
Definition not_found_text : bytes :=
  [x34; x30; x34; x20; x70; x61; x67; x65; x20; x6e; x6f; x74; x20; x66; x6f; x75; x6e; x64].
Definition go_http_NotFound (w : go_response) (r : go_request) : go_response :=
  go_http_Error w not_found_text 404%Z.
(* fmt.Fprintf(w, format, args...) on a ResponseWriter: w.Write of the formatted text *)
Definition go_fmt_Fprintf (w : go_response) (f : bytes) (args : list fmt_arg) : res go_response :=
  bind (go_fmt_Sprintf f args) (fun t => Ok (go_http_Write w t)).
(* err.Error(): error texts are not observable (an error is the bool "is not nil") *)
Definition go_error_Error (e : bool) : bytes := [].

(* ------------------------------------------------------------------ path/filepath *)

(* filepath.Join(elem...), modelled for two elements; any other use is outside the modelled
   domain *)
Definition go_filepath_Join (elems : list bytes) : res bytes :=
  match elems with
  | [a; b] => Ok (TxtarWrite.Path.join a b)
  | _ => Panic
  end.
(* filepath.ToSlash(p): the identity on Unix (os.PathSeparator = '/') *)
Definition go_filepath_ToSlash (p : bytes) : bytes := TxtarWrite.Path.to_slash p.

(* The library calls of goproxytest/pseudo.go for the translation Gen/ProxySrc.v (table:
   harness/cmd/genconsts/gen_proxy_src.go).  Definitions only; each is DEFINED as the function
   the hand-written model already uses for the same call (Proxy/Proxy.v, Proxy/XMod.v,
   Proxy/Regex.v), all of which the runner of harness/cmd/proxy compares with the real
   packages (cross-checks "xmod:*"). *)
From Coq Require Import List ZArith.
From Coq.Strings Require Import Byte.
From GI Require Import Lib.Bytes Lib.GoSem Proxy.Regex Proxy.Proxy Proxy.XMod.
Import ListNotations.

(* strings.Count(s, substr): modelled for a substring of exactly one byte (the number of its
   occurrences); any other use is outside the modelled domain *)
Definition go_strings_Count (s sep : bytes) : res Z :=
  match sep with
  | [c] => Ok (Z.of_nat (count_byte c s))
  | _ => Panic
  end.

(* semver.IsValid(v) (golang.org/x/mod/semver) *)
Definition go_semver_IsValid (v : bytes) : bool := semver_is_valid v.

(* re.MatchString(s) for a compiled regular expression re, given as the term of Proxy/Regex.v
   that genconsts makes from the expression's regexp/syntax parse tree *)
Definition go_regexp_MatchString (re : regex) (s : bytes) : bool := re_match re s.

(* C20 — the property theorems in their final form (about [respond], the response of a freshly
   started server whose caches compute each key once). *)
From Coq Require Import List Bool Arith NArith Lia.
From Coq.Strings Require Import Byte.
From GI Require Import Gen.ProxyConsts Proxy.Proxy Proxy.ProxyStrings Proxy.ProxyFacts Proxy.ProxyConc.
Import ListNotations.

Section Theorems.
Variable O : oracles.

Theorem serves_stored : forall d ml p v ep ev a,
  path_ok O p -> vers_ok O v -> allhex v = false ->
  escape_string p = Some ep -> escape_string v = Some ev ->
  stored O d p v = Some a ->
  respond O d ml (file_url ep ev ext_info) =
    (match find_file (entry_dot ++ ext_info) a with Some data => OkBytes data | None => NotFound end) /\
  respond O d ml (file_url ep ev ext_mod) =
    (match find_file (entry_dot ++ ext_mod) a with Some data => OkBytes data | None => NotFound end) /\
  respond O d ml (file_url ep ev ext_zip) = zip_response (build_zip p v a) /\
  ((forall f, In f (visible a) -> zip_entry_bad (zip_name p v (fst f)) (snd f) = false) ->
   respond O d ml (file_url ep ev ext_zip) = OkZip (zip_entries p v a)).
Proof. intros. rewrite !respond_eq. apply serves_stored_pure; assumption. Qed.

Theorem list_exact : forall d ml p ep,
  path_ok O p -> escape_string p = Some ep ->
  respond O d ml (list_url ep) =
    (match listed O ml p with
     | [] => NotFound
     | vs => OkBytes (flat_map (fun v => v ++ [x0a]) vs)
     end) /\
  (forall v, In v (listed O ml p) <->
     In (p, v) ml /\ is_pseudo O v = false /\ module_check O p v = true).
Proof.
  intros d ml p ep Hp Hep. split.
  - rewrite respond_eq. apply list_exact_pure; assumption.
  - intro v. apply listed_in.
Qed.

Theorem not_stored_404 : forall d ml url,
  (route O url = RNotFound -> respond O d ml url = NotFound) /\
  (forall p v e, route O url = RFile p v e ->
     bytes_eqb e ext_info = false -> bytes_eqb e ext_mod = false -> bytes_eqb e ext_zip = false ->
     respond O d ml url = NotFound) /\
  (forall p v e, route O url = RFile p v e -> (forall v', stored O d p v' = None) ->
     respond O d ml url = NotFound) /\
  (forall p v e, route O url = RFile p v e -> allhex v = false -> stored O d p v = None ->
     respond O d ml url = NotFound) /\
  (forall p, route O url = RList p ->
     (forall v, In (p, v) ml -> is_pseudo O v = true \/ module_check O p v = false) ->
     respond O d ml url = NotFound).
Proof. intros d ml url. rewrite respond_eq. apply not_stored_404_pure. Qed.

Theorem served_is_stored : forall d ml url,
  respond O d ml url <> NotFound ->
  (exists p v, route O url = RList p /\ In v (listed O ml p)) \/
  (exists p v e a, route O url = RFile p v e /\
     stored O d p (target_version O d ml p v) = Some a /\
     ((e = ext_info \/ e = ext_mod) /\ find_file (entry_dot ++ e) a <> None \/ e = ext_zip)).
Proof. intros d ml url. rewrite respond_eq. apply served_is_stored_pure. Qed.

(* the central directory of the zip served for a stored version: one record per stored file whose
   name does not start with ".", in archive order, named path@vers/name, with the CRC-32 and the
   length of the stored data *)
Theorem zip_central_directory : forall crc d ml p v ep ev a,
  path_ok O p -> vers_ok O v -> allhex v = false ->
  escape_string p = Some ep -> escape_string v = Some ev ->
  stored O d p v = Some a ->
  (forall f, In f (visible a) -> zip_entry_bad (zip_name p v (fst f)) (snd f) = false) ->
  exists es, respond O d ml (file_url ep ev ext_zip) = OkZip es /\
    central_directory crc es = map (fun f => cd_of crc (zip_name p v (fst f), snd f)) (visible a) /\
    map cd_name (central_directory crc es) = map (fun f => zip_name p v (fst f)) (visible a) /\
    map cd_size (central_directory crc es) = map (fun f => N.of_nat (length (snd f))) (visible a) /\
    map cd_crc (central_directory crc es) = map (fun f => crc (snd f)) (visible a).
Proof.
  intros crc d ml p v ep ev a Hp Hv Hh Hep Hev Hst Hok.
  destruct (serves_stored d ml p v ep ev a Hp Hv Hh Hep Hev Hst) as [_ [_ [_ H]]].
  exists (zip_entries p v a). split; [apply H; exact Hok|].
  unfold central_directory, zip_entries. rewrite !map_map. repeat split; reflexivity.
Qed.

End Theorems.

(* C20 — the two par.Caches: a handler run alone on a fresh server, on a server that has
   answered other requests, or interleaved with other handlers gives the same response.

   What is assumed of par.Cache is its specification [cache_do] (Proxy.v): Do(key, f) is atomic and
   returns the value computed by the first call for that key.  That par.Cache.Do implements this
   specification under every interleaving is property C10 (group Par); here it is the semantics
   of the operations [ArchDo] / [ZipDo]. *)
From Coq Require Import List Bool Arith NArith Lia.
From Coq.Strings Require Import Byte.
From GI Require Import Gen.ProxyConsts Proxy.Proxy Proxy.ProxyStrings Proxy.ProxyFacts.
Import ListNotations.

Section Conc.
Variable d : dir.

(* a set of zip-cache operations in which the key determines the value *)
Definition functional (Z : list (bytes * zipres)) : Prop :=
  forall n v1 v2, In (n, v1) Z -> In (n, v2) Z -> v1 = v2.

(* cache states reachable while only operations of Z (and archive reads) are performed *)
Definition inv (Z : list (bytes * zipres)) (st : caches) : Prop :=
  (forall n r, cache_get (arch_cache st) n = Some r -> r = lookup_archive d n) /\
  (forall n v, cache_get (zip_cache st) n = Some v -> In (n, v) Z).

Lemma inv_no_caches : forall Z, inv Z no_caches.
Proof. intro Z. split; intros n r H; cbn in H; discriminate. Qed.

Lemma cache_get_cons : forall V (c : list (bytes * V)) k v k',
  cache_get ((k, v) :: c) k' = if bytes_eqb k k' then Some v else cache_get c k'.
Proof. reflexivity. Qed.

(* one step of a program *)
Lemma step_inv : forall A Z (p : prog A) st,
  functional Z -> inv Z st -> incl (zip_ops d p) Z ->
  inv Z (snd (step d p st)) /\
  incl (zip_ops d (fst (step d p st))) Z /\
  run_own d (fst (step d p st)) = run_own d p.
Proof.
  intros A Z p st Hf [Ha Hz] Hin. destruct p as [a|n k|n v k].
  - cbn. repeat split; assumption.
  - cbn [step]. unfold cache_do. destruct (cache_get (arch_cache st) n) as [r|] eqn:Eg.
    + cbn [fst snd]. rewrite (Ha _ _ Eg). repeat split; try assumption.
    + cbn [fst snd]. repeat split; try assumption.
      cbn [arch_cache]. intros n' r' H. rewrite cache_get_cons in H.
      destruct (bytes_eqb n n') eqn:E.
      * apply bytes_eqb_true in E. subst n'. inversion H. reflexivity.
      * apply Ha. exact H.
  - cbn [step]. unfold cache_do.
    assert (In (n, v) Z) as Hnv by (apply Hin; cbn; left; reflexivity).
    assert (incl (zip_ops d (k v)) Z) as Hk by (intros x Hx; apply Hin; cbn; right; exact Hx).
    destruct (cache_get (zip_cache st) n) as [v'|] eqn:Eg.
    + cbn [fst snd]. pose proof (Hf _ _ _ (Hz _ _ Eg) Hnv) as Heq. subst v'.
      repeat split; assumption.
    + cbn [fst snd]. repeat split; try assumption.
      cbn [zip_cache]. intros n' v' H. rewrite cache_get_cons in H.
      destruct (bytes_eqb n n') eqn:E.
      * apply bytes_eqb_true in E. subst n'. inversion H; subst. exact Hnv.
      * apply Hz. exact H.
Qed.

(* a program run alone from any such state *)
Lemma run_inv : forall A Z (p : prog A) st,
  functional Z -> inv Z st -> incl (zip_ops d p) Z ->
  fst (run d p st) = run_own d p /\ inv Z (snd (run d p st)).
Proof.
  intros A Z p. induction p as [a|n k IH|n v k IH]; intros st Hf Hi Hin.
  - cbn. split; [reflexivity|exact Hi].
  - pose proof (step_inv A Z (ArchDo n k) st Hf Hi Hin) as [Hi' [Hin' Hr']].
    cbn [step] in Hi', Hin', Hr'. cbn [run].
    destruct (cache_do (arch_cache st) n (lookup_archive d n)) as [r c]. cbn [fst snd] in *.
    destruct (IH r _ Hf Hi' Hin') as [H1 H2]. split; [|exact H2].
    rewrite H1. exact Hr'.
  - pose proof (step_inv A Z (ZipDo n v k) st Hf Hi Hin) as [Hi' [Hin' Hr']].
    cbn [step] in Hi', Hin', Hr'. cbn [run].
    destruct (cache_do (zip_cache st) n v) as [r c]. cbn [fst snd] in *.
    destruct (IH r _ Hf Hi' Hin') as [H1 H2]. split; [|exact H2].
    rewrite H1. exact Hr'.
Qed.

(* pools of interleaved programs *)
Definition tracks {A} (Z : list (bytes * zipres)) (p0 p : prog A) : Prop :=
  incl (zip_ops d p) Z /\ run_own d p = run_own d p0.

Lemma step_nth_inv : forall A Z i (pool0 pool : list (prog A)) st,
  functional Z -> inv Z st -> Forall2 (tracks Z) pool0 pool ->
  inv Z (snd (step_nth d i pool st)) /\ Forall2 (tracks Z) pool0 (fst (step_nth d i pool st)).
Proof.
  intros A Z i. induction i as [|i IH]; intros pool0 pool st Hf Hi Hall.
  - destruct Hall as [|p0 p r0 r [Hin Hrun] Hrest]; [cbn; split; [exact Hi|constructor]|].
    cbn [step_nth]. pose proof (step_inv A Z p st Hf Hi Hin) as [Hi' [Hin' Hr']].
    destruct (step d p st) as [p' st']. cbn [fst snd] in *. split; [exact Hi'|].
    constructor; [|exact Hrest]. split; [exact Hin'|]. rewrite Hr'. exact Hrun.
  - destruct Hall as [|p0 p r0 r Hp Hrest]; [cbn; split; [exact Hi|constructor]|].
    cbn [step_nth]. destruct (IH r0 r st Hf Hi Hrest) as [Hi' Hall'].
    destruct (step_nth d i r st) as [r' st']. cbn [fst snd] in *. split; [exact Hi'|].
    constructor; assumption.
Qed.

Lemma run_sched_inv : forall A Z sched (pool0 pool : list (prog A)) st,
  functional Z -> inv Z st -> Forall2 (tracks Z) pool0 pool ->
  inv Z (snd (run_sched d sched pool st)) /\ Forall2 (tracks Z) pool0 (fst (run_sched d sched pool st)).
Proof.
  intros A Z sched. induction sched as [|i s IH]; intros pool0 pool st Hf Hi Hall.
  - cbn. split; assumption.
  - cbn [run_sched]. destruct (step_nth_inv A Z i pool0 pool st Hf Hi Hall) as [Hi' Hall'].
    destruct (step_nth d i pool st) as [pool' st']. cbn [fst snd] in *.
    apply IH; assumption.
Qed.

Lemma tracks_refl : forall A Z (pool : list (prog A)),
  (forall p, In p pool -> incl (zip_ops d p) Z) -> Forall2 (tracks Z) pool pool.
Proof.
  intros A Z pool. induction pool as [|p r IH]; intro H; constructor.
  - split; [apply H; left; reflexivity|reflexivity].
  - apply IH. intros q Hq. apply H. right. exact Hq.
Qed.

(* every interleaving: a thread that has finished holds the response it computes alone *)
Theorem interleaving_same : forall A (pool0 : list (prog A)) sched,
  functional (flat_map (zip_ops d) pool0) ->
  forall i p0 r,
    nth_error pool0 i = Some p0 ->
    nth_error (fst (run_sched d sched pool0 no_caches)) i = Some (Ret r) ->
    r = run_own d p0.
Proof.
  intros A pool0 sched Hf i p0 r Hp0 Hp.
  set (Z := flat_map (zip_ops d) pool0) in *.
  assert (Forall2 (tracks Z) pool0 pool0) as Hrefl.
  { apply tracks_refl. intros p Hin x Hx. unfold Z. apply in_flat_map. exists p. split; assumption. }
  destruct (run_sched_inv A Z sched pool0 pool0 no_caches Hf (inv_no_caches Z) Hrefl) as [_ Hall].
  remember (fst (run_sched d sched pool0 no_caches)) as pool eqn:Epool. clear Epool Hrefl Hf. clearbody Z.
  revert i Hp0 Hp. induction Hall as [|q0 q r0 r1 [_ Hrun] _ IH]; intros i Hp0 Hp.
  - destruct i; discriminate.
  - destruct i as [|i].
    + cbn in Hp0, Hp. inversion Hp0; subst. inversion Hp; subst. cbn in Hrun. exact Hrun.
    + cbn in Hp0, Hp. apply (IH i); assumption.
Qed.

(* the interleaved run does not lose or add threads *)
Lemma step_nth_length : forall A i (pool : list (prog A)) st, length (fst (step_nth d i pool st)) = length pool.
Proof.
  intros A i. induction i as [|i IH]; intros [|p r] st; cbn [step_nth]; try reflexivity.
  - destruct (step d p st). reflexivity.
  - specialize (IH r st). destruct (step_nth d i r st). cbn [fst] in *. cbn. rewrite IH. reflexivity.
Qed.

Lemma run_sched_length : forall A sched (pool : list (prog A)) st,
  length (fst (run_sched d sched pool st)) = length pool.
Proof.
  intros A sched. induction sched as [|i s IH]; intros pool st; [reflexivity|].
  cbn [run_sched]. pose proof (step_nth_length A i pool st) as H.
  destruct (step_nth d i pool st) as [pool' st']. cbn [fst] in H. rewrite IH. exact H.
Qed.

(* progress: no operation blocks, so some schedule finishes every thread *)
Definition is_ret {A} (p : prog A) : bool := match p with Ret _ => true | _ => false end.

Lemma step_ret : forall A (p : prog A) st, is_ret p = true -> step d p st = (p, st).
Proof. intros A [a|n k|n v k] st H; try discriminate. reflexivity. Qed.

Lemma run_sched_app : forall A s1 s2 (pool : list (prog A)) st,
  run_sched d (s1 ++ s2) pool st =
  run_sched d s2 (fst (run_sched d s1 pool st)) (snd (run_sched d s1 pool st)).
Proof.
  intros A s1. induction s1 as [|i s IH]; intros s2 pool st; [reflexivity|].
  cbn [app run_sched]. destruct (step_nth d i pool st) as [pool' st']. apply IH.
Qed.

Lemma finish_head : forall A (p : prog A) r st,
  exists n q, fst (run_sched d (repeat 0 n) (p :: r) st) = q :: r /\ is_ret q = true.
Proof.
  intros A p. induction p as [a|n k IH|n v k IH]; intros r st.
  - exists 0, (Ret a). cbn. split; reflexivity.
  - destruct (cache_do (arch_cache st) n (lookup_archive d n)) as [x c] eqn:Ec.
    destruct (IH x r {| arch_cache := c; zip_cache := zip_cache st |}) as [m [q Hm]].
    exists (S m), q. cbn [repeat run_sched step_nth step]. rewrite Ec. exact Hm.
  - destruct (cache_do (zip_cache st) n v) as [x c] eqn:Ec.
    destruct (IH x r {| arch_cache := arch_cache st; zip_cache := c |}) as [m [q Hm]].
    exists (S m), q. cbn [repeat run_sched step_nth step]. rewrite Ec. exact Hm.
Qed.

Lemma run_sched_shift : forall A s (p : prog A) r st,
  run_sched d (map S s) (p :: r) st =
  (p :: fst (run_sched d s r st), snd (run_sched d s r st)).
Proof.
  intros A s. induction s as [|i s IH]; intros p r st; [reflexivity|].
  cbn [map run_sched step_nth]. destruct (step_nth d i r st) as [r' st']. apply IH.
Qed.

Theorem some_schedule_finishes : forall A (pool : list (prog A)) st,
  exists sched, forallb is_ret (fst (run_sched d sched pool st)) = true.
Proof.
  intros A pool. induction pool as [|p r IH]; intro st.
  - exists []. reflexivity.
  - destruct (IH st) as [s Hs].
    destruct (finish_head A p (fst (run_sched d s r st)) (snd (run_sched d s r st))) as [n [q [H1 H2]]].
    exists (map S s ++ repeat 0 n). rewrite run_sched_app, run_sched_shift. cbn [fst snd].
    rewrite H1. cbn [forallb]. rewrite H2. exact Hs.
Qed.

End Conc.

(* ------------------------------------------------------------------ the server *)

Section Server.
Variable O : oracles.

Lemma functional_le1 : forall Z : list (bytes * zipres), length Z <= 1 -> functional Z.
Proof.
  intros [|[n v] [|x Z]] H; intros n' v1 v2 H1 H2; cbn in *; try lia; try contradiction.
  destruct H1 as [H1|[]]. destruct H2 as [H2|[]]. congruence.
Qed.

(* a fresh server answering one request computes respond_pure *)
Theorem respond_eq : forall d ml url, respond O d ml url = respond_pure O d ml url.
Proof.
  intros d ml url. unfold respond.
  destruct (run_inv d _ (zip_ops d (handler O d ml url)) (handler O d ml url) no_caches) as [H _].
  - apply functional_le1. rewrite zip_ops_handler. apply zip_req_le1.
  - apply inv_no_caches.
  - apply incl_refl.
  - rewrite H. apply run_own_handler.
Qed.

(* the requests of a set do not alias: requests that reach the zip cache under the same archive
   name put the same value there *)
Definition compatible (d : dir) (ml : list (bytes * bytes)) (urls : list bytes) : Prop :=
  functional (flat_map (zip_req O d ml) urls).

Lemma flat_map_handlers : forall d ml urls,
  flat_map (zip_ops d) (map (handler O d ml) urls) = flat_map (zip_req O d ml) urls.
Proof.
  intros d ml urls. induction urls as [|u r IH]; [reflexivity|].
  cbn [map flat_map]. rewrite zip_ops_handler, IH. reflexivity.
Qed.

(* concurrent_same: under every interleaving of the handlers of any requests (cache operations
   atomic, once per key), every finished request holds the response a fresh server gives it *)
Theorem concurrent_same : forall d ml urls sched,
  compatible d ml urls ->
  forall i url r,
    nth_error urls i = Some url ->
    nth_error (fst (run_sched d sched (map (handler O d ml) urls) no_caches)) i = Some (Ret r) ->
    r = respond O d ml url.
Proof.
  intros d ml urls sched Hc i url r Hu Hr.
  rewrite respond_eq, <- run_own_handler.
  apply (interleaving_same d _ (map (handler O d ml) urls) sched) with (i := i).
  - rewrite flat_map_handlers. exact Hc.
  - rewrite nth_error_map, Hu. reflexivity.
  - exact Hr.
Qed.

(* and a server that answers the requests one after the other (a particular schedule) *)
Fixpoint serve_seq (d : dir) (ml : list (bytes * bytes)) (urls : list bytes) (st : caches) : list response :=
  match urls with
  | [] => []
  | u :: r => let (x, st') := run d (handler O d ml u) st in x :: serve_seq d ml r st'
  end.

Theorem sequential_same : forall d ml urls,
  compatible d ml urls ->
  serve_seq d ml urls no_caches = map (respond O d ml) urls.
Proof.
  intros d ml urls Hc. unfold compatible in Hc.
  set (Z := flat_map (zip_req O d ml) urls) in *.
  assert (forall us st, incl (flat_map (zip_req O d ml) us) Z -> inv d Z st ->
          serve_seq d ml us st = map (respond O d ml) us) as Hgen.
  { induction us as [|u r IH]; intros st Hin Hi; [reflexivity|].
    cbn [serve_seq map].
    destruct (run_inv d _ Z (handler O d ml u) st Hc Hi) as [H1 H2].
    { rewrite zip_ops_handler. intros x Hx. apply Hin. cbn [flat_map]. apply in_or_app. left. exact Hx. }
    destruct (run d (handler O d ml u) st) as [x st']. cbn [fst snd] in *.
    rewrite H1, run_own_handler, <- respond_eq. f_equal.
    apply IH; [|exact H2]. intros y Hy. apply Hin. cbn [flat_map]. apply in_or_app. right. exact Hy. }
  apply Hgen; [apply incl_refl|apply inv_no_caches].
Qed.

(* ------------------------------------------------------------------ when requests do not alias:
   no "_" in the requested path and in the version the archive is looked up under *)

Lemma split_last_unique : forall (c : byte) a b a' b',
  ~ In c b -> ~ In c b' -> a ++ [c] ++ b = a' ++ [c] ++ b' -> a = a' /\ b = b'.
Proof.
  intros c a b a' b' Hb Hb' Heq.
  pose proof (last_index_byte_app c a b Hb) as H1.
  pose proof (last_index_byte_app c a' b' Hb') as H2.
  rewrite Heq in H1. rewrite H1 in H2. inversion H2 as [Hlen].
  assert (a = a') as Ha.
  { apply (f_equal (firstn (length a))) in Heq. rewrite firstn_app_exact in Heq.
    rewrite Hlen in Heq. rewrite firstn_app_exact in Heq. exact Heq. }
  subst a'. apply app_inv_head in Heq. inversion Heq. split; reflexivity.
Qed.

Lemma archive_name_injective : forall p v p' v' n,
  ~ In disk_sep p -> ~ In disk_sep v -> ~ In disk_sep p' -> ~ In disk_sep v' ->
  archive_name O p v = Some n -> archive_name O p' v' = Some n -> p = p' /\ v = v'.
Proof.
  intros p v p' v' n Hp Hv Hp' Hv' H1 H2. unfold archive_name in H1, H2.
  destruct (escape_path O p) as [ep|] eqn:Ep; [|discriminate].
  destruct (escape_version O v) as [ev|] eqn:Ev; [|discriminate].
  destruct (escape_path O p') as [ep'|] eqn:Ep'; [|discriminate].
  destruct (escape_version O v') as [ev'|] eqn:Ev'; [|discriminate].
  inversion H1 as [Hn]. inversion H2 as [Hn']. rewrite <- Hn' in Hn. clear H1 H2 Hn'.
  assert (forall x e, escape_path O x = Some e -> escape_string x = Some e) as Hpe.
  { intros x e H. unfold escape_path in H. destruct (check_path O x); [exact H|discriminate]. }
  assert (forall x e, escape_version O x = Some e -> escape_string x = Some e) as Hve.
  { intros x e H. unfold escape_version in H. destruct (check_elem O x && negb (mem_byte bang x)); [exact H|discriminate]. }
  apply Hpe in Ep, Ep'. apply Hve in Ev, Ev'.
  assert (forall x e, escape_string x = Some e -> ~ In disk_sep x -> ~ In disk_sep e) as Hno.
  { intros x e He Hx. eapply escape_not_in; [exact He|exact Hx|exact disk_sep_not_bang|exact disk_sep_not_lower]. }
  destruct (split_last_unique disk_sep _ _ _ _ (Hno _ _ Ev Hv) (Hno _ _ Ev' Hv') Hn) as [Ha Hb].
  subst ev'. apply (f_equal (replace_byte disk_sep path_sep)) in Ha.
  rewrite !replace_byte_inv in Ha by (eapply Hno; eassumption). subst ep'.
  split; eapply escape_injective; eassumption.
Qed.

Definition no_alias (d : dir) (ml : list (bytes * bytes)) (url : bytes) : Prop :=
  match route O url with
  | RFile p v e => ~ In disk_sep p /\ ~ In disk_sep (target_version O d ml p v)
  | _ => True
  end.

Theorem no_alias_compatible : forall d ml urls,
  (forall u, In u urls -> no_alias d ml u) -> compatible d ml urls.
Proof.
  intros d ml urls Hall. unfold compatible, functional. intros n v1 v2 H1 H2.
  apply in_flat_map in H1. destruct H1 as [u1 [Hu1 H1]].
  apply in_flat_map in H2. destruct H2 as [u2 [Hu2 H2]].
  pose proof (Hall _ Hu1) as A1. pose proof (Hall _ Hu2) as A2.
  unfold no_alias in A1, A2. unfold zip_req in H1, H2.
  destruct (route O u1) as [|?|p1 w1 e1]; try contradiction.
  destruct (route O u2) as [|?|p2 w2 e2]; try contradiction.
  unfold zip_req_file, stored_n in H1, H2.
  set (t1 := target_version O d ml p1 w1) in *. set (t2 := target_version O d ml p2 w2) in *.
  destruct (archive_name O p1 t1) as [n1|] eqn:N1; [|contradiction].
  destruct (lookup_archive d n1) as [a1|] eqn:L1; [|contradiction].
  destruct (archive_name O p2 t2) as [n2|] eqn:N2; [|contradiction].
  destruct (lookup_archive d n2) as [a2|] eqn:L2; [|contradiction].
  destruct (bytes_eqb e1 ext_info || bytes_eqb e1 ext_mod); [contradiction|].
  destruct (bytes_eqb e1 ext_zip); [|contradiction].
  destruct (bytes_eqb e2 ext_info || bytes_eqb e2 ext_mod); [contradiction|].
  destruct (bytes_eqb e2 ext_zip); [|contradiction].
  destruct H1 as [H1|[]]. destruct H2 as [H2|[]]. inversion H1; subst. inversion H2; subst.
  destruct A1 as [A1 B1]. destruct A2 as [A2 B2].
  destruct (archive_name_injective _ _ _ _ _ A1 B1 A2 B2 N1 N2) as [Hp Ht]. subst p2. rewrite <- Ht in *.
  rewrite L1 in L2. inversion L2; subst. reflexivity.
Qed.

End Server.

(* The pure segments of goproxytest/proxy.go (readModList, handler, readArchive, findHash),
   translated on every run into Gen/ProxySrc.v, proved equal to the model of Proxy/Proxy.v. *)
From Coq Require Import List Bool Arith ZArith NArith Lia ZifyBool.
From Coq.Strings Require Import Byte.
From GI Require Import Lib.Bytes Lib.BytesFacts Lib.GoSem Lib.GoSemExt Lib.GoSemExtFacts Lib.GoSemData
  Gen.ProxyConsts Proxy.Regex Proxy.Proxy Proxy.ProxyStrings Proxy.ProxyFacts Proxy.ProxyConc Proxy.ProxyTheorems
  Proxy.ProxyExact Proxy.XMod Proxy.XModFacts.
From GI Require Import Lib.GoSemHandler Proxy.SrcLib Gen.ProxySrc Proxy.SrcFacts Proxy.SrcGlue.
Import ListNotations.
Local Open Scope nat_scope.

(* the two copies of the string vocabulary (Lib/Bytes.v, Proxy/Proxy.v) are convertible *)
Lemma lb_bytes_eqb a b : Lib.Bytes.bytes_eqb a b = Proxy.bytes_eqb a b.
Proof. reflexivity. Qed.

(* the x/mod oracles do not depend on the table for the json Short field, except info_short *)
Lemma xmod_unescape_path short e : unescape_path (xmod_oracles short) e = unescape_path xmod_O e.
Proof. reflexivity. Qed.
Lemma xmod_unescape_version short e : unescape_version (xmod_oracles short) e = unescape_version xmod_O e.
Proof. reflexivity. Qed.
Lemma xmod_escape_path short e : escape_path (xmod_oracles short) e = escape_path xmod_O e.
Proof. reflexivity. Qed.
Lemma xmod_escape_version short e : escape_version (xmod_oracles short) e = escape_version xmod_O e.
Proof. reflexivity. Qed.

Lemma opt_pos_some i : opt_pos (Some i) = Z.of_nat i.
Proof. reflexivity. Qed.

Lemma go_slice_to d k : k <= length d -> go_slice d 0 (Z.of_nat k) = Ok (firstn k d).
Proof. intros H. unfold go_slice. now rewrite slice_z_to. Qed.

Lemma go_slice_from d k : k <= length d -> go_slice d (Z.of_nat k) (len d) = Ok (skipn k d).
Proof. intros H. unfold go_slice. now rewrite slice_z_from. Qed.

(* ------------------------------------------------------------------ *)
(* readModList: the body of the loop over the directory entries        *)

Definition srv_add (srv : go_server) (m : bytes * bytes) : go_server :=
  mkServer (srv_dir srv) (srv_modList srv ++ [m]) (srv_archives srv).

Definition entry_outcome (srv : go_server) (o : option (option (bytes * bytes)))
  : outcome go_server go_server (go_server * bool) :=
  match o with
  | None => Return (srv, true)
  | Some None => Continue srv
  | Some (Some m) => Normal (srv_add srv m)
  end.

Theorem src_readModList_entry_eq short srv name isdir :
  src_Server_readModList_entry srv (name, isdir) =
  Ok (entry_outcome srv (mod_entry (xmod_oracles short) name isdir)).
Proof.
  unfold src_Server_readModList_entry, mod_entry.
  unfold go_direntry_Name, go_direntry_IsDir, go_strings_HasSuffix, go_strings_TrimSuffix,
    go_strings_LastIndex, go_module_UnescapePath, go_module_UnescapeVersion.
  cbn [fst snd].
  change [x2e; x74; x78; x74] with suffix_txt. change [x2e; x74; x78; x74; x61; x72] with suffix_txtar.
  change [x5f; x76] with vers_sep.
  change (unescape_path (xmod_oracles short)) with (unescape_path xmod_O).
  change (unescape_version (xmod_oracles short)) with (unescape_version xmod_O).
  assert (Hmain : forall nm,
    (let v_i := opt_pos (last_index vers_sep nm) in
     if (v_i <? 0)%Z then Ok (Continue srv) else
     bind (go_slice nm 0 v_i) (fun t1 =>
     bind (go_strings_ReplaceAll t1 [x5f] [x2f]) (fun t2 =>
     let '(t3, t4) := go_opt_err (unescape_path xmod_O t2) in
     if t4 then Ok (Return (srv, true)) else
     bind (go_slice nm (v_i + 1)%Z (len nm)) (fun t5 =>
     let '(t6, t7) := go_opt_err (unescape_version xmod_O t5) in
     if t7 then Ok (Return (srv, true)) else
     Ok (Normal (mkServer (srv_dir srv) (go_append (srv_modList srv) [(t3, t6)]) (srv_archives srv))))))) =
    Ok (entry_outcome srv
      match last_index vers_sep nm with
      | None => Some None
      | Some i =>
          match unescape_path xmod_O (replace_byte disk_sep path_sep (firstn i nm)) with
          | None => None
          | Some path =>
              match unescape_version xmod_O (skipn (i + vers_skip) nm) with
              | None => None
              | Some vers => Some (Some (path, vers))
              end
          end
      end)).
  { intros nm. cbv zeta. destruct (last_index vers_sep nm) as [i|] eqn:Ei; [|reflexivity].
    destruct (last_index_some _ _ _ Ei) as [Hle Hat].
    assert (Hlt : i + 1 <= length nm).
    { apply has_prefix_true in Hat. apply (f_equal (@length byte)) in Hat.
      rewrite app_length, skipn_length in Hat. cbn [length vers_sep] in Hat. lia. }
    rewrite opt_pos_some. destruct (Z.of_nat i <? 0)%Z eqn:E; [lia|].
    rewrite go_slice_to by exact Hle. cbn [bind go_strings_ReplaceAll].
    change x5f with disk_sep. change x2f with path_sep.
    destruct (unescape_path xmod_O _) as [path|]; cbn [go_opt_err]; [|reflexivity].
    replace (Z.of_nat i + 1)%Z with (Z.of_nat (i + 1)) by lia.
    rewrite go_slice_from by exact Hlt. cbn [bind]. change vers_skip with 1.
    destruct (unescape_version xmod_O _) as [vers|]; cbn [go_opt_err]; reflexivity. }
  destruct (has_suffix suffix_txt name).
  - go_red. apply Hmain.
  - go_red. destruct (has_suffix suffix_txtar name).
    + go_red. apply Hmain.
    + destruct isdir; go_red; [apply Hmain|reflexivity].
Qed.


Lemma src_readModList_loop_eq short : forall names srv,
  match read_mod_list_names (xmod_oracles short) names with
  | Some ml => src_readModList_loop srv names =
               Ok (mkServer (srv_dir srv) (srv_modList srv ++ ml) (srv_archives srv), false)
  | None => exists s, src_readModList_loop srv names = Ok (s, true)
  end.
Proof.
  induction names as [|[nm isd] r IH]; intros srv.
  - cbn. rewrite app_nil_r. now destruct srv.
  - cbn [read_mod_list_names src_readModList_loop]. rewrite (src_readModList_entry_eq short).
    destruct (mod_entry (xmod_oracles short) nm isd) as [[m|]|]; cbn [entry_outcome].
    + specialize (IH (srv_add srv m)).
      destruct (read_mod_list_names (xmod_oracles short) r) as [ml|]; [|exact IH].
      rewrite IH. unfold srv_add. cbn [srv_dir srv_modList srv_archives]. now rewrite <- app_assoc.
    + specialize (IH srv). destruct (read_mod_list_names (xmod_oracles short) r); exact IH.
    + now exists srv.
Qed.

(* readModList on a server that starts with an empty module list *)
Theorem src_readModList_eq short dirname fh d :
  match read_mod_list (xmod_oracles short) d with
  | Some ml => src_readModList_loop (mkServer dirname [] fh) (dir_names d) = Ok (mkServer dirname ml fh, false)
  | None => exists s, src_readModList_loop (mkServer dirname [] fh) (dir_names d) = Ok (s, true)
  end.
Proof.
  unfold read_mod_list. pose proof (src_readModList_loop_eq short (dir_names d) (mkServer dirname [] fh)) as H.
  destruct (read_mod_list_names (xmod_oracles short) (dir_names d)); exact H.
Qed.

(* ------------------------------------------------------------------ *)
(* handler: from the URL path to the archive lookup                    *)


Lemma fprintf_line w v : go_fmt_Fprintf w [x25; x73; x0a] [FmtStr v] = Ok (go_http_Write w (v ++ [x0a])).
Proof.
  unfold go_fmt_Fprintf. cbn [go_fmt_Sprintf Lib.Bytes.beq Byte.eqb]. cbn. reflexivity.
Qed.

Section Handler.
Variable short : bytes -> bytes.
Let O := xmod_oracles short.

Lemma route_list_loop (L : Type) path : forall ml w n,
  @src_Server_handler_route_loop1 L path ml w n =
  Ok (Normal (write_lines w (listed O ml path), (n + Z.of_nat (length (listed O ml path)))%Z)).
Proof.
  induction ml as [|[p v] ml IH]; intros w n.
  - cbn. now rewrite Z.add_0_r.
  - cbn [src_Server_handler_route_loop1 fst snd]. rewrite (src_isPseudoVersion_eq short).
    unfold listed. cbn [filter fst snd]. fold O. rewrite lb_bytes_eqb.
    destruct (bytes_eqb p path); go_red.
    + destruct (is_pseudo O v); go_red.
      * rewrite IH. reflexivity.
      * unfold go_module_Check. change (module_check O p v) with (module_check_x p v).
        destruct (module_check_x p v); go_red.
        -- rewrite fprintf_line. go_red. rewrite IH. cbn [map length write_lines fold_left].
           unfold listed. do 3 f_equal. lia.
        -- rewrite IH. reflexivity.
    + rewrite IH. reflexivity.
Qed.

Lemma go_slice_after_last c v :
  go_slice v (go_strings_LastIndex v [c] + 1)%Z (len v) = Ok (after_last c v).
Proof.
  unfold go_strings_LastIndex, after_last. destruct (last_index [c] v) as [i|] eqn:Ei.
  - destruct (last_index_some _ _ _ Ei) as [Hle Hat].
    assert (Hlt : S i <= length v).
    { apply has_prefix_true in Hat. apply (f_equal (@length byte)) in Hat.
      rewrite app_length, skipn_length in Hat. cbn [length] in Hat. lia. }
    rewrite opt_pos_some. replace (Z.of_nat i + 1)%Z with (Z.of_nat (S i)) by lia.
    now apply go_slice_from.
  - cbn [opt_pos]. change (-1 + 1)%Z with (Z.of_nat 0). now rewrite go_slice_from by lia.
Qed.

Lemma compare_lt best v : (go_semver_Compare best v <? 0)%Z = semver_lt O best v.
Proof.
  unfold go_semver_Compare. change (semver_lt O best v) with (semver_lt_x best v). unfold semver_lt_x.
  destruct (semver_compare best v); reflexivity.
Qed.

Lemma route_resolve_loop (L : Type) d srv path vers :
  (forall m, srv_archives srv m = hash_of O d (fst m) (snd m)) ->
  forall ml best,
  @src_Server_handler_route_loop2 L srv path vers ml best =
  Ok (Normal (resolve_pure O d ml path vers best)).
Proof.
  intros Hfh. induction ml as [|[p v] ml IH]; intros best; [reflexivity|].
  cbn [src_Server_handler_route_loop2 resolve_pure fst snd].
  rewrite lb_bytes_eqb, compare_lt.
  destruct (bytes_eqb p path && semver_lt O best v); go_red; [|apply IH].
  rewrite (src_isPseudoVersion_eq short). go_red. fold O.
  assert (Hm : forall hash,
    (if negb (Lib.Bytes.bytes_eqb hash []) && (go_strings_HasPrefix hash vers || go_strings_HasPrefix vers hash)
     then true else false) = hash_matches hash vers).
  { intros hash. unfold hash_matches, go_strings_HasPrefix. rewrite bytes_eqb_nil.
    destruct hash; cbn [negb andb]; [reflexivity|]. now destruct (_ || _). }
  destruct (is_pseudo O v).
  - change x2d with hash_sep. rewrite go_slice_after_last. go_red.
    rewrite <- Hm. destruct (negb _ && _); go_red; apply IH.
  - go_red. unfold srv_findHash. rewrite Hfh. cbn [fst snd].
    rewrite <- Hm. destruct (negb _ && _); go_red; apply IH.
Qed.

(* what the first part of the handler leaves: a finished response, or the decoded request *)
Definition route_outcome (d : dir) (ml : list (bytes * bytes)) (w : go_response) (url : bytes)
  : outcome (go_response * bytes * bytes * bytes) unit go_response :=
  match route O url with
  | RNotFound => Return (go_http_NotFound w url)
  | RList path =>
      match listed O ml path with
      | [] => Return (go_http_NotFound w url)
      | vs => Return (write_lines w vs)
      end
  | RFile path vers ext => Normal (w, path, ext, target_version O d ml path vers)
  end.

Theorem src_handler_route_eq d srv w url :
  (forall m, srv_archives srv m = hash_of O d (fst m) (snd m)) ->
  src_Server_handler_route srv w url = Ok (route_outcome d (srv_modList srv) w url).
Proof.
  intros Hfh. unfold src_Server_handler_route, route_outcome, route.
  unfold url_Path, req_URL, go_strings_HasPrefix, go_strings_TrimPrefix, go_strings_Index, go_strings_LastIndex.
  change [x2f; x6d; x6f; x64; x2f] with mod_prefix. change [x2f; x40; x76; x2f] with at_v.
  destruct (has_prefix mod_prefix url) eqn:Hp; cbn [negb]; [|reflexivity].
  go_red. set (p := skipn (length mod_prefix) url).
  destruct (index at_v p) as [i|] eqn:Ei; [|reflexivity].
  destruct (index_some _ _ _ Ei) as (Hle & Hat & _).
  assert (Hlen : i + length at_v <= length p).
  { apply has_prefix_true in Hat. apply (f_equal (@length byte)) in Hat.
    rewrite app_length, skipn_length in Hat. lia. }
  rewrite opt_pos_some. destruct (Z.of_nat i <? 0)%Z eqn:E; [lia|].
  rewrite go_slice_to by exact Hle. go_red.
  change 4%Z with (Z.of_nat (length at_v)). rewrite <- Nat2Z.inj_add.
  rewrite go_slice_from by exact Hlen. go_red.
  unfold go_module_UnescapePath. change (unescape_path O) with (unescape_path xmod_O).
  destruct (unescape_path xmod_O (firstn i p)) as [path|]; cbn [go_opt_err]; [|reflexivity].
  set (file := skipn (i + length at_v) p).
  rewrite lb_bytes_eqb. change [x6c; x69; x73; x74] with list_name.
  destruct (bytes_eqb file list_name).
  - rewrite route_list_loop. go_red. fold O.
    destruct (listed O (srv_modList srv) path) as [|v vs]; cbn [length]; [reflexivity|].
    destruct (0 + Z.of_nat (S (length vs)) =? 0)%Z eqn:E0; [lia|]. reflexivity.
  - change [x2e] with [ext_sep].
    destruct (last_index [ext_sep] file) as [j|] eqn:Ej; [|reflexivity].
    destruct (last_index_some _ _ _ Ej) as [Hjle Hjat].
    assert (Hjlt : S j <= length file).
    { apply has_prefix_true in Hjat. apply (f_equal (@length byte)) in Hjat.
      rewrite app_length, skipn_length in Hjat. cbn [length] in Hjat. lia. }
    rewrite opt_pos_some. destruct (Z.of_nat j <? 0)%Z eqn:E2; [lia|].
    rewrite go_slice_to by exact Hjle. go_red.
    replace (Z.of_nat j + 1)%Z with (Z.of_nat (S j)) by lia.
    rewrite go_slice_from by exact Hjlt. go_red.
    unfold go_module_UnescapeVersion. change (unescape_version O) with (unescape_version xmod_O).
    destruct (unescape_version xmod_O (firstn j file)) as [vers|]; cbn [go_opt_err]; [|reflexivity].
    rewrite src_allHex_eq. go_red. unfold target_version.
    destruct (allhex vers); go_red; [|reflexivity].
    rewrite (route_resolve_loop _ d) by exact Hfh. go_red. rewrite bytes_eqb_nil. unfold pick_best.
    destruct (resolve_pure O d (srv_modList srv) path vers []); reflexivity.
Qed.

End Handler.

(* ------------------------------------------------------------------ *)
(* handler: from the archive to the response                           *)


Lemma serve_find_loop (L : Type) want : forall files w,
  @src_Server_handler_serve_loop1 L want files w =
  Ok (match find_file want files with
      | Some data => Return (go_http_Write w data)
      | None => Normal w
      end).
Proof.
  induction files as [|[n data] files IH]; intros w; [reflexivity|].
  cbn [src_Server_handler_serve_loop1 find_file fst snd]. rewrite lb_bytes_eqb.
  destruct (bytes_eqb n want); go_red; [reflexivity|apply IH].
Qed.

Definition serve_outcome (w : go_response) (url ext : bytes) (a : option archive) (c : bytes * bool)
  : outcome go_response unit go_response :=
  match a with
  | None => Return (go_http_NotFound w url)
  | Some files =>
      if bytes_eqb ext ext_info || bytes_eqb ext ext_mod then
        match find_file (entry_dot ++ ext) files with
        | Some data => Return (go_http_Write w data)
        | None => Normal (go_http_NotFound w url)
        end
      else if bytes_eqb ext ext_zip then
        if snd c then Return (go_http_Error w [] 500) else Return (go_http_Write w (fst c))
      else Normal (go_http_NotFound w url)
  end.

Theorem src_handler_serve_eq srv w url path ext vers a c :
  src_Server_handler_serve srv w url path ext vers (as_archive a) c = Ok (serve_outcome w url ext a c).
Proof.
  unfold src_Server_handler_serve, serve_outcome.
  destruct a as [files|]; cbn [as_archive option_map go_is_nil go_deref]; [|reflexivity].
  change Lib.Bytes.bytes_eqb with Proxy.bytes_eqb. change [x69; x6e; x66; x6f] with ext_info. change [x6d; x6f; x64] with ext_mod.
  change [x7a; x69; x70] with ext_zip. change [x2e] with entry_dot.
  destruct (bytes_eqb ext ext_info || bytes_eqb ext ext_mod); go_red.
  - cbn [ar_files]. rewrite serve_find_loop.
    destruct (find_file (entry_dot ++ ext) files); reflexivity.
  - destruct (bytes_eqb ext ext_zip); go_red; [|reflexivity].
    destruct c as [z e]; cbn [fst snd]. destruct e; reflexivity.
Qed.


Theorem src_zip_entries_eq path vers : forall files,
  src_zip_entries path vers files = Ok (build_zip_entries path vers files).
Proof.
  induction files as [|[n data] files IH]; [reflexivity|].
  cbn [src_zip_entries build_zip_entries]. unfold src_Server_handler_zipskip, src_Server_handler_zipname.
  cbn [fst snd]. unfold go_strings_HasPrefix. change [x2e] with hidden_prefix.
  destruct (has_prefix hidden_prefix n); [exact IH|].
  cbn [bind]. change [x40] with zip_at. change [x2f] with zip_slash.
  replace ((((path ++ zip_at) ++ vers) ++ zip_slash) ++ n) with (path ++ zip_at ++ vers ++ zip_slash ++ n)
    by (now rewrite !app_assoc).
  destruct (zip_entry_bad _ data); [reflexivity|]. rewrite IH. reflexivity.
Qed.

(* the member filter and the member name on their own *)
Theorem src_zipskip_eq f :
  src_Server_handler_zipskip f = Ok (if has_prefix hidden_prefix (fst f) then Continue tt else Normal tt).
Proof. unfold src_Server_handler_zipskip, go_strings_HasPrefix. now destruct (has_prefix _ _). Qed.

Theorem src_zipname_eq path vers f :
  src_Server_handler_zipname path vers f = Ok (zip_name path vers (fst f)).
Proof. unfold src_Server_handler_zipname, zip_name. now rewrite !app_assoc. Qed.

(* ------------------------------------------------------------------ *)
(* readArchive: the escape calls and the three candidate names         *)

Theorem src_readArchive_names_eq short srv path vers :
  src_Server_readArchive_names srv path vers =
  Ok (match archive_name (xmod_oracles short) path vers with
      | None => Return None
      | Some x =>
          let name := TxtarWrite.Path.join (srv_dir srv) x in
          Normal (name, name ++ suffix_txt, name ++ suffix_txtar)
      end).
Proof.
  unfold src_Server_readArchive_names, archive_name, go_module_EscapePath, go_module_EscapeVersion.
  change (escape_path (xmod_oracles short)) with (escape_path xmod_O).
  change (escape_version (xmod_oracles short)) with (escape_version xmod_O).
  destruct (escape_path xmod_O path) as [enc|]; cbn [go_opt_err]; [|reflexivity].
  destruct (escape_version xmod_O vers) as [encv|]; cbn [go_opt_err]; [|reflexivity].
  cbn [go_strings_ReplaceAll bind go_filepath_Join]. change x2f with path_sep. change x5f with disk_sep.
  now rewrite <- app_assoc.
Qed.

(* the WalkDir callback: the name of a file relative to the directory of the archive *)
Theorem src_readArchive_arpath_eq name rel :
  src_Server_readArchive_arpath name (name ++ [path_sep] ++ rel) = Ok (Normal rel).
Proof.
  unfold src_Server_readArchive_arpath, go_strings_TrimPrefix, go_filepath_ToSlash, TxtarWrite.Path.to_slash.
  change [x2f] with [path_sep]. rewrite app_assoc, has_prefix_app.
  now rewrite skipn_app_exact.
Qed.

Theorem src_readArchive_arpath_other name path :
  has_prefix (name ++ [path_sep]) path = false ->
  src_Server_readArchive_arpath name path = Ok (Normal path).
Proof.
  intros H. unfold src_Server_readArchive_arpath, go_strings_TrimPrefix, go_filepath_ToSlash, TxtarWrite.Path.to_slash.
  change [x2f] with [path_sep]. now rewrite H.
Qed.

(* ------------------------------------------------------------------ *)
(* findHash: the selection of .info                                    *)

Lemma findHash_loop (L : Type) : forall files data0,
  @src_Server_findHash_info_loop1 L files data0 =
  Ok (Normal (match find_file info_entry files with Some data => data | None => data0 end)).
Proof.
  induction files as [|[n data] files IH]; intros data0; [reflexivity|].
  cbn [src_Server_findHash_info_loop1 find_file fst snd]. rewrite lb_bytes_eqb.
  change [x2e; x69; x6e; x66; x6f] with info_entry.
  destruct (bytes_eqb n info_entry); go_red; [reflexivity|apply IH].
Qed.

Theorem src_findHash_info_eq a :
  src_Server_findHash_info (as_archive a) =
  Ok (match a with
      | None => Return []
      | Some files => Normal (match find_file info_entry files with Some data => data | None => [] end)
      end).
Proof.
  unfold src_Server_findHash_info. destruct a as [files|]; cbn [as_archive option_map go_is_nil go_deref]; [|reflexivity].
  go_red. cbn [ar_files]. rewrite findHash_loop. reflexivity.
Qed.

(* ------------------------------------------------------------------ *)
(* the segments composed in the order the handler runs them            *)

Section Compose.
Variable short : bytes -> bytes.                       (* json.Unmarshal's Short field: an oracle *)
Variable enc : list (bytes * bytes) -> bytes.          (* archive/zip's bytes for an entry list: not modelled *)
Let O := xmod_oracles short.

Lemma stored_of_stored_n d p v : stored O d p v = option_map snd (stored_n O d p v).
Proof.
  destruct (stored O d p v) as [a|] eqn:E.
  - destruct (stored_stored_n O d p v a E) as [n Hn]. now rewrite Hn.
  - now rewrite (stored_n_none O d p v E).
Qed.

Theorem src_findHash_eq d m : src_findHash short d m = Ok (hash_of O d (fst m) (snd m)).
Proof.
  unfold src_findHash, hash_of. rewrite src_findHash_info_eq, stored_of_stored_n.
  destruct (stored_n O d (fst m) (snd m)) as [[n a]|]; reflexivity.
Qed.

Lemma write_write w a b : go_http_Write (go_http_Write w a) b = go_http_Write w (a ++ b).
Proof.
  unfold go_http_Write. cbn [rw_status rw_body]. rewrite <- app_assoc. f_equal.
  destruct (rw_status w =? 0)%Z eqn:E; [reflexivity|]. now rewrite E.
Qed.

Lemma write_lines_nonempty : forall vs v w,
  write_lines w (v :: vs) = go_http_Write w (flat_map (fun v => v ++ [x0a]) (v :: vs)).
Proof.
  induction vs as [|v' vs IH]; intros v w.
  - cbn. now rewrite app_nil_r.
  - change (write_lines w (v :: v' :: vs)) with (write_lines (go_http_Write w (v ++ [x0a])) (v' :: vs)).
    rewrite IH, write_write. reflexivity.
Qed.

Theorem src_handle_eq dirname d ml url :
  src_handle short enc dirname d ml url = Ok (resp_of enc (respond_pure O d ml url)).
Proof.
  unfold src_handle. rewrite (src_handler_route_eq short d).
  2:{ intros m. unfold the_server. cbn [srv_archives]. now rewrite src_findHash_eq. }
  cbn [bind the_server srv_modList]. unfold route_outcome, respond_pure. fold O.
  destruct (route O url) as [|path|path vers ext]; [reflexivity| |].
  - unfold list_response. destruct (listed O ml path) as [|v vs]; [reflexivity|].
    rewrite write_lines_nonempty. reflexivity.
  - set (tv := target_version O d ml path vers).
    unfold src_zip. rewrite stored_of_stored_n. unfold serve_pure.
    destruct (stored_n O d path tv) as [[n a]|]; cbn [option_map snd].
    + rewrite src_zip_entries_eq. cbn [bind]. rewrite src_handler_serve_eq. cbn [bind serve_outcome].
      destruct (bytes_eqb ext ext_info || bytes_eqb ext ext_mod).
      * destruct (find_file (entry_dot ++ ext) a); reflexivity.
      * destruct (bytes_eqb ext ext_zip); [|reflexivity].
        unfold build_zip. destruct (build_zip_entries path tv a); reflexivity.
    + cbn [bind]. rewrite src_handler_serve_eq. reflexivity.
Qed.

End Compose.

(* ------------------------------------------------------------------ *)
(* the theorems of the property, on the composed translated segments   *)

Section Property.
Variable short : bytes -> bytes.
Variable enc : list (bytes * bytes) -> bytes.
Let O := xmod_oracles short.

(* the composed segments never panic and leave in the ResponseWriter exactly the response of a
   freshly started model server *)
Theorem src_handle_respond dirname d ml url :
  src_handle short enc dirname d ml url = Ok (resp_of enc (respond O d ml url)).
Proof. rewrite respond_eq. apply src_handle_eq. Qed.

(* the status: 404 exactly for the model's NotFound, 500 for a zip that cannot be written *)
Lemma resp_of_status r :
  rw_status (resp_of enc r) =
  match r with NotFound => 404%Z | Err500 => 500%Z | _ => 200%Z end.
Proof. destruct r; reflexivity. Qed.

Lemma resp_of_body_bytes b : rw_body (resp_of enc (OkBytes b)) = b.
Proof. reflexivity. Qed.

Theorem src_serves_stored dirname d ml p v a :
  check_path_x p = true -> semver_is_valid v = true -> check_elem_x v = true -> mem_byte bang v = false ->
  stored O d p v = Some a ->
  exists ep ev, escape_string p = Some ep /\ escape_string v = Some ev /\
  src_handle short enc dirname d ml (file_url ep ev ext_info) =
    Ok (resp_of enc (match find_file (entry_dot ++ ext_info) a with Some data => OkBytes data | None => NotFound end)) /\
  src_handle short enc dirname d ml (file_url ep ev ext_mod) =
    Ok (resp_of enc (match find_file (entry_dot ++ ext_mod) a with Some data => OkBytes data | None => NotFound end)) /\
  src_handle short enc dirname d ml (file_url ep ev ext_zip) = Ok (resp_of enc (zip_response (build_zip p v a))).
Proof.
  intros Hp Hsv Hv Hb Hst.
  destruct (serves_stored_xmod short d ml p v a Hp Hsv Hv Hb Hst) as (ep & ev & Hep & Hev & H1 & H2 & H3).
  exists ep, ev. rewrite !src_handle_respond. fold O in H1, H2, H3. rewrite H1, H2, H3. auto.
Qed.

Theorem src_list_exact dirname d ml p ep :
  path_ok O p -> escape_string p = Some ep ->
  src_handle short enc dirname d ml (list_url ep) =
    Ok (resp_of enc (match listed O ml p with
                     | [] => NotFound
                     | vs => OkBytes (flat_map (fun v => v ++ [x0a]) vs)
                     end)) /\
  (forall v, In v (listed O ml p) <->
     In (p, v) ml /\ is_pseudo O v = false /\ module_check O p v = true).
Proof.
  intros Hp Hep. destruct (list_exact O d ml p ep Hp Hep) as [H1 H2].
  rewrite src_handle_respond. fold O. rewrite H1. auto.
Qed.

(* anything the model answers with 404 is answered with the status 404 and the text of
   http.NotFound, and nothing else is *)
Theorem src_not_found_iff dirname d ml url :
  exists w, src_handle short enc dirname d ml url = Ok w /\
    ((rw_status w = 404%Z) <-> respond O d ml url = NotFound) /\
    (respond O d ml url = NotFound -> w = go_http_NotFound go_response_empty url).
Proof.
  exists (resp_of enc (respond O d ml url)). split; [apply src_handle_respond|].
  rewrite resp_of_status. destruct (respond O d ml url); split; try split; try discriminate; auto.
Qed.

Theorem src_not_stored_404 dirname d ml url :
  let nf := Ok (go_http_NotFound go_response_empty url) in
  (route O url = RNotFound -> src_handle short enc dirname d ml url = nf) /\
  (forall p v e, route O url = RFile p v e ->
     bytes_eqb e ext_info = false -> bytes_eqb e ext_mod = false -> bytes_eqb e ext_zip = false ->
     src_handle short enc dirname d ml url = nf) /\
  (forall p v e, route O url = RFile p v e -> (forall v', stored O d p v' = None) ->
     src_handle short enc dirname d ml url = nf) /\
  (forall p v e, route O url = RFile p v e -> allhex v = false -> stored O d p v = None ->
     src_handle short enc dirname d ml url = nf) /\
  (forall p, route O url = RList p ->
     (forall v, In (p, v) ml -> is_pseudo O v = true \/ module_check O p v = false) ->
     src_handle short enc dirname d ml url = nf).
Proof.
  cbv zeta. destruct (not_stored_404 O d ml url) as (H1 & H2 & H3 & H4 & H5).
  rewrite src_handle_respond. fold O.
  repeat split; intros.
  - now rewrite H1.
  - now rewrite (H2 p v e).
  - now rewrite (H3 p v e).
  - now rewrite (H4 p v e).
  - now rewrite (H5 p).
Qed.

(* the response is something else than 404 exactly for the URLs the store serves *)
Theorem src_route_404_exact dirname d ml url :
  exists w, src_handle short enc dirname d ml url = Ok w /\
    (rw_status w <> 404%Z <-> served_by O d ml url).
Proof.
  exists (resp_of enc (respond O d ml url)). split; [apply src_handle_respond|].
  rewrite <- (route_404_exact O d ml url), resp_of_status.
  destruct (respond O d ml url); split; intro H; try discriminate; try congruence.
Qed.

End Property.

(* Examples: the composed segments compute; the failure values are real *)
From Coq Require Import String.
Local Open Scope string_scope.

Definition ex_dir : dir :=
  [(lit "example.com_v1.0.0.txt", EFile [(lit ".info", lit "{}"); (lit ".mod", lit "module example.com"); (lit "x.go", lit "package x")]);
   (lit "README", EFile [])].

Example ex_src_handle :
  let enc := fun es : list (bytes * bytes) => flat_map fst es in
  let h := src_handle (fun _ => []) enc (lit "testmod") ex_dir [(lit "example.com", lit "v1.0.0")] in
  h (lit "/mod/example.com/@v/list") = Ok (mkResponse 200 (lit "v1.0.0" ++ [x0a])%list) /\
  h (lit "/mod/example.com/@v/v1.0.0.mod") = Ok (mkResponse 200 (lit "module example.com")) /\
  h (lit "/mod/example.com/@v/v1.0.0.zip") = Ok (mkResponse 200 (lit "example.com@v1.0.0/x.go")) /\
  h (lit "/mod/example.com/@v/v1.0.1.mod") = Ok (mkResponse 404 (not_found_text ++ [x0a])%list) /\
  h (lit "/nomod") = Ok (mkResponse 404 (not_found_text ++ [x0a])%list) /\
  src_readModList_loop (mkServer (lit "testmod") [] (fun _ => [])) (dir_names ex_dir) =
    Ok (mkServer (lit "testmod") [(lit "example.com", lit "v1.0.0")] (fun _ => []), false) /\
  go_deref (@None go_archive) = Panic /\ go_strings_ReplaceAll [] [] [] = Panic.
Proof. vm_compute. repeat split; reflexivity. Qed.

(* C13 — proofs about the model of used / Trim (CacheTrim.v).  The numeric content of the
   regenerated constants enters only through the lemmas of the first section ([consts_rel],
   [consts_range], [suffix_rel], [intervals_as_stated]): they are re-checked by computation
   against whatever cache.go says now, and everything below uses them as hypotheses. *)
From Coq Require Import List Bool ZArith Lia Sorted.
From Coq.Strings Require Import Byte.
From GI Require Import Lib.Bytes Gen.CacheTrimConsts CacheTrim.CacheTrim CacheTrim.CacheTrimTimeFacts.
Import ListNotations.
Local Open Scope Z_scope.

(* ------------------------------------------------------------------ the constants *)

Ltac decide_const := vm_compute; first [reflexivity | discriminate | (intro; discriminate)].

(* how the expressions in used/Trim relate to the three named intervals *)
Lemma consts_rel :
  used_threshold = mtime_interval /\ window_upper = trim_interval /\
  window_lower = - mtime_interval /\ cutoff_offset = - trim_limit - mtime_interval /\
  0 < mtime_interval /\ 0 < trim_interval /\ 0 < trim_limit /\
  trim_subdir_count = open_subdir_count /\ 0 <= trim_subdir_count /\
  parse_base = 10 /\ parse_bits = 64.
Proof. repeat split; decide_const. Qed.

(* they are durations an int64 holds *)
Lemma consts_range :
  min_duration < used_threshold <= max_duration /\
  min_duration < window_upper <= max_duration /\
  min_duration <= window_lower < max_duration /\
  i64 cutoff_offset /\ i64 trim_limit.
Proof. unfold i64. repeat split; decide_const. Qed.

(* the names get/OutputFile/putIndexEntry/copyFile build are candidates of trimSubdir *)
Lemma suffix_rel :
  In index_suffix trim_suffixes /\ In data_suffix trim_suffixes /\
  put_index_suffix = index_suffix /\ put_data_suffix = data_suffix /\
  index_suffix <> data_suffix.
Proof.
  repeat split; try reflexivity.
  - left. reflexivity.
  - right. left. reflexivity.
  - discriminate.
Qed.

(* the numbers the property text names: five days, one hour, one day (in nanoseconds) *)
Lemma intervals_as_stated :
  trim_limit = 5 * 24 * 3600 * nano /\ mtime_interval = 3600 * nano /\ trim_interval = 24 * 3600 * nano.
Proof. repeat split; reflexivity. Qed.

(* ------------------------------------------------------------------ names *)

Lemma beq_refl : forall b, beq b b = true.
Proof. intros b. unfold beq. apply Byte.byte_dec_lb. reflexivity. Qed.

Lemma has_prefix_app : forall p q, has_prefix p (p ++ q) = true.
Proof. induction p as [|x p IH]; simpl; intros q; [reflexivity|]. rewrite beq_refl. apply IH. Qed.

Lemma has_suffix_app : forall h s, has_suffix s (h ++ s) = true.
Proof. intros h s. unfold has_suffix. rewrite rev_app_distr. apply has_prefix_app. Qed.

Lemma is_entry_name_suffix : forall h s, In s trim_suffixes -> is_entry_name (h ++ s) = true.
Proof.
  intros h s H. unfold is_entry_name. apply existsb_exists. exists s. split; [exact H|].
  apply has_suffix_app.
Qed.

Lemma index_name_is_entry : forall h, is_entry_name (h ++ index_suffix) = true.
Proof. intros h. apply is_entry_name_suffix, suffix_rel. Qed.

Lemma data_name_is_entry : forall h, is_entry_name (h ++ data_suffix) = true.
Proof. intros h. apply is_entry_name_suffix, suffix_rel. Qed.

Lemma entry_names : forall h,
  is_entry_name (h ++ index_suffix) = true /\ is_entry_name (h ++ data_suffix) = true /\
  put_index_suffix = index_suffix /\ put_data_suffix = data_suffix.
Proof.
  intros h. split; [apply index_name_is_entry|]. split; [apply data_name_is_entry|].
  split; apply suffix_rel.
Qed.

Lemma bytes_eqb_eq : forall a b, bytes_eqb a b = true <-> a = b.
Proof.
  induction a as [|x a IH]; destruct b as [|y b]; simpl; split; intro H; try reflexivity; try discriminate.
  - apply andb_true_iff in H. destruct H as [H1 H2]. unfold beq in H1.
    apply Byte.byte_dec_bl in H1. apply IH in H2. congruence.
  - inversion H. subst. rewrite beq_refl. simpl. apply IH. reflexivity.
Qed.

Lemma bytes_eqb_refl : forall a, bytes_eqb a a = true.
Proof. intros a. apply bytes_eqb_eq. reflexivity. Qed.

(* ------------------------------------------------------------------ the window test *)

Lemma clamp_lt : forall D U, min_duration < U <= max_duration -> (clamp64 D <? U) = (D <? U).
Proof.
  intros D U H. unfold clamp64, min_duration, max_duration in *.
  destruct (D <? - two63) eqn:E1; [|destruct (D >? two63 - 1) eqn:E2];
    destruct (D <? U) eqn:E3; try (apply Z.ltb_lt); try (apply Z.ltb_ge); try reflexivity; lia.
Qed.

Lemma clamp_gt : forall D L, min_duration <= L < max_duration -> (clamp64 D >? L) = (D >? L).
Proof.
  intros D L H. unfold clamp64, min_duration, max_duration in *.
  rewrite !Z.gtb_ltb.
  destruct (D <? - two63) eqn:E1; [|destruct (two63 - 1 <? D) eqn:E2];
    destruct (L <? D) eqn:E3; try (apply Z.ltb_lt); try (apply Z.ltb_ge); try reflexivity; lia.
Qed.

Lemma clock_time_valid : forall now, clock_ok now ->
  valid (time_of_ns now) /\ ns_of (time_of_ns now) = now /\
  - (two63 - 1) < tsec (time_of_ns now) < two63 - 1.
Proof.
  intros now H. pose proof (clock_ns_ok now H) as Hok.
  split; [apply time_of_ns_valid; exact Hok|]. split; [apply ns_of_time_of_ns; exact Hok|].
  pose proof (clock_sec_bounds now H). unfold two63. lia.
Qed.

(* now.Sub(x) for a clock value and any valid time x *)
Lemma sub_clock : forall now x, clock_ok now -> valid x ->
  time_sub (time_of_ns now) x = clamp64 (now - ns_of x).
Proof.
  intros now x H Hx. destruct (clock_time_valid now H) as (Hv & Hns & Hb).
  rewrite time_sub_spec by assumption. rewrite Hns. reflexivity.
Qed.

Lemma time_unix_valid : forall t, valid (time_unix t 0).
Proof.
  intros t. split; simpl; [apply wrap64_range|]. unfold nano. lia.
Qed.

(* The window test of Trim, for EVERY int64 in trim.txt (time.Unix may wrap, Sub may
   saturate): it is the test on the mathematical difference now - t*10^9. *)
Lemma window_char : forall now t, clock_ok now -> i64 t ->
  let d := time_sub (time_of_ns now) (time_unix t 0) in
  (d <? window_upper) && (d >? window_lower) =
  (now - t * nano <? window_upper) && (now - t * nano >? window_lower).
Proof.
  intros now t Hc Ht. cbv zeta.
  rewrite (sub_clock now _ Hc (time_unix_valid t)).
  destruct consts_range as (_ & HU & HL & _).
  rewrite clamp_lt by exact HU. rewrite clamp_gt by exact HL.
  unfold ns_of, time_unix. simpl. rewrite Z.add_0_r.
  destruct (Z_lt_dec (t + unix_to_internal) two63) as [Hs|Hs].
  - rewrite wrap64_id by (unfold i64 in *; rewrite unix_to_internal_val in *; unfold two63 in *; lia).
    replace (t + unix_to_internal - unix_to_internal) with t by lia. reflexivity.
  - (* time.Unix wrapped: lastTrim is ~292 billion years in the past, Sub saturates to
       maxDuration; mathematically now - t*10^9 is hugely negative: both sides say "run" *)
    rewrite wrap64_high by (unfold i64 in *; rewrite unix_to_internal_val in *; unfold two63, two64 in *; lia).
    unfold min_duration, max_duration in *. destruct Hc as [Hc0 Hc1].
    rewrite unix_to_internal_val in *. unfold i64 in Ht.
    assert (F1 : (now - (t + 62135596800 - two64 - 62135596800) * nano <? window_upper) = false).
    { apply Z.ltb_ge. unfold two63, two64, nano in *. lia. }
    assert (F2 : (now - t * nano >? window_lower) = false).
    { rewrite Z.gtb_ltb. apply Z.ltb_ge. unfold two63, two64, nano in *. lia. }
    rewrite F1, F2. rewrite andb_false_r. reflexivity.
Qed.

(* trim_due in mathematical terms *)
Lemma trim_due_char : forall now data t, clock_ok now ->
  parse_int (trim_space data) = Some t ->
  trim_due now (Some data) =
  negb ((now - t * nano <? trim_interval) && (now - t * nano >? - mtime_interval)).
Proof.
  intros now data t Hc Hp. unfold trim_due. rewrite Hp.
  rewrite (window_char now t Hc (parse_int_range _ _ Hp)).
  destruct consts_rel as (_ & -> & -> & _). reflexivity.
Qed.

(* ------------------------------------------------------------------ cutoff, removal, used on one object *)

Lemma trim_cutoff_spec : forall now, clock_ok now ->
  trim_cutoff now = time_of_ns (now + cutoff_offset) /\ ns_ok (now + cutoff_offset).
Proof.
  intros now Hc. destruct (clock_time_valid now Hc) as (Hv & Hns & _).
  destruct consts_range as (_ & _ & _ & Hoff & _).
  assert (Hok : ns_ok (now + cutoff_offset)).
  { unfold ns_ok. rewrite unix_to_internal_val. destruct Hc. unfold i64, two63, nano in *. zlia. }
  split; [|exact Hok]. unfold trim_cutoff.
  rewrite time_add_spec; rewrite ?Hns; try assumption. reflexivity.
Qed.

Lemma trim_removes_spec : forall now o, clock_ok now -> ns_ok (omtime o) ->
  trim_removes (trim_cutoff now) o =
  is_entry_name (oname o) && stat_ok (okind_of o) && (omtime o <? now + cutoff_offset)
  && remove_ok (okind_of o).
Proof.
  intros now o Hc Hm. destruct (trim_cutoff_spec now Hc) as [-> Hok].
  unfold trim_removes.
  rewrite time_before_spec by (apply time_of_ns_valid; assumption).
  rewrite !ns_of_time_of_ns by assumption. reflexivity.
Qed.

Lemma used_obj_spec : forall u o, clock_ok u -> ns_ok (omtime o) ->
  used_obj u o =
  if stat_ok (okind_of o) then (if u - omtime o <? mtime_interval then o else set_mtime u o) else o.
Proof.
  intros u o Hc Hm. unfold used_obj.
  rewrite sub_clock by (try assumption; apply time_of_ns_valid; assumption).
  rewrite ns_of_time_of_ns by assumption.
  destruct consts_range as (HT & _). rewrite clamp_lt by exact HT.
  destruct consts_rel as (-> & _). reflexivity.
Qed.

(* ------------------------------------------------------------------ lists and directories *)

Lemma length_upd_nth : forall A (f : A -> A) l i, length (upd_nth i f l) = length l.
Proof. induction l as [|x r IH]; destruct i; simpl; auto. Qed.

Lemma nth_upd_nth : forall A (f : A -> A) (d : A) l i j,
  nth i (upd_nth j f l) d =
  if Nat.eqb i j && Nat.ltb i (length l) then f (nth i l d) else nth i l d.
Proof.
  induction l as [|x r IH]; intros i j.
  - destruct j; simpl; destruct i; rewrite andb_false_r; reflexivity.
  - destruct j as [|j]; destruct i as [|i]; simpl; try reflexivity.
    rewrite IH. reflexivity.
Qed.

Lemma subdir_upd : forall i j f c,
  subdir i (upd_subdir j f c) =
  if Nat.eqb i j && Nat.ltb i (length (subdirs c)) then f (subdir i c) else subdir i c.
Proof. intros. unfold subdir, upd_subdir. simpl. apply nth_upd_nth. Qed.

Lemma subdir_upd_pres : forall (P : list obj -> Prop) i j f c,
  P (subdir i c) -> (forall l, P l -> P (f l)) -> P (subdir i (upd_subdir j f c)).
Proof.
  intros P i j f c H Hf. rewrite subdir_upd.
  destruct (Nat.eqb i j && Nat.ltb i (length (subdirs c))); auto.
Qed.

(* establishing Q on the updated subdirectory from a fact R about its previous contents *)
Lemma subdir_upd_est : forall (Q R : list obj -> Prop) i f c,
  Q [] -> R (subdir i c) -> (forall l, R l -> Q (f l)) -> Q (subdir i (upd_subdir i f c)).
Proof.
  intros Q R i f c Q0 HR Hf. rewrite subdir_upd. rewrite Nat.eqb_refl. simpl.
  destruct (Nat.ltb i (length (subdirs c))) eqn:E; [auto|].
  unfold subdir. rewrite nth_overflow; [exact Q0|]. apply Nat.ltb_ge in E. exact E.
Qed.

Lemma In_upd_nth : forall A (f : A -> A) l j x,
  In x (upd_nth j f l) -> In x l \/ exists y, In y l /\ x = f y.
Proof.
  induction l as [|a r IH]; intros j x H; [destruct j; contradiction|].
  destruct j as [|j]; simpl in H.
  - destruct H as [<-|H]; [right; exists a; simpl; auto|left; simpl; auto].
  - destruct H as [<-|H]; [left; simpl; auto|].
    destruct (IH j x H) as [H1|(y & H1 & H2)]; [left; simpl; auto|right; exists y; simpl; auto].
Qed.

Definition objs_ok (l : list obj) : Prop := forall o, In o l -> ns_ok (omtime o).

Lemma dir_ok_subdir : forall c i, dir_ok c -> objs_ok (subdir i c).
Proof.
  intros c i H o Ho. unfold subdir in Ho.
  destruct (Nat.ltb i (length (subdirs c))) eqn:E.
  - apply Nat.ltb_lt in E. eapply H; [apply nth_In; exact E|exact Ho].
  - apply Nat.ltb_ge in E. rewrite nth_overflow in Ho by exact E. contradiction.
Qed.

Lemma dir_ok_upd : forall c j f, dir_ok c -> (forall l, objs_ok l -> objs_ok (f l)) ->
  dir_ok (upd_subdir j f c).
Proof.
  intros c j f H Hf l o Hl Ho. unfold upd_subdir in Hl. simpl in Hl.
  destruct (In_upd_nth _ _ _ _ _ Hl) as [H1|(y & H1 & ->)].
  - eapply H; eassumption.
  - apply (Hf y); [|exact Ho]. intros o' Ho'. eapply H; eassumption.
Qed.

Lemma nth_trim_subdirs : forall (f : list obj -> list obj) k l i, f [] = [] ->
  nth i (map f (firstn k l) ++ skipn k l) [] = if Nat.ltb i k then f (nth i l []) else nth i l [].
Proof.
  intros f k. induction k as [|k IH]; intros l i Hf.
  - simpl. reflexivity.
  - destruct l as [|x r].
    + simpl. destruct i; destruct (Nat.ltb _ _); auto.
    + destruct i as [|i]; simpl; [reflexivity|]. rewrite IH by exact Hf. reflexivity.
Qed.

Lemma subdir_trim : forall now c i,
  subdir i (trim now c) =
  if trim_due now (trimtxt c) && Nat.ltb i (Z.to_nat trim_subdir_count)
  then trim_subdir (trim_cutoff now) (subdir i c) else subdir i c.
Proof.
  intros now c i. unfold trim. destruct (trim_due now (trimtxt c)); [|reflexivity].
  unfold subdir. simpl. unfold trim_subdirs. rewrite nth_trim_subdirs by reflexivity. reflexivity.
Qed.

Lemma In_trim_subdir : forall cutoff l o,
  In o (trim_subdir cutoff l) <-> In o l /\ trim_removes cutoff o = false.
Proof.
  intros. unfold trim_subdir. rewrite filter_In. rewrite negb_true_iff. reflexivity.
Qed.

Lemma subdir_trim_sub : forall now c i o, In o (subdir i (trim now c)) -> In o (subdir i c).
Proof.
  intros now c i o. rewrite subdir_trim.
  destruct (trim_due now (trimtxt c) && Nat.ltb i (Z.to_nat trim_subdir_count)); [|auto].
  rewrite In_trim_subdir. tauto.
Qed.

Lemma subdir_trim_keep : forall now c i o, In o (subdir i c) ->
  trim_removes (trim_cutoff now) o = false -> In o (subdir i (trim now c)).
Proof.
  intros now c i o Ho Hk. rewrite subdir_trim.
  destruct (trim_due now (trimtxt c) && Nat.ltb i (Z.to_nat trim_subdir_count)); [|auto].
  rewrite In_trim_subdir. tauto.
Qed.

(* ------------------------------------------------------------------ the primitives on one subdirectory *)

Lemma used_obj_cases : forall u o, used_obj u o = o \/ used_obj u o = set_mtime u o.
Proof.
  intros u o. unfold used_obj. destruct (stat_ok (okind_of o)); [|auto].
  destruct (_ <? _); auto.
Qed.

Lemma on_name_cases : forall nm f o,
  on_name nm f o = o \/ (oname o = nm /\ on_name nm f o = f o).
Proof.
  intros nm f o. unfold on_name. destruct (bytes_eqb (oname o) nm) eqn:E; [|auto].
  right. split; [apply bytes_eqb_eq; exact E|reflexivity].
Qed.

Lemma has_name_false : forall nm l, has_name nm l = false -> forall o, In o l -> oname o <> nm.
Proof.
  intros nm l H o Ho E. unfold has_name in H.
  assert (existsb (fun o => bytes_eqb (oname o) nm) l = true).
  { apply existsb_exists. exists o. split; [exact Ho|]. apply bytes_eqb_eq. exact E. }
  congruence.
Qed.

Section Track.
  (* the file [n] of some subdirectory, a use of it at time [u], and the kinds [kp] of
     object the statement is about (regular files; or everything os.Stat accepts) *)
  Variable n : bytes.
  Variable u : Z.
  Variable kp : okind -> bool.

  Definition fresh (o : obj) : Prop :=
    oname o = n -> kp (okind_of o) = true -> u - mtime_interval <= omtime o.

  (* every tracked object of that name carries an mtime no older than u - mtimeInterval *)
  Definition K (l : list obj) : Prop := forall o, In o l -> fresh o.

  (* and there is one *)
  Definition E (l : list obj) : Prop :=
    exists o, In o l /\ oname o = n /\ kp (okind_of o) = true /\
              u - mtime_interval <= omtime o /\ ns_ok (omtime o).

  (* --- objs_ok is preserved by everything *)

  Lemma ok_used : forall u' nm l, clock_ok u' -> objs_ok l -> objs_ok (map (on_name nm (used_obj u')) l).
  Proof.
    intros u' nm l Hc H o Ho. apply in_map_iff in Ho. destruct Ho as (x & <- & Hx).
    destruct (on_name_cases nm (used_obj u') x) as [->|[_ ->]]; [apply H; exact Hx|].
    destruct (used_obj_cases u' x) as [->| ->]; [apply H; exact Hx|].
    simpl. apply clock_ns_ok. exact Hc.
  Qed.

  Lemma ok_put : forall u' nm d l, clock_ok u' -> objs_ok l -> objs_ok (put_file u' nm d l).
  Proof.
    intros u' nm d l Hc H o Ho. unfold put_file in Ho. destruct (has_name nm l).
    - apply in_map_iff in Ho. destruct Ho as (x & <- & Hx).
      destruct (on_name_cases nm (fun o0 => match okind_of o0 with KFile => mkObj nm u' d KFile | _ => o0 end) x)
        as [->|[_ ->]]; [apply H; exact Hx|].
      destruct (okind_of x); try (apply H; exact Hx). simpl. apply clock_ns_ok. exact Hc.
    - apply in_app_or in Ho. destruct Ho as [Ho|[<-|[]]]; [apply H; exact Ho|].
      simpl. apply clock_ns_ok. exact Hc.
  Qed.

  Lemma ok_store_data : forall r u' nm d l, clock_ok u' -> objs_ok l -> objs_ok (store_data r u' nm d l).
  Proof.
    intros r u' nm d l Hc H. unfold store_data. destruct (has_content nm d l).
    - destruct r; [apply ok_used; assumption|exact H].
    - apply ok_put; assumption.
  Qed.

  Lemma ok_trim : forall cutoff l, objs_ok l -> objs_ok (trim_subdir cutoff l).
  Proof. intros cutoff l H o Ho. apply In_trim_subdir in Ho. apply H. tauto. Qed.

  (* --- K is preserved by every primitive at a time u' >= u *)

  Lemma K_used : forall u' nm l, u <= u' -> K l -> K (map (on_name nm (used_obj u')) l).
  Proof.
    intros u' nm l Hu H o Ho. apply in_map_iff in Ho. destruct Ho as (x & <- & Hx).
    destruct (on_name_cases nm (used_obj u') x) as [->|[_ ->]]; [apply H; exact Hx|].
    destruct (used_obj_cases u' x) as [->| ->]; [apply H; exact Hx|].
    intros _ _. simpl. destruct consts_rel as (_ & _ & _ & _ & Hm & _). lia.
  Qed.

  Lemma K_put : forall u' nm d l, u <= u' -> K l -> K (put_file u' nm d l).
  Proof.
    intros u' nm d l Hu H o Ho. destruct consts_rel as (_ & _ & _ & _ & Hm & _).
    unfold put_file in Ho. destruct (has_name nm l).
    - apply in_map_iff in Ho. destruct Ho as (x & <- & Hx).
      destruct (on_name_cases nm (fun o0 => match okind_of o0 with KFile => mkObj nm u' d KFile | _ => o0 end) x)
        as [->|[_ ->]]; [apply H; exact Hx|].
      destruct (okind_of x) eqn:Ek; try (apply H; exact Hx). intros _ _. simpl. lia.
    - apply in_app_or in Ho. destruct Ho as [Ho|[<-|[]]]; [apply H; exact Ho|].
      intros _ _. simpl. lia.
  Qed.

  Lemma K_store_data : forall r u' nm d l, u <= u' -> K l -> K (store_data r u' nm d l).
  Proof.
    intros r u' nm d l Hu H. unfold store_data. destruct (has_content nm d l).
    - destruct r; [apply K_used; assumption|exact H].
    - apply K_put; assumption.
  Qed.

  Lemma K_trim : forall cutoff l, K l -> K (trim_subdir cutoff l).
  Proof. intros cutoff l H o Ho. apply In_trim_subdir in Ho. apply H. tauto. Qed.

  (* --- E is preserved by the primitives at u' >= u, and by a trim at u' <= u + trimLimit *)

  Lemma E_map : forall (g : obj -> obj) u' l, u <= u' -> clock_ok u' ->
    (forall o, oname (g o) = oname o /\ okind_of (g o) = okind_of o /\ (omtime (g o) = omtime o \/ omtime (g o) = u')) ->
    E l -> E (map g l).
  Proof.
    intros g u' l Hu Hc Hg (o & Ho & Hn & Hk & Hm & Hok).
    destruct consts_rel as (_ & _ & _ & _ & Hmi & _).
    exists (g o). destruct (Hg o) as (G1 & G2 & G3).
    split; [apply in_map; exact Ho|]. rewrite G1, G2. split; [exact Hn|]. split; [exact Hk|].
    destruct G3 as [-> | ->]; [auto|]. split; [lia|apply clock_ns_ok; exact Hc].
  Qed.

  Lemma used_obj_shape : forall u' nm o,
    oname (on_name nm (used_obj u') o) = oname o /\
    okind_of (on_name nm (used_obj u') o) = okind_of o /\
    odata (on_name nm (used_obj u') o) = odata o /\
    (omtime (on_name nm (used_obj u') o) = omtime o \/ omtime (on_name nm (used_obj u') o) = u').
  Proof.
    intros u' nm o. destruct (on_name_cases nm (used_obj u') o) as [->|[_ ->]]; [auto|].
    destruct (used_obj_cases u' o) as [->| ->]; simpl; auto.
  Qed.

  Lemma E_used : forall u' nm l, u <= u' -> clock_ok u' -> E l -> E (map (on_name nm (used_obj u')) l).
  Proof.
    intros u' nm l Hu Hc. apply (E_map _ u'); try assumption.
    intros o. destruct (used_obj_shape u' nm o) as (A & B & _ & C). auto.
  Qed.

  Hypothesis kp_file : forall k, kp k = true -> k = KFile.

  Lemma E_put : forall u' nm d l, u <= u' -> clock_ok u' -> E l -> E (put_file u' nm d l).
  Proof.
    intros u' nm d l Hu Hc HE. unfold put_file. destruct (has_name nm l).
    - revert HE. apply (E_map _ u'); try assumption. intros o.
      destruct (on_name_cases nm (fun o0 => match okind_of o0 with KFile => mkObj nm u' d KFile | _ => o0 end) o)
        as [->|[Hnm ->]]; [auto|].
      destruct (okind_of o) eqn:Ek; simpl; auto.
    - destruct HE as (o & Ho & R). exists o. split; [apply in_or_app; left; exact Ho|exact R].
  Qed.

  Lemma E_store_data : forall r u' nm d l, u <= u' -> clock_ok u' -> E l -> E (store_data r u' nm d l).
  Proof.
    intros r u' nm d l Hu Hc HE. unfold store_data. destruct (has_content nm d l).
    - destruct r; [apply E_used; assumption|exact HE].
    - apply E_put; assumption.
  Qed.

  Lemma E_trim : forall u' l, clock_ok u' -> u' <= u + trim_limit -> E l -> E (trim_subdir (trim_cutoff u') l).
  Proof.
    intros u' l Hc Hu (o & Ho & Hn & Hk & Hm & Hok).
    exists o. split; [|auto]. apply In_trim_subdir. split; [exact Ho|].
    rewrite trim_removes_spec by assumption.
    destruct consts_rel as (_ & _ & _ & Hoff & _).
    assert (F : (omtime o <? u' + cutoff_offset) = false) by (apply Z.ltb_ge; lia).
    rewrite F. rewrite andb_false_r. reflexivity.
  Qed.

  (* --- a use at time u establishes K *)

  Hypothesis kp_stat : forall k, kp k = true -> stat_ok k = true.

  Lemma K_est_used : forall l, clock_ok u -> objs_ok l -> K (map (on_name n (used_obj u)) l).
  Proof.
    intros l Hc Hok o Ho. apply in_map_iff in Ho. destruct Ho as (x & <- & Hx).
    unfold on_name. destruct (bytes_eqb (oname x) n) eqn:En.
    - intros _ Hk. rewrite used_obj_spec in * by (try assumption; apply Hok; exact Hx).
      assert (Hs : stat_ok (okind_of x) = true).
      { apply kp_stat. destruct (stat_ok (okind_of x)); [|exact Hk].
        destruct (u - omtime x <? mtime_interval); exact Hk. }
      rewrite Hs. destruct (u - omtime x <? mtime_interval) eqn:Et.
      + apply Z.ltb_lt in Et. lia.
      + simpl. destruct consts_rel as (_ & _ & _ & _ & Hm & _). lia.
    - intros Hn. exfalso. apply bytes_eqb_eq in Hn. congruence.
  Qed.

  Lemma K_est_put : forall d l, K (put_file u n d l).
  Proof.
    intros d l o Ho. destruct consts_rel as (_ & _ & _ & _ & Hm & _).
    unfold put_file in Ho. destruct (has_name n l) eqn:Eh.
    - apply in_map_iff in Ho. destruct Ho as (x & <- & Hx).
      unfold on_name. destruct (bytes_eqb (oname x) n) eqn:En.
      + destruct (okind_of x) eqn:Ek; intros _ Hk; simpl in *; try lia;
          rewrite Ek in Hk; apply kp_file in Hk; discriminate.
      + intros Hn. exfalso. apply bytes_eqb_eq in Hn. congruence.
    - apply in_app_or in Ho. destruct Ho as [Ho|[<-|[]]].
      + intros Hn. exfalso. eapply has_name_false; eassumption.
      + intros _ _. simpl. lia.
  Qed.

  Lemma K_est_store_data : forall d l, clock_ok u -> objs_ok l -> K (store_data true u n d l).
  Proof.
    intros d l Hc Hok. unfold store_data. destruct (has_content n d l).
    - apply K_est_used; assumption.
    - apply K_est_put.
  Qed.

  (* the code as it stood: a data file with the right content is not refreshed *)
  Lemma K_est_store_data_asis : forall d l, has_content n d l = false -> K (store_data false u n d l).
  Proof. intros d l H. unfold store_data. rewrite H. apply K_est_put. Qed.

End Track.

(* ------------------------------------------------------------------ events *)

Definition is_file (k : okind) : bool := okind_eqb k KFile.

Lemma is_file_file : forall k, is_file k = true -> k = KFile.
Proof. destruct k; simpl; intro H; try discriminate; reflexivity. Qed.

Lemma is_file_stat : forall k, is_file k = true -> stat_ok k = true.
Proof. destruct k; simpl; intro H; try discriminate; reflexivity. Qed.

Lemma stat_stat : forall k, stat_ok k = true -> stat_ok k = true.
Proof. auto. Qed.

Lemma dir_ok_step : forall r c e, dir_ok c -> clock_ok (etime e) -> dir_ok (step r c e).
Proof.
  intros r c e H Hc. destruct e; simpl in *.
  - unfold used. apply dir_ok_upd; [exact H|]. intros l. apply ok_used. exact Hc.
  - unfold lookup, used. apply dir_ok_upd; [apply dir_ok_upd; [exact H|]|]; intros l; apply ok_used; exact Hc.
  - unfold store. apply dir_ok_upd; [apply dir_ok_upd; [exact H|]|]; intros l.
    + apply ok_put. exact Hc.
    + apply ok_store_data. exact Hc.
  - intros l o Hl Ho. unfold trim in Hl. destruct (trim_due u (trimtxt c)); [|eapply H; eassumption].
    simpl in Hl. unfold trim_subdirs in Hl. apply in_app_or in Hl. destruct Hl as [Hl|Hl].
    + apply in_map_iff in Hl. destruct Hl as (x & <- & Hx). apply In_trim_subdir in Ho.
      eapply H; [|apply Ho].
      rewrite <- (firstn_skipn (Z.to_nat trim_subdir_count) (subdirs c)). apply in_or_app. left. exact Hx.
    + eapply H; [|exact Ho].
      rewrite <- (firstn_skipn (Z.to_nat trim_subdir_count) (subdirs c)). apply in_or_app. right. exact Hl.
Qed.

Lemma dir_ok_run : forall r h c, dir_ok c -> Forall (fun e => clock_ok (etime e)) h -> dir_ok (run r c h).
Proof.
  intros r h. induction h as [|e h IH]; intros c H Hc; [exact H|].
  inversion Hc; subst. simpl. apply IH; [apply dir_ok_step; assumption|assumption].
Qed.

Section TrackDir.
  Variable i : nat.
  Variable n : bytes.
  Variable u : Z.
  Variable kp : okind -> bool.

  (* any later event keeps the mtime bound of the tracked file *)
  Lemma K_step : forall r c e, u <= etime e -> K n u kp (subdir i c) -> K n u kp (subdir i (step r c e)).
  Proof.
    intros r c e Hu H. destruct e; simpl in *.
    - unfold used. apply subdir_upd_pres; [exact H|]. intros l. apply K_used. exact Hu.
    - unfold lookup, used.
      apply subdir_upd_pres; [apply subdir_upd_pres; [exact H|]|]; intros l; apply K_used; exact Hu.
    - unfold store. apply subdir_upd_pres; [apply subdir_upd_pres; [exact H|]|]; intros l.
      + apply K_put. exact Hu.
      + apply K_store_data. exact Hu.
    - rewrite subdir_trim. destruct (_ && _); [apply K_trim|]; exact H.
  Qed.

  (* an event within trimLimit after the use keeps the tracked file in existence *)
  Lemma E_step : forall r c e, clock_ok (etime e) -> u <= etime e <= u + trim_limit ->
    E n u kp (subdir i c) -> E n u kp (subdir i (step r c e)).
  Proof.
    intros r c e Hc [Hu Hl] H. destruct e; simpl in *.
    - unfold used. apply subdir_upd_pres; [exact H|]. intros l. apply E_used; assumption.
    - unfold lookup, used.
      apply subdir_upd_pres; [apply subdir_upd_pres; [exact H|]|]; intros l; apply E_used; assumption.
    - unfold store. apply subdir_upd_pres; [apply subdir_upd_pres; [exact H|]|]; intros l.
      + apply E_put; assumption.
      + apply E_store_data; assumption.
    - rewrite subdir_trim. destruct (_ && _); [apply E_trim; assumption|exact H].
  Qed.

  Lemma K_run : forall r h c, Forall (fun e => u <= etime e) h ->
    K n u kp (subdir i c) -> K n u kp (subdir i (run r c h)).
  Proof.
    intros r h. induction h as [|e h IH]; intros c Hh H; [exact H|].
    inversion Hh; subst. simpl. apply IH; [assumption|]. apply K_step; assumption.
  Qed.

  Lemma E_run : forall r h c, Forall (fun e => clock_ok (etime e) /\ u <= etime e <= u + trim_limit) h ->
    E n u kp (subdir i c) -> E n u kp (subdir i (run r c h)).
  Proof.
    intros r h. induction h as [|e h IH]; intros c Hh H; [exact H|].
    inversion Hh as [|? ? [Hc Hb] Hrest]; subst. simpl. apply IH; [assumption|]. apply E_step; assumption.
  Qed.

  Lemma K_nil : K n u kp [].
  Proof. intros o []. Qed.

  (* a lookup (Get / GetFile / GetBytes) at time u establishes the bound for everything
     os.Stat accepts under that name *)
  Lemma K_est_lookup_step : forall r c e, (forall k, kp k = true -> stat_ok k = true) ->
    dir_ok c -> clock_ok u -> etime e = u -> uses e i n ->
    match e with EStore _ _ _ _ _ _ _ => False | _ => True end ->
    K n u kp (subdir i (step r c e)).
  Proof.
    intros r c e Hkp Hok Hc Ht Hu Hns. destruct e; simpl in *; subst; try contradiction.
    - destruct Hu as [-> ->]. unfold used.
      apply (subdir_upd_est (K n u kp) objs_ok); [apply K_nil|apply dir_ok_subdir; exact Hok|].
      intros l Hl. apply K_est_used; assumption.
    - unfold lookup. destruct Hu as [[-> ->]|[-> ->]].
      + unfold used at 1. apply subdir_upd_pres; [|intros l; apply K_used; lia].
        apply (subdir_upd_est (K n u kp) objs_ok); [apply K_nil|apply dir_ok_subdir; exact Hok|].
        intros l Hl. apply K_est_used; assumption.
      + unfold used at 1.
        apply (subdir_upd_est (K n u kp) objs_ok); [apply K_nil| |].
        * apply dir_ok_subdir. apply (dir_ok_step r c (EGet u ia na)); assumption.
        * intros l Hl. apply K_est_used; assumption.
  Qed.

  (* a store at time u establishes it for the regular files, when the repaired Put is modelled *)
  Lemma K_est_store_step : forall c u0 ia na da id nd dd, (forall k, kp k = true -> k = KFile) ->
    dir_ok c -> clock_ok u -> u0 = u -> uses (EStore u0 ia na da id nd dd) i n ->
    K n u kp (subdir i (step true c (EStore u0 ia na da id nd dd))).
  Proof.
    intros c u0 ia na da id nd dd Hkp Hok Hc -> Hu. simpl in *. unfold store.
    assert (Hks : forall k, kp k = true -> stat_ok k = true).
    { intros k Hk. apply Hkp in Hk. subst. reflexivity. }
    destruct Hu as [[-> ->]|[-> ->]].
    - apply subdir_upd_pres; [|intros l; apply K_store_data; lia].
      apply (subdir_upd_est (K n u kp) (fun _ => True)); [apply K_nil|exact I|].
      intros l _. apply K_est_put. exact Hkp.
    - apply (subdir_upd_est (K n u kp) objs_ok); [apply K_nil| |].
      + apply dir_ok_subdir. apply dir_ok_upd; [exact Hok|]. intros l. apply ok_put. exact Hc.
      + intros l Hl. apply K_est_store_data; assumption.
  Qed.

  (* the code as it stood: only when the store writes the data file (or the file is the index file) *)
  Lemma K_est_store_step_asis : forall c u0 ia na da id nd dd, (forall k, kp k = true -> k = KFile) ->
    clock_ok u -> u0 = u -> uses (EStore u0 ia na da id nd dd) i n ->
    ((ia = i /\ na = n) \/
     has_content nd dd (subdir id (upd_subdir ia (put_file u0 na da) c)) = false) ->
    K n u kp (subdir i (step false c (EStore u0 ia na da id nd dd))).
  Proof.
    intros c u0 ia na da id nd dd Hkp Hc -> Hu Hcond. simpl in *. unfold store.
    destruct Hcond as [[-> ->]|Hnc].
    - apply subdir_upd_pres; [|intros l; apply K_store_data; lia].
      apply (subdir_upd_est (K n u kp) (fun _ => True)); [apply K_nil|exact I|].
      intros l _. apply K_est_put. exact Hkp.
    - destruct Hu as [[-> ->]|[-> ->]].
      + apply subdir_upd_pres; [|intros l; apply K_store_data; lia].
        apply (subdir_upd_est (K n u kp) (fun _ => True)); [apply K_nil|exact I|].
        intros l _. apply K_est_put. exact Hkp.
      + apply (subdir_upd_est (K n u kp) (fun l => has_content n dd l = false)); [apply K_nil|exact Hnc|].
        intros l Hl. apply K_est_store_data_asis; assumption.
  Qed.
End TrackDir.

(* ================================================================== the theorems of C13 *)

(* ---- when Trim does nothing, when it runs *)

Lemma record_dichotomy : forall now record, record_in_window now record \/ record_stale now record.
Proof.
  intros now [data|]; [|right; left; reflexivity].
  destruct (parse_int (trim_space data)) as [t|] eqn:Ep.
  - destruct (Z_lt_dec (- mtime_interval) (now - t * nano)) as [H1|H1];
      [destruct (Z_lt_dec (now - t * nano) trim_interval) as [H2|H2]|].
    + left. exists data, t. auto.
    + right. right. exists data. split; [reflexivity|]. right. exists t. split; [exact Ep|]. left. lia.
    + right. right. exists data. split; [reflexivity|]. right. exists t. split; [exact Ep|]. right. lia.
  - right. right. exists data. split; [reflexivity|]. left. exact Ep.
Qed.

Lemma in_window_not_due : forall now record, clock_ok now ->
  record_in_window now record -> trim_due now record = false.
Proof.
  intros now record Hc (data & t & -> & Hp & Hlo & Hhi).
  rewrite (trim_due_char now data t Hc Hp).
  assert (A : (now - t * nano <? trim_interval) = true) by (apply Z.ltb_lt; exact Hhi).
  assert (B : (now - t * nano >? - mtime_interval) = true) by (rewrite Z.gtb_ltb; apply Z.ltb_lt; exact Hlo).
  rewrite A, B. reflexivity.
Qed.

Lemma stale_due : forall now record, clock_ok now -> record_stale now record -> trim_due now record = true.
Proof.
  intros now record Hc [->|(data & -> & [Hp|(t & Hp & Hw)])]; [reflexivity| |].
  - unfold trim_due. rewrite Hp. reflexivity.
  - rewrite (trim_due_char now data t Hc Hp). apply negb_true_iff. destruct Hw as [Hw|Hw].
    + assert (A : (now - t * nano <? trim_interval) = false) by (apply Z.ltb_ge; exact Hw).
      rewrite A. reflexivity.
    + assert (B : (now - t * nano >? - mtime_interval) = false) by (rewrite Z.gtb_ltb; apply Z.ltb_ge; exact Hw).
      rewrite B. apply andb_false_r.
Qed.

Theorem trim_skips : forall now c, clock_ok now ->
  record_in_window now (trimtxt c) -> trim now c = c.
Proof.
  intros now c Hc Hw. unfold trim. rewrite in_window_not_due by assumption. reflexivity.
Qed.

Lemma clock_unix_seconds : forall now, clock_ok now ->
  time_unix_seconds (time_of_ns now) = now / nano /\ i64 (now / nano).
Proof.
  intros now Hc. unfold time_unix_seconds.
  rewrite time_of_ns_sec by (apply clock_ns_ok; exact Hc).
  assert (Hi : i64 (now / nano)).
  { destruct Hc. unfold i64, two63, nano in *. zlia. }
  split; [|exact Hi].
  replace (now / nano + unix_to_internal - unix_to_internal) with (now / nano) by lia.
  apply wrap64_id. exact Hi.
Qed.

Theorem trim_runs_otherwise : forall now c, clock_ok now -> record_stale now (trimtxt c) ->
  trim now c = trimmed now c /\
  parse_int (trim_space (decimal (now / nano))) = Some (now / nano).
Proof.
  intros now c Hc Hs. destruct (clock_unix_seconds now Hc) as [Hu Hi]. split.
  - unfold trim, trimmed. rewrite stale_due by assumption. rewrite Hu. reflexivity.
  - rewrite trim_space_decimal. apply decimal_parse. exact Hi.
Qed.

(* a trim that ran is followed by skips for (a day minus the second the record loses) *)
Theorem trim_then_skips : forall now now' c, clock_ok now -> clock_ok now' ->
  record_stale now (trimtxt c) -> now <= now' -> now' - now < trim_interval - nano ->
  trim now' (trim now c) = trim now c.
Proof.
  intros now now' c Hc Hc' Hs Hle Hlt.
  destruct (trim_runs_otherwise now c Hc Hs) as [-> Hp].
  apply trim_skips; [exact Hc'|]. unfold trimmed. simpl.
  exists (decimal (now / nano)), (now / nano). split; [reflexivity|]. split; [exact Hp|].
  destruct consts_rel as (_ & _ & _ & _ & Hm & _). unfold nano in *. zlia.
Qed.

(* ---- used *)

Theorem used_keeps : forall u o, clock_ok u -> ns_ok (omtime o) -> stat_ok (okind_of o) = true ->
  let o' := used_obj u o in
  omtime o' = (if u - omtime o <? mtime_interval then omtime o else u) /\
  u - mtime_interval <= omtime o' /\ omtime o <= omtime o' /\
  oname o' = oname o /\ odata o' = odata o /\ okind_of o' = okind_of o.
Proof.
  intros u o Hc Hm Hs. cbv zeta. rewrite used_obj_spec by assumption. rewrite Hs.
  destruct consts_rel as (_ & _ & _ & _ & Hmi & _).
  destruct (u - omtime o <? mtime_interval) eqn:Et.
  - apply Z.ltb_lt in Et. repeat split; try reflexivity; lia.
  - apply Z.ltb_ge in Et. simpl. repeat split; try reflexivity; lia.
Qed.

(* ---- Trim on one object *)

Theorem trim_keeps_recent : forall now c i o lastuse, clock_ok now -> ns_ok (omtime o) ->
  In o (subdir i c) ->
  lastuse - mtime_interval <= omtime o ->     (* the invariant used maintains *)
  now - trim_limit <= lastuse ->              (* used within trimLimit *)
  In o (subdir i (trim now c)).
Proof.
  intros now c i o lu Hc Hm Ho Hinv Hlu. apply subdir_trim_keep; [exact Ho|].
  rewrite trim_removes_spec by assumption.
  destruct consts_rel as (_ & _ & _ & Hoff & _).
  assert (F : (omtime o <? now + cutoff_offset) = false) by (apply Z.ltb_ge; lia).
  rewrite F. rewrite andb_false_r. reflexivity.
Qed.

Theorem trim_removes_stale : forall now c i o, clock_ok now -> record_stale now (trimtxt c) ->
  (i < Z.to_nat trim_subdir_count)%nat -> ns_ok (omtime o) ->
  is_entry_name (oname o) = true -> okind_of o = KFile ->
  omtime o < now - trim_limit - mtime_interval ->
  ~ In o (subdir i (trim now c)).
Proof.
  intros now c i o Hc Hs Hi Hm Hn Hk Hold Hin.
  rewrite subdir_trim in Hin. rewrite stale_due in Hin by assumption.
  apply Nat.ltb_lt in Hi. rewrite Hi in Hin. simpl in Hin.
  apply In_trim_subdir in Hin. destruct Hin as [_ Hkeep].
  rewrite trim_removes_spec in Hkeep by assumption.
  destruct consts_rel as (_ & _ & _ & Hoff & _).
  assert (T : (omtime o <? now + cutoff_offset) = true) by (apply Z.ltb_lt; lia).
  rewrite Hn, Hk, T in Hkeep. discriminate.
Qed.

Lemma filter_non_entry_trim : forall cutoff l,
  filter non_entry (trim_subdir cutoff l) = filter non_entry l.
Proof.
  intros cutoff l. unfold trim_subdir. induction l as [|o l IH]; [reflexivity|].
  simpl. unfold non_entry at 2. unfold trim_removes at 1.
  destruct (is_entry_name (oname o)) eqn:En; simpl.
  - destruct (negb _); simpl; [unfold non_entry at 1; rewrite En; simpl|]; exact IH.
  - unfold non_entry at 1. rewrite En. simpl. f_equal. exact IH.
Qed.

Theorem trim_only_entries : forall now c,
  rootobjs (trim now c) = rootobjs c /\
  length (subdirs (trim now c)) = length (subdirs c) /\
  forall i,
    (forall o, In o (subdir i (trim now c)) -> In o (subdir i c)) /\
    filter non_entry (subdir i (trim now c)) = filter non_entry (subdir i c) /\
    (forall o, In o (subdir i c) ->
       is_entry_name (oname o) = false \/ stat_ok (okind_of o) = false \/ remove_ok (okind_of o) = false ->
       In o (subdir i (trim now c))) /\
    ((Z.to_nat trim_subdir_count <= i)%nat -> subdir i (trim now c) = subdir i c).
Proof.
  intros now c. split; [|split].
  - unfold trim. destruct (trim_due now (trimtxt c)); reflexivity.
  - unfold trim. destruct (trim_due now (trimtxt c)); [|reflexivity]. simpl.
    unfold trim_subdirs. rewrite app_length, map_length, <- app_length, firstn_skipn. reflexivity.
  - intros i. split; [|split; [|split]].
    + intros o. apply subdir_trim_sub.
    + rewrite subdir_trim. destruct (_ && _); [apply filter_non_entry_trim|reflexivity].
    + intros o Ho Hwhy. apply subdir_trim_keep; [exact Ho|]. unfold trim_removes.
      destruct Hwhy as [-> |[-> | ->]]; simpl; rewrite ?andb_false_r; reflexivity.
    + intros Hi. rewrite subdir_trim. apply Nat.ltb_ge in Hi. rewrite Hi. rewrite andb_false_r. reflexivity.
Qed.

(* ---- lookups and histories *)

Lemma used_keeps_objects : forall u j nm c i o, In o (subdir i c) ->
  exists o', In o' (subdir i (used u j nm c)) /\ oname o' = oname o /\ odata o' = odata o /\
             okind_of o' = okind_of o.
Proof.
  intros u j nm c i o Ho. unfold used. rewrite subdir_upd.
  destruct (Nat.eqb i j && Nat.ltb i (length (subdirs c))).
  - exists (on_name nm (used_obj u) o). split; [apply in_map; exact Ho|].
    destruct (used_obj_shape u nm o) as (A & B & C & _). auto.
  - exists o. auto.
Qed.

Theorem lookup_refreshes : forall c u now ia na id nd, dir_ok c -> clock_ok u -> clock_ok now ->
  now <= u + trim_limit ->
  let c' := lookup u ia na id nd c in
  forall i n, (i = ia /\ n = na) \/ (i = id /\ n = nd) ->
  (forall o, In o (subdir i c) -> oname o = n ->
     exists o', In o' (subdir i c') /\ oname o' = n /\ odata o' = odata o /\ okind_of o' = okind_of o) /\
  (forall o', In o' (subdir i c') -> oname o' = n -> stat_ok (okind_of o') = true ->
     u - mtime_interval <= omtime o' /\ In o' (subdir i (trim now c'))).
Proof.
  intros c u now ia na id nd Hok Hc Hn Hle c' i n Hwhich. split.
  - intros o Ho Hname. unfold c', lookup.
    destruct (used_keeps_objects u ia na c i o Ho) as (o1 & H1 & A1 & B1 & C1).
    destruct (used_keeps_objects u id nd _ i o1 H1) as (o2 & H2 & A2 & B2 & C2).
    exists o2. split; [exact H2|]. rewrite A2, A1, B2, B1, C2, C1. auto.
  - intros o' Ho' Hname Hstat.
    assert (HK : K n u stat_ok (subdir i c')).
    { apply (K_est_lookup_step i n u stat_ok true c (ELookup u ia na id nd)); auto.
      simpl. destruct Hwhich as [[-> ->]|[-> ->]]; auto. }
    assert (Hb : u - mtime_interval <= omtime o') by (apply (HK o' Ho'); assumption).
    split; [exact Hb|].
    assert (Hok' : dir_ok c') by (apply (dir_ok_step true c (ELookup u ia na id nd)); assumption).
    apply subdir_trim_keep; [exact Ho'|].
    rewrite trim_removes_spec; [|assumption|eapply dir_ok_subdir; eassumption].
    destruct consts_rel as (_ & _ & _ & Hoff & _).
    assert (F : (omtime o' <? now + cutoff_offset) = false) by (apply Z.ltb_ge; lia).
    rewrite F. rewrite andb_false_r. reflexivity.
Qed.

Lemma run_app : forall r c a b, run r c (a ++ b) = run r (run r c a) b.
Proof. intros. unfold run. apply fold_left_app. Qed.

Lemma sorted_split : forall (R : event -> event -> Prop) pre e post,
  StronglySorted R (pre ++ e :: post) -> Forall (R e) post.
Proof.
  intros R pre. induction pre as [|x pre IH]; intros e post H; simpl in H.
  - apply StronglySorted_inv in H. tauto.
  - apply StronglySorted_inv in H. apply IH. tauto.
Qed.

(* a use at its own time establishes the bound, in the repaired model *)
Lemma K_est_step : forall c e i n, dir_ok c -> clock_ok (etime e) -> uses e i n ->
  K n (etime e) is_file (subdir i (step true c e)).
Proof.
  intros c e i n Hok Hc Hu. destruct e.
  - apply K_est_lookup_step; auto using is_file_stat.
  - apply K_est_lookup_step; auto using is_file_stat.
  - apply K_est_store_step; auto using is_file_file.
  - contradiction.
Qed.

Lemma K_est_step_asis : forall c e i n, dir_ok c -> clock_ok (etime e) -> uses e i n ->
  store_refreshes c e i n -> K n (etime e) is_file (subdir i (step false c e)).
Proof.
  intros c e i n Hok Hc Hu Hsr. destruct e.
  - apply K_est_lookup_step; auto using is_file_stat.
  - apply K_est_lookup_step; auto using is_file_stat.
  - apply K_est_store_step_asis; auto using is_file_file.
  - contradiction.
Qed.

(* The invariant behind trim_keeps_recent, for every history with a monotone clock: the mtime
   of a regular file is never older than (any of its uses) - mtimeInterval. *)
Theorem lastuse_invariant : forall c h, dir_ok c ->
  Forall (fun e => clock_ok (etime e)) h ->
  StronglySorted (fun a b => etime a <= etime b) h ->
  forall e i n o, In e h -> uses e i n ->
  In o (subdir i (run true c h)) -> oname o = n -> okind_of o = KFile ->
  etime e - mtime_interval <= omtime o.
Proof.
  intros c h Hok Hc Hs e i n o He Hu Ho Hn Hk.
  destruct (in_split e h He) as (pre & post & ->).
  rewrite run_app in Ho. simpl in Ho.
  apply Forall_app in Hc. destruct Hc as [Hpre Hc]. inversion Hc as [|? ? Hce Hpost]; subst.
  assert (Hok1 : dir_ok (run true c pre)) by (apply dir_ok_run; assumption).
  assert (HK : K (oname o) (etime e) is_file (subdir i (run true (step true (run true c pre) e) post))).
  { apply K_run.
    - apply (sorted_split _ _ _ _ Hs).
    - apply K_est_step; assumption. }
  apply (HK o Ho); [reflexivity|]. rewrite Hk. reflexivity.
Qed.

Lemma E_of_K : forall n u l, K n u is_file l -> objs_ok l ->
  (exists o, In o l /\ oname o = n /\ okind_of o = KFile) -> E n u is_file l.
Proof.
  intros n u l HK Hok (o & Ho & Hn & Hk). exists o. split; [exact Ho|]. split; [exact Hn|].
  split; [rewrite Hk; reflexivity|]. split; [|apply Hok; exact Ho].
  apply (HK o Ho); [exact Hn|rewrite Hk; reflexivity].
Qed.

(* Histories: whatever happened before, once a file has been used (stored or looked up) at
   time u and is there, it is still there after ANY sequence of further stores, lookups and
   trims whose times lie within trimLimit after u. *)
Theorem history_survives : forall c pre e post i n, dir_ok c ->
  Forall (fun e' => clock_ok (etime e')) (pre ++ e :: post) -> uses e i n ->
  (exists o, In o (subdir i (run true c (pre ++ [e]))) /\ oname o = n /\ okind_of o = KFile) ->
  Forall (fun e' => etime e <= etime e' <= etime e + trim_limit) post ->
  exists o, In o (subdir i (run true c (pre ++ e :: post))) /\ oname o = n /\ okind_of o = KFile.
Proof.
  intros c pre e post i n Hok Hc Hu Hex Hpost.
  rewrite run_app in *. simpl in *.
  apply Forall_app in Hc. destruct Hc as [Hpre Hc]. inversion Hc as [|? ? Hce Hcpost]; subst.
  assert (Hok1 : dir_ok (run true c pre)) by (apply dir_ok_run; assumption).
  assert (Hok2 : dir_ok (step true (run true c pre) e)) by (apply dir_ok_step; assumption).
  assert (HE : E n (etime e) is_file (subdir i (run true (step true (run true c pre) e) post))).
  { apply E_run.
    - clear -Hcpost Hpost. induction post as [|x post IH]; [constructor|].
      inversion Hcpost; inversion Hpost; subst. constructor; [split; assumption|apply IH; assumption].
    - apply E_of_K; [apply K_est_step; assumption|apply dir_ok_subdir; exact Hok2|exact Hex]. }
  destruct HE as (o & Ho & Hn & Hk & _). exists o. split; [exact Ho|]. split; [exact Hn|].
  apply is_file_file. exact Hk.
Qed.

(* The same for the code as it stood before the repair of copyFile — provided the use is not
   a store that finds its output already there (then nothing refreshed the data file). *)
Theorem history_survives_asis_partial : forall c pre e post i n, dir_ok c ->
  Forall (fun e' => clock_ok (etime e')) (pre ++ e :: post) -> uses e i n ->
  store_refreshes (run false c pre) e i n ->
  (exists o, In o (subdir i (run false c (pre ++ [e]))) /\ oname o = n /\ okind_of o = KFile) ->
  Forall (fun e' => etime e <= etime e' <= etime e + trim_limit) post ->
  exists o, In o (subdir i (run false c (pre ++ e :: post))) /\ oname o = n /\ okind_of o = KFile.
Proof.
  intros c pre e post i n Hok Hc Hu Hsr Hex Hpost.
  rewrite run_app in *. simpl in *.
  apply Forall_app in Hc. destruct Hc as [Hpre Hc]. inversion Hc as [|? ? Hce Hcpost]; subst.
  assert (Hok1 : dir_ok (run false c pre)) by (apply dir_ok_run; assumption).
  assert (Hok2 : dir_ok (step false (run false c pre) e)) by (apply dir_ok_step; assumption).
  assert (HE : E n (etime e) is_file (subdir i (run false (step false (run false c pre) e) post))).
  { apply E_run.
    - clear -Hcpost Hpost. induction post as [|x post IH]; [constructor|].
      inversion Hcpost; inversion Hpost; subst. constructor; [split; assumption|apply IH; assumption].
    - apply E_of_K; [apply K_est_step_asis; assumption|apply dir_ok_subdir; exact Hok2|exact Hex]. }
  destruct HE as (o & Ho & Hn & Hk & _). exists o. split; [exact Ho|]. split; [exact Hn|].
  apply is_file_file. exact Hk.
Qed.

(* ------------------------------------------------------------------ the refutation for the unrepaired store, and examples *)

Definition ex_day : Z := 24 * 3600 * nano.
Definition ex_xa : bytes := [x78; x2d; x61].   (* "x-a" *)
Definition ex_xd : bytes := [x78; x2d; x64].   (* "x-d" *)
Definition ex_I : bytes := [x49].
Definition ex_D : bytes := [x44].

(* an output stored on day 1 and not looked up since; on day 10 it is stored again *)
Definition ex_stale : cdir := mkDir [[mkObj ex_xd ex_day ex_D KFile]] [] None.
Definition ex_restore : event := EStore (10 * ex_day) 0 ex_xa ex_I 0 ex_xd ex_D.

Ltac decide_range := vm_compute; split; first [reflexivity | discriminate | (intro; discriminate)].

(* With the store as the code had it, history_survives is false: the data file stored at
   day 10 is removed by a Trim at the same instant (the index file survives). *)
Theorem store_asis_refuted : exists c pre e post i n,
  dir_ok c /\ Forall (fun e' => clock_ok (etime e')) (pre ++ e :: post) /\ uses e i n /\
  (exists o, In o (subdir i (run false c (pre ++ [e]))) /\ oname o = n /\ okind_of o = KFile) /\
  Forall (fun e' => etime e <= etime e' <= etime e + trim_limit) post /\
  ~ (exists o, In o (subdir i (run false c (pre ++ e :: post))) /\ oname o = n /\ okind_of o = KFile).
Proof.
  exists ex_stale, [], ex_restore, [ETrim (10 * ex_day)], 0%nat, ex_xd.
  split; [|split; [|split; [|split; [|split]]]].
  - intros l o Hl Ho. destruct Hl as [<-|[]]. destruct Ho as [<-|[]]. unfold ns_ok. decide_range.
  - repeat (apply Forall_cons; [simpl; decide_range|]); apply Forall_nil.
  - right. split; reflexivity.
  - exists (mkObj ex_xd ex_day ex_D KFile). split; [vm_compute; left; reflexivity|split; reflexivity].
  - repeat (apply Forall_cons; [simpl; decide_range|]); apply Forall_nil.
  - intros (o & Ho & Hn & _). vm_compute in Ho. destruct Ho as [<-|[]]. discriminate Hn.
Qed.

(* the repaired store keeps it (an instance of history_survives) *)
Example ex_restore_fixed :
  subdir 0 (run true ex_stale [ex_restore; ETrim (10 * ex_day)]) =
  [mkObj ex_xd (10 * ex_day) ex_D KFile; mkObj ex_xa (10 * ex_day) ex_I KFile].
Proof. vm_compute. reflexivity. Qed.

Definition ex_now : Z := 1800000000123456789.
Definition ex_sec : Z := 1800000000.

(* trim.txt contents: in the window / a day old to the second / just under an hour ahead /
   an hour ahead / the largest int64 (time.Unix wraps) / a value whose difference wraps into
   the window in int64 arithmetic (Sub's overflow check catches it) / white space / junk *)
Example ex_records :
  map (fun t => trim_due ex_now (Some (decimal t)))
      [ex_sec; ex_sec - 86399; ex_sec - 86400; ex_sec + 3600; ex_sec + 3601;
       9223372036854775807; -9223372036854775808; ex_sec - 36028797018963968]
  = [false; false; true; false; true; true; true; true]
  /\ trim_due ex_now (Some ([x20; x09] ++ decimal ex_sec ++ [x0a])) = false
  /\ trim_due ex_now (Some (decimal ex_sec ++ [x78])) = true
  /\ trim_due ex_now (Some []) = true
  /\ trim_due ex_now (Some (decimal 9223372036854775808)) = true
  /\ trim_due ex_now None = true.
Proof. vm_compute. repeat split; reflexivity. Qed.

Example ex_in_window : record_in_window ex_now (Some ([x20] ++ decimal (ex_sec + 3600) ++ [x0a])).
Proof.
  exists ([x20] ++ decimal (ex_sec + 3600) ++ [x0a]), (ex_sec + 3600).
  split; [reflexivity|]. split; [vm_compute; reflexivity|]. decide_range.
Qed.

Example ex_stale_record : record_stale ex_now (Some (decimal 9223372036854775807)).
Proof.
  right. exists (decimal 9223372036854775807). split; [reflexivity|]. right.
  exists 9223372036854775807. split; [vm_compute; reflexivity|]. right. vm_compute. discriminate.
Qed.

(* a population around the cutoff: entries exactly at, 1 ns before and after now - trimLimit -
   mtimeInterval; foreign names; a non-empty directory and a dangling link with entry names *)
Definition ex_cut : Z := ex_now - trim_limit - mtime_interval.
Definition ex_pop : cdir :=
  mkDir [[mkObj ex_xa (ex_cut - 1) ex_I KFile; mkObj ex_xd ex_cut ex_D KFile;
          mkObj [x52] 0 [] KFile (* "R", foreign *); mkObj [x2d; x61] 0 [] KFullDir;
          mkObj [x2d; x64] 0 [] KDangling; mkObj [x71; x2d; x64] 5 [] KEmptyDir];
         [mkObj ex_xa 0 ex_I KFile]]
        [mkObj ex_xa 0 [] KFile (* an old "x-a" in the cache root is not an entry *)]
        (Some (decimal (ex_sec - 86400))).

Example ex_pop_trim :
  trim ex_now ex_pop =
  mkDir [[mkObj ex_xd ex_cut ex_D KFile; mkObj [x52] 0 [] KFile; mkObj [x2d; x61] 0 [] KFullDir;
          mkObj [x2d; x64] 0 [] KDangling];
         []]
        [mkObj ex_xa 0 [] KFile]
        (Some (decimal ex_sec)).
Proof. vm_compute. reflexivity. Qed.

Example ex_pop_ok : dir_ok ex_pop /\ clock_ok ex_now /\ record_stale ex_now (trimtxt ex_pop).
Proof.
  split; [|split].
  - intros l o Hl Ho. unfold ns_ok.
    repeat (destruct Hl as [<-|Hl]; [repeat (destruct Ho as [<-|Ho]; [decide_range|]); destruct Ho|]).
    destruct Hl.
  - decide_range.
  - right. eexists. split; [reflexivity|]. right. exists (ex_sec - 86400).
    split; [vm_compute; reflexivity|]. left. vm_compute. discriminate.
Qed.

(* a history: store at day 0, lookup at day 4, trims at day 5 and day 8 keep the entry; so does
   a trim at day 9 + 1 h (mtime = cutoff); one nanosecond later it is removed *)
Definition ex_t0 : Z := 1800000000000000000.
Definition ex_hist : list event :=
  [EStore ex_t0 0 ex_xa ex_I 0 ex_xd ex_D;
   ELookup (ex_t0 + 4 * ex_day) 0 ex_xa 0 ex_xd;
   ETrim (ex_t0 + 5 * ex_day);
   ETrim (ex_t0 + 8 * ex_day)].

Example ex_history :
  subdir 0 (run true (mkDir [[]] [] None) (ex_hist ++ [ETrim (ex_t0 + 9 * ex_day + mtime_interval)])) =
    [mkObj ex_xa (ex_t0 + 4 * ex_day) ex_I KFile; mkObj ex_xd (ex_t0 + 4 * ex_day) ex_D KFile]
  /\ subdir 0 (run true (mkDir [[]] [] None) (ex_hist ++ [ETrim (ex_t0 + 9 * ex_day + mtime_interval + 1)])) = [].
Proof. vm_compute. split; reflexivity. Qed.

Example ex_used :
  map (fun age => omtime (used_obj ex_now (mkObj ex_xa (ex_now - age) ex_I KFile)) - ex_now)
      [0; mtime_interval - 1; mtime_interval; mtime_interval + 1; -5]
  = [0; 1 - mtime_interval; 0; 0; 5].
Proof. vm_compute. reflexivity. Qed.

(* C13 — proofs about the model of used / Trim (CacheTrim.v).  The numeric content of the
   regenerated constants enters only through the lemmas of the first section ([consts_rel],
   [consts_range], [suffix_rel], [intervals_as_stated]): they are re-checked by computation
   against whatever cache.go says now, and everything below uses them as hypotheses. *)
From Coq Require Import List Bool ZArith Lia Sorted.
From Coq.Strings Require Import Byte.
From GI Require Import Lib.Bytes Gen.CacheTrimConsts CacheTrim.CacheTrim CacheTrim.CacheTrimTimeFacts.
Import ListNotations.
Local Open Scope Z_scope.

(* ------------------------------------------------------------------ the constants *)

Ltac decide_const := vm_compute; first [reflexivity | discriminate | (intro; discriminate)].

(* how the expressions in used/Trim relate to the three named intervals *)
Lemma consts_rel :
  used_threshold = mtime_interval /\ window_upper = trim_interval /\
  window_lower = - mtime_interval /\ cutoff_offset = - trim_limit - mtime_interval /\
  0 < mtime_interval /\ 0 < trim_interval /\ 0 < trim_limit /\
  trim_subdir_count = open_subdir_count /\ 0 <= trim_subdir_count /\
  parse_base = 10 /\ parse_bits = 64.
Proof. repeat split; decide_const. Qed.

(* they are durations an int64 holds *)
Lemma consts_range :
  min_duration < used_threshold <= max_duration /\
  min_duration < window_upper <= max_duration /\
  min_duration <= window_lower < max_duration /\
  i64 cutoff_offset /\ i64 trim_limit.
Proof. unfold i64. repeat split; decide_const. Qed.

(* the names get/OutputFile/putIndexEntry/copyFile build are candidates of trimSubdir *)
Lemma suffix_rel :
  In index_suffix trim_suffixes /\ In data_suffix trim_suffixes /\
  put_index_suffix = index_suffix /\ put_data_suffix = data_suffix /\
  index_suffix <> data_suffix.
Proof.
  repeat split; try reflexivity.
  - left. reflexivity.
  - right. left. reflexivity.
  - discriminate.
Qed.

(* the numbers the property text names: five days, one hour, one day (in nanoseconds) *)
Lemma intervals_as_stated :
  trim_limit = 5 * 24 * 3600 * nano /\ mtime_interval = 3600 * nano /\ trim_interval = 24 * 3600 * nano.
Proof. repeat split; reflexivity. Qed.

(* ------------------------------------------------------------------ names *)

Lemma beq_refl : forall b, beq b b = true.
Proof. intros b. unfold beq. apply Byte.byte_dec_lb. reflexivity. Qed.

Lemma has_prefix_app : forall p q, has_prefix p (p ++ q) = true.
Proof. induction p as [|x p IH]; simpl; intros q; [reflexivity|]. rewrite beq_refl. apply IH. Qed.

Lemma has_suffix_app : forall h s, has_suffix s (h ++ s) = true.
Proof. intros h s. unfold has_suffix. rewrite rev_app_distr. apply has_prefix_app. Qed.

Lemma is_entry_name_suffix : forall h s, In s trim_suffixes -> is_entry_name (h ++ s) = true.
Proof.
  intros h s H. unfold is_entry_name. apply existsb_exists. exists s. split; [exact H|].
  apply has_suffix_app.
Qed.

Lemma index_name_is_entry : forall h, is_entry_name (h ++ index_suffix) = true.
Proof. intros h. apply is_entry_name_suffix, suffix_rel. Qed.

Lemma data_name_is_entry : forall h, is_entry_name (h ++ data_suffix) = true.
Proof. intros h. apply is_entry_name_suffix, suffix_rel. Qed.

Lemma entry_names : forall h,
  is_entry_name (h ++ index_suffix) = true /\ is_entry_name (h ++ data_suffix) = true /\
  put_index_suffix = index_suffix /\ put_data_suffix = data_suffix.
Proof.
  intros h. split; [apply index_name_is_entry|]. split; [apply data_name_is_entry|].
  split; apply suffix_rel.
Qed.

Lemma bytes_eqb_eq : forall a b, bytes_eqb a b = true <-> a = b.
Proof.
  induction a as [|x a IH]; destruct b as [|y b]; simpl; split; intro H; try reflexivity; try discriminate.
  - apply andb_true_iff in H. destruct H as [H1 H2]. unfold beq in H1.
    apply Byte.byte_dec_bl in H1. apply IH in H2. congruence.
  - inversion H. subst. rewrite beq_refl. simpl. apply IH. reflexivity.
Qed.

Lemma bytes_eqb_refl : forall a, bytes_eqb a a = true.
Proof. intros a. apply bytes_eqb_eq. reflexivity. Qed.

(* ------------------------------------------------------------------ the window test *)

Lemma clamp_lt : forall D U, min_duration < U <= max_duration -> (clamp64 D <? U) = (D <? U).
Proof.
  intros D U H. unfold clamp64, min_duration, max_duration in *.
  destruct (D <? - two63) eqn:E1; [|destruct (D >? two63 - 1) eqn:E2];
    destruct (D <? U) eqn:E3; try (apply Z.ltb_lt); try (apply Z.ltb_ge); try reflexivity; lia.
Qed.

Lemma clamp_gt : forall D L, min_duration <= L < max_duration -> (clamp64 D >? L) = (D >? L).
Proof.
  intros D L H. unfold clamp64, min_duration, max_duration in *.
  rewrite !Z.gtb_ltb.
  destruct (D <? - two63) eqn:E1; [|destruct (two63 - 1 <? D) eqn:E2];
    destruct (L <? D) eqn:E3; try (apply Z.ltb_lt); try (apply Z.ltb_ge); try reflexivity; lia.
Qed.

Lemma clock_time_valid : forall now, clock_ok now ->
  valid (time_of_ns now) /\ ns_of (time_of_ns now) = now /\
  - (two63 - 1) < tsec (time_of_ns now) < two63 - 1.
Proof.
  intros now H. pose proof (clock_ns_ok now H) as Hok.
  split; [apply time_of_ns_valid; exact Hok|]. split; [apply ns_of_time_of_ns; exact Hok|].
  pose proof (clock_sec_bounds now H). unfold two63. lia.
Qed.

(* now.Sub(x) for a clock value and any valid time x *)
Lemma sub_clock : forall now x, clock_ok now -> valid x ->
  time_sub (time_of_ns now) x = clamp64 (now - ns_of x).
Proof.
  intros now x H Hx. destruct (clock_time_valid now H) as (Hv & Hns & Hb).
  rewrite time_sub_spec by assumption. rewrite Hns. reflexivity.
Qed.

Lemma time_unix_valid : forall t, valid (time_unix t 0).
Proof.
  intros t. split; simpl; [apply wrap64_range|]. unfold nano. lia.
Qed.

(* The window test of Trim, for EVERY int64 in trim.txt (time.Unix may wrap, Sub may
   saturate): it is the test on the mathematical difference now - t*10^9. *)
Lemma window_char : forall now t, clock_ok now -> i64 t ->
  let d := time_sub (time_of_ns now) (time_unix t 0) in
  (d <? window_upper) && (d >? window_lower) =
  (now - t * nano <? window_upper) && (now - t * nano >? window_lower).
Proof.
  intros now t Hc Ht. cbv zeta.
  rewrite (sub_clock now _ Hc (time_unix_valid t)).
  destruct consts_range as (_ & HU & HL & _).
  rewrite clamp_lt by exact HU. rewrite clamp_gt by exact HL.
  unfold ns_of, time_unix. simpl. rewrite Z.add_0_r.
  destruct (Z_lt_dec (t + unix_to_internal) two63) as [Hs|Hs].
  - rewrite wrap64_id by (unfold i64 in *; rewrite unix_to_internal_val in *; unfold two63 in *; lia).
    replace (t + unix_to_internal - unix_to_internal) with t by lia. reflexivity.
  - (* time.Unix wrapped: lastTrim is ~292 billion years in the past, Sub saturates to
       maxDuration; mathematically now - t*10^9 is hugely negative: both sides say "run" *)
    rewrite wrap64_high by (unfold i64 in *; rewrite unix_to_internal_val in *; unfold two63, two64 in *; lia).
    unfold min_duration, max_duration in *. destruct Hc as [Hc0 Hc1].
    rewrite unix_to_internal_val in *. unfold i64 in Ht.
    assert (F1 : (now - (t + 62135596800 - two64 - 62135596800) * nano <? window_upper) = false).
    { apply Z.ltb_ge. unfold two63, two64, nano in *. lia. }
    assert (F2 : (now - t * nano >? window_lower) = false).
    { rewrite Z.gtb_ltb. apply Z.ltb_ge. unfold two63, two64, nano in *. lia. }
    rewrite F1, F2. rewrite andb_false_r. reflexivity.
Qed.

(* trim_due in mathematical terms *)
Lemma trim_due_char : forall now data t, clock_ok now ->
  parse_int (trim_space data) = Some t ->
  trim_due now (Some data) =
  negb ((now - t * nano <? trim_interval) && (now - t * nano >? - mtime_interval)).
Proof.
  intros now data t Hc Hp. unfold trim_due. rewrite Hp.
  rewrite (window_char now t Hc (parse_int_range _ _ Hp)).
  destruct consts_rel as (_ & -> & -> & _). reflexivity.
Qed.

(* ------------------------------------------------------------------ cutoff, removal, used on one object *)

Lemma trim_cutoff_spec : forall now, clock_ok now ->
  trim_cutoff now = time_of_ns (now + cutoff_offset) /\ ns_ok (now + cutoff_offset).
Proof.
  intros now Hc. destruct (clock_time_valid now Hc) as (Hv & Hns & _).
  destruct consts_range as (_ & _ & _ & Hoff & _).
  assert (Hok : ns_ok (now + cutoff_offset)).
  { unfold ns_ok. rewrite unix_to_internal_val. destruct Hc. unfold i64, two63, nano in *. zlia. }
  split; [|exact Hok]. unfold trim_cutoff.
  rewrite time_add_spec; rewrite ?Hns; try assumption. reflexivity.
Qed.

Lemma trim_removes_spec : forall now o, clock_ok now -> ns_ok (omtime o) ->
  trim_removes (trim_cutoff now) o =
  is_entry_name (oname o) && stat_ok (okind_of o) && (omtime o <? now + cutoff_offset)
  && remove_ok (okind_of o).
Proof.
  intros now o Hc Hm. destruct (trim_cutoff_spec now Hc) as [-> Hok].
  unfold trim_removes.
  rewrite time_before_spec by (apply time_of_ns_valid; assumption).
  rewrite !ns_of_time_of_ns by assumption. reflexivity.
Qed.

Lemma used_obj_spec : forall u o, clock_ok u -> ns_ok (omtime o) ->
  used_obj u o =
  if stat_ok (okind_of o) then (if u - omtime o <? mtime_interval then o else set_mtime u o) else o.
Proof.
  intros u o Hc Hm. unfold used_obj.
  rewrite sub_clock by (try assumption; apply time_of_ns_valid; assumption).
  rewrite ns_of_time_of_ns by assumption.
  destruct consts_range as (HT & _). rewrite clamp_lt by exact HT.
  destruct consts_rel as (-> & _). reflexivity.
Qed.

(* ------------------------------------------------------------------ lists and directories *)

Lemma length_upd_nth : forall A (f : A -> A) l i, length (upd_nth i f l) = length l.
Proof. induction l as [|x r IH]; destruct i; simpl; auto. Qed.

Lemma nth_upd_nth : forall A (f : A -> A) (d : A) l i j,
  nth i (upd_nth j f l) d =
  if Nat.eqb i j && Nat.ltb i (length l) then f (nth i l d) else nth i l d.
Proof.
  induction l as [|x r IH]; intros i j.
  - destruct j; simpl; destruct i; rewrite andb_false_r; reflexivity.
  - destruct j as [|j]; destruct i as [|i]; simpl; try reflexivity.
    rewrite IH. reflexivity.
Qed.

Lemma subdir_upd : forall i j f c,
  subdir i (upd_subdir j f c) =
  if Nat.eqb i j && present i c then f (subdir i c) else subdir i c.
Proof.
  intros. unfold subdir, present, upd_subdir. simpl. rewrite nth_upd_nth.
  destruct (Nat.eqb i j); simpl.
  - destruct (Nat.ltb i (length (subdirs c))) eqn:E.
    + destruct (nth i (subdirs c) None); reflexivity.
    + apply Nat.ltb_ge in E. rewrite nth_overflow by exact E. reflexivity.
  - reflexivity.
Qed.

Lemma present_upd : forall i j f c, present i (upd_subdir j f c) = present i c.
Proof.
  intros. unfold present, upd_subdir. simpl. rewrite nth_upd_nth.
  destruct (Nat.eqb i j && Nat.ltb i (length (subdirs c))); [|reflexivity].
  destruct (nth i (subdirs c) None); reflexivity.
Qed.

Lemma absent_empty : forall i c, present i c = false -> subdir i c = [].
Proof. intros i c. unfold present, subdir. destruct (nth i (subdirs c) None); [discriminate|reflexivity]. Qed.

Lemma subdir_upd_pres : forall (P : list obj -> Prop) i j f c,
  P (subdir i c) -> (forall l, P l -> P (f l)) -> P (subdir i (upd_subdir j f c)).
Proof.
  intros P i j f c H Hf. rewrite subdir_upd.
  destruct (Nat.eqb i j && present i c); auto.
Qed.

(* establishing Q on the updated subdirectory from a fact R about its previous contents *)
Lemma subdir_upd_est : forall (Q R : list obj -> Prop) i f c,
  Q [] -> R (subdir i c) -> (forall l, R l -> Q (f l)) -> Q (subdir i (upd_subdir i f c)).
Proof.
  intros Q R i f c Q0 HR Hf. rewrite subdir_upd. rewrite Nat.eqb_refl. simpl.
  destruct (present i c) eqn:E; [auto|].
  rewrite absent_empty by exact E. exact Q0.
Qed.

Lemma In_upd_nth : forall A (f : A -> A) l j x,
  In x (upd_nth j f l) -> In x l \/ exists y, In y l /\ x = f y.
Proof.
  induction l as [|a r IH]; intros j x H; [destruct j; contradiction|].
  destruct j as [|j]; simpl in H.
  - destruct H as [<-|H]; [right; exists a; simpl; auto|left; simpl; auto].
  - destruct H as [<-|H]; [left; simpl; auto|].
    destruct (IH j x H) as [H1|(y & H1 & H2)]; [left; simpl; auto|right; exists y; simpl; auto].
Qed.

Definition objs_ok (l : list obj) : Prop := forall o, In o l -> ns_ok (omtime o).

Lemma dir_ok_subdir : forall c i, dir_ok c -> objs_ok (subdir i c).
Proof.
  intros c i H o Ho. unfold subdir in Ho.
  destruct (Nat.ltb i (length (subdirs c))) eqn:E.
  - apply Nat.ltb_lt in E. destruct (nth i (subdirs c) None) as [l|] eqn:En; [|contradiction].
    eapply H; [|exact Ho]. rewrite <- En. apply nth_In. exact E.
  - apply Nat.ltb_ge in E. rewrite nth_overflow in Ho by exact E. contradiction.
Qed.

Lemma dir_ok_upd : forall c j f, dir_ok c -> (forall l, objs_ok l -> objs_ok (f l)) ->
  dir_ok (upd_subdir j f c).
Proof.
  intros c j f H Hf l o Hl Ho. unfold upd_subdir in Hl. simpl in Hl.
  destruct (In_upd_nth _ _ _ _ _ Hl) as [H1|(y & H1 & Hy)].
  - eapply H; eassumption.
  - destruct y as [ly|]; [|discriminate]. simpl in Hy. inversion Hy; subst.
    apply (Hf ly); [|exact Ho]. intros o' Ho'. eapply H; eassumption.
Qed.

Lemma nth_map_firstn_skipn : forall A (f : A -> A) (d : A) k l i, f d = d ->
  nth i (map f (firstn k l) ++ skipn k l) d = if Nat.ltb i k then f (nth i l d) else nth i l d.
Proof.
  intros A f d k. induction k as [|k IH]; intros l i Hf.
  - simpl. reflexivity.
  - destruct l as [|x r].
    + simpl. destruct i; destruct (Nat.ltb _ _); auto.
    + destruct i as [|i]; simpl; [reflexivity|]. rewrite IH by exact Hf. reflexivity.
Qed.

Lemma subdir_trim : forall now c i,
  subdir i (trim now c) =
  if trim_due now (read_record c) && Nat.ltb i (Z.to_nat trim_subdir_count)
  then trim_subdir (trim_cutoff now) (subdir i c) else subdir i c.
Proof.
  intros now c i. unfold trim. destruct (trim_due now (read_record c)); [|reflexivity].
  unfold subdir. cbn [subdirs andb]. unfold trim_subdirs. rewrite nth_map_firstn_skipn by reflexivity.
  destruct (Nat.ltb i (Z.to_nat trim_subdir_count)); [|reflexivity].
  destruct (nth i (subdirs c) None); reflexivity.
Qed.

Lemma present_trim : forall now c i, present i (trim now c) = present i c.
Proof.
  intros now c i. unfold trim. destruct (trim_due now (read_record c)); [|reflexivity].
  unfold present. cbn [subdirs]. unfold trim_subdirs. rewrite nth_map_firstn_skipn by reflexivity.
  destruct (Nat.ltb i (Z.to_nat trim_subdir_count)); [|reflexivity].
  destruct (nth i (subdirs c) None); reflexivity.
Qed.

Lemma In_trim_subdir : forall cutoff l o,
  In o (trim_subdir cutoff l) <-> In o l /\ trim_removes cutoff o = false.
Proof.
  intros. unfold trim_subdir. rewrite filter_In. rewrite negb_true_iff. reflexivity.
Qed.

Lemma subdir_trim_sub : forall now c i o, In o (subdir i (trim now c)) -> In o (subdir i c).
Proof.
  intros now c i o. rewrite subdir_trim.
  destruct (trim_due now (read_record c) && Nat.ltb i (Z.to_nat trim_subdir_count)); [|auto].
  rewrite In_trim_subdir. tauto.
Qed.

Lemma subdir_trim_keep : forall now c i o, In o (subdir i c) ->
  trim_removes (trim_cutoff now) o = false -> In o (subdir i (trim now c)).
Proof.
  intros now c i o Ho Hk. rewrite subdir_trim.
  destruct (trim_due now (read_record c) && Nat.ltb i (Z.to_nat trim_subdir_count)); [|auto].
  rewrite In_trim_subdir. tauto.
Qed.

(* ------------------------------------------------------------------ the primitives on one subdirectory *)

Lemma used_obj_cases : forall u o, used_obj u o = o \/ used_obj u o = set_mtime u o.
Proof.
  intros u o. unfold used_obj. destruct (stat_ok (okind_of o)); [|auto].
  destruct (_ <? _); auto.
Qed.

Lemma on_name_cases : forall nm f o,
  on_name nm f o = o \/ (oname o = nm /\ on_name nm f o = f o).
Proof.
  intros nm f o. unfold on_name. destruct (bytes_eqb (oname o) nm) eqn:E; [|auto].
  right. split; [apply bytes_eqb_eq; exact E|reflexivity].
Qed.

Lemma has_name_false : forall nm l, has_name nm l = false -> forall o, In o l -> oname o <> nm.
Proof.
  intros nm l H o Ho E. unfold has_name in H.
  assert (existsb (fun o => bytes_eqb (oname o) nm) l = true).
  { apply existsb_exists. exists o. split; [exact Ho|]. apply bytes_eqb_eq. exact E. }
  congruence.
Qed.

Section Track.
  (* the file [n] of some subdirectory, a use of it at time [u], and the kinds [kp] of
     object the statement is about (regular files; or everything os.Stat accepts) *)
  Variable n : bytes.
  Variable u : Z.
  Variable kp : okind -> bool.

  Definition fresh (o : obj) : Prop :=
    oname o = n -> kp (okind_of o) = true -> u - mtime_interval <= omtime o.

  (* every tracked object of that name carries an mtime no older than u - mtimeInterval *)
  Definition K (l : list obj) : Prop := forall o, In o l -> fresh o.

  (* and there is one *)
  Definition E (l : list obj) : Prop :=
    exists o, In o l /\ oname o = n /\ kp (okind_of o) = true /\
              u - mtime_interval <= omtime o /\ ns_ok (omtime o).

  (* --- objs_ok is preserved by everything *)

  Lemma ok_used : forall u' nm l, clock_ok u' -> objs_ok l -> objs_ok (map (on_name nm (used_obj u')) l).
  Proof.
    intros u' nm l Hc H o Ho. apply in_map_iff in Ho. destruct Ho as (x & <- & Hx).
    destruct (on_name_cases nm (used_obj u') x) as [->|[_ ->]]; [apply H; exact Hx|].
    destruct (used_obj_cases u' x) as [->| ->]; [apply H; exact Hx|].
    simpl. apply clock_ns_ok. exact Hc.
  Qed.

  Lemma ok_put : forall u' nm d l, clock_ok u' -> objs_ok l -> objs_ok (put_file u' nm d l).
  Proof.
    intros u' nm d l Hc H o Ho. unfold put_file in Ho. destruct (has_name nm l).
    - apply in_map_iff in Ho. destruct Ho as (x & <- & Hx).
      destruct (on_name_cases nm (put_over u' nm d) x) as [->|[_ ->]]; [apply H; exact Hx|].
      unfold put_over. destruct (file_like (okind_of x)); [|apply H; exact Hx].
      simpl. apply clock_ns_ok. exact Hc.
    - apply in_app_or in Ho. destruct Ho as [Ho|[<-|[]]]; [apply H; exact Ho|].
      simpl. apply clock_ns_ok. exact Hc.
  Qed.

  Lemma ok_store_data : forall r u' ud nm d l, clock_ok u' -> clock_ok ud -> objs_ok l ->
    objs_ok (store_data r u' ud nm d l).
  Proof.
    intros r u' ud nm d l Hc Hd H. unfold store_data. destruct (has_content nm d l).
    - destruct r; [apply ok_used; assumption|exact H].
    - apply ok_put; assumption.
  Qed.

  Lemma ok_trim : forall cutoff l, objs_ok l -> objs_ok (trim_subdir cutoff l).
  Proof. intros cutoff l H o Ho. apply In_trim_subdir in Ho. apply H. tauto. Qed.

  (* --- K is preserved by every primitive at a time u' >= u *)

  Lemma K_used : forall u' nm l, u <= u' -> K l -> K (map (on_name nm (used_obj u')) l).
  Proof.
    intros u' nm l Hu H o Ho. apply in_map_iff in Ho. destruct Ho as (x & <- & Hx).
    destruct (on_name_cases nm (used_obj u') x) as [->|[_ ->]]; [apply H; exact Hx|].
    destruct (used_obj_cases u' x) as [->| ->]; [apply H; exact Hx|].
    intros _ _. simpl. destruct consts_rel as (_ & _ & _ & _ & Hm & _). lia.
  Qed.

  Lemma K_put : forall u' nm d l, u <= u' -> K l -> K (put_file u' nm d l).
  Proof.
    intros u' nm d l Hu H o Ho. destruct consts_rel as (_ & _ & _ & _ & Hm & _).
    unfold put_file in Ho. destruct (has_name nm l).
    - apply in_map_iff in Ho. destruct Ho as (x & <- & Hx).
      destruct (on_name_cases nm (put_over u' nm d) x) as [->|[_ ->]]; [apply H; exact Hx|].
      unfold put_over. destruct (file_like (okind_of x)) eqn:Ek; [|apply H; exact Hx].
      intros _ _. simpl. lia.
    - apply in_app_or in Ho. destruct Ho as [Ho|[<-|[]]]; [apply H; exact Ho|].
      intros _ _. simpl. lia.
  Qed.

  Lemma K_put_late : forall u' nm d l, u - mtime_interval <= u' -> K l -> K (put_file u' nm d l).
  Proof.
    intros u' nm d l Hu H o Ho.
    unfold put_file in Ho. destruct (has_name nm l).
    - apply in_map_iff in Ho. destruct Ho as (x & <- & Hx).
      destruct (on_name_cases nm (put_over u' nm d) x) as [->|[_ ->]]; [apply H; exact Hx|].
      unfold put_over. destruct (file_like (okind_of x)) eqn:Ek; [|apply H; exact Hx].
      intros _ _. simpl. lia.
    - apply in_app_or in Ho. destruct Ho as [Ho|[<-|[]]]; [apply H; exact Ho|].
      intros _ _. simpl. lia.
  Qed.

  Lemma K_store_data : forall r u' ud nm d l, u <= u' -> u' - mtime_interval <= ud -> K l ->
    K (store_data r u' ud nm d l).
  Proof.
    intros r u' ud nm d l Hu Hd H. unfold store_data. destruct (has_content nm d l).
    - destruct r; [apply K_used; assumption|exact H].
    - apply K_put_late; [lia|assumption].
  Qed.

  Lemma K_trim : forall cutoff l, K l -> K (trim_subdir cutoff l).
  Proof. intros cutoff l H o Ho. apply In_trim_subdir in Ho. apply H. tauto. Qed.

  (* --- E is preserved by the primitives at u' >= u, and by a trim at u' <= u + trimLimit *)

  Lemma E_map : forall (g : obj -> obj) u' l, u - mtime_interval <= u' -> clock_ok u' ->
    (forall o, oname (g o) = oname o /\ okind_of (g o) = okind_of o /\ (omtime (g o) = omtime o \/ omtime (g o) = u')) ->
    E l -> E (map g l).
  Proof.
    intros g u' l Hu Hc Hg (o & Ho & Hn & Hk & Hm & Hok).
    exists (g o). destruct (Hg o) as (G1 & G2 & G3).
    split; [apply in_map; exact Ho|]. rewrite G1, G2. split; [exact Hn|]. split; [exact Hk|].
    destruct G3 as [-> | ->]; [auto|]. split; [lia|apply clock_ns_ok; exact Hc].
  Qed.

  Lemma used_obj_shape : forall u' nm o,
    oname (on_name nm (used_obj u') o) = oname o /\
    okind_of (on_name nm (used_obj u') o) = okind_of o /\
    odata (on_name nm (used_obj u') o) = odata o /\
    (omtime (on_name nm (used_obj u') o) = omtime o \/ omtime (on_name nm (used_obj u') o) = u').
  Proof.
    intros u' nm o. destruct (on_name_cases nm (used_obj u') o) as [->|[_ ->]]; [auto|].
    destruct (used_obj_cases u' o) as [->| ->]; simpl; auto.
  Qed.

  Lemma E_used : forall u' nm l, u <= u' -> clock_ok u' -> E l -> E (map (on_name nm (used_obj u')) l).
  Proof.
    intros u' nm l Hu Hc. destruct consts_rel as (_ & _ & _ & _ & Hmi & _).
    apply (E_map _ u'); try assumption; [lia|].
    intros o. destruct (used_obj_shape u' nm o) as (A & B & _ & C). auto.
  Qed.

  Hypothesis kp_file : forall k, kp k = true -> k = KFile.

  Lemma E_put : forall u' nm d l, u - mtime_interval <= u' -> clock_ok u' -> E l -> E (put_file u' nm d l).
  Proof.
    intros u' nm d l Hu Hc HE. unfold put_file. destruct (has_name nm l).
    - revert HE. apply (E_map _ u'); try assumption. intros o.
      destruct (on_name_cases nm (put_over u' nm d) o) as [->|[Hnm ->]]; [auto|].
      unfold put_over. destruct (file_like (okind_of o)) eqn:Ek; simpl; auto.
    - destruct HE as (o & Ho & R). exists o. split; [apply in_or_app; left; exact Ho|exact R].
  Qed.

  Lemma E_store_data : forall r u' ud nm d l, u <= u' -> clock_ok u' -> clock_ok ud ->
    u' - mtime_interval <= ud -> E l -> E (store_data r u' ud nm d l).
  Proof.
    intros r u' ud nm d l Hu Hc Hcd Hd HE. unfold store_data. destruct (has_content nm d l).
    - destruct r; [apply E_used; assumption|exact HE].
    - apply E_put; [lia|assumption|assumption].
  Qed.

  Lemma E_trim : forall u' l, clock_ok u' -> u' <= u + trim_limit -> E l -> E (trim_subdir (trim_cutoff u') l).
  Proof.
    intros u' l Hc Hu (o & Ho & Hn & Hk & Hm & Hok).
    exists o. split; [|auto]. apply In_trim_subdir. split; [exact Ho|].
    rewrite trim_removes_spec by assumption.
    destruct consts_rel as (_ & _ & _ & Hoff & _).
    assert (F : (omtime o <? u' + cutoff_offset) = false) by (apply Z.ltb_ge; lia).
    rewrite F. rewrite andb_false_r. reflexivity.
  Qed.

  (* --- a use at time u establishes K *)

  Hypothesis kp_stat : forall k, kp k = true -> stat_ok k = true.

  Lemma K_est_used : forall l, clock_ok u -> objs_ok l -> K (map (on_name n (used_obj u)) l).
  Proof.
    intros l Hc Hok o Ho. apply in_map_iff in Ho. destruct Ho as (x & <- & Hx).
    unfold on_name. destruct (bytes_eqb (oname x) n) eqn:En.
    - intros _ Hk. rewrite used_obj_spec in * by (try assumption; apply Hok; exact Hx).
      assert (Hs : stat_ok (okind_of x) = true).
      { apply kp_stat. destruct (stat_ok (okind_of x)); [|exact Hk].
        destruct (u - omtime x <? mtime_interval); exact Hk. }
      rewrite Hs. destruct (u - omtime x <? mtime_interval) eqn:Et.
      + apply Z.ltb_lt in Et. lia.
      + simpl. destruct consts_rel as (_ & _ & _ & _ & Hm & _). lia.
    - intros Hn. exfalso. apply bytes_eqb_eq in Hn. congruence.
  Qed.

  Lemma K_est_put : forall d l, K (put_file u n d l).
  Proof.
    intros d l o Ho. destruct consts_rel as (_ & _ & _ & _ & Hm & _).
    unfold put_file in Ho. destruct (has_name n l) eqn:Eh.
    - apply in_map_iff in Ho. destruct Ho as (x & <- & Hx).
      unfold on_name. destruct (bytes_eqb (oname x) n) eqn:En.
      + unfold put_over. destruct (file_like (okind_of x)) eqn:Ek; intros _ Hk; simpl in *; [lia|].
        apply kp_file in Hk. rewrite Hk in Ek. discriminate.
      + intros Hn. exfalso. apply bytes_eqb_eq in Hn. congruence.
    - apply in_app_or in Ho. destruct Ho as [Ho|[<-|[]]].
      + intros Hn. exfalso. eapply has_name_false; eassumption.
      + intros _ _. simpl. lia.
  Qed.

  Lemma K_est_put_late : forall ud d l, u - mtime_interval <= ud -> K (put_file ud n d l).
  Proof.
    intros ud d l Hd o Ho.
    unfold put_file in Ho. destruct (has_name n l) eqn:Eh.
    - apply in_map_iff in Ho. destruct Ho as (x & <- & Hx).
      unfold on_name. destruct (bytes_eqb (oname x) n) eqn:En.
      + unfold put_over. destruct (file_like (okind_of x)) eqn:Ek; intros _ Hk; simpl in *; [lia|].
        apply kp_file in Hk. rewrite Hk in Ek. discriminate.
      + intros Hn. exfalso. apply bytes_eqb_eq in Hn. congruence.
    - apply in_app_or in Ho. destruct Ho as [Ho|[<-|[]]].
      + intros Hn. exfalso. eapply has_name_false; eassumption.
      + intros _ _. simpl. lia.
  Qed.

  Lemma K_est_store_data : forall ud d l, clock_ok u -> u - mtime_interval <= ud -> objs_ok l ->
    K (store_data true u ud n d l).
  Proof.
    intros ud d l Hc Hd Hok. unfold store_data. destruct (has_content n d l).
    - apply K_est_used; assumption.
    - apply K_est_put_late. exact Hd.
  Qed.

  (* the code as it stood: a data file with the right content is not refreshed *)
  Lemma K_est_store_data_asis : forall ud d l, u - mtime_interval <= ud -> has_content n d l = false ->
    K (store_data false u ud n d l).
  Proof. intros ud d l Hd H. unfold store_data. rewrite H. apply K_est_put_late. exact Hd. Qed.

End Track.

(* ------------------------------------------------------------------ events *)

Definition is_file (k : okind) : bool := okind_eqb k KFile.

Lemma is_file_file : forall k, is_file k = true -> k = KFile.
Proof. destruct k; simpl; intro H; try discriminate; reflexivity. Qed.

Lemma is_file_stat : forall k, is_file k = true -> stat_ok k = true.
Proof. destruct k; simpl; intro H; try discriminate; reflexivity. Qed.

(* every event but Trim is a sequence of operations on single subdirectories *)
Inductive prim :=
| PUsed (u : Z) (nm : bytes)
| PPut (u : Z) (nm d : bytes)
| PData (r : bool) (u ud : Z) (nm d : bytes).

Definition prim_fn (p : prim) : list obj -> list obj :=
  match p with
  | PUsed u nm => map (on_name nm (used_obj u))
  | PPut u nm d => put_file u nm d
  | PData r u ud nm d => store_data r u ud nm d
  end.

Definition prim_time (p : prim) : Z :=
  match p with PUsed u _ | PPut u _ _ | PData _ u _ _ _ => u end.

(* the times of an operation are sound *)
Definition prim_wf (p : prim) : Prop :=
  clock_ok (prim_time p) /\
  match p with PData _ u ud _ _ => clock_ok ud /\ u - mtime_interval <= ud | _ => True end.

Definition apply_ops (ops : list (nat * prim)) (c : cdir) : cdir :=
  fold_left (fun c jp => upd_subdir (fst jp) (prim_fn (snd jp)) c) ops c.

Definition step_ops (r : bool) (e : event) : list (nat * prim) :=
  match e with
  | EGet u ia na => [(ia, PUsed u na)]
  | ELookup u ia na id nd => [(ia, PUsed u na); (id, PUsed u nd)]
  | EOutput u id nd => [(id, PUsed u nd)]
  | EStore u ud ia na da id nd dd => [(id, PData r u ud nd dd); (ia, PPut u na da)]
  | EStoreData u ud id nd dd => [(id, PData r u ud nd dd)]
  | ETrim _ => []
  end.

Lemma step_as_ops : forall r c e, (forall u, e <> ETrim u) -> step r c e = apply_ops (step_ops r e) c.
Proof. intros r c e H. destruct e; try reflexivity. exfalso. eapply H. reflexivity. Qed.

Lemma step_ops_time : forall r e jp, In jp (step_ops r e) -> prim_time (snd jp) = etime e.
Proof.
  intros r e jp H. destruct e; simpl in H;
    repeat (destruct H as [<-|H]; [reflexivity|]); contradiction.
Qed.

Lemma step_ops_wf : forall r e jp, ev_ok e -> In jp (step_ops r e) -> prim_wf (snd jp).
Proof.
  intros r e jp [Hc Hd] H. destruct e; simpl in *;
    repeat (destruct H as [<-|H]; [split; simpl; auto|]); contradiction.
Qed.

Lemma prim_ok : forall p l, prim_wf p -> objs_ok l -> objs_ok (prim_fn p l).
Proof.
  intros [u nm|u nm d|r u ud nm d] l [Hc Hd] H; simpl in *;
    [apply ok_used|apply ok_put|apply ok_store_data]; try assumption; apply Hd.
Qed.

Lemma apply_ops_ok : forall ops c, dir_ok c -> (forall jp, In jp ops -> prim_wf (snd jp)) ->
  dir_ok (apply_ops ops c).
Proof.
  induction ops as [|op ops IH]; intros c H Hc; [exact H|].
  simpl. apply IH.
  - apply dir_ok_upd; [exact H|]. intros l. apply prim_ok. apply Hc. left. reflexivity.
  - intros jp Hj. apply Hc. right. exact Hj.
Qed.

Lemma dir_ok_trim : forall now c, dir_ok c -> dir_ok (trim now c).
Proof.
  intros now c H l o Hl Ho. unfold trim in Hl. destruct (trim_due now (read_record c)); [|eapply H; eassumption].
  cbn [subdirs] in Hl. unfold trim_subdirs in Hl. apply in_app_or in Hl. destruct Hl as [Hl|Hl].
  - apply in_map_iff in Hl. destruct Hl as (x & Hx & Hin). destruct x as [lx|]; [|discriminate].
    simpl in Hx. inversion Hx; subst. apply In_trim_subdir in Ho.
    eapply H; [|apply Ho].
    rewrite <- (firstn_skipn (Z.to_nat trim_subdir_count) (subdirs c)). apply in_or_app. left. exact Hin.
  - eapply H; [|exact Ho].
    rewrite <- (firstn_skipn (Z.to_nat trim_subdir_count) (subdirs c)). apply in_or_app. right. exact Hl.
Qed.

Lemma dir_ok_step : forall r c e, dir_ok c -> ev_ok e -> dir_ok (step r c e).
Proof.
  intros r c e H Hc. destruct e as [| | | | |u]; try (rewrite step_as_ops by discriminate; apply apply_ops_ok; [exact H|];
    intros jp Hj; apply (step_ops_wf _ _ _ Hc Hj)).
  apply dir_ok_trim. exact H.
Qed.

Lemma ev_ok_clock : forall e, ev_ok e -> clock_ok (etime e).
Proof. intros e H. apply H. Qed.

Lemma dir_ok_run : forall r h c, dir_ok c -> Forall ev_ok h -> dir_ok (run r c h).
Proof.
  intros r h. induction h as [|e h IH]; intros c H Hc; [exact H|].
  inversion Hc; subst. simpl. apply IH; [apply dir_ok_step; assumption|assumption].
Qed.

Section TrackDir.
  Variable i : nat.
  Variable n : bytes.
  Variable u : Z.
  Variable kp : okind -> bool.

  Lemma prim_K : forall p l, u <= prim_time p -> prim_wf p -> K n u kp l -> K n u kp (prim_fn p l).
  Proof.
    intros [u' nm|u' nm d|r u' ud nm d] l Hu [Hc Hd] H; simpl in *;
      [apply K_used|apply K_put|apply K_store_data]; try assumption; apply Hd.
  Qed.

  Lemma prim_E : forall p l, u <= prim_time p -> prim_wf p -> E n u kp l -> E n u kp (prim_fn p l).
  Proof.
    intros [u' nm|u' nm d|r u' ud nm d] l Hu [Hc Hd] H; simpl in *; destruct consts_rel as (_ & _ & _ & _ & Hmi & _).
    - apply E_used; assumption.
    - apply E_put; try assumption. lia.
    - apply E_store_data; try assumption; apply Hd.
  Qed.

  Lemma apply_ops_pres : forall (P : list obj -> Prop) ops c,
    (forall jp l, In jp ops -> P l -> P (prim_fn (snd jp) l)) ->
    P (subdir i c) -> P (subdir i (apply_ops ops c)).
  Proof.
    intros P. induction ops as [|op ops IH]; intros c Hf H; [exact H|].
    simpl. apply IH.
    - intros jp l Hj. apply Hf. right. exact Hj.
    - apply subdir_upd_pres; [exact H|]. intros l. apply Hf. left. reflexivity.
  Qed.

  (* any later event keeps the mtime bound of the tracked file *)
  Lemma K_step : forall r c e, u <= etime e -> ev_ok e -> K n u kp (subdir i c) -> K n u kp (subdir i (step r c e)).
  Proof.
    intros r c e Hu Hev H. destruct e as [| | | | |t];
      try (rewrite step_as_ops by discriminate; apply apply_ops_pres; [|exact H];
           intros jp l Hj; apply prim_K; [rewrite (step_ops_time _ _ _ Hj); exact Hu|apply (step_ops_wf _ _ _ Hev Hj)]).
    simpl. rewrite subdir_trim. destruct (_ && _); [apply K_trim|]; exact H.
  Qed.

  (* an event within trimLimit after the use keeps the tracked file in existence *)
  Lemma E_step : forall r c e, ev_ok e -> u <= etime e <= u + trim_limit ->
    E n u kp (subdir i c) -> E n u kp (subdir i (step r c e)).
  Proof.
    intros r c e Hev [Hu Hl] H. destruct e as [| | | | |t];
      try (rewrite step_as_ops by discriminate; apply apply_ops_pres; [|exact H];
           intros jp l Hj; apply prim_E; [rewrite (step_ops_time _ _ _ Hj); exact Hu|apply (step_ops_wf _ _ _ Hev Hj)]).
    destruct Hev as [Hc _]. simpl in *. rewrite subdir_trim. destruct (_ && _); [apply E_trim; assumption|exact H].
  Qed.

  Lemma K_run : forall r h c, Forall (fun e => u <= etime e) h -> Forall ev_ok h ->
    K n u kp (subdir i c) -> K n u kp (subdir i (run r c h)).
  Proof.
    intros r h. induction h as [|e h IH]; intros c Hh Hev H; [exact H|].
    inversion Hh; inversion Hev; subst. simpl. apply IH; [assumption|assumption|]. apply K_step; assumption.
  Qed.

  Lemma E_run : forall r h c, Forall (fun e => ev_ok e /\ u <= etime e <= u + trim_limit) h ->
    E n u kp (subdir i c) -> E n u kp (subdir i (run r c h)).
  Proof.
    intros r h. induction h as [|e h IH]; intros c Hh H; [exact H|].
    inversion Hh as [|? ? [Hc Hb] Hrest]; subst. simpl. apply IH; [assumption|]. apply E_step; assumption.
  Qed.

  Lemma K_nil : K n u kp [].
  Proof. intros o []. Qed.

  (* an operation that brings the mtime of the tracked file up to date *)
  Definition establishes (p : prim) : Prop :=
    match p with
    | PUsed u' nm => u' = u /\ nm = n /\ (forall k, kp k = true -> stat_ok k = true)
    | PPut u' nm _ => u' = u /\ nm = n /\ (forall k, kp k = true -> k = KFile)
    | PData r u' ud nm _ => u' = u /\ nm = n /\ r = true /\ (forall k, kp k = true -> k = KFile)
    end.

  Lemma prim_est : forall p l, prim_wf p -> establishes p -> objs_ok l -> K n u kp (prim_fn p l).
  Proof.
    intros [u' nm|u' nm d|r u' ud nm d] l [Hc Hd] He Hok; simpl in *.
    - destruct He as (-> & -> & Hk). apply K_est_used; assumption.
    - destruct He as (-> & -> & Hk). apply K_est_put. exact Hk.
    - destruct He as (-> & -> & -> & Hk). apply K_est_store_data; try assumption; try apply Hd.
      intros k Hkk. apply Hk in Hkk. subst. reflexivity.
  Qed.

  Lemma K_est_ops : forall ops c p, dir_ok c ->
    (forall jp, In jp ops -> prim_time (snd jp) = u /\ prim_wf (snd jp)) ->
    In (i, p) ops -> establishes p -> K n u kp (subdir i (apply_ops ops c)).
  Proof.
    induction ops as [|op ops IH]; intros c p Hok Ht Hin He; [contradiction|].
    simpl. destruct Hin as [->|Hin].
    - simpl. apply apply_ops_pres.
      + intros jp l Hj. destruct (Ht jp (or_intror Hj)) as [T W]. apply prim_K; [rewrite T; lia|exact W].
      + apply (subdir_upd_est (K n u kp) objs_ok); [apply K_nil|apply dir_ok_subdir; exact Hok|].
        intros l Hl. apply prim_est; try assumption. apply (Ht (i, p)). left. reflexivity.
    - apply (IH _ p); try assumption.
      + apply dir_ok_upd; [exact Hok|]. intros l. apply prim_ok. apply (Ht op). left. reflexivity.
      + intros jp Hj. apply Ht. right. exact Hj.
  Qed.
End TrackDir.

Lemma K_est_event : forall r kp c e i n p, dir_ok c -> ev_ok e -> (forall u, e <> ETrim u) ->
  In (i, p) (step_ops r e) -> establishes n (etime e) kp p ->
  K n (etime e) kp (subdir i (step r c e)).
Proof.
  intros r kp c e i n p Hok Hev Hnt Hin He. rewrite step_as_ops by exact Hnt.
  apply (K_est_ops i n (etime e) kp (step_ops r e) c p); try assumption.
  intros jp Hj. split; [apply (step_ops_time _ _ _ Hj)|apply (step_ops_wf _ _ _ Hev Hj)].
Qed.

(* a use at its own time establishes the bound, in the repaired model *)
Lemma K_est_step : forall c e i n, dir_ok c -> ev_ok e -> uses e i n ->
  K n (etime e) is_file (subdir i (step true c e)).
Proof.
  intros c e i n Hok Hev Hu.
  assert (Hs := is_file_stat). assert (Hf := is_file_file).
  destruct e as [u ia na|u ia na id nd|u id nd|u ud ia na da id nd dd|u ud id nd dd|u]; simpl in Hu; try contradiction.
  - destruct Hu as [-> ->]. apply (K_est_event true is_file c _ i n (PUsed u n)); try assumption; try discriminate; simpl; auto.
  - destruct Hu as [[-> ->]|[-> ->]];
      apply (K_est_event true is_file c _ i n (PUsed u n)); try assumption; try discriminate; simpl; auto.
  - destruct Hu as [-> ->]. apply (K_est_event true is_file c _ i n (PUsed u n)); try assumption; try discriminate; simpl; auto.
  - destruct Hu as [[-> ->]|[-> ->]].
    + apply (K_est_event true is_file c _ i n (PPut u n da)); try assumption; try discriminate; simpl; auto.
    + apply (K_est_event true is_file c _ i n (PData true u ud n dd)); try assumption; try discriminate; simpl; auto.
Qed.

(* for lookups the same holds for everything os.Stat accepts, and for either modelling of Put *)
Lemma K_est_lookup_step : forall r c e i n, dir_ok c -> ev_ok e -> uses e i n ->
  match e with EStore _ _ _ _ _ _ _ _ => False | _ => True end ->
  K n (etime e) stat_ok (subdir i (step r c e)).
Proof.
  intros r c e i n Hok Hev Hu Hns.
  destruct e as [u ia na|u ia na id nd|u id nd|u ud ia na da id nd dd|u ud id nd dd|u]; simpl in Hu; try contradiction.
  - destruct Hu as [-> ->]. apply (K_est_event r stat_ok c _ i n (PUsed u n)); try assumption; try discriminate; simpl; auto.
  - destruct Hu as [[-> ->]|[-> ->]];
      apply (K_est_event r stat_ok c _ i n (PUsed u n)); try assumption; try discriminate; simpl; auto.
  - destruct Hu as [-> ->]. apply (K_est_event r stat_ok c _ i n (PUsed u n)); try assumption; try discriminate; simpl; auto.
Qed.

Lemma K_est_step_asis : forall c e i n, dir_ok c -> ev_ok e -> uses e i n ->
  store_refreshes c e i n -> K n (etime e) is_file (subdir i (step false c e)).
Proof.
  intros c e i n Hok Hev Hu Hsr.
  assert (Hs := is_file_stat). assert (Hf := is_file_file).
  destruct e as [u ia na|u ia na id nd|u id nd|u ud ia na da id nd dd|u ud id nd dd|u]; simpl in Hu; try contradiction.
  - destruct Hu as [-> ->]. apply (K_est_event false is_file c _ i n (PUsed u n)); try assumption; try discriminate; simpl; auto.
  - destruct Hu as [[-> ->]|[-> ->]];
      apply (K_est_event false is_file c _ i n (PUsed u n)); try assumption; try discriminate; simpl; auto.
  - destruct Hu as [-> ->]. apply (K_est_event false is_file c _ i n (PUsed u n)); try assumption; try discriminate; simpl; auto.
  - simpl in Hsr. destruct Hsr as [[-> ->]|Hnc].
    + apply (K_est_event false is_file c _ i n (PPut u n da)); try assumption; try discriminate; simpl; auto.
    + destruct Hu as [[-> ->]|[-> ->]].
      * apply (K_est_event false is_file c _ i n (PPut u n da)); try assumption; try discriminate; simpl; auto.
      * destruct Hev as [Hc [Hcd Hd]]. simpl in *. unfold store.
        apply subdir_upd_pres; [|intros l; apply K_put; lia].
        apply (subdir_upd_est (K n u is_file) (fun l => has_content n dd l = false)); [apply K_nil|exact Hnc|].
        intros l Hl. apply K_est_store_data_asis; assumption.
Qed.

(* ================================================================== the theorems of C13 *)

(* ---- when Trim does nothing, when it runs *)

Lemma record_dichotomy : forall now record, record_in_window now record \/ record_stale now record.
Proof.
  intros now [data|]; [|right; left; reflexivity].
  destruct (parse_int (trim_space data)) as [t|] eqn:Ep.
  - destruct (Z_lt_dec (- mtime_interval) (now - t * nano)) as [H1|H1];
      [destruct (Z_lt_dec (now - t * nano) trim_interval) as [H2|H2]|].
    + left. exists data, t. auto.
    + right. right. exists data. split; [reflexivity|]. right. exists t. split; [exact Ep|]. left. lia.
    + right. right. exists data. split; [reflexivity|]. right. exists t. split; [exact Ep|]. right. lia.
  - right. right. exists data. split; [reflexivity|]. left. exact Ep.
Qed.

Lemma in_window_not_due : forall now record, clock_ok now ->
  record_in_window now record -> trim_due now record = false.
Proof.
  intros now record Hc (data & t & -> & Hp & Hlo & Hhi).
  rewrite (trim_due_char now data t Hc Hp).
  assert (A : (now - t * nano <? trim_interval) = true) by (apply Z.ltb_lt; exact Hhi).
  assert (B : (now - t * nano >? - mtime_interval) = true) by (rewrite Z.gtb_ltb; apply Z.ltb_lt; exact Hlo).
  rewrite A, B. reflexivity.
Qed.

Lemma stale_due : forall now record, clock_ok now -> record_stale now record -> trim_due now record = true.
Proof.
  intros now record Hc [->|(data & -> & [Hp|(t & Hp & Hw)])]; [reflexivity| |].
  - unfold trim_due. rewrite Hp. reflexivity.
  - rewrite (trim_due_char now data t Hc Hp). apply negb_true_iff. destruct Hw as [Hw|Hw].
    + assert (A : (now - t * nano <? trim_interval) = false) by (apply Z.ltb_ge; exact Hw).
      rewrite A. reflexivity.
    + assert (B : (now - t * nano >? - mtime_interval) = false) by (rewrite Z.gtb_ltb; apply Z.ltb_ge; exact Hw).
      rewrite B. apply andb_false_r.
Qed.

Theorem trim_skips : forall now c, clock_ok now ->
  record_in_window now (read_record c) -> trim now c = c /\ trim_err now c = false.
Proof.
  intros now c Hc Hw. unfold trim, trim_err. rewrite in_window_not_due by assumption. split; reflexivity.
Qed.

Lemma clock_unix_seconds : forall now, clock_ok now ->
  time_unix_seconds (time_of_ns now) = now / nano /\ i64 (now / nano).
Proof.
  intros now Hc. unfold time_unix_seconds.
  rewrite time_of_ns_sec by (apply clock_ns_ok; exact Hc).
  assert (Hi : i64 (now / nano)).
  { destruct Hc. unfold i64, two63, nano in *. zlia. }
  split; [|exact Hi].
  replace (now / nano + unix_to_internal - unix_to_internal) with (now / nano) by lia.
  apply wrap64_id. exact Hi.
Qed.

Theorem trim_runs_otherwise : forall now c, clock_ok now -> record_stale now (read_record c) ->
  trim now c = trimmed now c /\ trim_err now c = trimblocked c /\
  parse_int (trim_space (decimal (now / nano))) = Some (now / nano).
Proof.
  intros now c Hc Hs. destruct (clock_unix_seconds now Hc) as [Hu Hi]. split; [|split].
  - unfold trim, trimmed. rewrite stale_due by assumption. rewrite Hu. reflexivity.
  - unfold trim_err. rewrite stale_due by assumption. reflexivity.
  - rewrite trim_space_decimal. apply decimal_parse. exact Hi.
Qed.

(* a trim that ran is followed by skips for (a day minus the second the record loses) *)
Theorem trim_then_skips : forall now now' c, clock_ok now -> clock_ok now' ->
  record_stale now (read_record c) -> trimblocked c = false ->
  now <= now' -> now' - now < trim_interval - nano ->
  trim now' (trim now c) = trim now c.
Proof.
  intros now now' c Hc Hc' Hs Hb Hle Hlt.
  destruct (trim_runs_otherwise now c Hc Hs) as (-> & _ & Hp).
  apply trim_skips; [exact Hc'|]. unfold trimmed, read_record. simpl. rewrite Hb.
  exists (decimal (now / nano)), (now / nano). split; [reflexivity|]. split; [exact Hp|].
  destruct consts_rel as (_ & _ & _ & _ & Hm & _). unfold nano in *. zlia.
Qed.

(* ---- used *)

Theorem used_keeps : forall u o, clock_ok u -> ns_ok (omtime o) -> stat_ok (okind_of o) = true ->
  let o' := used_obj u o in
  omtime o' = (if u - omtime o <? mtime_interval then omtime o else u) /\
  u - mtime_interval <= omtime o' /\ omtime o <= omtime o' /\
  oname o' = oname o /\ odata o' = odata o /\ okind_of o' = okind_of o.
Proof.
  intros u o Hc Hm Hs. cbv zeta. rewrite used_obj_spec by assumption. rewrite Hs.
  destruct consts_rel as (_ & _ & _ & _ & Hmi & _).
  destruct (u - omtime o <? mtime_interval) eqn:Et.
  - apply Z.ltb_lt in Et. repeat split; try reflexivity; lia.
  - apply Z.ltb_ge in Et. simpl. repeat split; try reflexivity; lia.
Qed.

(* ---- Trim on one object *)

Theorem trim_keeps_recent : forall now c i o lastuse, clock_ok now -> ns_ok (omtime o) ->
  In o (subdir i c) ->
  lastuse - mtime_interval <= omtime o ->     (* the invariant used maintains *)
  now - trim_limit <= lastuse ->              (* used within trimLimit *)
  In o (subdir i (trim now c)).
Proof.
  intros now c i o lu Hc Hm Ho Hinv Hlu. apply subdir_trim_keep; [exact Ho|].
  rewrite trim_removes_spec by assumption.
  destruct consts_rel as (_ & _ & _ & Hoff & _).
  assert (F : (omtime o <? now + cutoff_offset) = false) by (apply Z.ltb_ge; lia).
  rewrite F. rewrite andb_false_r. reflexivity.
Qed.

Theorem trim_removes_stale : forall now c i o, clock_ok now -> record_stale now (read_record c) ->
  (i < Z.to_nat trim_subdir_count)%nat -> ns_ok (omtime o) ->
  is_entry_name (oname o) = true -> okind_of o = KFile ->
  omtime o < now - trim_limit - mtime_interval ->
  ~ In o (subdir i (trim now c)).
Proof.
  intros now c i o Hc Hs Hi Hm Hn Hk Hold Hin.
  rewrite subdir_trim in Hin. rewrite stale_due in Hin by assumption.
  apply Nat.ltb_lt in Hi. rewrite Hi in Hin. simpl in Hin.
  apply In_trim_subdir in Hin. destruct Hin as [_ Hkeep].
  rewrite trim_removes_spec in Hkeep by assumption.
  destruct consts_rel as (_ & _ & _ & Hoff & _).
  assert (T : (omtime o <? now + cutoff_offset) = true) by (apply Z.ltb_lt; lia).
  rewrite Hn, Hk, T in Hkeep. discriminate.
Qed.

Lemma filter_non_entry_trim : forall cutoff l,
  filter non_entry (trim_subdir cutoff l) = filter non_entry l.
Proof.
  intros cutoff l. unfold trim_subdir. induction l as [|o l IH]; [reflexivity|].
  simpl. unfold non_entry at 2. unfold trim_removes at 1.
  destruct (is_entry_name (oname o)) eqn:En; simpl.
  - destruct (negb _); simpl; [unfold non_entry at 1; rewrite En; simpl|]; exact IH.
  - unfold non_entry at 1. rewrite En. simpl. f_equal. exact IH.
Qed.

Theorem trim_only_entries : forall now c,
  rootobjs (trim now c) = rootobjs c /\
  length (subdirs (trim now c)) = length (subdirs c) /\
  forall i,
    (forall o, In o (subdir i (trim now c)) -> In o (subdir i c)) /\
    filter non_entry (subdir i (trim now c)) = filter non_entry (subdir i c) /\
    (forall o, In o (subdir i c) ->
       is_entry_name (oname o) = false \/ stat_ok (okind_of o) = false \/ remove_ok (okind_of o) = false ->
       In o (subdir i (trim now c))) /\
    ((Z.to_nat trim_subdir_count <= i)%nat -> subdir i (trim now c) = subdir i c).
Proof.
  intros now c. split; [|split].
  - unfold trim. destruct (trim_due now (read_record c)); reflexivity.
  - unfold trim. destruct (trim_due now (read_record c)); [|reflexivity]. simpl.
    unfold trim_subdirs. rewrite app_length, map_length, <- app_length, firstn_skipn. reflexivity.
  - intros i. split; [|split; [|split]].
    + intros o. apply subdir_trim_sub.
    + rewrite subdir_trim. destruct (_ && _); [apply filter_non_entry_trim|reflexivity].
    + intros o Ho Hwhy. apply subdir_trim_keep; [exact Ho|]. unfold trim_removes.
      destruct Hwhy as [-> |[-> | ->]]; simpl; rewrite ?andb_false_r; reflexivity.
    + intros Hi. rewrite subdir_trim. apply Nat.ltb_ge in Hi. rewrite Hi. rewrite andb_false_r. reflexivity.
Qed.


(* ---- a Trim that was interrupted *)

Lemma nth_map_combine_seq : forall A B (F : nat -> A -> B) (dA : A) (dB : B) (l : list A) s i,
  (forall j, F j dA = dB) ->
  nth i (map (fun p => F (fst p) (snd p)) (combine (seq s (length l)) l)) dB = F (s + i)%nat (nth i l dA).
Proof.
  intros A B F dA dB. induction l as [|x r IH]; intros s i HF.
  - simpl. destruct i; rewrite HF; reflexivity.
  - simpl. destruct i as [|i].
    + rewrite Nat.add_0_r. reflexivity.
    + rewrite IH by exact HF. f_equal. lia.
Qed.

Definition partial_keep (done : nat -> obj -> bool) (now : Z) (i : nat) (o : obj) : bool :=
  negb (trim_removes (trim_cutoff now) o && done i o && Nat.ltb i (Z.to_nat trim_subdir_count)).

Lemma subdir_trim_partial : forall done now c i,
  subdir i (trim_partial done now c) =
  if trim_due now (read_record c) then filter (partial_keep done now i) (subdir i c) else subdir i c.
Proof.
  intros done now c i. unfold trim_partial. destruct (trim_due now (read_record c)); [|reflexivity].
  unfold subdir. cbn [subdirs].
  rewrite (nth_map_combine_seq _ _
            (fun j x => option_map (filter (fun o => negb (trim_removes (trim_cutoff now) o && done j o
                                                           && Nat.ltb j (Z.to_nat trim_subdir_count)))) x)
            None None) by reflexivity.
  simpl. destruct (nth i (subdirs c) None); reflexivity.
Qed.

(* Safety on every prefix of the scan, in any order: whatever subset of the removals has been
   carried out, nothing outside the subdirectories and no record changed (so the next Trim
   runs again), nothing was added or modified, files without an entry name are all there,
   whatever was used within trimLimit is there, and only stale entries are gone. *)
Theorem trim_partial_safe : forall done now c, clock_ok now ->
  rootobjs (trim_partial done now c) = rootobjs c /\
  trimtxt (trim_partial done now c) = trimtxt c /\
  trimblocked (trim_partial done now c) = trimblocked c /\
  (forall now', trim_due now' (read_record (trim_partial done now c)) = trim_due now' (read_record c)) /\
  forall i,
    (forall o, In o (subdir i (trim_partial done now c)) -> In o (subdir i c)) /\
    filter non_entry (subdir i (trim_partial done now c)) = filter non_entry (subdir i c) /\
    (forall o lastuse, In o (subdir i c) -> ns_ok (omtime o) ->
       lastuse - mtime_interval <= omtime o -> now - trim_limit <= lastuse ->
       In o (subdir i (trim_partial done now c))) /\
    (forall o, In o (subdir i c) -> ns_ok (omtime o) -> ~ In o (subdir i (trim_partial done now c)) ->
       is_entry_name (oname o) = true /\ omtime o < now - trim_limit - mtime_interval).
Proof.
  intros done now c Hc.
  assert (Hshape : rootobjs (trim_partial done now c) = rootobjs c /\
                   trimtxt (trim_partial done now c) = trimtxt c /\
                   trimblocked (trim_partial done now c) = trimblocked c).
  { unfold trim_partial. destruct (trim_due now (read_record c)); auto. }
  destruct Hshape as (H1 & H2 & H3). split; [exact H1|]. split; [exact H2|]. split; [exact H3|].
  split; [intros now'; unfold read_record; rewrite H2, H3; reflexivity|].
  destruct consts_rel as (_ & _ & _ & Hoff & _).
  intros i. rewrite subdir_trim_partial. destruct (trim_due now (read_record c)).
  - split; [|split; [|split]].
    + intros o Ho. apply filter_In in Ho. tauto.
    + induction (subdir i c) as [|o l IH]; [reflexivity|]. simpl.
      unfold partial_keep at 1. unfold trim_removes at 1. unfold non_entry at 2.
      destruct (is_entry_name (oname o)) eqn:En; simpl.
      * destruct (negb _); simpl; [unfold non_entry at 1; rewrite En; simpl|]; exact IH.
      * unfold non_entry at 1. rewrite En. simpl. f_equal. exact IH.
    + intros o lu Ho Hm Hinv Hlu. apply filter_In. split; [exact Ho|].
      unfold partial_keep. rewrite trim_removes_spec by assumption.
      assert (F : (omtime o <? now + cutoff_offset) = false) by (apply Z.ltb_ge; lia).
      rewrite F. rewrite andb_false_r. reflexivity.
    + intros o Ho Hm Hgone.
      destruct (partial_keep done now i o) eqn:Ek.
      * exfalso. apply Hgone. apply filter_In. split; assumption.
      * unfold partial_keep in Ek. apply negb_false_iff in Ek.
        apply andb_true_iff in Ek. destruct Ek as [Ek _]. apply andb_true_iff in Ek. destruct Ek as [Ek _].
        rewrite trim_removes_spec in Ek by assumption.
        apply andb_true_iff in Ek. destruct Ek as [Ek _]. apply andb_true_iff in Ek. destruct Ek as [Ek Hlt].
        apply andb_true_iff in Ek. destruct Ek as [Ek _]. apply Z.ltb_lt in Hlt. split; [exact Ek|lia].
  - split; [|split; [|split]]; auto. intros o Ho Hm Hgone. contradiction.
Qed.

(* the case the interruption is described by a number of completed subdirectories *)
Theorem trim_prefix_safe : forall k now c, clock_ok now ->
  rootobjs (trim_prefix k now c) = rootobjs c /\
  trimtxt (trim_prefix k now c) = trimtxt c /\
  trimblocked (trim_prefix k now c) = trimblocked c /\
  (forall now', trim_due now' (read_record (trim_prefix k now c)) = trim_due now' (read_record c)) /\
  forall i,
    (forall o, In o (subdir i (trim_prefix k now c)) -> In o (subdir i c)) /\
    filter non_entry (subdir i (trim_prefix k now c)) = filter non_entry (subdir i c) /\
    (forall o lastuse, In o (subdir i c) -> ns_ok (omtime o) ->
       lastuse - mtime_interval <= omtime o -> now - trim_limit <= lastuse ->
       In o (subdir i (trim_prefix k now c))) /\
    (forall o, In o (subdir i c) -> ns_ok (omtime o) -> ~ In o (subdir i (trim_prefix k now c)) ->
       is_entry_name (oname o) = true /\ omtime o < now - trim_limit - mtime_interval).
Proof. intros k. apply trim_partial_safe. Qed.

(* the prefixes are what they say: subdirectories below k are trimmed, the others untouched *)
Lemma subdir_trim_prefix : forall k now c i,
  subdir i (trim_prefix k now c) =
  if trim_due now (read_record c) && Nat.ltb i (Nat.min k (Z.to_nat trim_subdir_count))
  then trim_subdir (trim_cutoff now) (subdir i c) else subdir i c.
Proof.
  intros k now c i. unfold trim_prefix. rewrite subdir_trim_partial.
  destruct (trim_due now (read_record c)); [|reflexivity]. cbn [andb].
  unfold partial_keep, trim_subdir.
  destruct (Nat.ltb i (Nat.min k (Z.to_nat trim_subdir_count))) eqn:E.
  - assert (E2 : Nat.ltb i (Z.to_nat trim_subdir_count) = true).
    { apply Nat.ltb_lt in E. apply Nat.ltb_lt. lia. }
    rewrite E2. apply filter_ext. intros o. rewrite !andb_true_r. reflexivity.
  - rewrite <- (filter_ext (fun _ => true)).
    + induction (subdir i c) as [|o l IH]; [reflexivity|]. simpl. f_equal. exact IH.
    + intros o. rewrite andb_false_r. reflexivity.
Qed.

Lemma trim_removes_mono : forall now now' o, clock_ok now -> clock_ok now' -> now <= now' ->
  trim_removes (trim_cutoff now) o = true -> trim_removes (trim_cutoff now') o = true.
Proof.
  intros now now' o Hc Hc' Hle. unfold trim_removes.
  destruct (trim_cutoff_spec now Hc) as [-> Hok]. destruct (trim_cutoff_spec now' Hc') as [-> Hok'].
  assert (Hv : valid (time_of_ns (omtime o))).
  { split; [apply wrap64_range|]. simpl. unfold nano. apply Z.mod_pos_bound. lia. }
  rewrite !time_before_spec by (try exact Hv; apply time_of_ns_valid; assumption).
  rewrite (ns_of_time_of_ns (now + cutoff_offset)) by assumption.
  rewrite (ns_of_time_of_ns (now' + cutoff_offset)) by assumption.
  intros H. apply andb_true_iff in H. destruct H as [H Hr]. apply andb_true_iff in H. destruct H as [H Hb].
  rewrite H, Hr. simpl. apply Z.ltb_lt in Hb. rewrite andb_true_r. apply Z.ltb_lt. lia.
Qed.

Lemma filter_resume : forall A (k' kp : A -> bool) l,
  (forall o, kp o = false -> k' o = false) -> filter k' (filter kp l) = filter k' l.
Proof.
  intros A k' kp l H. induction l as [|o l IH]; [reflexivity|]. simpl.
  destruct (kp o) eqn:Ek; simpl.
  - destruct (k' o); [f_equal|]; exact IH.
  - rewrite (H o Ek). exact IH.
Qed.

Lemma filter_all : forall A (p : A -> bool) l, (forall o, p o = true) -> filter p l = l.
Proof.
  intros A p l H. induction l as [|o l IH]; [reflexivity|]. simpl. rewrite H. f_equal. exact IH.
Qed.

(* The next Trim finishes the job: run after an interrupted one (at the same or a later time,
   when it is due) it leaves exactly what it would have left without the interruption. *)
Theorem trim_resume : forall done now now' c, clock_ok now -> clock_ok now' -> now <= now' ->
  trim_due now' (read_record c) = true ->
  trim now' (trim_partial done now c) = trim now' c.
Proof.
  intros done now now' c Hc Hc' Hle Hdue.
  destruct (trim_partial_safe done now c Hc) as (H1 & H2 & H3 & H4 & _).
  unfold trim. rewrite H4, Hdue, H1, H2, H3. f_equal.
  apply (nth_ext _ _ None None).
  - unfold trim_subdirs. rewrite !app_length, !map_length, <- !app_length, !firstn_skipn.
    unfold trim_partial. destruct (trim_due now (read_record c)); [|reflexivity].
    cbn [subdirs]. rewrite map_length, combine_length, seq_length. lia.
  - intros i _. unfold trim_subdirs. rewrite !nth_map_firstn_skipn by reflexivity.
    unfold trim_partial. destruct (trim_due now (read_record c)); [|reflexivity].
    cbn [subdirs].
    rewrite (nth_map_combine_seq _ _
              (fun j x => option_map (filter (fun o => negb (trim_removes (trim_cutoff now) o && done j o
                                                             && Nat.ltb j (Z.to_nat trim_subdir_count)))) x)
              None None) by reflexivity.
    cbn [Nat.add].
    destruct (nth i (subdirs c) None) as [l|]; [|destruct (Nat.ltb i (Z.to_nat trim_subdir_count)); reflexivity].
    cbn [option_map].
    destruct (Nat.ltb i (Z.to_nat trim_subdir_count)) eqn:Ei.
    + f_equal. unfold trim_subdir. apply filter_resume. intros o Hk.
      apply negb_false_iff in Hk. apply andb_true_iff in Hk. destruct Hk as [Hk _].
      apply andb_true_iff in Hk. destruct Hk as [Hk _].
      rewrite (trim_removes_mono now now' o Hc Hc' Hle Hk). reflexivity.
    + f_equal. apply filter_all. intros o. rewrite andb_false_r. reflexivity.
Qed.

(* ---- lookups and histories *)

(* the exact effect of used on the directory *)
Definition touch (u : Z) (j : nat) (nm : bytes) (i : nat) (o : obj) : obj :=
  if Nat.eqb i j && bytes_eqb (oname o) nm then used_obj u o else o.

Lemma subdir_used : forall u j nm c i,
  subdir i (used u j nm c) = map (touch u j nm i) (subdir i c).
Proof.
  intros u j nm c i. unfold used. rewrite subdir_upd. unfold touch.
  destruct (Nat.eqb i j) eqn:E; simpl.
  - destruct (present i c) eqn:Ep; [reflexivity|].
    rewrite absent_empty by exact Ep. reflexivity.
  - rewrite <- (map_id (subdir i c)) at 1. reflexivity.
Qed.

Lemma used_frame : forall u j nm c,
  rootobjs (used u j nm c) = rootobjs c /\ trimtxt (used u j nm c) = trimtxt c /\
  trimblocked (used u j nm c) = trimblocked c /\ forall i, present i (used u j nm c) = present i c.
Proof. intros. repeat split. intros i. apply present_upd. Qed.

(* Get refreshes the index file and nothing else *)
Theorem api_get_touches : forall u ia na c,
  (forall i, subdir i (api_get u ia na c) = map (touch u ia na i) (subdir i c)) /\
  rootobjs (api_get u ia na c) = rootobjs c /\ trimtxt (api_get u ia na c) = trimtxt c.
Proof. intros. split; [intros i; apply subdir_used|split; reflexivity]. Qed.

(* OutputFile refreshes the data file and nothing else *)
Theorem api_output_file_touches : forall u id nd c,
  (forall i, subdir i (api_output_file u id nd c) = map (touch u id nd i) (subdir i c)) /\
  rootobjs (api_output_file u id nd c) = rootobjs c /\ trimtxt (api_output_file u id nd c) = trimtxt c.
Proof. intros. split; [intros i; apply subdir_used|split; reflexivity]. Qed.

(* GetFile and GetBytes refresh the index file and the data file, and nothing else *)
Theorem api_lookup_touches : forall u ia na id nd c,
  (forall i, subdir i (lookup u ia na id nd c) = map (touch u id nd i) (map (touch u ia na i) (subdir i c))) /\
  rootobjs (lookup u ia na id nd c) = rootobjs c /\ trimtxt (lookup u ia na id nd c) = trimtxt c.
Proof.
  intros. split; [|split; reflexivity]. intros i. unfold lookup, api_output_file, api_get.
  rewrite subdir_used, subdir_used. reflexivity.
Qed.

Lemma used_keeps_objects : forall u j nm c i o, In o (subdir i c) ->
  exists o', In o' (subdir i (used u j nm c)) /\ oname o' = oname o /\ odata o' = odata o /\
             okind_of o' = okind_of o.
Proof.
  intros u j nm c i o Ho. rewrite subdir_used. exists (touch u j nm i o).
  split; [apply in_map; exact Ho|]. unfold touch.
  destruct (Nat.eqb i j && bytes_eqb (oname o) nm); [|auto].
  destruct (used_obj_cases u o) as [->| ->]; simpl; auto.
Qed.

Theorem lookup_refreshes : forall c u now ia na id nd, dir_ok c -> clock_ok u -> clock_ok now ->
  now <= u + trim_limit ->
  let c' := lookup u ia na id nd c in
  forall i n, (i = ia /\ n = na) \/ (i = id /\ n = nd) ->
  (forall o, In o (subdir i c) -> oname o = n ->
     exists o', In o' (subdir i c') /\ oname o' = n /\ odata o' = odata o /\ okind_of o' = okind_of o) /\
  (forall o', In o' (subdir i c') -> oname o' = n -> stat_ok (okind_of o') = true ->
     u - mtime_interval <= omtime o' /\ In o' (subdir i (trim now c'))).
Proof.
  intros c u now ia na id nd Hok Hc Hn Hle c' i n Hwhich. split.
  - intros o Ho Hname. unfold c', lookup, api_output_file, api_get.
    destruct (used_keeps_objects u ia na c i o Ho) as (o1 & H1 & A1 & B1 & C1).
    destruct (used_keeps_objects u id nd _ i o1 H1) as (o2 & H2 & A2 & B2 & C2).
    exists o2. split; [exact H2|]. rewrite A2, A1, B2, B1, C2, C1. auto.
  - intros o' Ho' Hname Hstat.
    assert (HK : K n u stat_ok (subdir i c')).
    { apply (K_est_lookup_step true c (ELookup u ia na id nd) i n); auto.
      - split; [exact Hc|exact I].
      - simpl. destruct Hwhich as [[-> ->]|[-> ->]]; auto. }
    assert (Hb : u - mtime_interval <= omtime o') by (apply (HK o' Ho'); assumption).
    split; [exact Hb|].
    assert (Hok' : dir_ok c') by (apply (dir_ok_step true c (ELookup u ia na id nd)); [assumption|split; [exact Hc|exact I]]).
    apply subdir_trim_keep; [exact Ho'|].
    rewrite trim_removes_spec; [|assumption|eapply dir_ok_subdir; eassumption].
    destruct consts_rel as (_ & _ & _ & Hoff & _).
    assert (F : (omtime o' <? now + cutoff_offset) = false) by (apply Z.ltb_ge; lia).
    rewrite F. rewrite andb_false_r. reflexivity.
Qed.

(* Get alone: the index file is refreshed and survives, by the same argument *)
Theorem get_refreshes_index : forall c u now ia na, dir_ok c -> clock_ok u -> clock_ok now ->
  now <= u + trim_limit ->
  forall o', In o' (subdir ia (api_get u ia na c)) -> oname o' = na -> stat_ok (okind_of o') = true ->
  u - mtime_interval <= omtime o' /\ In o' (subdir ia (trim now (api_get u ia na c))).
Proof.
  intros c u now ia na Hok Hc Hn Hle o' Ho' Hname Hstat.
  assert (HK : K na u stat_ok (subdir ia (api_get u ia na c))).
  { apply (K_est_lookup_step true c (EGet u ia na) ia na); simpl; auto. split; [exact Hc|exact I]. }
  assert (Hb : u - mtime_interval <= omtime o') by (apply (HK o' Ho'); assumption).
  split; [exact Hb|].
  assert (Hok' : dir_ok (api_get u ia na c)) by (apply (dir_ok_step true c (EGet u ia na)); [assumption|split; [exact Hc|exact I]]).
  apply subdir_trim_keep; [exact Ho'|].
  rewrite trim_removes_spec; [|assumption|eapply dir_ok_subdir; eassumption].
  destruct consts_rel as (_ & _ & _ & Hoff & _).
  assert (F : (omtime o' <? now + cutoff_offset) = false) by (apply Z.ltb_ge; lia).
  rewrite F. rewrite andb_false_r. reflexivity.
Qed.

Lemma run_app : forall r c a b, run r c (a ++ b) = run r (run r c a) b.
Proof. intros. unfold run. apply fold_left_app. Qed.

Lemma sorted_split : forall (R : event -> event -> Prop) pre e post,
  StronglySorted R (pre ++ e :: post) -> Forall (R e) post.
Proof.
  intros R pre. induction pre as [|x pre IH]; intros e post H; simpl in H.
  - apply StronglySorted_inv in H. tauto.
  - apply StronglySorted_inv in H. apply IH. tauto.
Qed.

(* The invariant behind trim_keeps_recent, for every history with a monotone clock: the mtime
   of a regular file is never older than (any of its uses) - mtimeInterval. *)
Theorem lastuse_invariant : forall c h, dir_ok c ->
  Forall ev_ok h ->
  StronglySorted (fun a b => etime a <= etime b) h ->
  forall e i n o, In e h -> uses e i n ->
  In o (subdir i (run true c h)) -> oname o = n -> okind_of o = KFile ->
  etime e - mtime_interval <= omtime o.
Proof.
  intros c h Hok Hc Hs e i n o He Hu Ho Hn Hk.
  destruct (in_split e h He) as (pre & post & ->).
  rewrite run_app in Ho. simpl in Ho.
  apply Forall_app in Hc. destruct Hc as [Hpre Hc]. inversion Hc as [|? ? Hce Hpost]; subst.
  assert (Hok1 : dir_ok (run true c pre)) by (apply dir_ok_run; assumption).
  assert (HK : K (oname o) (etime e) is_file (subdir i (run true (step true (run true c pre) e) post))).
  { apply K_run.
    - apply (sorted_split _ _ _ _ Hs).
    - assumption.
    - apply K_est_step; assumption. }
  apply (HK o Ho); [reflexivity|]. rewrite Hk. reflexivity.
Qed.

Lemma E_of_K : forall n u l, K n u is_file l -> objs_ok l ->
  (exists o, In o l /\ oname o = n /\ okind_of o = KFile) -> E n u is_file l.
Proof.
  intros n u l HK Hok (o & Ho & Hn & Hk). exists o. split; [exact Ho|]. split; [exact Hn|].
  split; [rewrite Hk; reflexivity|]. split; [|apply Hok; exact Ho].
  apply (HK o Ho); [exact Hn|rewrite Hk; reflexivity].
Qed.

(* Histories: whatever happened before, once a file has been used (stored or looked up) at
   time u and is there, it is still there after ANY sequence of further stores, lookups and
   trims whose times lie within trimLimit after u. *)
Theorem history_survives : forall c pre e post i n, dir_ok c ->
  Forall ev_ok (pre ++ e :: post) -> uses e i n ->
  (exists o, In o (subdir i (run true c (pre ++ [e]))) /\ oname o = n /\ okind_of o = KFile) ->
  Forall (fun e' => etime e <= etime e' <= etime e + trim_limit) post ->
  exists o, In o (subdir i (run true c (pre ++ e :: post))) /\ oname o = n /\ okind_of o = KFile.
Proof.
  intros c pre e post i n Hok Hc Hu Hex Hpost.
  rewrite run_app in *. simpl in *.
  apply Forall_app in Hc. destruct Hc as [Hpre Hc]. inversion Hc as [|? ? Hce Hcpost]; subst.
  assert (Hok1 : dir_ok (run true c pre)) by (apply dir_ok_run; assumption).
  assert (Hok2 : dir_ok (step true (run true c pre) e)) by (apply dir_ok_step; assumption).
  assert (HE : E n (etime e) is_file (subdir i (run true (step true (run true c pre) e) post))).
  { apply E_run.
    - clear -Hcpost Hpost. induction post as [|x post IH]; [constructor|].
      inversion Hcpost; inversion Hpost; subst. constructor; [split; assumption|apply IH; assumption].
    - apply E_of_K; [apply K_est_step; assumption|apply dir_ok_subdir; exact Hok2|exact Hex]. }
  destruct HE as (o & Ho & Hn & Hk & _). exists o. split; [exact Ho|]. split; [exact Hn|].
  apply is_file_file. exact Hk.
Qed.

(* The same for the code as it stood before the repair of copyFile — provided the use is not
   a store that finds its output already there (then nothing refreshed the data file). *)
Theorem history_survives_asis_partial : forall c pre e post i n, dir_ok c ->
  Forall ev_ok (pre ++ e :: post) -> uses e i n ->
  store_refreshes (run false c pre) e i n ->
  (exists o, In o (subdir i (run false c (pre ++ [e]))) /\ oname o = n /\ okind_of o = KFile) ->
  Forall (fun e' => etime e <= etime e' <= etime e + trim_limit) post ->
  exists o, In o (subdir i (run false c (pre ++ e :: post))) /\ oname o = n /\ okind_of o = KFile.
Proof.
  intros c pre e post i n Hok Hc Hu Hsr Hex Hpost.
  rewrite run_app in *. simpl in *.
  apply Forall_app in Hc. destruct Hc as [Hpre Hc]. inversion Hc as [|? ? Hce Hcpost]; subst.
  assert (Hok1 : dir_ok (run false c pre)) by (apply dir_ok_run; assumption).
  assert (Hok2 : dir_ok (step false (run false c pre) e)) by (apply dir_ok_step; assumption).
  assert (HE : E n (etime e) is_file (subdir i (run false (step false (run false c pre) e) post))).
  { apply E_run.
    - clear -Hcpost Hpost. induction post as [|x post IH]; [constructor|].
      inversion Hcpost; inversion Hpost; subst. constructor; [split; assumption|apply IH; assumption].
    - apply E_of_K; [apply K_est_step_asis; assumption|apply dir_ok_subdir; exact Hok2|exact Hex]. }
  destruct HE as (o & Ho & Hn & Hk & _). exists o. split; [exact Ho|]. split; [exact Hn|].
  apply is_file_file. exact Hk.
Qed.

(* ---- the executable form of the history statement *)

Lemma has_file_spec : forall nm l,
  has_file nm l = true <-> exists o, In o l /\ oname o = nm /\ okind_of o = KFile.
Proof.
  intros nm l. unfold has_file. rewrite existsb_exists. split.
  - intros (o & Ho & H). apply andb_true_iff in H. destruct H as [H1 H2].
    exists o. split; [exact Ho|]. split; [apply bytes_eqb_eq; exact H1|apply is_file_file; exact H2].
  - intros (o & Ho & Hn & Hk). exists o. split; [exact Ho|].
    rewrite Hn, Hk, bytes_eqb_refl. reflexivity.
Qed.

Lemma used_files_uses : forall e i n, In (i, n) (used_files e) -> uses e i n.
Proof.
  intros e i n H. destruct e; simpl in *;
    repeat (destruct H as [H|H]; [inversion H; subst; auto|]); contradiction.
Qed.

Definition tracked_ok (c : cdir) (x : nat * bytes * Z) : Prop :=
  E (snd (fst x)) (snd x) is_file (subdir (fst (fst x)) c).

Lemma holds_from_true : forall h tracked c, dir_ok c ->
  Forall ev_ok h -> Forall (tracked_ok c) tracked ->
  holds_from true trim_limit tracked c h = true.
Proof.
  induction h as [|e h IH]; intros tracked c Hok Hc Htr; [reflexivity|].
  inversion Hc as [|? ? Hce Hch]; subst. cbn [holds_from].
  set (c' := step true c e). set (t := etime e).
  set (still := filter (fun x => (snd x <=? t) && (t <=? snd x + trim_limit)) tracked).
  assert (Hok' : dir_ok c') by (apply dir_ok_step; assumption).
  assert (Hstill : Forall (tracked_ok c') still).
  { apply Forall_forall. intros x Hx. apply filter_In in Hx. destruct Hx as [Hx Hw].
    apply andb_true_iff in Hw. destruct Hw as [Hw1 Hw2]. apply Z.leb_le in Hw1. apply Z.leb_le in Hw2.
    rewrite Forall_forall in Htr. specialize (Htr x Hx). unfold tracked_ok in *.
    apply E_step; [exact Hce|split; assumption|exact Htr]. }
  apply andb_true_iff. split.
  - apply forallb_forall. intros x Hx. rewrite Forall_forall in Hstill. specialize (Hstill x Hx).
    destruct Hstill as (o & Ho & Hn & Hk & _). apply has_file_spec. exists o.
    split; [exact Ho|]. split; [exact Hn|apply is_file_file; exact Hk].
  - apply IH; try assumption. apply Forall_app. split; [|exact Hstill].
    apply Forall_forall. intros x Hx. apply in_map_iff in Hx. destruct Hx as (p & <- & Hp).
    apply filter_In in Hp. destruct Hp as [Hp Hf]. destruct p as [i n]. simpl in *.
    unfold tracked_ok. simpl. apply E_of_K.
    + apply K_est_step; [exact Hok|exact Hce|]. apply used_files_uses. exact Hp.
    + apply dir_ok_subdir. exact Hok'.
    + apply has_file_spec. exact Hf.
Qed.

(* the executable statement is true of the model on every directory and history *)
Theorem c13_holds_on_true : forall c h, dir_ok c -> Forall ev_ok h ->
  c13_holds_on c h = true.
Proof.
  intros c h Hok Hc. unfold c13_holds_on.
  replace stated_limit with trim_limit by (symmetry; apply intervals_as_stated).
  apply holds_from_true; [assumption|assumption|constructor].
Qed.

(* ------------------------------------------------------------------ refutations and examples *)

Definition ex_day : Z := 24 * 3600 * nano.
Definition ex_xa : bytes := [x78; x2d; x61].   (* "x-a" *)
Definition ex_xd : bytes := [x78; x2d; x64].   (* "x-d" *)
Definition ex_I : bytes := [x49].
Definition ex_D : bytes := [x44].

(* an output stored on day 1 and not looked up since; on day 10 it is stored again *)
Definition ex_stale : cdir := mkDir [Some [mkObj ex_xd ex_day ex_D KFile]] [] None false.
Definition ex_restore : event := EStore (10 * ex_day) (10 * ex_day) 0 ex_xa ex_I 0 ex_xd ex_D.

Ltac decide_range := vm_compute; split; first [reflexivity | discriminate | (intro; discriminate)].
Ltac decide_ev := vm_compute; repeat split; first [reflexivity | discriminate | (intro; discriminate) | exact I].

(* With the store as the code had it, history_survives is false: the data file stored at
   day 10 is removed by a Trim at the same instant (the index file survives). *)
Theorem store_asis_refuted : exists c pre e post i n,
  dir_ok c /\ Forall ev_ok (pre ++ e :: post) /\ uses e i n /\
  (exists o, In o (subdir i (run false c (pre ++ [e]))) /\ oname o = n /\ okind_of o = KFile) /\
  Forall (fun e' => etime e <= etime e' <= etime e + trim_limit) post /\
  ~ (exists o, In o (subdir i (run false c (pre ++ e :: post))) /\ oname o = n /\ okind_of o = KFile).
Proof.
  exists ex_stale, [], ex_restore, [ETrim (10 * ex_day)], 0%nat, ex_xd.
  split; [|split; [|split; [|split; [|split]]]].
  - intros l o Hl Ho. destruct Hl as [Hl|[]]. inversion Hl; subst. destruct Ho as [<-|[]]. unfold ns_ok. decide_range.
  - repeat (apply Forall_cons; [decide_ev|]); apply Forall_nil.
  - right. split; reflexivity.
  - exists (mkObj ex_xd ex_day ex_D KFile). split; [vm_compute; left; reflexivity|split; reflexivity].
  - repeat (apply Forall_cons; [simpl; decide_range|]); apply Forall_nil.
  - intros (o & Ho & Hn & _). vm_compute in Ho. destruct Ho as [<-|[]]. discriminate Hn.
Qed.

(* the executable statement finds it, and is true for the repaired store *)
Example ex_holds_on :
  holds_from false stated_limit [] ex_stale [ex_restore; ETrim (10 * ex_day)] = false /\
  c13_holds_on ex_stale [ex_restore; ETrim (10 * ex_day)] = true.
Proof. vm_compute. split; reflexivity. Qed.

Example ex_restore_fixed :
  subdir 0 (run true ex_stale [ex_restore; ETrim (10 * ex_day)]) =
  [mkObj ex_xd (10 * ex_day) ex_D KFile; mkObj ex_xa (10 * ex_day) ex_I KFile].
Proof. vm_compute. reflexivity. Qed.

(* Get alone does not protect the data file: an entry stored on day 1, found by Get on day 5
   and not otherwise used, loses its output to a trim on day 7 while the index entry
   survives.  (Get's contract says so: "finding an output ID does not guarantee that the saved
   file for that output ID is still available"; GetFile/GetBytes/OutputFile refresh it.) *)
Definition ex_entry : cdir :=
  mkDir [Some [mkObj ex_xa ex_day ex_I KFile; mkObj ex_xd ex_day ex_D KFile]] [] None false.

Theorem get_only_data_not_protected : exists c u now ia na id nd,
  dir_ok c /\ clock_ok u /\ clock_ok now /\ u <= now <= u + trim_limit /\
  has_file na (subdir ia c) = true /\ has_file nd (subdir id c) = true /\
  let c' := trim now (api_get u ia na c) in
  has_file na (subdir ia c') = true /\ has_file nd (subdir id c') = false.
Proof.
  exists ex_entry, (5 * ex_day), (7 * ex_day), 0%nat, ex_xa, 0%nat, ex_xd.
  split; [|split; [|split; [|split; [|split; [|split]]]]].
  - intros l o Hl Ho. destruct Hl as [Hl|[]]. inversion Hl; subst.
    destruct Ho as [<-|[<-|[]]]; unfold ns_ok; decide_range.
  - decide_range.
  - decide_range.
  - decide_range.
  - vm_compute. reflexivity.
  - vm_compute. reflexivity.
  - vm_compute. split; reflexivity.
Qed.

Definition ex_now : Z := 1800000000123456789.
Definition ex_sec : Z := 1800000000.

(* trim.txt contents: in the window / a day old to the second / just under an hour ahead /
   an hour ahead / the largest int64 (time.Unix wraps) / a value whose difference wraps into
   the window in int64 arithmetic (Sub's overflow check catches it) / white space / junk *)
Example ex_records :
  map (fun t => trim_due ex_now (Some (decimal t)))
      [ex_sec; ex_sec - 86399; ex_sec - 86400; ex_sec + 3600; ex_sec + 3601;
       9223372036854775807; -9223372036854775808; ex_sec - 36028797018963968]
  = [false; false; true; false; true; true; true; true]
  /\ trim_due ex_now (Some ([x20; x09] ++ decimal ex_sec ++ [x0a])) = false
  /\ trim_due ex_now (Some (decimal ex_sec ++ [x78])) = true
  /\ trim_due ex_now (Some []) = true
  /\ trim_due ex_now (Some (decimal 9223372036854775808)) = true
  /\ trim_due ex_now None = true.
Proof. vm_compute. repeat split; reflexivity. Qed.

Example ex_in_window : record_in_window ex_now (Some ([x20] ++ decimal (ex_sec + 3600) ++ [x0a])).
Proof.
  exists ([x20] ++ decimal (ex_sec + 3600) ++ [x0a]), (ex_sec + 3600).
  split; [reflexivity|]. split; [vm_compute; reflexivity|]. decide_range.
Qed.

Example ex_stale_record : record_stale ex_now (Some (decimal 9223372036854775807)).
Proof.
  right. exists (decimal 9223372036854775807). split; [reflexivity|]. right.
  exists 9223372036854775807. split; [vm_compute; reflexivity|]. right. vm_compute. discriminate.
Qed.

(* a population around the cutoff: entries exactly at, 1 ns before and after now - trimLimit -
   mtimeInterval; foreign names; a non-empty directory, a dangling link and an old link to a
   file with entry names; a missing subdirectory *)
Definition ex_cut : Z := ex_now - trim_limit - mtime_interval.
Definition ex_pop : cdir :=
  mkDir [Some [mkObj ex_xa (ex_cut - 1) ex_I KFile; mkObj ex_xd ex_cut ex_D KFile;
               mkObj [x52] 0 [] KFile (* "R", foreign *); mkObj [x2d; x61] 0 [] KFullDir;
               mkObj [x2d; x64] 0 [] KDangling; mkObj [x71; x2d; x64] 5 [] KEmptyDir;
               mkObj [x6c; x2d; x64] 7 ex_D KLink];
         None;
         Some [mkObj ex_xa 0 ex_I KFile]]
        [mkObj ex_xa 0 [] KFile (* an old "x-a" in the cache root is not an entry *)]
        (Some (decimal (ex_sec - 86400))) false.

Example ex_pop_trim :
  trim ex_now ex_pop =
  mkDir [Some [mkObj ex_xd ex_cut ex_D KFile; mkObj [x52] 0 [] KFile; mkObj [x2d; x61] 0 [] KFullDir;
               mkObj [x2d; x64] 0 [] KDangling];
         None;
         Some []]
        [mkObj ex_xa 0 [] KFile]
        (Some (decimal ex_sec)) false
  /\ trim_err ex_now ex_pop = false.
Proof. vm_compute. split; reflexivity. Qed.

Definition ex_pop_blocked : cdir := mkDir (subdirs ex_pop) (rootobjs ex_pop) None true.

(* trim.txt is a directory: the scan runs, Trim returns the write error, and a second Trim
   runs again *)
Example ex_blocked :
  subdirs (trim ex_now ex_pop_blocked) = subdirs (trim ex_now ex_pop) /\
  trim_err ex_now ex_pop_blocked = true /\
  trimtxt (trim ex_now ex_pop_blocked) = None /\
  trim_due (ex_now + 1) (read_record (trim ex_now ex_pop_blocked)) = true.
Proof. vm_compute. repeat split; reflexivity. Qed.

(* interrupted after the first subdirectory / after all of them: the record is unchanged and
   the next Trim yields the full result *)
Example ex_prefix :
  subdir 0 (trim_prefix 1 ex_now ex_pop) = subdir 0 (trim ex_now ex_pop) /\
  subdir 2 (trim_prefix 1 ex_now ex_pop) = subdir 2 ex_pop /\
  trimtxt (trim_prefix 256 ex_now ex_pop) = trimtxt ex_pop /\
  trim ex_now (trim_prefix 1 ex_now ex_pop) = trim ex_now ex_pop.
Proof. vm_compute. repeat split; reflexivity. Qed.

Example ex_pop_ok : dir_ok ex_pop /\ clock_ok ex_now /\ record_stale ex_now (read_record ex_pop).
Proof.
  split; [|split].
  - intros l o Hl Ho. unfold ns_ok.
    repeat (destruct Hl as [Hl|Hl]; [try discriminate Hl; inversion Hl; subst;
                                     repeat (destruct Ho as [<-|Ho]; [decide_range|]); destruct Ho|]).
    destruct Hl.
  - decide_range.
  - right. eexists. split; [reflexivity|]. right. exists (ex_sec - 86400).
    split; [vm_compute; reflexivity|]. left. vm_compute. discriminate.
Qed.

(* a Put whose index subdirectory is missing writes the data file only *)
Example ex_store_data_only :
  run true (mkDir [None; Some []] [] None false)
      [EStoreData 5 5 1 ex_xd ex_D; EStore 6 6 0 ex_xa ex_I 1 ex_xd ex_D] =
  mkDir [None; Some [mkObj ex_xd 5 ex_D KFile]] [] None false.
Proof. vm_compute. reflexivity. Qed.

(* a history: store at day 0, lookup at day 4, trims at day 5 and day 8 keep the entry; so does
   a trim at day 9 + 1 h (mtime = cutoff); one nanosecond later it is removed *)
Definition ex_t0 : Z := 1800000000000000000.
Definition ex_hist : list event :=
  [EStore ex_t0 ex_t0 0 ex_xa ex_I 0 ex_xd ex_D;
   ELookup (ex_t0 + 4 * ex_day) 0 ex_xa 0 ex_xd;
   ETrim (ex_t0 + 5 * ex_day);
   ETrim (ex_t0 + 8 * ex_day)].

Example ex_history :
  subdir 0 (run true (mkDir [Some []] [] None false) (ex_hist ++ [ETrim (ex_t0 + 9 * ex_day + mtime_interval)])) =
    [mkObj ex_xd (ex_t0 + 4 * ex_day) ex_D KFile; mkObj ex_xa (ex_t0 + 4 * ex_day) ex_I KFile]
  /\ subdir 0 (run true (mkDir [Some []] [] None false) (ex_hist ++ [ETrim (ex_t0 + 9 * ex_day + mtime_interval + 1)])) = [].
Proof. vm_compute. split; reflexivity. Qed.

Example ex_used :
  map (fun age => omtime (used_obj ex_now (mkObj ex_xa (ex_now - age) ex_I KFile)) - ex_now)
      [0; mtime_interval - 1; mtime_interval; mtime_interval + 1; -5]
  = [0; 1 - mtime_interval; 0; 0; 5].
Proof. vm_compute. reflexivity. Qed.

(* C13 — facts about the int64 / package-time part of the model: for valid wall-clock values the
   operations of time.go agree with integer arithmetic on Unix nanoseconds; Time.Sub is the
   clamp of the mathematical difference; ParseInt/decimal round trip. *)
From Coq Require Import List Bool ZArith Lia.
From Coq.Strings Require Import Byte.
From GI Require Import Lib.Bytes Gen.CacheTrimConsts CacheTrim.CacheTrim.
Import ListNotations.
Local Open Scope Z_scope.

Ltac zlia := Z.to_euclidean_division_equations; lia.

Definition i64 (z : Z) : Prop := - two63 <= z < two63.

Lemma unix_to_internal_val : unix_to_internal = 62135596800.
Proof. reflexivity. Qed.

(* ---- wrap64 *)

Lemma wrap64_id : forall z, i64 z -> wrap64 z = z.
Proof.
  intros z H. unfold wrap64, i64, two63, two64 in *.
  rewrite Z.mod_small by lia. lia.
Qed.

Lemma wrap64_range : forall z, i64 (wrap64 z).
Proof.
  intros z. unfold wrap64, i64, two63, two64.
  pose proof (Z.mod_pos_bound (z + 9223372036854775808) 18446744073709551616). lia.
Qed.

Lemma wrap64_eq : forall z, exists k, wrap64 z = z + k * two64.
Proof.
  intros z. unfold wrap64.
  exists (- ((z + two63) / two64)).
  pose proof (Z.div_mod (z + two63) two64). unfold two64 in *. lia.
Qed.

Lemma wrap64_high : forall z, two63 <= z < two63 + two64 -> wrap64 z = z - two64.
Proof.
  intros z H. destruct (wrap64_eq z) as [k Hk]. pose proof (wrap64_range z) as R.
  unfold i64, two63, two64 in *. lia.
Qed.

Lemma wrap64_low : forall z, - two63 - two64 <= z < - two63 -> wrap64 z = z + two64.
Proof.
  intros z H. destruct (wrap64_eq z) as [k Hk]. pose proof (wrap64_range z) as R.
  unfold i64, two63, two64 in *. lia.
Qed.

(* ---- valid wall-clock values and their Unix nanoseconds *)

Definition valid (t : gotime) : Prop := i64 (tsec t) /\ 0 <= tnsec t < nano.

Definition ns_of (t : gotime) : Z := (tsec t - unix_to_internal) * nano + tnsec t.

Lemma ns_of_inj : forall a b, valid a -> valid b -> ns_of a = ns_of b -> a = b.
Proof.
  intros [sa na] [sb nb] [_ Ha] [_ Hb] E. unfold ns_of, nano in *. simpl in *.
  assert (sa = sb) by lia. subst. f_equal; lia.
Qed.

Lemma time_of_ns_sec : forall z, ns_ok z -> tsec (time_of_ns z) = z / nano + unix_to_internal.
Proof.
  intros z H. unfold time_of_ns, time_unix. simpl. apply wrap64_id. exact H.
Qed.

Lemma time_of_ns_valid : forall z, ns_ok z -> valid (time_of_ns z).
Proof.
  intros z H. split.
  - rewrite time_of_ns_sec by exact H. exact H.
  - unfold time_of_ns, time_unix. simpl. unfold nano. apply Z.mod_pos_bound. lia.
Qed.

Lemma ns_of_time_of_ns : forall z, ns_ok z -> ns_of (time_of_ns z) = z.
Proof.
  intros z H. unfold ns_of. rewrite time_of_ns_sec by exact H.
  unfold time_of_ns, time_unix. simpl.
  pose proof (Z.div_mod z nano). unfold nano in *. lia.
Qed.

Lemma clock_ns_ok : forall z, clock_ok z -> ns_ok z.
Proof.
  intros z [H0 H1]. unfold ns_ok. rewrite unix_to_internal_val.
  unfold two63, nano in *. zlia.
Qed.

Lemma clock_sec_bounds : forall z, clock_ok z ->
  62135596800 <= tsec (time_of_ns z) <= 62135596800 + 9223372037.
Proof.
  intros z H. rewrite time_of_ns_sec by (apply clock_ns_ok; exact H).
  rewrite unix_to_internal_val. destruct H as [H0 H1].
  assert (0 <= z / nano) by (apply Z.div_pos; unfold nano; lia).
  assert (z / nano < 9223372037).
  { apply Z.div_lt_upper_bound; unfold nano, two63 in *; lia. }
  lia.
Qed.

Lemma time_before_spec : forall a b, valid a -> valid b ->
  time_before a b = (ns_of a <? ns_of b).
Proof.
  intros [sa na] [sb nb] [_ Ha] [_ Hb]. unfold time_before, ns_of, nano in *. simpl in *.
  destruct (sa <? sb) eqn:E1; destruct (sa =? sb) eqn:E2; destruct (na <? nb) eqn:E3;
    destruct ((sa - unix_to_internal) * 1000000000 + na <? (sb - unix_to_internal) * 1000000000 + nb) eqn:E4;
    simpl; try reflexivity; exfalso; lia.
Qed.

(* ---- addSec and Add *)

Lemma add_sec_exact : forall ext d, i64 ext -> i64 (ext + d) -> add_sec ext d = ext + d.
Proof.
  intros ext d He Hs. unfold add_sec. rewrite (wrap64_id _ Hs).
  destruct (ext + d >? ext) eqn:E1; destruct (d >? 0) eqn:E2; simpl; try reflexivity; exfalso; lia.
Qed.

Lemma add_sec_cases : forall ext d, i64 ext -> i64 d ->
  (i64 (ext + d) /\ add_sec ext d = ext + d)
  \/ (two63 <= ext + d /\ add_sec ext d = two63 - 1)
  \/ (ext + d < - two63 /\ add_sec ext d = - (two63 - 1)).
Proof.
  intros ext d He Hd.
  destruct (Z_lt_dec (ext + d) (- two63)) as [Hlo|Hlo].
  - right; right. split; [assumption|].
    unfold add_sec. rewrite wrap64_low by (unfold i64, two63, two64 in *; lia).
    destruct (ext + d + two64 >? ext) eqn:E1; destruct (d >? 0) eqn:E2; simpl; try reflexivity;
      exfalso; unfold i64, two63, two64 in *; lia.
  - destruct (Z_lt_dec (ext + d) two63) as [Hhi|Hhi].
    + left. assert (i64 (ext + d)) by (unfold i64; lia). split; [assumption|].
      apply add_sec_exact; assumption.
    + right; left. split; [lia|].
      unfold add_sec. rewrite wrap64_high by (unfold i64, two63, two64 in *; lia).
      destruct (ext + d - two64 >? ext) eqn:E1; destruct (d >? 0) eqn:E2; simpl; try reflexivity;
        exfalso; unfold i64, two63, two64 in *; lia.
Qed.

(* the decomposition Add performs on a duration: a seconds part and a normalised nsec part *)
Lemma time_add_decomp : forall t d, valid t -> i64 d ->
  exists ds ns, time_add t d = mkT (add_sec (tsec t) ds) ns /\ 0 <= ns < nano /\
                ds * nano + ns = tnsec t + d /\ i64 ds.
Proof.
  intros [s n] d [Hs Hn] Hd. unfold time_add. simpl in *.
  assert (Hqr : d = nano * Z.quot d nano + Z.rem d nano) by (unfold nano; zlia).
  assert (Hrem : - nano < Z.rem d nano < nano) by (unfold nano; zlia).
  assert (Hq : - two63 < Z.quot d nano < two63 - 1) by (unfold i64, two63, nano in *; zlia).
  destruct (n + Z.rem d nano >=? nano) eqn:E1.
  - exists (Z.quot d nano + 1), (n + Z.rem d nano - nano).
    split; [reflexivity|]. unfold i64, nano in *. lia.
  - destruct (n + Z.rem d nano <? 0) eqn:E2.
    + exists (Z.quot d nano - 1), (n + Z.rem d nano + nano).
      split; [reflexivity|]. unfold i64, nano in *. lia.
    + exists (Z.quot d nano), (n + Z.rem d nano).
      split; [reflexivity|]. unfold i64, nano in *. lia.
Qed.

(* Add on a valid time whose result is representable is addition of nanoseconds *)
Lemma time_add_spec : forall t d, valid t -> i64 d -> ns_ok (ns_of t + d) ->
  time_add t d = time_of_ns (ns_of t + d).
Proof.
  intros t d Hv Hd Hok.
  destruct (time_add_decomp t d Hv Hd) as (ds & ns & Heq & Hns & Hsum & Hds).
  rewrite Heq. destruct t as [s n]. destruct Hv as [Hs Hn]. simpl in *.
  assert (Hdiv : (ns_of (mkT s n) + d) / nano = s - unix_to_internal + ds /\
                 (ns_of (mkT s n) + d) mod nano = ns).
  { unfold ns_of. simpl.
    assert (E : (s - unix_to_internal) * nano + n + d = (s - unix_to_internal + ds) * nano + ns) by (unfold nano in *; lia).
    rewrite E. split.
    - rewrite Z.div_add_l by (unfold nano; lia). rewrite Z.div_small by lia. lia.
    - rewrite Z.add_comm, Z.mod_add by (unfold nano; lia). apply Z.mod_small. lia. }
  destruct Hdiv as [Hq Hr].
  unfold time_of_ns, time_unix. rewrite Hq, Hr.
  unfold ns_ok in Hok. rewrite Hq in Hok.
  replace (s - unix_to_internal + ds + unix_to_internal) with (s + ds) in * by lia.
  rewrite wrap64_id by exact Hok.
  rewrite add_sec_exact by assumption. reflexivity.
Qed.

(* ---- Sub is the clamp of the mathematical difference *)

Definition clamp64 (z : Z) : Z :=
  if z <? min_duration then min_duration else if z >? max_duration then max_duration else z.

Lemma time_sub_spec : forall t u, valid t -> valid u ->
  - (two63 - 1) < tsec t < two63 - 1 ->
  time_sub t u = clamp64 (ns_of t - ns_of u).
Proof.
  intros t u Hvt Hvu Hts.
  unfold time_sub.
  set (D := (tsec t - tsec u) * nano + (tnsec t - tnsec u)).
  assert (HD : ns_of t - ns_of u = D) by (unfold ns_of, D; lia).
  rewrite HD.
  destruct (wrap64_eq D) as [k Hk]. pose proof (wrap64_range D) as Hr.
  set (d := wrap64 D) in *. clearbody d.
  destruct (time_add_decomp u d Hvu Hr) as (ds & ns & Heq & Hns & Hsum & Hds).
  rewrite Heq. unfold time_equal. simpl.
  destruct Hvt as [Hst Hnt]. destruct Hvu as [Hsu Hnu].
  destruct (add_sec_cases (tsec u) ds Hsu Hds) as [[Hin Hadd]|[[Hge Hadd]|[Hlt Hadd]]].
  - rewrite Hadd.
    destruct (Z.eq_dec k 0) as [K0|K0].
    + (* representable: d = D, and u + d = t *)
      assert (d = D) by lia.
      assert (tsec u + ds = tsec t /\ ns = tnsec t) as [E1 E2] by (unfold D, nano in *; lia).
      rewrite E1, E2, !Z.eqb_refl. simpl.
      unfold clamp64, min_duration, max_duration.
      unfold i64 in Hr.
      destruct (D <? - two63) eqn:C1; [exfalso; lia|].
      destruct (D >? two63 - 1) eqn:C2; [exfalso; lia|]. lia.
    + (* not representable *)
      assert (Hne : (tsec u + ds =? tsec t) && (ns =? tnsec t) = false).
      { destruct (tsec u + ds =? tsec t) eqn:E1; [|reflexivity].
        destruct (ns =? tnsec t) eqn:E2; [|reflexivity]. exfalso.
        apply Z.eqb_eq in E1. apply Z.eqb_eq in E2.
        assert (d = D) by (unfold D, nano in *; lia).
        unfold two64 in *. lia. }
      rewrite Hne.
      rewrite time_before_spec by (split; assumption).
      assert (HnD : ~ i64 D).
      { intro HiD. unfold i64, two63, two64 in *. lia. }
      unfold clamp64, min_duration, max_duration, i64 in *.
      destruct (ns_of t <? ns_of u) eqn:B.
      * destruct (D <? - two63) eqn:C1; [reflexivity|]. exfalso. lia.
      * destruct (D <? - two63) eqn:C1; [exfalso; lia|].
        destruct (D >? two63 - 1) eqn:C2; [reflexivity|]. exfalso. lia.
  - (* the seconds saturated upwards: u + d is far above t, so D < d, i.e. D wrapped from below *)
    rewrite Hadd.
    assert (Hne : (two63 - 1 =? tsec t) = false) by (apply Z.eqb_neq; lia).
    rewrite Hne. simpl.
    rewrite time_before_spec by (split; assumption).
    assert (Hdist : D - d = (tsec t - (tsec u + ds)) * nano + (tnsec t - ns)) by (unfold D, nano in *; lia).
    assert (HDlow : D < - two63) by (unfold i64, two63, two64, nano in *; lia).
    unfold clamp64, min_duration, max_duration.
    destruct (ns_of t <? ns_of u) eqn:B; [|exfalso; unfold two63 in *; lia].
    destruct (D <? - two63) eqn:C1; [reflexivity|exfalso; lia].
  - (* saturated downwards *)
    rewrite Hadd.
    assert (Hne : (- (two63 - 1) =? tsec t) = false) by (apply Z.eqb_neq; lia).
    rewrite Hne. simpl.
    rewrite time_before_spec by (split; assumption).
    assert (Hdist : D - d = (tsec t - (tsec u + ds)) * nano + (tnsec t - ns)) by (unfold D, nano in *; lia).
    assert (HDhigh : two63 - 1 < D) by (unfold i64, two63, two64, nano in *; lia).
    unfold clamp64, min_duration, max_duration.
    destruct (ns_of t <? ns_of u) eqn:B; [exfalso; unfold two63 in *; lia|].
    destruct (D <? - two63) eqn:C1; [exfalso; unfold two63 in *; lia|].
    destruct (D >? two63 - 1) eqn:C2; [reflexivity|exfalso; lia].
Qed.

(* ---- ParseInt / decimal *)

Lemma digit_val_range : forall b d, digit_val b = Some d -> 0 <= d <= 9.
Proof.
  intros b d. unfold digit_val.
  destruct ((48 <=? Z.of_N (to_N b)) && (Z.of_N (to_N b) <=? 57)) eqn:E; [|discriminate].
  intro H. inversion H. apply andb_true_iff in E. lia.
Qed.

Lemma parse_digits_nonneg : forall s acc v, 0 <= acc -> parse_digits acc s = Some v -> 0 <= v.
Proof.
  induction s as [|b r IH]; simpl; intros acc v Ha H.
  - inversion H. lia.
  - destruct (digit_val b) as [d|] eqn:E; [|discriminate].
    apply digit_val_range in E. eapply IH; [|exact H]. lia.
Qed.

(* whatever ParseInt accepts is an int64 *)
Lemma parse_int_range : forall s v, parse_int s = Some v -> i64 v.
Proof.
  intros s v. unfold parse_int. destruct s as [|b r]; [discriminate|].
  destruct (if beq b "+" || beq b "-" then r else b :: r) as [|x xs] eqn:Eds; [discriminate|].
  destruct (parse_digits 0 (x :: xs)) as [n|] eqn:Ep; [|discriminate].
  assert (0 <= n) by (eapply parse_digits_nonneg; [|exact Ep]; lia).
  destruct (beq b "-").
  - destruct (n <=? two63) eqn:E; [|discriminate]. intro H0. inversion H0.
    unfold i64, two63 in *. lia.
  - destruct (n <? two63) eqn:E; [|discriminate]. intro H0. inversion H0.
    unfold i64, two63 in *. lia.
Qed.

Lemma parse_digits_app : forall s1 s2 acc,
  parse_digits acc (s1 ++ s2) =
  match parse_digits acc s1 with Some a => parse_digits a s2 | None => None end.
Proof.
  induction s1 as [|b r IH]; simpl; intros s2 acc; [reflexivity|].
  destruct (digit_val b); [apply IH|reflexivity].
Qed.

Definition is_digit (b : byte) : bool :=
  match b with
  | x30 | x31 | x32 | x33 | x34 | x35 | x36 | x37 | x38 | x39 => true
  | _ => false
  end.

Lemma digit_byte_spec : forall n, 0 <= n <= 9 ->
  digit_val (digit_byte n) = Some n /\ is_digit (digit_byte n) = true.
Proof.
  intros n H.
  assert (C : n = 0 \/ n = 1 \/ n = 2 \/ n = 3 \/ n = 4 \/ n = 5 \/ n = 6 \/ n = 7 \/ n = 8 \/ n = 9) by lia.
  repeat (destruct C as [C|C]; [subst; split; reflexivity|]). subst; split; reflexivity.
Qed.

Lemma dec_rev_spec : forall fuel n, 0 <= n < 2 ^ Z.of_nat fuel -> (0 < fuel)%nat ->
  parse_digits 0 (rev (dec_rev fuel n)) = Some n /\
  Forall (fun b => is_digit b = true) (dec_rev fuel n) /\ dec_rev fuel n <> [].
Proof.
  induction fuel as [|f IH]; intros n Hn Hf; [lia|].
  cbn [dec_rev].
  destruct (n <? 10) eqn:E.
  - destruct (digit_byte_spec n) as [Hv Hd]; [lia|].
    split; [|split].
    + simpl. rewrite Hv. f_equal; lia.
    + constructor; [exact Hd|constructor].
    + discriminate.
  - assert (Hq : 0 <= n / 10 < 2 ^ Z.of_nat f).
    { rewrite Nat2Z.inj_succ, Z.pow_succ_r in Hn by lia. zlia. }
    assert (Hf' : (0 < f)%nat).
    { destruct f; [|lia]. simpl in Hn. lia. }
    destruct (IH (n / 10) Hq Hf') as (Hp & Hall & Hne).
    destruct (digit_byte_spec (n mod 10)) as [Hv Hd]; [zlia|].
    split; [|split].
    + cbn [rev]. rewrite parse_digits_app, Hp. cbn [parse_digits]. rewrite Hv. f_equal; zlia.
    + constructor; assumption.
    + discriminate.
Qed.

Lemma decimal_nat_spec : forall n, 0 <= n ->
  parse_digits 0 (decimal_nat n) = Some n /\
  Forall (fun b => is_digit b = true) (decimal_nat n) /\ decimal_nat n <> [].
Proof.
  intros n Hn. unfold decimal_nat.
  assert (Hb : 0 <= n < 2 ^ Z.of_nat (S (Z.to_nat (Z.log2 n)))).
  { rewrite Nat2Z.inj_succ, Z2Nat.id by apply Z.log2_nonneg.
    destruct (Z.eq_dec n 0) as [->|Hnz]; [simpl; lia|].
    pose proof (Z.log2_spec n). lia. }
  destruct (dec_rev_spec _ n Hb) as (Hp & Hall & Hne); [lia|].
  split; [exact Hp|split].
  - apply Forall_rev. exact Hall.
  - intro E. apply Hne. apply (f_equal (@rev byte)) in E. rewrite rev_involutive in E. exact E.
Qed.

(* what Trim writes, ParseInt reads back *)
Lemma decimal_parse : forall z, i64 z -> parse_int (decimal z) = Some z.
Proof.
  intros z Hz. unfold decimal.
  destruct (z <? 0) eqn:E.
  - destruct (decimal_nat_spec (- z)) as (Hp & Hall & Hne); [lia|].
    unfold parse_int. cbn [beq Byte.eqb orb]. 
    destruct (decimal_nat (- z)) as [|x xs] eqn:Ed; [congruence|].
    change (beq "-" "+") with false. change (beq "-" "-") with true. cbn [orb].
    rewrite Hp.
    assert (Hle : (- z <=? two63) = true) by (unfold i64 in Hz; apply Z.leb_le; lia).
    rewrite Hle. f_equal; lia.
  - destruct (decimal_nat_spec z) as (Hp & Hall & Hne); [lia|].
    unfold parse_int.
    destruct (decimal_nat z) as [|x xs] eqn:Ed; [congruence|].
    assert (Hx : is_digit x = true) by (inversion Hall; assumption).
    assert (Hs : beq x "+" = false /\ beq x "-" = false).
    { destruct x; try discriminate Hx; split; reflexivity. }
    destruct Hs as [Hs1 Hs2]. rewrite Hs1, Hs2. cbn [orb]. rewrite Hp.
    assert (Hlt : (z <? two63) = true) by (unfold i64 in Hz; apply Z.ltb_lt; lia).
    rewrite Hlt. reflexivity.
Qed.

(* no byte of a decimal is (part of) a white-space rune, so TrimSpace leaves it alone *)
Definition is_plain (b : byte) : bool := is_digit b || beq b "-".

Lemma plain_no_space_prefix : forall b r, is_plain b = true -> space_prefix (b :: r) = 0%nat.
Proof. intros b r H. destruct b; try discriminate H; reflexivity. Qed.

Lemma plain_no_space_suffix : forall b r, is_plain b = true -> space_suffix_rev' (b :: r) = 0%nat.
Proof.
  intros b r H. destruct b; try discriminate H;
    (destruct r as [|a r]; [reflexivity|];
     destruct a; try reflexivity;
     destruct r as [|a2 r]; [reflexivity|];
     destruct a2; reflexivity).
Qed.

Lemma trim_space_plain : forall d, Forall (fun b => is_plain b = true) d -> trim_space d = d.
Proof.
  intros d H. unfold trim_space.
  assert (HL : trim_left d = d).
  { unfold trim_left. destruct d as [|b r]; [reflexivity|].
    cbn [length trim_left_fuel]. rewrite plain_no_space_prefix; [reflexivity|].
    inversion H; assumption. }
  rewrite HL. unfold trim_right.
  destruct (rev d) as [|b q] eqn:E.
  - destruct d as [|x xs]; [reflexivity|].
    apply (f_equal (@length byte)) in E. rewrite rev_length in E. discriminate.
  - assert (Hb : is_plain b = true).
    { apply Forall_rev in H. rewrite E in H. inversion H; assumption. }
    assert (Hlen : length d = S (length q)).
    { rewrite <- (rev_length d), E. reflexivity. }
    rewrite Hlen. cbn [trim_right_rev_fuel]. rewrite plain_no_space_suffix by exact Hb.
    rewrite <- E. apply rev_involutive.
Qed.

Lemma decimal_plain : forall z, Forall (fun b => is_plain b = true) (decimal z).
Proof.
  intros z. unfold decimal.
  assert (W : forall n, 0 <= n -> Forall (fun b => is_plain b = true) (decimal_nat n)).
  { intros n Hn. destruct (decimal_nat_spec n Hn) as (_ & Hall & _).
    eapply Forall_impl; [|exact Hall]. intros b Hb. unfold is_plain. rewrite Hb. reflexivity. }
  destruct (z <? 0) eqn:E.
  - constructor; [reflexivity|]. apply W. lia.
  - apply W. lia.
Qed.

Lemma trim_space_decimal : forall z, trim_space (decimal z) = decimal z.
Proof. intros z. apply trim_space_plain, decimal_plain. Qed.

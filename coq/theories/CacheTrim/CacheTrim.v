(* C13 — model of the methods used, Trim and trimSubdir (cache/cache.go), definitions only.

   Time.  The clock value [now] and file mtimes are Z nanoseconds since the Unix epoch.  The
   code mixes them through package time: time.Unix(sec, nsec) (int64 seconds, which wrap when
   unixToInternal is added), Time.Add (seconds saturate), Time.Sub (int64 nanoseconds that
   wrap, then checked with Add/Equal and saturated), Time.Before, Time.Unix().  These are
   written out below exactly as Go 1.23's time.go computes them on the wall-clock
   representation (sec, nsec); the facts file proves that, for a clock between 1970 and
   2262, they agree with plain integer arithmetic on nanoseconds followed by a clamp — for
   EVERY int64 in trim.txt, including those for which time.Unix wraps.

   Directory.  [subdirs] are the 256 two-hex-digit subdirectories in order (None = the
   subdirectory does not exist or cannot be opened), [rootobjs] everything else in the cache
   root except trim.txt (README, fuzz/, foreign files and directories, treated as opaque
   objects), [trimtxt] the contents of trim.txt (None = missing), [trimblocked] says that
   trim.txt can neither be read nor written (it is a directory).  An object carries its name,
   mtime, an opaque content and a kind that says how os.Stat and os.Remove answer for it. *)
From Coq Require Import List Bool ZArith.
From Coq.Strings Require Import Byte.
From GI Require Import Lib.Bytes Gen.CacheTrimConsts.
Import ListNotations.
Local Open Scope Z_scope.

(* ------------------------------------------------------------------ int64 and package time *)

Definition two63 : Z := 9223372036854775808.
Definition two64 : Z := 18446744073709551616.

(* the value an int64 computation yields for the mathematical result z *)
Definition wrap64 (z : Z) : Z := (z + two63) mod two64 - two63.

Definition min_duration : Z := - two63.
Definition max_duration : Z := two63 - 1.

Definition nano : Z := 1000000000.

(* time.unixToInternal = (1969*365 + 1969/4 - 1969/100 + 1969/400) * secondsPerDay *)
Definition unix_to_internal : Z := (1969 * 365 + 1969 / 4 - 1969 / 100 + 1969 / 400) * 86400.

(* a time.Time without monotonic reading: seconds since year 1 (the int64 field ext) and
   nanoseconds in [0, 1e9) *)
Record gotime := mkT { tsec : Z; tnsec : Z }.

(* time.Unix(s, ns) for 0 <= ns < 1e9: unixTime(sec, nsec) = Time{nsec, sec + unixToInternal} *)
Definition time_unix (s ns : Z) : gotime := mkT (wrap64 (s + unix_to_internal)) ns.

(* the Time of an instant given in Unix nanoseconds: what os.Stat's ModTime() returns for a
   timespec (floor seconds, nsec >= 0), and what the clock returns *)
Definition time_of_ns (z : Z) : gotime := time_unix (z / nano) (z mod nano).

(* Time.addSec on the wall-only representation *)
Definition add_sec (ext d : Z) : Z :=
  let sum := wrap64 (ext + d) in
  if Bool.eqb (sum >? ext) (d >? 0) then sum
  else if d >? 0 then two63 - 1 else - (two63 - 1).

(* Time.Add: Go's / and % truncate towards zero (Z.quot, Z.rem) *)
Definition time_add (t : gotime) (d : Z) : gotime :=
  let dsec := Z.quot d nano in
  let ns := tnsec t + Z.rem d nano in
  if ns >=? nano then mkT (add_sec (tsec t) (dsec + 1)) (ns - nano)
  else if ns <? 0 then mkT (add_sec (tsec t) (dsec - 1)) (ns + nano)
  else mkT (add_sec (tsec t) dsec) ns.

Definition time_equal (a b : gotime) : bool := (tsec a =? tsec b) && (tnsec a =? tnsec b).

Definition time_before (a b : gotime) : bool :=
  (tsec a <? tsec b) || ((tsec a =? tsec b) && (tnsec a <? tnsec b)).

(* Time.Sub.  d := Duration(t.sec()-u.sec())*Second + Duration(t.nsec()-u.nsec()) is int64
   arithmetic; since int64 +,-,* are ring operations modulo 2^64 the three intermediate
   wrap-arounds equal one wrap-around of the mathematical value. *)
Definition time_sub (t u : gotime) : Z :=
  let d := wrap64 ((tsec t - tsec u) * nano + (tnsec t - tnsec u)) in
  if time_equal (time_add u d) t then d
  else if time_before t u then min_duration else max_duration.

(* Time.Unix(): t.sec() + internalToUnix *)
Definition time_unix_seconds (t : gotime) : Z := wrap64 (tsec t - unix_to_internal).

(* ------------------------------------------------------------------ strconv *)

Definition digit_val (b : byte) : option Z :=
  let n := Z.of_N (Byte.to_N b) in
  if (48 <=? n) && (n <=? 57) then Some (n - 48) else None.

Fixpoint parse_digits (acc : Z) (s : bytes) : option Z :=
  match s with
  | [] => Some acc
  | b :: r => match digit_val b with
              | Some d => parse_digits (acc * 10 + d) r
              | None => None
              end
  end.

(* strconv.ParseInt(s, 10, 64) as far as its caller can see: Some v when err == nil.  Base 10
   accepts an optional sign and one or more ASCII digits (no underscores, no prefixes); a
   value outside int64 is a range error. *)
Definition parse_int (s : bytes) : option Z :=
  match s with
  | [] => None
  | b :: r =>
      let neg := beq b x2d in
      let ds := if beq b x2b || beq b x2d then r else s in
      match ds with
      | [] => None
      | _ :: _ =>
          match parse_digits 0 ds with
          | None => None
          | Some n =>
              if neg then (if n <=? two63 then Some (- n) else None)
              else (if n <? two63 then Some n else None)
          end
      end
  end.

Definition digit_byte (d : Z) : byte :=
  match Byte.of_N (Z.to_N (d + 48)) with Some b => b | None => x30 end.

(* digits of n >= 0, least significant first; the fuel given by [decimal_nat] is sufficient
   (decimal_parse in the facts file) *)
Fixpoint dec_rev (fuel : nat) (n : Z) : bytes :=
  match fuel with
  | O => []
  | S f => if n <? 10 then [digit_byte n] else digit_byte (n mod 10) :: dec_rev f (n / 10)
  end.

Definition decimal_nat (n : Z) : bytes := rev (dec_rev (S (Z.to_nat (Z.log2 n))) n).

(* fmt.Fprintf(&b, "%d", z) *)
Definition decimal (z : Z) : bytes :=
  if z <? 0 then x2d :: decimal_nat (- z) else decimal_nat z.

(* ------------------------------------------------------------------ directory *)

(* how the object answers: KFile a regular file; KLink a symbolic link to a regular file
   outside the cache (Stat, Chtimes, reads and writes go to the target, Remove removes the
   link; [omtime]/[odata] are the target's); KEmptyDir a directory os.Remove can remove;
   KFullDir a non-empty directory (os.Remove fails); KDangling a symbolic link whose target
   is missing (os.Stat and os.Chtimes fail) *)
Inductive okind := KFile | KLink | KEmptyDir | KFullDir | KDangling.

Definition okind_eqb (a b : okind) : bool :=
  match a, b with
  | KFile, KFile | KLink, KLink | KEmptyDir, KEmptyDir | KFullDir, KFullDir
  | KDangling, KDangling => true
  | _, _ => false
  end.

Definition stat_ok (k : okind) : bool := match k with KDangling => false | _ => true end.
Definition remove_ok (k : okind) : bool := match k with KFullDir => false | _ => true end.
(* open for reading / writing reaches a regular file *)
Definition file_like (k : okind) : bool := match k with KFile | KLink => true | _ => false end.

Record obj := mkObj { oname : bytes; omtime : Z; odata : bytes; okind_of : okind }.

Record cdir := mkDir {
  subdirs : list (option (list obj));
  rootobjs : list obj;
  trimtxt : option bytes;
  trimblocked : bool }.

Definition set_mtime (m : Z) (o : obj) : obj := mkObj (oname o) m (odata o) (okind_of o).

Fixpoint upd_nth {A} (i : nat) (f : A -> A) (l : list A) : list A :=
  match l, i with
  | [], _ => []
  | x :: r, O => f x :: r
  | x :: r, S j => x :: upd_nth j f r
  end.

(* an operation on the files of subdirectory i; nothing happens when it does not exist *)
Definition upd_subdir (i : nat) (f : list obj -> list obj) (c : cdir) : cdir :=
  mkDir (upd_nth i (option_map f) (subdirs c)) (rootobjs c) (trimtxt c) (trimblocked c).

Definition present (i : nat) (c : cdir) : bool :=
  match nth i (subdirs c) None with Some _ => true | None => false end.

(* the files of subdirectory i (none when it does not exist) *)
Definition subdir (i : nat) (c : cdir) : list obj :=
  match nth i (subdirs c) None with Some l => l | None => [] end.

(* ------------------------------------------------------------------ used *)

(* func (c *Cache) used(file string):
     info, err := os.Stat(file)
     if err == nil && c.now().Sub(info.ModTime()) < mtimeInterval { return }
     os.Chtimes(file, c.now(), c.now())
   For a dangling link both Stat and Chtimes fail; for a missing file likewise. *)
Definition used_obj (now : Z) (o : obj) : obj :=
  if stat_ok (okind_of o) then
    if time_sub (time_of_ns now) (time_of_ns (omtime o)) <? used_threshold then o
    else set_mtime now o
  else o.

Definition on_name (name : bytes) (f : obj -> obj) (o : obj) : obj :=
  if bytes_eqb (oname o) name then f o else o.

(* used(filepath.Join(c.dir, "%02x" i, name)) *)
Definition used (now : Z) (i : nat) (name : bytes) (c : cdir) : cdir :=
  upd_subdir i (map (on_name name (used_obj now))) c.

(* ------------------------------------------------------------------ Trim *)

(* the candidates of trimSubdir: !HasSuffix(name, "-a") && !HasSuffix(name, "-d") => continue *)
Definition is_entry_name (name : bytes) : bool :=
  existsb (fun s => has_suffix s name) trim_suffixes.

(* info, err := os.Stat(entry); if err == nil && info.ModTime().Before(cutoff) { os.Remove(entry) } *)
Definition trim_removes (cutoff : gotime) (o : obj) : bool :=
  is_entry_name (oname o) && stat_ok (okind_of o)
  && time_before (time_of_ns (omtime o)) cutoff && remove_ok (okind_of o).

Definition trim_subdir (cutoff : gotime) (l : list obj) : list obj :=
  filter (fun o => negb (trim_removes cutoff o)) l.

(* for i := range 256 { c.trimSubdir(filepath.Join(c.dir, "%02x" i), cutoff) }; a
   subdirectory that cannot be opened is skipped (trimSubdir returns) *)
Definition trim_subdirs (cutoff : gotime) (sds : list (option (list obj))) : list (option (list obj)) :=
  let n := Z.to_nat trim_subdir_count in
  map (option_map (trim_subdir cutoff)) (firstn n sds) ++ skipn n sds.

(* the test at the top of Trim: true = the scan runs.
     if data, err := lockedfile.Read(trim.txt); err == nil {
       if t, err := strconv.ParseInt(strings.TrimSpace(string(data)), 10, 64); err == nil {
         lastTrim := time.Unix(t, 0)
         if d := now.Sub(lastTrim); d < trimInterval && d > -mtimeInterval { return nil } } } *)
Definition trim_due (now : Z) (record : option bytes) : bool :=
  match record with
  | None => true
  | Some data =>
      match parse_int (trim_space data) with
      | None => true
      | Some t =>
          let d := time_sub (time_of_ns now) (time_unix t 0) in
          negb ((d <? window_upper) && (d >? window_lower))
      end
  end.

Definition trim_cutoff (now : Z) : gotime := time_add (time_of_ns now) cutoff_offset.

(* what lockedfile.Read(trim.txt) yields: None when err != nil (missing, or not readable) *)
Definition read_record (c : cdir) : option bytes :=
  if trimblocked c then None else trimtxt c.

(* Trim.  No failure inside the scan aborts it (a subdirectory that cannot be opened, a Stat
   or Remove that fails are skipped); the only error Trim returns is that of the final
   lockedfile.Write, and then trim.txt stays as it was. *)
Definition trim (now : Z) (c : cdir) : cdir :=
  if trim_due now (read_record c) then
    mkDir (trim_subdirs (trim_cutoff now) (subdirs c)) (rootobjs c)
          (if trimblocked c then trimtxt c
           else Some (decimal (time_unix_seconds (time_of_ns now))))
          (trimblocked c)
  else c.

(* Trim's return value: true = a non-nil error *)
Definition trim_err (now : Z) (c : cdir) : bool :=
  trim_due now (read_record c) && trimblocked c.

(* A Trim that stopped somewhere (the process was killed, the machine went down): [done i o]
   says whether the removal of object o of subdirectory i had been carried out.  trim.txt is
   written last, so it is unchanged.  Every order in which subdirectories and names are
   processed, and every stopping point, is an instance ([trim_prefix]: the first k
   subdirectories were completed). *)
Definition trim_partial (done : nat -> obj -> bool) (now : Z) (c : cdir) : cdir :=
  if trim_due now (read_record c) then
    mkDir (map (fun p => option_map (filter (fun o => negb (trim_removes (trim_cutoff now) o && done (fst p) o
                                                            && Nat.ltb (fst p) (Z.to_nat trim_subdir_count)))) (snd p))
               (combine (seq 0 (length (subdirs c))) (subdirs c)))
          (rootobjs c) (trimtxt c) (trimblocked c)
  else c.

Definition trim_prefix (k : nat) : Z -> cdir -> cdir :=
  trim_partial (fun i _ => Nat.ltb i (Nat.min k (Z.to_nat trim_subdir_count))).

(* ------------------------------------------------------------------ histories *)

(* What the other cache operations do to mtimes (their results are modelled in group Cache):
   Get calls used on the index file of a parsable entry; GetFile/GetBytes additionally call
   OutputFile, i.e. used on the data file (whether or not it exists); Put writes the data
   file and sets its mtime to now — unless a file with the right content is already there — and
   then (re)writes the index file and sets its mtime to now.  When the output was already
   there the code as it stood returned without touching the mtime ([refresh] = false: a data
   file stored long ago and re-stored now is removed by the next Trim); the repaired code
   calls used on it ([refresh] = true). *)

Definition has_name (name : bytes) (l : list obj) : bool :=
  existsb (fun o => bytes_eqb (oname o) name) l.

(* create the file, or overwrite the regular file (possibly behind a link) of that name;
   anything else of that name is in the way and stays (the Put fails) *)
Definition put_over (now : Z) (name data : bytes) (o : obj) : obj :=
  if file_like (okind_of o) then mkObj name now data (okind_of o) else o.

Definition put_file (now : Z) (name data : bytes) (l : list obj) : list obj :=
  if has_name name l then map (on_name name (put_over now name data)) l
  else l ++ [mkObj name now data KFile].

Definition has_content (name data : bytes) (l : list obj) : bool :=
  existsb (fun o => bytes_eqb (oname o) name && file_like (okind_of o)
                    && bytes_eqb (odata o) data) l.

(* copyFile.  When the output is there already: used (repaired code) or nothing.  Otherwise the
   file is (re)created and gets the time [dnow]: for a non-empty output that is the cache's
   clock (os.Chtimes(name, c.now(), c.now()) after the copy); for an EMPTY output copyFile
   returns right after os.OpenFile ("if size == 0 { return nil }"), without Chtimes, and the
   new file carries the file system's own clock.  In production both are the same clock. *)
Definition store_data (refresh : bool) (now dnow : Z) (name data : bytes) (l : list obj) : list obj :=
  if has_content name data l then
    (if refresh then map (on_name name (used_obj now)) l else l)
  else put_file dnow name data l.

(* EGet: Get found the entry.  ELookup: GetFile / GetBytes whose Get part found the entry.
   EOutput: OutputFile.  EStore: a Put that returned nil.  EStoreData: a Put whose data part
   was carried out and whose index part failed (the index subdirectory is missing); a Put that
   fails earlier changes nothing and is no event.  ETrim: Trim. *)
Inductive event :=
| EGet (u : Z) (ia : nat) (na : bytes)
| ELookup (u : Z) (ia : nat) (na : bytes) (id : nat) (nd : bytes)
| EOutput (u : Z) (id : nat) (nd : bytes)
| EStore (u ud : Z) (ia : nat) (na da : bytes) (id : nat) (nd dd : bytes)
| EStoreData (u ud : Z) (id : nat) (nd dd : bytes)
| ETrim (u : Z).

Definition etime (e : event) : Z :=
  match e with
  | EGet u _ _ | ELookup u _ _ _ _ | EOutput u _ _ | EStore u _ _ _ _ _ _ _
  | EStoreData u _ _ _ _ | ETrim u => u
  end.

(* the event is a use of the file [name] of subdirectory [i]: Get uses the index file only,
   GetFile / GetBytes the index and the data file, OutputFile the data file, a successful
   Put both; a failed Put is not a use *)
Definition uses (e : event) (i : nat) (name : bytes) : Prop :=
  match e with
  | EGet _ ia na => ia = i /\ na = name
  | ELookup _ ia na id nd => (ia = i /\ na = name) \/ (id = i /\ nd = name)
  | EOutput _ id nd => id = i /\ nd = name
  | EStore _ _ ia na _ id nd _ => (ia = i /\ na = name) \/ (id = i /\ nd = name)
  | EStoreData _ _ _ _ _ => False
  | ETrim _ => False
  end.

(* the public lookups, by the files they refresh *)
Definition api_get (u : Z) (ia : nat) (na : bytes) (c : cdir) : cdir := used u ia na c.
Definition api_output_file (u : Z) (id : nat) (nd : bytes) (c : cdir) : cdir := used u id nd c.
(* GetFile and GetBytes: Get, then OutputFile *)
Definition lookup (u : Z) (ia : nat) (na : bytes) (id : nat) (nd : bytes) (c : cdir) : cdir :=
  api_output_file u id nd (api_get u ia na c).

(* Put: copyFile (data), then putIndexEntry *)
Definition store (refresh : bool) (u ud : Z) (ia : nat) (na da : bytes) (id : nat) (nd dd : bytes)
    (c : cdir) : cdir :=
  upd_subdir ia (put_file u na da) (upd_subdir id (store_data refresh u ud nd dd) c).

Definition step (refresh : bool) (c : cdir) (e : event) : cdir :=
  match e with
  | EGet u ia na => api_get u ia na c
  | ELookup u ia na id nd => lookup u ia na id nd c
  | EOutput u id nd => api_output_file u id nd c
  | EStore u ud ia na da id nd dd => store refresh u ud ia na da id nd dd c
  | EStoreData u ud id nd dd => upd_subdir id (store_data refresh u ud nd dd) c
  | ETrim u => trim u c
  end.

Definition run (refresh : bool) (c : cdir) (h : list event) : cdir := fold_left (step refresh) h c.

(* ------------------------------------------------------------------ ranges used by the theorems *)

(* a clock between 1970 and 2262 (the range of UnixNano) *)
Definition clock_ok (now : Z) : Prop := 0 <= now < two63.

(* an mtime whose seconds time.Unix converts without wrapping: year -292277022399 .. +292277026596 *)
Definition ns_ok (m : Z) : Prop := - two63 <= m / nano + unix_to_internal < two63.

(* an event's times: the cache's clock, and for a store the time a created data file gets
   (the same clock in production; never more than mtimeInterval behind it) *)
Definition ev_ok (e : event) : Prop :=
  clock_ok (etime e) /\
  match e with
  | EStore u ud _ _ _ _ _ _ | EStoreData u ud _ _ _ => clock_ok ud /\ u - mtime_interval <= ud
  | _ => True
  end.

Definition dir_ok (c : cdir) : Prop :=
  forall l o, In (Some l) (subdirs c) -> In o l -> ns_ok (omtime o).

(* the last-trim record is one for which Trim returns at once: it parses, and the recorded
   second t satisfies  -mtimeInterval < now - t*10^9 < trimInterval  *)
Definition record_in_window (now : Z) (record : option bytes) : Prop :=
  exists data t, record = Some data /\ parse_int (trim_space data) = Some t /\
                 - mtime_interval < now - t * nano < trim_interval.

(* every other record: missing or unreadable, corrupt, a day or more old, an hour or more in
   the future *)
Definition record_stale (now : Z) (record : option bytes) : Prop :=
  record = None \/
  exists data, record = Some data /\
    (parse_int (trim_space data) = None \/
     exists t, parse_int (trim_space data) = Some t /\
               (trim_interval <= now - t * nano \/ now - t * nano <= - mtime_interval)).

(* what a Trim that runs leaves behind *)
Definition trimmed (now : Z) (c : cdir) : cdir :=
  mkDir (trim_subdirs (trim_cutoff now) (subdirs c)) (rootobjs c)
        (if trimblocked c then trimtxt c else Some (decimal (now / nano))) (trimblocked c).

Definition non_entry (o : obj) : bool := negb (is_entry_name (oname o)).

(* for the code as it stood: the store event refreshes the file (i, n) *)
Definition store_refreshes (c : cdir) (e : event) (i : nat) (n : bytes) : Prop :=
  match e with
  | EStore u ud ia na da id nd dd =>
      (ia = i /\ na = n) \/ has_content nd dd (subdir id c) = false
  | _ => True
  end.

(* ------------------------------------------------------------------ the history statement, executable *)

Definition has_file (name : bytes) (l : list obj) : bool :=
  existsb (fun o => bytes_eqb (oname o) name && okind_eqb (okind_of o) KFile) l.

(* the files an event uses, as (subdirectory, name) *)
Definition used_files (e : event) : list (nat * bytes) :=
  match e with
  | EGet _ ia na => [(ia, na)]
  | ELookup _ ia na id nd => [(ia, na); (id, nd)]
  | EOutput _ id nd => [(id, nd)]
  | EStore _ _ ia na _ id nd _ => [(ia, na); (id, nd)]
  | EStoreData _ _ _ _ _ => []
  | ETrim _ => []
  end.

(* [tracked]: files used at time u and present since; each must still be a regular file after
   every later event as long as the event times stay within [u, u + limit] *)
Fixpoint holds_from (refresh : bool) (limit : Z) (tracked : list (nat * bytes * Z)) (c : cdir)
    (h : list event) : bool :=
  match h with
  | [] => true
  | e :: h' =>
      let c' := step refresh c e in
      let t := etime e in
      let still := filter (fun x => (snd x <=? t) && (t <=? snd x + limit)) tracked in
      let fresh := map (fun p => (p, t))
                       (filter (fun p => has_file (snd p) (subdir (fst p) c')) (used_files e)) in
      forallb (fun x => has_file (snd (fst x)) (subdir (fst (fst x)) c')) still
      && holds_from refresh limit (fresh ++ still) c' h'
  end.

(* the number in the property text *)
Definition stated_limit : Z := 5 * 24 * 3600 * nano.

(* "whatever was stored or looked up within the last five days is still there", evaluated on
   a directory and a history, for the repaired Put *)
Definition c13_holds_on (c : cdir) (h : list event) : bool := holds_from true stated_limit [] c h.

(* C13 — model of the methods used, Trim and trimSubdir (cache/cache.go), definitions only.

   Time.  The clock value [now] and file mtimes are Z nanoseconds since the Unix epoch.  The
   code mixes them through package time: time.Unix(sec, nsec) (int64 seconds, which wrap when
   unixToInternal is added), Time.Add (seconds saturate), Time.Sub (int64 nanoseconds that
   wrap, then checked with Add/Equal and saturated), Time.Before, Time.Unix().  These are
   written out below exactly as Go 1.23's time.go computes them on the wall-clock
   representation (sec, nsec); the facts file proves that, for a clock between 1970 and
   2262, they agree with plain integer arithmetic on nanoseconds followed by a clamp — for
   EVERY int64 in trim.txt, including those for which time.Unix wraps.

   Directory.  [subdirs] are the 256 two-hex-digit subdirectories in order, [rootobjs]
   everything else in the cache root except trim.txt (README, fuzz/, foreign files and
   directories, treated as opaque objects), [trimtxt] the contents of trim.txt (None =
   missing or unreadable).  An object carries its name, mtime, an opaque content and a kind
   that says how os.Stat and os.Remove answer for it. *)
From Coq Require Import List Bool ZArith.
From Coq.Strings Require Import Byte.
From GI Require Import Lib.Bytes Gen.CacheTrimConsts.
Import ListNotations.
Local Open Scope Z_scope.

(* ------------------------------------------------------------------ int64 and package time *)

Definition two63 : Z := 9223372036854775808.
Definition two64 : Z := 18446744073709551616.

(* the value an int64 computation yields for the mathematical result z *)
Definition wrap64 (z : Z) : Z := (z + two63) mod two64 - two63.

Definition min_duration : Z := - two63.
Definition max_duration : Z := two63 - 1.

Definition nano : Z := 1000000000.

(* time.unixToInternal = (1969*365 + 1969/4 - 1969/100 + 1969/400) * secondsPerDay *)
Definition unix_to_internal : Z := (1969 * 365 + 1969 / 4 - 1969 / 100 + 1969 / 400) * 86400.

(* a time.Time without monotonic reading: seconds since year 1 (the int64 field ext) and
   nanoseconds in [0, 1e9) *)
Record gotime := mkT { tsec : Z; tnsec : Z }.

(* time.Unix(s, ns) for 0 <= ns < 1e9: unixTime(sec, nsec) = Time{nsec, sec + unixToInternal} *)
Definition time_unix (s ns : Z) : gotime := mkT (wrap64 (s + unix_to_internal)) ns.

(* the Time of an instant given in Unix nanoseconds: what os.Stat's ModTime() returns for a
   timespec (floor seconds, nsec >= 0), and what the clock returns *)
Definition time_of_ns (z : Z) : gotime := time_unix (z / nano) (z mod nano).

(* Time.addSec on the wall-only representation *)
Definition add_sec (ext d : Z) : Z :=
  let sum := wrap64 (ext + d) in
  if Bool.eqb (sum >? ext) (d >? 0) then sum
  else if d >? 0 then two63 - 1 else - (two63 - 1).

(* Time.Add: Go's / and % truncate towards zero (Z.quot, Z.rem) *)
Definition time_add (t : gotime) (d : Z) : gotime :=
  let dsec := Z.quot d nano in
  let ns := tnsec t + Z.rem d nano in
  if ns >=? nano then mkT (add_sec (tsec t) (dsec + 1)) (ns - nano)
  else if ns <? 0 then mkT (add_sec (tsec t) (dsec - 1)) (ns + nano)
  else mkT (add_sec (tsec t) dsec) ns.

Definition time_equal (a b : gotime) : bool := (tsec a =? tsec b) && (tnsec a =? tnsec b).

Definition time_before (a b : gotime) : bool :=
  (tsec a <? tsec b) || ((tsec a =? tsec b) && (tnsec a <? tnsec b)).

(* Time.Sub.  d := Duration(t.sec()-u.sec())*Second + Duration(t.nsec()-u.nsec()) is int64
   arithmetic; since int64 +,-,* are ring operations modulo 2^64 the three intermediate
   wrap-arounds equal one wrap-around of the mathematical value. *)
Definition time_sub (t u : gotime) : Z :=
  let d := wrap64 ((tsec t - tsec u) * nano + (tnsec t - tnsec u)) in
  if time_equal (time_add u d) t then d
  else if time_before t u then min_duration else max_duration.

(* Time.Unix(): t.sec() + internalToUnix *)
Definition time_unix_seconds (t : gotime) : Z := wrap64 (tsec t - unix_to_internal).

(* ------------------------------------------------------------------ strconv *)

Definition digit_val (b : byte) : option Z :=
  let n := Z.of_N (Byte.to_N b) in
  if (48 <=? n) && (n <=? 57) then Some (n - 48) else None.

Fixpoint parse_digits (acc : Z) (s : bytes) : option Z :=
  match s with
  | [] => Some acc
  | b :: r => match digit_val b with
              | Some d => parse_digits (acc * 10 + d) r
              | None => None
              end
  end.

(* strconv.ParseInt(s, 10, 64) as far as its caller can see: Some v when err == nil.  Base 10
   accepts an optional sign and one or more ASCII digits (no underscores, no prefixes); a
   value outside int64 is a range error. *)
Definition parse_int (s : bytes) : option Z :=
  match s with
  | [] => None
  | b :: r =>
      let neg := beq b x2d in
      let ds := if beq b x2b || beq b x2d then r else s in
      match ds with
      | [] => None
      | _ :: _ =>
          match parse_digits 0 ds with
          | None => None
          | Some n =>
              if neg then (if n <=? two63 then Some (- n) else None)
              else (if n <? two63 then Some n else None)
          end
      end
  end.

Definition digit_byte (d : Z) : byte :=
  match Byte.of_N (Z.to_N (d + 48)) with Some b => b | None => x30 end.

(* digits of n >= 0, least significant first; the fuel given by [decimal_nat] is sufficient
   (decimal_parse in the facts file) *)
Fixpoint dec_rev (fuel : nat) (n : Z) : bytes :=
  match fuel with
  | O => []
  | S f => if n <? 10 then [digit_byte n] else digit_byte (n mod 10) :: dec_rev f (n / 10)
  end.

Definition decimal_nat (n : Z) : bytes := rev (dec_rev (S (Z.to_nat (Z.log2 n))) n).

(* fmt.Fprintf(&b, "%d", z) *)
Definition decimal (z : Z) : bytes :=
  if z <? 0 then x2d :: decimal_nat (- z) else decimal_nat z.

(* ------------------------------------------------------------------ directory *)

(* how the object answers: KFile a regular file; KEmptyDir a directory os.Remove can remove;
   KFullDir a non-empty directory (os.Remove fails); KDangling a symbolic link whose target
   is missing (os.Stat and os.Chtimes fail) *)
Inductive okind := KFile | KEmptyDir | KFullDir | KDangling.

Definition okind_eqb (a b : okind) : bool :=
  match a, b with
  | KFile, KFile | KEmptyDir, KEmptyDir | KFullDir, KFullDir | KDangling, KDangling => true
  | _, _ => false
  end.

Definition stat_ok (k : okind) : bool := match k with KDangling => false | _ => true end.
Definition remove_ok (k : okind) : bool := match k with KFullDir => false | _ => true end.

Record obj := mkObj { oname : bytes; omtime : Z; odata : bytes; okind_of : okind }.

Record cdir := mkDir { subdirs : list (list obj); rootobjs : list obj; trimtxt : option bytes }.

Definition set_mtime (m : Z) (o : obj) : obj := mkObj (oname o) m (odata o) (okind_of o).

Fixpoint upd_nth {A} (i : nat) (f : A -> A) (l : list A) : list A :=
  match l, i with
  | [], _ => []
  | x :: r, O => f x :: r
  | x :: r, S j => x :: upd_nth j f r
  end.

Definition upd_subdir (i : nat) (f : list obj -> list obj) (c : cdir) : cdir :=
  mkDir (upd_nth i f (subdirs c)) (rootobjs c) (trimtxt c).

Definition subdir (i : nat) (c : cdir) : list obj := nth i (subdirs c) [].

(* ------------------------------------------------------------------ used *)

(* func (c *Cache) used(file string):
     info, err := os.Stat(file)
     if err == nil && c.now().Sub(info.ModTime()) < mtimeInterval { return }
     os.Chtimes(file, c.now(), c.now())
   For a dangling link both Stat and Chtimes fail; for a missing file likewise. *)
Definition used_obj (now : Z) (o : obj) : obj :=
  if stat_ok (okind_of o) then
    if time_sub (time_of_ns now) (time_of_ns (omtime o)) <? used_threshold then o
    else set_mtime now o
  else o.

Definition on_name (name : bytes) (f : obj -> obj) (o : obj) : obj :=
  if bytes_eqb (oname o) name then f o else o.

(* used(filepath.Join(c.dir, "%02x" i, name)) *)
Definition used (now : Z) (i : nat) (name : bytes) (c : cdir) : cdir :=
  upd_subdir i (map (on_name name (used_obj now))) c.

(* ------------------------------------------------------------------ Trim *)

(* the candidates of trimSubdir: !HasSuffix(name, "-a") && !HasSuffix(name, "-d") => continue *)
Definition is_entry_name (name : bytes) : bool :=
  existsb (fun s => has_suffix s name) trim_suffixes.

(* info, err := os.Stat(entry); if err == nil && info.ModTime().Before(cutoff) { os.Remove(entry) } *)
Definition trim_removes (cutoff : gotime) (o : obj) : bool :=
  is_entry_name (oname o) && stat_ok (okind_of o)
  && time_before (time_of_ns (omtime o)) cutoff && remove_ok (okind_of o).

Definition trim_subdir (cutoff : gotime) (l : list obj) : list obj :=
  filter (fun o => negb (trim_removes cutoff o)) l.

(* for i := range 256 { c.trimSubdir(filepath.Join(c.dir, "%02x" i), cutoff) } *)
Definition trim_subdirs (cutoff : gotime) (sds : list (list obj)) : list (list obj) :=
  let n := Z.to_nat trim_subdir_count in
  map (trim_subdir cutoff) (firstn n sds) ++ skipn n sds.

(* the test at the top of Trim: true = the scan runs.
     if data, err := lockedfile.Read(trim.txt); err == nil {
       if t, err := strconv.ParseInt(strings.TrimSpace(string(data)), 10, 64); err == nil {
         lastTrim := time.Unix(t, 0)
         if d := now.Sub(lastTrim); d < trimInterval && d > -mtimeInterval { return nil } } } *)
Definition trim_due (now : Z) (record : option bytes) : bool :=
  match record with
  | None => true
  | Some data =>
      match parse_int (trim_space data) with
      | None => true
      | Some t =>
          let d := time_sub (time_of_ns now) (time_unix t 0) in
          negb ((d <? window_upper) && (d >? window_lower))
      end
  end.

Definition trim_cutoff (now : Z) : gotime := time_add (time_of_ns now) cutoff_offset.

Definition trim (now : Z) (c : cdir) : cdir :=
  if trim_due now (trimtxt c) then
    mkDir (trim_subdirs (trim_cutoff now) (subdirs c)) (rootobjs c)
          (Some (decimal (time_unix_seconds (time_of_ns now))))
  else c.

(* ------------------------------------------------------------------ histories *)

(* What the other cache operations do to mtimes (their results are modelled in group Cache):
   Get calls used on the index file of a parsable entry; GetFile/GetBytes additionally call
   OutputFile, i.e. used on the data file (whether or not it exists); Put (re)writes the index
   file and sets its mtime to now, and writes the data file and sets its mtime to now — unless a
   file with the right content is already there.  In that case the code as it stood returned
   without touching the mtime ([refresh] = false: a data file stored long ago and re-stored
   now is removed by the next Trim); the repaired code calls used on it ([refresh] = true). *)

Definition has_name (name : bytes) (l : list obj) : bool :=
  existsb (fun o => bytes_eqb (oname o) name) l.

(* create the file, or overwrite a regular file of that name; anything else of that name is
   in the way and stays (the Put fails) *)
Definition put_file (now : Z) (name data : bytes) (l : list obj) : list obj :=
  if has_name name l then
    map (on_name name (fun o => match okind_of o with
                                | KFile => mkObj name now data KFile
                                | _ => o
                                end)) l
  else l ++ [mkObj name now data KFile].

Definition has_content (name data : bytes) (l : list obj) : bool :=
  existsb (fun o => bytes_eqb (oname o) name && okind_eqb (okind_of o) KFile
                    && bytes_eqb (odata o) data) l.

Definition store_data (refresh : bool) (now : Z) (name data : bytes) (l : list obj) : list obj :=
  if has_content name data l then
    (if refresh then map (on_name name (used_obj now)) l else l)
  else put_file now name data l.

Inductive event :=
| EGet (u : Z) (ia : nat) (na : bytes)
| ELookup (u : Z) (ia : nat) (na : bytes) (id : nat) (nd : bytes)
| EStore (u : Z) (ia : nat) (na da : bytes) (id : nat) (nd dd : bytes)
| ETrim (u : Z).

Definition etime (e : event) : Z :=
  match e with
  | EGet u _ _ | ELookup u _ _ _ _ | EStore u _ _ _ _ _ _ | ETrim u => u
  end.

(* the event is a use of the file [name] of subdirectory [i] *)
Definition uses (e : event) (i : nat) (name : bytes) : Prop :=
  match e with
  | EGet _ ia na => ia = i /\ na = name
  | ELookup _ ia na id nd => (ia = i /\ na = name) \/ (id = i /\ nd = name)
  | EStore _ ia na _ id nd _ => (ia = i /\ na = name) \/ (id = i /\ nd = name)
  | ETrim _ => False
  end.

Definition lookup (u : Z) (ia : nat) (na : bytes) (id : nat) (nd : bytes) (c : cdir) : cdir :=
  used u id nd (used u ia na c).

Definition store (refresh : bool) (u : Z) (ia : nat) (na da : bytes) (id : nat) (nd dd : bytes)
    (c : cdir) : cdir :=
  upd_subdir id (store_data refresh u nd dd) (upd_subdir ia (put_file u na da) c).

Definition step (refresh : bool) (c : cdir) (e : event) : cdir :=
  match e with
  | EGet u ia na => used u ia na c
  | ELookup u ia na id nd => lookup u ia na id nd c
  | EStore u ia na da id nd dd => store refresh u ia na da id nd dd c
  | ETrim u => trim u c
  end.

Definition run (refresh : bool) (c : cdir) (h : list event) : cdir := fold_left (step refresh) h c.

(* ------------------------------------------------------------------ ranges used by the theorems *)

(* a clock between 1970 and 2262 (the range of UnixNano) *)
Definition clock_ok (now : Z) : Prop := 0 <= now < two63.

(* an mtime whose seconds time.Unix converts without wrapping: year -292277022399 .. +292277026596 *)
Definition ns_ok (m : Z) : Prop := - two63 <= m / nano + unix_to_internal < two63.

Definition dir_ok (c : cdir) : Prop :=
  forall l o, In l (subdirs c) -> In o l -> ns_ok (omtime o).

(* the last-trim record is one for which Trim returns at once: it parses, and the recorded
   second t satisfies  -mtimeInterval < now - t*10^9 < trimInterval  *)
Definition record_in_window (now : Z) (record : option bytes) : Prop :=
  exists data t, record = Some data /\ parse_int (trim_space data) = Some t /\
                 - mtime_interval < now - t * nano < trim_interval.

(* every other record: missing, corrupt, a day or more old, an hour or more in the future *)
Definition record_stale (now : Z) (record : option bytes) : Prop :=
  record = None \/
  exists data, record = Some data /\
    (parse_int (trim_space data) = None \/
     exists t, parse_int (trim_space data) = Some t /\
               (trim_interval <= now - t * nano \/ now - t * nano <= - mtime_interval)).

(* what a Trim that runs leaves behind *)
Definition trimmed (now : Z) (c : cdir) : cdir :=
  mkDir (trim_subdirs (trim_cutoff now) (subdirs c)) (rootobjs c) (Some (decimal (now / nano))).

Definition non_entry (o : obj) : bool := negb (is_entry_name (oname o)).

(* for the code as it stood: the store event refreshes the file (i, n) *)
Definition store_refreshes (c : cdir) (e : event) (i : nat) (n : bytes) : Prop :=
  match e with
  | EStore u ia na da id nd dd =>
      (ia = i /\ na = n) \/
      has_content nd dd (subdir id (upd_subdir ia (put_file u na da) c)) = false
  | _ => True
  end.

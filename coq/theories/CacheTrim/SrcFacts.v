(* The segments of used, Trim and trimSubdir in Gen/CacheSrc.v (cache/cache.go translated by
   harness/go2coq on every run; table: harness/cmd/genconsts/gen_cache_src.go) are proved
   equal to the corresponding tests of the hand-written model CacheTrim.v, for every input
   (they contain no loop, so there is no bound; none can panic):

   - src_Cache_used_fresh, the if statement of used between os.Stat and os.Chtimes, with the
     result of Stat (error, ModTime) and the clock read c.now() as parameters: it returns
     (leaves the mtime alone) iff Stat succeeded and now.Sub(mtime) < mtimeInterval -- the
     test inside used_obj (src_used_fresh_eq, used_obj_src);
   - src_Cache_Trim_due, the body of  if data, err := lockedfile.Read(...); err == nil { ... }
     of Trim, as a function of now and the bytes read: it returns nil iff the model's
     trim_due now (Some data) is false (src_Trim_due_eq) -- strconv.ParseInt(strings.TrimSpace(
     string(data)), 10, 64), time.Unix(t, 0), now.Sub, the two comparisons;
   - src_Cache_Trim_cutoff:  cutoff := now.Add(-trimLimit - mtimeInterval)  is trim_cutoff;
   - src_Cache_trimSubdir_candidate, the loop body of trimSubdir in front of os.Stat: continue
     unless the name ends in -a or -d (is_entry_name), else the path filepath.Join(subdir, name);
   - src_Cache_trimSubdir_stale, the condition that guards os.Remove:
     err == nil && info.ModTime().Before(cutoff), the test inside trim_removes (trim_removes_src).

   With the time facts of CacheTrimTimeFacts.v the same tests are then stated on integers
   (src_Trim_window_exact, src_Trim_cutoff_exact, src_trimSubdir_stale_exact,
   src_used_fresh_exact): the window, cutoff and freshness arithmetic of the SOURCE is exact to
   the nanosecond for a clock between 1970 and 2262.

   Hand-read, as before: that err of lockedfile.Read / os.Stat is what the model's record /
   stat_ok say, the loops over the 256 subdirectories and over the names, the record written at
   the end (fmt.Fprintf into a bytes.Buffer), and the file-system calls themselves. *)
From Coq Require Import List Bool Arith ZArith Lia ZifyBool.
From Coq.Strings Require Import Byte.
From GI Require Import Lib.Bytes Lib.GoSem Lib.GoSemSeg Gen.CacheTrimConsts CacheTrim.CacheTrim CacheTrim.CacheTrimFacts
  CacheTrim.CacheTrimTimeFacts.
From GI Require Cache.CacheEntry Cache.SrcLib Gen.CacheSrc TxtarWrite.Path.
Import ListNotations.
Local Open Scope Z_scope.

Import SrcLib CacheSrc.

(* the two models carry the same reading of strconv.ParseInt(s, 10, 64) *)
Lemma digit_val_same b : CacheEntry.digit_val b = digit_val b.
Proof. reflexivity. Qed.

Lemma parse_digits_same : forall s acc, CacheEntry.parse_digits acc s = parse_digits acc s.
Proof.
  induction s as [|c r IH]; intros acc; [reflexivity|].
  cbn [CacheEntry.parse_digits parse_digits]. rewrite digit_val_same. destruct (digit_val c); [apply IH|reflexivity].
Qed.

Lemma parse_int_same s : CacheEntry.parse_int s = parse_int s.
Proof.
  destruct s as [|c r]; [reflexivity|]. unfold CacheEntry.parse_int, parse_int.
  destruct (if beq c x2b || beq c x2d then r else c :: r); [reflexivity|].
  rewrite parse_digits_same. reflexivity.
Qed.

(* time.Unix(t, 0) needs no carrying *)
Lemma go_time_Unix_sec t : go_time_Unix t 0 = time_unix t 0.
Proof. reflexivity. Qed.

Theorem src_Trim_due_eq now data :
  src_Cache_Trim_due (time_of_ns now) data = Ok (if trim_due now (Some data) then Normal tt else Return false).
Proof.
  unfold src_Cache_Trim_due, go_strconv_ParseInt, go_strings_TrimSpace, trim_due.
  cbn [Z.eqb Pos.eqb andb]. rewrite parse_int_same.
  destruct (parse_int (trim_space data)) as [t|]; cbn [bind negb bindO]; [|reflexivity].
  unfold go_time_Sub. rewrite go_time_Unix_sec.
  change 86400000000000 with window_upper. change (-3600000000000) with window_lower.
  destruct ((time_sub (time_of_ns now) (time_unix t 0) <? window_upper) &&
            (time_sub (time_of_ns now) (time_unix t 0) >? window_lower)); reflexivity.
Qed.

(* cutoff := now.Add(-trimLimit - mtimeInterval) *)
Theorem src_Trim_cutoff_eq now :
  src_Cache_Trim_cutoff (time_of_ns now) = Ok (Normal (trim_cutoff now)).
Proof. reflexivity. Qed.

(* used: the test that decides whether the mtime is left alone *)
Theorem src_used_fresh_eq mtime err now :
  src_Cache_used_fresh (time_of_ns mtime) err (time_of_ns now) =
    Ok (if negb err && (time_sub (time_of_ns now) (time_of_ns mtime) <? used_threshold) then Return tt else Normal tt).
Proof.
  unfold src_Cache_used_fresh, go_time_Sub, go_fileinfo_ModTime. change 3600000000000 with used_threshold.
  destruct (negb err && (time_sub (time_of_ns now) (time_of_ns mtime) <? used_threshold)); reflexivity.
Qed.

(* the model's used_obj is: Stat, the translated test, Chtimes (which fails where Stat fails) *)
Theorem used_obj_src now o :
  used_obj now o =
    match src_Cache_used_fresh (time_of_ns (omtime o)) (negb (stat_ok (okind_of o))) (time_of_ns now) with
    | Ok (Return _) => o
    | _ => if stat_ok (okind_of o) then set_mtime now o else o
    end.
Proof.
  rewrite src_used_fresh_eq. unfold used_obj. destruct (stat_ok (okind_of o)); cbn [negb andb]; [|reflexivity].
  destruct (time_sub (time_of_ns now) (time_of_ns (omtime o)) <? used_threshold); reflexivity.
Qed.

(* trimSubdir: which names are looked at, and the path that is examined *)
Theorem src_trimSubdir_candidate_eq subdir name :
  src_Cache_trimSubdir_candidate subdir name =
    Ok (if is_entry_name name then Normal (Path.join subdir name) else Continue tt).
Proof.
  unfold src_Cache_trimSubdir_candidate, is_entry_name, go_bytes_HasSuffix.
  change trim_suffixes with [[x2d; x61]; [x2d; x64]]. cbn [existsb].
  destruct (has_suffix [x2d; x61] name), (has_suffix [x2d; x64] name); reflexivity.
Qed.

(* trimSubdir: the condition under which os.Remove is called *)
Theorem src_trimSubdir_stale_eq cutoff mtime err :
  src_Cache_trimSubdir_stale cutoff (time_of_ns mtime) err = Ok (negb err && time_before (time_of_ns mtime) cutoff).
Proof. reflexivity. Qed.

(* the model's removal test is: candidate name, Stat, the translated condition, Remove succeeds *)
Theorem trim_removes_src cutoff o :
  trim_removes cutoff o =
    match src_Cache_trimSubdir_candidate [] (oname o),
          src_Cache_trimSubdir_stale cutoff (time_of_ns (omtime o)) (negb (stat_ok (okind_of o))) with
    | Ok (Normal _), Ok true => remove_ok (okind_of o)
    | _, _ => false
    end.
Proof.
  rewrite src_trimSubdir_candidate_eq, src_trimSubdir_stale_eq. unfold trim_removes.
  destruct (is_entry_name (oname o)); [|reflexivity]. cbn [andb].
  destruct (stat_ok (okind_of o)); cbn [negb andb]; [|reflexivity].
  destruct (time_before (time_of_ns (omtime o)) cutoff); reflexivity.
Qed.

(* ------------------------------------------------------------------ in integer terms *)

(* the window of Trim, to the nanosecond, on the translated test: a parsable record t is inside
   iff -mtimeInterval < now - t*10^9 < trimInterval, for every int64 t (wrapped or saturated) *)
Theorem src_Trim_window_exact now data t : clock_ok now -> parse_int (trim_space data) = Some t ->
  src_Cache_Trim_due (time_of_ns now) data =
    Ok (if (now - t * nano <? trim_interval) && (now - t * nano >? - mtime_interval) then Return false else Normal tt).
Proof.
  intros Hc Hp. rewrite src_Trim_due_eq, (trim_due_char now data t Hc Hp).
  destruct ((now - t * nano <? trim_interval) && (now - t * nano >? - mtime_interval)); reflexivity.
Qed.

(* a record that does not parse never stops the scan *)
Theorem src_Trim_corrupt now data : parse_int (trim_space data) = None ->
  src_Cache_Trim_due (time_of_ns now) data = Ok (Normal tt).
Proof. intros Hp. rewrite src_Trim_due_eq. unfold trim_due. now rewrite Hp. Qed.

Theorem src_Trim_due_window now data : clock_ok now ->
  (src_Cache_Trim_due (time_of_ns now) data = Ok (Return false) <-> record_in_window now (Some data)) /\
  (src_Cache_Trim_due (time_of_ns now) data = Ok (Normal tt) <-> record_stale now (Some data)).
Proof.
  intros Hc. rewrite src_Trim_due_eq.
  destruct (record_dichotomy now (Some data)) as [W|S].
  - rewrite (in_window_not_due _ _ Hc W). split; split; intros H; try discriminate H; try assumption; try reflexivity.
    pose proof (stale_due _ _ Hc H) as D. rewrite (in_window_not_due _ _ Hc W) in D. discriminate D.
  - rewrite (stale_due _ _ Hc S). split; split; intros H; try discriminate H; try assumption; try reflexivity.
    pose proof (in_window_not_due _ _ Hc H) as D. rewrite (stale_due _ _ Hc S) in D. discriminate D.
Qed.

(* the cutoff is the instant now - trimLimit - mtimeInterval *)
Theorem src_Trim_cutoff_exact now : clock_ok now ->
  src_Cache_Trim_cutoff (time_of_ns now) = Ok (Normal (time_of_ns (now - trim_limit - mtime_interval))).
Proof.
  intros Hc. rewrite src_Trim_cutoff_eq. destruct (trim_cutoff_spec now Hc) as [-> _].
  destruct consts_rel as (_ & _ & _ & -> & _). do 3 f_equal. lia.
Qed.

(* os.Remove is called on a candidate that Stat finds iff its mtime is before that instant *)
Theorem src_trimSubdir_stale_exact now mtime : clock_ok now -> ns_ok mtime ->
  src_Cache_trimSubdir_stale (trim_cutoff now) (time_of_ns mtime) false =
    Ok (mtime <? now - trim_limit - mtime_interval).
Proof.
  intros Hc Hm. rewrite src_trimSubdir_stale_eq. destruct (trim_cutoff_spec now Hc) as [-> Hok].
  rewrite time_before_spec by (apply time_of_ns_valid; assumption).
  rewrite !ns_of_time_of_ns by assumption.
  destruct consts_rel as (_ & _ & _ & -> & _). cbn [negb andb]. do 2 f_equal. lia.
Qed.

(* used leaves the mtime alone iff it is less than mtimeInterval old *)
Theorem src_used_fresh_exact u m : clock_ok u -> ns_ok m ->
  src_Cache_used_fresh (time_of_ns m) false (time_of_ns u) =
    Ok (if u - m <? mtime_interval then Return tt else Normal tt).
Proof.
  intros Hc Hm. rewrite src_used_fresh_eq. cbn [negb andb].
  rewrite sub_clock by (try assumption; apply time_of_ns_valid; assumption).
  rewrite ns_of_time_of_ns by assumption.
  destruct consts_range as (HT & _). rewrite clamp_lt by exact HT.
  destruct consts_rel as (-> & _). reflexivity.
Qed.

(* Examples: concrete, non-trivial values for the hypotheses above *)
Example ex_src_due :
  let now := 1700000000123456789 in
  clock_ok now
  /\ src_Cache_Trim_due (time_of_ns now) (decimal 1699990000 ++ [x0a]) = Ok (Return false)
  /\ src_Cache_Trim_due (time_of_ns now) (decimal 1699900000) = Ok (Normal tt)
  /\ src_Cache_Trim_due (time_of_ns now) [x61] = Ok (Normal tt)
  /\ src_Cache_Trim_due (time_of_ns now) (decimal 9223372036854775807) = Ok (Normal tt)
  /\ src_Cache_used_fresh (time_of_ns (now - 3599999999999)) false (time_of_ns now) = Ok (Return tt)
  /\ src_Cache_used_fresh (time_of_ns (now - 3600000000000)) false (time_of_ns now) = Ok (Normal tt)
  /\ src_Cache_trimSubdir_candidate [x64] [x61; x2d; x61] = Ok (Normal [x64; x2f; x61; x2d; x61])
  /\ src_Cache_trimSubdir_candidate [x64] [x61; x2d; x62] = Ok (Continue tt).
Proof. vm_compute. repeat split; try reflexivity; discriminate. Qed.

(* C13 / C11 boundary — facts about the interleaved model of Trim and a lookup on one file. *)
From Coq Require Import List Bool ZArith Lia.
From Coq.Strings Require Import Byte.
From GI Require Import Lib.Bytes Gen.CacheTrimConsts CacheTrim.CacheTrim CacheTrim.CacheTrimTimeFacts
  CacheTrim.CacheTrimFacts CacheTrim.CacheTrimConc.
Import ListNotations.
Local Open Scope Z_scope.

Section Conc.
  Variable data : bool.
  Variable cutoff : gotime.
  Variable u : Z.
  Variable lb : Z.          (* a lower bound of the file's mtime *)
  Variable o0 : obj.        (* the file's identity: name, content, kind *)
  Hypothesis lb_le : lb <= u.

  Definition same_file (o : obj) : Prop :=
    oname o = oname o0 /\ odata o = odata o0 /\ okind_of o = okind_of o0.

  (* the file is there, and neither it nor its refreshed version is something this Trim removes *)
  Definition fresh_file (f : option obj) : Prop :=
    exists o, f = Some o /\ trim_removes cutoff o = false /\ trim_removes cutoff (set_mtime u o) = false /\
              lb <= omtime o /\ same_file o.

  Definition harmless (p : tpc) : Prop :=
    match p with
    | TStatted (Some o) => trim_removes cutoff o = false
    | _ => True
    end.

  Definition safe (s : cst) : Prop := fresh_file (cfile s) /\ harmless (ctp s).

  Lemma fresh_chtimes : forall f, fresh_file f -> fresh_file (chtimes u f).
  Proof.
    intros f (o & -> & H1 & H2 & H3 & H4). unfold chtimes. destruct (stat_ok (okind_of o)).
    - exists (set_mtime u o). split; [reflexivity|]. split; [exact H2|]. split; [exact H2|].
      split; [simpl; exact lb_le|exact H4].
    - exists o. auto.
  Qed.

  Lemma safe_step : forall s who, safe s -> safe (c_step data cutoff u s who).
  Proof.
    intros s who [Hf Hh]. destruct who; simpl.
    - (* trim moves *)
      unfold t_step. destruct (ctp s) as [|[o|]|] eqn:Ep; simpl in *.
      + split; [exact Hf|]. simpl. destruct Hf as (o & E & H1 & H2 & _). rewrite E. simpl.
        destruct (stat_ok (okind_of o)); simpl; auto.
      + rewrite Hh. split; [exact Hf|exact I].
      + split; [exact Hf|exact I].
      + split; [exact Hf|]. rewrite Ep. exact I.
    - (* the lookup moves *)
      unfold l_step. destruct (clp s) as [| |r| |h]; simpl.
      + destruct data; [split; assumption|]. destruct (readable (cfile s)); split; assumption.
      + split; assumption.
      + destruct (wants_chtimes u r); split; simpl; try assumption. apply fresh_chtimes. exact Hf.
      + destruct data; split; assumption.
      + split; assumption.
  Qed.

  Lemma safe_run : forall sched s, safe s -> safe (c_run data cutoff u sched s).
  Proof.
    induction sched as [|w sched IH]; intros s H; [exact H|]. simpl. apply IH. apply safe_step. exact H.
  Qed.
End Conc.

(* what the thresholds give: a file whose mtime is at least u - mtimeInterval, and its
   refreshed version, are not removed by a trim at now <= u + trimLimit *)
Lemma fresh_of_bound : forall now u o, clock_ok now -> clock_ok u -> ns_ok (omtime o) ->
  now <= u + trim_limit -> u - mtime_interval <= omtime o ->
  fresh_file (trim_cutoff now) u (u - mtime_interval) o (Some o).
Proof.
  intros now u o Hn Hu Hm Hle Hb. exists o. split; [reflexivity|].
  destruct consts_rel as (_ & _ & _ & Hoff & Hmi & _).
  split; [|split; [|split; [exact Hb|repeat split]]]; rewrite trim_removes_spec; try assumption; simpl.
  - assert (F : (omtime o <? now + cutoff_offset) = false) by (apply Z.ltb_ge; lia).
    rewrite F. rewrite andb_false_r. reflexivity.
  - assert (F : (u <? now + cutoff_offset) = false) by (apply Z.ltb_ge; lia).
    rewrite F. rewrite andb_false_r. reflexivity.
  - apply clock_ns_ok. exact Hu.
Qed.

(* A file that was refreshed (or is young) before the trimming process looks at it survives
   EVERY interleaving of the rest of the trim with a lookup at clock u, when the trim's clock
   is at most u + trimLimit. *)
Theorem conc_fresh_survives : forall data now u sched s o, clock_ok now -> clock_ok u ->
  now <= u + trim_limit ->
  cfile s = Some o -> ns_ok (omtime o) -> u - mtime_interval <= omtime o ->
  ctp s = TIdle ->
  exists o', cfile (c_run data (trim_cutoff now) u sched s) = Some o' /\
             oname o' = oname o /\ odata o' = odata o /\ okind_of o' = okind_of o /\
             u - mtime_interval <= omtime o'.
Proof.
  intros data now u sched s o Hn Hu Hle Hf Hm Hb Hp.
  destruct consts_rel as (_ & _ & _ & _ & Hmi & _).
  assert (Hs : safe (trim_cutoff now) u (u - mtime_interval) o s).
  { split; [rewrite Hf; apply fresh_of_bound; assumption|rewrite Hp; exact I]. }
  assert (Hle' : u - mtime_interval <= u) by lia.
  destruct (safe_run data (trim_cutoff now) u (u - mtime_interval) o Hle' sched s Hs)
    as [(o' & E & _ & _ & Hb' & A & B & C) _].
  exists o'. auto.
Qed.

Lemma wants_chtimes_spec : forall u o, clock_ok u -> ns_ok (omtime o) ->
  wants_chtimes u (Some o) = negb (u - omtime o <? mtime_interval).
Proof.
  intros u o Hc Hm. unfold wants_chtimes.
  rewrite sub_clock by (try assumption; apply time_of_ns_valid; assumption).
  rewrite ns_of_time_of_ns by assumption.
  destruct consts_range as (HT & _). rewrite clamp_lt by exact HT.
  destruct consts_rel as (-> & _). reflexivity.
Qed.

Lemma lookup_alone_state : forall data cutoff u nm m d,
  c_run data cutoff u lookup_alone (c_init (mkObj nm m d KFile)) =
  mkC (Some (if wants_chtimes u (Some (mkObj nm m d KFile)) then mkObj nm u d KFile else mkObj nm m d KFile))
      TIdle (LDone true).
Proof.
  intros data cutoff u nm m d. unfold lookup_alone, c_init, c_run.
  destruct data; cbn [fold_left c_step l_step clp cfile ctp stat_of readable stat_ok okind_of file_like];
    destruct (wants_chtimes u (Some (mkObj nm m d KFile)));
    cbn [fold_left c_step l_step clp cfile ctp stat_of readable stat_ok okind_of file_like chtimes set_mtime
         oname omtime odata]; reflexivity.
Qed.

(* A lookup that completed before the trimming process reached the file: the lookup hit, and
   the file survives whatever the trimming process does afterwards (now <= u + trimLimit). *)
Theorem conc_lookup_before_trim : forall data now u o sched, clock_ok now -> clock_ok u ->
  now <= u + trim_limit -> ns_ok (omtime o) -> okind_of o = KFile ->
  let s1 := c_run data (trim_cutoff now) u lookup_alone (c_init o) in
  clp s1 = LDone true /\
  exists o', cfile (c_run data (trim_cutoff now) u sched s1) = Some o' /\
             oname o' = oname o /\ odata o' = odata o /\ okind_of o' = KFile /\
             u - mtime_interval <= omtime o'.
Proof.
  intros data now u o sched Hn Hu Hle Hm Hk s1.
  destruct consts_rel as (_ & _ & _ & _ & Hmi & _).
  (* the state after the lookup alone *)
  assert (Hs1 : clp s1 = LDone true /\ ctp s1 = TIdle /\
                exists o1, cfile s1 = Some o1 /\ oname o1 = oname o /\ odata o1 = odata o /\
                           okind_of o1 = KFile /\ u - mtime_interval <= omtime o1 /\ ns_ok (omtime o1)).
  { unfold s1. destruct o as [nm m d k]. simpl in Hk, Hm. subst k.
    rewrite lookup_alone_state.
    rewrite wants_chtimes_spec by assumption. simpl.
    split; [reflexivity|split; [reflexivity|]].
    destruct (u - m <? mtime_interval) eqn:Et; simpl.
    - eexists. split; [reflexivity|]. apply Z.ltb_lt in Et. simpl.
      split; [reflexivity|]. split; [reflexivity|]. split; [reflexivity|]. split; [lia|exact Hm].
    - eexists. split; [reflexivity|]. simpl.
      split; [reflexivity|]. split; [reflexivity|]. split; [reflexivity|]. split; [lia|apply clock_ns_ok; exact Hu]. }
  destruct Hs1 as (Hl & Ht & o1 & Ef & A & B & C & Hb & Hok).
  split; [exact Hl|].
  destruct (conc_fresh_survives data now u sched s1 o1 Hn Hu Hle Ef Hok Hb Ht) as (o' & E' & A' & B' & C' & Hb').
  exists o'. split; [exact E'|]. rewrite A', A, B', B, C', C. auto.
Qed.

(* ---- a lookup that overlaps the trim: both outcomes are possible *)

Definition ex_c_day : Z := 24 * 3600 * nano.
Definition ex_c_now : Z := 10 * ex_c_day.
(* an index file last used on day 1; the lookup and the trim both run on day 10 *)
Definition ex_c_old : obj := mkObj [x78; x2d; x61] ex_c_day [x49] KFile.
Definition ex_c_oldd : obj := mkObj [x78; x2d; x64] ex_c_day [x44] KFile.

(* Stat by the trim, then the whole lookup (it hits and refreshes the mtime), then the Remove:
   the entry that was just looked up, successfully, is gone. *)
Example conc_overlap_removed :
  let s := c_run false (trim_cutoff ex_c_now) ex_c_now [true; false; false; false; false; true] (c_init ex_c_old) in
  clp s = LDone true /\ cfile s = None.
Proof. vm_compute. split; reflexivity. Qed.

(* the lookup first (or its Chtimes before the trim's Stat): the entry stays *)
Example conc_overlap_survives :
  let s := c_run false (trim_cutoff ex_c_now) ex_c_now [false; false; false; true; false; true] (c_init ex_c_old) in
  clp s = LDone true /\ cfile s = Some (set_mtime ex_c_now ex_c_old).
Proof. vm_compute. split; reflexivity. Qed.

(* data file (GetBytes: used, then read): the lookup can refresh the file and still miss *)
Example conc_overlap_data_miss :
  let s := c_run true (trim_cutoff ex_c_now) ex_c_now [true; false; false; true; false] (c_init ex_c_oldd) in
  clp s = LDone false /\ cfile s = None.
Proof. vm_compute. split; reflexivity. Qed.

(* whatever the interleaving, the trimming process removes the file only if the object its
   Stat returned was one Trim removes: no schedule removes a file that was young when looked at *)
Theorem conc_removed_only_if_seen_stale : forall data cutoff u sched s o,
  cfile s = Some o -> ctp s = TIdle -> trim_removes cutoff o = false ->
  trim_removes cutoff (set_mtime u o) = false ->
  cfile (c_run data cutoff u sched s) <> None.
Proof.
  intros data cutoff u sched s o Hf Hp H1 H2.
  assert (Hs : safe cutoff u (Z.min u (omtime o)) o s).
  { split; [exists o; repeat split; auto; lia|rewrite Hp; exact I]. }
  assert (Hle : Z.min u (omtime o) <= u) by lia.
  destruct (safe_run data cutoff u _ o Hle sched s Hs) as [(o' & E & _) _]. rewrite E. discriminate.
Qed.

(* C13 / C11 boundary — a Trim in one process running concurrently with a lookup in another,
   interleaved at the granularity of the file-system calls on ONE cache file (trimSubdir and
   used work file by file, so the files of a directory are independent):

     trimSubdir, for a name it read from the directory:   os.Stat ; [os.Remove]
     get (index file):          os.Open+read ; used = os.Stat ; [os.Chtimes]
     GetBytes (data file):      used = os.Stat ; [os.Chtimes] ; os.ReadFile

   os.Remove removes whatever is there at that moment, whatever its mtime has become since the
   Stat (there is no lock between the two processes).  Definitions only. *)
From Coq Require Import List Bool ZArith.
From Coq.Strings Require Import Byte.
From GI Require Import Lib.Bytes Gen.CacheTrimConsts CacheTrim.CacheTrim.
Import ListNotations.
Local Open Scope Z_scope.

(* program counter of the trimming process for this file *)
Inductive tpc :=
| TIdle                          (* has the name, has not looked at the file yet *)
| TStatted (r : option obj)      (* result of os.Stat: None = error *)
| TDone.

(* program counter of the lookup *)
Inductive lpc :=
| LIdle
| LOpened                        (* index file: opened and read (the entry is in hand) *)
| LStatted (r : option obj)      (* used: result of os.Stat *)
| LTouched                       (* used returned *)
| LDone (hit : bool).

Record cst := mkC { cfile : option obj; ctp : tpc; clp : lpc }.

Definition stat_of (f : option obj) : option obj :=
  match f with
  | Some o => if stat_ok (okind_of o) then Some o else None
  | None => None
  end.

(* one move of the trimming process *)
Definition t_step (cutoff : gotime) (s : cst) : cst :=
  match ctp s with
  | TIdle => mkC (cfile s) (TStatted (stat_of (cfile s))) (clp s)
  | TStatted (Some o) =>
      if trim_removes cutoff o
      then mkC (match cfile s with
                | Some cur => if remove_ok (okind_of cur) then None else Some cur
                | None => None
                end) TDone (clp s)
      else mkC (cfile s) TDone (clp s)
  | TStatted None => mkC (cfile s) TDone (clp s)
  | TDone => s
  end.

(* used decides on what Stat returned; Chtimes acts on what is there now *)
Definition wants_chtimes (u : Z) (r : option obj) : bool :=
  match r with
  | Some o => negb (time_sub (time_of_ns u) (time_of_ns (omtime o)) <? used_threshold)
  | None => true
  end.

Definition chtimes (u : Z) (f : option obj) : option obj :=
  match f with
  | Some o => if stat_ok (okind_of o) then Some (set_mtime u o) else Some o
  | None => None
  end.

Definition readable (f : option obj) : bool :=
  match f with Some o => file_like (okind_of o) | None => false end.

(* one move of the lookup at clock u; [data] = false: the index file (read, then used),
   [data] = true: the data file (used, then read) *)
Definition l_step (data : bool) (u : Z) (s : cst) : cst :=
  match clp s with
  | LIdle =>
      if data then mkC (cfile s) (ctp s) (LStatted (stat_of (cfile s)))
      else if readable (cfile s) then mkC (cfile s) (ctp s) LOpened
      else mkC (cfile s) (ctp s) (LDone false)
  | LOpened => mkC (cfile s) (ctp s) (LStatted (stat_of (cfile s)))
  | LStatted r =>
      mkC (if wants_chtimes u r then chtimes u (cfile s) else cfile s) (ctp s) LTouched
  | LTouched =>
      if data then mkC (cfile s) (ctp s) (LDone (readable (cfile s)))
      else mkC (cfile s) (ctp s) (LDone true)
  | LDone _ => s
  end.

(* a schedule: true = the trimming process moves, false = the lookup moves *)
Definition c_step (data : bool) (cutoff : gotime) (u : Z) (s : cst) (who : bool) : cst :=
  if who then t_step cutoff s else l_step data u s.

Definition c_run (data : bool) (cutoff : gotime) (u : Z) (sched : list bool) (s : cst) : cst :=
  fold_left (c_step data cutoff u) sched s.

Definition c_init (o : obj) : cst := mkC (Some o) TIdle LIdle.

(* the lookup alone, to completion *)
Definition lookup_alone : list bool := [false; false; false; false].

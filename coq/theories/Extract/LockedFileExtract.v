(* Extraction of the lockedfile model (ExtrOcamlBasic only; byte, N, nat stay the extracted
   inductives; no Extract Constant). *)
From Coq Require Import List NArith.
From Coq.Strings Require Import Byte.
From Coq Require Import Extraction ExtrOcamlBasic.
From GI Require Import Gen.LockedFileConsts LockedFile.LockedFile LockedFile.LockedFileA.
From GI Require Import LockedFile.Policy LockedFile.Handles.
Extraction Language OCaml.
Extraction "extracted/lockedfile/model.ml" Byte.of_N Byte.to_N
  prog_of_call client_prog write_body read_body run_seq run_body fault_at no_faults os_with fresh_fd
  lock_mode_of_flags lock_arg_of_flags strip accmode call_spec
  init_state exec run mutex_lock mutex_at mutex_string can_grant drop
  run_seq_a prog_of_call_a default_attr exec_a run_a init_state_a
  run_pol run_body_pol no_fault_pol pol_of_plan limit_pol class_pol cs_never writer_call copy_body
  opens closes write_outcome
  hinit htrace.

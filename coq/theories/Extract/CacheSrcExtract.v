(* Extraction of the segments of cache/cache.go that harness/go2coq translates on every run
   (Gen/CacheSrc.v: get, putIndexEntry, fileName) together with their library denotations
   (Cache/SrcLib.v), to a file of its own: the runner of harness/cmd/cache evaluates them against
   the implementation through a second binary (ocaml/build_src.sh, ocaml/cache/src_driver.ml).
   Kept apart from Extract/CacheExtract.v so that the hand-written model and its driver build
   whatever a candidate change does to the translated text (a segment with another signature, a
   translation that fails): the runner then runs every other oracle and says in a note that the
   translated segments were not run.  ExtrOcamlBasic only; no Extract Constant. *)
From Coq Require Import List NArith ZArith.
From Coq.Strings Require Import Byte.
From Coq Require Import Extraction ExtrOcamlBasic.
From GI Require Import Lib.Bytes Gen.CacheConsts Cache.CacheEntry.
From GI Require Lib.GoSem Lib.GoSemSeg Cache.SrcLib Gen.CacheSrc CacheTrim.CacheTrim.
Extraction Language OCaml.
Extraction "extracted/cache/src.ml" Byte.of_N Byte.to_N Z.add Z.mul Z.opp entry_size_n
  CacheSrc.src_Cache_get_parse CacheSrc.src_Cache_get_result CacheSrc.src_Cache_putIndexEntry_entry
  CacheSrc.src_Cache_fileName_body SrcLib.go_time_UnixNano CacheTrim.time_of_ns.

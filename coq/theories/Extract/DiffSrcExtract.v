(* Extraction of the TRANSLATED diff functions (Gen/DiffSrc.v, made from diff/diff.go by
   harness/go2coq on every run), so that the runner can execute the translation itself next to
   the implementation: a test of the translator and of the semantic libraries Lib/GoSem*.v.
   A model binary of its own (bin/model_diffsrc), so that a source the translator cannot read
   does not take the hand-written model's binary down with it.
   ExtrOcamlBasic only; byte, N, Z, nat stay the extracted inductives; no Extract Constant. *)
From Coq Require Import List NArith ZArith.
From Coq.Strings Require Import Byte.
From Coq Require Import Extraction ExtrOcamlBasic.
From GI Require Import Lib.Bytes Lib.GoSem Lib.GoSemExt Lib.GoSemData Diff.SrcLib Gen.DiffSrc.
Extraction Language OCaml.
Extraction "extracted/diffsrc/model.ml" Byte.of_N Byte.to_N src_lines src_tgs src_Diff.

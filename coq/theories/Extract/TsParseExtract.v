(* Extraction of the C02 model (ExtrOcamlBasic only; byte, N, nat stay the extracted
   inductives; no Extract Constant). *)
From Coq Require Import List NArith.
From Coq.Strings Require Import Byte.
From Coq Require Import Extraction ExtrOcamlBasic.
From GI Require Import Lib.GoSem Lib.GoSemState.
From GI Require Import Lib.Bytes Gen.TsParseConsts TsParse.TsParse TsParse.TsSpec TsParse.TsHolds TsParse.TsScript.
From GI Require Import TsParse.SrcLib Gen.TsParseSrc.
Extraction Language OCaml.
Extraction "extracted/tsparse/model.ml" Byte.of_N Byte.to_N
  setup_env cmd_env getenv setenv ts_parse ts_step expand os_expand expand_key quote_meta
  child_env child_lookup dedup_env pwd_key sq join_sp in_quote_after utf8_ok re_literal
  ts_sep_bytes ts_quote do_cmd_cmp c02_holds_on
  script_lines_tr run_script hstep hrun hcmd_of_line env_listing history_holds hstate_eqb
  (* the functions of testscript.go as translated by harness/go2coq (Gen/TsParseSrc.v): the driver runs
     them beside the model on every request, a test of the translator and of Lib/GoSem*.v *)
  src_TestScript_parse src_TestScript_expand src_TestScript_Getenv src_TestScript_Setenv src_TestScript_setEnv
  src_TestScript_cmdEnv split_kv ts_env_cmd.

(* Extraction of the C02 model (ExtrOcamlBasic only; byte, N, nat stay the extracted
   inductives; no Extract Constant). *)
From Coq Require Import List NArith.
From Coq.Strings Require Import Byte.
From Coq Require Import Extraction ExtrOcamlBasic.
From GI Require Import Lib.Bytes Gen.TsParseConsts TsParse.TsParse TsParse.TsSpec TsParse.TsHolds TsParse.TsScript.
Extraction Language OCaml.
Extraction "extracted/tsparse/model.ml" Byte.of_N Byte.to_N
  setup_env cmd_env getenv setenv ts_parse ts_step expand os_expand expand_key quote_meta
  child_env child_lookup dedup_env pwd_key sq join_sp in_quote_after utf8_ok re_literal
  ts_sep_bytes ts_quote do_cmd_cmp c02_holds_on
  script_lines_tr run_script hstep hrun hcmd_of_line env_listing history_holds hstate_eqb.

(* Extraction of the C13 model (ExtrOcamlBasic only; byte, N, Z, nat stay the extracted
   inductives; no Extract Constant). *)
From Coq Require Import List NArith ZArith.
From Coq.Strings Require Import Byte.
From Coq Require Import Extraction ExtrOcamlBasic.
From GI Require Import Lib.Bytes Gen.CacheTrimConsts CacheTrim.CacheTrim CacheTrim.CacheTrimConc.
Extraction Language OCaml.
Extraction "extracted/cachetrim/model.ml" Byte.of_N Byte.to_N Z.add Z.mul Z.opp Z.ltb
  trim trim_err trim_prefix used lookup store step run decimal parse_int trim_due trim_space is_entry_name
  c13_holds_on holds_from stated_limit c_run c_init trim_cutoff
  mtime_interval trim_interval trim_limit trim_file_name index_suffix data_suffix
  open_subdir_count.

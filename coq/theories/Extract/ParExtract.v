(* Extraction of the par.Work / par.Cache models (ExtrOcamlBasic only; nat, N, byte stay the
   extracted inductives; no Extract Constant). *)
From Coq Require Import List NArith.
From Coq.Strings Require Import Byte.
From Coq Require Import Extraction ExtrOcamlBasic.
From GI Require Import Par.ParWork Par.ParCache Par.ParCacheProofs Par.ParWorkMulti.
Extraction Language OCaml.
Extraction "extracted/par/model.ml" Byte.of_N Byte.to_N
  step run init_state enabled all_done phi safe_state wakeup_ok
  cstep crun cinit cenabled all_idle invisible psi kcL
  wstep winit wall_done wphi nstep ninit nfinal nphi at_inner_call cfg_init.

(* Extraction of the TRANSLATED import reader (Gen/ImportsReadSrc.v, made from imports/read.go
   by harness/go2coq on every run), so that the runner can execute the translation itself next
   to the implementation: a test of the translator and of the semantic libraries Lib/GoSem*.v.
   A model binary of its own (bin/model_importsreadsrc), so that a source the translator cannot
   read does not take the hand-written model's binary down with it.
   ExtrOcamlBasic only; byte, N, Z, nat stay the extracted inductives; no Extract Constant. *)
From Coq Require Import List NArith ZArith.
From Coq.Strings Require Import Byte.
From Coq Require Import Extraction ExtrOcamlBasic.
From GI Require Import Lib.Bytes Lib.GoSem Lib.GoSemExt Lib.GoSemIO Imports.ReadSrcLib Gen.ImportsReadSrc.
Extraction Language OCaml.
Extraction "extracted/importsreadsrc/model.ml" Byte.of_N Byte.to_N
  src_ReadImports src_errSyntax src_errNUL goerr_eqb src_isIdent.

(* Extraction of the batch model (C04) and the deadline model (C17): ExtrOcamlBasic only; byte, N,
   Z, nat stay the extracted inductives; no Extract Constant. *)
From Coq Require Import List NArith ZArith.
From Coq.Strings Require Import Byte.
From Coq Require Import Extraction ExtrOcamlBasic.
From GI Require Import Lib.Bytes Gen.TsBatchConsts TsBatch.TsBatch TsBatch.TsCleanup TsDeadline.TsDeadline TsDeadline.TsTimed TsDeadline.TsRuns TsDeadline.TsLate.
Extraction Language OCaml.
Extraction "extracted/tsbatch/model.ml" Byte.of_N Byte.to_N
  run init start alone step round_robin steps_bound initial_env setup_tree expected_node host_reads remove_all
  defer_regs defer_runs bg_started bg_gone bg_waited is_done all_done
  grace ctx_timeout ctx_deadline fg_kill_delay fg_params wos fg_exec uexec uparams_of ugood reach closed all_params
  texec tinit fg_tpar obligations
  timed_out_message min_grace grace_divisor grace_reserve
  remove_all_at remove_all_now remove_all_chmods_dirs_only gget rm_path symlink_at
  run_calls run_calls_now single_call wos_return fg_exec_gen interrupt_error_wins grace_period_is_local
  script_ctx_deadline fg_params_at child_env setup_env defers_verdict exec_env_appends_pwd ctx_created_once_in_runt early_cleanup_only_without_scripts deferred_failnow_caught defers_verdict_gen.

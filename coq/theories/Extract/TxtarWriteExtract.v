(* Extraction of the txtar.Write / txtar-c / txtar-x model (ExtrOcamlBasic only; byte, N,
   nat stay the extracted inductives; no Extract Constant). *)
From Coq Require Import List NArith.
From Coq.Strings Require Import Byte.
From Coq Require Import Extraction ExtrOcamlBasic.
From GI Require Import Lib.Bytes Txtar.Txtar TxtarWrite.Path TxtarWrite.TxtarWrite TxtarWrite.Symlink.
Extraction Language OCaml.
Extraction "extracted/txtarwrite/model.ml" Byte.of_N Byte.to_N
  clean join dir_of is_abs parent_str resolve
  write write_gen created_mode extract savedir savedir_tree txtar_c entry_name savedir_entry unquote_names restored
  s_write parse format.

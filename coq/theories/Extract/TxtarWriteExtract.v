(* Extraction of the txtar.Write / txtar-c / txtar-x model (ExtrOcamlBasic only; byte, N,
   nat stay the extracted inductives; no Extract Constant). *)
From Coq Require Import List NArith.
From Coq.Strings Require Import Byte.
From Coq Require Import Extraction ExtrOcamlBasic.
From GI Require Import Lib.Bytes Txtar.Txtar TxtarWrite.Path TxtarWrite.TxtarWrite TxtarWrite.Symlink TxtarWrite.Fd TxtarWrite.Cli.
Extraction Language OCaml.
Extraction "extracted/txtarwrite/model.ml" Byte.of_N Byte.to_N
  clean join dir_of is_abs parent_str resolve
  write write_gen created_mode extract savedir savedir_tree txtar_c entry_name savedir_entry unquote_names restored
  s_write parse format
  write_f fault_at no_faults max_open open_after txtar_x_main txtar_c_main x_cmdline c_cmdline.

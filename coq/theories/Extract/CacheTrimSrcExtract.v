(* Extraction of the segments of cache/cache.go that harness/go2coq translates on every run
   (Gen/CacheSrc.v: used, Trim, trimSubdir) together with their library denotations
   (Cache/SrcLib.v), to a file of its own: the runner of harness/cmd/cachetrim evaluates them
   against the implementation through a second binary (ocaml/build_src.sh,
   ocaml/cachetrim/src_driver.ml).  Kept apart from Extract/CacheTrimExtract.v so that the
   hand-written model and its driver build whatever a candidate change does to the translated
   text (a segment with another signature, a translation that fails): the runner then runs every
   other oracle and says in a note that the translated segments were not run.
   ExtrOcamlBasic only; no Extract Constant. *)
From Coq Require Import List NArith ZArith.
From Coq.Strings Require Import Byte.
From Coq Require Import Extraction ExtrOcamlBasic.
From GI Require Import Lib.Bytes CacheTrim.CacheTrim.
From GI Require Lib.GoSem Lib.GoSemSeg Cache.SrcLib Gen.CacheSrc.
Extraction Language OCaml.
Extraction "extracted/cachetrim/src.ml" Byte.of_N Byte.to_N Z.add Z.mul Z.opp
  CacheSrc.src_Cache_used_fresh CacheSrc.src_Cache_Trim_due CacheSrc.src_Cache_Trim_cutoff
  CacheSrc.src_Cache_trimSubdir_candidate CacheSrc.src_Cache_trimSubdir_stale time_of_ns.

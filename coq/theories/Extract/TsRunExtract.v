(* Extraction of the testscript interpreter model (ExtrOcamlBasic only; byte, N, nat stay the
   extracted inductives; no Extract Constant). *)
From Coq Require Import List NArith.
From Coq.Strings Require Import Byte.
From Coq Require Import Extraction ExtrOcamlBasic.
From GI Require Import Lib.Bytes Txtar.Txtar TsRun.TsFs TsRun.TsRegex TsRun.TsState TsRun.TsCmds TsRun.TsRun TsRun.TsSpec TsRun.TsUpdate TsRun.TsRerun.
Extraction Language OCaml.
Extraction "extracted/tsrun/model.ml" Byte.of_N Byte.to_N run_file_full rerun_covered run_file cli_exit batch_verdicts runT_seq
  parse_re re_has_match re_count re_byte_safe tokenise expand clean join2 base dir parse format needs_quote quote apply_updates.

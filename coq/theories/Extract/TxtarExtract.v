(* Extraction of the txtar model (ExtrOcamlBasic only; byte, N, nat stay the extracted
   inductives; no Extract Constant). *)
From Coq Require Import List NArith.
From Coq.Strings Require Import Byte.
From Coq Require Import Extraction ExtrOcamlBasic.
From GI Require Import Lib.Bytes Lib.Utf8 Lib.Utf8Go Lib.Utf8Trim Txtar.Txtar Txtar.TxtarIndex Txtar.TxtarHolds Txtar.QuoteIndex.
Extraction Language OCaml.
Extraction "extracted/txtar/model.ml" Byte.of_N Byte.to_N parse ref_parse format needs_quote quote unquote
  wf_archive utf8_valid trim_space split_lines
  parse_idx needs_quote_idx is_marker_idx find_file_marker_idx c03_holds_on c14_holds_on format_idx
  decode_rune decode_last_rune is_space_rune trim_left_runes trim_right_runes trim_space_runes
  trim_left trim_right runes_ok encode_rune is_scalar trim_func trim_left_func trim_right_func quote_idx unquote_idx decode_rune_tab.

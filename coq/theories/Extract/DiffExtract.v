(* Extraction of the diff model (ExtrOcamlBasic only; byte, N, Z, nat stay the extracted
   inductives; no Extract Constant). *)
From Coq Require Import List NArith ZArith.
From Coq.Strings Require Import Byte.
From Coq Require Import Extraction ExtrOcamlBasic.
From GI Require Import Lib.Bytes Gen.DiffConsts Diff.Diff Diff.DiffSpec Diff.DiffParse Diff.CoverFacts.
Extraction Language OCaml.
Extraction "extracted/diff/model.ml" Byte.of_N Byte.to_N lines tgs diff_hunks render diff
  apply_hunks swap_hunks tgs_ok C08_holds_on ctxC no_newline_msg
  lines_go parse_render patch_bytes unpatch_bytes runs patch_text unpatch_text.

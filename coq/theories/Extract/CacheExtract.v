(* Extraction of the cache model (ExtrOcamlBasic only; byte, N, Z, nat stay the extracted
   inductives; no Extract Constant).  The hash is an argument of the extracted functions. *)
From Coq Require Import List NArith ZArith.
From Coq.Strings Require Import Byte.
From Coq Require Import Extraction ExtrOcamlBasic.
From GI Require Import Lib.Bytes Gen.CacheConsts Cache.CacheEntry Cache.Cache Cache.CacheFault Cache.CacheConc Cache.CacheHolds Cache.CacheFd Cache.CacheHash.
(* re-entrant lookups (a source that looks something up while its Put is in progress) and positioned
   in-memory sources: requests putcb / putsrc of the driver *)
From GI Require Import Cache.CacheReent.
Extraction Language OCaml.
Extraction "extracted/cache/model.ml" Byte.of_N Byte.to_N
  parse_entry encode_entry entry_size_n hash_size_n path_name
  no_files upd run_seq put get get_file get_bytes get_prog get_file_prog get_bytes_prog output_file_prog put_prog
  honest_reader dmg_truncate dmg_extend dmg_flip dmg_delete dmg_write
  run_f trace_f count_ops put_bytes_prog fds_f fd_leak
  new_hash hash_write hash_sum subkey_preimage subkey file_hash set_file_hash fh_lookup
  start sched_step run_conc init_sys finished cstep
  c05_holds_on c05_put_holds_on inv_holds_on c12_holds_on c12_post_holds_on
  put_cb reader_of_memsrc ms_after_put.

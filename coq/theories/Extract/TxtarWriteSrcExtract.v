(* Extraction of the functions of txtar/archive.go and cmd/txtar-c/savedir.go TRANSLATED from the
   source (Gen/TxtarWriteWorldSrc.v), run over the file-system model (TxtarWrite/SrcWalk.v), for
   the differential run of harness/cmd/txtarwrite (ExtrOcamlBasic only; no Extract Constant). *)
From Coq Require Import List NArith.
From Coq.Strings Require Import Byte.
From Coq Require Import Extraction ExtrOcamlBasic.
From GI Require Import Lib.Bytes Lib.GoSem Txtar.Txtar TxtarWrite.Path TxtarWrite.TxtarWrite
  TxtarWrite.SrcWorld TxtarWrite.SrcWalk.
Extraction Language OCaml.
Extraction "extracted/txtarwrite/src.ml" Byte.of_N Byte.to_N
  resolve split_sep format src_write_model src_savedir_walk rsort_tree.

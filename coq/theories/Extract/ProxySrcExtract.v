(* Extraction of the segments of goproxytest/proxy.go that harness/go2coq translates on every run
   (Gen/ProxySrc.v), composed by the hand-written glue of Proxy/SrcGlue.v, together with their
   library denotations (Proxy/SrcLib.v), to a file of its own: the runner of harness/cmd/proxy
   evaluates them on the directories and URLs it generates through a second binary
   (ocaml/build_src.sh, ocaml/proxy/src_driver.ml) and compares the answers with the model's,
   which it compares with the implementation's.  Kept apart from Extract/ProxyExtract.v so that the
   hand-written model and its driver build whatever a candidate change does to the translated text
   (a segment with another signature, a translation that fails): the runner then runs every other
   oracle and says in a note that the translated segments were not run.  ExtrOcamlBasic only; no
   Extract Constant. *)
From Coq Require Import List NArith ZArith.
From Coq.Strings Require Import Byte.
From Coq Require Import Extraction ExtrOcamlBasic.
From GI Require Import Lib.Bytes Lib.GoSem Gen.ProxyConsts Proxy.Proxy Proxy.XMod.
From GI Require Import Lib.GoSemHandler Proxy.SrcLib Gen.ProxySrc Proxy.SrcGlue.
Extraction Language OCaml.
Extraction "extracted/proxy/src.ml" Byte.of_N Byte.to_N
  src_allHex src_isPseudoVersion src_readModList_loop src_handle src_findHash src_zip_entries
  src_Server_readArchive_names src_Server_readArchive_arpath dir_names go_response_empty.

(* Extraction of the goproxytest model (ExtrOcamlBasic only; byte, N, nat stay the extracted
   inductives; no Extract Constant). *)
From Coq Require Import List NArith.
From Coq.Strings Require Import Byte.
From Coq Require Import Extraction ExtrOcamlBasic.
From GI Require Import Gen.ProxyConsts Proxy.Regex Proxy.Proxy Proxy.XMod Proxy.ProxyFacts Proxy.ProxyExact.
Extraction Language OCaml.
Extraction "extracted/proxy/model.ml" Byte.of_N Byte.to_N
  escape_string unescape_string read_mod_list route archive_name lookup_archive stored listed
  handler respond run run_own run_sched zip_ops no_caches is_pseudo allhex pseudo_version_re_src
  xmod_oracles check_path_x check_elem_x module_check_x semver_is_valid semver_lt_x semver_canonical
  semver_compare split_path_version re_match pseudo_version_re central_directory
  served_b server_start serve_all.

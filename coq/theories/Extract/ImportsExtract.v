(* Extraction of the imports models (ExtrOcamlBasic only; byte, N, nat stay the extracted
   inductives; no Extract Constant). *)
From Coq Require Import List NArith.
From Coq.Strings Require Import Byte.
From Coq Require Import Extraction ExtrOcamlBasic.
From GI Require Import Lib.Bytes Gen.ImportsConsts Imports.Build Imports.Read Imports.ReadGrammar Imports.Scan.
Extraction Language OCaml.
Extraction "extracted/imports/model.ml" Byte.of_N Byte.to_N
  should_build spec_should_build match_file match_tags read_imports read_comments
  wf_section render render_body paths
  unquote scan_dir scan_files trim_space fields.

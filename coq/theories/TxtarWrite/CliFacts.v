(* Facts about the command-line layer (Cli.v): the spellings of the flags, and the round
   trip txtar-c | txtar-x through either input route, for trees of any size. *)
From Coq Require Import List Bool Arith Lia NArith.
From Coq.Strings Require Import Byte.
From GI Require Import Lib.Bytes Gen.TxtarWriteConsts Txtar.Txtar
  TxtarWrite.Path TxtarWrite.TxtarWrite TxtarWrite.PathFacts TxtarWrite.WriteFacts
  TxtarWrite.NulFacts TxtarWrite.RelFacts TxtarWrite.GoodWrite TxtarWrite.SavedirFacts TxtarWrite.Cli.
Import ListNotations.

(* an argument the flag package takes for a flag: at least two bytes, the first a dash *)
Definition flaglike (s : bytes) : bool :=
  match s with b0 :: _ :: _ => beq b0 DASH | _ => false end.

Lemma parse_flags_positional fset s rest vals :
  flaglike s = false -> parse_flags fset (s :: rest) vals = POk vals (s :: rest).
Proof.
  intros H. destruct s as [|b0 [|b1 more]]; try reflexivity.
  simpl in H. simpl. rewrite H. reflexivity.
Qed.

(* ---- txtar-x *)

Lemma x_cmdline_nil : x_cmdline [] = XRun extract_dir_default XStdin.
Proof. reflexivity. Qed.

Lemma x_cmdline_file f : flaglike f = false -> x_cmdline [f] = XRun extract_dir_default (XFile f).
Proof. intros H. unfold x_cmdline. rewrite parse_flags_positional by auto. reflexivity. Qed.

Lemma x_cmdline_C d : x_cmdline [DASH :: extract_dir_flag; d] = XRun d XStdin.
Proof. unfold x_cmdline. cbn; rewrite ?bytes_eqb_refl; reflexivity. Qed.

Lemma x_cmdline_C_file d f :
  flaglike f = false -> x_cmdline [DASH :: extract_dir_flag; d; f] = XRun d (XFile f).
Proof.
  intros H. unfold x_cmdline.
  change (parse_flags x_flagset [DASH :: extract_dir_flag; d; f] [])
    with (parse_flags x_flagset [f] [(extract_dir_flag, d)]).
  rewrite parse_flags_positional by auto. cbn; rewrite ?bytes_eqb_refl; reflexivity.
Qed.

Lemma x_cmdline_CC_file d f :
  flaglike f = false -> x_cmdline [DASH :: DASH :: extract_dir_flag; d; f] = XRun d (XFile f).
Proof.
  intros H. unfold x_cmdline.
  change (parse_flags x_flagset [DASH :: DASH :: extract_dir_flag; d; f] [])
    with (parse_flags x_flagset [f] [(extract_dir_flag, d)]).
  rewrite parse_flags_positional by auto. cbn; rewrite ?bytes_eqb_refl; reflexivity.
Qed.

Lemma x_cmdline_Ceq_file d f :
  flaglike f = false -> x_cmdline [DASH :: extract_dir_flag ++ EQS :: d; f] = XRun d (XFile f).
Proof.
  intros H. unfold x_cmdline.
  change (parse_flags x_flagset [DASH :: extract_dir_flag ++ EQS :: d; f] [])
    with (parse_flags x_flagset [f] [(extract_dir_flag, d)]).
  rewrite parse_flags_positional by auto. cbn; rewrite ?bytes_eqb_refl; reflexivity.
Qed.

Lemma x_cmdline_two_files f1 f2 :
  flaglike f1 = false -> x_cmdline [f1; f2] = XUsage.
Proof. intros H. unfold x_cmdline. rewrite parse_flags_positional by auto. reflexivity. Qed.

Lemma x_cmdline_forms d f :
  flaglike f = false ->
  x_cmdline [] = XRun extract_dir_default XStdin /\
  x_cmdline [DASH :: extract_dir_flag; d] = XRun d XStdin /\
  x_cmdline [DASH :: extract_dir_flag; d; f] = XRun d (XFile f) /\
  x_cmdline [DASH :: DASH :: extract_dir_flag; d; f] = XRun d (XFile f) /\
  x_cmdline [DASH :: extract_dir_flag ++ EQS :: d; f] = XRun d (XFile f) /\
  x_cmdline [f] = XRun extract_dir_default (XFile f).
Proof.
  intros Hf. split; [exact x_cmdline_nil|]. split; [exact (x_cmdline_C d)|].
  split; [exact (x_cmdline_C_file d f Hf)|]. split; [exact (x_cmdline_CC_file d f Hf)|].
  split; [exact (x_cmdline_Ceq_file d f Hf)|exact (x_cmdline_file f Hf)].
Qed.

(* all of standard input is read *)
Lemma read_stdin_all stdin : read_stdin extract_stdin_limit stdin = stdin.
Proof. reflexivity. Qed.

(* ---- txtar-c *)

Definition TRUE_ : bytes := [x74; x72; x75; x65].
Definition FALSE_ : bytes := [x66; x61; x6c; x73; x65].

Lemma c_cmdline_plain d :
  flaglike d = false -> c_cmdline [d] = CRun {| f_quote := false; f_all := false |} d.
Proof. intros H. unfold c_cmdline. rewrite parse_flags_positional by auto. reflexivity. Qed.

(* any mix of the two flags, each spelled -x, --x, -x=true or -x=false, before the
   directory: the last setting of each flag counts *)
Inductive cflag := CQ (v : bool) (spelling : nat) | CA (v : bool) (spelling : nat).

Definition spell (name : bytes) (v : bool) (sp : nat) : bytes :=
  match sp with
  | 0 => if v then DASH :: name else DASH :: name ++ EQS :: FALSE_
  | 1 => if v then DASH :: DASH :: name else DASH :: DASH :: name ++ EQS :: FALSE_
  | _ => DASH :: name ++ EQS :: (if v then TRUE_ else FALSE_)
  end.

Definition cflag_arg (c : cflag) : bytes :=
  match c with
  | CQ v sp => spell savedir_quote_flag v sp
  | CA v sp => spell savedir_all_flag v sp
  end.

Fixpoint cflags_apply (cs : list cflag) (fl : sflags) : sflags :=
  match cs with
  | [] => fl
  | CQ v _ :: r => cflags_apply r {| f_quote := v; f_all := f_all fl |}
  | CA v _ :: r => cflags_apply r {| f_quote := f_quote fl; f_all := v |}
  end.

Definition vals_flags (vals : list (bytes * bytes)) : sflags :=
  {| f_quote := flag_true savedir_quote_flag vals; f_all := flag_true savedir_all_flag vals |}.

Definition cflag_val (c : cflag) : bytes * bytes :=
  match c with
  | CQ v _ => (savedir_quote_flag, if v then TRUE_ else FALSE_)
  | CA v _ => (savedir_all_flag, if v then TRUE_ else FALSE_)
  end.

Lemma parse_flags_cflag c r vals :
  parse_flags c_flagset (cflag_arg c :: r) vals = parse_flags c_flagset r (cflag_val c :: vals).
Proof. destruct c as [v sp|v sp]; destruct sp as [|[|sp]]; destruct v; reflexivity. Qed.

Lemma vals_flags_cflag c vals :
  vals_flags (cflag_val c :: vals) = cflags_apply [c] (vals_flags vals).
Proof. destruct c as [v sp|v sp]; destruct v; reflexivity. Qed.

Lemma parse_flags_cflags cs : forall d vals,
  flaglike d = false ->
  exists vals', parse_flags c_flagset (map cflag_arg cs ++ [d]) vals = POk vals' [d] /\
                vals_flags vals' = cflags_apply cs (vals_flags vals).
Proof.
  induction cs as [|c cs IH]; intros d vals Hd.
  - exists vals. split; [apply parse_flags_positional; auto|reflexivity].
  - cbn [map app]. rewrite parse_flags_cflag.
    destruct (IH d (cflag_val c :: vals) Hd) as [vals' [H1 H2]].
    exists vals'. split; [exact H1|]. rewrite H2, vals_flags_cflag.
    destruct c; reflexivity.
Qed.

(* txtar-c [flags...] dir *)
Theorem c_cmdline_flags cs d :
  flaglike d = false ->
  c_cmdline (map cflag_arg cs ++ [d]) = CRun (cflags_apply cs {| f_quote := false; f_all := false |}) d.
Proof.
  intros Hd. unfold c_cmdline.
  destruct (parse_flags_cflags cs d [] Hd) as [vals' [H1 H2]]. rewrite H1.
  cbn [length N.of_nat]. change (N.eqb (N.pos (Pos.of_succ_nat 0)) savedir_nargs) with true. cbv iota.
  fold (vals_flags vals'). rewrite H2. reflexivity.
Qed.

(* ---- the round trip through the commands *)

(* Whatever the spelling of the flags, through either input route of txtar-x (the file
   named by the argument, holding what txtar-c printed; or standard input, however long),
   for every tree of files with txtar-representable names, of any size: the conclusion of
   savedir_extract. *)
Theorem cli_roundtrip fl t cwd fs dir cargs d0 xargs inp stdin :
  Forall real cwd -> Forall nul_free cwd -> has_nul dir = false -> tree_ok t ->
  dir_exists fs (resolve cwd dir) ->
  (forall q, beneath (resolve cwd dir) q -> get fs q = None) ->
  c_cmdline cargs = CRun fl d0 ->
  x_cmdline xargs = XRun dir inp ->
  (inp = XStdin /\ Some stdin = txtar_c_main cargs t) \/
  (exists f out, inp = XFile f /\ Some out = txtar_c_main cargs t /\ os_read_file cwd fs f = inr out) ->
  exists fs',
    txtar_x_main cwd fs xargs stdin = (fs', XR WOk) /\
    (forall p d cl n s, In (p, d) t -> savedir_entry fl (p, d) = Some (cl, (n, s)) ->
       get fs' (resolve cwd dir ++ p) = Some (File s) /\
       restored (comment (parse (txtar_c fl t))) n s = Some (fix_nl d)) /\
    (forall q x, beneath (resolve cwd dir) q -> get fs' q = Some x ->
       exists p d e, In (p, d) t /\ savedir_entry fl (p, d) = Some e /\
         ((q = resolve cwd dir ++ p /\ exists s, x = File s) \/
          (x = Dir /\ proper q (resolve cwd dir ++ p)))).
Proof.
  intros Hc Hn Hd Ht He Hb HC HX Hin.
  destruct (savedir_extract fl t cwd fs dir Hc Hn Hd Ht He Hb) as [fs' [H1 [H2 H3]]].
  exists fs'. split; [|split; assumption].
  unfold txtar_x_main. rewrite HX. unfold txtar_x_run, txtar_c_main in *. rewrite HC in Hin.
  destruct Hin as [[-> Hs]|[f [out [-> [Ho Hr]]]]].
  - inversion Hs; subst. rewrite read_stdin_all, H1. reflexivity.
  - inversion Ho; subst. rewrite Hr, H1. reflexivity.
Qed.

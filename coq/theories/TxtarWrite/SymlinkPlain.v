(* On a file system WITHOUT symbolic links the symlink variant of the model (Symlink.v:
   physical, component-by-component resolution) and the plain model (TxtarWrite.v: lexical
   resolution, then the check that every directory on the way exists) agree on everything
   txtar.Write does, for a directory named by an absolute string: same result, same
   resulting file system.  So the containment theorems proved for the plain model are
   theorems about the symlink model restricted to link-free states, and the refutation in
   SymlinkFacts.v needs the link. *)
From Coq Require Import List Bool Arith Lia.
From Coq.Strings Require Import Byte.
From GI Require Import Lib.Bytes Gen.TxtarWriteConsts Txtar.Txtar TxtarWrite.Path TxtarWrite.TxtarWrite
  TxtarWrite.PathFacts TxtarWrite.WriteFacts TxtarWrite.Symlink.
Import ListNotations.

Definition emb (n : node) : snode := match n with File d => SFile d | Dir => SDir end.

(* the two states hold the same objects (no links on the symlink side) *)
Definition sim (fs : fsys) (sfs : sfsys) : Prop := forall p, sget sfs p = option_map emb (get fs p).

(* EISDIR is not produced under O_CREAT|O_EXCL; it is mapped somewhere to keep [ce] total *)
Definition ce (e : errno) : serrno :=
  match e with EEXIST => S_EEXIST | ENOENT => S_ENOENT | ENOTDIR => S_ENOTDIR | EINVAL => S_EINVAL
             | EISDIR => S_EINVAL end.
Definition cr (r : wres) : swres :=
  match r with
  | WOk => SOk | WOutside => SOutside | WOutOfFuel => SOutOfFuel
  | WErr OpMkdir e => SErrMkdir (ce e) | WErr OpOpen e => SErrOpen (ce e)
  end.

Lemma sim_cons fs sfs P n : P <> [] -> sim fs sfs -> sim ((P, n) :: fs) ((P, emb n) :: sfs).
Proof.
  intros HP H p. rewrite (get_cons P n fs p HP).
  destruct p as [|c p]; [destruct P; [contradiction|reflexivity]|].
  simpl sget. destruct P as [|d P]; [contradiction|]. simpl.
  destruct (bytes_eqb c d && path_eqb p P); [reflexivity|]. apply (H (c :: p)).
Qed.

Lemma sim_cons2 fs sfs P d : P <> [] -> sim fs sfs ->
  sim ((P, File d) :: (P, File []) :: fs) ((P, SFile d) :: sfs).
Proof.
  intros HP H p. rewrite (get_cons P (File d) _ p HP).
  destruct (path_eqb p P) eqn:E.
  - apply path_eqb_eq in E. subst p. destruct P as [|c P]; [contradiction|].
    simpl. rewrite bytes_eqb_refl, path_eqb_refl. reflexivity.
  - rewrite (get_cons P (File []) fs p HP), E.
    destruct p as [|c p]; [destruct P; [contradiction|reflexivity]|].
    destruct P as [|x P]; [contradiction|]. simpl sget. simpl in E. simpl. rewrite E. apply (H (c :: p)).
Qed.

(* ------------------------------------------------------------------ resolution *)

Lemma real_not_special c : real c -> bytes_eqb c [] || bytes_eqb c dot = false /\ bytes_eqb c dotdot = false.
Proof.
  intros [H1 [H2 [H3 _]]]. rewrite (bytes_eqb_neq c []), (bytes_eqb_neq c dot), (bytes_eqb_neq c dotdot); auto.
Qed.

Lemma swalk_reals fs sfs b : sim fs sfs -> forall Q pre steps,
  length Q < steps -> Forall real Q ->
  swalk steps sfs pre Q b =
    match walk_parents fs pre Q with Some e => inl (ce e) | None => inr (pre ++ Q) end.
Proof.
  intros HS. induction Q as [|c Q IH]; intros pre steps HL HR.
  - destruct steps; [simpl in HL; lia|]. simpl. rewrite app_nil_r. reflexivity.
  - destruct steps as [|st]; [simpl in HL; lia|]. inversion HR; subst.
    destruct (real_not_special c H1) as [E1 E2].
    cbn [swalk]. rewrite E1, E2. rewrite (HS (pre ++ [c])).
    destruct Q as [|c' Q].
    + (* last component *)
      simpl walk_parents. destruct (get fs (pre ++ [c])) as [[d|]|]; simpl; try reflexivity.
      destruct st; [simpl in HL; lia|]. reflexivity.
    + change (walk_parents fs pre (c :: c' :: Q)) with
        (match get fs (pre ++ [c]) with
         | Some Dir => walk_parents fs (pre ++ [c]) (c' :: Q)
         | Some (File _) => Some ENOTDIR
         | None => Some ENOENT
         end).
      destruct (get fs (pre ++ [c])) as [[d|]|]; simpl option_map; cbv iota; try reflexivity.
      rewrite IH by (auto; simpl in *; lia). rewrite <- app_assoc. reflexivity.
Qed.

Lemma swalk_skip_empty st sfs cur rest b : swalk (S st) sfs cur ([] :: rest) b = swalk st sfs cur rest b.
Proof. reflexivity. Qed.

Lemma length_render_ge Q : Forall real Q -> length Q < S (length (render true Q)).
Proof.
  intros H. destruct Q as [|c Q]; [simpl; lia|]. rewrite render_true by discriminate.
  induction H as [|x l Hx _ IH]; [simpl; lia|].
  change (render' (x :: l)) with (SEP :: x ++ render' l). simpl. rewrite app_length. simpl in IH. lia.
Qed.

Lemma slookup_render fs sfs cwd Q b :
  sim fs sfs -> Forall real Q ->
  slookup cwd sfs (render true Q) b =
    match lookup_path cwd fs (render true Q) with inl e => inl (ce e) | inr P => inr P end.
Proof.
  intros HS HR. unfold slookup, lookup_path.
  destruct (has_nul (render true Q)); [reflexivity|].
  destruct (render true Q) as [|x t] eqn:ER; [destruct Q; discriminate|]. rewrite <- ER.
  rewrite resolve_render_true by auto.
  assert (Ea : is_abs (render true Q) = true) by reflexivity. rewrite Ea.
  assert (HSf : Forall sep_free Q) by (eapply Forall_impl; [|exact HR]; apply real_sep_free).
  pose proof (length_render_ge Q HR) as HL.
  set (n := length (render true Q)) in *.
  assert (Hn : 1 <= n) by (unfold n; rewrite ER; simpl; lia).
  assert (Hst : exists st, S n * S link_fuel = S (S (S st)) /\ length Q < S (S st)).
  { exists (S n * S link_fuel - 3). unfold link_fuel. split; lia. }
  destruct Hst as [st [Est Hlt]]. rewrite Est.
  destruct Q as [|c Q].
  - simpl. reflexivity.
  - rewrite render_true by discriminate. rewrite split_sep_render' by auto.
    rewrite swalk_skip_empty.
    rewrite (swalk_reals fs sfs b HS (c :: Q) [] (S (S st))) by auto.
    destruct (walk_parents fs [] (c :: Q)); reflexivity.
Qed.

(* ------------------------------------------------------------------ system calls *)

Lemma s_stat_render fs sfs cwd Q :
  sim fs sfs -> Forall real Q ->
  s_stat cwd sfs (render true Q) =
    match os_stat cwd fs (render true Q) with inl e => inl (ce e) | inr n => inr (emb n) end.
Proof.
  intros HS HR. unfold s_stat, os_stat. rewrite (slookup_render fs sfs cwd Q true HS HR).
  destruct (lookup_path cwd fs (render true Q)) as [e|P]; [reflexivity|].
  rewrite (HS P). destruct (get fs P) as [[d|]|]; reflexivity.
Qed.

Lemma s_mkdir_render fs sfs cwd Q :
  sim fs sfs -> Forall real Q ->
  exists sfs', s_mkdir cwd sfs (render true Q) = (sfs', option_map ce (snd (os_mkdir cwd fs (render true Q)))) /\
               sim (fst (os_mkdir cwd fs (render true Q))) sfs'.
Proof.
  intros HS HR. unfold s_mkdir, os_mkdir. rewrite (slookup_render fs sfs cwd Q false HS HR).
  destruct (lookup_path cwd fs (render true Q)) as [e|P]; [exists sfs; auto|].
  rewrite (HS P). destruct (get fs P) as [n|] eqn:EG; simpl; [exists sfs; auto|].
  exists ((P, SDir) :: sfs). split; [reflexivity|].
  apply (sim_cons fs sfs P Dir); auto. eapply get_none_nonroot; eauto.
Qed.

Lemma s_create_render fs sfs cwd Q data :
  sim fs sfs -> Forall real Q ->
  match os_open the_flags cwd fs (render true Q) with
  | inl e => s_create_excl cwd sfs (render true Q) data = (sfs, Some (ce e))
  | inr (fs2, h) => exists sfs', s_create_excl cwd sfs (render true Q) data = (sfs', None) /\
                                 sim (os_write the_flags fs2 h data) sfs'
  end.
Proof.
  intros HS HR. unfold s_create_excl, os_open. rewrite (slookup_render fs sfs cwd Q false HS HR).
  destruct (lookup_path cwd fs (render true Q)) as [e|P]; [reflexivity|].
  rewrite (HS P). destruct (the_flags_excl) as [Hc He]. rewrite Hc, He. simpl andb. cbv iota.
  destruct (get fs P) as [n|] eqn:EG; simpl option_map; cbv iota; [reflexivity|].
  pose proof (get_none_nonroot _ _ EG) as HP.
  exists ((P, SFile data) :: sfs). split; [reflexivity|].
  rewrite os_write_new by auto. apply sim_cons2; auto.
Qed.

(* ------------------------------------------------------------------ MkdirAll *)

Lemma parent_of_render Q c : Forall real Q -> real c ->
  parent_str (render true (Q ++ [c])) = render' Q /\
  (Q <> [] -> render' Q = render true Q) /\ (Q = [] -> render' Q = []).
Proof.
  intros HQ Hc. rewrite render_true by (destruct Q; discriminate).
  split; [apply parent_str_render_snoc; auto|]. split.
  - intros H. symmetry. apply render_true. auto.
  - intros ->. reflexivity.
Qed.

Lemma mkdir_all_sim cwd : forall f fs sfs Q,
  sim fs sfs -> Forall real Q ->
  exists sfs', s_mkdir_all f cwd sfs (render true Q) = (sfs', cr (snd (mkdir_all f cwd fs (render true Q)))) /\
               sim (fst (mkdir_all f cwd fs (render true Q))) sfs'.
Proof.
  induction f as [|f IH]; intros fs sfs Q HS HR; [exists sfs; auto|].
  cbn [s_mkdir_all mkdir_all]. rewrite (s_stat_render fs sfs cwd Q HS HR).
  destruct (os_stat cwd fs (render true Q)) as [e|[d|]] eqn:ES; [|exists sfs; auto|exists sfs; auto].
  (* the parent *)
  assert (HPAR : exists sfs1,
    (if nonempty (parent_str (render true Q)) then s_mkdir_all f cwd sfs (parent_str (render true Q)) else (sfs, SOk))
      = (sfs1, cr (snd (if nonempty (parent_str (render true Q)) then mkdir_all f cwd fs (parent_str (render true Q)) else (fs, WOk)))) /\
    sim (fst (if nonempty (parent_str (render true Q)) then mkdir_all f cwd fs (parent_str (render true Q)) else (fs, WOk))) sfs1).
  { destruct (snoc_cases Q) as [->|[Q' [c ->]]]; [exists sfs; auto|].
    apply Forall_app in HR. destruct HR as [HQ' Hc]. pose proof (Forall_inv Hc) as Hc1.
    destruct (parent_of_render Q' c HQ' Hc1) as [EP [E1 E2]]. rewrite EP.
    destruct Q' as [|x Q'].
    - rewrite (E2 eq_refl). exists sfs. auto.
    - rewrite (E1 ltac:(discriminate)).
      assert (HN : nonempty (render true (x :: Q')) = true) by reflexivity. rewrite HN.
      apply IH; auto. }
  destruct HPAR as [sfs1 [EM HS1]]. rewrite EM.
  destruct (if nonempty (parent_str (render true Q)) then mkdir_all f cwd fs (parent_str (render true Q)) else (fs, WOk))
    as [fs1 r1] eqn:EP1. cbn [fst snd] in *.
  destruct r1 as [| |op e1|]; cbn [cr]; try (destruct op); try (exists sfs1; split; [reflexivity|exact HS1]).
  destruct (s_mkdir_render fs1 sfs1 cwd Q HS1 HR) as [sfs2 [EK HS2]]. rewrite EK.
  destruct (os_mkdir cwd fs1 (render true Q)) as [fs2 [e2|]] eqn:EO; cbn [fst snd option_map] in *.
  - rewrite (slookup_render fs2 sfs2 cwd Q false HS2 HR).
    unfold os_stat. destruct (lookup_path cwd fs2 (render true Q)) as [e3|P]; [exists sfs2; auto|].
    rewrite (HS2 P). destruct (get fs2 P) as [[d|]|]; simpl; exists sfs2; auto.
  - exists sfs2. auto.
Qed.

(* ------------------------------------------------------------------ Write *)

Lemma write_one_sim cwd fs sfs dir nd :
  sim fs sfs -> is_abs dir = true ->
  exists sfs', s_write_one cwd sfs dir nd = (sfs', cr (snd (write_one the_guard the_flags cwd fs dir nd))) /\
               sim (fst (write_one the_guard the_flags cwd fs dir nd)) sfs'.
Proof.
  intros HS Ha. unfold s_write_one, write_one.
  destruct (rejected the_guard (clean (from_slash (fst nd)))) eqn:ER; [exists sfs; auto|].
  destruct (not_rejected _ _ the_guard_guards ER) as [N1 [N2 N3]].
  destruct (clean_passes_guard _ N1 N2 N3) as [R [HR EC]].
  rewrite EC. rewrite (join_abs cwd) by auto.
  set (D := resolve cwd dir).
  assert (HD : Forall real D) by (apply resolve_abs_real; auto).
  assert (HDR : Forall real (D ++ R)) by (apply Forall_app; auto).
  assert (ED : exists Q, Forall real Q /\ dir_of (render true (D ++ R)) = render true Q).
  { destruct (snoc_cases (D ++ R)) as [E0|[P [c EQ]]].
    - rewrite E0. exists []. split; [constructor|reflexivity].
    - rewrite EQ in *. apply Forall_app in HDR. destruct HDR as [HP Hc]. pose proof (Forall_inv Hc) as Hc1.
      exists P. split; auto. apply dir_of_render_snoc; auto. }
  destruct ED as [Q [HQ EQ]]. rewrite EQ.
  destruct (mkdir_all_sim cwd (S (length (render true Q))) fs sfs Q HS HQ) as [sfs1 [EM HS1]].
  rewrite EM.
  destruct (mkdir_all (S (length (render true Q))) cwd fs (render true Q)) as [fs1 r1] eqn:EM1.
  cbn [fst snd] in *.
  destruct r1 as [| |op e1|]; cbn [cr]; try (destruct op); try (exists sfs1; split; [reflexivity|exact HS1]).
  pose proof (s_create_render fs1 sfs1 cwd (D ++ R) (snd nd) HS1 HDR) as HC.
  destruct (os_open the_flags cwd fs1 (render true (D ++ R))) as [e|[fs2 h]].
  - rewrite HC. exists sfs1. auto.
  - destruct HC as [sfs2 [EC2 HS2]]. rewrite EC2. exists sfs2. auto.
Qed.

(* THE COINCIDENCE: on link-free states, for a directory named by an absolute string *)
Theorem symlink_model_agrees cwd dir files : forall fs sfs,
  sim fs sfs -> is_abs dir = true ->
  exists sfs', s_write cwd sfs dir files = (sfs', cr (snd (write_gen the_guard the_flags cwd fs dir files))) /\
               sim (fst (write_gen the_guard the_flags cwd fs dir files)) sfs'.
Proof.
  induction files as [|nd rest IH]; intros fs sfs HS Ha; [exists sfs; auto|].
  cbn [s_write write_gen].
  destruct (write_one_sim cwd fs sfs dir nd HS Ha) as [sfs1 [E1 HS1]]. rewrite E1.
  destruct (write_one the_guard the_flags cwd fs dir nd) as [fs1 r1]. cbn [fst snd] in *.
  destruct r1 as [| |op e1|]; cbn [cr]; try (destruct op); try (exists sfs1; split; [reflexivity|exact HS1]).
  apply IH; auto.
Qed.

(* the embedding of a plain state is such a state *)
Lemma sim_emb fs : sim fs (map (fun pn => (fst pn, emb (snd pn))) fs).
Proof.
  intros p. destruct p as [|c p]; [reflexivity|]. simpl sget. simpl get.
  induction fs as [|[q n] fs IH]; [reflexivity|]. simpl.
  destruct q as [|y q']; [exact IH|].
  destruct (bytes_eqb c y && path_eqb p q'); [reflexivity|exact IH].
Qed.

Theorem symlink_model_agrees_write cwd fs sfs dir a :
  sim fs sfs -> is_abs dir = true ->
  exists sfs', s_write cwd sfs dir (files a) = (sfs', cr (snd (write cwd fs dir a))) /\
               sim (fst (write cwd fs dir a)) sfs'.
Proof. intros HS Ha. apply symlink_model_agrees; auto. Qed.

(* NUL bytes: the path a NUL-free string denotes (from a NUL-free current directory) has
   NUL-free elements, and renderings of NUL-free element lists are NUL-free strings. *)
From Coq Require Import List Bool Arith Lia.
From Coq.Strings Require Import Byte.
From GI Require Import Lib.Bytes TxtarWrite.Path TxtarWrite.PathFacts TxtarWrite.TxtarWrite.
Import ListNotations.

Definition nul_free (c : bytes) : Prop := ~ In NUL c.

Lemma mem_byte_not_in b c : ~ In b c -> mem_byte b c = false.
Proof.
  unfold mem_byte. induction c as [|x c IH]; intros H; simpl; auto.
  rewrite IH by (intros HI; apply H; right; auto).
  destruct (beq b x) eqn:E; auto. apply beq_eq in E. exfalso. apply H. left. auto.
Qed.

Lemma mem_byte_in_false b c : mem_byte b c = false -> ~ In b c.
Proof.
  unfold mem_byte. induction c as [|x c IH]; intros H HI; [contradiction|]. simpl in H.
  apply orb_false_iff in H. destruct H as [H1 H2]. destruct HI as [->|HI].
  - rewrite beq_refl in H1. discriminate.
  - apply IH; auto.
Qed.

Lemma mem_byte_app b x y : mem_byte b (x ++ y) = mem_byte b x || mem_byte b y.
Proof. unfold mem_byte. apply existsb_app. Qed.

Lemma has_nul_render' P : Forall nul_free P -> has_nul (render' P) = false.
Proof.
  induction P as [|c P IH]; intros H; [reflexivity|]. inversion H; subst.
  unfold has_nul in *. change (render' (c :: P)) with ((SEP :: c) ++ render' P).
  rewrite mem_byte_app, IH by auto. rewrite orb_false_r.
  change (SEP :: c) with ([SEP] ++ c). rewrite mem_byte_app, (mem_byte_not_in NUL c) by auto.
  reflexivity.
Qed.

Lemma has_nul_render_true P : Forall nul_free P -> has_nul (render true P) = false.
Proof.
  intros H. destruct P as [|c P]; [reflexivity|].
  rewrite render_true by discriminate. apply has_nul_render'. auto.
Qed.

Lemma has_nul_join_sep P : Forall nul_free P -> has_nul (join_sep P) = false.
Proof.
  intros H. destruct P as [|c P]; [reflexivity|]. inversion H; subst.
  destruct P as [|d P]; [apply mem_byte_not_in; auto|].
  rewrite join_sep_cons by discriminate. unfold has_nul. rewrite mem_byte_app.
  rewrite (mem_byte_not_in NUL c) by auto. apply has_nul_render'. auto.
Qed.

Lemma has_nul_render_false P : Forall nul_free P -> has_nul (render false P) = false.
Proof. intros H. destruct P; [reflexivity|]. apply has_nul_join_sep. auto. Qed.

Lemma dotdot_nul_free : nul_free dotdot.
Proof. intros H. simpl in H. destruct H as [H|[H|[]]]; discriminate. Qed.

(* elements of the output of the loop of Clean come from the state or from the input *)
Lemma clean_step_elems r st c x :
  In x (fst (clean_step r st c)) -> In x (fst st) \/ x = c.
Proof.
  destruct st as [out dd]. unfold clean_step. cbn [fst].
  destruct (bytes_eqb c []); [auto|]. destruct (bytes_eqb c dot); [auto|].
  destruct (bytes_eqb c dotdot) eqn:E.
  - apply bytes_eqb_eq in E. subst c. destruct (Nat.ltb dd (length out)).
    + cbn [fst]. intros H. left. destruct out; simpl in *; auto.
    + destruct r; cbn [fst]; [auto|]. intros [H|H]; auto.
  - cbn [fst]. intros [H|H]; auto.
Qed.

Lemma clean_run_elems r cs : forall st x,
  In x (fst (clean_run r cs st)) -> In x (fst st) \/ In x cs.
Proof.
  induction cs as [|c cs IH]; intros st x H; [auto|]. rewrite clean_run_cons in H.
  destruct (IH _ _ H) as [H1|H1]; [|right; right; auto].
  destruct (clean_step_elems _ _ _ _ H1) as [H2|H2]; [auto|right; left; auto].
Qed.

Lemma resolve_elems cwd p x : In x (resolve cwd p) -> In x cwd \/ In x (split_sep p).
Proof.
  unfold resolve. intros H. apply in_rev in H. destruct (clean_run_elems _ _ _ _ H) as [H1|H1]; auto.
  cbn [fst] in H1. destruct (is_abs p); [contradiction|]. left. apply in_rev. auto.
Qed.

Lemma split_sep_incl p : forall c, In c (split_sep p) -> incl c p.
Proof.
  induction p as [|b p IH]; intros c H.
  - simpl in H. destruct H as [<-|[]]. intros x [].
  - simpl in H. destruct (is_sep b).
    + destruct H as [<-|H]; [intros x []|]. intros x Hx. right. apply (IH c H x Hx).
    + destruct (split_sep p) as [|c0 cs] eqn:E.
      * destruct H as [<-|[]]. intros x [->|[]]. left. auto.
      * destruct H as [<-|H].
        -- intros x [->|Hx]; [left; auto|]. right. apply (IH c0 (or_introl eq_refl) x Hx).
        -- intros x Hx. right. apply (IH c (or_intror H) x Hx).
Qed.

(* what a NUL-free string denotes *)
Lemma resolve_nul_free cwd p :
  Forall nul_free cwd -> has_nul p = false -> Forall nul_free (resolve cwd p).
Proof.
  intros Hc Hp. apply Forall_forall. intros x Hx.
  destruct (resolve_elems _ _ _ Hx) as [H|H].
  - rewrite Forall_forall in Hc. auto.
  - intros HN. apply (mem_byte_in_false NUL p Hp). apply (split_sep_incl p x H). exact HN.
Qed.

(* Containment of txtar.Write for ANY directory string (relative ones included), resolved
   against a current directory that exists. *)
From Coq Require Import List Bool Arith Lia.
From Coq.Strings Require Import Byte.
From GI Require Import Lib.Bytes Gen.TxtarWriteConsts Txtar.Txtar
  TxtarWrite.Path TxtarWrite.TxtarWrite TxtarWrite.PathFacts TxtarWrite.WriteFacts
  TxtarWrite.RelFacts.
Import ListNotations.

Lemma ext_weaken_existing (A B : path -> node -> Prop) fs fs' :
  (forall p n, A p n -> get fs p = None -> B p n) -> ext A fs fs' -> ext B fs fs'.
Proof.
  intros HAB H p. destruct (H p) as [E|[N [n [G HA]]]]; [left; auto|].
  right. split; auto. exists n. auto.
Qed.

Lemma dir_exists_ext A fs fs' D : ext A fs fs' -> dir_exists fs D -> dir_exists fs' D.
Proof. intros HE HD p Hp. eapply ext_preserves; eauto. Qed.

Lemma within_removelast_snoc (p Q : path) c : within p Q -> within p (Q ++ [c]).
Proof. intros [r ->]. exists (r ++ [c]). rewrite app_assoc. reflexivity. Qed.

(* MkdirAll(Dir(fp)) for a cleaned path fp: new directories only at prefixes of what fp
   denotes *)
Lemma mkdir_all_dir_of_clean cwd fs q fuel fs1 r1 :
  Forall real cwd -> dir_exists fs cwd ->
  mkdir_all fuel cwd fs (dir_of (clean q)) = (fs1, r1) ->
  ext (fun p n => n = Dir /\ within p (resolve cwd (clean q))) fs fs1.
Proof.
  intros Hcwd Hex H.
  destruct (clean_shape q) as [k [R [HR [H0 E]]]].
  set (F := resolve cwd (clean q)) in *.
  destruct (is_abs q) eqn:Ea.
  - (* absolute *)
    rewrite (H0 eq_refl) in E. simpl app in E. rewrite E in H.
    assert (EF : F = R) by (unfold F; rewrite E; apply resolve_render_true; auto).
    destruct (snoc_cases R) as [->|[Q [c EQ]]].
    + rewrite dir_of_root in H. pose proof (mkdir_all_abs cwd fuel fs [] fs1 r1 (Forall_nil _) H) as HX.
      eapply ext_weaken; [|exact HX]. intros p n [-> Hp]. split; auto. rewrite EF. exact Hp.
    + rewrite EQ in HR, H, EF. apply Forall_app in HR. destruct HR as [HQ Hc]. pose proof (Forall_inv Hc) as Hc1.
      rewrite dir_of_render_snoc in H by auto.
      pose proof (mkdir_all_abs cwd fuel fs Q fs1 r1 HQ H) as HX.
      eapply ext_weaken; [|exact HX]. intros p n [-> Hp]. split; auto. rewrite EF.
      apply within_removelast_snoc. exact Hp.
  - (* relative *)
    set (V := repeat dotdot k ++ R) in *.
    assert (HV : shape V) by (exists k, R; auto).
    assert (EF : F = resolve cwd (render false V)) by (unfold F; rewrite E; reflexivity).
    pose (good := fun p : path => within p cwd \/ within p F).
    pose (S := fun s => exists W, shape W /\ s = render false W /\ good (resolve cwd s)).
    assert (Hcl : forall s, S s -> nonempty (parent_str s) = true -> S (parent_str s)).
    { intros s [W [HW [-> HG]]] HN.
      destruct (snoc_cases' W) as [->|[W' [c EW]]]; [discriminate HN|]. subst W.
      assert (Hce : elem c).
      { pose proof (shape_elems _ HW) as HE. apply Forall_app in HE. apply (Forall_inv (proj2 HE)). }
      assert (ER : render false (W' ++ [c]) = join_sep (W' ++ [c])) by (destruct W'; reflexivity).
      rewrite ER in HN |- *. rewrite parent_str_rel in HN |- * by auto.
      destruct W' as [|w W']; [discriminate HN|].
      assert (HW' : shape (w :: W')).
      { destruct (shape_snoc _ _ HW) as [[_ X]|[_ [j ->]]]; [auto|apply shape_dotdots]. }
      exists (w :: W'). split; auto. split; [reflexivity|].
      change (join_sep (w :: W')) with (render false (w :: W')).
      unfold good. eapply good_down; [exact HW|]. exact HG. }
    assert (HS0 : S (dir_of (clean q))).
    { rewrite E. destruct (snoc_cases' V) as [EV|[W [c EV]]].
      - rewrite EV. change (render false []) with dot. rewrite dir_of_dot.
        exists []. split; [exists 0, []; auto|]. split; [reflexivity|].
        left. change dot with (render false (repeat dotdot 0)). apply resolve_dotdots_within.
      - rewrite EV in *. rewrite dir_of_rel by auto.
        assert (HW : shape W).
        { destruct (shape_snoc _ _ HV) as [[_ X]|[_ [j ->]]]; [auto|apply shape_dotdots]. }
        exists W. split; auto. split; [reflexivity|].
        unfold good. eapply good_down; [exact HV|]. right. rewrite EF. apply within_refl. }
    pose proof (mkdir_all_ext S cwd Hcl fuel fs _ fs1 r1 HS0 H) as HX.
    eapply ext_weaken_existing; [|exact HX].
    intros p n [-> [s' [[W [_ [_ HG]]] ->]]] HN. split; auto.
    destruct HG as [HG|HG]; [|exact HG]. rewrite (Hex _ HG) in HN. discriminate.
Qed.

Lemma join_is_clean dir R : Forall real R -> exists q, join dir (render false R) = clean q.
Proof.
  intros HR. unfold join. destruct dir.
  - destruct (render false R) eqn:E; [|eexists; reflexivity].
    exfalso. destruct R as [|c [|d R]]; simpl in E; try discriminate.
    + inversion HR; subst. destruct H1 as [H1 _]. contradiction.
    + destruct c; [inversion HR; subst; destruct H1 as [H1 _]; contradiction|discriminate].
  - eexists; reflexivity.
Qed.

Lemma write_one_ext_any g fl cwd fs dir nd fs' r :
  guards g -> excl fl -> Forall real cwd -> dir_exists fs cwd ->
  write_one g fl cwd fs dir nd = (fs', r) ->
  ext (allowed (resolve cwd dir)) fs fs'.
Proof.
  intros Hg Hx Hcwd Hex H. unfold write_one in H.
  destruct (rejected g (clean (from_slash (fst nd)))) eqn:ER.
  { inversion H. apply ext_refl. }
  destruct (not_rejected _ _ Hg ER) as [N1 [N2 N3]].
  destruct (clean_passes_guard _ N1 N2 N3) as [R [HR EC]].
  rewrite EC in H.
  set (D := resolve cwd dir) in *.
  assert (EF : resolve cwd (join dir (render false R)) = D ++ R) by (apply resolve_join; auto).
  destruct (join_is_clean dir R HR) as [q Eq]. rewrite Eq in H, EF.
  match type of H with context [mkdir_all ?f cwd fs ?s] =>
    destruct (mkdir_all f cwd fs s) as [fs1 r1] eqn:EM end.
  pose proof (mkdir_all_dir_of_clean _ _ _ _ _ _ Hcwd Hex EM) as H1. rewrite EF in H1.
  assert (H1' : ext (allowed D) fs fs1).
  { eapply ext_weaken; [|exact H1]. intros p n [-> Hp]. unfold allowed.
    destruct (within_app_cases p D R Hp) as [Hc|Hc]; auto. }
  destruct r1; try (inversion H; subst; exact H1').
  destruct (os_open fl cwd fs1 (clean q)) as [e|[fs2 h]] eqn:EO.
  { inversion H; subst. exact H1'. }
  destruct (os_open_excl _ _ _ _ _ _ Hx EO) as [Eh [HN E2]].
  rewrite EF in Eh.
  subst fs2. rewrite os_write_new in H by (eapply get_none_nonroot; eauto).
  inversion H; subst. eapply ext_trans; [exact H1'|].
  apply ext_create; auto. left. exists R. reflexivity.
Qed.

Theorem write_gen_contained_any g fl cwd fs dir files fs' r :
  guards g -> excl fl -> Forall real cwd -> dir_exists fs cwd ->
  write_gen g fl cwd fs dir files = (fs', r) ->
  ext (allowed (resolve cwd dir)) fs fs'.
Proof.
  intros Hg Hx Hcwd. revert fs. induction files as [|nd rest IH]; intros fs Hex H; simpl in H.
  - inversion H. apply ext_refl.
  - destruct (write_one g fl cwd fs dir nd) as [fs1 r1] eqn:E1.
    pose proof (write_one_ext_any _ _ _ _ _ _ _ _ Hg Hx Hcwd Hex E1) as H1.
    destruct r1; try (inversion H; subst; exact H1).
    eapply ext_trans; [exact H1|]. apply IH; [|exact H]. eapply dir_exists_ext; eauto.
Qed.

(* the current directory exists (with everything above it) and is a list of real elements *)
Theorem write_contained_any_dir cwd fs dir a fs' r :
  Forall real cwd -> dir_exists fs cwd -> write cwd fs dir a = (fs', r) ->
  forall p, get fs' p <> get fs p ->
    get fs p = None /\
    (within (resolve cwd dir) p \/ (get fs' p = Some Dir /\ within p (resolve cwd dir))).
Proof.
  intros Hcwd Hex H p Hc.
  pose proof (write_gen_contained_any _ _ _ _ _ _ _ _ the_guard_guards the_flags_excl Hcwd Hex H) as HE.
  destruct (ext_changed _ _ _ _ HE Hc) as [HN [n [HG [HA|[-> HA]]]]]; auto.
Qed.

Theorem write_contained_any_dir_strict cwd fs dir a fs' r :
  Forall real cwd -> dir_exists fs cwd -> dir_exists fs (resolve cwd dir) ->
  write cwd fs dir a = (fs', r) ->
  forall p, get fs' p <> get fs p -> get fs p = None /\ beneath (resolve cwd dir) p.
Proof.
  intros Hcwd Hex HD H p Hc.
  destruct (write_contained_any_dir _ _ _ _ _ _ Hcwd Hex H p Hc) as [HN [[q Eq]|[_ HW]]].
  - split; auto. destruct q as [|c q].
    + rewrite app_nil_r in Eq. subst p. rewrite (HD _ (within_refl _)) in HN. discriminate.
    + exists c, q. exact Eq.
  - rewrite (HD _ HW) in HN. discriminate.
Qed.

(* Gen/TxtarWriteSrc.v is the pure part of txtar.Write (txtar/archive.go) translated to Gallina
   by harness/go2coq on every run: the function isAbs, and the statements of the loop body of
   Write in front of its first file-system call (os.MkdirAll) -- the cleaned name, the
   outside-directory guard, the joined path.  This file proves, for every directory string and
   every archive entry, that the translated statements never panic and decide and compute
   exactly what the first lines of the model's write_one do: they return the error iff the
   model's guard [rejected the_guard] rejects the cleaned name, and otherwise hand on the path
   [join dir (clean (from_slash name))].  The file-system part of Write (MkdirAll, OpenFile,
   Write, Close) and the loop over the entries stay hand-modelled (write_one, write_gen). *)
From Coq Require Import List Bool Arith ZArith Lia.
From Coq.Strings Require Import Byte.
From GI Require Import Lib.Bytes Lib.BytesFacts Lib.GoSem Gen.TxtarWriteConsts Txtar.Txtar
  TxtarWrite.Path TxtarWrite.PathFacts TxtarWrite.TxtarWrite TxtarWrite.WriteFacts TxtarWrite.SrcLib Gen.TxtarWriteSrc.
Import ListNotations.

(* isAbs: filepath.IsAbs(p) || strings.HasPrefix(p, "/") is the model's is_abs *)
Theorem src_isAbs_eq p : src_isAbs p = Ok (is_abs p).
Proof.
  unfold src_isAbs, go_filepath_IsAbs, go_bytes_HasPrefix, is_abs. f_equal.
  destruct p as [|b r]; [reflexivity|]. cbn [has_prefix]. unfold is_sep, SEP.
  rewrite andb_true_r, (beq_sym x2f b). apply orb_diag.
Qed.

(* the guard as translated is the model's guard read from the regenerated constants *)
Lemma src_guard_eq fp :
  (is_abs fp || bytes_eqb fp [x2e; x2e] || go_bytes_HasPrefix fp [x2e; x2e; x2f]) = rejected the_guard fp.
Proof.
  unfold rejected, the_guard, go_bytes_HasPrefix. cbn [g_abs g_exact g_prefix].
  unfold write_guard_abs, write_guard_exact, write_guard_prefix. cbn [existsb andb]. now rewrite !orb_false_r.
Qed.

(* what the statements in front of os.MkdirAll hand on *)
Definition guard_outcome (dir : bytes) (nd : bytes * bytes) : outcome bytes unit bool :=
  let fp := clean (from_slash (fst nd)) in
  if rejected the_guard fp then Return true else Normal (join dir fp).

Theorem src_Write_guard_eq dir nd :
  src_Write_before_os_MkdirAll dir nd = Ok (guard_outcome dir nd).
Proof.
  unfold src_Write_before_os_MkdirAll, guard_outcome, go_filepath_Clean, go_filepath_FromSlash, go_filepath_Join.
  rewrite src_isAbs_eq. cbn [bind]. rewrite src_guard_eq.
  destruct (rejected the_guard (clean (from_slash (fst nd)))); reflexivity.
Qed.

(* the model's write_one starts with exactly that decision: error "outside parent directory"
   without touching the file system, or the rest of the body run on the joined path *)
Theorem write_one_after_guard fl cwd fs dir nd :
  match guard_outcome dir nd with
  | Return _ => write_one the_guard fl cwd fs dir nd = (fs, WOutside)
  | Normal fp =>
      fp = join dir (clean (from_slash (fst nd))) /\
      write_one the_guard fl cwd fs dir nd =
        (let d := dir_of fp in
         match mkdir_all (S (length d)) cwd fs d with
         | (fs1, WOk) =>
             match os_open fl cwd fs1 fp with
             | inl e => (fs1, WErr OpOpen e)
             | inr (fs2, h) => (os_write fl fs2 h (snd nd), WOk)
             end
         | (fs1, r) => (fs1, r)
         end)
  | _ => False
  end.
Proof.
  unfold guard_outcome, write_one. destruct (rejected the_guard (clean (from_slash (fst nd)))); [reflexivity|].
  split; reflexivity.
Qed.

(* stated on the translated statements: they return the error exactly for the names the property
   excludes, and a name they let through contains no ".." element after cleaning *)
Theorem src_Write_guard_rejects dir nd :
  src_Write_before_os_MkdirAll dir nd = Ok (Return true) <->
  (is_abs (clean (fst nd)) = true \/ clean (fst nd) = dotdot \/ has_prefix dotdot_sep (clean (fst nd)) = true).
Proof.
  rewrite src_Write_guard_eq. unfold guard_outcome, from_slash. rewrite <- src_guard_eq.
  unfold go_bytes_HasPrefix. change [x2e; x2e] with dotdot. change [x2e; x2e; x2f] with dotdot_sep.
  destruct (is_abs (clean (fst nd))) eqn:Ea, (bytes_eqb (clean (fst nd)) dotdot) eqn:Ed,
    (has_prefix dotdot_sep (clean (fst nd))) eqn:Ep; cbn [orb];
    try (apply bytes_eqb_eq in Ed);
    (split; [intros H; try discriminate H; tauto|]).
  all: try (intros _; reflexivity).
  intros [H|[H|H]]; try discriminate H. apply bytes_eqb_eq in H. congruence.
Qed.

Theorem src_Write_guard_passes dir nd fp :
  src_Write_before_os_MkdirAll dir nd = Ok (Normal fp) ->
  fp = join dir (clean (fst nd)) /\ exists R, Forall real R /\ clean (fst nd) = render false R.
Proof.
  rewrite src_Write_guard_eq. unfold guard_outcome, from_slash. rewrite <- src_guard_eq.
  unfold go_bytes_HasPrefix. change [x2e; x2e] with dotdot. change [x2e; x2e; x2f] with dotdot_sep.
  destruct (is_abs (clean (fst nd))) eqn:Ea; [discriminate|].
  destruct (bytes_eqb (clean (fst nd)) dotdot) eqn:Ed; [discriminate|].
  destruct (has_prefix dotdot_sep (clean (fst nd))) eqn:Ep; [discriminate|]. cbn [orb].
  intros [= <-]. split; [reflexivity|]. apply clean_passes_guard; [exact Ea| |exact Ep].
  intros H. rewrite H, bytes_eqb_refl in Ed. discriminate.
Qed.

(* Examples *)
Example ex_src_guard :
  src_Write_before_os_MkdirAll [x64] ([x61; x2f; x2e; x2e; x2f; x62], []) = Ok (Normal [x64; x2f; x62])
  /\ src_Write_before_os_MkdirAll [x64] ([x61; x2f; x2e; x2e; x2f; x2e; x2e], []) = Ok (Return true)
  /\ src_Write_before_os_MkdirAll [x64] ([x2f; x61], []) = Ok (Return true)
  /\ go_filepath_Join [[x61]] = Panic.
Proof. vm_compute. repeat split; reflexivity. Qed.

(* A variant of the file-system model WITH symbolic links, and txtar.Write over it.
   Definitions only.  It exists to state precisely what Write does when the target
   directory already contains a symbolic link (out of the scope of the containment
   theorems, which are about a file system without links): the path names Write builds are
   purely lexical (Clean, Join), and the kernel follows links in every directory component
   of a path name.

   Kernel rules modelled (path_resolution(7), open(2), mkdir(2)):
   - every component but the last: a link is followed (its target resolved from the
     directory containing the link, or from the root when absolute); ".." is the parent of
     the physical directory reached so far;
   - stat follows a link in the last component; mkdir does not (EEXIST);
     open with O_CREAT|O_EXCL does not (EEXIST, even for a dangling link);
   - more than [link_fuel] links in one resolution: ELOOP. *)
From Coq Require Import List Bool Arith NArith.
From Coq.Strings Require Import Byte.
From GI Require Import Lib.Bytes Gen.TxtarWriteConsts Txtar.Txtar TxtarWrite.Path TxtarWrite.TxtarWrite.
Import ListNotations.

Inductive snode := SFile (data : bytes) | SDir | SLink (target : bytes).
Definition sfsys := list (path * snode).

Fixpoint sassoc (p : path) (fs : sfsys) : option snode :=
  match fs with
  | [] => None
  | (q, n) :: r => if path_eqb p q then Some n else sassoc p r
  end.
Definition sget (fs : sfsys) (p : path) : option snode :=
  match p with [] => Some SDir | _ => sassoc p fs end.

Inductive serrno := S_EEXIST | S_ENOENT | S_ENOTDIR | S_ELOOP | S_EINVAL.

Definition link_fuel : nat := 40.

(* walk the components [cs] from the physical directory [cur].  [last_follow]: follow a
   link in the final component.  [steps] bounds the total work (components processed plus
   links followed).  Result: the physical path of the final object, which may not exist
   (its parent does and is a directory). *)
Fixpoint swalk (steps : nat) (fs : sfsys) (cur : path) (cs : list bytes) (last_follow : bool)
  : serrno + path :=
  match steps with
  | 0 => inl S_ELOOP
  | S st =>
      match cs with
      | [] => inr cur
      | c :: rest =>
          if bytes_eqb c [] || bytes_eqb c dot then swalk st fs cur rest last_follow
          else if bytes_eqb c dotdot then swalk st fs (removelast cur) rest last_follow
          else
            let here := cur ++ [c] in
            let is_last := match rest with [] => true | _ => false end in
            match sget fs here with
            | None => if is_last then inr here else inl S_ENOENT
            | Some (SFile _) => if is_last then inr here else inl S_ENOTDIR
            | Some SDir => swalk st fs here rest last_follow
            | Some (SLink t) =>
                if is_last && negb last_follow then inr here
                else
                  (* the link's target, then the remaining components *)
                  swalk st fs (if is_abs t then [] else cur) (split_sep t ++ rest) last_follow
            end
      end
  end.

Definition slookup (cwd : path) (fs : sfsys) (s : bytes) (last_follow : bool) : serrno + path :=
  if has_nul s then inl S_EINVAL
  else match s with
       | [] => inl S_ENOENT
       | _ => swalk (S (length s) * S link_fuel) fs (if is_abs s then [] else cwd) (split_sep s) last_follow
       end.

Definition s_stat (cwd : path) (fs : sfsys) (s : bytes) : serrno + snode :=
  match slookup cwd fs s true with
  | inl e => inl e
  | inr P => match sget fs P with
             | Some (SLink _) => inl S_ELOOP      (* not reached: the walk followed it *)
             | Some n => inr n
             | None => inl S_ENOENT
             end
  end.

Definition s_mkdir (cwd : path) (fs : sfsys) (s : bytes) : sfsys * option serrno :=
  match slookup cwd fs s false with
  | inl e => (fs, Some e)
  | inr P => match sget fs P with
             | Some _ => (fs, Some S_EEXIST)
             | None => ((P, SDir) :: fs, None)
             end
  end.

(* open(path, O_WRONLY|O_CREAT|O_EXCL) then write data, close *)
Definition s_create_excl (cwd : path) (fs : sfsys) (s : bytes) (data : bytes) : sfsys * option serrno :=
  match slookup cwd fs s false with
  | inl e => (fs, Some e)
  | inr P => match sget fs P with
             | Some _ => (fs, Some S_EEXIST)
             | None => ((P, SFile data) :: fs, None)
             end
  end.

Inductive swres := SOk | SOutside | SErrMkdir (e : serrno) | SErrOpen (e : serrno) | SOutOfFuel.

Fixpoint s_mkdir_all (fuel : nat) (cwd : path) (fs : sfsys) (s : bytes) : sfsys * swres :=
  match fuel with
  | 0 => (fs, SOutOfFuel)
  | S f =>
      match s_stat cwd fs s with
      | inr SDir => (fs, SOk)
      | inr _ => (fs, SErrMkdir S_ENOTDIR)
      | inl _ =>
          let par := parent_str s in
          let '(fs1, r1) := if nonempty par then s_mkdir_all f cwd fs par else (fs, SOk) in
          match r1 with
          | SOk =>
              match s_mkdir cwd fs1 s with
              | (fs2, None) => (fs2, SOk)
              | (fs2, Some e) =>
                  (* Lstat: a directory itself, not a link to one *)
                  match slookup cwd fs2 s false with
                  | inr P => match sget fs2 P with
                             | Some SDir => (fs2, SOk)
                             | _ => (fs2, SErrMkdir e)
                             end
                  | inl _ => (fs2, SErrMkdir e)
                  end
              end
          | r => (fs1, r)
          end
      end
  end.

(* txtar.Write with the guard of the current source; the open flags are O_CREAT|O_EXCL
   (checked against the regenerated constants in SymlinkFacts.v) *)
Definition s_write_one (cwd : path) (fs : sfsys) (dir : bytes) (nd : bytes * bytes) : sfsys * swres :=
  let fp := clean (from_slash (fst nd)) in
  if rejected the_guard fp then (fs, SOutside)
  else
    let fp := join dir fp in
    let d := dir_of fp in
    match s_mkdir_all (S (length d)) cwd fs d with
    | (fs1, SOk) =>
        match s_create_excl cwd fs1 fp (snd nd) with
        | (fs2, None) => (fs2, SOk)
        | (fs2, Some e) => (fs2, SErrOpen e)
        end
    | (fs1, r) => (fs1, r)
    end.

Fixpoint s_write (cwd : path) (fs : sfsys) (dir : bytes) (files : list (bytes * bytes)) : sfsys * swres :=
  match files with
  | [] => (fs, SOk)
  | nd :: rest =>
      match s_write_one cwd fs dir nd with
      | (fs1, SOk) => s_write cwd fs1 dir rest
      | r => r
      end
  end.

(* What txtar.Write does when the target directory already contains a symbolic link
   (model Symlink.v).  The containment statement of C15 is REFUTED in that setting: a link
   inside the directory that points outside lets an entry "link/x" create a file outside.
   What survives: nothing that exists is ever modified (O_CREAT|O_EXCL and mkdir only
   create), and a link in the LAST component is never followed (EEXIST). *)
From Coq Require Import List Bool Arith Lia String.
From Coq.Strings Require Import Byte.
From GI Require Import Lib.Bytes Gen.TxtarWriteConsts Txtar.Txtar TxtarWrite.Path TxtarWrite.TxtarWrite
  TxtarWrite.PathFacts TxtarWrite.WriteFacts TxtarWrite.Symlink.
Import ListNotations.

(* the model hard-wires O_CREAT|O_EXCL; this is where it is tied to the regenerated flags *)
Lemma symlink_model_flags : o_create the_flags && o_excl the_flags = true.
Proof. reflexivity. Qed.

Definition Bs (x : string) : bytes := list_byte_of_string x.

(* /s/t is the target; it contains links to a directory outside (relative and absolute),
   a dangling link, a link to a file outside and a link to itself *)
Definition sl_fs : sfsys :=
  [([Bs "s"], SDir); ([Bs "s"; Bs "t"], SDir); ([Bs "s"; Bs "out"], SDir);
   ([Bs "s"; Bs "sib"], SFile (Bs "sibling"));
   ([Bs "s"; Bs "t"; Bs "link"], SLink (Bs "../out"));
   ([Bs "s"; Bs "t"; Bs "abs"], SLink (Bs "/s/out"));
   ([Bs "s"; Bs "t"; Bs "dangling"], SLink (Bs "nowhere"));
   ([Bs "s"; Bs "t"; Bs "lf"], SLink (Bs "../sib"));
   ([Bs "s"; Bs "t"; Bs "loop"], SLink (Bs "loop"))].

Example symlink_escape :
  s_write [] sl_fs (Bs "/s/t") [(Bs "link/x", Bs "DATA")]
  = (([Bs "s"; Bs "out"; Bs "x"], SFile (Bs "DATA")) :: sl_fs, SOk).
Proof. vm_compute. reflexivity. Qed.

Example symlink_escape_abs_and_deep :
  s_write [] sl_fs (Bs "/s/t") [(Bs "abs/sub/y", Bs "D2")]
  = (([Bs "s"; Bs "out"; Bs "sub"; Bs "y"], SFile (Bs "D2")) :: ([Bs "s"; Bs "out"; Bs "sub"], SDir) :: sl_fs, SOk).
Proof. vm_compute. reflexivity. Qed.

(* a link in the last component is not followed: the file it points to is not touched *)
Example symlink_last_component :
  map (fun n => s_write [] sl_fs (Bs "/s/t") [(Bs n, Bs "X")])
      ["lf"; "link"; "dangling"; "dangling/z"; "lf/x"; "loop/x"]%string
  = [(sl_fs, SErrOpen S_EEXIST); (sl_fs, SErrOpen S_EEXIST); (sl_fs, SErrOpen S_EEXIST);
     (sl_fs, SErrMkdir S_EEXIST); (sl_fs, SErrMkdir S_ENOTDIR); (sl_fs, SErrMkdir S_EEXIST)].
Proof. vm_compute. reflexivity. Qed.

Definition sl_link_name : bytes := Bs "link".
Definition sl_link_target : bytes := Bs "../out".

(* CONTAINMENT IS REFUTED when the directory contains a link that leads outside *)
Theorem symlink_containment_refuted :
  exists fs dir files fs' p,
    sget fs (resolve [] dir ++ [sl_link_name]) = Some (SLink sl_link_target) /\
    s_write [] fs dir files = (fs', SOk) /\
    sget fs p = None /\ sget fs' p <> None /\ ~ within (resolve [] dir) p.
Proof.
  exists sl_fs, (Bs "/s/t"), [(Bs "link/x", Bs "DATA")],
         (([Bs "s"; Bs "out"; Bs "x"], SFile (Bs "DATA")) :: sl_fs), [Bs "s"; Bs "out"; Bs "x"].
  split; [reflexivity|]. split; [apply symlink_escape|]. split; [reflexivity|].
  split; [discriminate|]. intros [q E]. vm_compute in E. inversion E.
Qed.

(* ------------------------------------------------------------------ what survives *)

Lemma sget_cons P n fs p :
  P <> [] -> sget ((P, n) :: fs) p = if path_eqb p P then Some n else sget fs p.
Proof.
  intros HP. destruct p as [|c p]; [destruct P; [contradiction|reflexivity]|reflexivity].
Qed.

Definition spreserves (fs fs' : sfsys) : Prop := forall p x, sget fs p = Some x -> sget fs' p = Some x.

Lemma spreserves_refl fs : spreserves fs fs.
Proof. intros p x H. exact H. Qed.

Lemma spreserves_trans a b c : spreserves a b -> spreserves b c -> spreserves a c.
Proof. intros H1 H2 p x H. auto. Qed.

Lemma spreserves_new fs P n : sget fs P = None -> spreserves fs ((P, n) :: fs).
Proof.
  intros HN p x H. assert (HP : P <> []) by (intros E; subst; discriminate).
  rewrite sget_cons by auto. destruct (path_eqb p P) eqn:E; [|exact H].
  apply path_eqb_eq in E. subst. congruence.
Qed.

Lemma s_mkdir_preserves cwd fs s fs' r : s_mkdir cwd fs s = (fs', r) -> spreserves fs fs'.
Proof.
  unfold s_mkdir. destruct (slookup cwd fs s false) as [e|P]; [intros H; inversion H; apply spreserves_refl|].
  destruct (sget fs P) eqn:E; intros H; inversion H; subst; [apply spreserves_refl|apply spreserves_new; auto].
Qed.

Lemma s_create_preserves cwd fs s d fs' r : s_create_excl cwd fs s d = (fs', r) -> spreserves fs fs'.
Proof.
  unfold s_create_excl. destruct (slookup cwd fs s false) as [e|P]; [intros H; inversion H; apply spreserves_refl|].
  destruct (sget fs P) eqn:E; intros H; inversion H; subst; [apply spreserves_refl|apply spreserves_new; auto].
Qed.

Lemma s_mkdir_all_preserves cwd : forall f fs s fs' r, s_mkdir_all f cwd fs s = (fs', r) -> spreserves fs fs'.
Proof.
  induction f as [|f IH]; intros fs s fs' r H; simpl in H; [inversion H; apply spreserves_refl|].
  destruct (s_stat cwd fs s) as [e|[d| |t]]; try (inversion H; apply spreserves_refl).
  destruct (nonempty (parent_str s)).
  - destruct (s_mkdir_all f cwd fs (parent_str s)) as [fs1 r1] eqn:EM.
    pose proof (IH _ _ _ _ EM) as H1.
    destruct r1; try (inversion H; subst; exact H1).
    destruct (s_mkdir cwd fs1 s) as [fs2 [e2|]] eqn:EK; pose proof (s_mkdir_preserves _ _ _ _ _ EK) as H2.
    + assert (spreserves fs fs2) by (eapply spreserves_trans; eauto).
      destruct (slookup cwd fs2 s false) as [?|P]; [inversion H; subst; auto|].
      destruct (sget fs2 P) as [[?| |?]|]; inversion H; subst; auto.
    + inversion H; subst. eapply spreserves_trans; eauto.
  - destruct (s_mkdir cwd fs s) as [fs2 [e2|]] eqn:EK; pose proof (s_mkdir_preserves _ _ _ _ _ EK) as H2.
    + destruct (slookup cwd fs2 s false) as [?|P]; [inversion H; subst; auto|].
      destruct (sget fs2 P) as [[?| |?]|]; inversion H; subst; auto.
    + inversion H; subst. auto.
Qed.

Lemma s_write_one_preserves cwd fs dir nd fs' r : s_write_one cwd fs dir nd = (fs', r) -> spreserves fs fs'.
Proof.
  unfold s_write_one. destruct (rejected the_guard (clean (from_slash (fst nd)))); [intros H; inversion H; apply spreserves_refl|].
  match goal with |- context [s_mkdir_all ?f cwd fs ?s] => destruct (s_mkdir_all f cwd fs s) as [fs1 r1] eqn:EM end.
  pose proof (s_mkdir_all_preserves _ _ _ _ _ _ EM) as H1.
  destruct r1; try (intros H; inversion H; subst; exact H1).
  match goal with |- context [s_create_excl cwd fs1 ?s ?d] => destruct (s_create_excl cwd fs1 s d) as [fs2 [e|]] eqn:EC end;
    pose proof (s_create_preserves _ _ _ _ _ _ EC) as H2; intros H; inversion H; subst; eapply spreserves_trans; eauto.
Qed.

(* even with symbolic links in the way, nothing that exists (file, directory or link) is
   ever changed: Write only creates *)
Theorem symlink_never_overwrites cwd dir files : forall fs fs' r,
  s_write cwd fs dir files = (fs', r) -> forall p x, sget fs p = Some x -> sget fs' p = Some x.
Proof.
  induction files as [|nd rest IH]; intros fs fs' r H; simpl in H; [inversion H; apply spreserves_refl|].
  destruct (s_write_one cwd fs dir nd) as [fs1 r1] eqn:E1.
  pose proof (s_write_one_preserves _ _ _ _ _ _ E1) as H1.
  destruct r1; try (inversion H; subst; exact H1).
  eapply spreserves_trans; [exact H1|]. exact (IH _ _ _ H).
Qed.

(* The command-line layer of cmd/txtar-x and cmd/txtar-c: package flag's parsing of the
   argument list (FlagSet.parseOne, as far as these two commands use it: string and
   boolean flags, "-x", "--x", "-x=v", "-x v", the terminator "--"), the choice between the
   file argument and standard input, and how much of standard input is read.
   Definitions only; CliFacts.v has the proofs.

   From Gen/TxtarWriteConsts.v: the names and defaults of the flags, the numbers of
   positional arguments, and extract_stdin_limit (None = io.ReadAll(os.Stdin)). *)
From Coq Require Import List Bool Arith NArith.
From Coq.Strings Require Import Byte.
From GI Require Import Lib.Bytes Gen.TxtarWriteConsts Txtar.Txtar TxtarWrite.Path TxtarWrite.TxtarWrite.
Import ListNotations.

Definition DASH : byte := x2d.
Definition EQS : byte := x3d.

(* ------------------------------------------------------------------ package flag *)

Inductive fkind := FKBool | FKString.
Definition flagset := list (bytes * fkind).

Fixpoint flag_lookup {A} (name : bytes) (l : list (bytes * A)) : option A :=
  match l with
  | [] => None
  | (n, k) :: r => if bytes_eqb name n then Some k else flag_lookup name r
  end.

(* strconv.ParseBool *)
Definition parse_bool (s : bytes) : option bool :=
  if existsb (bytes_eqb s) [[x31]; [x74]; [x54]; [x54; x52; x55; x45]; [x74; x72; x75; x65]; [x54; x72; x75; x65]]
  then Some true
  else if existsb (bytes_eqb s) [[x30]; [x66]; [x46]; [x46; x41; x4c; x53; x45]; [x66; x61; x6c; x73; x65]; [x46; x61; x6c; x73; x65]]
  then Some false
  else None.

(* name[=value]: the split at the first '=' after the first byte *)
Fixpoint split_eq (s : bytes) : bytes * option bytes :=
  match s with
  | [] => ([], None)
  | b :: r => if beq b EQS then ([], Some r)
              else let '(n, v) := split_eq r in (b :: n, v)
  end.
Definition name_value (s : bytes) : bytes * option bytes :=
  match s with
  | [] => ([], None)
  | b :: r => let '(n, v) := split_eq r in (b :: n, v)
  end.

Inductive parsed := PUsage | POk (vals : list (bytes * bytes)) (rest : list bytes).

(* FlagSet.Parse with ExitOnError: the values set (most recent first; booleans as "true" /
   "false") and the remaining positional arguments, or the usage exit *)
Fixpoint parse_flags (fset : flagset) (args : list bytes) (vals : list (bytes * bytes)) : parsed :=
  match args with
  | [] => POk vals []
  | s :: rest =>
      match s with
      | b0 :: b1 :: more =>
          if negb (beq b0 DASH) then POk vals args
          else
            let body := if beq b1 DASH then more else b1 :: more in
            if beq b1 DASH && (match more with [] => true | _ => false end) then POk vals rest
            else
              match body with
              | [] => PUsage
              | c :: _ =>
                  if beq c DASH || beq c EQS then PUsage
                  else
                    let '(name, value) := name_value body in
                    match flag_lookup name fset with
                    | None => PUsage
                    | Some FKBool =>
                        match value with
                        | None => parse_flags fset rest ((name, [x74; x72; x75; x65]) :: vals)
                        | Some v => match parse_bool v with
                                    | Some true => parse_flags fset rest ((name, [x74; x72; x75; x65]) :: vals)
                                    | Some false => parse_flags fset rest ((name, [x66; x61; x6c; x73; x65]) :: vals)
                                    | None => PUsage
                                    end
                        end
                    | Some FKString =>
                        match value with
                        | Some v => parse_flags fset rest ((name, v) :: vals)
                        | None => match rest with
                                  | v :: rest' => parse_flags fset rest' ((name, v) :: vals)
                                  | [] => PUsage
                                  end
                        end
                    end
              end
      | _ => POk vals args
      end
  end.

(* ------------------------------------------------------------------ cmd/txtar-x *)

Inductive xinput := XStdin | XFile (name : bytes).
Inductive xcmd := XUsage | XRun (dir : bytes) (inp : xinput).

Definition x_flagset : flagset := [(extract_dir_flag, FKString)].

Definition x_cmdline (args : list bytes) : xcmd :=
  match parse_flags x_flagset args [] with
  | PUsage => XUsage
  | POk vals rest =>
      let dir := match flag_lookup extract_dir_flag vals with Some d => d | None => extract_dir_default end in
      if N.ltb extract_max_args (N.of_nat (length rest)) then XUsage
      else match rest with
           | [] => XRun dir XStdin
           | f :: _ => XRun dir (XFile f)
           end
  end.

(* what main reads from standard input *)
Definition read_stdin (limit : option N) (stdin : bytes) : bytes :=
  match limit with
  | None => stdin
  | Some n => firstn (N.to_nat n) stdin
  end.

(* os.ReadFile *)
Definition os_read_file (cwd : path) (fs : fsys) (s : bytes) : errno + bytes :=
  match lookup_path cwd fs s with
  | inl e => inl e
  | inr P => match get fs P with
             | Some (File d) => inr d
             | Some Dir => inl EISDIR
             | None => inl ENOENT
             end
  end.

Inductive xres := XR (r : wres) | XReadErr (e : errno) | XUsageExit.

(* main of txtar-x on an argument list, standard input and a file system *)
Definition txtar_x_run (cwd : path) (fs : fsys) (dir : bytes) (inp : xinput) (stdin : bytes) : fsys * xres :=
  match inp with
  | XStdin => let '(fs', r) := extract cwd fs dir (read_stdin extract_stdin_limit stdin) in (fs', XR r)
  | XFile f =>
      match os_read_file cwd fs f with
      | inl e => (fs, XReadErr e)
      | inr d => let '(fs', r) := extract cwd fs dir d in (fs', XR r)
      end
  end.

Definition txtar_x_main (cwd : path) (fs : fsys) (args : list bytes) (stdin : bytes) : fsys * xres :=
  match x_cmdline args with
  | XUsage => (fs, XUsageExit)
  | XRun dir inp => txtar_x_run cwd fs dir inp stdin
  end.

(* ------------------------------------------------------------------ cmd/txtar-c *)

Inductive ccmd := CUsage | CRun (fl : sflags) (dir : bytes).

Definition c_flagset : flagset := [(savedir_quote_flag, FKBool); (savedir_all_flag, FKBool)].

Definition flag_true (name : bytes) (vals : list (bytes * bytes)) : bool :=
  match flag_lookup name vals with
  | Some v => bytes_eqb v [x74; x72; x75; x65]
  | None => false
  end.

Definition c_cmdline (args : list bytes) : ccmd :=
  match parse_flags c_flagset args [] with
  | PUsage => CUsage
  | POk vals rest =>
      if N.eqb (N.of_nat (length rest)) savedir_nargs then
        match rest with
        | d :: _ => CRun {| f_quote := flag_true savedir_quote_flag vals; f_all := flag_true savedir_all_flag vals |} d
        | [] => CUsage
        end
      else CUsage
  end.

(* main of txtar-c: the bytes printed for the tree found at the directory argument *)
Definition txtar_c_main (args : list bytes) (t : tree) : option bytes :=
  match c_cmdline args with
  | CUsage => None
  | CRun fl _ => Some (txtar_c fl t)
  end.

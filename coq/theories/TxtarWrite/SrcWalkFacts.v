(* The txtar-c / txtar-x round trip on the TRANSLATED pieces (C15): the walk function of txtar-c as
   translated from cmd/txtar-c/savedir.go (Gen/TxtarWriteWorldSrc.v), called by the hand-modelled
   filepath.Walk (SrcWalk.walk_root) over a tree, builds exactly the model's archive
   [savedir_tree]; and what txtar.Write as translated from txtar/archive.go does with the parsed
   bytes of that archive is the model's extraction.  Hence the round-trip theorem
   (SavedirFacts.savedir_extract) holds of the translated functions.

   What stays hand-modelled here: filepath.Walk itself (SrcWalk.v: which calls, in which order,
   what it does with SkipDir), flag parsing and the glue of the two main functions (Cli.v),
   txtar.Format (x/tools), and the file system the functions run over (TxtarWrite.v). *)
From Coq Require Import List Bool Arith NArith ZArith Lia Sorted Permutation.
From Coq.Strings Require Import Byte.
From GI Require Import Lib.Bytes Lib.BytesFacts Lib.GoSem Lib.GoSemWorld Gen.TxtarWriteConsts Txtar.Txtar
  TxtarWrite.Path TxtarWrite.PathFacts TxtarWrite.TxtarWrite TxtarWrite.WriteFacts TxtarWrite.RelFacts
  TxtarWrite.NulFacts TxtarWrite.GoodWrite TxtarWrite.NameFacts TxtarWrite.SortFacts TxtarWrite.WalkFacts TxtarWrite.SavedirFacts
  TxtarWrite.Cli TxtarWrite.SrcLib TxtarWrite.SrcWorld Gen.TxtarWriteWorldSrc TxtarWrite.SrcWorldFacts
  TxtarWrite.SrcWalk.
Import ListNotations.

(* ------------------------------------------------------------------ names *)

Lemma real_nonempty c : real c -> c <> [].
Proof. intros [H _]. exact H. Qed.

Lemma join_sep_nonempty c p : real c -> join_sep (c :: p) <> [].
Proof.
  intros Hc. destruct (join_sep_head c p Hc) as [b [t [E _]]]. rewrite E. discriminate.
Qed.

Lemma join_sep_real_not_dot p : p <> [] -> Forall real p -> join_sep p <> dot.
Proof.
  intros Hne Hp. destruct p as [|c p]; [contradiction|]. inversion Hp as [|? ? Hc Hr]; subst.
  destruct p as [|c' p].
  - cbn [join_sep]. destruct Hc as [_ [Hd _]]. exact Hd.
  - cbn [join_sep]. intros E. apply (f_equal (@length byte)) in E. rewrite app_length in E. unfold dot in E. cbn [length] in E.
    destruct c; [now apply (real_nonempty [] Hc)|]. cbn [length] in E. lia.
Qed.

(* Walk's path string for something below the directory is never the directory's own string *)
Lemma render_app_neq a W p :
  base_ok a W -> p <> [] -> Forall real p -> render a (W ++ p) <> render a W.
Proof.
  intros HW Hne Hp. destruct p as [|c p]; [contradiction|]. inversion Hp as [|? ? Hc Hr]; subst.
  assert (L : forall X, X <> [] -> length (join_sep (X ++ c :: p)) > length (join_sep X)).
  { intros X HX. rewrite join_sep_app by (auto; discriminate). rewrite app_length. cbn [length]. lia. }
  destruct W as [|w W].
  - cbn [app]. unfold render. destruct a.
    + intros E. injection E as E. now apply (join_sep_nonempty c p Hc).
    + apply join_sep_real_not_dot; [discriminate|exact Hp].
  - specialize (L (w :: W) ltac:(discriminate)). destruct a.
    + intros E. assert (E' : join_sep ((w :: W) ++ c :: p) = join_sep (w :: W))
        by (unfold render in E; now injection E).
      rewrite E' in L. lia.
    + change (render false ((w :: W) ++ c :: p)) with (join_sep ((w :: W) ++ c :: p)).
      change (render false (w :: W)) with (join_sep (w :: W)). intros E. rewrite E in L. lia.
Qed.

Lemma walk_path_neq d0 p : p <> [] -> Forall real p -> walk_path (clean d0) p <> clean d0.
Proof.
  intros Hne Hp. destruct (clean_shape d0) as [k [R [HR [H0 E]]]]. rewrite E.
  assert (B : base_ok (is_abs d0) (repeat dotdot k ++ R)).
  { destruct (is_abs d0) eqn:Ea; cbn [base_ok].
    - rewrite (H0 eq_refl). exact HR.
    - exists k, R. auto. }
  rewrite (walk_path_render _ p _ B Hp). now apply render_app_neq.
Qed.

Lemma walk_path_snoc d p n : walk_path d (p ++ [n]) = join (walk_path d p) n.
Proof. unfold walk_path. now rewrite fold_left_app. Qed.

(* ------------------------------------------------------------------ trees in Walk's order *)

(* every directory lists its entries in strictly increasing byte order of their names, and every
   name is a real directory entry *)
Definition entries_ok (es : list (bytes * rnode)) : Prop :=
  StronglySorted (klt bytes_cmp) es /\ Forall (fun e => real (fst e)) es.

Fixpoint rnode_walkable (nd : rnode) : Prop :=
  match nd with
  | RFile _ => True
  | RDir es =>
      entries_ok es /\
      (fix all (es : list (bytes * rnode)) : Prop :=
         match es with [] => True | e :: r => rnode_walkable (snd e) /\ all r end) es
  end.

Lemma rnode_walkable_dir es :
  rnode_walkable (RDir es) <-> entries_ok es /\ Forall (fun e => rnode_walkable (snd e)) es.
Proof.
  cbn [rnode_walkable]. split; intros [H1 H2]; split; auto.
  - clear H1. induction es as [|e r IH]; constructor; [apply H2|]. apply IH. apply H2.
  - clear H1. induction H2 as [|e r He Hr IH]; cbn; auto.
Qed.

(* sorting a sorted list of entries with any payload changes nothing *)
Lemma by_entry_sorted f es :
  StronglySorted (klt bytes_cmp) es -> by_entry f es = map (fun e => (fst e, f e)) es.
Proof.
  intros HS. unfold by_entry.
  apply (sort_by_of_perm bytes_cmp bytes_cmp_eq bytes_cmp_antisym bytes_cmp_trans); [|apply Permutation_refl].
  induction HS as [|e r HS IH HF]; cbn [map]; constructor; auto.
  rewrite Forall_forall in *. intros x Hx. apply in_map_iff in Hx. destruct Hx as [y [<- Hy]].
  exact (HF y Hy).
Qed.

(* ------------------------------------------------------------------ the archive, entry by entry *)

Definition add_entries (a : archive) (es : list (bytes * (bytes * bytes))) : archive :=
  {| comment := comment a ++ concat (map fst es); files := files a ++ map snd es |}.

Lemma add_entries_nil a : add_entries a [] = a.
Proof. unfold add_entries. cbn. rewrite !app_nil_r. now destruct a. Qed.

Lemma add_entries_app a l1 l2 : add_entries (add_entries a l1) l2 = add_entries a (l1 ++ l2).
Proof. unfold add_entries. cbn [comment files]. now rewrite !map_app, concat_app, !app_assoc. Qed.

Lemma filter_map_app {A B} (f : A -> option B) l1 l2 : filter_map f (l1 ++ l2) = filter_map f l1 ++ filter_map f l2.
Proof. induction l1 as [|x l1 IH]; [reflexivity|]. cbn. destruct (f x); cbn; now rewrite IH. Qed.

(* ------------------------------------------------------------------ the walk *)

Section WalkSpec.
Variable cwd : path.
Variable fl : sflags.
Variable d0 : bytes.
Variable fs : fsys.
Let dir := clean d0.
Hypothesis not_root : bytes_eqb dir [SEP] = false.

Let fn := src_walkfn_model cwd fl dir.

Lemma walk_node_dir pathstr name es s :
  walk_node _ fn pathstr name (RDir es) s =
  bind (fn s pathstr (name, true, false) WNil) (fun x =>
    if werr_is_nil (snd x) then walk_entries _ fn pathstr es (fst x) else Ok x).
Proof. reflexivity. Qed.

(* the translated walk function over the model, by cases (src_walkfn_eq) *)
Lemma fn_eq a pathstr info :
  fn (fs, Some a) pathstr info WNil =
  Ok (match walk_fn_ops (model_fs cwd) fl fs a dir pathstr info WNil with (w, a', e) => ((w, Some a'), e) end).
Proof.
  unfold fn, src_walkfn_model. cbn [fst snd]. rewrite src_walkfn_eq.
  now destruct (walk_fn_ops (model_fs cwd) fl fs a dir pathstr info WNil) as [[w a'] e].
Qed.

(* what a node contributes: the entries of the regular files the model's walk reaches in it *)
Definition contrib (p : path) (nd : rnode) : list (bytes * (bytes * bytes)) :=
  filter_map (file_entry fl) (rwalk fl p nd).

(* reading a file of the tree at the path Walk hands over yields its contents *)
Definition readable (p : path) (nd : rnode) : Prop :=
  forall q d, In (q, d) (rfiles p nd) -> os_read_file cwd fs (walk_path dir q) = inr d.

Lemma readable_entry p es e : In e es -> readable p (RDir es) -> readable (p ++ [fst e]) (snd e).
Proof.
  intros He H q d Hq. apply H. rewrite rfiles_dir. apply in_concat.
  exists (rfiles (p ++ [fst e]) (snd e)). split; [|exact Hq].
  apply in_map_iff. exists (fst e, rfiles (p ++ [fst e]) (snd e)). split; [reflexivity|].
  eapply Permutation_in; [apply Permutation_sym, sort_by_perm|].
  apply in_map_iff. now exists e.
Qed.

(* one node below the root *)
Lemma walk_node_spec nd : forall p n a,
  rnode_walkable nd -> Forall real (p ++ [n]) -> readable (p ++ [n]) nd ->
  walk_node _ fn (walk_path dir (p ++ [n])) n nd (fs, Some a) =
  if skip_name fl n then Ok ((fs, Some a), if rnode_is_dir nd then werr_SkipDir else WNil)
  else Ok ((fs, Some (add_entries a (contrib (p ++ [n]) nd))), WNil).
Proof.
  induction nd as [d|es IH] using rnode_ind'; intros p n a HW HR HRd.
  - (* a regular file *)
    cbn [walk_node]. rewrite fn_eq. unfold walk_fn_ops. cbn [werr_is_nil negb].
    assert (N1 : bytes_eqb (walk_path dir (p ++ [n])) dir = false).
    { destruct (bytes_eqb (walk_path dir (p ++ [n])) dir) eqn:E; [|reflexivity].
      apply bytes_eqb_eq in E. exfalso. revert E. apply walk_path_neq; [now destruct p|exact HR]. }
    rewrite N1. cbn [model_fs fi_name fi_is_dir fi_mode fm_is_regular op_read_file fst snd rnode_is_dir].
    destruct (skip_name fl n); [reflexivity|]. cbn [Z.eqb negb].
    rewrite (HRd (p ++ [n]) d) by (cbn [rfiles]; now left). cbn [werr_is_nil negb].
    assert (N2 : TxtarWrite.trim_prefix (dir ++ [SEP]) (walk_path dir (p ++ [n])) = join_sep (p ++ [n])).
    { pose proof (entry_name_spec d0 (p ++ [n]) ltac:(now destruct p) HR) as E.
      fold dir in E. rewrite not_root in E. exact E. }
    rewrite N2, <- file_entry_named_eq. unfold contrib. cbn [rwalk filter_map].
    match goal with |- context [file_entry ?x ?y] => destruct (file_entry x y) as [[cl ent]|] end.
    + unfold add_entries. cbn [map concat fst snd]. now rewrite app_nil_r.
    + now rewrite add_entries_nil.
  - (* a directory *)
    rewrite walk_node_dir, fn_eq. unfold walk_fn_ops. cbn [werr_is_nil negb bind].
    assert (N1 : bytes_eqb (walk_path dir (p ++ [n])) dir = false).
    { destruct (bytes_eqb (walk_path dir (p ++ [n])) dir) eqn:E; [|reflexivity].
      apply bytes_eqb_eq in E. exfalso. revert E. apply walk_path_neq; [now destruct p|exact HR]. }
    rewrite N1. cbn [model_fs fi_name fi_is_dir fi_mode fm_is_regular fst snd rnode_is_dir].
    destruct (skip_name fl n); [reflexivity|]. cbn [Z.eqb negb werr_is_nil fst snd].
    apply rnode_walkable_dir in HW. destruct HW as [[HS HN] HWs].
    unfold contrib. rewrite rwalk_dir, (by_entry_sorted _ es HS), map_map. cbn [snd].
    (* the loop over the entries *)
    assert (G : forall l a0, (forall e, In e l -> In e es) ->
      walk_entries _ fn (walk_path dir (p ++ [n])) l (fs, Some a0) =
      Ok ((fs, Some (add_entries a0 (filter_map (file_entry fl)
            (concat (map (fun e => if skip_name fl (fst e) then [] else rwalk fl ((p ++ [n]) ++ [fst e]) (snd e)) l))))), WNil)).
    { induction l as [|e l IHl]; intros a0 Hin.
      - cbn. now rewrite add_entries_nil.
      - cbn [walk_entries map concat]. rewrite <- walk_path_snoc.
        assert (He : In e es) by (apply Hin; now left).
        rewrite Forall_forall in IH, HWs, HN.
        rewrite (IH e He (p ++ [n]) (fst e) a0 (HWs e He)
                   ltac:(apply Forall_app; split; [exact HR|constructor; [exact (HN e He)|constructor]])
                   (readable_entry (p ++ [n]) es e He HRd)).
        rewrite filter_map_app, <- add_entries_app.
        destruct (skip_name fl (fst e)).
        + cbn [bind snd fst]. destruct (rnode_is_dir (snd e)); cbn [werr_is_nil orb andb is_skipdir];
            [replace (werr_eqb werr_SkipDir werr_SkipDir) with true by reflexivity|]; cbn [filter_map];
            rewrite add_entries_nil; apply IHl; intros x Hx; apply Hin; now right.
        + cbn [bind snd fst werr_is_nil orb]. apply IHl. intros x Hx. apply Hin. now right. }
    apply G. auto.
Qed.

(* the whole walk: main of txtar-c between flag.Parse and Format builds the model's archive *)
Theorem src_savedir_walk_eq rt :
  rnode_walkable (RDir rt) -> readable [] (RDir rt) ->
  src_savedir_walk cwd fl fs dir rt = Ok ((fs, Some (savedir_tree fl rt)), WNil).
Proof.
  intros HW HRd. unfold src_savedir_walk, walk_root. fold fn.
  rewrite walk_node_dir, fn_eq. unfold walk_fn_ops. cbn [werr_is_nil negb bind].
  rewrite bytes_eqb_refl. cbn [fst snd werr_is_nil].
  apply rnode_walkable_dir in HW. destruct HW as [[HS HN] HWs].
  assert (G : forall l a0, (forall e, In e l -> In e rt) ->
    walk_entries _ fn dir l (fs, Some a0) =
    Ok ((fs, Some (add_entries a0 (filter_map (file_entry fl)
          (concat (map (fun e => if skip_name fl (fst e) then [] else rwalk fl ([] ++ [fst e]) (snd e)) l))))), WNil)).
  { induction l as [|e l IHl]; intros a0 Hin.
    - cbn. now rewrite add_entries_nil.
    - cbn [walk_entries map concat].
      assert (He : In e rt) by (apply Hin; now left).
      rewrite Forall_forall in HWs, HN.
      change (join dir (fst e)) with (walk_path dir ([] ++ [fst e])).
      rewrite (walk_node_spec (snd e) [] (fst e) a0 (HWs e He)
                 ltac:(constructor; [exact (HN e He)|constructor])
                 (readable_entry [] rt e He HRd)).
      rewrite filter_map_app, <- add_entries_app.
      destruct (skip_name fl (fst e)).
      + cbn [bind snd fst]. destruct (rnode_is_dir (snd e)); cbn [werr_is_nil orb andb is_skipdir];
          [replace (werr_eqb werr_SkipDir werr_SkipDir) with true by reflexivity|]; cbn [filter_map];
          rewrite add_entries_nil; apply IHl; intros x Hx; apply Hin; now right.
      + cbn [bind snd fst werr_is_nil orb]. apply IHl. intros x Hx. apply Hin. now right. }
  rewrite (G rt _ (fun e H => H)). cbn [bind snd fst is_skipdir werr_eqb].
  unfold savedir_tree. rewrite rwalk_dir, (by_entry_sorted _ rt HS), map_map. cbn [snd app].
  unfold add_entries. cbn [comment files app]. reflexivity.
Qed.

End WalkSpec.

(* ------------------------------------------------------------------ the round trip *)

Lemma sorted_nodup (es : list (bytes * rnode)) : StronglySorted (klt bytes_cmp) es -> NoDup (map fst es).
Proof.
  induction 1 as [|e r HS IH HF]; cbn [map]; constructor; auto.
  intros HI. apply in_map_iff in HI. destruct HI as [x [Ex Hx]].
  rewrite Forall_forall in HF. specialize (HF x Hx). unfold klt in HF. rewrite Ex, bytes_cmp_refl in HF. discriminate.
Qed.

Lemma rnode_walkable_ok nd : rnode_walkable nd -> rnode_ok nd.
Proof.
  induction nd as [d|es IH] using rnode_ind'; intros H; [exact I|].
  apply rnode_walkable_dir in H. destruct H as [[HS _] HW]. apply rnode_ok_dir. split; [now apply sorted_nodup|].
  rewrite Forall_forall in *. intros e He. apply IH; auto.
Qed.

(* txtar-c on a tree, then txtar-x on what it printed, BOTH as translated from the source: the
   translated walk function under the hand-modelled filepath.Walk builds an archive a; the
   translated Write, given Parse of Format a, succeeds over the file-system model and every
   archived file is at the same path beneath the directory, holding what was stored; obeying the
   archive's "unquote NAME" lines gives back fix_nl of the original contents; nothing else appears
   beneath the directory except the directories leading to those files.  (The conclusion of
   SavedirFacts.savedir_extract, about the translated functions.) *)
Theorem src_roundtrip fl rt cwdc fsc d0 cwd fs xdir :
  bytes_eqb (clean d0) [SEP] = false ->
  rnode_walkable (RDir rt) -> readable cwdc d0 fsc [] (RDir rt) ->
  Forall real cwd -> Forall nul_free cwd -> has_nul xdir = false -> tree_ok (rflat [] (RDir rt)) ->
  dir_exists fs (resolve cwd xdir) ->
  (forall q, beneath (resolve cwd xdir) q -> get fs q = None) ->
  exists a fs',
    src_savedir_walk cwdc fl fsc (clean d0) rt = Ok ((fsc, Some a), WNil) /\
    tw_Write (model_fs cwd) fs (go_txtar_Parse (format a)) xdir = Ok (fs', WNil) /\
    (forall p d cl n s, In (p, d) (rflat [] (RDir rt)) -> savedir_entry fl (p, d) = Some (cl, (n, s)) ->
       get fs' (resolve cwd xdir ++ p) = Some (File s) /\
       restored (comment (parse (format a))) n s = Some (fix_nl d)) /\
    (forall q x, beneath (resolve cwd xdir) q -> get fs' q = Some x ->
       exists p d e, In (p, d) (rflat [] (RDir rt)) /\ savedir_entry fl (p, d) = Some e /\
         ((q = resolve cwd xdir ++ p /\ exists s, x = File s) \/
          (x = Dir /\ proper q (resolve cwd xdir ++ p)))).
Proof.
  intros NR HW HRd Hc Hn Hx Ht Hd He.
  pose proof (src_savedir_walk_eq cwdc fl d0 fsc NR rt HW HRd) as EW.
  pose proof (savedir_tree_flat fl rt (rflat [] (RDir rt)) (rnode_walkable_ok _ HW) (Permutation_refl _)) as EF.
  destruct (savedir_extract fl (rflat [] (RDir rt)) cwd fs xdir Hc Hn Hx Ht Hd He) as [fs' [EX [P1 P2]]].
  exists (savedir_tree fl rt), fs'. split; [exact EW|].
  unfold extract, txtar_c in EX. rewrite <- EF in EX.
  destruct (src_Write_model cwd fs xdir (parse (format (savedir_tree fl rt)))) as [e [HWr D]].
  rewrite EX in HWr, D. cbn [fst snd] in HWr, D. apply dec_werr_ok in D. subst e.
  split; [exact HWr|]. unfold txtar_c in P1. rewrite <- EF in P1. split; [exact P1|exact P2].
Qed.

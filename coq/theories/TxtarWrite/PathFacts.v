(* Facts about the path model (Path.v): what Clean produces, when the guard of txtar.Write
   lets a cleaned name through, and what Join / Dir / the parent string of MkdirAll do
   with the names that pass. *)
From Coq Require Import List Bool Arith Lia.
From Coq.Strings Require Import Byte.
From GI Require Import Lib.Bytes TxtarWrite.Path.
Import ListNotations.

(* ------------------------------------------------------------------ bytes *)

Lemma beq_refl b : beq b b = true.
Proof. unfold beq. apply Byte.byte_dec_lb. reflexivity. Qed.

Lemma beq_eq a b : beq a b = true -> a = b.
Proof. unfold beq. apply Byte.byte_dec_bl. Qed.

Lemma beq_neq a b : beq a b = false -> a <> b.
Proof. intros H E. subst. rewrite beq_refl in H. discriminate. Qed.

Lemma bytes_eqb_eq a b : bytes_eqb a b = true <-> a = b.
Proof.
  revert b. induction a as [|x a IH]; destruct b as [|y b]; simpl; split; intros H; try discriminate; auto.
  - apply andb_true_iff in H. destruct H as [H1 H2]. apply beq_eq in H1. apply IH in H2. congruence.
  - inversion H; subst. rewrite beq_refl. simpl. apply IH. reflexivity.
Qed.

Lemma bytes_eqb_refl a : bytes_eqb a a = true.
Proof. apply bytes_eqb_eq. reflexivity. Qed.

Lemma bytes_eqb_neq a b : a <> b -> bytes_eqb a b = false.
Proof. intros H. destruct (bytes_eqb a b) eqn:E; auto. apply bytes_eqb_eq in E. contradiction. Qed.

Lemma has_prefix_app p t : has_prefix p (p ++ t) = true.
Proof. induction p; simpl; auto. rewrite beq_refl. auto. Qed.

(* ------------------------------------------------------------------ elements *)

Definition sep_free (c : bytes) : Prop := ~ In SEP c.

(* a real path element: what the default case of Clean's loop copies *)
Definition real (c : bytes) : Prop := c <> [] /\ c <> dot /\ c <> dotdot /\ sep_free c.

Lemma is_sep_true b : is_sep b = true -> b = SEP.
Proof. apply beq_eq. Qed.

Lemma sep_free_cons b c : sep_free (b :: c) <-> is_sep b = false /\ sep_free c.
Proof.
  unfold sep_free, is_sep. simpl. split.
  - intros H. split.
    + destruct (beq b SEP) eqn:E; auto. apply beq_eq in E. exfalso. apply H. left. auto.
    + intros HI. apply H. right. auto.
  - intros [H1 H2] [E|HI]; [subst; rewrite beq_refl in H1; discriminate | auto].
Qed.

Lemma split_sep_nonempty p : exists c cs, split_sep p = c :: cs.
Proof.
  induction p as [|b p IH]; simpl; eauto.
  destruct (is_sep b); eauto. destruct IH as [c [cs E]]. rewrite E. eauto.
Qed.

Lemma split_sep_app a b : split_sep (a ++ SEP :: b) = split_sep a ++ split_sep b.
Proof.
  induction a as [|x a IH]; simpl.
  - reflexivity.
  - destruct (is_sep x); rewrite IH; [reflexivity|].
    destruct (split_sep_nonempty a) as [c [cs E]]. rewrite E. reflexivity.
Qed.

Lemma split_sep_sep_free c : sep_free c -> split_sep c = [c].
Proof.
  induction c as [|b c IH]; intros H; simpl; auto.
  apply sep_free_cons in H. destruct H as [H1 H2]. rewrite H1, IH; auto.
Qed.

(* "/e1/e2/.../en" *)
Definition render' (P : list bytes) : bytes := concat (map (cons SEP) P).

Lemma render'_app P Q : render' (P ++ Q) = render' P ++ render' Q.
Proof. unfold render'. rewrite map_app, concat_app. reflexivity. Qed.

Lemma join_sep_cons c P : P <> [] -> join_sep (c :: P) = c ++ render' P.
Proof.
  revert c. induction P as [|d P IH]; intros c H; [contradiction|].
  destruct P as [|e P].
  - unfold render'. simpl. rewrite app_nil_r. reflexivity.
  - change (join_sep (c :: d :: e :: P)) with (c ++ SEP :: join_sep (d :: e :: P)).
    rewrite IH by discriminate. reflexivity.
Qed.

Lemma render_true P : P <> [] -> render true P = render' P.
Proof.
  intros H. unfold render. destruct P as [|c P]; [contradiction|].
  destruct P as [|d P]; [unfold render'; simpl; rewrite app_nil_r; reflexivity|].
  rewrite join_sep_cons by discriminate. reflexivity.
Qed.

Lemma render_true_nil : render true [] = [SEP].
Proof. reflexivity. Qed.

Lemma split_sep_render' P : Forall sep_free P -> split_sep (render' P) = [] :: P.
Proof.
  induction P as [|c P IH]; intros H; [reflexivity|].
  inversion H; subst. change (render' (c :: P)) with ([] ++ SEP :: (c ++ render' P)).
  rewrite split_sep_app. simpl. f_equal.
  destruct P as [|d P].
  - simpl. rewrite app_nil_r. apply split_sep_sep_free; auto.
  - change (render' (d :: P)) with (SEP :: (d ++ render' P)).
    rewrite split_sep_app. rewrite split_sep_sep_free by auto.
    specialize (IH H3). change (render' (d :: P)) with ([] ++ SEP :: (d ++ render' P)) in IH.
    rewrite split_sep_app in IH. simpl in IH. inversion IH as [E]. rewrite E. reflexivity.
Qed.

Lemma split_sep_join_sep P : P <> [] -> Forall sep_free P -> split_sep (join_sep P) = P.
Proof.
  intros HP H. destruct P as [|c P]; [contradiction|]. inversion H; subst.
  destruct P as [|d P]; [apply split_sep_sep_free; auto|].
  rewrite join_sep_cons by discriminate.
  change (render' (d :: P)) with (SEP :: (d ++ render' P)).
  rewrite split_sep_app, split_sep_sep_free by auto.
  pose proof (split_sep_render' (d :: P) H3) as E.
  change (render' (d :: P)) with ([] ++ SEP :: (d ++ render' P)) in E.
  rewrite split_sep_app in E. simpl in E. inversion E as [E']. rewrite E'. reflexivity.
Qed.

(* ------------------------------------------------------------------ the loop of Clean *)

Lemma real_sep_free c : real c -> sep_free c.
Proof. intros H. apply H. Qed.

Lemma clean_step_real r out dd c : real c -> clean_step r (out, dd) c = (c :: out, dd).
Proof.
  intros [H1 [H2 [H3 _]]]. unfold clean_step.
  rewrite (bytes_eqb_neq c []), (bytes_eqb_neq c dot), (bytes_eqb_neq c dotdot); auto.
Qed.

Lemma clean_step_empty r st : clean_step r st [] = st.
Proof. destruct st. reflexivity. Qed.

Lemma clean_step_dot r st : clean_step r st dot = st.
Proof. destruct st. reflexivity. Qed.

Lemma clean_run_app r A B st : clean_run r (A ++ B) st = clean_run r B (clean_run r A st).
Proof. apply fold_left_app. Qed.

Lemma clean_run_cons r c cs st : clean_run r (c :: cs) st = clean_run r cs (clean_step r st c).
Proof. reflexivity. Qed.

Lemma clean_run_reals r R out dd :
  Forall real R -> clean_run r R (out, dd) = (rev R ++ out, dd).
Proof.
  revert out. induction R as [|c R IH]; intros out H; [reflexivity|].
  inversion H; subst. rewrite clean_run_cons, clean_step_real by auto.
  rewrite IH by auto. simpl. rewrite <- app_assoc. reflexivity.
Qed.

(* the invariant of the loop: the output is [dd] ".." elements (none when rooted)
   followed by real elements *)
Definition cinv (rooted : bool) (st : list bytes * nat) : Prop :=
  exists R, fst st = R ++ repeat dotdot (snd st) /\ Forall real R /\ (rooted = true -> snd st = 0).

Lemma repeat_snoc {A} (x : A) n : repeat x n ++ [x] = x :: repeat x n.
Proof. induction n; simpl; auto. rewrite IHn. reflexivity. Qed.

Lemma rev_repeat {A} (x : A) n : rev (repeat x n) = repeat x n.
Proof. induction n; simpl; auto. rewrite IHn. apply repeat_snoc. Qed.


(* elements produced by split_sep never contain a separator *)
Lemma split_sep_sep_free_all p : Forall sep_free (split_sep p).
Proof.
  induction p as [|b p IH]; simpl.
  - constructor; [intros []|constructor].
  - destruct (is_sep b) eqn:E.
    + constructor; [intros []|auto].
    + destruct (split_sep p) as [|c cs]; [constructor; [|constructor]|].
      * apply sep_free_cons. split; auto. intros [].
      * inversion IH; subst. constructor; auto. apply sep_free_cons. auto.
Qed.

Lemma cinv_step rooted st c : sep_free c -> cinv rooted st -> cinv rooted (clean_step rooted st c).
Proof.
  intros Hc [R [E [HR H0]]]. destruct st as [out dd]. simpl in *. subst out.
  unfold clean_step.
  destruct (bytes_eqb c []) eqn:E1; [exists R; auto|].
  destruct (bytes_eqb c dot) eqn:E2; [exists R; auto|].
  destruct (bytes_eqb c dotdot) eqn:E3.
  - rewrite app_length, repeat_length.
    destruct (Nat.ltb dd (length R + dd)) eqn:EL.
    + apply Nat.ltb_lt in EL. destruct R as [|x R]; [simpl in EL; lia|].
      inversion HR; subst. exists R. simpl. auto.
    + apply Nat.ltb_ge in EL. assert (R = []) by (destruct R; simpl in EL; [auto|lia]). subst R.
      destruct rooted.
      * exists []. simpl. auto.
      * exists []. simpl. split; [reflexivity|]. split; [constructor|discriminate].
  - exists (c :: R). simpl. split; [reflexivity|]. split; [|auto].
    constructor; auto.
    assert (Hs : forall x y, bytes_eqb x y = false -> x <> y)
      by (intros x y Hf Hxy; subst; rewrite bytes_eqb_refl in Hf; discriminate).
    split; [apply Hs; auto|]. split; [apply Hs; auto|]. split; [apply Hs; auto|auto].
Qed.

Lemma cinv_run rooted cs st :
  Forall sep_free cs -> cinv rooted st -> cinv rooted (clean_run rooted cs st).
Proof.
  revert st. induction cs as [|c cs IH]; intros st H Hi; [exact Hi|].
  inversion H; subst. rewrite clean_run_cons. apply IH; auto. apply cinv_step; auto.
Qed.

Lemma cinv_init rooted : cinv rooted ([], 0).
Proof. exists []. simpl. auto. Qed.


(* ------------------------------------------------------------------ what Clean returns *)

Lemma clean_shape p :
  exists k R, Forall real R /\ (is_abs p = true -> k = 0) /\
              clean p = render (is_abs p) (repeat dotdot k ++ R).
Proof.
  destruct p as [|b p].
  - exists 0, []. simpl. auto.
  - unfold clean.
    pose proof (cinv_run (is_abs (b :: p)) (split_sep (b :: p)) ([], 0)
                  (split_sep_sep_free_all _) (cinv_init _)) as [R [E [HR H0]]].
    destruct (clean_run (is_abs (b :: p)) (split_sep (b :: p)) ([], 0)) as [out dd]. simpl in *.
    exists dd, (rev R). split; [apply Forall_rev; auto|]. split; [auto|].
    subst out. rewrite rev_app_distr, rev_repeat. reflexivity.
Qed.

(* the first byte of an element that is "..", or real, is not a separator, and such an
   element is not empty *)
Lemma is_abs_render_false cs :
  Forall (fun c => c = dotdot \/ real c) cs -> is_abs (render false cs) = false.
Proof.
  intros H. unfold render. destruct cs as [|c cs]; [reflexivity|].
  inversion H as [|? ? Hc Hcs]; subst.
  assert (Hb : exists b t, c = b :: t /\ is_sep b = false).
  { destruct Hc as [->|[H1 [_ [_ H4]]]]; [exists DOT, [DOT]; auto|].
    destruct c as [|b t]; [contradiction|]. exists b, t. split; auto.
    apply sep_free_cons in H4. apply H4. }
  destruct Hb as [b [t [-> Hb]]].
  destruct cs; simpl; auto.
Qed.

Lemma clean_is_abs p : is_abs (clean p) = is_abs p.
Proof.
  destruct (clean_shape p) as [k [R [HR [H0 E]]]]. rewrite E.
  destruct (is_abs p) eqn:Ea; [reflexivity|].
  apply is_abs_render_false. apply Forall_app. split.
  - apply Forall_forall. intros x Hx. apply repeat_spec in Hx. auto.
  - eapply Forall_impl; [|exact HR]. auto.
Qed.

Definition dotdot_sep : bytes := dotdot ++ [SEP].

(* a real element followed by anything does not begin with "../" *)
Lemma real_no_dotdot_sep c t : real c -> has_prefix dotdot_sep (c ++ t) = false.
Proof.
  intros [H1 [H2 [H3 H4]]]. unfold dotdot_sep, dotdot. simpl.
  destruct c as [|x c]; [contradiction|]. simpl.
  destruct (beq DOT x) eqn:Ex; [|reflexivity]. apply beq_eq in Ex. subst x. simpl.
  destruct c as [|y c]; [exfalso; apply H2; reflexivity|]. simpl.
  destruct (beq DOT y) eqn:Ey; [|reflexivity]. apply beq_eq in Ey. subst y. simpl.
  destruct c as [|z c]; [exfalso; apply H3; reflexivity|]. simpl.
  destruct (beq SEP z) eqn:Ez; [|reflexivity]. apply beq_eq in Ez. subst z.
  exfalso. apply H4. simpl. auto.
Qed.

Lemma real_join_not_dotdot c P : real c -> join_sep (c :: P) <> dotdot.
Proof.
  intros Hc. destruct P as [|d P].
  - simpl. apply Hc.
  - rewrite join_sep_cons by discriminate.
    change (render' (d :: P)) with (SEP :: (d ++ render' P)).
    destruct Hc as [H1 [H2 [H3 H4]]]. intros E.
    destruct c as [|x c]; [contradiction|]. destruct c as [|y c].
    + simpl in E. inversion E.
    + destruct c as [|z c]; simpl in E; inversion E.
Qed.

(* THE KEY LEMMA.  A cleaned name that is not absolute, is not ".." and does not begin
   with "../" is "." or consists of real elements only: it contains no ".." element. *)
Lemma clean_passes_guard p :
  is_abs (clean p) = false -> clean p <> dotdot -> has_prefix dotdot_sep (clean p) = false ->
  exists R, Forall real R /\ clean p = render false R.
Proof.
  intros Ha Hd Hp. destruct (clean_shape p) as [k [R [HR [H0 E]]]].
  rewrite clean_is_abs in Ha. rewrite Ha in E.
  destruct k as [|k]; [exists R; auto|]. exfalso.
  rewrite E in Hd, Hp. simpl in Hd, Hp.
  destruct (repeat dotdot k ++ R) as [|d P] eqn:EP.
  - apply Hd. reflexivity.
  - rewrite !beq_refl in Hp. discriminate.
Qed.

(* and conversely such names pass *)
Lemma render_false_passes R :
  Forall real R ->
  is_abs (render false R) = false /\ render false R <> dotdot /\
  has_prefix dotdot_sep (render false R) = false.
Proof.
  intros HR. split; [|split].
  - apply is_abs_render_false. eapply Forall_impl; [|exact HR]. auto.
  - destruct R as [|c P]; [discriminate|]. inversion HR; subst. apply real_join_not_dotdot; auto.
  - destruct R as [|c P]; [reflexivity|]. inversion HR; subst. unfold render.
    destruct P as [|d P]; [rewrite <- (app_nil_r c); apply real_no_dotdot_sep; auto|].
    rewrite join_sep_cons by discriminate. apply real_no_dotdot_sep; auto.
Qed.

(* Clean leaves a name made of real elements alone *)
Lemma clean_render_false R : R <> [] -> Forall real R -> clean (join_sep R) = join_sep R.
Proof.
  intros HN HR.
  pose proof (render_false_passes R HR) as [Ha _].
  assert (HS : Forall sep_free R) by (eapply Forall_impl; [|exact HR]; apply real_sep_free).
  unfold render in Ha. destruct R as [|c P]; [contradiction|].
  unfold clean. destruct (join_sep (c :: P)) as [|b t] eqn:EJ.
  - exfalso. inversion HR; subst. destruct H1 as [H1 _].
    destruct P; [simpl in EJ; contradiction|]. rewrite join_sep_cons in EJ by discriminate.
    destruct c; [contradiction|discriminate].
  - rewrite Ha. rewrite <- EJ. rewrite split_sep_join_sep by (auto; discriminate).
    rewrite clean_run_reals by auto. cbn [fst]. rewrite app_nil_r, rev_involutive. reflexivity.
Qed.

(* ------------------------------------------------------------------ resolve, Join, Dir *)

Lemma rooted_run_real cs out :
  Forall sep_free cs -> Forall real out ->
  exists out', clean_run true cs (out, 0) = (out', 0) /\ Forall real out'.
Proof.
  intros Hcs Ho.
  assert (Hi : cinv true (out, 0)) by (exists out; simpl; rewrite app_nil_r; auto).
  pose proof (cinv_run true cs (out, 0) Hcs Hi) as [R [E [HR H0]]].
  destruct (clean_run true cs (out, 0)) as [out' dd]. simpl in *.
  rewrite (H0 eq_refl) in *. simpl in E. rewrite app_nil_r in E. subst. eauto.
Qed.

Lemma resolve_real cwd p : Forall real cwd -> Forall real (resolve cwd p).
Proof.
  intros H. unfold resolve.
  destruct (rooted_run_real (split_sep p) (if is_abs p then [] else rev cwd)
              (split_sep_sep_free_all p)) as [out' [E HR]].
  - destruct (is_abs p); [constructor|apply Forall_rev; auto].
  - rewrite E. simpl. apply Forall_rev. auto.
Qed.

Lemma resolve_abs_real cwd p : is_abs p = true -> Forall real (resolve cwd p).
Proof.
  intros Ha. unfold resolve. rewrite Ha.
  destruct (rooted_run_real (split_sep p) [] (split_sep_sep_free_all p)) as [out' [E HR]];
    [constructor|]. rewrite E. simpl. apply Forall_rev. auto.
Qed.

Lemma is_abs_app_abs a t : is_abs a = true -> is_abs (a ++ t) = true.
Proof. destruct a; simpl; auto; discriminate. Qed.

(* what the rendering of an absolute path of real elements denotes *)
Lemma resolve_render_true cwd P : Forall real P -> resolve cwd (render true P) = P.
Proof.
  intros HR. assert (HS : Forall sep_free P) by (eapply Forall_impl; [|exact HR]; apply real_sep_free).
  destruct P as [|c P]; [reflexivity|].
  rewrite render_true by discriminate. unfold resolve.
  assert (Ea : is_abs (render' (c :: P)) = true) by (simpl; unfold is_sep; apply beq_refl).
  rewrite Ea, split_sep_render' by auto.
  change ([] :: c :: P) with ([[]] ++ (c :: P)). rewrite clean_run_app.
  change (clean_run true [[]] ([], 0)) with (@nil bytes, 0).
  rewrite clean_run_reals by auto. cbn [fst]. rewrite app_nil_r, rev_involutive. reflexivity.
Qed.

(* Join(dir, name) for an absolute dir and a name that passed the guard *)
Lemma join_abs cwd dir R :
  is_abs dir = true -> Forall real R ->
  join dir (render false R) = render true (resolve cwd dir ++ R).
Proof.
  intros Ha HR. assert (HS : Forall sep_free R) by (eapply Forall_impl; [|exact HR]; apply real_sep_free).
  unfold join. destruct dir as [|b dir]; [discriminate|].
  unfold clean. destruct ((b :: dir) ++ SEP :: render false R) as [|x t] eqn:EP; [discriminate|].
  rewrite <- EP. rewrite (is_abs_app_abs _ _ Ha). rewrite split_sep_app, clean_run_app.
  unfold resolve. rewrite Ha.
  destruct (rooted_run_real (split_sep (b :: dir)) [] (split_sep_sep_free_all _)) as [out' [E HO]];
    [constructor|]. rewrite E. cbn [fst].
  destruct R as [|c P].
  - simpl render. change (split_sep dot) with [dot].
    change (clean_run true [dot] (out', 0)) with (out', 0). simpl. rewrite app_nil_r. reflexivity.
  - change (render false (c :: P)) with (join_sep (c :: P)).
    rewrite split_sep_join_sep by (auto; discriminate).
    rewrite clean_run_reals by auto. cbn [fst]. rewrite rev_app_distr, rev_involutive. reflexivity.
Qed.

Lemma drop_while_sep_free l m :
  sep_free l -> drop_while (fun b => negb (is_sep b)) (l ++ SEP :: m) = SEP :: m.
Proof.
  induction l as [|x l IH]; intros H; simpl.
  - reflexivity.
  - apply sep_free_cons in H. destruct H as [H1 H2]. rewrite H1. simpl. auto.
Qed.

Lemma sep_free_rev c : sep_free c -> sep_free (rev c).
Proof. unfold sep_free. intros H HI. apply H. apply in_rev. auto. Qed.

(* Dir of "/e1/.../en/c" is "/e1/.../en"; Dir of "/" is "/" *)
Lemma dir_of_render_snoc P c :
  Forall real P -> real c -> dir_of (render true (P ++ [c])) = render true P.
Proof.
  intros HP Hc. assert (HS : Forall sep_free P) by (eapply Forall_impl; [|exact HP]; apply real_sep_free).
  rewrite render_true by (destruct P; discriminate).
  rewrite render'_app. unfold dir_of. simpl render' at 2.
  unfold render' at 2. simpl. rewrite app_nil_r.
  rewrite rev_app_distr. simpl rev at 1. rewrite <- app_assoc. simpl.
  rewrite drop_while_sep_free by (apply sep_free_rev, real_sep_free; auto).
  simpl rev. rewrite rev_involutive.
  unfold clean. destruct (render' P ++ [SEP]) as [|x t] eqn:EP; [destruct (render' P); discriminate|].
  rewrite <- EP.
  assert (Ea : is_abs (render' P ++ [SEP]) = true).
  { destruct P; simpl; unfold is_sep; apply beq_refl. }
  rewrite Ea. change [SEP] with (SEP :: []). rewrite split_sep_app, split_sep_render' by auto.
  simpl split_sep. change (([] :: P) ++ [[]]) with ([[]] ++ (P ++ [[]])).
  rewrite clean_run_app. change (clean_run true [[]] ([], 0)) with (@nil bytes, 0).
  rewrite clean_run_app, clean_run_reals by auto.
  simpl. rewrite app_nil_r, rev_involutive. reflexivity.
Qed.

Lemma dir_of_root : dir_of (render true []) = render true [].
Proof. reflexivity. Qed.

(* the string MkdirAll recurses on *)
Lemma parent_str_render_snoc P c : real c -> parent_str (render' (P ++ [c])) = render' P.
Proof.
  intros Hc. rewrite render'_app. unfold parent_str.
  unfold render' at 2. simpl. rewrite app_nil_r.
  rewrite rev_app_distr. simpl rev at 1. rewrite <- app_assoc. simpl.
  destruct Hc as [H1 [_ [_ H4]]].
  assert (Hr : exists x t, rev c = x :: t /\ is_sep x = false).
  { destruct (rev c) as [|x t] eqn:E.
    - exfalso. apply H1. rewrite <- (rev_involutive c), E. reflexivity.
    - exists x, t. split; auto. apply sep_free_rev in H4. rewrite E in H4.
      apply sep_free_cons in H4. apply H4. }
  destruct Hr as [x [t [E Hx]]].
  assert (Ed : drop_while is_sep (rev c ++ SEP :: rev (render' P)) = rev c ++ SEP :: rev (render' P)).
  { rewrite E. simpl. rewrite Hx. reflexivity. }
  rewrite Ed. rewrite drop_while_sep_free by (apply sep_free_rev; auto).
  apply rev_involutive.
Qed.

Lemma parent_str_root : parent_str [SEP] = [].
Proof. reflexivity. Qed.

Lemma nonempty_render' P : (match render' P with [] => false | _ => true end) = (match P with [] => false | _ => true end).
Proof. destruct P; reflexivity. Qed.

(* prefix order on resolved paths *)
Definition within (D p : path) : Prop := exists q, p = D ++ q.
Definition beneath (D p : path) : Prop := exists c q, p = D ++ c :: q.

Lemma within_refl D : within D D.
Proof. exists []. rewrite app_nil_r. reflexivity. Qed.

Lemma within_app_cases (p D R : path) :
  within p (D ++ R) -> within p D \/ within D p.
Proof.
  revert D. induction p as [|x p IH]; intros D [q E].
  - left. exists D. reflexivity.
  - destruct D as [|y D].
    + right. exists (x :: p). reflexivity.
    + simpl in E. inversion E; subst.
      destruct (IH D) as [[q' H]|[q' H]]; [exists q; auto| |].
      * left. exists q'. simpl. rewrite H. reflexivity.
      * right. exists q'. simpl. rewrite H. reflexivity.
Qed.
